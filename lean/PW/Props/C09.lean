/-
  C09 — Polyline is an immutable value whose edits match a plain list-of-points model.

  Property theorems only (helper lemmas live in PW/Lemmas/PolylineOps.lean).  The model
  (PW.Model.PolylineOps) mirrors polliwog/polyline/_polyline_object.py; the theorems say what each method
  returns in terms of plain list operations on the vertex list.  All index / list theorems hold for an
  arbitrary coordinate type `K`; the ones that compare coordinates are over an arbitrary linearly
  ordered field, `aligned_with` over ℝ (it normalises a vector).

  Immutability: every model function is a pure function of its arguments and returns a new value, so "the
  receiver is unchanged" is trivially true of the model; it is meaningful through the correspondence check,
  which re-reads every live object after every operation (read-only flags, no shared memory: corr-only).
-/
import PW.Model.PolylineOps
import PW.Gen.PolyOps
import PW.Lemmas.PolylineOps
import PW.Lemmas.Vec
import Mathlib.Data.List.Basic
import Mathlib.Tactic.Linarith
import Mathlib.Algebra.Order.Field.Basic
import Mathlib.Tactic.FieldSimp
import Mathlib.Tactic.Ring
import Mathlib.Tactic.LinearCombination
import Mathlib.Tactic.Positivity
import Mathlib.Analysis.SpecialFunctions.Sqrt

set_option linter.unusedSectionVars false
set_option linter.unusedVariables false

namespace PW.C09

open PW PW.NP PW.Polyline PW.C09L

variable {K : Type}

/-! ## edges, counts -/

/-- `e` joins consecutive vertices, plus last-to-first exactly when closed. -/
theorem edges_spec (p : Polyline K) :
    p.edges = (List.range (p.numV - 1)).map (fun i => (i, i + 1))
      ++ (if p.closed = true ∧ 0 < p.numV then [(p.numV - 1, 0)] else []) := by
  obtain ⟨v, closed⟩ := p
  simp only [Polyline.edges, Polyline.numV, edgesFor]
  cases closed
  · simp
  · simp only [if_true, Bool.true_and, true_and]
    generalize v.length = n
    cases n with
    | zero => simp
    | succ m =>
      simp only [if_true, Nat.add_sub_cancel, List.range_succ, List.map_append, List.map_cons, List.map_nil,
        Nat.zero_lt_succ, beq_self_eq_true]
      congr 1
      apply List.map_congr_left
      intro i hi
      have : i < m := List.mem_range.mp hi
      have hne : (i + 1 == m + 1) = false := by simp; omega
      simp [hne]

/-- `num_e = num_v` when closed, `num_v - 1` when open (`0` for no vertices). -/
theorem num_e_spec (p : Polyline K) : p.numE = if p.closed then p.numV else p.numV - 1 := by
  simp [Polyline.numE, Polyline.edges, length_edgesFor]

/-- `len(p) = num_v = number of rows of v`. -/
theorem len_spec (p : Polyline K) : p.len = p.v.length ∧ p.numV = p.v.length := ⟨rfl, rfl⟩

/-- `segments = v[e]`: segment `i` joins the two vertices named by edge `i`. -/
theorem segments_spec (p : Polyline K) (i : Nat) (hi : i < p.numE) :
    p.segments[i]? = (p.edges[i]?).bind fun e => (p.v[e.1]?).bind fun a => (p.v[e.2]?).map fun b => (a, b) :=
  segments_getElem? p i hi

/-! ## flipped -/

theorem flipped_spec (p : Polyline K) :
    p.flipped.closed = p.closed ∧ p.flipped.numV = p.numV ∧
      ∀ i, i < p.numV → p.flipped.v[i]? = p.v[p.numV - 1 - i]? := by
  refine ⟨rfl, by simp [Polyline.flipped, Polyline.numV], ?_⟩
  intro i hi
  exact List.getElem?_reverse hi

theorem flipped_involution (p : Polyline K) : p.flipped.flipped = p := by
  simp [Polyline.flipped]

theorem flipped_if_spec (p : Polyline K) (c : Bool) :
    p.flippedIf c = if c then p.flipped else p := rfl

/-! ## rolled -/

/-- Python's `(i + index) % n` -/
def rolledIndex (n : Nat) (index : Int) (i : Nat) : Nat := (((i : Int) + index) % (n : Int)).toNat

theorem rolledIndex_eq (n : Nat) (hn : 0 < n) (index : Int) (i : Nat) :
    rolledIndex n index i = (i + rollAmount n index) % n := by
  unfold rolledIndex
  rw [← rollAmount_mod n hn index i, Int.toNat_natCast]

private theorem mod_two (a n : Nat) (hn : 0 < n) (h : a < 2 * n) : a % n = if a < n then a else a - n := by
  split_ifs with h1
  · exact Nat.mod_eq_of_lt h1
  · rw [Nat.mod_eq_sub_mod (by omega), Nat.mod_eq_of_lt (by omega)]

private theorem succ_mod_roll (n i k : Nat) (hi : i < n) (hk : k < n) :
    ((if i + 1 = n then 0 else i + 1) + k) % n = if (i + k) % n + 1 = n then 0 else (i + k) % n + 1 := by
  have hn : 0 < n := by omega
  have e1 := mod_two (i + k) n hn (by omega)
  have e2 := mod_two ((if i + 1 = n then 0 else i + 1) + k) n hn (by split_ifs <;> omega)
  generalize (i + k) % n = m at *
  generalize ((if i + 1 = n then 0 else i + 1) + k) % n = m' at *
  split_ifs at * <;> omega

/-- `rolled(index)` on a closed polyline, for **any** integer `index` (negative, larger than `num_v`):
    vertex `i` of the result is vertex `(i + index) mod n` of the receiver, the returned edge mapping is
    `i ↦ (i + index) mod n`, and segment `i` of the result is segment `mapping[i]` of the receiver. -/
theorem rolled_spec (p : Polyline K) (index : Int) (hc : p.closed = true) :
    ∃ q mapping, p.rolled index = .ok (q, mapping) ∧ q.closed = true ∧ q.numV = p.numV ∧
      mapping.length = p.numV ∧
      ∀ i, i < p.numV →
        q.v[i]? = p.v[rolledIndex p.numV index i]? ∧
        mapping[i]? = some (rolledIndex p.numV index i) ∧
        q.segments[i]? = p.segments[rolledIndex p.numV index i]? := by
  obtain ⟨v, closed⟩ := p
  simp only at hc
  subst hc
  simp only [Polyline.numV]
  refine ⟨⟨npRoll v (-index), true⟩, npRoll (List.range v.length) (-index), by simp [Polyline.rolled, Polyline.numV],
    rfl, by simp [length_npRoll], by simp [length_npRoll], ?_⟩
  intro i hi
  have hn : 0 < v.length := by omega
  have hk := rollAmount_lt v.length hn index
  have hv : ∀ j, j < v.length → (npRoll v (-index))[j]? = v[(j + rollAmount v.length index) % v.length]? :=
    fun j hj => npRoll_neg_getElem? v index j hj
  rw [rolledIndex_eq _ hn]
  have hm : (i + rollAmount v.length index) % v.length < v.length := Nat.mod_lt _ hn
  refine ⟨hv i hi, ?_, ?_⟩
  · have := npRoll_neg_getElem? (List.range v.length) index i (by simpa using hi)
    simp only [List.length_range] at this
    rw [this, List.getElem?_range hm]
  · rw [segments_getElem? _ i (by simp [Polyline.numE, Polyline.edges, Polyline.numV, length_edgesFor, length_npRoll]; exact hi),
      segments_getElem? _ _ (by simp [Polyline.numE, Polyline.edges, Polyline.numV, length_edgesFor]; exact hm)]
    simp only [Polyline.edges, Polyline.numV, length_npRoll]
    rw [edgesFor_getElem? _ _ _ (by simpa using hi), edgesFor_getElem? _ _ _ (by simpa using hm)]
    simp only [Option.bind_some, true_and]
    rw [hv i hi, hv _ (by split_ifs <;> omega), succ_mod_roll _ _ _ hi hk]

/-! ## sliced_at_indices -/

/-- `start < stop` (both in range): the vertices `start .. stop-1`, open; the same for open and closed. -/
theorem sliced_forward (p : Polyline K) (s e : Nat) (hs : s < e) (he : e ≤ p.numV) :
    ∃ q, p.slicedAtIndices s e = .ok q ∧ q.closed = false ∧ q.numV = e - s ∧
      ∀ i, i < e - s → q.v[i]? = p.v[s + i]? := by
  refine ⟨⟨pySlice p.v s e, false⟩, ?_, rfl, length_pySlice_in_range p.v s e (le_of_lt hs) he, ?_⟩
  · unfold Polyline.slicedAtIndices
    rw [if_neg (by omega)]
  · intro i hi
    exact pySlice_getElem? p.v s e (le_of_lt hs) he i hi

/-- `stop ≤ start` on a closed polyline wraps around the end: `n - start + stop` vertices starting at
    `start`, indices taken mod `n`; the result is open. -/
theorem sliced_wrap (p : Polyline K) (s e : Nat) (hc : p.closed = true) (hes : e ≤ s) (hs : s ≤ p.numV) :
    ∃ q, p.slicedAtIndices s e = .ok q ∧ q.closed = false ∧ q.numV = p.numV - s + e ∧
      ∀ i, i < p.numV - s + e → q.v[i]? = p.v[(s + i) % p.numV]? := by
  have hcast : (p.numV : Int) - (s : Int) + (e : Int) = ((p.numV - s + e : Nat) : Int) := by omega
  have hlen : (npRoll p.v (-(s : Int))).length = p.numV := length_npRoll _ _
  refine ⟨⟨pySlice (npRoll p.v (-(s : Int))) 0 ((p.numV : Int) - s + e), false⟩, ?_, rfl, ?_, ?_⟩
  · unfold Polyline.slicedAtIndices
    rw [if_pos (by omega), if_pos hc]
  · rw [hcast]
    have := length_pySlice_in_range (npRoll p.v (-(s : Int))) 0 (p.numV - s + e) (by omega) (by omega)
    simpa [Polyline.numV] using this
  · intro i hi
    rw [hcast]
    have h1 := pySlice_getElem? (npRoll p.v (-(s : Int))) 0 (p.numV - s + e) (by omega) (by omega) i (by omega)
    simp only [Nat.cast_zero, Nat.zero_add] at h1
    show (pySlice (npRoll p.v (-(s : Int))) 0 ((p.numV - s + e : Nat) : Int))[i]? = _
    rw [h1, npRoll_neg_getElem? p.v s i (by simp [Polyline.numV] at *; omega)]
    have hn : 0 < p.numV := by omega
    have : rollAmount p.v.length (s : Int) = s % p.v.length := by
      unfold rollAmount
      rw [← Int.natCast_mod, Int.toNat_natCast]
    rw [this]
    simp only [Polyline.numV]
    rw [Nat.add_mod_mod, Nat.add_comm]

/-- `stop ≤ start` on an open polyline: ValueError. -/
theorem sliced_open_reversed (p : Polyline K) (start stop : Int) (ho : p.closed = false) (h : stop ≤ start) :
    p.slicedAtIndices start stop = .error .ValueError := by
  simp [Polyline.slicedAtIndices, h, ho]

/-- **sliced_at_indices_spec**: the three cases together. -/
theorem sliced_at_indices_spec (p : Polyline K) :
    (∀ s e : Nat, s < e → e ≤ p.numV →
      ∃ q, p.slicedAtIndices s e = .ok q ∧ q.closed = false ∧ q.numV = e - s ∧
        ∀ i, i < e - s → q.v[i]? = p.v[s + i]?) ∧
    (p.closed = true → ∀ s e : Nat, e ≤ s → s ≤ p.numV →
      ∃ q, p.slicedAtIndices s e = .ok q ∧ q.closed = false ∧ q.numV = p.numV - s + e ∧
        ∀ i, i < p.numV - s + e → q.v[i]? = p.v[(s + i) % p.numV]?) ∧
    (p.closed = false → ∀ start stop : Int, stop ≤ start → p.slicedAtIndices start stop = .error .ValueError) :=
  ⟨fun s e h1 h2 => sliced_forward p s e h1 h2, fun hc s e h1 h2 => sliced_wrap p s e hc h1 h2,
    fun ho a b h => sliced_open_reversed p a b ho h⟩

/-! ## sectioned -/

/-- the (start, end) vertex ranges `sectioned` cuts at: `[0, b₀+1), [b₀, b₁+1), …, [b_last, n)` -/
def sectionRanges (n : Nat) (bps : List Int) : List (Int × Int) :=
  List.zip (0 :: bps) (bps.map (· + 1) ++ [(n : Int)])

private theorem ranges_valid (n : Nat) :
    ∀ (bps : List Int) (s0 : Int), 0 ≤ s0 →
      (∀ r ∈ List.zip (s0 :: bps) (bps.map (· + 1) ++ [(n : Int)]), 1 ≤ r.2 - r.1 - 1) →
      ∀ r ∈ List.zip (s0 :: bps) (bps.map (· + 1) ++ [(n : Int)]), 0 ≤ r.1 ∧ r.1 + 2 ≤ r.2 ∧ r.2 ≤ n
  | [], s0, h0, h, r, hr => by
    simp at hr h
    subst hr
    simp; omega
  | b :: bs, s0, h0, h, r, hr => by
    simp only [List.map_cons, List.cons_append, List.zip_cons_cons, List.mem_cons] at hr h
    have hfirst := h (s0, b + 1) (Or.inl rfl)
    simp at hfirst
    have ih := ranges_valid n bs b (by omega) (fun r hr => h r (Or.inr hr))
    rcases hr with rfl | hr
    · refine ⟨h0, by simp; omega, ?_⟩
      -- the next range starts at b and ends ≤ n
      cases bs with
      | nil =>
        have := ih (b, (n : Int)) (by simp)
        simp at this ⊢; omega
      | cons b' bs' =>
        have := ih (b, b' + 1) (by simp)
        have h2 := ih
        simp at this ⊢
        -- b + 2 ≤ b' + 1 ≤ n
        omega
    · exact ih r hr


theorem sectioned_eq (p : Polyline K) (bps : List Int) (ho : p.closed = false) :
    p.sectioned bps =
      if (sectionRanges p.numV bps).any (fun r => decide (r.2 - r.1 - 1 < 1)) then .error .ValueError
      else .ok ((sectionRanges p.numV bps).map fun r => ⟨pySlice p.v r.1 r.2, false⟩) := by
  unfold Polyline.sectioned sectionRanges
  have h1 : ∀ (A B : List Int), List.zipWith (fun s e => e - s - 1) A B = (A.zip B).map (fun r => r.2 - r.1 - 1) := by
    intro A B; rw [List.map_zip_eq_zipWith]; rfl
  have h2 : ∀ (A B : List Int), List.zipWith (fun s e => (⟨pySlice p.v s e, false⟩ : Polyline K)) A B
      = (A.zip B).map (fun r => ⟨pySlice p.v r.1 r.2, false⟩) := by
    intro A B; rw [List.map_zip_eq_zipWith]; rfl
  simp only [ho, Bool.false_eq_true, if_false]
  rw [h1, h2, List.any_map]
  rfl

private theorem pySlice_int (v : List (V3 K)) (a b : Int) (ha : 0 ≤ a) (hab : a ≤ b) (hb : b ≤ v.length) :
    pySlice v a b = (v.drop a.toNat).take (b.toNat - a.toNat) := by
  have := pySlice_in_range v a.toNat b.toNat (by omega) (by omega)
  rwa [Int.toNat_of_nonneg ha, Int.toNat_of_nonneg (by omega)] at this

/-- **sectioned_spec** (open polyline, every section has at least one edge): one section per range
    `[0, b₀], [b₀, b₁], …, [b_last, n-1]` (inclusive), each an open polyline holding exactly those vertices;
    all breakpoints are in range. -/
theorem sectioned_spec (p : Polyline K) (bps : List Int) (ho : p.closed = false)
    (hedge : ∀ r ∈ sectionRanges p.numV bps, 1 ≤ r.2 - r.1 - 1) :
    ∃ secs, p.sectioned bps = .ok secs ∧ secs.length = bps.length + 1 ∧
      ∀ i (hi : i < secs.length), ∃ s e : Nat,
        (sectionRanges p.numV bps)[i]? = some ((s : Int), (e : Int)) ∧ s + 2 ≤ e ∧ e ≤ p.numV ∧
        secs[i].closed = false ∧ secs[i].v = (p.v.drop s).take (e - s) := by
  have hvalid := ranges_valid p.numV bps 0 (le_refl _) hedge
  refine ⟨(sectionRanges p.numV bps).map fun r => ⟨pySlice p.v r.1 r.2, false⟩, ?_, ?_, ?_⟩
  · rw [sectioned_eq p bps ho, if_neg]
    rw [Bool.not_eq_true, List.any_eq_false]
    intro r hr
    have := hedge r hr
    simp; omega
  · simp [sectionRanges]
  · intro i hi
    simp only [List.length_map] at hi
    obtain ⟨h0, h1, h2⟩ := hvalid _ (List.getElem_mem hi)
    refine ⟨((sectionRanges p.numV bps)[i]).1.toNat, ((sectionRanges p.numV bps)[i]).2.toNat, ?_, by omega, by omega, ?_, ?_⟩
    · rw [List.getElem?_eq_getElem hi, Int.toNat_of_nonneg h0, Int.toNat_of_nonneg (by omega)]
    · simp
    · simp only [List.getElem_map]
      exact pySlice_int p.v _ _ h0 (by omega) (by simpa [Polyline.numV] using h2)

/-- consecutive sections share the breakpoint vertex: section `i` ends with it, section `i+1` starts with it -/
theorem sectioned_shared_breakpoint (p : Polyline K) (bps : List Int) (secs : List (Polyline K))
    (h : p.sectioned bps = .ok secs) (i : Nat) (hi : i < bps.length) :
    ∃ b : Nat, bps[i] = (b : Int) ∧ b < p.numV ∧
      (secs[i]?).bind (·.v.getLast?) = p.v[b]? ∧ (secs[i + 1]?).bind (·.v.head?) = p.v[b]? := by
  have ho : p.closed = false := by
    cases hc : p.closed
    · rfl
    · simp [Polyline.sectioned, hc] at h
  rw [sectioned_eq p bps ho] at h
  split_ifs at h with hany
  simp only [Except.ok.injEq] at h
  have hedge : ∀ r ∈ sectionRanges p.numV bps, 1 ≤ r.2 - r.1 - 1 := by
    rw [Bool.not_eq_true, List.any_eq_false] at hany
    intro r hr
    have := hany r hr
    simp at this; omega
  have hvalid := ranges_valid p.numV bps 0 (le_refl _) hedge
  have hlen : (sectionRanges p.numV bps).length = bps.length + 1 := by simp [sectionRanges]
  -- ranges i and i+1
  have e1 : (sectionRanges p.numV bps)[i]'(by omega) = ((0 :: bps)[i]'(by simp; omega), bps[i] + 1) := by
    simp [sectionRanges, List.getElem_append_left, hi]
  have e2 : (sectionRanges p.numV bps)[i + 1]'(by omega)
      = (bps[i], (bps.map (· + 1) ++ [(p.numV : Int)])[i + 1]'(by simp; omega)) := by
    simp [sectionRanges]
  obtain ⟨a0, a1, a2⟩ := hvalid _ (List.getElem_mem (show i < (sectionRanges p.numV bps).length by omega))
  obtain ⟨b0, b1, b2⟩ := hvalid _ (List.getElem_mem (show i + 1 < (sectionRanges p.numV bps).length by omega))
  rw [e1] at a0 a1 a2
  rw [e2] at b0 b1 b2
  simp only at a0 a1 a2 b0 b1 b2
  refine ⟨bps[i].toNat, (Int.toNat_of_nonneg b0).symm, by omega, ?_, ?_⟩
  · subst h
    rw [List.getElem?_map, List.getElem?_eq_getElem (show i < (sectionRanges p.numV bps).length by omega), e1]
    simp only [Option.map_some, Option.bind_some]
    rw [pySlice_int p.v _ _ a0 (by omega) (by simpa [Polyline.numV] using a2)]
    rw [List.getLast?_eq_getElem?, List.length_take, List.length_drop]
    simp only [Polyline.numV] at *
    rw [List.getElem?_take_of_lt (by omega), List.getElem?_drop]
    congr 1
    omega
  · subst h
    rw [List.getElem?_map, List.getElem?_eq_getElem (show i + 1 < (sectionRanges p.numV bps).length by omega), e2]
    simp only [Option.map_some, Option.bind_some]
    rw [pySlice_int p.v _ _ b0 (by omega) (by simpa [Polyline.numV] using b2)]
    rw [List.head?_eq_getElem?, List.getElem?_take_of_lt (by omega), List.getElem?_drop]
    simp

/-- a section without an edge (breakpoint `0`, `num_v-1`, repeated or decreasing breakpoints, fewer than
    two vertices) → ValueError -/
theorem sectioned_no_edge (p : Polyline K) (bps : List Int) (ho : p.closed = false)
    (h : ∃ r ∈ sectionRanges p.numV bps, r.2 - r.1 - 1 < 1) :
    p.sectioned bps = .error .ValueError := by
  rw [sectioned_eq p bps ho, if_pos]
  rw [List.any_eq_true]
  obtain ⟨r, hr, hlt⟩ := h
  exact ⟨r, hr, by simpa using hlt⟩

theorem sectioned_closed (p : Polyline K) (bps : List Int) (hc : p.closed = true) :
    p.sectioned bps = .error .NotImplementedError := by
  simp [Polyline.sectioned, hc]

/-! ## join -/

/-- joining open pieces is concatenation of their vertex lists (with the requested closedness) -/
theorem join_spec (ps : List (Polyline K)) (c : Bool) (hne : ps ≠ []) (hopen : ∀ p ∈ ps, p.closed = false) :
    Polyline.join ps c = .ok ⟨(ps.map (·.v)).flatten, c⟩ := by
  unfold Polyline.join
  have h1 : ps.isEmpty = false := by cases ps <;> simp_all
  have h2 : ps.any (·.closed) = false := by
    rw [List.any_eq_false]
    intro p hp
    simp [hopen p hp]
  simp [h1, h2, List.flatMap]

theorem join_errors (ps : List (Polyline K)) (c : Bool) :
    (ps = [] → Polyline.join ps c = .error .ValueError) ∧
    ((∃ p ∈ ps, p.closed = true) → Polyline.join ps c = .error .ValueError) := by
  constructor
  · rintro rfl; rfl
  · rintro ⟨p, hp, hc⟩
    unfold Polyline.join
    split_ifs with h1 h2
    · rfl
    · rfl
    · exfalso
      apply h2
      rw [List.any_eq_true]
      exact ⟨p, hp, hc⟩

/-! ## with_insertions -/

/-- where original vertex `j` goes: one place further for every point inserted at an index `≤ j` -/
def origPos (idx : List Nat) (j : Nat) : Nat := j + idx.countP (fun i => decide (i ≤ j))

/-- where inserted point `m` goes: before the vertex it names, after every point with a smaller index and
    after the earlier points with the same index -/
def insPos (idx : List Nat) (m : Nat) : Nat :=
  idx.getD m 0 + idx.countP (fun i => decide (i < idx.getD m 0)) + (idx.take m).countP (fun i => i == idx.getD m 0)

private theorem count_le_split (idx : List Nat) (a : Nat) :
    idx.countP (fun i => decide (i ≤ a)) = idx.countP (fun i => decide (i < a)) + idx.countP (fun i => i == a) := by
  apply countP_split
  · intro i; simp; omega
  · intro i; simp; omega

private theorem insPos_lt_bound (idx : List Nat) (m : Nat) (hm : m < idx.length) :
    insPos idx m < idx[m] + idx.countP (fun i => decide (i ≤ idx[m])) := by
  have hg : idx.getD m 0 = idx[m] := by simp [List.getD, List.getElem?_eq_getElem hm]
  unfold insPos
  rw [hg, count_le_split]
  have := countP_take_lt (fun i => i == idx[m]) idx m hm (by simp)
  omega

/-- **declarative characterisation of NumPy insert** (indices normalised to `0..n`, repeats allowed):
    the result has `n + k` entries; the old entries keep their order; a new value comes before the old entry
    `j` exactly when its index is `≤ j`; new values are ordered by index, equal indices by argument order;
    and the entries at those places are the old / new values. -/
theorem npInsert_characterisation {α : Type} (a : List α) (idx : List Nat) (vals : List α)
    (hlen : idx.length = vals.length) (hr : ∀ i ∈ idx, i ≤ a.length) :
    (npInsert a idx vals).length = a.length + idx.length ∧
    (∀ j j', j < j' → origPos idx j < origPos idx j') ∧
    (∀ m j, m < idx.length → (insPos idx m < origPos idx j ↔ idx.getD m 0 ≤ j)) ∧
    (∀ m m', m < idx.length → m' < idx.length →
      (insPos idx m < insPos idx m' ↔
        idx.getD m 0 < idx.getD m' 0 ∨ (idx.getD m 0 = idx.getD m' 0 ∧ m < m'))) ∧
    (∀ j, j < a.length → (npInsert a idx vals)[origPos idx j]? = a[j]?) ∧
    (∀ m, m < idx.length → (npInsert a idx vals)[insPos idx m]? = vals[m]?) := by
  have hmono : ∀ x y : Nat, x ≤ y → idx.countP (fun i => decide (i ≤ x)) ≤ idx.countP (fun i => decide (i ≤ y)) := by
    intro x y hxy
    apply List.countP_mono_left
    intro i _; simp; omega
  have hg : ∀ m (hm : m < idx.length), idx.getD m 0 = idx[m] := by
    intro m hm; simp [List.getD, List.getElem?_eq_getElem hm]
  have hlex : ∀ m m' (hm : m < idx.length) (hm' : m' < idx.length),
      (idx[m] < idx[m'] ∨ (idx[m] = idx[m'] ∧ m < m')) → insPos idx m < insPos idx m' := by
    intro m m' hm hm' h
    rcases h with h | ⟨h1, h2⟩
    · have h1 := insPos_lt_bound idx m hm
      have h2 : idx.countP (fun i => decide (i ≤ idx[m])) ≤ idx.countP (fun i => decide (i < idx[m'])) := by
        apply List.countP_mono_left
        intro i _; simp; omega
      have h3 : idx[m'] + idx.countP (fun i => decide (i < idx[m'])) ≤ insPos idx m' := by
        unfold insPos; rw [hg m' hm']; omega
      omega
    · unfold insPos
      rw [hg m hm, hg m' hm', ← h1]
      have hm2 : m < (idx.take m').length := by simp; omega
      have := countP_take_lt (fun i => i == idx[m]) (idx.take m') m hm2 (by simp)
      rw [List.take_take, Nat.min_eq_left (le_of_lt h2)] at this
      omega
  refine ⟨length_npInsert a idx vals hlen hr, ?_, ?_, ?_, ?_, ?_⟩
  · intro j j' h
    have := hmono j j' (le_of_lt h)
    unfold origPos; omega
  · intro m j hm
    rw [hg m hm]
    have hb := insPos_lt_bound idx m hm
    constructor
    · intro h
      by_contra hc
      have h2 : idx.countP (fun i => decide (i ≤ j)) ≤ idx.countP (fun i => decide (i < idx[m])) := by
        apply List.countP_mono_left
        intro i _; simp; omega
      have h3 : idx[m] + idx.countP (fun i => decide (i < idx[m])) ≤ insPos idx m := by
        unfold insPos; rw [hg m hm]; omega
      unfold origPos at h
      omega
    · intro h
      have := hmono idx[m] j h
      unfold origPos; omega
  · intro m m' hm hm'
    rw [hg m hm, hg m' hm']
    constructor
    · intro h
      by_contra hc
      have : idx[m'] < idx[m] ∨ (idx[m'] = idx[m] ∧ m' < m) ∨ m = m' := by omega
      rcases this with h1 | h1 | h1
      · have := hlex m' m hm' hm (Or.inl h1); omega
      · have := hlex m' m hm' hm (Or.inr h1); omega
      · subst h1; omega
    · exact hlex m m' hm hm'
  · intro j hj
    exact npInsert_orig a idx vals hlen j hj
  · intro m hm
    have := npInsert_ins a idx vals hlen m hm (hr _ (List.getElem_mem hm))
    unfold insPos
    rw [hg m hm]
    exact this

/-- the index maps the code returns are exactly those places -/
theorem insertion_maps_eq (n : Nat) (idx : List Nat) :
    (∀ j, j < n → (indicesOfOriginalVertices n idx)[j]? = some (origPos idx j)) ∧
    (∀ m, m < idx.length → (indicesOfInsertedPoints idx)[m]? = some (insPos idx m)) := by
  constructor
  · intro j hj
    exact indicesOfOriginalVertices_getElem? n idx j hj
  · intro m hm
    rw [indicesOfInsertedPoints_getElem? idx m hm]
    simp [insPos, List.getD, List.getElem?_eq_getElem hm]

/-- the whole returned list of inserted-point indices, in closed form -/
theorem indicesOfInsertedPoints_eq_map (idx : List Nat) :
    indicesOfInsertedPoints idx = (List.range idx.length).map (insPos idx) := by
  apply List.ext_getElem?
  intro m
  by_cases hm : m < idx.length
  · rw [(insertion_maps_eq 0 idx).2 m hm, List.getElem?_map, List.getElem?_range hm]
    rfl
  · rw [List.getElem?_eq_none (by rw [length_indicesOfInsertedPoints]; omega),
      List.getElem?_eq_none (by simp; omega)]

theorem normIndex_le (n : Nat) (i : Int) (h1 : -(n : Int) ≤ i) (h2 : i ≤ n) : normIndex n i ≤ n := by
  unfold normIndex
  split_ifs <;> omega

/-- **insert_positions**: for *every* list of insertion indices in `-num_v..num_v` — repeats, `0` and
    `num_v` included — `with_insertions(points, indices, ret_new_indices=True)` succeeds, the result has
    `num_v + k` vertices and the same closedness, and the returned index maps are right:
    `new[indices_of_original_vertices[j]] = old[j]` and `new[indices_of_inserted_points[m]] = points[m]`. -/
theorem insert_positions (p : Polyline K) (points : List (V3 K)) (indices : List Int)
    (hlen : indices.length = points.length)
    (hr : ∀ i ∈ indices, -(p.numV : Int) ≤ i ∧ i ≤ (p.numV : Int)) :
    ∃ q orig ins, p.withInsertions points indices = .ok (q, orig, ins) ∧
      q.closed = p.closed ∧ q.numV = p.numV + points.length ∧
      orig.length = p.numV ∧ ins.length = points.length ∧
      q.v = npInsert p.v (indices.map (normIndex p.numV)) points ∧
      (∀ j, j < p.numV → ∃ o, orig[j]? = some o ∧ q.v[o]? = p.v[j]?) ∧
      (∀ m, m < points.length → ∃ o, ins[m]? = some o ∧ q.v[o]? = points[m]?) := by
  set idx := indices.map (normIndex p.numV) with hidx
  have hl : idx.length = points.length := by simp [hidx, hlen]
  have hri : ∀ i ∈ idx, i ≤ p.v.length := by
    intro i hi
    rw [hidx, List.mem_map] at hi
    obtain ⟨x, hx, rfl⟩ := hi
    exact normIndex_le _ _ (hr x hx).1 (hr x hx).2
  obtain ⟨c1, c2, c3, c4, c5, c6⟩ := npInsert_characterisation p.v idx points hl hri
  obtain ⟨m1, m2⟩ := insertion_maps_eq p.numV idx
  refine ⟨⟨npInsert p.v idx points, p.closed⟩, indicesOfOriginalVertices p.numV idx, indicesOfInsertedPoints idx,
    ?_, rfl, ?_, length_indicesOfOriginalVertices _ _, ?_, rfl, ?_, ?_⟩
  · unfold Polyline.withInsertions
    rw [if_neg (by simp [hlen])]
    have : indices.any (fun i => decide (i < -(p.numV : Int)) || decide ((p.numV : Int) < i)) = false := by
      rw [List.any_eq_false]
      intro i hi
      have := hr i hi
      simp; omega
    simp only [this]
    rfl
  · simp only [Polyline.numV, c1, hl]
  · rw [length_indicesOfInsertedPoints, hl]
  · intro j hj
    exact ⟨origPos idx j, m1 j hj, c5 j hj⟩
  · intro m hm
    exact ⟨insPos idx m, m2 m (by omega), c6 m (by omega)⟩

/-- wrong number of indices → ValueError; an index beyond `num_v` → IndexError -/
theorem insert_errors (p : Polyline K) (points : List (V3 K)) (indices : List Int) :
    (indices.length ≠ points.length → p.withInsertions points indices = .error .ValueError) ∧
    (indices.length = points.length → (∃ i ∈ indices, (p.numV : Int) < i) →
      p.withInsertions points indices = .error .IndexError) := by
  constructor
  · intro h
    simp [Polyline.withInsertions, h]
  · rintro h ⟨i, hi, hlt⟩
    unfold Polyline.withInsertions
    rw [if_neg (by simp [h])]
    have : indices.any (fun i => decide (i < -(p.numV : Int)) || decide ((p.numV : Int) < i)) = true := by
      rw [List.any_eq_true]
      exact ⟨i, hi, by simp [hlt]⟩
    simp only [this]
    rfl

section field
variable [Field K] [LinearOrder K] [IsStrictOrderedRing K]

/-! ## index_of_vertex -/

theorem absLe_iff (x atol : K) : absLe x atol = true ↔ |x| ≤ atol := by
  unfold absLe
  split_ifs with h
  · simp [abs_of_neg h]
  · simp [abs_of_nonneg (not_lt.mp h)]

/-- a vertex matches when every coordinate is within `atol` of the query point -/
theorem closeTo_iff (atol : K) (pt a : V3 K) :
    closeTo atol pt a = true ↔ |a.x - pt.x| ≤ atol ∧ |a.y - pt.y| ≤ atol ∧ |a.z - pt.z| ≤ atol := by
  simp [closeTo, absLe_iff, and_assoc]

/-- with `atol = 0` matching is equality -/
theorem closeTo_zero_iff (pt a : V3 K) : closeTo 0 pt a = true ↔ a = pt := by
  rw [closeTo_iff]
  simp only [abs_nonpos_iff, sub_eq_zero]
  constructor
  · rintro ⟨h1, h2, h3⟩; exact V3.ext h1 h2 h3
  · rintro rfl; exact ⟨rfl, rfl, rfl⟩

/-- `index_of_vertex` returns `i` exactly when `i` is the lowest index of a matching vertex … -/
theorem index_of_vertex_ok_iff (p : Polyline K) (pt : V3 K) (atol : K) (i : Nat) :
    p.indexOfVertex pt atol = .ok i ↔
      ∃ h : i < p.numV, closeTo atol pt p.v[i] = true ∧ ∀ j (hj : j < i), closeTo atol pt (p.v[j]'(by simp [Polyline.numV] at h; omega)) = false := by
  unfold Polyline.indexOfVertex
  cases hf : p.v.findIdx? (closeTo atol pt) with
  | none =>
    simp only [reduceCtorEq, false_iff]
    rintro ⟨h, hc, _⟩
    rw [List.findIdx?_eq_none_iff] at hf
    have := hf _ (List.getElem_mem h)
    simp [hc] at this
  | some k =>
    simp only [Except.ok.injEq]
    rw [List.findIdx?_eq_some_iff_getElem] at hf
    obtain ⟨hk, hck, hlow⟩ := hf
    constructor
    · rintro rfl
      exact ⟨hk, hck, fun j hj => by simpa using hlow j hj⟩
    · rintro ⟨h, hc, hl⟩
      by_contra hne
      rcases Nat.lt_or_gt_of_ne hne with h1 | h1
      · have := hl k h1
        simp [hck] at this
      · have := hlow i h1
        exact this hc

/-- … and raises ValueError exactly when no vertex matches. -/
theorem index_of_vertex_error_iff (p : Polyline K) (pt : V3 K) (atol : K) :
    p.indexOfVertex pt atol = .error .ValueError ↔ ∀ a ∈ p.v, closeTo atol pt a = false := by
  unfold Polyline.indexOfVertex
  cases hf : p.v.findIdx? (closeTo atol pt) with
  | none =>
    simp only [true_iff]
    exact List.findIdx?_eq_none_iff.mp hf
  | some k =>
    simp only [reduceCtorEq, false_iff]
    rw [List.findIdx?_eq_some_iff_getElem] at hf
    obtain ⟨hk, hck, _⟩ := hf
    intro h
    have := h _ (List.getElem_mem hk)
    simp [hck] at this

theorem index_of_vertex_total (p : Polyline K) (pt : V3 K) (atol : K) :
    (∃ i, p.indexOfVertex pt atol = .ok i) ∨ p.indexOfVertex pt atol = .error .ValueError := by
  unfold Polyline.indexOfVertex
  cases p.v.findIdx? (closeTo atol pt) <;> simp

/-! ## apex -/

/-- `apex(axis)`: ValueError without vertices; otherwise the vertex at the **first** index where the
    dot product with `axis` is maximal. -/
theorem apex_spec (p : Polyline K) (axis : V3 K) :
    (p.numV = 0 → p.apexIndex axis = .error .ValueError) ∧
    (∀ i, p.apexIndex axis = .ok i →
      ∃ hi : i < p.numV, (∀ j (hj : j < p.numV), (p.v[j]).dot axis ≤ (p.v[i]).dot axis) ∧
        (∀ j (hj : j < i), (p.v[j]'(by simp [Polyline.numV] at hi; omega)).dot axis < (p.v[i]).dot axis)) ∧
    (0 < p.numV → ∃ i, p.apexIndex axis = .ok i) := by
  refine ⟨?_, ?_, ?_⟩
  · intro h
    have : p.v = [] := List.length_eq_zero_iff.mp h
    simp [Polyline.apexIndex, this, argmaxFirst]
  · intro i h
    unfold Polyline.apexIndex at h
    cases hm : argmaxFirst (p.v.map fun q => q.dot axis) with
    | none => simp [hm] at h
    | some r =>
      simp only [hm, Except.ok.injEq] at h
      subst h
      obtain ⟨hr, h1, h2⟩ := argmaxFirst_spec _ r hm
      simp only [List.length_map] at hr
      refine ⟨hr, ?_, ?_⟩
      · intro j hj
        have := h1 j (by simpa [Polyline.numV] using hj)
        rw [List.getElem_map, List.getElem_map] at this
        exact this
      · intro j hj
        simpa using h2 j hj
  · intro h
    unfold Polyline.apexIndex
    cases hm : argmaxFirst (p.v.map fun q => q.dot axis) with
    | none =>
      rw [argmaxFirst_eq_none] at hm
      simp [Polyline.numV] at h
      simp_all
    | some r => exact ⟨r, rfl⟩

/-- `apex` returns the vertex at that index -/
theorem apex_value [Inhabited K] (p : Polyline K) (axis : V3 K) (i : Nat) (h : p.apexIndex axis = .ok i)
    (hi : i < p.numV) : p.apex axis = .ok p.v[i] := by
  unfold Polyline.apex
  rw [h]
  simp only [List.getD, List.getElem?_eq_getElem (show i < p.v.length from hi), Option.getD_some]
  rfl

/-! ## bounding_box -/

/-- `bounding_box`: `None` without vertices; otherwise never an error, and (origin, size) is the tight
    axis-aligned box: every vertex lies in it and every face touches a vertex. -/
theorem bounding_box_spec (p : Polyline K) :
    (p.numV = 0 → p.boundingBox = .ok none) ∧
    (0 < p.numV → ∃ o s, p.boundingBox = .ok (some (o, s)) ∧
      (∀ q ∈ p.v, o.x ≤ q.x ∧ q.x ≤ o.x + s.x ∧ o.y ≤ q.y ∧ q.y ≤ o.y + s.y ∧ o.z ≤ q.z ∧ q.z ≤ o.z + s.z) ∧
      (∃ q ∈ p.v, q.x = o.x) ∧ (∃ q ∈ p.v, q.x = o.x + s.x) ∧
      (∃ q ∈ p.v, q.y = o.y) ∧ (∃ q ∈ p.v, q.y = o.y + s.y) ∧
      (∃ q ∈ p.v, q.z = o.z) ∧ (∃ q ∈ p.v, q.z = o.z + s.z)) := by
  constructor
  · intro h
    have : p.v = [] := List.length_eq_zero_iff.mp h
    simp [Polyline.boundingBox, this]
  · intro h
    obtain ⟨v, closed⟩ := p
    cases v with
    | nil => simp [Polyline.numV] at h
    | cons a rest =>
      have mnx := minOf_le a.x (rest.map (·.x)); have mny := minOf_le a.y (rest.map (·.y)); have mnz := minOf_le a.z (rest.map (·.z))
      have mxx := le_maxOf a.x (rest.map (·.x)); have mxy := le_maxOf a.y (rest.map (·.y)); have mxz := le_maxOf a.z (rest.map (·.z))
      have memn : ∀ (f : V3 K → K), minOf (f a) (rest.map f) ∈ (a :: rest).map f := fun f => by
        simpa using minOf_mem (f a) (rest.map f)
      have memx : ∀ (f : V3 K → K), maxOf (f a) (rest.map f) ∈ (a :: rest).map f := fun f => by
        simpa using maxOf_mem (f a) (rest.map f)
      refine ⟨⟨minOf a.x (rest.map (·.x)), minOf a.y (rest.map (·.y)), minOf a.z (rest.map (·.z))⟩,
        (⟨maxOf a.x (rest.map (·.x)), maxOf a.y (rest.map (·.y)), maxOf a.z (rest.map (·.z))⟩ : V3 K)
          - ⟨minOf a.x (rest.map (·.x)), minOf a.y (rest.map (·.y)), minOf a.z (rest.map (·.z))⟩, ?_, ?_, ?_⟩
      · simp only [Polyline.boundingBox]
        rw [if_neg]
        simp only [V3.sub_x, V3.sub_y, V3.sub_z, not_or, not_lt, sub_nonneg]
        exact ⟨le_trans mnx.1 mxx.1, le_trans mny.1 mxy.1, le_trans mnz.1 mxz.1⟩
      · intro q hq
        simp only [V3.sub_x, V3.sub_y, V3.sub_z, add_sub_cancel]
        rcases List.mem_cons.mp hq with rfl | hq
        · exact ⟨mnx.1, mxx.1, mny.1, mxy.1, mnz.1, mxz.1⟩
        · exact ⟨mnx.2 _ (List.mem_map_of_mem hq), mxx.2 _ (List.mem_map_of_mem hq),
            mny.2 _ (List.mem_map_of_mem hq), mxy.2 _ (List.mem_map_of_mem hq),
            mnz.2 _ (List.mem_map_of_mem hq), mxz.2 _ (List.mem_map_of_mem hq)⟩
      · simp only [V3.sub_x, V3.sub_y, V3.sub_z, add_sub_cancel]
        have e := fun f => List.mem_map.mp (memn f)
        have e' := fun f => List.mem_map.mp (memx f)
        exact ⟨e (·.x), e' (·.x), e (·.y), e' (·.y), e (·.z), e' (·.z)⟩

end field
/-! ## aligned_with -/

section aligned
variable [Field K] [LinearOrder K] [IsStrictOrderedRing K]

/-- the arithmetic of `vg.project` / `vg.scale_factor` with `s = ‖vector‖`: the projection's dot with
    `vector` is `extent·vector`, its squared length is `(extent·vector)²/s²` -/
private theorem project_core (e v : V3 K) (s : K) (hs : s * s = v.dot v) :
    let unit := V3.sdiv v s
    let proj := V3.smul (e.dot unit) unit
    (s = 0 → proj.dot proj = 0) ∧
    (s ≠ 0 → proj.dot v = e.dot v ∧ proj.dot proj = (e.dot v) ^ 2 / s ^ 2) := by
  simp only [V3.dot_def, V3.sdiv_x, V3.sdiv_y, V3.sdiv_z, V3.smul_x, V3.smul_y, V3.smul_z] at hs ⊢
  constructor
  · intro h0; simp [h0]
  · intro hne
    constructor
    · field_simp
      linear_combination (-(e.x * v.x + e.y * v.y + e.z * v.z)) * hs
    · field_simp
      linear_combination (-(e.x * v.x + e.y * v.y + e.z * v.z) ^ 2) * hs

end aligned

noncomputable instance instSqrtReal : PW.Sqrt ℝ := ⟨Real.sqrt⟩

/-- **aligned_with** over ℝ (open polyline with at least two vertices): the result is the receiver
    itself unless the end-to-end extent points against `vector`, in which case it is flipped. -/
theorem aligned_with_spec (p : Polyline ℝ) (vector first : V3 ℝ) (rest : List (V3 ℝ))
    (ho : p.closed = false) (hv : p.v = first :: rest) (hne : rest ≠ []) :
    p.alignedWith vector =
      .ok (if ((rest.getLast hne) - first).dot vector < 0 then (p.flipped, false) else (p, true)) := by
  obtain ⟨b, rest', rfl⟩ := List.exists_cons_of_ne_nil hne
  have hl : p.v.getLast? = some ((b :: rest').getLast hne) := by
    rw [hv, List.getLast?_cons_cons, List.getLast?_eq_some_getLast hne]
  unfold Polyline.alignedWith
  simp only [ho, Bool.false_eq_true, if_false]
  rw [hl, hv]
  simp only
  set e := (b :: rest').getLast hne - first with he
  set s := V3.norm vector with hs
  have hs2 : s * s = vector.dot vector := by
    rw [hs]; unfold V3.norm V3.normSq
    exact Real.mul_self_sqrt (add_nonneg (add_nonneg (mul_self_nonneg _) (mul_self_nonneg _)) (mul_self_nonneg _))
  have hs0 : 0 ≤ s := Real.sqrt_nonneg _
  obtain ⟨c0, c1⟩ := project_core e vector s hs2
  have hnorm : V3.normalize vector = V3.sdiv vector s := rfl
  rw [hnorm]
  by_cases hz : s = 0
  · have hpp := c0 hz
    have hv0 : vector.dot vector = 0 := by rw [← hs2, hz]; ring
    have hev : e.dot vector = 0 := by
      simp only [V3.dot_def] at hv0 ⊢
      have hx : vector.x = 0 := by nlinarith [mul_self_nonneg vector.x, mul_self_nonneg vector.y, mul_self_nonneg vector.z]
      have hy : vector.y = 0 := by nlinarith [mul_self_nonneg vector.x, mul_self_nonneg vector.y, mul_self_nonneg vector.z]
      have hzz : vector.z = 0 := by nlinarith [mul_self_nonneg vector.x, mul_self_nonneg vector.y, mul_self_nonneg vector.z]
      simp [hx, hy, hzz]
    simp [hpp, hev]
  · obtain ⟨hpv, hpp⟩ := c1 hz
    rw [hpv, hpp]
    have hspos : 0 < s ^ 2 := by positivity
    by_cases hev : e.dot vector = 0
    · simp [hev]
    · have hpos : 0 < e.dot vector ^ 2 / s ^ 2 := by positivity
      have hne0 : ¬ (e.dot vector ^ 2 / s ^ 2 == 0) = true := by simpa using ne_of_gt hpos
      rw [if_neg hne0]
      have : e.dot vector / (e.dot vector ^ 2 / s ^ 2) < 0 ↔ e.dot vector < 0 := by
        rw [div_neg_iff]
        constructor
        · rintro (⟨_, h⟩ | ⟨h, _⟩)
          · linarith
          · exact h
        · intro h; exact Or.inr ⟨h, hpos⟩
      by_cases hlt : e.dot vector < 0
      · rw [if_pos (this.mpr hlt), if_pos hlt]
      · rw [if_neg (fun h => hlt (this.mp h)), if_neg hlt]


section generic_errors
variable [Field K] [LinearOrder K] [IsStrictOrderedRing K] [Sqrt K]

theorem aligned_with_closed (p : Polyline K) (vector : V3 K) (hc : p.closed = true) :
    p.alignedWith vector = .error .ValueError := by
  simp [Polyline.alignedWith, hc]

/-- fewer than two vertices: returned unchanged (the receiver itself) -/
theorem aligned_with_short (p : Polyline K) (vector : V3 K) (ho : p.closed = false) (hn : p.numV < 2) :
    p.alignedWith vector = .ok (p, true) := by
  unfold Polyline.alignedWith
  simp only [ho, Bool.false_eq_true, if_false]
  obtain ⟨v, c⟩ := p
  match v, hn with
  | [], _ => rfl
  | [a], _ => rfl
  | _ :: _ :: _, h => simp [Polyline.numV] at h

/-- **op_errors**: the operations that are undefined for the polyline's kind raise the stated class
    (and, being pure functions, change nothing). -/
theorem op_errors (p : Polyline K) :
    (p.closed = false → ∀ index, p.rolled index = .error .ValueError) ∧
    (p.closed = true → ∀ vector, p.alignedWith vector = .error .ValueError) ∧
    (p.closed = true → ∀ bps, p.sectioned bps = .error .NotImplementedError) ∧
    (p.closed = false → ∀ start stop : Int, stop ≤ start → p.slicedAtIndices start stop = .error .ValueError) ∧
    (∀ c, Polyline.join ([] : List (Polyline K)) c = .error .ValueError) ∧
    (∀ (ps : List (Polyline K)) c, (∃ q ∈ ps, q.closed = true) → Polyline.join ps c = .error .ValueError) := by
  refine ⟨?_, ?_, ?_, ?_, ?_, ?_⟩
  · intro h index; simp [Polyline.rolled, h]
  · intro h vector; exact aligned_with_closed p vector h
  · intro h bps; exact sectioned_closed p bps h
  · intro h start stop hle; exact sliced_open_reversed p start stop h hle
  · intro c; rfl
  · intro ps c h; exact (join_errors ps c).2 h

end generic_errors

/-! ## hypotheses are satisfiable; the repaired index maps on the formerly failing inputs -/

/-- the inputs on which the index maps used to be wrong (DESIGN §7): indices `[1, 1]` into 4 vertices,
    and an insertion at `num_v` -/
theorem insert_repeated_example :
    indicesOfOriginalVertices 4 [1, 1] = [0, 3, 4, 5] ∧ indicesOfInsertedPoints [1, 1] = [1, 2] ∧
    indicesOfOriginalVertices 2 [2, 0, 2] = [1, 2] ∧ indicesOfInsertedPoints [2, 0, 2] = [3, 0, 4] ∧
    npInsert [10, 20] [2, 0, 2] [7, 8, 9] = [8, 10, 20, 7, 9] := by
  rw [indicesOfInsertedPoints_eq_map, indicesOfInsertedPoints_eq_map]
  decide

example : ∃ (p : Polyline ℚ) (points : List (V3 ℚ)) (indices : List Int),
    indices.length = points.length ∧ (∀ i ∈ indices, -(p.numV : Int) ≤ i ∧ i ≤ (p.numV : Int)) ∧
      ¬ indices.Nodup ∧ (p.numV : Int) ∈ indices :=
  ⟨⟨[⟨0, 0, 0⟩], false⟩, [⟨1, 1, 1⟩, ⟨2, 2, 2⟩], [1, 1], by simp, by simp [Polyline.numV], by simp, by simp [Polyline.numV]⟩

example : ∃ (p : Polyline ℚ) (bps : List Int), p.closed = false ∧ ∀ r ∈ sectionRanges p.numV bps, 1 ≤ r.2 - r.1 - 1 :=
  ⟨⟨[⟨0, 0, 0⟩, ⟨1, 0, 0⟩, ⟨2, 0, 0⟩], false⟩, [1], rfl, by simp [sectionRanges, Polyline.numV]⟩

/-! ## what the model takes from the source

`harness/translate/c09.py` reads the edge rule of `edges_for` (`polliwog/polyline/_edges.py`) and the index arithmetic
of `rolled`, `sliced_at_indices`, `sectioned`, `with_insertions`, `flipped`, `join`, `index_of_vertex`, `aligned_with`
(`polliwog/polyline/_polyline_object.py`) out of the source text into `PW/Gen/PolyOps.lean` on every run (local names
replaced by what they were assigned; NUM_E, STARTS, ENDS, BP, NORM, ORDER, K are structural labels).  The theorems below
state that each generated value is the one the hand-written models `PW/Model/PolylineBase.lean` and
`PW/Model/PolylineOps.lean` were written from — and, where the literal is a Lean literal of the model, that the model
computes with exactly the generated value — so that an edit of one of them in the source breaks a proof obligation. -/

/-- `edges_for`: `num_e = num_v if is_closed else num_v - 1`; empty when `num_e == 0`; edge `i` is `(i, i + 1)`; closed:
    `edges[-1][1] = 0`.  The model's `edgesFor` computes with exactly the generated offsets and stored value. -/
theorem gen_edges_for :
    (PW.Gen.PolyOps.numEClosedSrc = "num_v" ∧ PW.Gen.PolyOps.numEOpenCoef = 1 ∧ PW.Gen.PolyOps.numEOpenTerm = "num_v" ∧
      PW.Gen.PolyOps.numEOpenOffset = -1 ∧ PW.Gen.PolyOps.emptyCmp = .eq ∧ PW.Gen.PolyOps.emptyRhs = 0 ∧
      PW.Gen.PolyOps.nextCoef = 1 ∧ PW.Gen.PolyOps.nextOffset = 1 ∧ PW.Gen.PolyOps.closeRow = -1 ∧
      PW.Gen.PolyOps.closeCol = 1 ∧ PW.Gen.PolyOps.closeValue = 0) ∧
    (PW.Gen.PolyOps.emptySrc = "np.zeros((0, 2), dtype=EDGE_DTYPE)" ∧
      PW.Gen.PolyOps.firstColumnSrc = "np.arange(NUM_E, dtype=EDGE_DTYPE)" ∧ PW.Gen.PolyOps.edgeDtype = "np.int64") ∧
    ∀ (numV : Nat) (closed : Bool), edgesFor numV closed =
      (let numE : Nat := if closed then numV
         else (PW.Gen.PolyOps.numEOpenCoef * (numV : Int) + PW.Gen.PolyOps.numEOpenOffset).toNat
       (List.range numE).map fun i =>
         (i, if closed && i + 1 == numE then PW.Gen.PolyOps.closeValue.toNat
             else (PW.Gen.PolyOps.nextCoef * (i : Int) + PW.Gen.PolyOps.nextOffset).toNat)) := by
  refine ⟨by decide, ⟨rfl, rfl, rfl⟩, ?_⟩
  intro numV closed
  have h1 : ((1 : Int) * (numV : Int) + -1).toNat = numV - 1 := by omega
  have h2 : ∀ i : Nat, ((1 : Int) * (i : Int) + 1).toNat = i + 1 := by intro i; omega
  simp only [edgesFor, PW.Gen.PolyOps.numEOpenCoef, PW.Gen.PolyOps.numEOpenOffset, PW.Gen.PolyOps.closeValue,
    PW.Gen.PolyOps.nextCoef, PW.Gen.PolyOps.nextOffset, h1, h2, Int.toNat_zero]

/-- `rolled(index)`: refused with `ValueError` for an open polyline; `np.roll(self.v, -index, axis=0)`, closed, and the
    edge mapping `np.roll(np.arange(num_v), -index)`: the model's `rolled` rolls by exactly the generated amount. -/
theorem gen_rolled :
    (PW.Gen.PolyOps.rollRefusesWhen = "not self.is_closed" ∧ PW.Gen.PolyOps.rollRaises = "ValueError" ∧
      PW.Gen.PolyOps.rollCoef = -1 ∧ PW.Gen.PolyOps.rollTerm = "index" ∧ PW.Gen.PolyOps.rollOffset = 0 ∧
      PW.Gen.PolyOps.rollMappingSameShift = some true ∧ PW.Gen.PolyOps.rolledIsClosed = some true ∧
      PW.Gen.PolyOps.rolledSamePolyline = some true) ∧
    ∀ (p : Polyline K) (index : Int), p.rolled index =
      if !p.closed then .error .ValueError
      else .ok (⟨npRoll p.v (PW.Gen.PolyOps.rollCoef * index + PW.Gen.PolyOps.rollOffset), PW.Gen.PolyOps.rolledIsClosed.getD false⟩,
                npRoll (List.range p.numV) (PW.Gen.PolyOps.rollCoef * index + PW.Gen.PolyOps.rollOffset)) := by
  refine ⟨⟨rfl, rfl, by decide, rfl, by decide, by decide, by decide, by decide⟩, ?_⟩
  intro p index
  simp [rolled, PW.Gen.PolyOps.rollCoef, PW.Gen.PolyOps.rollOffset, PW.Gen.PolyOps.rolledIsClosed]

/-- `sliced_at_indices(start, stop)`: wraps when `stop <= start` (closed: `np.roll(self.v, -start)[0:len(v) - start +
    stop]`; open: `ValueError`), else `self.v[start:stop]`: the model's `slicedAtIndices` computes with exactly the
    generated comparison and coefficients. -/
theorem gen_sliced_at_indices :
    (PW.Gen.PolyOps.wrapCmp = .le ∧ PW.Gen.PolyOps.wrapLhs = "stop" ∧ PW.Gen.PolyOps.wrapRhs = "start" ∧
      PW.Gen.PolyOps.wrapRollCoef = -1 ∧ PW.Gen.PolyOps.wrapRollTerm = "start" ∧ PW.Gen.PolyOps.wrapRollOffset = 0 ∧
      PW.Gen.PolyOps.keepLenCoef = 1 ∧ PW.Gen.PolyOps.keepStartCoef = -1 ∧ PW.Gen.PolyOps.keepStopCoef = 1 ∧
      PW.Gen.PolyOps.keepConst = 0) ∧
    (PW.Gen.PolyOps.plainSliceSrc = "self.v[start:stop]" ∧
      PW.Gen.PolyOps.wrapRefusesWhen = ["stop <= start", "not self.is_closed"] ∧
      PW.Gen.PolyOps.wrapRaises = "ValueError") ∧
    ∀ (p : Polyline K) (start stop : Int), p.slicedAtIndices start stop =
      if PW.Gen.PolyOps.wrapCmp.test stop start then
        if p.closed then
          .ok ⟨pySlice (npRoll p.v (PW.Gen.PolyOps.wrapRollCoef * start + PW.Gen.PolyOps.wrapRollOffset)) 0
                (PW.Gen.PolyOps.keepLenCoef * (p.numV : Int) + PW.Gen.PolyOps.keepStartCoef * start +
                  PW.Gen.PolyOps.keepStopCoef * stop + PW.Gen.PolyOps.keepConst), false⟩
        else .error .ValueError
      else .ok ⟨pySlice p.v start stop, false⟩ := by
  refine ⟨⟨by decide, rfl, rfl, by decide, rfl, by decide, by decide, by decide, by decide, by decide⟩,
    ⟨rfl, by decide, rfl⟩, ?_⟩
  intro p start stop
  simp [slicedAtIndices, PW.Gen.Cmp.test, PW.Gen.PolyOps.wrapCmp, PW.Gen.PolyOps.wrapRollCoef,
    PW.Gen.PolyOps.wrapRollOffset, PW.Gen.PolyOps.keepLenCoef, PW.Gen.PolyOps.keepStartCoef,
    PW.Gen.PolyOps.keepStopCoef, PW.Gen.PolyOps.keepConst, sub_eq_add_neg]

/-- `sectioned(breakpoints)`: `NotImplementedError` for a closed polyline; starts `[0, *bp]`, ends `[*(bp + 1), num_v]`;
    `ValueError` when any `end - start - 1 < 1`; sections `v[start:end]`: the model's `sectioned` computes with exactly
    the generated first start, end offset, comparison and bound. -/
theorem gen_sectioned :
    (PW.Gen.PolyOps.sectionClosedRefusal = "self.is_closed" ∧
      PW.Gen.PolyOps.sectionRaises = ["NotImplementedError", "ValueError"] ∧
      PW.Gen.PolyOps.breakpointsSrc = "section_breakpoints.astype(np.int64)" ∧ PW.Gen.PolyOps.firstStart = 0 ∧
      PW.Gen.PolyOps.endCoef = 1 ∧ PW.Gen.PolyOps.endOffset = 1 ∧ PW.Gen.PolyOps.minEdgesCmp = .lt ∧
      PW.Gen.PolyOps.minEdgesRhs = 1) ∧
    (PW.Gen.PolyOps.endsSrc = "np.hstack([BP + 1, np.array([self.num_v], dtype=np.int64)])" ∧
      PW.Gen.PolyOps.edgesPerSectionSrc = "-STARTS + ENDS - 1" ∧ PW.Gen.PolyOps.sectionLoopSrc = "start, end" ∧
      PW.Gen.PolyOps.sectionSrc =
        "Polyline(is_closed=False, v=(np.copy if copy_vs else lambda vs: vs)(self.v[start:end]))") ∧
    ∀ (p : Polyline K) (breakpoints : List Int), p.sectioned breakpoints =
      if p.closed then .error .NotImplementedError else
      (let starts : List Int := PW.Gen.PolyOps.firstStart :: breakpoints
       let ends : List Int :=
         breakpoints.map (fun b => PW.Gen.PolyOps.endCoef * b + PW.Gen.PolyOps.endOffset) ++ [(p.numV : Int)]
       let edgesPerSection := List.zipWith (fun s e => e - s - 1) starts ends
       if edgesPerSection.any (fun c => PW.Gen.PolyOps.minEdgesCmp.test c PW.Gen.PolyOps.minEdgesRhs)
       then .error .ValueError
       else .ok (List.zipWith (fun s e => (⟨pySlice p.v s e, false⟩ : Polyline K)) starts ends)) := by
  refine ⟨⟨rfl, by decide, rfl, by decide, by decide, by decide, by decide, by decide⟩, ⟨rfl, rfl, rfl, rfl⟩, ?_⟩
  intro p breakpoints
  simp [sectioned, PW.Gen.Cmp.test, PW.Gen.PolyOps.firstStart, PW.Gen.PolyOps.endCoef, PW.Gen.PolyOps.endOffset,
    PW.Gen.PolyOps.minEdgesCmp, PW.Gen.PolyOps.minEdgesRhs]

/-- `with_insertions`: `np.insert(self.v, indices, points, axis=0)`; negative indices normalised by
    `np.where(indices < 0, indices + num_v, indices)`; `bincount(…, minlength=num_v + 1)[:num_v]`; inserted positions
    through `np.argsort(…, kind="stable")`: the model's `normIndex` and `indicesOfOriginalVertices` compute with exactly
    the generated comparison and `minlength`, and `indicesOfInsertedPoints` uses the stable argsort. -/
theorem gen_with_insertions :
    (PW.Gen.PolyOps.insertSrc = "Polyline(is_closed=self.is_closed, v=np.insert(self.v, indices, points, axis=0))" ∧
      PW.Gen.PolyOps.insertSamePolyline = some true ∧ PW.Gen.PolyOps.negIndexCmp = .lt ∧
      PW.Gen.PolyOps.negIndexLhs = "indices" ∧ PW.Gen.PolyOps.negIndexRhs = 0 ∧
      PW.Gen.PolyOps.negIndexThen = "indices + self.num_v" ∧ PW.Gen.PolyOps.minlengthCoef = 1 ∧
      PW.Gen.PolyOps.minlengthTerm = "self.num_v" ∧ PW.Gen.PolyOps.minlengthOffset = 1 ∧
      PW.Gen.PolyOps.sortKind = "stable" ∧ PW.Gen.PolyOps.sortOfNorm = some true) ∧
    (PW.Gen.PolyOps.originalIndicesSrc =
        "np.arange(self.num_v) + np.cumsum(np.bincount(NORM, minlength=self.num_v + 1)[:self.num_v])" ∧
      PW.Gen.PolyOps.insertedIndicesSrc =
        "_set(np.empty(K, dtype=np.int64), _0[ORDER], np.arange(K) + NORM[ORDER])") ∧
    (∀ (n : Nat) (i : Int), normIndex n i =
      (if PW.Gen.PolyOps.negIndexCmp.test i PW.Gen.PolyOps.negIndexRhs then i + (n : Int) else i).toNat) ∧
    (∀ (n : Nat) (idx : List Nat), indicesOfOriginalVertices n idx =
      List.zipWith (· + ·) (List.range n)
        (cumsum ((bincount idx
          (PW.Gen.PolyOps.minlengthCoef * (n : Int) + PW.Gen.PolyOps.minlengthOffset).toNat).take n))) ∧
    (∀ idx : List Nat, indicesOfInsertedPoints idx = scatterRank idx (argsortStable idx)) := by
  refine ⟨⟨rfl, by decide, by decide, rfl, by decide, rfl, by decide, rfl, by decide, rfl, by decide⟩, ⟨rfl, rfl⟩,
    ?_, ?_, fun _ => rfl⟩
  · intro n i
    simp [normIndex, PW.Gen.Cmp.test, PW.Gen.PolyOps.negIndexCmp, PW.Gen.PolyOps.negIndexRhs]
  · intro n idx
    have h : ((1 : Int) * (n : Int) + 1).toNat = n + 1 := by omega
    simp only [indicesOfOriginalVertices, PW.Gen.PolyOps.minlengthCoef, PW.Gen.PolyOps.minlengthOffset, h]

/-- [semantic + text] `flipped`, `join`, `index_of_vertex`, `aligned_with`.  Semantic: `join` refuses
    `len(polylines) == 0` and then any closed input, with the generated operator, bound and classes (the model's `join`);
    `index_of_vertex` raises the generated class when nothing matches (the model's `indexOfVertex`); `aligned_with`
    refuses a closed polyline with the generated class, returns the receiver when `num_v < 2` and flips when the scale
    factor is `< 0`, with the generated operators and bounds (the model's `alignedWith`).  Text only: `"np.flipud"` ↔
    `List.reverse`, the `np.isclose(…).all(axis=1).nonzero()[0]` expression ↔ `findIdx?` (first match), the
    `vg.scale_factor(vg.project(…))` expression, and the default `atol=1e-08` of `index_of_vertex` — the model takes
    `atol` as an argument (the driver is handed the value the harness passes), so the default has no counterpart in it;
    it is pinned here and again, with the whole parameter list, in `gen_function_shapes`. -/
theorem gen_other_methods :
    (PW.Gen.PolyOps.flippedSrc = "Polyline(is_closed=self.is_closed, v=np.flipud(self.v))" ∧
      PW.Gen.PolyOps.flippedWrapper = "np.flipud" ∧
      PW.Gen.PolyOps.joinEmptyLhs = "len(polylines)" ∧
      PW.Gen.PolyOps.joinClosedRefusal = "any([polyline.is_closed for polyline in polylines])" ∧
      PW.Gen.PolyOps.joinSrc = "cls(_vcat([polyline.v for polyline in polylines]), is_closed=is_closed)" ∧
      PW.Gen.PolyOps.indexOfVertexAtol = (1 : Rat) / 100000000 ∧
      PW.Gen.PolyOps.indexOfVertexSrc = "_only(np.isclose(-point + self.v, 0, atol=atol).all(axis=1).nonzero())[0]" ∧
      PW.Gen.PolyOps.indexOfVertexPick = 0 ∧
      PW.Gen.PolyOps.alignShortLhs = "self.num_v" ∧ PW.Gen.PolyOps.alignClosedRefusal = "self.is_closed" ∧
      PW.Gen.PolyOps.alignFlipLhs = "vg.scale_factor(vg.project(self.v[-1] - self.v[0], onto=vector), vector)") ∧
    (PW.Gen.PolyOps.joinEmptyCmp = .eq ∧ PW.Gen.PolyOps.joinEmptyRhs = 0 ∧
      PW.Gen.PolyOps.joinRaises = ["ValueError", "ValueError"] ∧ PW.Gen.PolyOps.indexOfVertexRaises = "ValueError" ∧
      PW.Gen.PolyOps.alignShortCmp = .lt ∧ PW.Gen.PolyOps.alignShortRhs = 2 ∧ PW.Gen.PolyOps.alignFlipCmp = .lt ∧
      PW.Gen.PolyOps.alignFlipRhs = 0 ∧ PW.Gen.PolyOps.alignRaises = "ValueError") ∧
    (∀ {K : Type} (ps : List (Polyline K)) (isClosed : Bool), Polyline.join ps isClosed =
      if PW.Gen.PolyOps.joinEmptyCmp.test (ps.length : Int) PW.Gen.PolyOps.joinEmptyRhs then
        .error (PW.Gen.errOfName (PW.Gen.PolyOps.joinRaises.getD 0 ""))
      else if ps.any (·.closed) then .error (PW.Gen.errOfName (PW.Gen.PolyOps.joinRaises.getD 1 ""))
      else .ok ⟨ps.flatMap (·.v), isClosed⟩) ∧
    (∀ {K : Type} [Field K] [LinearOrder K] [IsStrictOrderedRing K] (p : Polyline K) (point : V3 K) (atol : K),
      p.indexOfVertex point atol =
        match p.v.findIdx? (closeTo atol point) with
        | some i => .ok i
        | none => .error (PW.Gen.errOfName PW.Gen.PolyOps.indexOfVertexRaises)) ∧
    (∀ {K : Type} [Field K] [LinearOrder K] [IsStrictOrderedRing K] [Sqrt K] (p : Polyline K) (vector : V3 K),
      p.alignedWith vector =
        if p.closed then .error (PW.Gen.errOfName PW.Gen.PolyOps.alignRaises)
        else if PW.Gen.PolyOps.alignShortCmp.test (p.numV : Int) PW.Gen.PolyOps.alignShortRhs then .ok (p, true)
        else
          match p.v.head?, p.v.getLast? with
          | some first, some last =>
            (let extent := last - first
             let unit := V3.normalize vector
             let projected := V3.smul (extent.dot unit) unit
             let pp := projected.dot projected
             let pv := projected.dot vector
             if pp == 0 then .ok (p, true)
             else if PW.Gen.PolyOps.alignFlipCmp.test (pv / pp) ((PW.Gen.PolyOps.alignFlipRhs : Int) : K) then
               .ok (p.flipped, false)
             else .ok (p, true))
          | _, _ => .ok (p, true)) := by
  refine ⟨⟨rfl, rfl, rfl, rfl, rfl, rfl, rfl, by decide, rfl, rfl, rfl⟩,
    ⟨by decide, by decide, by decide, rfl, by decide, by decide, by decide, by decide, rfl⟩, ?_, ?_, ?_⟩
  · intro K ps isClosed
    cases ps <;>
      simp [Polyline.join, PW.Gen.Cmp.test, PW.Gen.PolyOps.joinEmptyCmp, PW.Gen.PolyOps.joinEmptyRhs,
        PW.Gen.PolyOps.joinRaises, PW.Gen.errOfName]
    omega
  · intro K _ _ _ p point atol
    rfl
  · intro K _ _ _ _ p vector
    obtain ⟨v, closed⟩ := p
    unfold Polyline.alignedWith
    rcases v with _ | ⟨a, _ | ⟨b, t⟩⟩
    · simp [PW.Gen.Cmp.test, PW.Gen.PolyOps.alignShortCmp, PW.Gen.PolyOps.alignShortRhs, PW.Gen.PolyOps.alignRaises,
        PW.Gen.errOfName, Polyline.numV]
    · simp [PW.Gen.Cmp.test, PW.Gen.PolyOps.alignShortCmp, PW.Gen.PolyOps.alignShortRhs, PW.Gen.PolyOps.alignRaises,
        PW.Gen.errOfName, Polyline.numV]
    · have hs : ¬ ((t.length : Int) + 1 + 1 < 2) := by omega
      cases hgl : (b :: t).getLast? with
      | none => simp at hgl
      | some l =>
        simp [hgl, hs, PW.Gen.Cmp.test, PW.Gen.PolyOps.alignShortCmp, PW.Gen.PolyOps.alignShortRhs,
          PW.Gen.PolyOps.alignFlipCmp, PW.Gen.PolyOps.alignFlipRhs, PW.Gen.PolyOps.alignRaises, PW.Gen.errOfName,
          Polyline.numV]

/-- [text] what the symbolic reader does not interpret, pinned to the source the model was written from: for every
    function read by `harness/translate/c09.py` its decorators, its parameter list with defaults (among them
    `atol=1e-08`), the statements whose effect is not modelled (shape checks, the `try` of `index_of_vertex` — any added
    in-place call, loop, `with`, `del`, … shows up here), and the number of other bindings of its name in the enclosing
    scope. -/
theorem gen_function_shapes :
    PW.Gen.PolyOps.functionShapes =
      [("edges_for", [], "num_v, is_closed", [], 0),
       ("Polyline.rolled", [], "self, index, ret_edge_mapping=False", [], 0),
       ("Polyline.sliced_at_indices", [], "self, start, stop", [], 0),
       ("Polyline.sectioned", [], "self, section_breakpoints, copy_vs=False", ["expr vg.shape.check(locals(), 'section_breakpoints', (-1,))"], 0),
       ("Polyline.with_insertions", [], "self, points, indices, ret_new_indices=False", ["expr vg.shape.check(locals(), 'indices', (vg.shape.check(locals(), 'points', (-1, 3)),))"], 0),
       ("Polyline.flipped", [], "self", [], 0),
       ("Polyline.join", ["classmethod"], "cls, *polylines, is_closed=False", [], 0),
       ("Polyline.index_of_vertex", [], "self, point, atol=1e-08", ["expr vg.shape.check(locals(), 'point', (3,))", "try"], 0),
       ("Polyline.aligned_with", [], "self, vector", ["expr vg.shape.check(locals(), 'vector', (3,))"], 0)] := by rfl

end PW.C09
