/-
  C12 — viewing matrices map the documented volumes and `inverse=True` really inverts.

  Property theorems only (helper lemmas live in PW/Lemmas/C11*.lean, PW/Lemmas/C12.lean).
  Part 0: the closed forms the translator extracted from polliwog/transform/_viewing.py (PW.Gen.Viewing) are the
          ones the model uses — these obligations are what a source edit breaks.
  Part 1 (any linearly ordered field): orthographic projection, viewport transform, canvas composition.
  Part 2 (ℝ): world_to_view, and the canvas inverse with its camera stage.
-/
import PW.Model.Affine
import PW.Model.Viewing
import PW.Gen.Viewing
import PW.Lemmas.Vec
import PW.Lemmas.C11
import PW.Lemmas.C11Real
import PW.Lemmas.C12
import Mathlib.Tactic.Ring
import Mathlib.Tactic.LinearCombination
import Mathlib.Tactic.Linarith
import Mathlib.Tactic.FieldSimp
import Mathlib.Tactic.NormNum
import Mathlib.Algebra.Order.Field.Basic

set_option linter.unusedSectionVars false

namespace PW.C12

open PW.C11

section K
variable {K : Type} [Field K] [LinearOrder K] [IsStrictOrderedRing K]

/-! ## Part 0 — generated closed forms = model -/

/-- the matrices of `view_to_orthographic_projection` read from the source, composed in the order read from the
    source, are the model's forward / inverse orthographic matrices. -/
theorem gen_ortho (w h n f : K) :
    composeTransforms (Gen.orthoFwd w h n f) = orthoForward w h n f ∧
    composeTransforms (Gen.orthoInv w h n f) = orthoInverse w h n f := by
  constructor
  · unfold Gen.orthoFwd orthoForward
    rw [compose_pair, compose_pair]
    ext <;> simp only [orthoScale, orthoTranslate, natLit_eq, Nat.cast_ofNat, Nat.cast_zero, Nat.cast_one] <;>
      mat_simp <;> ring
  · unfold Gen.orthoInv orthoInverse
    rw [compose_pair, compose_pair]
    ext <;> simp only [orthoInvScale, orthoInvTranslate, natLit_eq, Nat.cast_ofNat, Nat.cast_zero, Nat.cast_one] <;>
      mat_simp <;> ring

theorem gen_viewport (xr yb xl yt : K) :
    composeTransforms (Gen.viewportFwd xr yb xl yt) = viewportForward xr yb xl yt ∧
    composeTransforms (Gen.viewportInv xr yb xl yt) = viewportInverse xr yb xl yt := by
  constructor
  · unfold Gen.viewportFwd viewportForward
    rw [compose_pair, compose_pair]
    ext <;> simp only [viewportScale, viewportTranslate, natLit_eq, Nat.cast_ofNat, Nat.cast_zero, Nat.cast_one] <;>
      mat_simp <;> ring
  · unfold Gen.viewportInv viewportInverse
    rw [compose_pair, compose_pair]
    ext <;> simp only [viewportInvScale, viewportInvTranslate, natLit_eq, Nat.cast_ofNat, Nat.cast_zero,
      Nat.cast_one] <;> mat_simp <;> ring

/-- default arguments as documented (`near=0.1, far=2000`, `x_left=0, y_top=0`) -/
theorem gen_defaults :
    Gen.orthoNearDefault = 1 / 10 ∧ Gen.orthoFarDefault = 2000 ∧
    Gen.viewportXLeftDefault = 0 ∧ Gen.viewportYTopDefault = 0 := by
  refine ⟨?_, ?_, ?_, ?_⟩ <;> norm_num [Gen.orthoNearDefault, Gen.orthoFarDefault, Gen.viewportXLeftDefault,
    Gen.viewportYTopDefault]

/-- the stage list of `world_to_canvas_orthographic_projection` as written in the source: camera, orthographic
    projection, viewport, each with `inverse=inverse`; reversed for the inverse; composed with
    `compose_transforms(*transforms)`; near/far and x_left/y_top are not passed (defaults). -/
theorem gen_canvas_structure :
    Gen.canvasStageOrder = [.worldToView, .ortho, .viewport] ∧
    Gen.canvasReverseWhenInverse = true ∧ Gen.canvasComposesStageList = true ∧
    Gen.canvasStageArgs =
      [[("position", "position"), ("target", "target"), ("inverse", "inverse")],
       [("width", "width / zoom"), ("height", "height / zoom"), ("inverse", "inverse")],
       [("x_right", "width"), ("y_bottom", "height"), ("inverse", "inverse")]] := by
  refine ⟨by decide, by decide, by decide, by decide⟩

/-- the arithmetic in the stage arguments: the projection gets `width/zoom`, `height/zoom`, the viewport
    `width`, `height`. -/
theorem gen_canvas_args (width height zoom : K) :
    Gen.canvasOrthoWidth width height zoom = some (width / zoom) ∧
    Gen.canvasOrthoHeight width height zoom = some (height / zoom) ∧
    Gen.canvasViewportXRight width height zoom = some width ∧
    Gen.canvasViewportYBottom width height zoom = some height := by
  refine ⟨?_, ?_, ?_, ?_⟩ <;>
    simp only [Gen.canvasOrthoWidth, Gen.canvasOrthoHeight, Gen.canvasViewportXRight, Gen.canvasViewportYBottom,
      Option.some.injEq] <;> ring

/-- `world_to_view`: the camera rows (`left = normalize(look × up)`, `left × look`, `look = normalize(target −
    position)`) and the factor order of both branches (`translate(−position)` then `rotation`; for the inverse
    `rotationᵀ` then `translate(position)`) as read from the source. -/
theorem gen_w2v [Sqrt K] (pos tgt up : V3 K) :
    Gen.w2vRows pos tgt up =
      [(viewRotation3 pos tgt up).r0, (viewRotation3 pos tgt up).r1, (viewRotation3 pos tgt up).r2] ∧
    Gen.w2vForwardFactors = ["translation((-position))", "rotation"] ∧
    Gen.w2vInverseFactors = ["rotation.T", "translation(position)"] :=
  ⟨rfl, rfl, rfl⟩

/-! ## Part 1 — orthographic projection and viewport over any ordered field -/

/-! ### view_to_orthographic_projection -/

/-- closed form of both branches -/
theorem ortho_closed_form (w h n f : K) :
    orthoForward w h n f =
      ⟨⟨2 / w, 0, 0, 0⟩, ⟨0, 2 / h, 0, 0⟩, ⟨0, 0, -2 / (f - n), -(f + n) / (f - n)⟩, ⟨0, 0, 0, 1⟩⟩ ∧
    orthoInverse w h n f =
      ⟨⟨w / 2, 0, 0, 0⟩, ⟨0, h / 2, 0, 0⟩, ⟨0, 0, (f - n) / -2, (f - n) / -2 * ((f + n) / (f - n))⟩,
       ⟨0, 0, 0, 1⟩⟩ := by
  constructor
  · unfold orthoForward; rw [compose_pair]
    ext <;> simp only [orthoScale, orthoTranslate] <;> mat_simp <;> ring
  · unfold orthoInverse; rw [compose_pair]
    ext <;> simp only [orthoInvScale, orthoInvTranslate] <;> mat_simp <;> ring

/-- no exception for non-zero width/height and `near ≠ far` (in particular for positive sizes, `near < far`);
    otherwise a `ZeroDivisionError` (the parameters are Python numbers). -/
theorem ortho_ok (w h n f : K) (hnf : n ≠ f) :
    viewToOrtho w h n f true = .ok (orthoInverse w h n f) ∧
    (w ≠ 0 → h ≠ 0 → viewToOrtho w h n f false = .ok (orthoForward w h n f)) := by
  have hd : f - n ≠ 0 := sub_ne_zero.mpr (Ne.symm hnf)
  constructor
  · simp [viewToOrtho, hd]
  · intro hw hh; simp [viewToOrtho, hd, hw, hh]

theorem ortho_raises_iff (w h n f : K) :
    (viewToOrtho w h n f false = .error .ZeroDivisionError ↔ (w = 0 ∨ h = 0 ∨ f = n)) ∧
    (viewToOrtho w h n f true = .error .ZeroDivisionError ↔ f = n) := by
  constructor
  · unfold viewToOrtho
    simp only [Bool.false_eq_true, if_false]
    split_ifs with hc
    · simp only [Bool.or_eq_true, beq_iff_eq, sub_eq_zero] at hc
      exact iff_of_true rfl (by tauto)
    · simp only [Bool.or_eq_true, beq_iff_eq, sub_eq_zero] at hc
      exact iff_of_false (by simp) (by tauto)
  · unfold viewToOrtho
    simp only [if_true]
    split_ifs with hc
    · simp only [beq_iff_eq, sub_eq_zero] at hc
      exact iff_of_true rfl hc
    · simp only [beq_iff_eq, sub_eq_zero] at hc
      exact iff_of_false (by simp) hc

/-- the view box maps onto the cube: `(s·w/2, t·h/2, −near) ↦ (s, t, −1)` and `(s·w/2, t·h/2, −far) ↦ (s, t, +1)`
    for every `s, t` (the eight corners are `s, t = ±1`); the matrix is affine. -/
theorem ortho_corners (w h n f s t : K) (hw : w ≠ 0) (hh : h ≠ 0) (hnf : n ≠ f) :
    applyTransform (orthoForward w h n f) ⟨s * (w / 2), t * (h / 2), -n⟩ = ⟨s, t, -1⟩ ∧
    applyTransform (orthoForward w h n f) ⟨s * (w / 2), t * (h / 2), -f⟩ = ⟨s, t, 1⟩ ∧
    IsAffine (orthoForward w h n f) := by
  have hd : f - n ≠ 0 := sub_ne_zero.mpr (Ne.symm hnf)
  rw [(ortho_closed_form w h n f).1]
  refine ⟨?_, ?_, rfl⟩ <;> (ext <;> simp [applyTransform] <;> mat_simp <;> field_simp <;> ring)

/-- … and exactly the box goes into the cube (`near < far`, positive sizes): a point is in
    `[−w/2, w/2] × [−h/2, h/2] × [−far, −near]` iff its image is in `[−1, 1]³`. -/
theorem ortho_box_iff (w h n f : K) (p : V3 K) (hw : 0 < w) (hh : 0 < h) (hnf : n < f) :
    ((-(w / 2) ≤ p.x ∧ p.x ≤ w / 2) ∧ (-(h / 2) ≤ p.y ∧ p.y ≤ h / 2) ∧ (-f ≤ p.z ∧ p.z ≤ -n)) ↔
    ((-1 ≤ (applyTransform (orthoForward w h n f) p).x ∧ (applyTransform (orthoForward w h n f) p).x ≤ 1) ∧
     (-1 ≤ (applyTransform (orthoForward w h n f) p).y ∧ (applyTransform (orthoForward w h n f) p).y ≤ 1) ∧
     (-1 ≤ (applyTransform (orthoForward w h n f) p).z ∧ (applyTransform (orthoForward w h n f) p).z ≤ 1)) := by
  have hd : 0 < f - n := sub_pos.mpr hnf
  have e : applyTransform (orthoForward w h n f) p =
      ⟨2 * p.x / w, 2 * p.y / h, (-2 * p.z - (f + n)) / (f - n)⟩ := by
    rw [(ortho_closed_form w h n f).1]
    ext <;> simp [applyTransform] <;> mat_simp <;> ring
  rw [e]
  simp only
  rw [le_div_iff₀ hw, div_le_iff₀ hw, le_div_iff₀ hh, div_le_iff₀ hh, le_div_iff₀ hd, div_le_iff₀ hd]
  constructor
  · rintro ⟨⟨a, b⟩, ⟨c, d⟩, ⟨e, g⟩⟩
    refine ⟨⟨by linarith, by linarith⟩, ⟨by linarith, by linarith⟩, ⟨by linarith, by linarith⟩⟩
  · rintro ⟨⟨a, b⟩, ⟨c, d⟩, ⟨e, g⟩⟩
    refine ⟨⟨by linarith, by linarith⟩, ⟨by linarith, by linarith⟩, ⟨by linarith, by linarith⟩⟩

/-- the `inverse=True` matrix is the two-sided inverse of the `inverse=False` one. -/
theorem ortho_inverse (w h n f : K) (hw : w ≠ 0) (hh : h ≠ 0) (hnf : n ≠ f) :
    (orthoForward w h n f).mul (orthoInverse w h n f) = M4.one ∧
    (orthoInverse w h n f).mul (orthoForward w h n f) = M4.one := by
  have hd : f - n ≠ 0 := sub_ne_zero.mpr (Ne.symm hnf)
  rw [(ortho_closed_form w h n f).1, (ortho_closed_form w h n f).2]
  constructor <;> (ext <;> mat_simp <;> field_simp <;> ring)

/-! ### viewport_transform -/

theorem viewport_closed_form (xr yb xl yt : K) :
    viewportForward xr yb xl yt =
      ⟨⟨1 / 2 * (xr - xl), 0, 0, 1 / 2 * (xr + xl)⟩, ⟨0, 1 / 2 * (yt - yb), 0, 1 / 2 * (yt + yb)⟩,
       ⟨0, 0, 1 / 2, 1 / 2⟩, ⟨0, 0, 0, 1⟩⟩ ∧
    viewportInverse xr yb xl yt =
      ⟨⟨2 / (xr - xl), 0, 0, 2 / (xr - xl) * (-(1 / 2) * (xr + xl))⟩,
       ⟨0, 2 / (yt - yb), 0, 2 / (yt - yb) * (-(1 / 2) * (yt + yb))⟩, ⟨0, 0, 2, -1⟩, ⟨0, 0, 0, 1⟩⟩ := by
  constructor
  · unfold viewportForward; rw [compose_pair]
    ext <;> simp only [viewportScale, viewportTranslate] <;> mat_simp <;> ring
  · unfold viewportInverse; rw [compose_pair]
    ext <;> simp only [viewportInvScale, viewportInvTranslate] <;> mat_simp <;> ring

theorem viewport_ok (xr yb xl yt : K) :
    viewportTransform xr yb xl yt false = .ok (viewportForward xr yb xl yt) ∧
    (xr ≠ xl → yt ≠ yb → viewportTransform xr yb xl yt true = .ok (viewportInverse xr yb xl yt)) ∧
    (viewportTransform xr yb xl yt true = .error .ZeroDivisionError ↔ (xr = xl ∨ yt = yb)) := by
  refine ⟨rfl, ?_, ?_⟩
  · intro h1 h2
    simp [viewportTransform, sub_ne_zero.mpr h1, sub_ne_zero.mpr h2]
  · unfold viewportTransform
    by_cases h1 : xr - xl = 0 <;> by_cases h2 : yt - yb = 0 <;> simp [h1, h2, sub_eq_zero] <;>
      first | exact Or.inl (sub_eq_zero.mp h1) | exact Or.inr (sub_eq_zero.mp h2) |
        exact ⟨fun e => h1 (sub_eq_zero.mpr e), fun e => h2 (sub_eq_zero.mpr e)⟩

/-- the cube's x,y extent goes to the viewport corners and z to `[0,1]`:
    `x=−1 ↦ x_left`, `x=1 ↦ x_right`, `y=−1 ↦ y_bottom`, `y=1 ↦ y_top`, `z=−1 ↦ 0`, `z=1 ↦ 1`, for any values of
    the other two coordinates; in general the image interpolates linearly. -/
theorem viewport_corners (xr yb xl yt a b : K) :
    (applyTransform (viewportForward xr yb xl yt) ⟨-1, a, b⟩).x = xl ∧
    (applyTransform (viewportForward xr yb xl yt) ⟨1, a, b⟩).x = xr ∧
    (applyTransform (viewportForward xr yb xl yt) ⟨a, -1, b⟩).y = yb ∧
    (applyTransform (viewportForward xr yb xl yt) ⟨a, 1, b⟩).y = yt ∧
    (applyTransform (viewportForward xr yb xl yt) ⟨a, b, -1⟩).z = 0 ∧
    (applyTransform (viewportForward xr yb xl yt) ⟨a, b, 1⟩).z = 1 ∧
    IsAffine (viewportForward xr yb xl yt) := by
  rw [(viewport_closed_form xr yb xl yt).1]
  refine ⟨?_, ?_, ?_, ?_, ?_, ?_, rfl⟩ <;> (simp [applyTransform] <;> mat_simp <;> ring)

theorem viewport_interpolates (xr yb xl yt : K) (p : V3 K) :
    applyTransform (viewportForward xr yb xl yt) p =
      ⟨xl + (p.x + 1) / 2 * (xr - xl), yb + (p.y + 1) / 2 * (yt - yb), (p.z + 1) / 2⟩ ∧
    ((-1 ≤ p.z ∧ p.z ≤ 1) ↔
      (0 ≤ (applyTransform (viewportForward xr yb xl yt) p).z ∧
       (applyTransform (viewportForward xr yb xl yt) p).z ≤ 1)) := by
  have e : applyTransform (viewportForward xr yb xl yt) p =
      ⟨xl + (p.x + 1) / 2 * (xr - xl), yb + (p.y + 1) / 2 * (yt - yb), (p.z + 1) / 2⟩ := by
    rw [(viewport_closed_form xr yb xl yt).1]
    ext <;> simp [applyTransform] <;> mat_simp <;> ring
  refine ⟨e, ?_⟩
  rw [e]
  simp only
  constructor
  · rintro ⟨a, b⟩; exact ⟨by linarith, by linarith⟩
  · rintro ⟨a, b⟩; exact ⟨by linarith, by linarith⟩

theorem viewport_inverse (xr yb xl yt : K) (hx : xr ≠ xl) (hy : yt ≠ yb) :
    (viewportForward xr yb xl yt).mul (viewportInverse xr yb xl yt) = M4.one ∧
    (viewportInverse xr yb xl yt).mul (viewportForward xr yb xl yt) = M4.one := by
  have h1 : xr - xl ≠ 0 := sub_ne_zero.mpr hx
  have h2 : yt - yb ≠ 0 := sub_ne_zero.mpr hy
  rw [(viewport_closed_form xr yb xl yt).1, (viewport_closed_form xr yb xl yt).2]
  constructor <;> (ext <;> mat_simp <;> field_simp <;> ring)

/-! ### world_to_canvas_orthographic_projection -/

variable [Sqrt K]

/-- the canvas projection is the three stages composed in order, with `width/zoom`, `height/zoom` for the
    projection and `(width, height)` for the viewport; for `inverse=True` the inverse stages in reverse order. -/
theorem canvas_is_composition (w h : K) (pos tgt : V3 K) (zoom n f : K)
    (hw : w ≠ 0) (hh : h ≠ 0) (hz : zoom ≠ 0) (hnf : n ≠ f) :
    worldToCanvas w h pos tgt zoom n f false =
      .ok (composeTransforms [worldToView pos tgt vgBasisY false, orthoForward (w / zoom) (h / zoom) n f,
        viewportForward w h 0 0]) ∧
    worldToCanvas w h pos tgt zoom n f true =
      .ok (composeTransforms [viewportInverse w h 0 0, orthoInverse (w / zoom) (h / zoom) n f,
        worldToView pos tgt vgBasisY true]) := by
  have hwz : w / zoom ≠ 0 := div_ne_zero hw hz
  have hhz : h / zoom ≠ 0 := div_ne_zero hh hz
  have o := ortho_ok (w / zoom) (h / zoom) n f hnf
  have v := viewport_ok w h 0 0
  have hz' : (zoom == 0) = false := by simp [hz]
  constructor
  · simp only [worldToCanvas, canvasStages, hz', Bool.false_eq_true, if_false, o.2 hwz hhz, v.1]
    rfl
  · have hv : viewportTransform w h 0 0 true = .ok (viewportInverse w h 0 0) :=
      v.2.1 (by simpa using hw) (by simpa using hh.symm)
    simp only [worldToCanvas, canvasStages, hz', Bool.false_eq_true, if_false, o.1, hv]
    rfl

/-- hence the `inverse=True` canvas matrix inverts the forward one as soon as the camera stage does. -/
theorem canvas_inverse_of_view_inverse (w h : K) (pos tgt : V3 K) (zoom n f : K)
    (hw : w ≠ 0) (hh : h ≠ 0) (hz : zoom ≠ 0) (hnf : n ≠ f)
    (hv1 : (worldToView pos tgt vgBasisY false).mul (worldToView pos tgt vgBasisY true) = M4.one)
    (hv2 : (worldToView pos tgt vgBasisY true).mul (worldToView pos tgt vgBasisY false) = M4.one) :
    ∃ F I, worldToCanvas w h pos tgt zoom n f false = .ok F ∧ worldToCanvas w h pos tgt zoom n f true = .ok I ∧
      F.mul I = M4.one ∧ I.mul F = M4.one := by
  obtain ⟨c1, c2⟩ := canvas_is_composition w h pos tgt zoom n f hw hh hz hnf
  refine ⟨_, _, c1, c2, ?_, ?_⟩
  all_goals
    have hwz : w / zoom ≠ 0 := div_ne_zero hw hz
    have hhz : h / zoom ≠ 0 := div_ne_zero hh hz
    obtain ⟨o1, o2⟩ := ortho_inverse (w / zoom) (h / zoom) n f hwz hhz hnf
    obtain ⟨p1, p2⟩ := viewport_inverse w h 0 0 (by simpa using hw) (by simpa using hh.symm)
    rw [compose_triple, compose_triple]
  · -- (P O V)(V' O' P') = 1
    simp only [M4.mul_assoc]
    rw [← M4.mul_assoc (worldToView pos tgt vgBasisY false) (worldToView pos tgt vgBasisY true), hv1, M4.one_mul,
      ← M4.mul_assoc (orthoForward (w / zoom) (h / zoom) n f) (orthoInverse (w / zoom) (h / zoom) n f), o1,
      M4.one_mul, p1]
  · simp only [M4.mul_assoc]
    rw [← M4.mul_assoc (viewportInverse w h 0 0) (viewportForward w h 0 0), p2, M4.one_mul,
      ← M4.mul_assoc (orthoInverse (w / zoom) (h / zoom) n f) (orthoForward (w / zoom) (h / zoom) n f), o2,
      M4.one_mul, hv2]

/-- non-vacuity: a 640×480 window, near 1, far 5. -/
example : (640 : ℚ) ≠ 0 ∧ (480 : ℚ) ≠ 0 ∧ (1 : ℚ) ≠ 5 ∧
    applyTransform (orthoForward (640 : ℚ) 480 1 5) ⟨320, -240, -5⟩ = ⟨1, -1, 1⟩ := by
  refine ⟨by norm_num, by norm_num, by norm_num, ?_⟩
  have := (ortho_corners (640 : ℚ) 480 1 5 1 (-1) (by norm_num) (by norm_num) (by norm_num)).2.1
  norm_num at this
  exact this

end K

/-! ## Part 2 — world_to_view over ℝ

Non-degeneracy hypotheses of the property: `target ≠ position` (`hd`) and `up` not parallel to the viewing
direction (`hc : (target − position) × up ≠ 0`). -/

section R

/-- the rotation block has orthonormal rows (`left`, recomputed up, `look`) and orthonormal columns; its
    determinant is `−1`: the view frame is left-handed (x points to the camera's left), so world_to_view is a
    distance-preserving map but not a proper rotation. -/
theorem w2v_rows_orthonormal (pos tgt up : V3 ℝ) (hd : tgt - pos ≠ V3.zero)
    (hc : (tgt - pos).cross up ≠ V3.zero) :
    (viewRotation3 pos tgt up).mul (viewRotation3 pos tgt up).transpose = M3.one ∧
    (viewRotation3 pos tgt up).transpose.mul (viewRotation3 pos tgt up) = M3.one ∧
    (viewRotation3 pos tgt up).det = -1 := by
  obtain ⟨a, l, hR, ha, hl, hal, -, -, -⟩ := camera_frame pos tgt up hd hc
  rw [hR]
  exact frame_al a l ha hl hal

/-- world_to_view preserves distances. -/
theorem w2v_isometry (pos tgt up : V3 ℝ) (hd : tgt - pos ≠ V3.zero) (hc : (tgt - pos).cross up ≠ V3.zero)
    (p q : V3 ℝ) :
    (applyTransform (worldToView pos tgt up false) p - applyTransform (worldToView pos tgt up false) q).normSq =
      (p - q).normSq ∧ IsAffine (worldToView pos tgt up false) := by
  refine ⟨?_, by rw [w2v_fwd_eq]; exact affine_mul _ _ rfl rfl⟩
  rw [w2v_fwd_eq, (apply_rot_trans _ pos p).1, (apply_rot_trans _ pos q).1, ← mulVec_sub,
    normSq_mulVec _ (w2v_rows_orthonormal pos tgt up hd hc).2.1]
  simp only [V3.normSq_def, V3.sub_x, V3.sub_y, V3.sub_z]
  ring

/-- the camera position goes to the origin (stated under the same non-degeneracy hypotheses as the rest: outside
    them the code's matrix has NaN entries, even though over ℝ the identity `R·0 = 0` needs nothing). -/
theorem w2v_position (pos tgt up : V3 ℝ) (_hd : tgt - pos ≠ V3.zero) (_hc : (tgt - pos).cross up ≠ V3.zero) :
    applyTransform (worldToView pos tgt up false) pos = V3.zero := by
  rw [w2v_fwd_eq, (apply_rot_trans _ pos pos).1]
  ext <;> mat_simp <;> simp

/-- the target goes onto the positive z axis at its true distance. -/
theorem w2v_target (pos tgt up : V3 ℝ) (hd : tgt - pos ≠ V3.zero) (hc : (tgt - pos).cross up ≠ V3.zero) :
    applyTransform (worldToView pos tgt up false) tgt = ⟨0, 0, (tgt - pos).norm⟩ ∧ 0 < (tgt - pos).norm := by
  obtain ⟨a, l, hR, ha, hl, hal, hdl, -, -⟩ := camera_frame pos tgt up hd hc
  refine ⟨?_, norm_pos _ hd⟩
  rw [w2v_fwd_eq, (apply_rot_trans _ pos tgt).1, hR]
  generalize (tgt - pos).norm = n at hdl ⊢
  rw [hdl]
  simp only [V3.dot_def] at ha hl hal
  ext <;> mat_simp
  · linear_combination n * hal
  · ring
  · linear_combination n * hl

/-- the up direction goes into the y–z half-plane with positive y. -/
theorem w2v_up (pos tgt up : V3 ℝ) (hd : tgt - pos ≠ V3.zero) (hc : (tgt - pos).cross up ≠ V3.zero) :
    (applyTransform (worldToView pos tgt up false) up true).x = 0 ∧
    0 < (applyTransform (worldToView pos tgt up false) up true).y := by
  obtain ⟨a, l, hR, -, -, -, -, hau, hup⟩ := camera_frame pos tgt up hd hc
  rw [w2v_fwd_eq, (apply_rot_trans _ pos up).2, hR]
  exact ⟨hau, hup⟩

/-- the `inverse=True` matrix is the two-sided inverse of the `inverse=False` one. -/
theorem w2v_inverse (pos tgt up : V3 ℝ) (hd : tgt - pos ≠ V3.zero) (hc : (tgt - pos).cross up ≠ V3.zero) :
    (worldToView pos tgt up false).mul (worldToView pos tgt up true) = M4.one ∧
    (worldToView pos tgt up true).mul (worldToView pos tgt up false) = M4.one := by
  obtain ⟨h1, h2, -⟩ := w2v_rows_orthonormal pos tgt up hd hc
  rw [w2v_fwd_eq, w2v_inv_eq]
  constructor
  · rw [M4.mul_assoc, ← M4.mul_assoc (translationMatrix (-pos)).1, (trans_neg_mul_trans pos).1, M4.one_mul,
      ← ofM3_mul, h1]
    rfl
  · rw [M4.mul_assoc, ← M4.mul_assoc (M4.ofM3 _), ← ofM3_mul, h2, ofM3_one, M4.one_mul,
      (trans_neg_mul_trans pos).2]

/-- the canvas matrices invert each other (camera not looking straight along the default up `+y`). -/
theorem canvas_inverse (w h : ℝ) (pos tgt : V3 ℝ) (zoom n f : ℝ)
    (hw : w ≠ 0) (hh : h ≠ 0) (hz : zoom ≠ 0) (hnf : n ≠ f)
    (hd : tgt - pos ≠ V3.zero) (hc : (tgt - pos).cross vgBasisY ≠ V3.zero) :
    ∃ F I, worldToCanvas w h pos tgt zoom n f false = .ok F ∧ worldToCanvas w h pos tgt zoom n f true = .ok I ∧
      F.mul I = M4.one ∧ I.mul F = M4.one := by
  obtain ⟨v1, v2⟩ := w2v_inverse pos tgt vgBasisY hd hc
  exact canvas_inverse_of_view_inverse w h pos tgt zoom n f hw hh hz hnf v1 v2

/-- hypotheses are satisfiable: camera at the origin looking down +z with up +y. -/
example : ((⟨0, 0, 5⟩ : V3 ℝ) - ⟨0, 0, 0⟩ ≠ V3.zero) ∧
    (((⟨0, 0, 5⟩ : V3 ℝ) - ⟨0, 0, 0⟩).cross vgBasisY ≠ V3.zero) := by
  constructor <;> intro h <;> have := V3.ext_iff.mp h <;>
    norm_num [V3.zero, V3.cross, vgBasisY] at this

end R

end PW.C12
