/-
  PW.Err — Python exception classes the model can raise.  The model raises what the *code* raises;
  the property theorems say which class is required.
-/
namespace PW

inductive Err where
  | ValueError | IndexError | KeyError | AttributeError | TypeError
  | NotImplementedError | AssertionError | LinAlgError | ZeroDivisionError | Other
deriving Repr, BEq, DecidableEq, Inhabited

def Err.name : Err → String
  | .ValueError => "ValueError" | .IndexError => "IndexError" | .KeyError => "KeyError"
  | .AttributeError => "AttributeError" | .TypeError => "TypeError"
  | .NotImplementedError => "NotImplementedError" | .AssertionError => "AssertionError"
  | .LinAlgError => "LinAlgError" | .ZeroDivisionError => "ZeroDivisionError" | .Other => "Other"

abbrev Res (α : Type) := Except Err α

end PW
