/-
  PW.Model.Box — model of polliwog/box/_box_object.py and of `Polyline.bounding_box`.
  Mathlib-free; polymorphic over the number type.

  Python → Lean
    Box(origin, size)            ↦ `Box.mk?`       (ValueError when `any(np.less(size, 0))`)
    Box.from_points(points)      ↦ `Box.fromPoints` (`np.min(points, axis=0)`, `np.ptp(points, axis=0)`)
    ranges … v                   ↦ fields of the same name (camelCase)
    min_x_plane … max_z_plane    ↦ `Box.planes` (in the order min_x, min_y, min_z, max_x, max_y, max_z)
    contains(point, atol=None)   ↦ `Box.contains`
    Polyline.bounding_box        ↦ `Box.boundingBox`
-/
import PW.Vec
import PW.Err
import PW.Model.Plane
import PW.Model.PolylineBase

namespace PW

variable {K : Type} [Add K] [Sub K] [Mul K] [Div K] [Neg K] [OfNat K 0] [OfNat K 1]
  [LT K] [LE K] [DecidableLT K] [DecidableLE K]

structure Box (K : Type) where
  origin : V3 K
  size : V3 K
deriving Repr, Inhabited

namespace Box

/-- the literal `2` -/
def two : K := 1 + 1
/-- the literal `0.5` -/
def half : K := 1 / (1 + 1)

/-- `np.minimum` on non-NaN values -/
def minK (a b : K) : K := if b < a then b else a
/-- `np.maximum` on non-NaN values -/
def maxK (a b : K) : K := if a < b then b else a

/-- `Box.__init__` -/
def mk? (o s : V3 K) : Res (Box K) :=
  if s.x < 0 ∨ s.y < 0 ∨ s.z < 0 then .error .ValueError else .ok ⟨o, s⟩

/-- `np.min(points, axis=0)` for a non-empty stack given as head and tail -/
def colMin (p : V3 K) (ps : List (V3 K)) : V3 K :=
  ps.foldl (fun m q => ⟨minK m.x q.x, minK m.y q.y, minK m.z q.z⟩) p
/-- `np.max(points, axis=0)` -/
def colMax (p : V3 K) (ps : List (V3 K)) : V3 K :=
  ps.foldl (fun m q => ⟨maxK m.x q.x, maxK m.y q.y, maxK m.z q.z⟩) p

/-- `Box.from_points`: `k == 0` → ValueError; otherwise `Box(min, ptp)` with `ptp = max - min` -/
def fromPoints : List (V3 K) → Res (Box K)
  | [] => .error .ValueError
  | p :: ps => mk? (colMin p ps) (colMax p ps - colMin p ps)

variable (b : Box K)

def minX : K := b.origin.x
def minY : K := b.origin.y
def minZ : K := b.origin.z
def maxX : K := b.origin.x + b.size.x
def maxY : K := b.origin.y + b.size.y
def maxZ : K := b.origin.z + b.size.z
def midX : K := b.origin.x + b.size.x / two
def midY : K := b.origin.y + b.size.y / two
def midZ : K := b.origin.z + b.size.z / two
def width : K := b.size.x
def height : K := b.size.y
def depth : K := b.size.z

/-- `ranges`: rows `[min(o, o+s), max(o, o+s)]` per axis -/
def ranges : List (K × K) :=
  [(minK b.origin.x (b.origin.x + b.size.x), maxK b.origin.x (b.origin.x + b.size.x)),
   (minK b.origin.y (b.origin.y + b.size.y), maxK b.origin.y (b.origin.y + b.size.y)),
   (minK b.origin.z (b.origin.z + b.size.z), maxK b.origin.z (b.origin.z + b.size.z))]

/-- `origin + 0.5 * size` -/
def centerPoint : V3 K := b.origin + V3.smul half b.size

/-- `origin + [0.5, 0.0, 0.5] * size` -/
def floorPoint : V3 K := b.origin + ⟨half * b.size.x, 0 * b.size.y, half * b.size.z⟩

/-- `np.prod(size)` -/
def volume : K := b.size.x * b.size.y * b.size.z

/-- `l, h, w = size; 2 * (w * l + h * l + h * w)` -/
def surfaceArea : K :=
  two * (b.size.z * b.size.x + b.size.y * b.size.x + b.size.y * b.size.z)

/-- the `v` corner table -/
def v : List (V3 K) :=
  let o := b.origin
  let s := b.size
  [o,
   o + ⟨s.x, 0, 0⟩,
   o + ⟨0, s.y, 0⟩,
   o + ⟨0, 0, s.z⟩,
   o + ⟨s.x, s.y, 0⟩,
   o + ⟨0, s.y, s.z⟩,
   o + ⟨s.x, 0, s.z⟩,
   o + ⟨s.x, s.y, s.z⟩]

def minXPlane : Plane K := ⟨⟨b.minX, b.centerPoint.y, b.centerPoint.z⟩, ⟨1, 0, 0⟩⟩
def minYPlane : Plane K := ⟨⟨b.centerPoint.x, b.minY, b.centerPoint.z⟩, ⟨0, 1, 0⟩⟩
def minZPlane : Plane K := ⟨⟨b.centerPoint.x, b.centerPoint.y, b.minZ⟩, ⟨0, 0, 1⟩⟩
def maxXPlane : Plane K := ⟨⟨b.maxX, b.centerPoint.y, b.centerPoint.z⟩, ⟨-1, 0, 0⟩⟩
def maxYPlane : Plane K := ⟨⟨b.centerPoint.x, b.maxY, b.centerPoint.z⟩, ⟨0, -1, 0⟩⟩
def maxZPlane : Plane K := ⟨⟨b.centerPoint.x, b.centerPoint.y, b.maxZ⟩, ⟨0, 0, -1⟩⟩

def planes : List (Plane K) :=
  [b.minXPlane, b.minYPlane, b.minZPlane, b.maxXPlane, b.maxYPlane, b.maxZPlane]

/-- `np.all(np.logical_and(origin - atol <= point, point <= origin + size + atol))` -/
def containsTol (p : V3 K) (atol : K) : Bool :=
  (decide (b.origin.x - atol ≤ p.x) && decide (p.x ≤ b.origin.x + b.size.x + atol)) &&
  (decide (b.origin.y - atol ≤ p.y) && decide (p.y ≤ b.origin.y + b.size.y + atol)) &&
  (decide (b.origin.z - atol ≤ p.z) && decide (p.z ≤ b.origin.z + b.size.z + atol))

/-- `contains(point, atol=None)`: `atol = 0.0` when not given -/
def contains (p : V3 K) (atol : Option K := none) : Bool :=
  b.containsTol p (atol.getD 0)

/-- `Polyline.bounding_box`: `None` for a polyline without vertices, else `Box.from_points(self.v)` -/
def boundingBox (pl : Polyline K) : Res (Option (Box K)) :=
  match pl.v with
  | [] => .ok none
  | _ :: _ => (Box.fromPoints pl.v).map some

end Box

end PW
