/-
  PW.Model.Viewing — model of polliwog/transform/_viewing.py (Mathlib-free).

    world_to_view(position, target, up, inverse)                  ↦ `worldToView`
    view_to_orthographic_projection(width, height, near, far, inverse) ↦ `viewToOrtho`
    viewport_transform(x_right, y_bottom, x_left, y_top, inverse) ↦ `viewportTransform`
    world_to_canvas_orthographic_projection(width, height, position, target, zoom, inverse)
                                                                  ↦ `worldToCanvas`
  The scalar parameters are Python numbers, so a division by zero is a `ZeroDivisionError`
  (`2 / width`, `2 / height`, `… / (far - near)`, `2 / (x_right - x_left)`, `2 / (y_top - y_bottom)`,
  `width / zoom`, `height / zoom`); the model has one explicit branch per such divisor.
  `vg.normalize(v) = v / ‖v‖` and `vg.cross` are modelled by what they compute; world_to_view itself
  never raises (a zero look vector gives NaN entries).
-/
import PW.Vec
import PW.Err
import PW.Model.Affine

namespace PW

section
variable {K : Type} [Add K] [Sub K] [Mul K] [Div K] [Neg K] [OfNat K 0] [OfNat K 1] [OfNat K 2]
  [LT K] [LE K] [DecidableLT K] [DecidableLE K] [BEq K]

/-! ### view_to_orthographic_projection -/

/-- `scale` of the forward branch -/
def orthoScale (width height near far : K) : M4 K :=
  ⟨⟨2 / width, 0, 0, 0⟩, ⟨0, 2 / height, 0, 0⟩, ⟨0, 0, -2 / (far - near), 0⟩, ⟨0, 0, 0, 1⟩⟩

/-- `translate` of the forward branch -/
def orthoTranslate (near far : K) : M4 K :=
  ⟨⟨1, 0, 0, 0⟩, ⟨0, 1, 0, 0⟩, ⟨0, 0, 1, -(far + near) / (far - near)⟩, ⟨0, 0, 0, 1⟩⟩

/-- `inverse_translate` -/
def orthoInvTranslate (near far : K) : M4 K :=
  ⟨⟨1, 0, 0, 0⟩, ⟨0, 1, 0, 0⟩, ⟨0, 0, 1, (far + near) / (far - near)⟩, ⟨0, 0, 0, 1⟩⟩

/-- `inverse_scale` -/
def orthoInvScale (width height near far : K) : M4 K :=
  ⟨⟨width / 2, 0, 0, 0⟩, ⟨0, height / 2, 0, 0⟩, ⟨0, 0, (far - near) / -2, 0⟩, ⟨0, 0, 0, 1⟩⟩

/-- the matrix of the forward branch, `compose_transforms(scale, translate)` -/
def orthoForward (width height near far : K) : M4 K :=
  composeTransforms [orthoScale width height near far, orthoTranslate near far]

/-- the matrix of the `inverse=True` branch, `compose_transforms(inverse_translate, inverse_scale)` -/
def orthoInverse (width height near far : K) : M4 K :=
  composeTransforms [orthoInvTranslate near far, orthoInvScale width height near far]

/-- `view_to_orthographic_projection(width, height, near, far, inverse)` -/
def viewToOrtho (width height near far : K) (inverse : Bool) : Res (M4 K) :=
  if inverse then
    if far - near == 0 then .error .ZeroDivisionError
    else .ok (orthoInverse width height near far)
  else
    if width == 0 || height == 0 || far - near == 0 then .error .ZeroDivisionError
    else .ok (orthoForward width height near far)

/-! ### viewport_transform -/

def viewportScale (xRight yBottom xLeft yTop : K) : M4 K :=
  ⟨⟨1 / 2 * (xRight - xLeft), 0, 0, 0⟩, ⟨0, 1 / 2 * (yTop - yBottom), 0, 0⟩, ⟨0, 0, 1 / 2, 0⟩, ⟨0, 0, 0, 1⟩⟩

def viewportTranslate (xRight yBottom xLeft yTop : K) : M4 K :=
  ⟨⟨1, 0, 0, 1 / 2 * (xRight + xLeft)⟩, ⟨0, 1, 0, 1 / 2 * (yTop + yBottom)⟩, ⟨0, 0, 1, 1 / 2⟩, ⟨0, 0, 0, 1⟩⟩

def viewportInvTranslate (xRight yBottom xLeft yTop : K) : M4 K :=
  ⟨⟨1, 0, 0, -(1 / 2) * (xRight + xLeft)⟩, ⟨0, 1, 0, -(1 / 2) * (yTop + yBottom)⟩, ⟨0, 0, 1, -(1 / 2)⟩,
   ⟨0, 0, 0, 1⟩⟩

def viewportInvScale (xRight yBottom xLeft yTop : K) : M4 K :=
  ⟨⟨2 / (xRight - xLeft), 0, 0, 0⟩, ⟨0, 2 / (yTop - yBottom), 0, 0⟩, ⟨0, 0, 2, 0⟩, ⟨0, 0, 0, 1⟩⟩

def viewportForward (xRight yBottom xLeft yTop : K) : M4 K :=
  composeTransforms [viewportScale xRight yBottom xLeft yTop, viewportTranslate xRight yBottom xLeft yTop]

def viewportInverse (xRight yBottom xLeft yTop : K) : M4 K :=
  composeTransforms [viewportInvTranslate xRight yBottom xLeft yTop, viewportInvScale xRight yBottom xLeft yTop]

/-- `viewport_transform(x_right, y_bottom, x_left, y_top, inverse)` -/
def viewportTransform (xRight yBottom xLeft yTop : K) (inverse : Bool) : Res (M4 K) :=
  if inverse then
    if xRight - xLeft == 0 || yTop - yBottom == 0 then .error .ZeroDivisionError
    else .ok (viewportInverse xRight yBottom xLeft yTop)
  else .ok (viewportForward xRight yBottom xLeft yTop)

/-! ### world_to_view -/

variable [Sqrt K]

/-- rows of the camera rotation: `left = normalize(look × up)`, `recomputed_up = left × look`,
    `look = normalize(target − position)` -/
def viewRotation3 (position target up : V3 K) : M3 K :=
  let look := V3.normalize (target - position)
  let left := V3.normalize (V3.cross look up)
  let recomputedUp := V3.cross left look
  ⟨left, recomputedUp, look⟩

/-- `world_to_view(position, target, up, inverse)` -/
def worldToView (position target up : V3 K) (inverse : Bool) : M4 K :=
  let rotation := (rotationMatrix (viewRotation3 position target up)).1
  if inverse then
    composeTransforms [rotation.transpose, (translationMatrix position).1]
  else
    composeTransforms [(translationMatrix (-position)).1, rotation]

/-! ### world_to_canvas_orthographic_projection -/

/-- the `up` default of `world_to_view`, `vg.basis.y` -/
def vgBasisY : V3 K := ⟨0, 1, 0⟩

/-- the stage list before the optional `reverse()`; `near`, `far` are the defaults of
    `view_to_orthographic_projection` (the canvas function does not pass them) and the viewport gets
    `x_left = y_top = 0` (its defaults). -/
def canvasStages (width height : K) (position target : V3 K) (zoom near far : K) (inverse : Bool) :
    Res (List (M4 K)) :=
  if zoom == 0 then .error .ZeroDivisionError
  else do
    let v := worldToView position target vgBasisY inverse
    let o ← viewToOrtho (width / zoom) (height / zoom) near far inverse
    let p ← viewportTransform width height 0 0 inverse
    pure [v, o, p]

/-- `world_to_canvas_orthographic_projection(width, height, position, target, zoom, inverse)` -/
def worldToCanvas (width height : K) (position target : V3 K) (zoom near far : K) (inverse : Bool) :
    Res (M4 K) := do
  let stages ← canvasStages width height position target zoom near far inverse
  pure (composeTransforms (if inverse then stages.reverse else stages))

end

end PW
