/-
  PW.Model.Affine — model of polliwog/transform/_affine_transform.py and _apply.py (Mathlib-free).

    _convert_33_to_44                         ↦ `M4.ofM3`
    transform_matrix_for_rotation (3×3 case)  ↦ `rotationMatrix`            (forward, inverse = transpose)
    transform_matrix_for_translation          ↦ `translationMatrix`
    transform_matrix_for_non_uniform_scale    ↦ `nonUniformScaleMatrix`     (with the two `raise`s)
    transform_matrix_for_uniform_scale        ↦ `uniformScaleMatrix`
    apply_transform(M)(p, discard_z, as_vector) ↦ `applyTransform`
    compose_transforms(*ts) = reduce(np.dot, reversed(ts)) ↦ `composeTransforms`
  Every builder returns the pair (forward, inverse) the code returns with ret_inverse_matrix=True.
  The Rodrigues-vector form of transform_matrix_for_rotation is `rotationMatrix (rodrigues r)` with
  `rodrigues` from PW.Model.Rodrigues.
-/
import PW.Vec
import PW.Err

namespace PW

variable {K : Type} [Add K] [Sub K] [Mul K] [Div K] [Neg K] [OfNat K 0] [OfNat K 1]
  [LT K] [LE K] [DecidableLT K] [DecidableLE K] [BEq K]

def M4.transpose (m : M4 K) : M4 K := ⟨m.col0, m.col1, m.col2, m.col3⟩

/-- `transform_matrix_for_rotation(R, ret_inverse_matrix=True)` for a 3×3 `R`: `(R₄, R₄ᵀ)` -/
def rotationMatrix (r : M3 K) : M4 K × M4 K :=
  let f := M4.ofM3 r
  (f, f.transpose)

/-- `transform_matrix_for_translation(v, ret_inverse_matrix=True)` -/
def translationMatrix (v : V3 K) : M4 K × M4 K :=
  (⟨⟨1, 0, 0, v.x⟩, ⟨0, 1, 0, v.y⟩, ⟨0, 0, 1, v.z⟩, ⟨0, 0, 0, 1⟩⟩,
   ⟨⟨1, 0, 0, -v.x⟩, ⟨0, 1, 0, -v.y⟩, ⟨0, 0, 1, -v.z⟩, ⟨0, 0, 0, 1⟩⟩)

def diag4 (a b c : K) : M4 K := ⟨⟨a, 0, 0, 0⟩, ⟨0, b, 0, 0⟩, ⟨0, 0, c, 0⟩, ⟨0, 0, 0, 1⟩⟩

/-- `transform_matrix_for_non_uniform_scale(x, y, z, allow_flipping, ret_inverse_matrix=True)` -/
def nonUniformScaleMatrix (x y z : K) (allowFlipping : Bool) : Res (M4 K × M4 K) :=
  if x == 0 || y == 0 || z == 0 then .error .ValueError
  else if !allowFlipping && (decide (x < 0) || decide (y < 0) || decide (z < 0)) then .error .ValueError
  else .ok (diag4 x y z, diag4 (1 / x) (1 / y) (1 / z))

/-- `transform_matrix_for_uniform_scale` -/
def uniformScaleMatrix (s : K) (allowFlipping : Bool) : Res (M4 K × M4 K) :=
  if s == 0 then .error .ValueError
  else if !allowFlipping && decide (s < 0) then .error .ValueError
  else nonUniformScaleMatrix s s s allowFlipping

/-- homogeneous application, dropping `w` without dividing (as the code does):
    `np.dot(transform, [x y z w]ᵀ)[:3]` with `w = 0` for vectors, `1` for points -/
def applyTransform (m : M4 K) (p : V3 K) (asVector : Bool := false) : V3 K :=
  let w : K := if asVector then 0 else 1
  (m.mulVec ⟨p.x, p.y, p.z, w⟩).xyz

/-- `compose_transforms(t₁, …, tₙ) = tₙ · … · t₁` (`reduce(np.dot, reversed(ts))`, identity for none) -/
def composeTransforms (ts : List (M4 K)) : M4 K :=
  match ts.reverse with
  | [] => M4.one
  | r :: rs => rs.foldl M4.mul r

end PW
