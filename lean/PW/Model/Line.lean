/-
  PW.Model.Line — model of polliwog/line/_line_functions.py (project_point_to_line),
  polliwog/line/_line_intersect.py (intersect_lines, intersect_2d_lines) and
  polliwog/line/_line_object.py (Line).  Mathlib-free; polymorphic over the number type.

  Python → Lean (everything lives in `namespace PW.Lines`):
    vg.shape.check_value(arr, shape)              ↦ `shapeMatches`   (shape = list of dims, `none` = wildcard -1)
    the three checks of project_point_to_line     ↦ `projectShapesOk`
    the four checks of intersect_lines/_2d_lines  ↦ `pointShapesOk 3` / `pointShapesOk 2`
    vg.normalize / scalar_projection / project    ↦ `V3.normalize`, `scalarProjection`, `vgProject`
    project_point_to_line (single)                ↦ `projectPointToLine`
    project_point_to_line (any accepted stacking) ↦ `projectPointToLineArgs`   (`Arg.one` = (3,), `Arg.many` = (k,3))
    intersect_lines                               ↦ `intersectLines`          (faithful: |h|/|k| with sqrt, sign from h·k)
    its sqrt-free closed form                     ↦ `intersectLinesSpec`      (proved equal over ℝ in PW.Props.C18)
    intersect_2d_lines                            ↦ `intersect2dWith solve`   (`np.linalg.solve` is a parameter;
                                                     `none` = LinAlgError) and `intersect2d = intersect2dWith cramer`
    vg.almost_zero(v) = np.allclose(v, 0, rtol=0, atol=1e-8) ↦ `almostZero atol`
    Line(point, along) / from_points / reference_points / intersect_line / project ↦ `Line.mk?` …
  `None` results ↦ `Option.none`; `raise ValueError` ↦ `Except.error .ValueError`.
-/
import PW.Vec
import PW.Err

namespace PW.Lines

variable {K : Type} [Add K] [Sub K] [Mul K] [Div K] [Neg K] [OfNat K 0] [OfNat K 1]
  [LT K] [LE K] [DecidableLT K] [DecidableLE K] [BEq K]

/-! ## shapes -/

/-- `vg.shape.check_value(arr, shape)` does not raise: same rank, every non-wildcard dimension equal. -/
def shapeMatches : List Nat → List (Option Nat) → Bool
  | [], [] => true
  | a :: as, e :: es =>
    (match e with
     | none => true
     | some n => a == n) && shapeMatches as es
  | _, _ => false

/-- the shape checks of `project_point_to_line(points, reference_points_of_lines, vectors_along_lines)`:
      k = check_shape_any(points, (3,), (-1, 3))
      check_shape_any(reference_points_of_lines, (3,), (-1 if k is None else k, 3))
      vg.shape.check(locals(), "vectors_along_lines", reference_points_of_lines.shape)
    `true` = all three pass (otherwise the code raises ValueError). -/
def projectShapesOk (sp sr sv : List Nat) : Bool :=
  -- `none` = rejected, `some none` = matched (3,) (k is None), `some (some k)` = matched (-1, 3)
  let k? : Option (Option Nat) :=
    if shapeMatches sp [some 3] then some none
    else match sp with
      | [k, 3] => some (some k)
      | _ => none
  match k? with
  | none => false
  | some k => (shapeMatches sr [some 3] || shapeMatches sr [k, some 3]) && sv == sr

/-- `vg.shape.check(locals(), name, (d,))` for the four arguments of `intersect_lines` (d = 3) /
    `intersect_2d_lines` (d = 2) -/
def pointShapesOk (d : Nat) (s0 s1 s2 s3 : List Nat) : Bool :=
  shapeMatches s0 [some d] && shapeMatches s1 [some d] && shapeMatches s2 [some d] && shapeMatches s3 [some d]

/-- a `(3,)` argument or a `(k, 3)` stack -/
inductive Arg (α : Type) where
  | one (a : α)
  | many (l : List α)
deriving Repr

def Arg.shape {α : Type} : Arg α → List Nat
  | .one _ => [3]
  | .many l => [l.length, 3]

/-! ## projection -/

/-- `vg.scalar_projection(vector, onto) = dot(vector, normalize(onto))` -/
def scalarProjection [Sqrt K] (d v : V3 K) : K := d.dot v.normalize

/-- `vg.project(vector, onto) = scalar_projection(vector, onto) * normalize(onto)` -/
def vgProject [Sqrt K] (d v : V3 K) : V3 K := V3.smul (scalarProjection d v) v.normalize

/-- `project_point_to_line` for one point and one line:
    `reference_point + vg.project(point - reference_point, onto=vector_along_line)`.
    (For the zero vector the division `v / ‖v‖` is `0/0`: NaN in the code, `nan` in the exact run.) -/
def projectPointToLine [Sqrt K] (p r v : V3 K) : V3 K := r + vgProject (p - r) v

/-- the normalisation-free form `r + ((p − r)·v / v·v) v` (what the property is stated about) -/
def projectAlg (p r v : V3 K) : V3 K := r + V3.smul ((p - r).dot v / v.dot v) v

def zipWith3 {α β γ δ : Type} (f : α → β → γ → δ) : List α → List β → List γ → List δ
  | a :: as, b :: bs, c :: cs => f a b c :: zipWith3 f as bs cs
  | _, _, _ => []

/-- `project_point_to_line` with every stacking the code accepts; by definition the stacked result is the
    single-row function applied row by row (the correspondence check is what ties the vectorised NumPy
    expression to this). -/
def projectPointToLineArgs [Sqrt K] (pts refs vecs : Arg (V3 K)) : Res (Arg (V3 K)) :=
  if !projectShapesOk pts.shape refs.shape vecs.shape then .error .ValueError else
  match pts, refs, vecs with
  | .one p, .one r, .one v => .ok (.one (projectPointToLine p r v))
  | .many ps, .one r, .one v => .ok (.many (ps.map fun p => projectPointToLine p r v))
  | .one p, .many rs, .many vs => .ok (.many (List.zipWith (fun r v => projectPointToLine p r v) rs vs))
  | .many ps, .many rs, .many vs => .ok (.many (zipWith3 projectPointToLine ps rs vs))
  | _, _, _ => .error .ValueError   -- unreachable: refs/vecs of different rank fail the shape check

/-! ## 3-D intersection -/

/-- `np.all(a == b)` -/
def v3beq (a b : V3 K) : Bool := a.x == b.x && a.y == b.y && a.z == b.z

/-- `intersect_lines(p0, q0, p1, q1)` as the code computes it. -/
def intersectLines [Sqrt K] (p0 q0 p1 q1 : V3 K) : Option (V3 K) :=
  let e := p0 - q0
  let f := p1 - q1
  if v3beq p0 p1 || v3beq p0 q1 then some p0
  else if v3beq q0 p1 || v3beq p0 q1 then some q0      -- sic: the code tests `p0 == q1` again
  else
    let g := p0 - p1
    let h := f.cross g
    let k := f.cross e
    let h_ := h.norm
    let k_ := k.norm
    if k_ == 0 then none
    else if h_ == 0 then some p0
    else if !(g.dot k == 0) then none
    else
      let l := V3.smul (h_ / k_) e
      let sign : K := if 0 < h.dot k then -1 else 1
      some (p0 + V3.smul sign l)

/-- the sqrt-free closed form of `intersect_lines` -/
def intersectLinesSpec (p0 q0 p1 q1 : V3 K) : Option (V3 K) :=
  let e := p0 - q0
  let f := p1 - q1
  if v3beq p0 p1 || v3beq p0 q1 then some p0
  else if v3beq q0 p1 || v3beq p0 q1 then some q0
  else
    let g := p0 - p1
    let h := f.cross g
    let k := f.cross e
    if k.dot k == 0 then none
    else if h.dot h == 0 then some p0
    else if !(g.dot k == 0) then none
    else some (p0 - V3.smul (h.dot k / k.dot k) e)

/-- branch taken by `intersectLines` (reported by the driver for the coverage histogram) -/
def intersectBranch [Sqrt K] (p0 q0 p1 q1 : V3 K) : String :=
  let e := p0 - q0
  let f := p1 - q1
  if v3beq p0 p1 || v3beq p0 q1 then "shortcut-p0"
  else if v3beq q0 p1 || v3beq p0 q1 then "shortcut-q0"
  else
    let g := p0 - p1
    let h := f.cross g
    let k := f.cross e
    if k.norm == 0 then "k0"
    else if h.norm == 0 then "h0"
    else if !(g.dot k == 0) then "skew"
    else if 0 < h.dot k then "minus" else "plus"

/-! ## 2-D intersection -/

@[ext] structure V2 (K : Type) where
  x : K
  y : K
deriving Repr, Inhabited

/-- rows `(a00 a01)`, `(a10 a11)` -/
structure M2 (K : Type) where
  a00 : K
  a01 : K
  a10 : K
  a11 : K
deriving Repr, Inhabited

def M2.det (a : M2 K) : K := a.a00 * a.a11 - a.a01 * a.a10
def M2.mulVec (a : M2 K) (v : V2 K) : V2 K := ⟨a.a00 * v.x + a.a01 * v.y, a.a10 * v.x + a.a11 * v.y⟩

/-- the linear system `a x = b` built by `intersect_2d_lines` -/
def system2d (p0 q0 p1 q1 : V2 K) : M2 K × V2 K :=
  let dy0 := q0.y - p0.y
  let dx0 := q0.x - p0.x
  let rhs0 := p0.y * dx0 - dy0 * p0.x
  let dy1 := q1.y - p1.y
  let dx1 := q1.x - p1.x
  let rhs1 := p1.y * dx1 - dy1 * p1.x
  (⟨-dy0, dx0, -dy1, dx1⟩, ⟨rhs0, rhs1⟩)

/-- `intersect_2d_lines` with `np.linalg.solve` as a parameter (`none` = it raised `LinAlgError`). -/
def intersect2dWith (solve : M2 K → V2 K → Option (V2 K)) (p0 q0 p1 q1 : V2 K) : Option (V2 K) :=
  let ab := system2d p0 q0 p1 q1
  if ab.1.det == 0 then none else solve ab.1 ab.2

/-- Cramer's rule; only ever called with `det ≠ 0` (guarded by `intersect2dWith`). -/
def cramer (a : M2 K) (b : V2 K) : Option (V2 K) :=
  some ⟨(b.x * a.a11 - a.a01 * b.y) / a.det, (a.a00 * b.y - b.x * a.a10) / a.det⟩

def intersect2d (p0 q0 p1 q1 : V2 K) : Option (V2 K) := intersect2dWith cramer p0 q0 p1 q1

/-! ## the Line object -/

/-- `np.absolute` -/
def absK (x : K) : K := if x < 0 then -x else x

/-- `vg.almost_zero(v, atol) = np.allclose(v, [0,0,0], rtol=0, atol=atol)`: every `|vᵢ| ≤ atol` -/
def almostZero (atol : K) (v : V3 K) : Bool :=
  decide (absK v.x ≤ atol) && decide (absK v.y ≤ atol) && decide (absK v.z ≤ atol)

/-- `Line` stores the reference point and the direction as given (`assume_normalized` is stored and
    never read). -/
structure Line (K : Type) where
  ref : V3 K
  along : V3 K
deriving Repr, Inhabited

namespace Line

/-- `Line(point, along)`: raises ValueError when `vg.almost_zero(along)` -/
def mk? (atol : K) (point along : V3 K) : Res (Line K) :=
  if almostZero atol along then .error .ValueError else .ok ⟨point, along⟩

/-- `Line.from_points(p1, p2) = Line(point=p1, along=p2 - p1)` -/
def fromPoints (atol : K) (p1 p2 : V3 K) : Res (Line K) := mk? atol p1 (p2 - p1)

/-- `Line.reference_points` -/
def referencePoints (l : Line K) : V3 K × V3 K := (l.ref, l.ref + l.along)

/-- `Line.intersect_line(other) = intersect_lines(*(self.reference_points + other.reference_points))` -/
def intersectLine [Sqrt K] (l m : Line K) : Option (V3 K) :=
  intersectLines l.referencePoints.1 l.referencePoints.2 m.referencePoints.1 m.referencePoints.2

/-- `Line.project(points)` -/
def project [Sqrt K] (l : Line K) (pts : Arg (V3 K)) : Res (Arg (V3 K)) :=
  projectPointToLineArgs pts (.one l.ref) (.one l.along)

end Line

end PW.Lines
