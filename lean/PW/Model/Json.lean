/-
  PW.Model.Json — plain JSON-compatible data as Python sees it (Mathlib-free).

    None            ↦ `null`
    True / False    ↦ `bool b`
    int             ↦ `int i`          (Python keeps `1` and `1.0` apart; so does `json.loads`)
    float           ↦ `num x`
    str             ↦ `str s`
    list            ↦ `arr xs`
    dict            ↦ `obj kvs`        association list in insertion order; `d[k]` = first match
                                         (a Python dict has unique keys)

  The same type holds documents (`Json K`, `K` the number type) and the JSON schema
  (`Json Unit`: the schema contains no floating-point number).
-/
namespace PW

inductive Json (K : Type) where
  | null : Json K
  | bool (b : Bool) : Json K
  | int (i : Int) : Json K
  | num (x : K) : Json K
  | str (s : String) : Json K
  | arr (xs : List (Json K)) : Json K
  | obj (kvs : List (String × Json K)) : Json K
deriving Inhabited

namespace Json
variable {K : Type}

/-- `d[k]` / `d.get(k)` on a dict; `none` on anything that is not a dict or lacks the key -/
def get? (k : String) : Json K → Option (Json K)
  | obj kvs => kvs.lookup k
  | _ => none

end Json
end PW
