/-
  PW.Model.CoordMgr — model of polliwog/transform/_coordinate_manager.py (Mathlib-free).

    _transform.transforms   ↦ `steps`
    _tags_to_indices        ↦ `tags`  (association list; the newest binding of a name wins = dict assignment)
    _points_tag, _points    ↦ `points : Option (name × points)`
    tag_as / the eight delegating appenders / __setattr__ / __getattr__ / do_transform ↦ one function each,
    raising the exception classes the code raises.
  `__getattr__` is only reached by Python for names that are not ordinary attributes; the model is about
  such names (tag names that do not collide with a method or a private field).
-/
import PW.Model.Composite

namespace PW.CM

open PW.CT

variable {K : Type} [Add K] [Sub K] [Mul K] [Div K] [Neg K] [OfNat K 0] [OfNat K 1]
  [LT K] [LE K] [DecidableLT K] [DecidableLE K] [BEq K]

structure State (K : Type) where
  steps : Composite K
  tags : List (String × Nat)
  points : Option (String × List (V3 K))

/-- `_tags_to_indices[name]` (`none` = KeyError) -/
def lookup : List (String × Nat) → String → Option Nat
  | [], _ => none
  | (k, v) :: rest, n => if k = n then some v else lookup rest n

/-- `CoordinateManager()` -/
def empty : State K := ⟨[], [], none⟩

namespace State

/-- `tag_as(name)`: `_tags_to_indices[name] = len(self._transform.transforms)` -/
def tagAs (m : State K) (name : String) : State K :=
  { m with tags := (name, m.steps.length) :: m.tags }

/-- the delegating appenders (they return `None`, exceptions propagate) -/
def append (m : State K) (cmd : StepCmd K) : Res (State K) := do
  let r ← m.steps.step cmd
  pure { m with steps := r.1 }

/-- `do_transform(points, from_tag, to_tag)` -/
def doTransform (m : State K) (pts : Arg (V3 K)) (fromTag toTag : String) : Res (Arg (V3 K)) :=
  match lookup m.tags fromTag, lookup m.tags toTag with
  | some i, some j =>
    if i = j then .ok pts
    else if i < j then .ok (m.steps.call pts (some ((i : Int), (j : Int))) false false)
    else .ok (m.steps.call pts (some ((j : Int), (i : Int))) true false)
  | _, _ => .error .KeyError

/-- `cm.<name> = points` with a `kx3` array -/
def setattr (m : State K) (name : String) (pts : List (V3 K)) : Res (State K) :=
  match lookup m.tags name with
  | none => .error .AttributeError
  | some _ => .ok { m with points := some (name, pts) }

/-- `cm.<name> = value` where `value` is not a `kx3` array: the tag is checked first, then the shape -/
def setattrBadShape (m : State K) (name : String) : Res (State K) :=
  match lookup m.tags name with
  | none => .error .AttributeError
  | some _ => .error .ValueError

/-- `cm.<name>` -/
def getattr (m : State K) (name : String) : Res (Arg (V3 K)) :=
  match m.points with
  | none => .error .ValueError
  | some (tag, pts) => m.doTransform (.many pts) tag name

end State

/-! ### histories -/

inductive Op (K : Type) where
  | tagAs (name : String)
  | step (cmd : StepCmd K)
  | set (name : String) (pts : List (V3 K))
  | setBad (name : String)
  | get (name : String)
  | doT (pts : Arg (V3 K)) (fromTag toTag : String)

/-- what one operation shows to the caller -/
inductive Out (K : Type) where
  | none
  | err (e : Err)
  | pts (a : Arg (V3 K))

def ofRes (m : State K) (r : Res (State K)) : State K × Out K :=
  match r with
  | .ok m' => (m', .none)
  | .error e => (m, .err e)

def ofPts (m : State K) (r : Res (Arg (V3 K))) : State K × Out K :=
  match r with
  | .ok a => (m, .pts a)
  | .error e => (m, .err e)

def stepOp (m : State K) : Op K → State K × Out K
  | .tagAs n => (m.tagAs n, .none)
  | .step cmd => ofRes m (m.append cmd)
  | .set n pts => ofRes m (m.setattr n pts)
  | .setBad n => ofRes m (m.setattrBadShape n)
  | .get n => ofPts m (m.getattr n)
  | .doT pts f t => ofPts m (m.doTransform pts f t)

def run (m : State K) : List (Op K) → State K × List (Out K)
  | [] => (m, [])
  | op :: rest =>
    let r := stepOp m op
    let q := run r.1 rest
    (q.1, r.2 :: q.2)

end PW.CM
