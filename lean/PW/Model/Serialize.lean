/-
  PW.Model.Serialize — model of the serialization code of polliwog (Mathlib-free, namespace `PW.Ser`).

    polliwog/_common/serialization.py   validator_for(schema_path, ref) = Draft7Validator({"$ref": ref}, resolver(schema))
    polliwog/schema.json                ↦ `PW.Gen.Ser.schema` (PW/Gen/Schema.lean, regenerated from /repo on every run by
                                          harness/translate/c19.py together with the `ref=` strings and the DEFAULT_*_DECIMALS
                                          class constants), interpreted by `valid`
    Polyline.rounded / serialize / validate / deserialize   ↦ `plRounded` `plSerialize` `plValidate` `plDeserialize`
    Plane.__init__ (unit-length validation)                  ↦ `planeCtor`
    Plane.rounded / serialize / validate / deserialize       ↦ `planeRounded` `planeSerialize` `planeValidate` `planeDeserialize`

  Python → Lean
    np.around(a, d), d ≥ 0        ↦ `around d x = rint(x · 10ᵈ) / 10ᵈ`  (NumPy: multiply by 10ᵈ, `rint` = round half to even,
                                     divide by 10ᵈ; 10ᵈ ≠ 0, so the division has no guarded branch)
    `decimals=None`               ↦ `Option Nat`, `none` = the class default (generated constant)
    arr.tolist()                  ↦ `vecJson` (Python floats ↦ `Json.num`)
    jsonschema.ValidationError    ↦ `Err.Other`
    vg.almost_unit_length(n, atol=0.1**d) = np.isclose(‖n‖, 1, rtol=0, atol) i.e. |‖n‖ − 1| ≤ a with a = 10⁻ᵈ
                                  ↦ `almostUnit d n`: (1−a)² ≤ n·n ≤ (1+a)², which is the same decision for 0 ≤ a ≤ 1
                                     (d ≥ 0) and needs no square root (`PW.C19.unit_check_sqrt_free` proves the equivalence over ℝ)

  JSON-Schema interpreter: Draft-7 semantics of exactly the keywords schema.json uses —
  `$ref` (to `#/definitions/<name>`, siblings ignored), `type` (one of object array number boolean string null),
  `properties`, `required`, `additionalProperties` (a boolean), `items` (one schema), `minItems`, `maxItems`.
  Keywords constrain only the instance types they apply to (e.g. `required` says nothing about a non-object).
  As in jsonschema a Python `bool` is *not* a number and an `int` *is* a number.  `supported` is the
  decidable check that a schema stays inside this subset (unknown keywords are ignored by jsonschema and by
  `valid`; `PW.C19.schema_supported` makes a schema that leaves the subset a failed proof obligation).
  The recursion of `valid` is structural in the *document*; one `$ref` step is resolved per document node
  (a `$ref` that leads to another `$ref` is outside the subset and refused by `deref` and `supported`).
-/
import PW.Vec
import PW.Err
import PW.Model.Json
import PW.Model.Plane
import PW.Model.PolylineBase
import PW.Gen.Schema

namespace PW.Ser

open PW.Json

/-! ## the schema interpreter -/

section Interp
variable {K : Type}

abbrev Schema := Json Unit

/-- look `#/definitions/<name>` up in the root document's `definitions` -/
def findDef (r : String) : List (String × Schema) → Option Schema
  | [] => none
  | (name, s) :: rest => if "#/definitions/" ++ name = r then some s else findDef r rest

/-- resolve at most one `$ref` (Draft 7: a `$ref` hides its siblings) -/
def deref (root s : Schema) : Option Schema :=
  match s.get? "$ref" with
  | none => some s
  | some (.str r) =>
    match root.get? "definitions" with
    | some (.obj defs) =>
      match findDef r defs with
      | some t => if (t.get? "$ref").isSome then none else some t
      | none => none
    | _ => none
  | some _ => none

/-- jsonschema's Draft-7 type checker on Python values -/
def typeIs (t : String) : Json K → Bool
  | .null => t == "null"
  | .bool _ => t == "boolean"
  | .int _ => t == "number"
  | .num _ => t == "number"
  | .str _ => t == "string"
  | .arr _ => t == "array"
  | .obj _ => t == "object"

def typeOk : Option Schema → Json K → Bool
  | none, _ => true
  | some (.str t), d => typeIs t d
  | some _, _ => false

def lenOk (s : Schema) (n : Nat) : Bool :=
  (match s.get? "minItems" with
   | none => true
   | some (.int m) => decide (m ≤ (n : Int))
   | some _ => false) &&
  (match s.get? "maxItems" with
   | none => true
   | some (.int m) => decide ((n : Int) ≤ m)
   | some _ => false)

def requiredOk (s : Schema) (kvs : List (String × Json K)) : Bool :=
  match s.get? "required" with
  | none => true
  | some (.arr names) => names.all fun
      | .str n => (kvs.lookup n).isSome
      | _ => false
  | some _ => false

def addlOk : Option Schema → Bool
  | some (.bool false) => false
  | _ => true

mutual
/-- does `doc` validate against schema `s` (inside root document `root`)? -/
def valid (root s : Schema) (doc : Json K) : Bool :=
  match deref root s with
  | none => false
  | some n =>
    typeOk (n.get? "type") doc &&
    match doc with
    | .arr xs =>
      lenOk n xs.length &&
      (match n.get? "items" with
       | some it => validAll root it xs
       | none => true)
    | .obj kvs =>
      requiredOk n kvs && validProps root (n.get? "properties") (n.get? "additionalProperties") kvs
    | _ => true
/-- `items`: every element validates -/
def validAll (root it : Schema) : List (Json K) → Bool
  | [] => true
  | x :: xs => valid root it x && validAll root it xs
/-- `properties` / `additionalProperties`: a member named in `properties` validates against that sub-schema,
    any other member is an additional property -/
def validProps (root : Schema) (props addl : Option Schema) : List (String × Json K) → Bool
  | [] => true
  | (k, v) :: rest =>
    (match props.bind (Json.get? k) with
     | some ps => valid root ps v
     | none => addlOk addl) && validProps root props addl rest
end

/-- `Draft7Validator({"$ref": ref}, resolver=RefResolver.from_schema(schema)).validate(doc)` does not raise -/
def validates (root : Schema) (ref : String) (doc : Json K) : Bool :=
  valid root (.obj [("$ref", .str ref)]) doc

/-! the subset check -/

def typeNames : List String := ["object", "array", "number", "boolean", "string", "null"]

mutual
def supported : Schema → Bool
  | .obj kvs => supportedKws kvs
  | _ => false
def supportedKws : List (String × Schema) → Bool
  | [] => true
  | (k, v) :: rest =>
    (if k = "$schema" then (match v with | .str u => u == "http://json-schema.org/draft-07/schema#" | _ => false)
     else if k = "title" ∨ k = "description" ∨ k = "$comment" then (match v with | .str _ => true | _ => false)
     else if k = "$ref" then (match v with | .str _ => true | _ => false)
     else if k = "type" then (match v with | .str t => typeNames.contains t | _ => false)
     else if k = "definitions" ∨ k = "properties" then (match v with | .obj ds => supportedMap ds | _ => false)
     else if k = "items" then supported v
     else if k = "required" then (match v with | .arr ns => supportedNames ns | _ => false)
     else if k = "additionalProperties" then (match v with | .bool _ => true | _ => false)
     else if k = "minItems" ∨ k = "maxItems" then (match v with | .int m => decide (0 ≤ m) | _ => false)
     else false) && supportedKws rest
def supportedMap : List (String × Schema) → Bool
  | [] => true
  | (_, v) :: rest => supported v && supportedMap rest
def supportedNames : List Schema → Bool
  | [] => true
  | .str _ :: rest => supportedNames rest
  | _ :: _ => false
end

end Interp

/-! ## rounding -/

section Round
variable {K : Type} [Mul K] [Div K] [Rounding K]

/-- `10 ** d` (exact in a double for d ≤ 22) -/
def pow10 (d : Nat) : K := Rounding.ofInt ((10 : Int) ^ d)

/-- `np.around(x, d)` for `d ≥ 0` -/
def around (d : Nat) (x : K) : K := Rounding.ofInt (Rounding.rint (x * pow10 d)) / pow10 d

def roundV3 (d : Nat) (v : V3 K) : V3 K := ⟨around d v.x, around d v.y, around d v.z⟩

end Round

/-! ## documents ↔ vectors -/

section Conv
variable {K : Type}

/-- `array.tolist()` of a `(3,)` float array -/
def vecJson (v : V3 K) : Json K := .arr [.num v.x, .num v.y, .num v.z]

/-- a JSON number as a float (`np.array(..., dtype=float64)`) -/
def toNum [Rounding K] : Json K → Option K
  | .int i => some (Rounding.ofInt i)
  | .num x => some x
  | _ => none

def toV3 [Rounding K] : Json K → Option (V3 K)
  | .arr [a, b, c] =>
    match toNum a, toNum b, toNum c with
    | some x, some y, some z => some ⟨x, y, z⟩
    | _, _, _ => none
  | _ => none

def toV3s [Rounding K] : List (Json K) → Option (List (V3 K))
  | [] => some []
  | j :: js =>
    match toV3 j, toV3s js with
    | some v, some vs => some (v :: vs)
    | _, _ => none

end Conv

/-! ## Polyline -/

section Poly
variable {K : Type} [Mul K] [Div K] [Rounding K]

/-- `Polyline.rounded(decimals)` -/
def plRounded (p : Polyline K) (decimals : Option Nat) : Polyline K :=
  ⟨p.v.map (roundV3 (decimals.getD Gen.Ser.polylineDefaultDecimals)), p.closed⟩

/-- the dict `serialize` builds from an (already rounded) polyline -/
def plJson (r : Polyline K) : Json K :=
  .obj [("vertices", .arr (r.v.map vecJson)), ("isClosed", .bool r.closed)]

/-- `Polyline.serialize(decimals)` -/
def plSerialize (p : Polyline K) (decimals : Option Nat) : Json K := plJson (plRounded p decimals)

/-- `Polyline.validate(data)`: raises `jsonschema.ValidationError` (↦ `Other`) or returns -/
def plValidate (doc : Json K) : Res Unit :=
  if validates Gen.Ser.schema Gen.Ser.polylineRef doc then .ok () else .error .Other

/-- `Polyline.deserialize(data)`: validate, then
    `cls(v=np.array(data["vertices"], dtype=float64).reshape(-1, 3), is_closed=data["isClosed"])`.
    The branches after a successful `validate` other than the first are unreachable
    (`PW.C19.polyline_deserialize_total`); they carry the exception Python would raise. -/
def plDeserialize (doc : Json K) : Res (Polyline K) := do
  plValidate doc
  match doc.get? "vertices", doc.get? "isClosed" with
  | some (.arr vs), some (.bool b) =>
    match toV3s vs with
    | some l => .ok ⟨l, b⟩
    | none => .error .ValueError
  | none, _ => .error .KeyError
  | _, none => .error .KeyError
  | _, _ => .error .ValueError

end Poly

/-! ## Plane -/

section Pl
variable {K : Type} [Add K] [Sub K] [Mul K] [Div K] [OfNat K 1] [LE K] [DecidableLE K] [Rounding K]

/-- `0.1 ** d` -/
def unitTol (d : Nat) : K := 1 / pow10 d

/-- `vg.almost_unit_length(n, atol=0.1 ** d)`, square-root free (see the header) -/
def almostUnit (d : Nat) (n : V3 K) : Bool :=
  decide ((1 - unitTol d) * (1 - unitTol d) ≤ n.normSq) && decide (n.normSq ≤ (1 + unitTol d) * (1 + unitTol d))

/-- `Plane(reference_point, normal, direction_decimals)` for `(3,)` arguments -/
def planeCtor (ref n : V3 K) (directionDecimals : Option Nat) : Res (Plane K) :=
  if almostUnit (directionDecimals.getD Gen.Ser.planeDefaultDirectionDecimals) n then .ok ⟨ref, n⟩
  else .error .ValueError

/-- `Plane.rounded(position_decimals, direction_decimals)`: the rebuilt plane is validated at the
    *requested* number of direction decimals -/
def planeRounded (p : Plane K) (positionDecimals directionDecimals : Option Nat) : Res (Plane K) :=
  let pd := positionDecimals.getD Gen.Ser.planeDefaultPositionDecimals
  let dd := directionDecimals.getD Gen.Ser.planeDefaultDirectionDecimals
  planeCtor (roundV3 pd p.ref) (roundV3 dd p.n) (some dd)

def planeJson (r : Plane K) : Json K :=
  .obj [("referencePoint", vecJson r.ref), ("unitNormal", vecJson r.n)]

/-- `Plane.serialize(position_decimals, direction_decimals)` -/
def planeSerialize (p : Plane K) (positionDecimals directionDecimals : Option Nat) : Res (Json K) := do
  let r ← planeRounded p positionDecimals directionDecimals
  pure (planeJson r)

/-- `Plane.validate(data)` -/
def planeValidate (doc : Json K) : Res Unit :=
  if validates Gen.Ser.schema Gen.Ser.planeRef doc then .ok () else .error .Other

/-- `Plane.deserialize(data)`: validate, then
    `cls(reference_point=np.array(data["referencePoint"]), normal=np.array(data["unitNormal"]))`
    — the constructor validates unit length at the *default* number of direction decimals. -/
def planeDeserialize (doc : Json K) : Res (Plane K) := do
  planeValidate doc
  match doc.get? "referencePoint", doc.get? "unitNormal" with
  | some a, some b =>
    match toV3 a, toV3 b with
    | some r, some n => planeCtor r n none
    | _, _ => .error .ValueError
  | _, _ => .error .KeyError

end Pl

end PW.Ser
