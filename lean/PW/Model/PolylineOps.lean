/-
  PW.Model.PolylineOps — model of the editing / query methods of `Polyline`
  (polliwog/polyline/_polyline_object.py) that property C09 is about.  Mathlib-free.

  NumPy → Lean (list functions, `namespace PW.NP`, over an arbitrary element type):
    np.roll(a, shift, axis=0)               ↦ `npRoll a shift`            (offset = shift mod n, Python `%`)
    a[start:stop] (Python slice, any ints)  ↦ `pySlice a start stop`
    np.insert(a, idx, vals, axis=0)         ↦ `npInsert a idx vals`       (idx already normalised to 0..n;
                                               stable by index, then argument order)
    np.bincount(x, minlength=m)             ↦ `bincount x m`
    np.cumsum                               ↦ `cumsum`
    np.argsort(x, kind="stable")            ↦ `argsortStable x`           (positions sorted by (key, position))
    out[order] = x[order] + arange(k)       ↦ `scatterRank`
    np.argmax                               ↦ `argmaxFirst`               (first maximum)

  Polyline methods (`namespace PW.Polyline`):
    flipped, flipped_if, rolled, sliced_at_indices, sectioned, join, with_insertions, index_of_vertex,
    aligned_with, apex, bounding_box, __len__/num_v/num_e  ↦ same names in camelCase.
  Integer arguments are `Int` exactly as Python's (negative / larger than `num_v` allowed); the model does
  what the code does with them; the theorems (PW.Props.C09) state the behaviour for arguments in range.

  Things with no arithmetic content (read-only flags, result does not share memory with the receiver)
  are constant tags emitted by the driver and tied by correspondence only.
-/
import PW.Model.PolylineBase

namespace PW

namespace NP
variable {α : Type}

/-- `np.roll(a, shift, axis=0)`: `offset = shift % n` (Python `%`, in `0..n-1`);
    `result[:offset] = a[-offset:]`, `result[offset:] = a[:-offset]` (the whole array when `offset = 0`).
    On an empty array NumPy returns an empty array. -/
def npRoll (a : List α) (shift : Int) : List α :=
  if a.length = 0 then a else
  let offset : Nat := (shift % (a.length : Int)).toNat
  a.drop (a.length - offset) ++ a.take (a.length - offset)

/-- Python's normalisation of one slice bound for a sequence of length `n` (step 1):
    negative bounds count from the end and are clipped at 0, bounds past the end are clipped at `n`. -/
def sliceBound (n : Nat) (i : Int) : Nat :=
  if i < 0 then (i + (n : Int)).toNat else min i.toNat n

/-- `a[start:stop]` -/
def pySlice (a : List α) (start stop : Int) : List α :=
  let s := sliceBound a.length start
  let e := sliceBound a.length stop
  (a.drop s).take (e - s)

/-- the values given for index `j`, in argument order -/
def insertBlock (ps : List (Nat × α)) (j : Nat) : List α :=
  (ps.filter fun p => p.1 == j).map (·.2)

/-- NumPy-insert from position `j` on: the values whose index is `j` (argument order), then `a[j]`, … ;
    after the last element the values whose index is `len(a)`. -/
def npInsertFrom (ps : List (Nat × α)) : Nat → List α → List α
  | j, [] => insertBlock ps j
  | j, x :: rest => insertBlock ps j ++ x :: npInsertFrom ps (j + 1) rest

/-- `np.insert(a, idx, vals, axis=0)` for an index array with entries in `0..len(a)` (already normalised):
    every value is placed before the element it names; values with the same index keep their argument
    order (NumPy: stable argsort of the indices, `indices[order] += arange(k)`, scatter). -/
def npInsert (a : List α) (idx : List Nat) (vals : List α) : List α :=
  npInsertFrom (idx.zip vals) 0 a

def maxPlusOne : List Nat → Nat
  | [] => 0
  | x :: xs => max (x + 1) (maxPlusOne xs)

/-- `np.bincount(x, minlength=m)`: length `max(m, max(x)+1)`, entry `i` counts the occurrences of `i` -/
def bincount (x : List Nat) (minlength : Nat) : List Nat :=
  (List.range (max minlength (maxPlusOne x))).map fun i => x.count i

def cumsumFrom (acc : Nat) : List Nat → List Nat
  | [] => []
  | x :: xs => (acc + x) :: cumsumFrom (acc + x) xs

/-- `np.cumsum` -/
def cumsum (x : List Nat) : List Nat := cumsumFrom 0 x

/-- `np.argsort(x, kind="stable")`: the positions `0..k-1` sorted by key, equal keys in their original
    order — i.e. sorted by the pair (key, position). -/
def argsortStable (x : List Nat) : List Nat :=
  (List.range x.length).mergeSort fun a b =>
    decide (x.getD a 0 < x.getD b 0) || (x.getD a 0 == x.getD b 0 && decide (a ≤ b))

/-- `out = np.empty(k); out[order] = x[order] + np.arange(k)`: position `m` receives `x[m] + r` where
    `r` is the place of `m` in `order` (`order` is a permutation of `0..k-1`). -/
def scatterRank (x : List Nat) (order : List Nat) : List Nat :=
  (List.range x.length).map fun m => x.getD m 0 + order.idxOf m

def argmaxGo {β : Type} [LT β] [DecidableLT β] (best : β) (bi i : Nat) : List β → Nat
  | [] => bi
  | x :: xs => if best < x then argmaxGo x i (i + 1) xs else argmaxGo best bi (i + 1) xs

/-- `np.argmax`: index of the first maximum (`none` for an empty array) -/
def argmaxFirst {β : Type} [LT β] [DecidableLT β] : List β → Option Nat
  | [] => none
  | x :: xs => some (argmaxGo x 0 1 xs)

end NP

open NP

namespace Polyline
variable {K : Type}

/-! ### index bookkeeping of `with_insertions(ret_new_indices=True)` -/

/-- `indices_of_original_vertices`:
    `np.arange(n) + np.cumsum(np.bincount(insertion_indices, minlength=n+1)[:n])` -/
def indicesOfOriginalVertices (n : Nat) (idx : List Nat) : List Nat :=
  List.zipWith (· + ·) (List.range n) (cumsum ((bincount idx (n + 1)).take n))

/-- `indices_of_inserted_points`:
    `order = argsort(idx, kind="stable"); out[order] = idx[order] + arange(k)` -/
def indicesOfInsertedPoints (idx : List Nat) : List Nat :=
  scatterRank idx (argsortStable idx)

/-! ### methods -/

/-- `Polyline(v=np.flipud(self.v), is_closed=self.is_closed)` -/
def flipped (p : Polyline K) : Polyline K := ⟨p.v.reverse, p.closed⟩

/-- `self.flipped() if condition else self` -/
def flippedIf (p : Polyline K) (condition : Bool) : Polyline K :=
  if condition then p.flipped else p

/-- `rolled(index, ret_edge_mapping=True)`:
    `Polyline(np.roll(self.v, -index, axis=0), is_closed=True)`, `np.roll(np.arange(num_v), -index)` -/
def rolled (p : Polyline K) (index : Int) : Res (Polyline K × List Nat) :=
  if !p.closed then .error .ValueError
  else .ok (⟨npRoll p.v (-index), true⟩, npRoll (List.range p.numV) (-index))

/-- `sliced_at_indices(start, stop)` -/
def slicedAtIndices (p : Polyline K) (start stop : Int) : Res (Polyline K) :=
  if stop ≤ start then
    if p.closed then
      let numToKeep : Int := (p.numV : Int) - start + stop
      .ok ⟨pySlice (npRoll p.v (-start)) 0 numToKeep, false⟩
    else .error .ValueError
  else .ok ⟨pySlice p.v start stop, false⟩

/-- `sectioned(section_breakpoints)` (the constructor copies, so `copy_vs` does not change the value) -/
def sectioned (p : Polyline K) (breakpoints : List Int) : Res (List (Polyline K)) :=
  if p.closed then .error .NotImplementedError else
  let starts : List Int := 0 :: breakpoints
  let ends : List Int := breakpoints.map (· + 1) ++ [(p.numV : Int)]
  let edgesPerSection := List.zipWith (fun s e => e - s - 1) starts ends
  if edgesPerSection.any (fun c => decide (c < 1)) then .error .ValueError
  else .ok (List.zipWith (fun s e => (⟨pySlice p.v s e, false⟩ : Polyline K)) starts ends)

/-- `Polyline.join(*polylines, is_closed=…)` -/
def join (ps : List (Polyline K)) (isClosed : Bool) : Res (Polyline K) :=
  if ps.isEmpty then .error .ValueError
  else if ps.any (·.closed) then .error .ValueError
  else .ok ⟨ps.flatMap (·.v), isClosed⟩

/-- normalisation of an insertion index: `indices[indices < 0] += N` / `np.where(indices < 0, indices + n, indices)` -/
def normIndex (n : Nat) (i : Int) : Nat := (if i < 0 then i + (n : Int) else i).toNat

/-- `with_insertions(points, indices, ret_new_indices=True)`.
    `vg.shape.check(indices, (k,))` → ValueError; `np.insert` raises IndexError for an index outside
    `-n..n` (for an index `< -n` together with `k > 1` NumPy's behaviour is more involved; that case is outside
    the property — "all index arguments in range" — and is not exercised). -/
def withInsertions (p : Polyline K) (points : List (V3 K)) (indices : List Int) :
    Res (Polyline K × List Nat × List Nat) :=
  if indices.length ≠ points.length then .error .ValueError else
  let n := p.numV
  if indices.any (fun i => decide (i < -(n : Int)) || decide ((n : Int) < i)) then .error .IndexError else
  let idx := indices.map (normIndex n)
  .ok (⟨npInsert p.v idx points, p.closed⟩, indicesOfOriginalVertices n idx, indicesOfInsertedPoints idx)

section ordered
variable [Add K] [Sub K] [Mul K] [Div K] [Neg K] [OfNat K 0] [OfNat K 1] [LT K] [LE K] [DecidableLT K] [DecidableLE K]

/-- `np.isclose(x, 0, atol=atol)` for finite `x`: `|x - 0| ≤ atol + rtol·|0|` -/
def absLe (x atol : K) : Bool := if x < 0 then decide (-x ≤ atol) else decide (x ≤ atol)

/-- one row of `np.isclose(self.v - point, 0, atol=atol).all(axis=1)` -/
def closeTo (atol : K) (point a : V3 K) : Bool :=
  absLe (a.x - point.x) atol && absLe (a.y - point.y) atol && absLe (a.z - point.z) atol

/-- `index_of_vertex(point, atol)`: first matching index, ValueError if there is none -/
def indexOfVertex (p : Polyline K) (point : V3 K) (atol : K) : Res Nat :=
  match p.v.findIdx? (closeTo atol point) with
  | some i => .ok i
  | none => .error .ValueError

/-- `vg.apex(self.v, axis)`: ValueError for no points, else the row at `np.argmax(points.dot(along))` -/
def apexIndex (p : Polyline K) (axis : V3 K) : Res Nat :=
  match argmaxFirst (p.v.map fun q => q.dot axis) with
  | none => .error .ValueError
  | some i => .ok i

def apex [Inhabited K] (p : Polyline K) (axis : V3 K) : Res (V3 K) :=
  match p.apexIndex axis with
  | .error e => .error e
  | .ok i => .ok (p.v.getD i default)

def minOf (a : K) : List K → K
  | [] => a
  | x :: xs => minOf (if x < a then x else a) xs

def maxOf (a : K) : List K → K
  | [] => a
  | x :: xs => maxOf (if a < x then x else a) xs

/-- `bounding_box`: `None` without vertices, else `Box(np.min(v, axis=0), np.ptp(v, axis=0))` as
    (origin, size); `Box.__init__` raises ValueError for a negative size component. -/
def boundingBox (p : Polyline K) : Res (Option (V3 K × V3 K)) :=
  match p.v with
  | [] => .ok none
  | a :: rest =>
    let mn : V3 K := ⟨minOf a.x (rest.map (·.x)), minOf a.y (rest.map (·.y)), minOf a.z (rest.map (·.z))⟩
    let mx : V3 K := ⟨maxOf a.x (rest.map (·.x)), maxOf a.y (rest.map (·.y)), maxOf a.z (rest.map (·.z))⟩
    let size := mx - mn
    if size.x < 0 ∨ size.y < 0 ∨ size.z < 0 then .error .ValueError
    else .ok (some (mn, size))

/-- `aligned_with(vector)`.  `vg.project(extent, onto=vector) = dot(extent, û)·û` with `û = vector/‖vector‖`;
    `vg.scale_factor(projected, vector) = projected·vector / projected·projected`, NaN when the denominator is
    `0` (explicit branch in vg), and `NaN < 0` is false.  The second component says whether the result is
    the receiver itself. -/
def alignedWith [Sqrt K] [BEq K] (p : Polyline K) (vector : V3 K) : Res (Polyline K × Bool) :=
  if p.closed then .error .ValueError else
  match p.v, p.v.getLast? with
  | first :: _ :: _, some last =>
    let extent := last - first
    let unit := V3.normalize vector
    let projected := V3.smul (extent.dot unit) unit
    let pp := projected.dot projected
    let pv := projected.dot vector
    if pp == 0 then .ok (p, true)
    else if pv / pp < 0 then .ok (p.flipped, false)
    else .ok (p, true)
  | _, _ => .ok (p, true)

end ordered

/-- `len(polyline)`, `num_v`, `num_e` -/
def len (p : Polyline K) : Nat := p.numV

end Polyline
end PW
