/-
  PW.Model.SliceByPlane — model of
    polliwog/polyline/_slice_by_plane.py    slice_open_polyline_by_plane      ↦ `sliceOpenRuns`   (code-shaped)
                                            its local `intersection_with_plane` ↦ `crossing`
    polliwog/plane/_plane_intersect.py      intersect_segment_with_plane      ↦ `intersectSegmentWithPlane`
                                            (no longer called by the slicer since /repo f9870c4; still modelled and
                                             compared by the `slice.isect` driver op, and related to `crossing` by a theorem)
    polliwog/polyline/_polyline_object.py   Polyline.sliced_by_plane          ↦ `slicedByPlane`
  and the declarative specification `sliceSpec` the property C06 is stated against.
  Mathlib-free; polymorphic over the number type.  Everything lives in `namespace PW.SBP` (slice-by-plane).

  Python → Lean
    (k,3) vertices                               ↦ `List (V3 K)`
    np.sign(plane.signed_distance(vertices))     ↦ `vs.map pl.sign`                      (`Plane.sign`, shared model)
    (signs[:-1] != signs[1:]).nonzero()          ↦ `transitionPoints`  = `nonzeroFrom 0 (zipWith (≠) signs signs.tail)`
    np.vsplit(vertices, transition_points + 1)   ↦ `vsplitFrom 0 vs cuts`
    signs[concatenate([[0], tp + 1])]            ↦ `componentSigns`
    (component_signs == 1).nonzero()             ↦ `nonzeroFrom 0 (componentSigns.map (· == 1))`
    the three `raise ValueError`, in the code's order; the prepend / append blocks
    intersection_with_plane(start, end)          ↦ `crossing pl start end` = start + d_s / (d_s − d_e) * (end − start) with
                                                   (d_s, d_e) = plane.signed_distance([start, end]) — the *same* signed
                                                   distances that decided the signs; no range test, no NaN assignment
    plane.signed_distance / np.sign as observed  ↦ `GivenVertex` (vertex + the sign and signed distance the implementation
                                                   computed for it): `slicedByPlaneGiven` runs the same kernel on them, so that
                                                   inputs within rounding error of the plane are compared on determined signs
    np.roll(v, roll, axis=0)                     ↦ `npRoll v roll`  (roll : Int, as computed by the code)
    np.vstack([working_v, working_v[:1]])        ↦ `w ++ w.take 1`

  The list bookkeeping is written once, generically in the vertex type `α`, the sign function `sg : α → Int`, the
  crossing function `cross : α → α → β` and the embedding `keep : α → β` of a kept vertex (`sliceOpenRunsG`,
  `sliceSpecG`, …); the geometric instances plug in `Plane.sign` and `crossing`.
-/
import PW.Model.Plane
import PW.Model.PolylineBase

namespace PW.SBP

/-! ## generic list kernel (no arithmetic) -/
section kernel
variable {α β : Type}

/-- `mask.nonzero()` with indices counted from `i` -/
def nonzeroFrom (i : Nat) : List Bool → List Nat
  | [] => []
  | b :: bs => if b then i :: nonzeroFrom (i + 1) bs else nonzeroFrom (i + 1) bs

/-- `(signs[:-1] != signs[1:]).nonzero()`: the indices `i` with `signs[i] ≠ signs[i+1]` -/
def transitionPoints (signs : List Int) : List Nat :=
  nonzeroFrom 0 (List.zipWith (fun a b => a != b) signs signs.tail)

/-- `np.vsplit(l, idx)` for increasing `idx`; `l` is the part of the array from absolute row `start` on:
    sections `[start, i₀)`, `[i₀, i₁)`, …, `[i_last, end)` — always `len(idx) + 1` sections. -/
def vsplitFrom (start : Nat) (l : List α) : List Nat → List (List α)
  | [] => [l]
  | i :: is => l.take (i - start) :: vsplitFrom i (l.drop (i - start)) is

/-- `slice_open_polyline_by_plane`, list bookkeeping only.  `IndexError` marks the places where Python would index
    into an empty component; `PW.sliceOpenRunsG_eq_span` (Lemmas) shows they are never reached. -/
def sliceOpenRunsG (sg : α → Int) (cross : α → α → β) (keep : α → β) (vs : List α) : Res (List β) :=
  if vs.length = 0 then .error .ValueError else        -- "A plane can't intersect a polyline with no points"
  let signs := vs.map sg
  let cuts := (transitionPoints signs).map (· + 1)
  let components := vsplitFrom 0 vs cuts
  let componentSigns := (0 :: cuts).map fun i => signs.getD i 0
  match nonzeroFrom 0 (componentSigns.map (· == 1)) with
  | [] => .error .ValueError                            -- "Polyline has no vertices in front of the plane"
  | _ :: _ :: _ => .error .ValueError                   -- "Polyline intersects the plane too many times"
  | [c] =>
    if components.length < 2 then .error .ValueError    -- "Polyline lies entirely in front of the plane"
    else
      let vertsInFront := components.getD c []
      match vertsInFront.head?, vertsInFront.getLast? with
      | some first, some last =>
        -- Prepend the plane intersection point with the previous component.
        let prepend : Res (List β) :=
          if c > 0 then
            match (components.getD (c - 1) []).getLast? with
            | some adjacent =>
              if componentSigns.getD (c - 1) 0 == 0 then .ok [keep adjacent] else .ok [cross adjacent first]
            | none => .error .IndexError
          else .ok []
        -- Append the plane intersection point with the next component.
        let append : Res (List β) :=
          if c + 1 < components.length then
            match (components.getD (c + 1) []).head? with
            | some adjacent =>
              if componentSigns.getD (c + 1) 0 == 0 then .ok [keep adjacent] else .ok [cross last adjacent]
            | none => .error .IndexError
          else .ok []
        match prepend, append with
        | .ok pre, .ok app => .ok (pre ++ vertsInFront.map keep ++ app)
        | .error e, _ => .error e
        | _, .error e => .error e
      | _, _ => .error .IndexError

/-- the point added at an end of the run: the neighbour itself when it lies on the plane (`sg = 0`), otherwise the
    crossing of the connecting segment; `cross` is always called as (start of the segment, end of the segment) in the
    direction the code uses (`entry`: neighbour → first run vertex; `exit`: last run vertex → neighbour). -/
def entryPt (sg : α → Int) (cross : α → α → β) (keep : α → β) (nb first : α) : β :=
  if sg nb = 0 then keep nb else cross nb first
def exitPt (sg : α → Int) (cross : α → α → β) (keep : α → β) (last nb : α) : β :=
  if sg nb = 0 then keep nb else cross last nb

/-- the (at most one) row put before the run: nothing at an open end (`pre = []`) -/
def entryRows (sg : α → Int) (cross : α → α → β) (keep : α → β) (pre : List α) (first : α) : List β :=
  match pre.getLast? with
  | some nb => [entryPt sg cross keep nb first]
  | none => []
/-- the (at most one) row put after the run -/
def exitRows (sg : α → Int) (cross : α → α → β) (keep : α → β) (last : α) (post : List α) : List β :=
  match post.head? with
  | some nb => [exitPt sg cross keep last nb]
  | none => []

/-- `front` as a Boolean test on a vertex: `np.sign(d) == 1` -/
def isFront (sg : α → Int) (a : α) : Bool := sg a == 1

/-- Proof-shaped open slicer / specification for an open polyline:
      `pre`  = the leading vertices that are not in front,
      `run`  = the maximal run of front vertices that follows,
      `post` = the rest;
    refuse when there is no run, when `post` has another front vertex, or when everything is in front;
    otherwise  entry? ++ run ++ exit?. -/
def sliceSpanG (sg : α → Int) (cross : α → α → β) (keep : α → β) (vs : List α) : Res (List β) :=
  let pre := vs.takeWhile (fun a => !isFront sg a)
  let rest := vs.dropWhile (fun a => !isFront sg a)
  let run := rest.takeWhile (isFront sg)
  let post := rest.dropWhile (isFront sg)
  match run.head?, run.getLast? with
  | some first, some last =>
    if post.any (isFront sg) then .error .ValueError       -- more than one run
    else if pre.isEmpty && post.isEmpty then .error .ValueError  -- every vertex in front
    else .ok (entryRows sg cross keep pre first ++ run.map keep ++ exitRows sg cross keep last post)
  | _, _ => .error .ValueError                            -- no vertex in front (includes: no vertices)

/-- `l[k:] ++ l[:k]` -/
def rotl (k : Nat) (l : List α) : List α := l.drop k ++ l.take k

/-- Specification for a closed polyline.  Read the cycle starting at the first vertex `a` that is not in front
    (if there is none, everything is in front, or there are no vertices: refuse): with `F₀` the leading front vertices
    and `N = a :: _` the rest, the cycle is `N ++ F₀` and then back to `a`.  No run of front vertices wraps around the
    end of `N ++ F₀`, so the cyclic runs are the linear runs of `N ++ F₀`, and the closing edge leads to `a`: the result is
    the open specification of `N ++ F₀ ++ [a]` — refusal when there is no run or a second run, the entry neighbour is the
    vertex before the run, the exit neighbour is the vertex after it *cyclically*. -/
def sliceSpecClosedG (sg : α → Int) (cross : α → α → β) (keep : α → β) (vs : List α) : Res (List β) :=
  let f0 := vs.takeWhile (isFront sg)
  match vs.dropWhile (isFront sg) with
  | [] => .error .ValueError
  | a :: n => sliceSpanG sg cross keep (a :: n ++ f0 ++ [a])

/-- the specification, generic form -/
def sliceSpecG (sg : α → Int) (cross : α → α → β) (keep : α → β) (closed : Bool) (vs : List α) : Res (List β) :=
  if closed then sliceSpecClosedG sg cross keep vs else sliceSpanG sg cross keep vs

/-- The specification as a relation, open polyline: `vs = pre ++ run ++ post` where `run` is a non-empty stretch of
    front vertices, no vertex of `pre` or `post` is in front, and not everything is in front; `out` is the run, preceded
    by the entry row when `pre ≠ []` and followed by the exit row when `post ≠ []`. -/
def OpenSlice (sg : α → Int) (cross : α → α → β) (keep : α → β) (vs : List α) (out : List β) : Prop :=
  ∃ pre run post first last, vs = pre ++ run ++ post ∧ run.head? = some first ∧ run.getLast? = some last ∧
    (∀ x ∈ pre, isFront sg x = false) ∧ (∀ x ∈ run, isFront sg x = true) ∧ (∀ x ∈ post, isFront sg x = false) ∧
    (pre ≠ [] ∨ post ≠ []) ∧
    out = entryRows sg cross keep pre first ++ run.map keep ++ exitRows sg cross keep last post

/-- The specification as a relation, closed polyline: some rotation `B ++ A` of `vs = A ++ B` is `run ++ rest` with `run`
    a non-empty stretch of front vertices and `rest` a non-empty stretch without front vertices; `out` is the entry row
    (from the last vertex of `rest`), the run, and the exit row (to the first vertex of `rest`). -/
def ClosedSlice (sg : α → Int) (cross : α → α → β) (keep : α → β) (vs : List α) (out : List β) : Prop :=
  ∃ A B run rest first last nbIn nbOut, vs = A ++ B ∧ B ++ A = run ++ rest ∧
    run.head? = some first ∧ run.getLast? = some last ∧ rest.getLast? = some nbIn ∧ rest.head? = some nbOut ∧
    (∀ x ∈ run, isFront sg x = true) ∧ (∀ x ∈ rest, isFront sg x = false) ∧
    out = entryPt sg cross keep nbIn first :: run.map keep ++ [exitPt sg cross keep last nbOut]

/-- the specification in relational form, open or closed -/
def SliceRel (sg : α → Int) (cross : α → α → β) (keep : α → β) (closed : Bool) (vs : List α) (out : List β) : Prop :=
  if closed then ClosedSlice sg cross keep vs out else OpenSlice sg cross keep vs out

/-- `np.roll(l, r, axis=0)`: row `i` moves to row `(i + r) mod n` -/
def npRoll (l : List α) (r : Int) : List α :=
  if l.length = 0 then l else rotl ((-r) % (l.length : Int)).toNat l

/-- last index with a true entry (`np.where(mask)[0][-1]`), first index (`[0]`) -/
def lastTrue? (mask : List Bool) : Option Nat := (nonzeroFrom 0 mask).getLast?
def firstTrue? (mask : List Bool) : Option Nat := (nonzeroFrom 0 mask).head?

/-- the `roll` computed by `Polyline.sliced_by_plane` for a closed polyline with more than one vertex -/
def closedRoll (signs : List Int) : Int :=
  if signs.getLast? == some 1 then
    match lastTrue? (signs.map (· != 1)) with      -- vertices_not_in_front[-1]
    | some k => -(k : Int)
    | none => 0
  else
    match firstTrue? (signs.map (· == 1)) with     -- vertices_in_front[0]
    | some f => -(f : Int) + 1
    | none => 0

/-- the vertex list handed to the open slicer -/
def workingVertices (sg : α → Int) (closed : Bool) (vs : List α) : List α :=
  if closed && decide (vs.length > 1) then
    let w := npRoll vs (closedRoll (vs.map sg))
    w ++ w.take 1
  else vs

/-- `Polyline.sliced_by_plane`, list bookkeeping only; the result is always an open polyline -/
def slicedByPlaneG (sg : α → Int) (cross : α → α → β) (keep : α → β) (closed : Bool) (vs : List α) :
    Res (List β × Bool) :=
  match sliceOpenRunsG sg cross keep (workingVertices sg closed vs) with
  | .ok v => .ok (v, false)
  | .error e => .error e

/-- the same with the proof-shaped open slicer (executed by the driver next to the code-shaped one) -/
def slicedByPlaneSpanG (sg : α → Int) (cross : α → α → β) (keep : α → β) (closed : Bool) (vs : List α) :
    Res (List β × Bool) :=
  match sliceSpanG sg cross keep (workingVertices sg closed vs) with
  | .ok v => .ok (v, false)
  | .error e => .error e

end kernel

/-! ## geometry -/

variable {K : Type} [Add K] [Sub K] [Mul K] [Div K] [Neg K] [OfNat K 0] [OfNat K 1]
  [LT K] [LE K] [DecidableLT K] [DecidableLE K]

/-- `intersect_segment_with_plane` for one segment; `none` is a NaN row.
      t = nan_to_num(dot(ref - start, n) / dot(segv, n));  p = start + t * segv;  p[t < 0] = p[t > 1] = nan
    A zero denominator is an explicit branch: `x/0` is `±inf` (→ `±1.8e308` after `nan_to_num`, outside `[0,1]`, NaN row)
    for `x ≠ 0` and `nan` (→ `0`, so `p = start + 0 * segv`) for `x = 0`. -/
def intersectSegmentWithPlane (start segv ref n : V3 K) : Option (V3 K) :=
  let num := (ref - start).dot n
  let den := segv.dot n
  if den < 0 ∨ 0 < den then
    let t := num / den
    if t < 0 ∨ 1 < t then none else some (start + V3.smul t segv)
  else if num < 0 ∨ 0 < num then none
  else some (start + V3.smul 0 segv)

/-- `intersect_segment_with_plane` for the segment `a → b` (the call the slicer made before /repo f9870c4) -/
def crossSeg (pl : Plane K) (a b : V3 K) : Option (V3 K) :=
  intersectSegmentWithPlane a (b - a) pl.ref pl.n

/-- `intersection_with_plane(a, b)` of the slicer, and the crossing point of the specification:
    `a + (d_a / (d_a − d_b)) (b − a)`.  Only called when `d_a`, `d_b` have strictly opposite signs, so `d_a − d_b ≠ 0`. -/
def crossing (pl : Plane K) (a b : V3 K) : V3 K :=
  a + V3.smul (pl.signedDistance a / (pl.signedDistance a - pl.signedDistance b)) (b - a)

/-- `slice_open_polyline_by_plane(vertices, plane)` — code-shaped -/
def sliceOpenRuns (pl : Plane K) (vs : List (V3 K)) : Res (List (V3 K)) :=
  sliceOpenRunsG pl.sign (crossing pl) id vs

/-- proof-shaped twin of `sliceOpenRuns` -/
def sliceOpenSpan (pl : Plane K) (vs : List (V3 K)) : Res (List (V3 K)) :=
  sliceSpanG pl.sign (crossing pl) id vs

/-- `Polyline.sliced_by_plane(plane)`: rows and `is_closed` of the returned polyline -/
def slicedByPlane (pl : Plane K) (p : Polyline K) : Res (List (V3 K) × Bool) :=
  slicedByPlaneG pl.sign (crossing pl) id p.closed p.v

def slicedByPlaneSpan (pl : Plane K) (p : Polyline K) : Res (List (V3 K) × Bool) :=
  slicedByPlaneSpanG pl.sign (crossing pl) id p.closed p.v

/-- a vertex together with the sign and the signed distance `plane.sign` / `plane.signed_distance` returned for it -/
structure GivenVertex (K : Type) where
  v : V3 K
  sign : Int
  d : K

/-- `intersection_with_plane` on observed signed distances -/
def GivenVertex.crossing (a b : GivenVertex K) : V3 K :=
  a.v + V3.smul (a.d / (a.d - b.d)) (b.v - a.v)

/-- annotate a vertex with what the model computes for it -/
def annotate (pl : Plane K) (p : V3 K) : GivenVertex K := ⟨p, pl.sign p, pl.signedDistance p⟩

/-- `Polyline.sliced_by_plane` with the signs and signed distances taken as data (the same kernel as `slicedByPlane`) -/
def slicedByPlaneGiven (closed : Bool) (gs : List (GivenVertex K)) : Res (List (V3 K) × Bool) :=
  slicedByPlaneG GivenVertex.sign GivenVertex.crossing GivenVertex.v closed gs

/-- **The specification.**  The unique maximal run of vertices strictly in front of the plane (cyclic when `closed`),
    extended at each end where the path leaves the front side by the neighbouring vertex when it is on the plane and
    otherwise by the crossing point `a + (d_a/(d_a − d_b))(b − a)`; `ValueError` when there is no vertex in front, every
    vertex is in front, there is more than one run, or there are no vertices.  Every returned row is a finite point. -/
def sliceSpec (pl : Plane K) (closed : Bool) (vs : List (V3 K)) : Res (List (V3 K)) :=
  sliceSpecG pl.sign (crossing pl) id closed vs

end PW.SBP
