/-
  PW.Model.Rodrigues — model of polliwog/transform/_rodrigues.py (Mathlib-free; polymorphic over the number type).

  Python → Lean:
    rodrigues_vector_to_rotation_matrix(r, calculate_jacobian)   ↦ `rodriguesForward eps r`  (`.R`, `.jac`)
         r.flatten(); check_value(r,(3,))                        ↦ `rodFwdArr`   (3 elements of any shape, else ValueError)
         eps = np.finfo(np.double).eps                           ↦ parameter `eps` (the driver passes `rodEpsND` = 2⁻⁵²)
         theta < eps shortcut                                    ↦ identity + the constant ±1 Jacobian `smallJacFwd`
         c*I + c1*rrt + s*_r_x_                                  ↦ `rodFormula c s k`
         analytic Jacobian (3×9)                                 ↦ `J3` = three 3×3 blocks, block i = ∂R/∂r_i (row-major) = row i
    rotation_matrix_to_rodrigues_vector(R, calculate_jacobian)   ↦ `rodriguesInverse thr proj R`
         u,_,v = svd(R); r = u·v                                 ↦ parameter `proj : M3 K → M3 K` (contract: identity on proper
                                                                   rotations; the harness passes NumPy's actual u·v as data)
         s < 1e-5 snap branch, c > 0 → zeros, else half-turn     ↦ `rodriguesInverseCore thr p`
         sign tests of the half-turn branch on the symmetric part ↦ `rodSignTests` / `signTestVal` (`halfTurnAxis`)
         analytic Jacobian (9×3)                                 ↦ `J3`, block i = ∂w_i/∂R (row-major) = column i
    cv2_rodrigues                                                ↦ `cv2Rodrigues`  (size == 3 → forward, shape == (3,3) → inverse,
                                                                   else ValueError)
  `calculate_jacobian` only selects whether the Jacobian is returned; the model always carries it.
  Numeric literals: 2 = 1+1, 0.5 = 1/(1+1), 0.25 = 1/((1+1)·(1+1)) (all exact in binary floating point).
-/
import PW.Vec
import PW.Err

namespace PW

/-- `np.finfo(np.double).eps` = 2⁻⁵² as (numerator, denominator) -/
def rodEpsND : Nat × Nat := (1, 4503599627370496)
/-- the literal `1e-5` of `if s < 1e-5` as (numerator, denominator) -/
def rodSinThreshND : Nat × Nat := (1, 100000)
/-- comparison operators of the three branch tests `theta < eps`, `s < 1e-5`, `c > 0` (python `ast` class names) -/
def rodBranchOps : List String := ["Lt", "Lt", "Gt"]

/-- `_r_x_` as a table of (sign, index of r) — `0` ↦ (0,0), `-r[2]` ↦ (-1,2), `r[1]` ↦ (1,1) -/
def rodSkewPattern : List (Int × Nat) :=
  [(0, 0), (-1, 2), (1, 1), (1, 2), (0, 0), (-1, 0), (-1, 1), (1, 0), (0, 0)]
/-- `rrt = [r*r[0], r*r[1], r*r[2]]`: entry (i,j) = r[j]*r[i], as (left index, right index) -/
def rodRrtPattern : List (Nat × Nat) := [(0, 0), (1, 0), (2, 0), (0, 1), (1, 1), (2, 1), (0, 2), (1, 2), (2, 2)]
/-- structure of `r_out = c * I + c1 * rrt + s * _r_x_`: the (scalar, matrix) summands (sorted), and `c1 = 1.0 - c` -/
def rodROutTerms : List (String × String) := [("c", "I"), ("c1", "rrt"), ("s", "_r_x_")]
def rodC1Def : String := "1 - c"
/-- `d_r_x_` (3×9 integer table) -/
def rodDrxTable : List (List Int) :=
  [[0, 0, 0, 0, 0, -1, 0, 1, 0], [0, 0, 1, 0, 0, 0, -1, 0, 0], [0, -1, 0, 1, 0, 0, 0, 0, 0]]
/-- `drrt` (3×9): each entry is a sum of components of r, given by their indices -/
def rodDrrtPattern : List (List (List Nat)) :=
  [[[0, 0], [1], [2], [1], [], [], [2], [], []],
   [[], [0], [], [0], [1, 1], [2], [], [2], []],
   [[], [], [0], [], [], [1], [0], [1], [2, 2]]]
/-- the `theta < eps` Jacobian: `jac[0,5] = jac[1,6] = jac[2,1] = -1`, `jac[0,7] = jac[1,2] = jac[2,3] = 1` -/
def rodSmallJacFwdTable : List (Nat × Nat × Int) :=
  [(0, 5, -1), (1, 6, -1), (2, 1, -1), (0, 7, 1), (1, 2, 1), (2, 3, 1)]
/-- first three (integer) rows of `dvardR` -/
def rodDvardRInt : List (List Int) :=
  [[0, 0, 0, 0, 0, 1, 0, -1, 0], [0, 0, -1, 0, 0, 0, 1, 0, 0], [0, 1, 0, -1, 0, 0, 0, 0, 0]]
/-- rows 4, 5 of `dvardR`: `d1`, `d2` on the diagonal positions 0, 4, 8 -/
def rodDvardRSym : List (List String) :=
  [["d1", "0", "0", "0", "d1", "0", "0", "0", "d1"], ["d2", "0", "0", "0", "d2", "0", "0", "0", "d2"]]
def rodDvar2dvar : List (List String) :=
  [["vth", "0", "0", "rx", "0"], ["0", "vth", "0", "ry", "0"], ["0", "0", "vth", "rz", "0"], ["0", "0", "0", "0", "1"]]
def rodDomegadvar2 : List (List String) :=
  [["theta", "0", "0", "rx * vth"], ["0", "theta", "0", "ry * vth"], ["0", "0", "theta", "rz * vth"]]
/-- the snap-branch Jacobian for `c > 0`: (row, column, sign) of the entries `±0.5` of the 9×3 array -/
def rodSmallJacInvTable : List (Nat × Nat × Int) :=
  [(1, 2, -1), (5, 0, -1), (6, 1, -1), (2, 1, 1), (3, 2, 1), (7, 0, 1)]
/-- the three sign tests of the half-turn branch, in source order: the matrix entries summed on the left and the
    comparison with 0 — `r[0,1] + r[1,0] < 0`, `r[0,2] + r[2,0] < 0`, `r[1,2] + r[2,1] > 0` (the symmetric part,
    since fix 9da4f71; before it the single entries `r[0,1]`, `r[0,2]`, `r[1,2]`) -/
def rodSignTests : List (List (Nat × Nat) × String) :=
  [([(0, 1), (1, 0)], "Lt"), ([(0, 2), (2, 0)], "Lt"), ([(1, 2), (2, 1)], "Gt")]
variable {K : Type} [Add K] [Sub K] [Mul K] [Div K] [Neg K] [OfNat K 0] [OfNat K 1]
  [LT K] [LE K] [DecidableLT K] [DecidableLE K] [BEq K]

/-- three 3×3 blocks: a 3×9 array by rows, or a 9×3 array by columns -/
structure J3 (K : Type) where
  j0 : M3 K
  j1 : M3 K
  j2 : M3 K
deriving Repr, Inhabited

namespace J3
def get (j : J3 K) : Nat → M3 K
  | 0 => j.j0
  | 1 => j.j1
  | _ => j.j2
/-- the 3×9 array, row-major -/
def toList39 (j : J3 K) : List K := j.j0.toList ++ j.j1.toList ++ j.j2.toList
/-- the 9×3 array (blocks are columns), row-major -/
def toList93 (j : J3 K) : List K :=
  (List.zip j.j0.toList (List.zip j.j1.toList j.j2.toList)).flatMap fun (a, b, c) => [a, b, c]
end J3

/-! generic helpers live in `PW.Rod` (to keep `PW` free of short names) -/
namespace Rod

def m3OfFlat (f : Nat → K) : M3 K := ⟨⟨f 0, f 1, f 2⟩, ⟨f 3, f 4, f 5⟩, ⟨f 6, f 7, f 8⟩⟩
def m3Zero : M3 K := ⟨V3.zero, V3.zero, V3.zero⟩
/-- Frobenius inner product Σ aᵢⱼ bᵢⱼ -/
def frob (a b : M3 K) : K := a.r0.dot b.r0 + a.r1.dot b.r1 + a.r2.dot b.r2

def rodTwo : K := 1 + 1
def rodHalf : K := 1 / (1 + 1)
def rodQuarter : K := 1 / ((1 + 1) * (1 + 1))

def intToK (i : Int) : K := if i = 0 then 0 else if i = 1 then 1 else if i = -1 then -1 else 0

/-- a signed component of `r` -/
def patEntry (r : V3 K) (e : Int × Nat) : K :=
  if e.1 = 0 then 0 else if e.1 = 1 then r.get e.2 else -(r.get e.2)

def sumIdx (r : V3 K) : List Nat → K
  | [] => 0
  | [i] => r.get i
  | i :: rest => r.get i + sumIdx r rest

/-- entry `(i, j)` of a 3×3 matrix -/
def m3Get (p : M3 K) (i j : Nat) : K :=
  match i with
  | 0 => p.r0.get j
  | 1 => p.r1.get j
  | _ => p.r2.get j

/-- sum of the listed matrix entries -/
def entrySum (p : M3 K) : List (Nat × Nat) → K
  | [] => 0
  | [e] => m3Get p e.1 e.2
  | e :: rest => m3Get p e.1 e.2 + entrySum p rest

/-- `_r_x_ = [[0, -r[2], r[1]], [r[2], 0, -r[0]], [-r[1], r[0], 0]]` -/
def skew (r : V3 K) : M3 K := ⟨⟨0, -r.z, r.y⟩, ⟨r.z, 0, -r.x⟩, ⟨-r.y, r.x, 0⟩⟩

/-- `rrt = np.array([r * r[0], r * r[1], r * r[2]])` -/
def outer (r : V3 K) : M3 K :=
  ⟨⟨r.x * r.x, r.y * r.x, r.z * r.x⟩, ⟨r.x * r.y, r.y * r.y, r.z * r.y⟩, ⟨r.x * r.z, r.y * r.z, r.z * r.z⟩⟩

end Rod
open Rod

/-- `r_out = c * I + c1 * rrt + s * _r_x_` with `c1 = 1.0 - c` -/
def rodFormula (c s : K) (k : V3 K) : M3 K :=
  M3.add (M3.add (M3.smul c M3.one) (M3.smul (1 - c) (outer k))) (M3.smul s (skew k))

/-- `d_r_x_[i]` as a 3×3 block -/
def drx (i : Nat) : M3 K := m3OfFlat fun j => intToK ((rodDrxTable.getD i []).getD j 0)
/-- `drrt[i]` as a 3×3 block -/
def drrt (k : V3 K) (i : Nat) : M3 K := m3OfFlat fun j => sumIdx k ((rodDrrtPattern.getD i []).getD j [])

def sparseEntry (t : List (Nat × Nat × Int)) (i j : Nat) : K :=
  match t.find? (fun e => e.1 == i && e.2.1 == j) with
  | some e => intToK e.2.2
  | none => 0

/-- the Jacobian returned with the `theta < eps` shortcut -/
def smallJacFwd : J3 K :=
  ⟨m3OfFlat (sparseEntry rodSmallJacFwdTable 0), m3OfFlat (sparseEntry rodSmallJacFwdTable 1),
   m3OfFlat (sparseEntry rodSmallJacFwdTable 2)⟩

/-- row `i` of the analytic forward Jacobian
    `a0*I_jac + a1*rrt.flatten() + a2*drrt + a3*_r_x_.flatten() + a4*d_r_x_` -/
def fwdJacRow (c s itheta : K) (k : V3 K) (i : Nat) : M3 K :=
  let c1 := 1 - c
  let ri := k.get i
  let a0 := -s * ri
  let a1 := (s - rodTwo * c1 * itheta) * ri
  let a2 := c1 * itheta
  let a3 := (c - s * itheta) * ri
  let a4 := s * itheta
  M3.add (M3.add (M3.add (M3.add (M3.smul a0 M3.one) (M3.smul a1 (outer k))) (M3.smul a2 (drrt k i)))
    (M3.smul a3 (skew k))) (M3.smul a4 (drx i))

structure FwdOut (K : Type) where
  R : M3 K
  jac : J3 K
deriving Repr, Inhabited

section forward
variable [Sqrt K] [Trig K]

/-- `rodrigues_vector_to_rotation_matrix` on a flattened 3-vector -/
def rodriguesForward (eps : K) (r : V3 K) : FwdOut K :=
  let theta := r.norm
  if theta < eps then ⟨M3.one, smallJacFwd⟩
  else
    let c := Trig.cos theta
    let s := Trig.sin theta
    let itheta : K := if theta == 0 then 1 else 1 / theta
    let k := V3.smul itheta r
    ⟨rodFormula c s k, ⟨fwdJacRow c s itheta k 0, fwdJacRow c s itheta k 1, fwdJacRow c s itheta k 2⟩⟩

end forward

namespace Rod
/-- `np.clip(x, lo, hi)` = `minimum(maximum(x, lo), hi)` -/
def clip (x lo hi : K) : K :=
  let m := if x < lo then lo else x
  if hi < m then hi else m

/-- `np.clip(x, 0, np.inf)` (the upper bound is inert) -/
def clip0 (x : K) : K := if x < 0 then 0 else x

/-- `np.abs` -/
def absK (x : K) : K := if x < 0 then -x else x

end Rod

structure InvOut (K : Type) where
  w : V3 K
  jac : J3 K
deriving Repr, Inhabited

/-- the snap-branch Jacobian for `c > 0` (entries ±0.5 of the 9×3 array; block i = column i) -/
def smallJacInv : J3 K :=
  let blk (i : Nat) : M3 K := m3OfFlat fun j => rodHalf * sparseEntry rodSmallJacInvTable j i
  ⟨blk 0, blk 1, blk 2⟩

def zeroJac : J3 K := ⟨m3Zero, m3Zero, m3Zero⟩

/-- integer row `i` of `dvardR` as a 3×3 block -/
def dvardRBlock (i : Nat) : M3 K := m3OfFlat fun j => intToK ((rodDvardRInt.getD i []).getD j 0)

/-- block `i` of the analytic inverse Jacobian: row `i` of `domegadvar2 · dvar2dvar · dvardR`,
    reshaped 3×3 and transposed -/
def invJacBlock (theta vth d1 d2 ri : K) (i : Nat) : M3 K :=
  M3.transpose (M3.add (M3.add (M3.smul (theta * vth) (dvardRBlock i)) (M3.smul (theta * ri * d1) M3.one))
    (M3.smul (ri * vth * d2) M3.one))

section inverse
variable [Sqrt K] [Trig K]

/-- the left-hand side of the `n`-th sign test (`rodSignTests`): since fix 9da4f71 twice the symmetric part,
    `r[0,1] + r[1,0]`, `r[0,2] + r[2,0]`, `r[1,2] + r[2,1]` -/
def signTestVal (p : M3 K) (n : Nat) : K := entrySum p (rodSignTests.getD n ([], "")).1

/-- the axis recovered in the half-turn branch: `np.sqrt(np.clip((np.diag(r) + 1) * 0.5, 0, np.inf))` (clip *before*
    the square root since fix b956e7d) with the sign fix-ups, which read the symmetric part of the matrix (fix
    9da4f71): `if r[0,1] + r[1,0] < 0: ry = -ry`, `if r[0,2] + r[2,0] < 0: rz = -rz`, and
    `(r[1,2] + r[2,1] > 0) != (ry * rz > 0)` in the third one -/
def halfTurnAxis (p : M3 K) : V3 K :=
  let rx := sqrt (clip0 ((p.r0.x + 1) * rodHalf))
  let ry := sqrt (clip0 ((p.r1.y + 1) * rodHalf))
  let rz := sqrt (clip0 ((p.r2.z + 1) * rodHalf))
  let ry := if signTestVal p 0 < 0 then -ry else ry
  let rz := if signTestVal p 1 < 0 then -rz else rz
  let rz := if absK rx < absK ry ∧ absK rx < absK rz ∧ (decide (0 < signTestVal p 2) != decide (0 < ry * rz)) then -rz else rz
  ⟨rx, ry, rz⟩

/-- everything after the SVD projection -/
def rodriguesInverseCore (thr : K) (p : M3 K) : InvOut K :=
  let rx := p.r2.y - p.r1.z
  let ry := p.r0.z - p.r2.x
  let rz := p.r1.x - p.r0.y
  let s := V3.norm (⟨rx, ry, rz⟩ : V3 K) * sqrt rodQuarter
  let c := clip ((p.r0.x + p.r1.y + p.r2.z - 1) * rodHalf) (-1) 1
  let theta := Trig.acos c
  if s < thr then
    if 0 < c then ⟨V3.zero, smallJacInv⟩
    else
      let v := halfTurnAxis p
      let theta := theta / v.norm
      ⟨V3.smul theta v, zeroJac⟩
  else
    let vth := 1 / (rodTwo * s)
    let dtheta_dtr := -1 / s
    let dvth_dtheta := -vth * c / s
    let d1 := rodHalf * dvth_dtheta * dtheta_dtr
    let d2 := rodHalf * dtheta_dtr
    let jac : J3 K := ⟨invJacBlock theta vth d1 d2 rx 0, invJacBlock theta vth d1 d2 ry 1,
      invJacBlock theta vth d1 d2 rz 2⟩
    let vth := vth * theta
    ⟨⟨rx * vth, ry * vth, rz * vth⟩, jac⟩

/-- `rotation_matrix_to_rodrigues_vector` on a 3×3 matrix; `proj` is `R ↦ u·v` of `np.linalg.svd` -/
def rodriguesInverse (thr : K) (proj : M3 K → M3 K) (R : M3 K) : InvOut K :=
  rodriguesInverseCore thr (proj R)

end inverse

/-! ### shapes and dispatch -/

/-- an n-dimensional array: shape and row-major data -/
structure NdArr (K : Type) where
  shape : List Nat
  data : List K
deriving Repr, Inhabited

inductive RodOut (K : Type) where
  | mat (o : FwdOut K)
  | vec (o : InvOut K)
deriving Repr, Inhabited

section dispatch
variable [Sqrt K] [Trig K]

/-- `rodrigues_vector_to_rotation_matrix`: `r.flatten()` then `check_value(r, (3,))` -/
def rodFwdArr (eps : K) (a : NdArr K) : Res (FwdOut K) :=
  match a.data with
  | [x, y, z] => .ok (rodriguesForward eps ⟨x, y, z⟩)
  | _ => .error .ValueError

/-- `rotation_matrix_to_rodrigues_vector`: `check_value(r, (3, 3))` -/
def rodInvArr (thr : K) (proj : M3 K → M3 K) (a : NdArr K) : Res (InvOut K) :=
  if a.shape = [3, 3] then
    match a.data with
    | [a0, a1, a2, b0, b1, b2, c0, c1, c2] =>
      .ok (rodriguesInverse thr proj ⟨⟨a0, a1, a2⟩, ⟨b0, b1, b2⟩, ⟨c0, c1, c2⟩⟩)
    | _ => .error .ValueError
  else .error .ValueError

/-- `cv2_rodrigues`: `r.size == 3` → forward, `r.shape == (3, 3)` → inverse, else ValueError -/
def cv2Rodrigues (eps thr : K) (proj : M3 K → M3 K) (a : NdArr K) : Res (RodOut K) :=
  if a.data.length = 3 then (rodFwdArr eps a).map RodOut.mat
  else if a.shape = [3, 3] then (rodInvArr thr proj a).map RodOut.vec
  else .error .ValueError

end dispatch

/-- `rodrigues r` as used by `transform_matrix_for_rotation` (the matrix only) -/
def rodrigues [Sqrt K] [Trig K] (eps : K) (r : V3 K) : M3 K := (rodriguesForward eps r).R

end PW
