/-
  PW.Model.Tri — model of polliwog/tri/functions.py, polliwog/tri/quad_faces.py and
  `coplanar_points_are_on_same_side_of_line` of polliwog/line/_line_functions.py.
  Mathlib-free; polymorphic over the number type (operation classes only).

  Python → Lean:
    a 3x3 triangle                               ↦ `Tri K` = (v0, v1, v2)
    surface_normals(points, normalize)           ↦ `surfaceNormal normalize`   vg.cross(p2-p1, p3-p1) [/ ‖·‖]
    surface_area                                 ↦ `surfaceArea`               0.5*sqrt(Σ c²), c written out
    coplanar_points_are_on_same_side_of_line     ↦ `sameSide a b p1 p2`        dot(cross(b-a,p1-a), cross(b-a,p2-a)) >= 0
    tri_contains_coplanar_point(a,b,c,point)     ↦ `triContains`
    barycentric_coordinates_of_points            ↦ `bary`, `baryStack`         Heidrich, guard `s[s == 0] = spacing(1)`
    sample(...)                                  ↦ `sample`                    the rng draws are DATA (`draws`)
    edges_of_faces(faces, normalize)             ↦ `edgesOfFaces`
    quads_to_tris(quads, ret_mapping)            ↦ `quadsToTris`, `quadsMapping`
  A stacked call is `List.map`/`zipWith` of the single form (the correspondence check ties the vectorised code
  to that).  Shape checks are not modelled here (C20) except the ones with a value-level meaning:
  `points` count ≠ triangle count (bary), `weights` count ≠ triangle count, `num_samples` not an int,
  `rng` not a Generator (sample), `faces.dtype != int64` (edges_of_faces, an `assert`).
-/
import PW.Vec
import PW.Err

namespace PW.Tri

structure Tri (K : Type) where
  v0 : V3 K
  v1 : V3 K
  v2 : V3 K
deriving Repr, Inhabited

variable {K : Type} [Add K] [Sub K] [Mul K] [Div K] [Neg K] [OfNat K 0] [OfNat K 1]
  [LT K] [LE K] [DecidableLT K] [DecidableLE K] [BEq K]

/-! ## normals and areas -/

/-- `vg.cross(p2s - p1s, p3s - p1s)` -/
def rawNormal (t : Tri K) : V3 K := V3.cross (t.v1 - t.v0) (t.v2 - t.v0)

/-- `surface_normals(points, normalize)` (`vg.normalize` = `v / ‖v‖`: NaN row for a zero-area triangle) -/
def surfaceNormal [Sqrt K] (normalize : Bool) (t : Tri K) : V3 K :=
  if normalize then V3.normalize (rawNormal t) else rawNormal t

/-- the literal `0.5` -/
def half : K := 1 / (1 + 1)

/-- the three hand-written component lines of `surface_area` -/
def areaCross (t : Tri K) : V3 K :=
  let e1 := t.v1 - t.v0
  let e2 := t.v2 - t.v0
  ⟨e1.y * e2.z - e1.z * e2.y, e1.z * e2.x - e1.x * e2.z, e1.x * e2.y - e1.y * e2.x⟩

/-- `0.5 * np.sqrt((cross_products**2).sum(axis=1))` -/
def surfaceArea [Sqrt K] (t : Tri K) : K :=
  let c := areaCross t
  half * sqrt (c.x * c.x + c.y * c.y + c.z * c.z)

/-! ## same-side test and containment -/

/-- `coplanar_points_are_on_same_side_of_line(a, b, p1, p2)`: the LINE is through `a` and `b`
    (`along_line = b - a`), the points tested are `p1` and `p2` (the docstring of the function has the
    roles the other way round; the code and its only caller use them this way). -/
def sameSide (a b p1 p2 : V3 K) : Bool :=
  let along := b - a
  decide (V3.dot (V3.cross along (p1 - a)) (V3.cross along (p2 - a)) ≥ 0)

/-- `tri_contains_coplanar_point(a, b, c, point)` -/
def triContains (a b c p : V3 K) : Bool :=
  (sameSide b c p a && sameSide a c p b) && sameSide a b p c

/-! ## barycentric coordinates -/

def pow2 : Nat → K
  | 0 => 1
  | n + 1 => (1 + 1) * pow2 n

/-- `np.spacing(1)` = 2⁻⁵² -/
def spacing1 : K := 1 / pow2 52

/-- one row of `barycentric_coordinates_of_points` -/
def bary (t : Tri K) (p : V3 K) : V3 K :=
  let q := t.v0
  let u := t.v1 - t.v0
  let v := t.v2 - t.v0
  let n := V3.cross u v
  let s0 := V3.dot n n
  let s := if s0 == 0 then spacing1 else s0
  let oneOver4ASquared := 1 / s
  let w := p - q
  let b2 := V3.dot (V3.cross u w) n * oneOver4ASquared
  let b1 := V3.dot (V3.cross w v) n * oneOver4ASquared
  ⟨1 - b1 - b2, b1, b2⟩

/-- `barycentric_coordinates_of_points(vertices_of_tris (k,3,3), points (k,3))` -/
def baryStack (tris : List (Tri K)) (pts : List (V3 K)) : Res (List (V3 K)) :=
  if tris.length ≠ pts.length then .error .ValueError else .ok (List.zipWith bary tris pts)

/-! ## sampling -/

def cumsumFrom (acc : K) : List K → List K
  | [] => []
  | w :: ws => (acc + w) :: cumsumFrom (acc + w) ws

/-- `np.cumsum` -/
def cumsum : List K → List K
  | [] => []
  | w :: ws => w :: cumsumFrom w ws

/-- `np.searchsorted(cum, x, side="right")`: the number of leading entries `≤ x`
    (= the insertion point NumPy's binary search finds when `cum` is non-decreasing, which it is for
    non-negative weights; contract of `np.searchsorted`, trusted base). -/
def searchRight (cum : List K) (x : K) : Nat :=
  (cum.takeWhile fun c => decide (c ≤ x)).length

/-- `coeffs[u+v > 1] = 1 - coeffs[u+v > 1]` -/
def reflect (u v : K) : K × K :=
  if u + v > 1 then (1 - u, 1 - v) else (u, v)

/-- `v0 + (coeffs * edge_vectors).sum(axis=1)` -/
def samplePoint (t : Tri K) (u v : K) : V3 K :=
  let c := reflect u v
  t.v0 + (V3.smul c.1 (t.v1 - t.v0) + V3.smul c.2 (t.v2 - t.v0))

/-- face index of one sample: `np.searchsorted(cum, r * total, side="right")` -/
def chooseFace (cum : List K) (total r : K) : Nat := searchRight cum (r * total)

def sampleOne (tris : List (Tri K)) (cum : List K) (total r : K) (uv : K × K) : Res (V3 K × Nat) :=
  let i := chooseFace cum total r
  match tris[i]? with
  | none => .error .IndexError
  | some t => .ok (samplePoint t uv.1 uv.2, i)

def sampleAll (tris : List (Tri K)) (cum : List K) (total : K) : List K → List (K × K) → Res (List (V3 K × Nat))
  | r :: rs, uv :: uvs =>
    match sampleOne tris cum total r uv with
    | .error e => .error e
    | .ok x =>
      match sampleAll tris cum total rs uvs with
      | .error e => .error e
      | .ok xs => .ok (x :: xs)
  | _, _ => .ok []

/-- `rng.random((n, 2, 1))` read in C order: (u₀, v₀, u₁, v₁, …) -/
def pairs : List K → List (K × K)
  | a :: b :: rest => (a, b) :: pairs rest
  | _ => []

structure SampleOut (K : Type) where
  pts : List (V3 K)
  idx : List Nat
  /-- the `k == 0` branch returns `np.zeros((0))` (float64) as face indices -/
  idxFloat : Bool

/-- the part of `sample` after argument validation, for `k > 0`, given the draws of the two
    `rng.random` calls (`rs` = `rng.random(n)`, `uvs` = `rng.random((n,2,1))`). -/
def sampleCore (tris : List (Tri K)) (w : List K) (rs : List K) (uvs : List (K × K)) : Res (List (V3 K × Nat)) :=
  let cum := cumsum w
  let total := cum.getLastD 0
  sampleAll tris cum total rs uvs

/-- `sample(vertices_of_tris, num_samples, rng, weights, ret_points, ret_face_indices=True)`.
    `draws` is the stream the generator will produce (`rng.random`), of which the first `n` and the next
    `2n` values are consumed; `numIsInt`/`rngOk` stand for the two `isinstance` checks. -/
def sample [Sqrt K] (tris : List (Tri K)) (numIsInt : Bool) (n : Int) (rngOk : Bool)
    (weights : Option (List K)) (draws : List K) : Res (SampleOut K) :=
  if !numIsInt then .error .ValueError
  else if !rngOk then .error .ValueError
  else
    let k := tris.length
    let w? : Option (List K) :=
      match weights with
      | none => some (tris.map surfaceArea)
      | some w => if w.length = k then some w else none
    match w? with
    | none => .error .ValueError
    | some w =>
      if k = 0 then .ok ⟨[], [], true⟩
      else if n < 0 then .error .ValueError      -- rng.random(-1): "negative dimensions are not allowed"
      else
        let m := n.toNat
        let rs := draws.take m
        let uvs := pairs ((draws.drop m).take (2 * m))
        match sampleCore tris w rs uvs with
        | .error e => .error e
        | .ok xs => .ok ⟨xs.map (·.1), xs.map (·.2), false⟩

/-! ## index tables: edges_of_faces, quads_to_tris -/

structure Face where
  a : Int
  b : Int
  c : Int
deriving Repr, DecidableEq, Inhabited

structure Quad where
  a : Int
  b : Int
  c : Int
  d : Int
deriving Repr, DecidableEq, Inhabited

def pick3 {α : Type} (x0 x1 x2 : α) : Nat → α
  | 0 => x0
  | 1 => x1
  | _ => x2

def pick4 {α : Type} (x0 x1 x2 x3 : α) : Nat → α
  | 0 => x0
  | 1 => x1
  | 2 => x2
  | _ => x3

def Face.get (f : Face) : Nat → Int := pick3 f.a f.b f.c
def Quad.get (q : Quad) : Nat → Int := pick4 q.a q.b q.c q.d

/-- `faces[:, 0:2]`, `faces[:, 1:3]`, `np.roll(faces, 1, axis=1)[:, 0:2]` as column pairs -/
def edgeCols : List (Nat × Nat) := [(0, 1), (1, 2), (2, 0)]

/-- `np.sort(·, axis=1)` on one edge -/
def sortPair (e : Int × Int) : Int × Int := if e.2 < e.1 then (e.2, e.1) else e

def edgesOfFace (normalize : Bool) (f : Face) : List (Int × Int) :=
  edgeCols.map fun ij =>
    let e := (f.get ij.1, f.get ij.2)
    if normalize then sortPair e else e

/-- `edges_of_faces(faces, normalize)`; `dtypeOk` = `faces.dtype == FACE_DTYPE` (an `assert`) -/
def edgesOfFaces (dtypeOk normalize : Bool) (faces : List Face) : Res (List (Int × Int)) :=
  if !dtypeOk then .error .AssertionError else .ok (faces.flatMap (edgesOfFace normalize))

/-- `quads[:, [0, 1, 2]]`, `quads[:, [0, 2, 3]]` -/
def quadPicks : List (Nat × Nat × Nat) := [(0, 1, 2), (0, 2, 3)]

def quadToTris (q : Quad) : List Face :=
  quadPicks.map fun p => ⟨q.get p.1, q.get p.2.1, q.get p.2.2⟩

/-- `quads_to_tris(quads)`: rows `2i`, `2i+1` come from quad `i` -/
def quadsToTris (quads : List Quad) : List Face := quads.flatMap quadToTris

/-- `f_old_to_new = np.arange(2n).reshape(-1, 2)` -/
def quadsMapping (n : Nat) : List (Nat × Nat) := (List.range n).map fun i => (2 * i, 2 * i + 1)

/-- the same split applied to the corner *points* of a quad (used to state winding geometrically) -/
def quadToTrisPts (a b c d : V3 K) : List (Tri K) :=
  quadPicks.map fun p => ⟨pick4 a b c d p.1, pick4 a b c d p.2.1, pick4 a b c d p.2.2⟩

end PW.Tri
