/-
  PW.Model.Slicing — model of polliwog/plane/_slicing.py, polliwog/plane/_trimesh_intersections.py
  (`slice_faces_plane`, `unique_bincount`) and `quads_to_tris` of polliwog/tri/quad_faces.py.  Mathlib-free.

  Two layers:
    * the per-face **kernel** `sliceFacePos`: what one face (three positions, three plane offsets, selected?)
      contributes to the output, as positional triangles (0, 1 or 2);
    * the array-level **assembly** `sliceMesh`, which follows the code line by line (kept faces, quads →
      quads_to_tris, cut triangles, vertices appended after the originals, `unique_bincount` renumbering, the
      early returns, face mapping).
  PW/Props/C01.lean proves the geometric laws of the kernel, PW/Props/C02.lean the bookkeeping of the assembly and
  that the assembly's positional output is the kernel applied face by face.
-/
import PW.Vec
import PW.Err

namespace PW

/-- a triple (a triangle's three corners / indices / signs) -/
@[ext] structure T3 (α : Type) where
  a : α
  b : α
  c : α
deriving Repr, Inhabited, BEq, DecidableEq

namespace T3
variable {α β : Type}
def map (f : α → β) (t : T3 α) : T3 β := ⟨f t.a, f t.b, f t.c⟩
/-- column `i mod 3` -/
def get (t : T3 α) (i : Nat) : α :=
  match i % 3 with
  | 0 => t.a
  | 1 => t.b
  | _ => t.c
def toList (t : T3 α) : List α := [t.a, t.b, t.c]
end T3

namespace Slicing

variable {K : Type} [Add K] [Sub K] [Mul K] [Div K] [Neg K] [OfNat K 0] [OfNat K 1]
  [LT K] [LE K] [DecidableLT K] [DecidableLE K] [BEq K]

/-- vertex orientation w.r.t. the plane, the slicer's convention:
    `-1` in front (`d > tol`), `+1` behind (`d < -tol`), `0` on the plane.
    (`signs[dots < -tol] = 1; signs[dots > tol] = -1` — the second assignment wins.) -/
def vsign (tol d : K) : Int := if tol < d then -1 else if d < -tol then 1 else 0

inductive FaceKind where
  | keep
  | drop
  /-- one corner behind (column `c`), two in front: cut into a quad -/
  | quad (c : Nat)
  /-- one corner in front (column `c`), at least one behind: cut into a triangle -/
  | tri (c : Nat)
deriving Repr, BEq, DecidableEq, Inhabited

def iabs (i : Int) : Int := if i < 0 then -i else i

/-- first column holding the value `v` (`np.where(cut_signs == v)[1]`; exactly one per row in the cases used) -/
def colOf (s : T3 Int) (v : Int) : Nat :=
  if s.a = v then 0 else if s.b = v then 1 else 2

/-- the case analysis on `signs_sum` / `signs_asum` / `mask` -/
def classifyFace (s : T3 Int) (sel : Bool) : FaceKind :=
  let sum := s.a + s.b + s.c
  let asum := iabs s.a + iabs s.b + iabs s.c
  let onedge := decide (asum ≥ 2) && decide (iabs sum ≤ 1) && sel
  let inside := decide (sum = -asum) || !sel
  if inside then .keep
  else if onedge && decide (sum < 0) then .quad (colOf s 1)
  else if onedge then .tri (colOf s (-1))
  else .drop

/-- `np.clip(x, 0, 1)` -/
def clip01 (x : K) : K := if x < 0 then 0 else if 1 < x then 1 else x

/-- intersection of the edge `a → b` with the plane, as the code computes it:
    `num = (origin − a)·n`, `denom = (b − a)·n` (`0 ↦ eps = 1e-12`), `dist = clip(num/denom, 0, 1)`,
    point `= dist·(b − a) + a`. -/
def edgePoint (eps : K) (o n a b : V3 K) : V3 K :=
  let d := b - a
  let num := (o - a).dot n
  let den0 := d.dot n
  let den := if den0 == 0 then eps else den0
  V3.smul (clip01 (num / den)) d + a

/-- the three edge points of a face: edge `i` runs from corner `i` to corner `i+1` -/
def intPoints (eps : K) (o n : V3 K) (p : T3 (V3 K)) : T3 (V3 K) :=
  ⟨edgePoint eps o n p.a p.b, edgePoint eps o n p.b p.c, edgePoint eps o n p.c p.a⟩

/-- plane offset of a vertex: `np.einsum("i,ij->j", plane_normal, (vertices - plane_origin).T)` -/
def offset (o n v : V3 K) : K := n.dot (v - o)

/-- **kernel**: positional triangles contributed by one face. -/
def sliceFacePos (tol eps : K) (o n : V3 K) (p : T3 (V3 K)) (sel : Bool) : List (T3 (V3 K)) :=
  let s := p.map fun v => vsign tol (offset o n v)
  let x := intPoints eps o n p
  match classifyFace s sel with
  | .keep => [p]
  | .drop => []
  | .quad c =>
    -- quad (v_{c+1}, v_{c+2}, X_{c+2→c}, X_{c→c+1}) split as (0,1,2), (0,2,3)
    let q0 := p.get (c + 1); let q1 := p.get (c + 2); let q2 := x.get (c + 2); let q3 := x.get c
    [⟨q0, q1, q2⟩, ⟨q0, q2, q3⟩]
  | .tri c => [⟨p.get c, x.get c, x.get (c + 2)⟩]

/-! ### assembly -/

/-- `quads_to_tris`: `quads[:, [0,1,2]]`, `quads[:, [0,2,3]]`, interleaved -/
def quadsToTris {α : Type} (quads : List (α × α × α × α)) : List (T3 α) :=
  quads.flatMap fun (q0, q1, q2, q3) => [⟨q0, q1, q2⟩, ⟨q0, q2, q3⟩]

/-- which of the first `n` indices occur in `faces` (`np.bincount(values).astype(bool)`) -/
def usedList (n : Nat) (faces : List (T3 Nat)) : List Bool :=
  (List.range n).map fun x => faces.any fun f => f.a == x || f.b == x || f.c == x

/-- `(np.cumsum(unique_bin) - 1)[x]` -/
def rankIn (u : List Bool) (x : Nat) : Nat := (u.take (x + 1)).count true - 1

/-- `unique_bincount` renumbering: `(vertices[unique], inverse.reshape(-1, 3))` -/
def compact (verts : List (V3 K)) (faces : List (T3 Nat)) : List (V3 K) × List (T3 Nat) :=
  let u := usedList verts.length faces
  let unique := (List.range verts.length).filter fun x => u.getD x false
  (unique.filterMap fun i => verts[i]?, faces.map fun f => f.map (rankIn u))

structure Result (K : Type) where
  verts : List (V3 K)
  faces : List (T3 Nat)
  /-- `face_mapping` (always computed by the model; returned by the code when `ret_face_mapping`) -/
  mapping : List Nat
deriving Repr, Inhabited

/-- positions of a face -/
def facePos (verts : List (V3 K)) (f : T3 Nat) : T3 (V3 K) :=
  f.map fun i => verts.getD i V3.zero

/-- the per-vertex signs (`signs`, before `signs = signs[faces]`) -/
def vsigns (tol : K) (o n : V3 K) (verts : List (V3 K)) : List Int := verts.map fun v => vsign tol (offset o n v)

/-- the classified face list: `(face number, face, kind)` -/
def kindsOf (tol : K) (o n : V3 K) (verts : List (V3 K)) (faces : List (T3 Nat)) (mask : List Bool) :
    List (Nat × T3 Nat × FaceKind) :=
  faces.zipIdx.map fun (f, i) =>
    (i, f, classifyFace (f.map fun j => (vsigns tol o n verts).getD j 0) (mask.getD i true))

/-- `inside` faces -/
def isKeep : Nat × T3 Nat × FaceKind → Bool
  | (_, _, .keep) => true
  | _ => false
/-- `onedge_quad`: `(face number, face, column of the corner behind)` -/
def quadSel : Nat × T3 Nat × FaceKind → Option (Nat × T3 Nat × Nat)
  | (i, f, .quad c) => some (i, f, c)
  | _ => none
/-- `onedge_tri`: `(face number, face, column of the corner in front)` -/
def triSel : Nat × T3 Nat × FaceKind → Option (Nat × T3 Nat × Nat)
  | (i, f, .tri c) => some (i, f, c)
  | _ => none

/-- `new_vertices`: the originals, then two new points per quad face (`X_{c+2}`, `X_c`), then two per cut triangle
    (`X_c`, `X_{c+2}`) -/
def newVertsOf (eps : K) (o n : V3 K) (verts : List (V3 K)) (quads tris : List (Nat × T3 Nat × Nat)) :
    List (V3 K) :=
  verts ++ quads.flatMap (fun e => [(intPoints eps o n (facePos verts e.2.1)).get (e.2.2 + 2),
                                     (intPoints eps o n (facePos verts e.2.1)).get e.2.2]) ++
    tris.flatMap (fun e => [(intPoints eps o n (facePos verts e.2.1)).get e.2.2,
                            (intPoints eps o n (facePos verts e.2.1)).get (e.2.2 + 2)])

/-- `new_faces`: kept faces, then `quads_to_tris([v_{c+1}, v_{c+2}, N+2j, N+2j+1])`, then `[v_c, N'+2j, N'+2j+1]` -/
def newFacesOf (n0 : Nat) (kept : List (Nat × T3 Nat × FaceKind)) (quads tris : List (Nat × T3 Nat × Nat)) :
    List (T3 Nat) :=
  kept.map (·.2.1) ++
    quadsToTris ((quads.zipIdx).map fun (e, j) =>
      (e.2.1.get (e.2.2 + 1), e.2.1.get (e.2.2 + 2), n0 + 2 * j, n0 + 2 * j + 1)) ++
    (tris.zipIdx).map fun (e, j) =>
      (⟨e.2.1.get e.2.2, (n0 + 2 * quads.length) + 2 * j, (n0 + 2 * quads.length) + 2 * j + 1⟩ : T3 Nat)

/-- `new_face_mapping`: kept face numbers, each quad face number twice, each cut-triangle face number once -/
def newMappingOf (kept : List (Nat × T3 Nat × FaceKind)) (quads tris : List (Nat × T3 Nat × Nat)) : List Nat :=
  kept.map (·.1) ++ quads.flatMap (fun e => [e.1, e.1]) ++ tris.map (·.1)

/-- `slice_faces_plane` (reached through `slice_triangles_by_plane`; `mask[i]` = face `i` is selected),
    with its three return paths. -/
def sliceMesh (tol eps : K) (verts : List (V3 K)) (faces : List (T3 Nat)) (o n : V3 K)
    (mask : List Bool) : Result K :=
  if verts.isEmpty then ⟨verts, faces, List.range faces.length⟩ else
  let kinds := kindsOf tol o n verts faces mask
  let kept := kinds.filter isKeep
  let quads := kinds.filterMap quadSel
  let tris := kinds.filterMap triSel
  if quads.isEmpty && tris.isEmpty then
    -- no faces to cut
    if (kept.map (·.2.1)).isEmpty then ⟨[], [], kept.map (·.1)⟩
    else
      let c := compact verts (kept.map (·.2.1))
      ⟨c.1, c.2, kept.map (·.1)⟩
  else
    let c := compact (newVertsOf eps o n verts quads tris) (newFacesOf verts.length kept quads tris)
    ⟨c.1, c.2, newMappingOf kept quads tris⟩

/-- `slice_triangles_by_plane`'s conversion `faces_to_slice.nonzero()[0]` → `mask[face_index] = True`
    is the identity on masks of the right length; `None` selects every face. -/
def maskOf (numFaces : Nat) (facesToSlice : Option (List Bool)) : List Bool :=
  match facesToSlice with
  | none => List.replicate numFaces true
  | some m => (List.range numFaces).map fun i => m.getD i false

/-- positional triangles of a result -/
def Result.positions (r : Result K) : List (T3 (V3 K)) := r.faces.map (facePos r.verts)

end Slicing
end PW
