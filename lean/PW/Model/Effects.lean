/-
  PW.Model.Effects — an alias language for C20's purity clause ("no public function or method modifies an array
  passed to it or the object it is called on"), Mathlib-free.

  The translator (harness/translate/c20fx.py) abstracts every public polliwog callable, and every polliwog helper
  it reaches, into a `Fn`: local names become numbers (parameter `i` is variable `i`), callables become numbers
  (their position in `PW.Gen.allFx`), and the body becomes a list of

    bind must x (alias ys)   `x = e` where the value of `e` may share memory with the names `ys` (or be new)
    bind must x fresh        `x = e` where `e` is a new object
    write x                  a store through `x`: `x[..] = v`, `x += v`, `x.a = v`, `np.f(.., out=x)`, `x.sort()`, ...
    call f args              a call of polliwog callable `f`; `args[i]` = the names the i-th parameter may alias
    unknown                  a statement the translator could not read (counts as writing everything)

  The last parameter of every `Fn` is a pseudo-parameter standing for *the state that outlives the call*: module-level
  and class-level names the body uses without binding them, names declared `global` / `nonlocal`, and — for a function
  returned by a factory — the factory's locals (its closure).  Every call passes it on to the callee.  A write
  through it is a memo, a cache or a counter: what makes a second call with the same arguments answer differently.

  `must = true` only at the top level of the body (the statement executes whenever control reaches it, so the
  binding is *replaced*); below `if` / `for` / `while` / `try` the binding is only *added to*.

  * the abstract interpreter (`run`, `writtenParams`) tracks for every variable the set of parameters whose memory
    it may reach and collects the parameters that are written;
  * callee summaries (which parameters a callable writes through, which ones its result may share memory with)
    are obtained by iterating `round` from the empty table; a theorem in PW/Props/C20.lean states that the table
    used is a fixed point;
  * `Exec` / `ExecList` is the concrete semantics the abstraction is sound for (lean/PW/Lemmas/Effects.lean):
    memory is a set of regions, region `i < n` belongs to the i-th argument, every variable reaches a set of
    regions, a may-statement may be skipped, execution may stop early (return / raise), and a callee changes
    argument regions only through the parameters its summary lists.
-/
namespace PW.Effects

inductive Src where
  | fresh
  | alias (vars : List Nat)
  | ret (f : Nat) (args : List (List Nat))     -- what polliwog callable `f` hands back for these arguments
deriving Repr, DecidableEq, Inhabited

inductive Stmt where
  | bind (must : Bool) (x : Nat) (s : Src)
  | write (x : Nat) (how : String)
  | call (f : Nat) (args : List (List Nat))
  | unknown (why : String)
deriving Repr, Inhabited

structure Fn where
  name : String
  nparams : Nat
  retVar : Nat              -- the variable that collects what `return` hands back
  body : List Stmt
deriving Repr, Inhabited

/-- for each variable (by position), the parameters whose memory it may reach -/
abbrev AEnv := List (Nat × List Nat)

def AEnv.get (e : AEnv) (x : Nat) : List Nat :=
  match e.lookup x with
  | some v => v
  | none => []

/-- parameters reachable from any of the names `ys` -/
def pts (e : AEnv) (ys : List Nat) : List Nat := ys.flatMap e.get

structure AState where
  env : AEnv
  written : List Nat
deriving Repr

/-- summary of a callable: the parameter positions it may write through -/
abbrev Summ := Nat → List Nat

/-- the parameters a source may reach (`rsumm f` = parameter positions of `f` its result may share memory with) -/
def srcPts (rsumm : Summ) (e : AEnv) : Src → List Nat
  | .fresh => []
  | .alias ys => pts e ys
  | .ret f args => (rsumm f).flatMap (fun i => pts e (args.getD i []))

def step (n : Nat) (summ rsumm : Summ) (s : AState) : Stmt → AState
  | .bind true x src => { s with env := (x, srcPts rsumm s.env src) :: s.env }
  | .bind false x src => { s with env := (x, s.env.get x ++ srcPts rsumm s.env src) :: s.env }
  | .write x _ => { s with written := s.written ++ s.env.get x }
  | .call f args => { s with written := s.written ++ (summ f).flatMap (fun i => pts s.env (args.getD i [])) }
  | .unknown _ => { s with written := s.written ++ List.range n }

def initEnv (n : Nat) : AEnv := (List.range n).map (fun i => (i, [i]))

def run (n : Nat) (summ rsumm : Summ) (body : List Stmt) : AState :=
  body.foldl (step n summ rsumm) { env := initEnv n, written := [] }

/-- the parameters (sorted, without repetition) the abstract interpreter sees written, and those the result may
share memory with -/
def analyse (summ rsumm : Summ) (f : Fn) : List Nat × List Nat :=
  let r := run f.nparams summ rsumm f.body
  ((List.range f.nparams).filter (fun i => r.written.contains i),
   (List.range f.nparams).filter (fun i => (r.env.get f.retVar).contains i))

abbrev Table := List (List Nat × List Nat)

def wOf (t : Table) : Summ := fun f => (t.getD f ([], [])).1
def rOf (t : Table) : Summ := fun f => (t.getD f ([], [])).2

/-- one round of summary computation over a whole program -/
def round (fns : List Fn) (t : Table) : Table := fns.map (analyse (wOf t) (rOf t))

def iterate (fns : List Fn) : Nat → Table
  | 0 => fns.map (fun _ => ([], []))
  | k + 1 => round fns (iterate fns k)

/-! ### concrete semantics -/

structure CState where
  env : Nat → List Nat      -- variable ↦ the regions it reaches
  heap : Nat → Nat          -- region ↦ contents

def updEnv (e : Nat → List Nat) (x : Nat) (v : List Nat) : Nat → List Nat := fun y => if y = x then v else e y

/-- the argument regions (`< n`) a source can yield in concrete state `c`; regions `≥ n` (new objects, module
state) are always allowed -/
def SrcMay (n : Nat) (rsumm : Summ) (c : CState) (o : Nat) : Src → Prop
  | .fresh => n ≤ o
  | .alias ys => n ≤ o ∨ ∃ y ∈ ys, o ∈ c.env y
  | .ret f args => n ≤ o ∨ ∃ i ∈ rsumm f, ∃ y ∈ args.getD i [], o ∈ c.env y

/-- one statement; `n` = number of arguments (regions `< n` are theirs) -/
inductive Exec (n : Nat) (summ rsumm : Summ) : CState → Stmt → CState → Prop
  | bind (c : CState) (m : Bool) (x : Nat) (src : Src) (v : List Nat) (hv : ∀ o ∈ v, SrcMay n rsumm c o src) :
      Exec n summ rsumm c (.bind m x src) { c with env := updEnv c.env x v }
  | skip (c : CState) (x : Nat) (s : Src) : Exec n summ rsumm c (.bind false x s) c
  | write (c : CState) (x : Nat) (how : String) (h' : Nat → Nat)
      (hh : ∀ o, o < n → h' o ≠ c.heap o → o ∈ c.env x) :
      Exec n summ rsumm c (.write x how) { c with heap := h' }
  | call (c : CState) (f : Nat) (args : List (List Nat)) (h' : Nat → Nat)
      (hh : ∀ o, o < n → h' o ≠ c.heap o → ∃ i ∈ summ f, ∃ y ∈ args.getD i [], o ∈ c.env y) :
      Exec n summ rsumm c (.call f args) { c with heap := h' }
  | unknown (c : CState) (why : String) (h' : Nat → Nat) : Exec n summ rsumm c (.unknown why) { c with heap := h' }

/-- a run of a body: statements in order, possibly stopping early (return / raise) -/
inductive ExecList (n : Nat) (summ rsumm : Summ) : CState → List Stmt → CState → Prop
  | stop (c : CState) (rest : List Stmt) : ExecList n summ rsumm c rest c
  | cons (c c' c'' : CState) (st : Stmt) (rest : List Stmt) :
      Exec n summ rsumm c st c' → ExecList n summ rsumm c' rest c'' → ExecList n summ rsumm c (st :: rest) c''

/-- at entry parameter `i` reaches exactly region `i`; every other name reaches no argument region -/
def initC (n : Nat) (h : Nat → Nat) : CState := { env := fun x => if x < n then [x] else [], heap := h }

end PW.Effects
