/-
  PW.Model.Pointcloud — model of polliwog/pointcloud/_pointcloud_functions.py (Mathlib-free).

    extent(points, ret_indices)           ↦ `extent`      (brute force: for every probe the first farthest point,
                                                            kept when strictly farther than the best so far)
    percentile(points, axis, percentile)  ↦ `percentile`  (`np.percentile` is an external routine: its value is an
                                                            argument `c`; `percentileValue` recomputes it by linear
                                                            interpolation on the sorted coordinates)
-/
import PW.Vec
import PW.Err

namespace PW.Pointcloud

variable {K : Type} [Add K] [Sub K] [Mul K] [Div K] [Neg K] [OfNat K 0] [OfNat K 1]
  [LT K] [LE K] [DecidableLT K] [DecidableLE K]

/-! ## extent -/

/-- `vg.euclidean_distance(p, q)`: `sqrt(sum(square(q - p)))` -/
def dist [Sqrt K] (p q : V3 K) : K := sqrt (V3.normSq (q - p))

/-- `np.argmax` with its value: index of the first maximum of a non-empty list `d₀ :: ds`
    (`i` is the index of `d₀`) -/
def argmaxFrom (i : Nat) (best : K) (bi : Nat) : List K → K × Nat
  | [] => (best, bi)
  | d :: ds => if best < d then argmaxFrom (i + 1) d i ds else argmaxFrom (i + 1) best bi ds

def argmax : List K → K × Nat
  | [] => (0, 0)
  | d :: ds => argmaxFrom 1 d 0 ds

/-- state of the probe loop: `(farthest_distance, farthest_i, farthest_j)`; the indices are `-1` before the
    first update (`none` here) -/
abbrev Best (K : Type) := K × Option (Nat × Nat)

/-- one iteration of `for i, probe in enumerate(points)` -/
def step [Sqrt K] (pts : List (V3 K)) (acc : Best K) (i : Nat) (probe : V3 K) : Best K :=
  let (d, j) := argmax (pts.map fun q => dist q probe)
  if acc.1 < d then (d, some (i, j)) else acc

def loop [Sqrt K] (pts : List (V3 K)) : Nat → Best K → List (V3 K) → Best K
  | _, acc, [] => acc
  | i, acc, probe :: rest => loop pts (i + 1) (step pts acc i probe) rest

/-- `extent(points, ret_indices=True)`; fewer than two points → ValueError.  The initial
    `farthest_distance = -1` is below every distance, so the indices are always set. -/
def extent [Sqrt K] (pts : List (V3 K)) : Res (K × Nat × Nat) :=
  if pts.length < 2 then .error .ValueError else
  match loop pts 0 (-1, none) pts with
  | (d, some (i, j)) => .ok (d, i, j)
  | (_, none) => .error .Other

/-! ## percentile -/

def absK (x : K) : K := if x < 0 then -x else x

/-- `vg.almost_zero(v, atol)`: `np.allclose(v, 0, rtol=0, atol)` -/
def almostZero (tol : K) (a : V3 K) : Bool :=
  decide (absK a.x ≤ tol) && decide (absK a.y ≤ tol) && decide (absK a.z ≤ tol)

/-- `np.average(points, axis=0)` -/
def centroid (n : K) (pts : List (V3 K)) : V3 K :=
  V3.sdiv (pts.foldl (fun a p => a + p) V3.zero) n

/-- `vg.reject(v, from_v) = v - dot(v, normalize(from_v)) * normalize(from_v)` -/
def reject [Sqrt K] (v from_v : V3 K) : V3 K :=
  let u := V3.normalize from_v
  v - V3.smul (v.dot u) u

/-- `percentile(points, axis, q)` given `c = np.percentile(points.dot(normalize(axis)), q)` and
    `n = len(points)` as a number -/
def percentile [Sqrt K] (tol : K) (pts : List (V3 K)) (n : K) (axis : V3 K) (c : K) : Res (V3 K) :=
  if pts.length < 1 then .error .ValueError else
  if almostZero tol axis then .error .ValueError else
  let a := V3.normalize axis
  .ok (reject (centroid n pts) a + V3.smul c a)

/-- `points.dot(normalize(axis))` -/
def coordsOnAxis [Sqrt K] (pts : List (V3 K)) (axis : V3 K) : List K :=
  let a := V3.normalize axis
  pts.map fun p => p.dot a

/-- insertion into a sorted list -/
def insertSorted (x : K) : List K → List K
  | [] => [x]
  | y :: ys => if x ≤ y then x :: y :: ys else y :: insertSorted x ys

def sort (l : List K) : List K := l.foldr insertSorted []

/-- `np.percentile(xs, q)` with the default `linear` method: with `pos = q/100·(n-1)`, `i = ⌊pos⌋`,
    `γ = pos - i`: `sorted[i] + γ·(sorted[i+1] - sorted[i])` (the last element when `i = n-1`).
    `q ∉ [0, 100]` → ValueError. -/
def percentileValue [Rounding K] (xs : List K) (q hundred : K) : Res K :=
  if q < 0 ∨ hundred < q then .error .ValueError else
  match sort xs with
  | [] => .error .ValueError
  | s0 :: ss =>
    let s := s0 :: ss
    let pos := q / hundred * Rounding.ofInt (Int.ofNat ss.length)
    let i := (Rounding.floor pos).toNat
    let g := pos - Rounding.ofInt (Int.ofNat i)
    let lo := s.getD i s0
    let hi := s.getD (i + 1) lo
    .ok (lo + g * (hi - lo))

end PW.Pointcloud
