/-
  PW.Model.Shapes — model of polliwog/shapes/_shapes.py (rectangular_prism, cube, triangular_prism,
  _maybe_flatten), of `quads_to_tris` (polliwog/tri/quad_faces.py) and of the part of
  `Plane.from_points` that `triangular_prism` uses.  Mathlib-free; polymorphic over the number type.

  Python → Lean
    vg.shape.check(locals(), "origin", (3,))   ↦ `ArrArg.asV3`            (ValueError unless an ndarray of shape (3,))
    isinstance(size, float)                    ↦ `PyNum.asFloat`          (ValueError unless a Python float / np.float64)
    rectangular_prism                          ↦ `rectVertices`, `rectQuads`, `quadsToTris`, `rectFaces`, `rectPrism`
    cube                                       ↦ `cube`                   (np.repeat(size, 3))
    Plane.from_points(p1,p2,p3).normal         ↦ `planeNormal` + the unit-length validation of `Plane.__init__`
    triangular_prism                           ↦ `triVertices`, `triFaces`, `triPrism`
    _maybe_flatten                             ↦ `flatten` / `Mesh.out`
-/
import PW.Vec
import PW.Err

namespace PW.Shapes

variable {K : Type} [Add K] [Sub K] [Mul K] [Div K] [Neg K] [OfNat K 0] [OfNat K 1]
  [LT K] [LE K] [DecidableLT K] [DecidableLE K]

/-! ## arguments as Python sees them -/

/-- a positional argument that should be an ndarray: `shape = none` for anything that is not an ndarray
    (a list, a scalar, None), otherwise its shape and its flattened values. -/
structure ArrArg (K : Type) where
  shape : Option (List Nat)
  data : List K
deriving Repr, Inhabited

/-- `vg.shape.check(locals(), name, (3,))` -/
def ArrArg.asV3 (a : ArrArg K) : Res (V3 K) :=
  match a.shape, a.data with
  | some [3], [x, y, z] => .ok ⟨x, y, z⟩
  | _, _ => .error .ValueError

/-- a scalar argument with its Python type: `float` covers `float` and its subclass `np.float64`;
    `other` is anything else (`int`, `bool`, `np.float32`, `str`, `None`, an array). -/
inductive PyNum (K : Type) where
  | float (x : K)
  | other (x : K)
deriving Repr, Inhabited

/-- `if not isinstance(x, float): raise ValueError` -/
def PyNum.asFloat : PyNum K → Res K
  | .float x => .ok x
  | .other _ => .error .ValueError

/-! ## indexed meshes -/

abbrev Tri := Nat × Nat × Nat
abbrev Quad := Nat × Nat × Nat × Nat

/-- `vertices[i]` (indices produced by the tables below are always in range) -/
def vget (vs : List (V3 K)) (i : Nat) : V3 K := vs.getD i V3.zero

/-- one row of `vertices[faces]` -/
def corners (vs : List (V3 K)) (f : Tri) : V3 K × V3 K × V3 K := (vget vs f.1, vget vs f.2.1, vget vs f.2.2)

/-- `vertices[faces]` : k×3×3 -/
def flatten (vs : List (V3 K)) (fs : List Tri) : List (V3 K × V3 K × V3 K) := fs.map (corners vs)

/-- what the three functions return: `(vertices, faces)` or the flattened triangle coordinates -/
inductive Out (K : Type) where
  | indexed (vs : List (V3 K)) (fs : List Tri)
  | flat (ts : List (V3 K × V3 K × V3 K))
deriving Repr

/-- `_maybe_flatten` -/
def maybeFlatten (vs : List (V3 K)) (fs : List Tri) (retUnique : Bool) : Out K :=
  if retUnique then .indexed vs fs else .flat (flatten vs fs)

/-- `quads_to_tris`: rows `2i`, `2i+1` of the result are columns `[0,1,2]`, `[0,2,3]` of quad `i` -/
def quadsToTris (quads : List Quad) : List Tri :=
  quads.flatMap fun q => [(q.1, q.2.1, q.2.2.1), (q.1, q.2.2.1, q.2.2.2)]

/-! ## rectangular_prism / cube -/

/-- `np.vstack([lower_base_plane, lower_base_plane + [0, size[1], 0]])` -/
def rectVertices (o s : V3 K) : List (V3 K) :=
  let lower : List (V3 K) := [o, o + ⟨s.x, 0, 0⟩, o + ⟨s.x, 0, s.z⟩, o + ⟨0, 0, s.z⟩]
  lower ++ lower.map (fun p => p + ⟨0, s.y, 0⟩)

def rectQuads : List Quad :=
  [(0, 1, 2, 3),  -- lower base (-y)
   (7, 6, 5, 4),  -- upper base (+y)
   (4, 5, 1, 0),  -- -z face
   (5, 6, 2, 1),  -- +x face
   (6, 7, 3, 2),  -- +z face
   (3, 7, 4, 0)]  -- -x face

def rectFaces : List Tri := quadsToTris rectQuads

/-- `rectangular_prism(origin, size, ret_unique_vertices_and_faces)` on validated arguments -/
def rectPrismV (o s : V3 K) (retUnique : Bool) : Out K :=
  maybeFlatten (rectVertices o s) rectFaces retUnique

def rectPrism (origin size : ArrArg K) (retUnique : Bool) : Res (Out K) := do
  let o ← origin.asV3
  let s ← size.asV3
  pure (rectPrismV o s retUnique)

/-- `cube(origin, size, …)`: `rectangular_prism(origin, np.repeat(size, 3), …)` -/
def cube (origin : ArrArg K) (size : PyNum K) (retUnique : Bool) : Res (Out K) := do
  let o ← origin.asV3
  let sz ← size.asFloat
  let _ := o
  rectPrism origin ⟨some [3], [sz, sz, sz]⟩ retUnique

/-! ## triangular_prism -/

def absK (x : K) : K := if x < 0 then -x else x

/-- `plane_normal_from_points` / `surface_normals`: `normalize(cross(p2 - p1, p3 - p1))` -/
def planeNormal [Sqrt K] (p1 p2 p3 : V3 K) : V3 K := V3.normalize (V3.cross (p2 - p1) (p3 - p1))

/-- `vg.almost_unit_length(normal, atol)`: `np.isclose(‖normal‖, 1, rtol=0, atol)`; false for NaN -/
def almostUnit [Sqrt K] (tol : K) (n : V3 K) : Bool := decide (absK (V3.norm n - 1) ≤ tol)

/-- `Plane.from_points(p1, p2, p3).normal`.  `Plane.__init__` raises ValueError when the normal is not of unit
    length within `tol = 0.1 ** DEFAULT_DIRECTION_DECIMALS`.  Collinear points make the cross product zero and
    `vg.normalize` divide `0/0`: the normal is NaN, `np.isclose(NaN, 1)` is false and the constructor raises —
    the explicit branch on the denominator `‖cross‖` below (the model never divides by zero). -/
def basePlaneNormal [Sqrt K] (tol : K) (p1 p2 p3 : V3 K) : Res (V3 K) :=
  let c := V3.cross (p2 - p1) (p3 - p1)
  if 0 < V3.norm c then
    let n := planeNormal p1 p2 p3
    if almostUnit tol n then .ok n else .error .ValueError
  else .error .ValueError

/-- `np.vstack(([p1, p2, p3], [p1, p2, p3] + height * -normal))` -/
def triVertices (p1 p2 p3 n : V3 K) (h : K) : List (V3 K) :=
  let shift : V3 K := V3.smul h (-n)
  [p1, p2, p3, p1 + shift, p2 + shift, p3 + shift]

def triFaces : List Tri :=
  [(0, 1, 2),  -- base
   (0, 3, 4),
   (0, 4, 1),  -- side 0, 3, 4, 1
   (1, 4, 5),
   (1, 5, 2),  -- side 1, 4, 5, 2
   (2, 5, 3),
   (2, 3, 0),  -- side 2, 5, 3, 0
   (5, 4, 3)]  -- base

def triPrismV [Sqrt K] (tol : K) (p1 p2 p3 : V3 K) (h : K) (retUnique : Bool) : Res (Out K) := do
  let n ← basePlaneNormal tol p1 p2 p3
  pure (maybeFlatten (triVertices p1 p2 p3 n h) triFaces retUnique)

def triPrism [Sqrt K] (tol : K) (p1 p2 p3 : ArrArg K) (height : PyNum K) (retUnique : Bool) : Res (Out K) := do
  let a ← p1.asV3
  let b ← p2.asV3
  let c ← p3.asV3
  let h ← height.asFloat
  triPrismV tol a b c h retUnique

/-! ## mesh measures the property speaks about (used by the theorems and printed by the driver) -/

/-- directed edges of a face list -/
def directedEdges (fs : List Tri) : List (Nat × Nat) :=
  fs.flatMap fun f => [(f.1, f.2.1), (f.2.1, f.2.2), (f.2.2, f.1)]

/-- closed and consistently oriented: every directed edge occurs exactly once and so does its reverse;
    no face repeats a vertex. -/
def closedOriented (fs : List Tri) : Bool :=
  let es := directedEdges fs
  es.all fun e => es.count e == 1 && es.count (e.2, e.1) == 1 && e.1 != e.2

/-- every index is `< n` and every vertex `< n` is used -/
def indexesAll (n : Nat) (fs : List Tri) : Bool :=
  let es := directedEdges fs
  es.all (fun e => decide (e.1 < n)) && (List.range n).all fun i => es.any fun e => e.1 == i

/-- `a · (b × c)` -/
def det3 (a b c : V3 K) : K := a.dot (b.cross c)

/-- six times the signed volume enclosed by the surface: `Σ det(v_a, v_b, v_c)` -/
def sixVolume (vs : List (V3 K)) (fs : List Tri) : K :=
  fs.foldr (fun f acc => det3 (vget vs f.1) (vget vs f.2.1) (vget vs f.2.2) + acc) 0

/-- area-weighted face normal `(b - a) × (c - a)` -/
def faceNormal (vs : List (V3 K)) (f : Tri) : V3 K :=
  V3.cross (vget vs f.2.1 - vget vs f.1) (vget vs f.2.2 - vget vs f.1)

/-- twice the area of a face -/
def twoArea [Sqrt K] (vs : List (V3 K)) (f : Tri) : K := V3.norm (faceNormal vs f)

def twoTotalArea [Sqrt K] (vs : List (V3 K)) (fs : List Tri) : K :=
  fs.foldr (fun f acc => twoArea vs f + acc) 0

end PW.Shapes
