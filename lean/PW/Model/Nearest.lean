/-
  PW.Model.Nearest — model of the closest-point machinery (Mathlib-free; polymorphic over the number type).

    polliwog/segment/_segment_functions.py
      closest_point_of_line_segment(points, start_points, segment_vectors, ret_t_values)
                                              ↦ `closestT`, `closestPoint`, `closestPointsOfLineSegments`
         np.clip(np.nan_to_num(num / den), 0, 1) ↦ `clampedRatio` (explicit branch on `den = 0`)
      is_point_on_line_segment(q, a, v, epsilon) ↦ `isPointOnLineSegment`, `arePointsOnLineSegments`
    polliwog/polyline/_polyline_object.py
      Polyline.nearest(points, ret_segment_indices, ret_distances, ret_t_values)
                                              ↦ `cand`, `pickFrom` (argmin + take_along_axis), `hit`, `nearestOne`,
                                                `nearestWith` / `nearest` (flag logic, returns what the code returns)
      index_of_vertex(point, atol)            ↦ `indexOfVertex`          (minimal version, C07 only)
      with_insertions(one point, one index)   ↦ `insertBefore`           (minimal version)
      sliced_at_indices(start, stop)          ↦ `slicedAtIndices`        (minimal version)
      sliced_at_points(a, b)                  ↦ `slicedAtPoints`
      flipped / total_length                  ↦ `flipped`, `totalLength`
      aligned_along_subsegment(p1, p2)        ↦ `alignedAlongSubsegment`

  The distance used for the arg-min is `f (squared distance)` with `f` a parameter: `f = sqrt` is the code
  (`vg.euclidean_distance`), `f = id` is the sqrt-free twin the ordered-field theorems talk about; over ℝ the
  two pick the same segment (C07.nearest_sqrt_eq_sq).  A stacked query is by definition the `map` of the
  single query.  NaN ordering of `np.argmin` is not modelled (inputs are finite).
-/
import PW.Vec
import PW.Err
import PW.Model.PolylineBase

namespace PW.Nearest

variable {K : Type} [Add K] [Sub K] [Mul K] [Div K] [Neg K] [OfNat K 0] [OfNat K 1]
  [LT K] [LE K] [DecidableLT K] [DecidableLE K]

/-! ## closest_point_of_line_segment -/

/-- `np.clip(t, 0, 1)` -/
def clip01 (t : K) : K := if t < 0 then 0 else if 1 < t then 1 else t

/-- `np.clip(np.nan_to_num(num / den), 0, 1)`.
    `den ≠ 0`: the clipped quotient.  `den = 0`: `0/0 = nan ↦ 0`; `x/0 = ±inf ↦ ±1.8e308`, clipped to `1` / `0`. -/
def clampedRatio (num den : K) : K :=
  if den < 0 ∨ 0 < den then clip01 (num / den)
  else if 0 < num then 1 else 0

/-- the `t` value: `clip(nan_to_num(dot(q − a, v) / dot(v, v)), 0, 1)` -/
def closestT (q a v : V3 K) : K := clampedRatio ((q - a).dot v) (v.dot v)

/-- `start_points + t.reshape(-1, 1) * segment_vectors` -/
def closestPoint (q a v : V3 K) : V3 K := a + V3.smul (closestT q a v) v

def zip3 {α β γ : Type} : List α → List β → List γ → List (α × β × γ)
  | a :: as, b :: bs, c :: cs => (a, b, c) :: zip3 as bs cs
  | _, _, _ => []

/-- the pairwise (stacked) form with its `vg.shape.check`s: `(k,3)`, `(k,3)`, `(k,3)` -/
def closestPointsOfLineSegments (qs as vs : List (V3 K)) : Res (List (V3 K × K)) :=
  if as.length = qs.length ∧ vs.length = qs.length then
    .ok ((zip3 qs as vs).map fun (q, a, v) => (closestPoint q a v, closestT q a v))
  else .error .ValueError

/-- `np.sum(np.square(closest − q)) <= epsilon**2` -/
def isPointOnLineSegment (q a v : V3 K) (eps : K) : Bool :=
  decide ((closestPoint q a v - q).normSq ≤ eps * eps)

def arePointsOnLineSegments (qs as vs : List (V3 K)) (eps : K) : Res (List Bool) :=
  if as.length = qs.length ∧ vs.length = qs.length then
    .ok ((zip3 qs as vs).map fun (q, a, v) => isPointOnLineSegment q a v eps)
  else .error .ValueError

/-! ## Polyline.nearest -/

/-- one row of the all-pairs table: closest point of one segment, its `t`, its distance to the query -/
structure Cand (K : Type) where
  point : V3 K
  t : K
  dist : K
deriving Repr, Inhabited

/-- candidate of the segment `(a, b)` for the query `q`; `f` turns the squared distance into the distance
    that is compared (`sqrt` in the code: `vg.euclidean_distance(stacked_points, closest)`) -/
def cand (f : K → K) (q : V3 K) (s : V3 K × V3 K) : Cand K :=
  let v := s.2 - s.1
  let p := closestPoint q s.1 v
  ⟨p, closestT q s.1 v, f ((p - q).normSq)⟩

/-- `np.argmin` (first minimal index) together with `take_along_axis`: scan with the running best -/
def pickFrom (best : Cand K) (bi i : Nat) : List (Cand K) → Nat × Cand K
  | [] => (bi, best)
  | c :: cs => if c.dist < best.dist then pickFrom c i (i + 1) cs else pickFrom best bi (i + 1) cs

/-- what `nearest` knows about one query point -/
structure Hit (K : Type) where
  point : V3 K
  index : Nat
  dist : K
  t : K
deriving Repr, Inhabited

/-- nearest over the non-empty segment list `s :: ss` -/
def hit (f : K → K) (q : V3 K) (s : V3 K × V3 K) (ss : List (V3 K × V3 K)) : Hit K :=
  let r := pickFrom (cand f q s) 0 1 (ss.map (cand f q))
  ⟨r.2.point, r.1, r.2.dist, r.2.t⟩

/-- one query point; `np.argmin` over an empty axis (no segment) raises ValueError -/
def nearestOne (f : K → K) (pl : Polyline K) (q : V3 K) : Res (Hit K) :=
  match pl.segments with
  | [] => .error .ValueError
  | s :: ss => .ok (hit f q s ss)

/-- a `(3,)` query or a `(k,3)` stack (`columnize`) -/
inductive Query (K : Type) where
  | one (q : V3 K)
  | many (qs : List (V3 K))
deriving Repr

def Query.toList : Query K → List (V3 K)
  | .one q => [q]
  | .many qs => qs

def Query.single : Query K → Bool
  | .one _ => true
  | .many _ => false

/-- the value `nearest` returns: `tuple = false` is the bare points array of the `else` branch;
    `single = true` means `transform_result` picked row 0 of every array -/
structure Ret (K : Type) where
  single : Bool
  tuple : Bool
  points : List (V3 K)
  indices : Option (List Nat)
  dists : Option (List K)
  ts : Option (List K)
deriving Repr

/-- `if ret_segment_indices or ret_distances:` — the condition under which a tuple is built -/
def tupleCond (si sd _st : Bool) : Bool := si || sd

/-- assembling the return value from the per-query hits, exactly as the code does: the `t` values are appended
    only inside the `if ret_segment_indices or ret_distances` branch -/
def assemble (single : Bool) (hits : List (Hit K)) (si sd st : Bool) : Ret K :=
  if tupleCond si sd st then
    ⟨single, true, hits.map (·.point),
      if si then some (hits.map (·.index)) else none,
      if sd then some (hits.map (·.dist)) else none,
      if st then some (hits.map (·.t)) else none⟩
  else
    ⟨single, false, hits.map (·.point), none, none, none⟩

def nearestWith (f : K → K) (pl : Polyline K) (q : Query K) (si sd st : Bool) : Res (Ret K) :=
  match pl.segments with
  | [] => .error .ValueError
  | s :: ss => .ok (assemble q.single (q.toList.map fun x => hit f x s ss) si sd st)

/-- `Polyline.nearest` -/
def nearest [Sqrt K] (pl : Polyline K) (q : Query K) (si sd st : Bool) : Res (Ret K) :=
  nearestWith sqrt pl q si sd st

/-! ## sliced_at_points and what it is built from (minimal versions) -/

/-- `np.isclose(x, 0, atol=atol)`: `|x − 0| <= atol + rtol·|0|` -/
def closeToZero (x atol : K) : Bool := if x < 0 then decide (-x ≤ atol) else decide (x ≤ atol)

/-- `np.isclose(v − point, 0, atol).all()` -/
def vertexMatches (p : V3 K) (atol : K) (v : V3 K) : Bool :=
  closeToZero (v.x - p.x) atol && closeToZero (v.y - p.y) atol && closeToZero (v.z - p.z) atol

/-- `index_of_vertex(point, atol)`: lowest matching index, ValueError when there is none -/
def indexOfVertex (vs : List (V3 K)) (p : V3 K) (atol : K) : Res Nat :=
  match vs.findIdx? (vertexMatches p atol) with
  | some i => .ok i
  | none => .error .ValueError

/-- second entry of `self.e[i]` -/
def edgeEnd (pl : Polyline K) (i : Nat) : Nat :=
  if pl.closed && i + 1 == pl.numE then 0 else i + 1

/-- `np.insert(v, [j], [p], axis=0)` for `j ≤ len(v)` -/
def insertBefore (vs : List (V3 K)) (j : Nat) (p : V3 K) : List (V3 K) :=
  vs.take j ++ p :: vs.drop j

/-- `np.roll(v, -k, axis=0)` -/
def rotl (vs : List (V3 K)) (k : Nat) : List (V3 K) :=
  vs.drop (k % vs.length) ++ vs.take (k % vs.length)

/-- `sliced_at_indices(start, stop)` for `start ≤ num_v` (always an open polyline) -/
def slicedAtIndices (pl : Polyline K) (start stop : Nat) : Res (Polyline K) :=
  if stop ≤ start then
    if pl.closed then
      .ok ⟨(rotl pl.v start).take (pl.v.length - start + stop), false⟩
    else .error .ValueError
  else .ok ⟨(pl.v.drop start).take (stop - start), false⟩

/-- first half of `sliced_at_points`: the working polyline after making the nearest point of `a` a vertex, and
    that vertex' index -/
def withNearestVertex (f : K → K) (pl : Polyline K) (a : V3 K) (atol : K) : Res (Polyline K × Nat × Bool) :=
  match nearestOne f pl a with
  | .error e => .error e
  | .ok h =>
    match indexOfVertex pl.v h.point atol with
    | .ok i => .ok (pl, i, false)
    | .error _ =>
      let j := edgeEnd pl h.index
      .ok (⟨insertBefore pl.v j h.point, pl.closed⟩, j, true)

/-- `sliced_at_points(start_point, end_point)`; `atol` is `index_of_vertex`'s default (the method's own
    `atol` argument is unused by the code) -/
def slicedAtPointsWith (f : K → K) (pl : Polyline K) (a b : V3 K) (atol : K) : Res (Polyline K) :=
  match withNearestVertex f pl a atol with
  | .error e => .error e
  | .ok (w, startIdx, _) =>
    match withNearestVertex f w b atol with
    | .error e => .error e
    | .ok (w2, endIdx, inserted) =>
      -- `indices_of_original_vertices[start_v_index]`: shifted by the insertions at or before it
      let startIdx' := if inserted && decide (endIdx ≤ startIdx) then startIdx + 1 else startIdx
      slicedAtIndices w2 startIdx' (endIdx + 1)

def slicedAtPoints [Sqrt K] (pl : Polyline K) (a b : V3 K) (atol : K) : Res (Polyline K) :=
  slicedAtPointsWith sqrt pl a b atol

/-- `flipped()` -/
def flipped (pl : Polyline K) : Polyline K := ⟨pl.v.reverse, pl.closed⟩

/-- `flipped_if(cond)` -/
def flippedIf (pl : Polyline K) (c : Bool) : Polyline K := if c then flipped pl else pl

/-- `total_length`: `np.sum(vg.euclidean_distance(segments[:,0], segments[:,1]))` -/
def totalLength [Sqrt K] (pl : Polyline K) : K :=
  (pl.segments.map fun s => sqrt ((s.2 - s.1).normSq)).foldl (· + ·) 0

/-- `aligned_along_subsegment(p1, p2)` -/
def alignedAlongSubsegment [Sqrt K] (pl : Polyline K) (p1 p2 : V3 K) (atol : K) : Res (Polyline K) :=
  if pl.closed then
    match slicedAtPoints pl p2 p1 atol with
    | .error e => .error e
    | .ok s21 =>
      match slicedAtPoints pl p1 p2 atol with
      | .error e => .error e
      | .ok s12 => .ok (flippedIf pl (decide (totalLength s21 < totalLength s12)))
  else
    match nearestOne sqrt pl p1 with
    | .error e => .error e
    | .ok h1 =>
      match nearestOne sqrt pl p2 with
      | .error e => .error e
      | .ok h2 =>
        if h1.index = h2.index then .ok (flippedIf pl (decide (h2.t < h1.t)))
        else .ok (flippedIf pl (decide (h2.index < h1.index)))

end PW.Nearest
