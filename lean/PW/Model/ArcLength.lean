/-
  PW.Model.ArcLength — model of the arc-length queries and refinement operations of C08 (Mathlib-free,
  polymorphic over the number type).

  polliwog/polyline/_polyline_object.py
    Polyline.segment_lengths       ↦ `segmentLengths`      vg.euclidean_distance(seg[:,0], seg[:,1])
    Polyline.total_length          ↦ `totalLength`         np.sum(segment_lengths)
    Polyline.path_centroid         ↦ `polylineCentroid`    path_centroid(self.segments)
    Polyline.point_along_path      ↦ `pointAlongPath`      (`pointAlongOne` for one fraction)
    Polyline.subdivided_by_length  ↦ `subdividedByLength`
    Polyline.with_segments_bisected↦ `withSegmentsBisected` (through a minimal `with_insertions`:
                                      `insertBefore`, `indicesOfOriginal`, `indicesOfInserted`)
  polliwog/segment/_segment_functions.py
    path_centroid                  ↦ `pathCentroid`
    subdivide_segment              ↦ `subdivideSegment`    (np.linspace(0, 1, num, endpoint) ↦ `linspace01`)
    subdivide_segments             ↦ `subdivideSegments`

  NumPy idioms: `np.cumsum([0, *l])` ↦ `cumFrom 0 l`; `np.argmax(bool column)` ↦ `argmaxBool` (index of
  the first `True`, 0 when there is none); a (possibly negative) index into an array ↦ `pyIdx`/`pyGet`;
  `np.insert(v, indices, points, axis=0)` ↦ `insertBefore`.  A stacked `fraction_of_total` is `List.map` of
  the single-fraction result after the common validation.
-/
import PW.Model.PolylineBase

namespace PW.ArcLength

variable {K : Type} [Add K] [Sub K] [Mul K] [Div K] [Neg K] [OfNat K 0] [OfNat K 1]
  [LT K] [LE K] [DecidableLT K] [DecidableLE K] [BEq K]

/-! ### small NumPy/Python helpers -/

/-- `np.sum` of a 1-d array (the summation order is not observable at the level the check compares) -/
def sumK : List K → K
  | [] => 0
  | x :: xs => x + sumK xs

/-- sum of rows, `a.sum(axis=0)` -/
def vsum : List (V3 K) → V3 K
  | [] => V3.zero
  | x :: xs => x + vsum xs

/-- `np.cumsum([c, *l])` -/
def cumFrom (c : K) : List K → List K
  | [] => [c]
  | x :: xs => c :: cumFrom (c + x) xs

/-- index of the first `true` -/
def firstTrue : List Bool → Option Nat
  | [] => none
  | true :: _ => some 0
  | false :: t => (firstTrue t).map (· + 1)

/-- `np.argmax` of a boolean column: the first `True`, or 0 when all are `False` -/
def argmaxBool (l : List Bool) : Nat := (firstTrue l).getD 0

/-- a Python index `i` into a sequence of length `n` (negative indices count from the end) -/
def pyIdx (n : Nat) (i : Int) : Nat := if i < 0 then (i + n).toNat else i.toNat

/-- is the Python index valid for length `n`? -/
def pyIdxOk (n : Nat) (i : Int) : Bool := decide (-(n : Int) ≤ i) && decide (i < n)

def pyGet {α : Type} (l : List α) (i : Int) (d : α) : α := l.getD (pyIdx l.length i) d

/-- the integer `n` as a number (`np.arange` entries, `num`), by repeated addition of 1 -/
def natK : Nat → K
  | 0 => 0
  | n + 1 => natK n + 1

def two : K := 1 + 1


/-! ### lengths, total, centroid -/

/-- `vg.euclidean_distance(a, b) = sqrt(sum(square(b - a)))` -/
def dist [Sqrt K] (a b : V3 K) : K := V3.norm (b - a)

/-- `Polyline.segment_lengths` -/
def segmentLengths [Sqrt K] (p : Polyline K) : List K := p.segments.map fun s => dist s.1 s.2

/-- `Polyline.total_length` -/
def totalLength [Sqrt K] (p : Polyline K) : K := sumK (segmentLengths p)

/-- `polliwog.segment.path_centroid(segments)`:
    `np.average(np.average(segments, axis=1), weights=lengths, axis=0)`; `np.average` raises
    `ZeroDivisionError` when the weights sum to zero (also for no segments at all). -/
def pathCentroid [Sqrt K] (segs : List (V3 K × V3 K)) : Res (V3 K) :=
  let lens := segs.map fun s => dist s.1 s.2
  let scl := sumK lens
  if scl == 0 then .error .ZeroDivisionError
  else
    let centers := segs.map fun s => V3.sdiv (s.1 + s.2) two
    let weighted := List.zipWith (fun c w => V3.smul w c) centers lens
    .ok (V3.sdiv (vsum weighted) scl)

/-- `Polyline.path_centroid` -/
def polylineCentroid [Sqrt K] (p : Polyline K) : Res (V3 K) := pathCentroid p.segments

/-! ### point_along_path -/

/-- `np.cumsum([0, *self.segment_lengths])` -/
def cumLengths [Sqrt K] (p : Polyline K) : List K := cumFrom 0 (segmentLengths p)

/-- one fraction of `point_along_path`, after validation:

        desired = total_length * f
        index   = argmax(cumulative > desired) - 1                 (−1 when nothing is larger)
        result  = v[index] + (desired - cumulative[index]) * normalize(segment_vectors[index])
        if desired >= cumulative[-1]: result = v[0] if closed else v[-1]
-/
def pointAlongOne [Sqrt K] (p : Polyline K) (f : K) : V3 K :=
  let desired := totalLength p * f
  let cum := cumLengths p
  let j := argmaxBool (cum.map fun c => decide (c > desired))
  let i : Int := (j : Int) - 1
  let r := pyGet p.v i V3.zero +
    V3.smul (desired - pyGet cum i 0) (V3.normalize (pyGet p.segmentVectors i V3.zero))
  if desired ≥ pyGet cum (-1) 0 then (if p.closed then pyGet p.v 0 V3.zero else pyGet p.v (-1) V3.zero) else r

/-- `Polyline.point_along_path` on a stack of fractions (a single number is the one-element stack, first row
    returned).  `ValueError` for a fraction outside [0, 1]; `IndexError` from the fancy indexing when there is
    no vertex / no segment to index. -/
def pointAlongPath [Sqrt K] (p : Polyline K) (fs : List K) : Res (List (V3 K)) :=
  if fs.any (fun f => decide (0 > f) || decide (f > 1)) then .error .ValueError
  else if p.v.isEmpty then .error .IndexError
  else if p.numE == 0 && !fs.isEmpty then .error .IndexError
  else .ok (fs.map (pointAlongOne p))

/-! ### subdivide_segment, subdivide_segments -/

/-- `np.linspace(0, 1, num=num, endpoint=endpoint)`: `arange(num) * (1/div)`, `div = num-1 | num`, the last
    entry overwritten by `1` when `endpoint` (NumPy does so for `num > 1`). -/
def linspace01 (num : Nat) (endpoint : Bool) : List K :=
  let div := if endpoint then num - 1 else num
  let step : K := 1 / natK div
  let ys := (List.range num).map fun k => natK k * step
  if endpoint && decide (num > 1) then ys.dropLast ++ [1] else ys

/-- the point `(p2 - p1) * t + p1` -/
def lerp (p1 p2 : V3 K) (t : K) : V3 K := V3.smul t (p2 - p1) + p1

/-- `subdivide_segment(p1, p2, num_points, endpoint)`; `isInt` = `isinstance(num_points, int)`;
    `shapesOk` = `p1` is a 1-d array and `p2` an array of the same shape (`vg.shape.check`, after the
    `num_points` checks). -/
def subdivideSegment (isInt : Bool) (num : Int) (endpoint : Bool) (shapesOk : Bool) (p1 p2 : V3 K) :
    Res (List (V3 K)) :=
  if !isInt then .error .TypeError
  else if num < 2 then .error .ValueError
  else if !shapesOk then .error .ValueError
  else .ok ((linspace01 num.toNat endpoint).map (lerp p1 p2))

/-- one segment of `subdivide_segments`: `v[i] + unit * (width * k)`, `k = 0 .. num-1`, with
    `unit = diff / dist` (set to 0 where `dist == 0`) and `width = dist / num`. -/
def subdivideOne [Sqrt K] (num : Nat) (a b : V3 K) : List (V3 K) :=
  let d := b - a
  let len := V3.norm d
  let unit := if len == 0 then V3.zero else V3.sdiv d len
  let width := len / natK num
  (List.range num).map fun k => a + V3.smul (width * natK k) unit

/-- `subdivide_segments(v, num_subdivisions)`; `is2d` = `v` is a 2-d array (`vg.shape.check(v, (-1, -1))`);
    `v[-1]` raises `IndexError` for no points. -/
def subdivideSegments [Sqrt K] (is2d : Bool) (v : List (V3 K)) (num : Nat) : Res (List (V3 K)) :=
  if !is2d then .error .ValueError else
  match v.getLast? with
  | none => .error .IndexError
  | some last => .ok ((List.zip v v.tail).flatMap (fun s => subdivideOne num s.1 s.2) ++ [last])

/-! ### subdivided_by_length -/

/-- `np.ceil(length / max_length).astype(np.int64)` -/
def numNeeded [Rounding K] (len maxLen : K) : Int := Rounding.ceil (len / maxLen)

/-- the points inserted on one edge: `subdivide_segment(a, b, n, endpoint=False)[1:]` when the edge is selected
    and `n > 1`, nothing otherwise -/
def edgeInserts [Sqrt K] [Rounding K] (maxLen : K) (sel : Bool) (a b : V3 K) : List (V3 K) :=
  let n := numNeeded (dist a b) maxLen
  if sel && decide (n > 1) then ((linspace01 n.toNat false).map (lerp a b)).drop 1 else []

/-- inclusive prefix sums (`np.cumsum`, here via the `tril` trick of the code) -/
def cumsumNat (acc : Nat) : List Nat → List Nat
  | [] => []
  | x :: xs => (acc + x) :: cumsumNat (acc + x) xs

/-- the per-edge insert lists of `subdivided_by_length` -/
def allInserts [Sqrt K] [Rounding K] (p : Polyline K) (maxLen : K) (mask : List Bool) : List (List (V3 K)) :=
  List.zipWith (fun s sel => edgeInserts maxLen sel s.1 s.2) p.segments mask

/-- original vertices interleaved with the inserts of the edge that starts at them
    (`np.vsplit(v, es+1)` chained with `vs_to_insert`) -/
def interleave (v : List (V3 K)) (ins : List (List (V3 K))) : List (V3 K) :=
  (List.zipWith (fun a i => a :: i) v (ins ++ [[]])).flatten

/-- `indices_of_original_vertices`: `arange(num_v) + cumsum([0, *counts])` where `counts` leaves out the
    closing edge of a closed polyline -/
def subdividedIndices (closed : Bool) (numV : Nat) (ins : List (List (V3 K))) : List Nat :=
  let counts := ins.map List.length
  let step := 0 :: (if closed then counts.dropLast else counts)
  List.zipWith (· + ·) (List.range numV) (cumsumNat 0 step)

/-- `Polyline.subdivided_by_length(max_length, edges_to_subdivide, ret_indices=True)`;
    `mask = none` is the default (all edges).  `ValueError` when the mask has the wrong length. -/
def subdividedByLength [Sqrt K] [Rounding K] (p : Polyline K) (maxLen : K) (mask : Option (List Bool)) :
    Res (Polyline K × List Nat) :=
  let m := mask.getD (List.replicate p.numE true)
  if m.length != p.numE then .error .ValueError
  else
    let ins := allInserts p maxLen m
    .ok (⟨interleave p.v ins, p.closed⟩, subdividedIndices p.closed p.numV ins)

/-! ### with_segments_bisected (through with_insertions) -/

/-- `np.insert(v, indices, points, axis=0)`: every point goes before the vertex whose index it carries
    (index `len v` = after the end); points with the same index keep the order given. -/
def insertBeforeFrom {α : Type} (ins : List (Nat × α)) : Nat → List α → List α
  | i, [] => (ins.filter (·.1 == i)).map (·.2)
  | i, x :: xs => (ins.filter (·.1 == i)).map (·.2) ++ x :: insertBeforeFrom ins (i + 1) xs

def insertBefore {α : Type} (v : List α) (ins : List (Nat × α)) : List α := insertBeforeFrom ins 0 v

/-- `arange(n) + cumsum(bincount(indices, minlength=n+1)[:n])` -/
def indicesOfOriginal (n : Nat) (idx : List Nat) : List Nat :=
  (List.range n).map fun i => i + (idx.filter (· ≤ i)).length

/-- position of the `j`-th inserted point: its index plus its rank in the stable sort by index -/
def indicesOfInserted (idx : List Nat) : List Nat :=
  (List.range idx.length).map fun j =>
    let t := idx.getD j 0
    t + (idx.filter (· < t)).length + ((idx.take j).filter (· == t)).length

/-- `Polyline.with_segments_bisected(segment_indices, ret_new_indices=True)`:
    midpoints `self.segments[idx].mean(axis=1)` inserted before `self.e[idx][:, 1]`.
    `oneDim` = `np.ndim(segment_indices) == 1`, otherwise `ValueError`;
    `IndexError` for an index outside `[-num_e, num_e)`. -/
def withSegmentsBisected (oneDim : Bool) (p : Polyline K) (segIdx : List Int) :
    Res (Polyline K × List Nat × List Nat) :=
  let nE := p.numE
  if !oneDim then .error .ValueError
  else if !(segIdx.all (pyIdxOk nE)) then .error .IndexError
  else
    let es := segIdx.map (pyIdx nE)
    let mids := es.map fun e => let s := p.segments.getD e (V3.zero, V3.zero); V3.sdiv (s.1 + s.2) two
    let at_ := es.map fun e => (p.edges.getD e (0, 0)).2
    .ok (⟨insertBefore p.v (List.zip at_ mids), p.closed⟩, indicesOfOriginal p.numV at_, indicesOfInserted at_)

end PW.ArcLength
