/-
  PW.Model.Composite — model of polliwog/transform/_composite_transform.py (Mathlib-free).

    CompositeTransform.transforms                ↦ `Composite K = List (M4 K × M4 K)`  (forward, inverse) in order
    self.transforms[start:stop]                  ↦ `pySlice` (Python slice semantics for arbitrary ints)
    transform_matrix_for(from_range, reverse)    ↦ `transformMatrixFor`
    __call__(points, from_range, reverse, discard_z_coord, treat_input_as_vector)
                                                 ↦ `call` / `callDiscardZ` (single point or stack: `Arg`)
    append_transform / uniform_scale / non_uniform_scale / convert_units / flip / translate / reorient / rotate
                                                 ↦ one function each, returning the new state and the index
  External routines are data (contract recorded in the harness' TRUSTED list):
    np.linalg.inv(forward)            the inverse matrix it returned, or the LinAlgError it raised
    ounce.factor(from, to)            the factor
    rotation_from_up_and_look(up, look)   the 3×3 matrix it returned, or the ValueError it raised
    rodrigues_vector_to_rotation_matrix   the 3×3 matrix (a `rotate` step always receives the 3×3 matrix)
  A history is a list of `StepCmd`; a raising command leaves the state unchanged (Python semantics).
-/
import PW.Model.Affine

namespace PW.CT

/-- "a single item or a stack of items" argument / result -/
inductive Arg (α : Type) where
  | one (a : α)
  | many (l : List α)
deriving Repr

def Arg.map {α β : Type} (f : α → β) : Arg α → Arg β
  | .one a => .one (f a)
  | .many l => .many (l.map f)

/-! ### Python slices -/

/-- normalisation of one slice bound against a list of length `len`
    (`i < 0 ↦ max (i + len) 0`, `i > len ↦ len`) -/
def pyIndex (len : Nat) (i : Int) : Nat :=
  if i < 0 then (i + (len : Int)).toNat else min i.toNat len

/-- `l[start:stop]` -/
def pySlice {α : Type} (l : List α) (start stop : Int) : List α :=
  let s := pyIndex l.length start
  let e := pyIndex l.length stop
  (l.drop s).take (e - s)

variable {K : Type} [Add K] [Sub K] [Mul K] [Div K] [Neg K] [OfNat K 0] [OfNat K 1]
  [LT K] [LE K] [DecidableLT K] [DecidableLE K] [BEq K]

/-- one appended transform: (forward, inverse) -/
abbrev Step (K : Type) := M4 K × M4 K

/-- `CompositeTransform.transforms` -/
abbrev Composite (K : Type) := List (Step K)

namespace Composite

/-- `selected_transforms` -/
def selected (c : Composite K) (fromRange : Option (Int × Int)) : Composite K :=
  match fromRange with
  | none => c
  | some (start, stop) => pySlice c start stop

/-- `matrices` -/
def matrices (c : Composite K) (fromRange : Option (Int × Int)) (reverse : Bool) : List (M4 K) :=
  if reverse then (c.selected fromRange).reverse.map (·.2) else (c.selected fromRange).map (·.1)

/-- `transform_matrix_for(from_range, reverse)` -/
def transformMatrixFor (c : Composite K) (fromRange : Option (Int × Int)) (reverse : Bool) : M4 K :=
  composeTransforms (c.matrices fromRange reverse)

/-- `__call__` on one point (z kept) -/
def callPoint (c : Composite K) (fromRange : Option (Int × Int)) (reverse asVector : Bool) (p : V3 K) : V3 K :=
  applyTransform (c.transformMatrixFor fromRange reverse) p asVector

/-- `__call__(points, from_range, reverse, discard_z_coord=False, treat_input_as_vector)` -/
def call (c : Composite K) (pts : Arg (V3 K)) (fromRange : Option (Int × Int)) (reverse asVector : Bool) :
    Arg (V3 K) :=
  pts.map (c.callPoint fromRange reverse asVector)

/-- `result[:, 0:2]` / `result[0:2]` -/
def dropZ (p : V3 K) : K × K := (p.x, p.y)

/-- `__call__(…, discard_z_coord=True, …)` -/
def callDiscardZ (c : Composite K) (pts : Arg (V3 K)) (fromRange : Option (Int × Int)) (reverse asVector : Bool) :
    Arg (K × K) :=
  (c.call pts fromRange reverse asVector).map dropZ

/-! ### appending methods: new state and returned index -/

/-- `append_transform(forward, reverse)` with both matrices present -/
def appendTransform (c : Composite K) (fwd inv : M4 K) : Composite K × Nat :=
  (c ++ [(fwd, inv)], c.length)

/-- `append_transform(forward)`: `reverse = np.linalg.inv(forward)`, whose outcome is `inv` -/
def appendTransformAuto (c : Composite K) (fwd : M4 K) (inv : Res (M4 K)) : Res (Composite K × Nat) := do
  let i ← inv
  pure (c.appendTransform fwd i)

def uniformScale (c : Composite K) (factor : K) (allowFlipping : Bool) : Res (Composite K × Nat) := do
  let (f, i) ← uniformScaleMatrix factor allowFlipping
  pure (c.appendTransform f i)

def nonUniformScale (c : Composite K) (x y z : K) (allowFlipping : Bool) : Res (Composite K × Nat) := do
  let (f, i) ← nonUniformScaleMatrix x y z allowFlipping
  pure (c.appendTransform f i)

/-- `convert_units(from_units, to_units)` with `factor = ounce.factor(from_units, to_units)` -/
def convertUnits (c : Composite K) (factor : K) : Res (Composite K × Nat) :=
  c.uniformScale factor false

/-- `flip(dim)` -/
def flip (c : Composite K) (dim : Int) : Res (Composite K × Nat) :=
  if dim = 0 then c.nonUniformScale (-1) 1 1 true
  else if dim = 1 then c.nonUniformScale 1 (-1) 1 true
  else if dim = 2 then c.nonUniformScale 1 1 (-1) true
  else .error .ValueError

def translate (c : Composite K) (v : V3 K) : Res (Composite K × Nat) :=
  let (f, i) := translationMatrix v
  pure (c.appendTransform f i)

/-- `rotate(rotation)` with the 3×3 matrix (given, or produced from the Rodrigues vector) -/
def rotate (c : Composite K) (r : M3 K) : Res (Composite K × Nat) :=
  let (f, i) := rotationMatrix r
  pure (c.appendTransform f i)

/-- `reorient(up, look)`; `r` is the outcome of `rotation_from_up_and_look(up, look)` -/
def reorient (c : Composite K) (r : Res (M3 K)) : Res (Composite K × Nat) := do
  let m ← r
  c.rotate m

end Composite

/-! ### histories -/

/-- one call of an appending method -/
inductive StepCmd (K : Type) where
  | appendTransform (fwd inv : M4 K)
  | appendTransformAuto (fwd : M4 K) (inv : Res (M4 K))
  | uniformScale (factor : K) (allowFlipping : Bool)
  | nonUniformScale (x y z : K) (allowFlipping : Bool)
  | convertUnits (factor : K)
  | flip (dim : Int)
  | translate (v : V3 K)
  | rotate (r : M3 K)
  | reorient (r : Res (M3 K))

/-- run one appending method -/
def Composite.step (c : Composite K) : StepCmd K → Res (Composite K × Nat)
  | .appendTransform f i => pure (c.appendTransform f i)
  | .appendTransformAuto f i => c.appendTransformAuto f i
  | .uniformScale s a => c.uniformScale s a
  | .nonUniformScale x y z a => c.nonUniformScale x y z a
  | .convertUnits s => c.convertUnits s
  | .flip d => c.flip d
  | .translate v => c.translate v
  | .rotate r => c.rotate r
  | .reorient r => c.reorient r

/-- run a history from state `c`: final state and what each call returned (index or exception) -/
def Composite.exec (c : Composite K) : List (StepCmd K) → Composite K × List (Res Nat)
  | [] => (c, [])
  | cmd :: rest =>
    match c.step cmd with
    | .ok (c', i) => let r := Composite.exec c' rest; (r.1, .ok i :: r.2)
    | .error e => let r := Composite.exec c rest; (r.1, .error e :: r.2)

end PW.CT
