/-
  PW.Model.Stacked — "one item or a stack of items" (Mathlib-free).

  NumPy code that accepts a point `(3,)` or a stack `(k, 3)` is modelled on a sum type; the stacked result is by
  definition `map`/`zipWith` of the single one, an empty stack gives an empty result, and stacks of different
  lengths are a `ValueError` (the shape check `(k, 4)` against the `k` bound by the points).
  Instances: the module-level plane functions of PW.Model.Plane in their four documented combinations
  (one point / one plane, k points / one plane, k points / k planes, one point / k planes) and the `Plane`
  methods (one plane, one point or k points).
-/
import PW.Vec
import PW.Err
import PW.Model.Plane

namespace PW

inductive Stk (α : Type) where
  | one (a : α)
  | many (l : List α)
deriving Repr, Inhabited

namespace Stk

variable {α β γ : Type}

/-- one argument, single or stacked: `f` on the item, or on every row -/
def map (f : α → β) : Stk α → Stk β
  | one a => one (f a)
  | many l => many (l.map f)

/-- two arguments in the `check_shape_any(x, single, stacked)` / `check_shape_any(y, single, (k or -1, …))`
    idiom: a single `y` serves every row of `x`, a single `x` is paired with every row of `y`, two stacks are
    paired row by row and must have the same length -/
def zip (f : α → β → γ) : Stk α → Stk β → Res (Stk γ)
  | one a, one b => .ok (one (f a b))
  | many as, one b => .ok (many (as.map fun a => f a b))
  | many as, many bs => if as.length = bs.length then .ok (many (List.zipWith f as bs)) else .error .ValueError
  | one a, many bs => .ok (many (bs.map fun b => f a b))

end Stk

variable {K : Type} [Add K] [Sub K] [Mul K] [Div K] [Neg K] [OfNat K 0] [OfNat K 1]
  [LT K] [LE K] [DecidableLT K] [DecidableLE K]

/-- `signed_distance_to_plane(points, plane_equations)` -/
def signedDistanceStk (p : Stk (V3 K)) (e : Stk (V4 K)) : Res (Stk K) := Stk.zip signedDistanceEq p e
/-- `project_point_to_plane(points, plane_equations)` -/
def projectPointStk (p : Stk (V3 K)) (e : Stk (V4 K)) : Res (Stk (V3 K)) := Stk.zip projectPointToPlane p e
/-- `mirror_point_across_plane(points, plane_equations)` -/
def mirrorPointStk (p : Stk (V3 K)) (e : Stk (V4 K)) : Res (Stk (V3 K)) := Stk.zip mirrorPointAcrossPlane p e

namespace Plane
/-- `Plane.signed_distance(points)` / `sign` / `distance` / `project_point` / `mirror_point` -/
def signedDistanceStk (pl : Plane K) (p : Stk (V3 K)) : Stk K := p.map pl.signedDistance
def signStk (pl : Plane K) (p : Stk (V3 K)) : Stk Int := p.map pl.sign
def distanceStk (pl : Plane K) (p : Stk (V3 K)) : Stk K := p.map pl.distance
def projectPointStk (pl : Plane K) (p : Stk (V3 K)) : Stk (V3 K) := p.map pl.projectPoint
def mirrorPointStk (pl : Plane K) (p : Stk (V3 K)) : Stk (V3 K) := p.map pl.mirrorPoint
end Plane

end PW
