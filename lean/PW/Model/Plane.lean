/-
  PW.Model.Plane — model of polliwog/plane/_plane_functions.py and the point-query part of
  polliwog/plane/_plane_object.py (Mathlib-free; polymorphic over the number type).

  Python → Lean:
    plane_equations (4,)                      ↦ `V4 K` = (A, B, C, D)
    normal_and_offset_from_plane_equations    ↦ `eqNormal`, `eqOffset`
    signed_distance_to_plane(p, eq)           ↦ `signedDistanceEq`        vg.dot(points, normals) + offsets
    translate_points_along_plane_normal       ↦ `translateAlongNormal`    points + factor * sd * normals
    project_point_to_plane / mirror_…         ↦ factor = -1 / -2
    Plane(reference_point, normal)            ↦ `Plane K`
    Plane.equation / canonical_point / flipped / sign / points_in_front / points_on_or_in_front
  A stacked call is `List.map` (one plane) or `List.zipWith` (one equation per point) of the single
  form; the correspondence check is what shows the vectorised NumPy code equals that map.
-/
import PW.Vec
import PW.Err

namespace PW

variable {K : Type} [Add K] [Sub K] [Mul K] [Div K] [Neg K] [OfNat K 0] [OfNat K 1]
  [LT K] [LE K] [DecidableLT K] [DecidableLE K]

def eqNormal (e : V4 K) : V3 K := ⟨e.x, e.y, e.z⟩
def eqOffset (e : V4 K) : K := e.w

/-- `signed_distance_to_plane`: `vg.dot(points, normals) + offsets` -/
def signedDistanceEq (p : V3 K) (e : V4 K) : K := p.dot (eqNormal e) + eqOffset e

/-- `translate_points_along_plane_normal`: `points + factor * signed_distance * normals` -/
def translateAlongNormal (p : V3 K) (e : V4 K) (factor : K) : V3 K :=
  p + V3.smul (factor * signedDistanceEq p e) (eqNormal e)

/-- the literal `-1` of `project_point_to_plane` -/
def projectFactor : K := -1
/-- the literal `-2` of `mirror_point_across_plane` -/
def mirrorFactor : K := -(1 + 1)

def projectPointToPlane (p : V3 K) (e : V4 K) : V3 K := translateAlongNormal p e projectFactor
def mirrorPointAcrossPlane (p : V3 K) (e : V4 K) : V3 K := translateAlongNormal p e mirrorFactor

structure Plane (K : Type) where
  ref : V3 K
  n : V3 K
deriving Repr, Inhabited

namespace Plane

/-- `Plane.equation`: `[A, B, C, D]` with `D = -reference_point.dot(normal)` -/
def equation (pl : Plane K) : V4 K := ⟨pl.n.x, pl.n.y, pl.n.z, -(pl.ref.dot pl.n)⟩

/-- `Plane.canonical_point`: `reference_point.dot(normal) * normal` -/
def canonicalPoint (pl : Plane K) : V3 K := V3.smul (pl.ref.dot pl.n) pl.n

/-- `Plane.flipped` (the constructor's unit-length validation is re-run by the code on `-normal`;
    it cannot fail since the norm is unchanged — see `Plane.mk?` in PW.Model.PlaneCtor). -/
def flipped (pl : Plane K) : Plane K := ⟨pl.ref, -pl.n⟩

def signedDistance (pl : Plane K) (p : V3 K) : K := signedDistanceEq p pl.equation

/-- `np.sign` on a non-NaN value -/
def sgn (x : K) : Int := if 0 < x then 1 else if x < 0 then -1 else 0

def sign (pl : Plane K) (p : V3 K) : Int := sgn (pl.signedDistance p)

/-- `np.absolute(signed_distance)` -/
def distance (pl : Plane K) (p : V3 K) : K :=
  let d := pl.signedDistance p
  if d < 0 then -d else d

def projectPoint (pl : Plane K) (p : V3 K) : V3 K := projectPointToPlane p pl.equation
def mirrorPoint (pl : Plane K) (p : V3 K) : V3 K := mirrorPointAcrossPlane p pl.equation

/-- `np.flatnonzero(mask)` -/
def flatnonzero (mask : List Bool) : List Nat :=
  (List.range mask.length).filter fun i => mask.getD i false

/-- mask of `points_in_front`: `sign > 0`, or `sign < 0` when inverted -/
def inFrontMask (pl : Plane K) (inverted : Bool) (pts : List (V3 K)) : List Bool :=
  pts.map fun p => if inverted then decide (pl.sign p < 0) else decide (pl.sign p > 0)

/-- mask of `points_on_or_in_front`: `sign >= 0`, or `sign <= 0` when inverted -/
def onOrInFrontMask (pl : Plane K) (inverted : Bool) (pts : List (V3 K)) : List Bool :=
  pts.map fun p => if inverted then decide (pl.sign p ≤ 0) else decide (pl.sign p ≥ 0)

def pointsInFrontIdx (pl : Plane K) (inverted : Bool) (pts : List (V3 K)) : List Nat :=
  flatnonzero (pl.inFrontMask inverted pts)

def pointsOnOrInFrontIdx (pl : Plane K) (inverted : Bool) (pts : List (V3 K)) : List Nat :=
  flatnonzero (pl.onOrInFrontMask inverted pts)

/-- `points[indices]` -/
def take (pts : List (V3 K)) (idx : List Nat) : List (V3 K) :=
  idx.filterMap fun i => pts[i]?

def pointsInFront (pl : Plane K) (inverted : Bool) (pts : List (V3 K)) : List (V3 K) :=
  take pts (pl.pointsInFrontIdx inverted pts)

def pointsOnOrInFront (pl : Plane K) (inverted : Bool) (pts : List (V3 K)) : List (V3 K) :=
  take pts (pl.pointsOnOrInFrontIdx inverted pts)

end Plane

end PW
