/-
  PW.Model.PlaneXsect — model of the plane–line / plane–segment intersection routines (property C14).
  Mathlib-free; polymorphic over the number type.

  Python → Lean
    Plane._line_xsection(pt, ray)                 ↦ `Plane.lineXsection`          None ↦ `none`
    Plane._line_segment_xsection(a, b)            ↦ `Plane.lineSegmentXsection`   None ↦ `none`
       any(pt>a & pt>b) or any(pt<a & pt<b)       ↦ `outOfBounds`
    Plane.line_xsections(pts, rays)               ↦ `Plane.lineXsections`         row = NaN, flag False ↦ `none`
    Plane.line_segment_xsections(a, b)            ↦ `Plane.lineSegmentXsections`  row = NaN, flag False ↦ `none`
    intersect_segment_with_plane(s, v, q, n)      ↦ `intersectSegmentWithPlane`   NaN row ↦ `none`
       np.nan_to_num(num / denom)                 ↦ `nanToNumDiv`  (the IEEE cases are explicit branches)
    Polyline.intersect_plane(plane, ret_edge_indices=True)
                                                  ↦ `Polyline.intersectPlane`     list of (edge index, row); NaN row ↦ `none`

  Every division carries the guard under which the code's IEEE division is an ordinary quotient:
    * `_line_xsection`: the code's own `if denom == 0: return None`;
    * `line_xsections`: `denoms[denoms == 0] = nan` makes the row NaN and the flag False  (↦ `none`);
    * `intersect_segment_with_plane`: no guard in the code; IEEE gives 0/0 = nan ↦ `nan_to_num` ↦ 0.0, and
      x/±0 = ±inf ↦ `nan_to_num` ↦ ±1.797…e308 (= `big`, a parameter of the model, `np.finfo(float64).max`),
      which then fails the `t < 0` / `t > 1` test, so the row is set to NaN;
    * `intersect_plane`: no guard in the code; |d_a| + |d_b| = 0 (both end points on the plane) gives 0/0 = nan,
      the whole row is NaN (↦ `none`, the entry is still emitted with its edge index).
  Everything that is not a method of `Plane` / `Polyline` lives in the namespace `PW.Xsect`.
  A stacked call is `List.map` of the single form (plus the `vg.shape.check` length test, `ValueError`).
-/
import PW.Vec
import PW.Err
import PW.Model.Plane
import PW.Model.PolylineBase

namespace PW

variable {K : Type} [Add K] [Sub K] [Mul K] [Div K] [Neg K] [OfNat K 0] [OfNat K 1]
  [LT K] [LE K] [DecidableLT K] [DecidableLE K] [BEq K]

namespace Xsect

/-- `any(np.logical_and(pt > a, pt > b)) or any(np.logical_and(pt < a, pt < b))` -/
def outOfBounds (pt a b : V3 K) : Bool :=
  ((decide (a.x < pt.x) && decide (b.x < pt.x)) ||
   (decide (a.y < pt.y) && decide (b.y < pt.y)) ||
   (decide (a.z < pt.z) && decide (b.z < pt.z))) ||
  ((decide (pt.x < a.x) && decide (pt.x < b.x)) ||
   (decide (pt.y < a.y) && decide (pt.y < b.y)) ||
   (decide (pt.z < a.z) && decide (pt.z < b.z)))

end Xsect

namespace Plane
open Xsect

/-- `_line_xsection`:  `denom = ray·n`; `None` if `denom == 0`; else `p = (ref − pt)·n / denom`, `p*ray + pt`. -/
def lineXsection (pl : Plane K) (pt ray : V3 K) : Option (V3 K) :=
  let denom := ray.dot pl.n
  if denom == 0 then none
  else
    let p := (pl.ref - pt).dot pl.n / denom
    some (V3.smul p ray + pt)

/-- `_line_segment_xsection`: intersection of the carrying line, rejected by the coordinate-wise bounds test. -/
def lineSegmentXsection (pl : Plane K) (a b : V3 K) : Option (V3 K) :=
  match pl.lineXsection a (b - a) with
  | none => none
  | some pt => if outOfBounds pt a b then none else some pt

/-- `vg.shape.check(locals(), "rays", (k, 3))` with `k` the length of the first argument -/
def sameLength {α β : Type} (xs : List α) (ys : List β) : Res Unit :=
  if xs.length == ys.length then .ok () else .error .ValueError

/-- `line_xsections`: one `(row, flag)` per line; `none` = NaN row with flag `False`. -/
def lineXsections (pl : Plane K) (pts rays : List (V3 K)) : Res (List (Option (V3 K))) := do
  sameLength pts rays
  pure (List.zipWith pl.lineXsection pts rays)

/-- `line_segment_xsections`: one `(row, flag)` per segment; `none` = NaN row with flag `False`. -/
def lineSegmentXsections (pl : Plane K) (as bs : List (V3 K)) : Res (List (Option (V3 K))) := do
  sameLength as bs
  pure (List.zipWith pl.lineSegmentXsection as bs)

end Plane

namespace Xsect

/-- `np.nan_to_num(num / denom)` on finite `num`, `denom`, the IEEE special cases spelled out:
    `0/0 = nan ↦ 0.0`; `x/±0 = ±inf ↦ ±big` with `big = np.finfo(np.float64).max ≈ 1.797e308`.
    (The sign of the infinity also depends on the sign of the zero denominator, which the model does not
    track; `PW.C14.inf_sign_irrelevant` shows both signs lead to the same result.) -/
def nanToNumDiv (big num denom : K) : K :=
  if denom == 0 then
    if num == 0 then 0
    else if 0 < num then big
    else -big
  else num / denom

/-- the row `intersect_segment_with_plane` produces from a parameter value `t`:
    `start + t * vector`, overwritten with NaN when `t < 0` or `t > 1`. -/
def segmentRow (t : K) (start vec : V3 K) : Option (V3 K) :=
  if t < 0 then none
  else if 1 < t then none
  else some (start + V3.smul t vec)

/-- `intersect_segment_with_plane` for one segment / one plane. -/
def intersectSegmentWithPlane (big : K) (start vec planePt n : V3 K) : Option (V3 K) :=
  let t := nanToNumDiv big ((planePt - start).dot n) (vec.dot n)
  segmentRow t start vec

/-- stacked form: pairwise over four equally long stacks (`vg.shape.check(…, orig_shape)` otherwise). -/
def intersectSegmentsWithPlanes (big : K) (starts vecs planePts ns : List (V3 K)) :
    Res (List (Option (V3 K))) := do
  Plane.sameLength starts vecs
  Plane.sameLength starts planePts
  Plane.sameLength starts ns
  pure ((List.zip (List.zip starts vecs) (List.zip planePts ns)).map
    fun ((s, v), (q, n)) => intersectSegmentWithPlane big s v q n)

/-! ### `Polyline.intersect_plane` -/

/-- `np.abs` -/
def absK (d : K) : K := if d < 0 then -d else d

/-- `np.abs(np.sign(sd)[e].sum(axis=1)) != 2` -/
def edgeSelected (da db : K) : Bool := (Plane.sgn da + Plane.sgn db).natAbs != 2

/-- the weighted average `(1 - t_a) * a + (1 - t_b) * b` with `t = |d| / (|d_a| + |d_b|)`;
    `none` = NaN row (0/0, both end points on the plane). -/
def edgePoint (da db : K) (a b : V3 K) : Option (V3 K) :=
  let ea := absK da
  let eb := absK db
  let s := ea + eb
  if s == 0 then none
  else some (V3.smul (1 - ea / s) a + V3.smul (1 - eb / s) b)

/-- the edges are visited in order, `i` is the index of the first segment of the list -/
def intersectPlaneFrom (pl : Plane K) : Nat → List (V3 K × V3 K) → List (Nat × Option (V3 K))
  | _, [] => []
  | i, (a, b) :: rest =>
    let da := pl.signedDistance a
    let db := pl.signedDistance b
    (if edgeSelected da db then [(i, edgePoint da db a b)] else []) ++ intersectPlaneFrom pl (i + 1) rest

end Xsect

/-- `Polyline.intersect_plane(plane, ret_edge_indices=True)`: (edge index, point) in edge order. -/
def Polyline.intersectPlane (p : Polyline K) (pl : Plane K) : List (Nat × Option (V3 K)) :=
  Xsect.intersectPlaneFrom pl 0 p.segments

end PW
