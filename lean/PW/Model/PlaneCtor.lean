/-
  PW.Model.PlaneCtor — model of the ways of making a `Plane` (polliwog/plane/_plane_object.py), of
  `plane_normal_from_points` / `plane_equation_from_points` (polliwog/plane/_plane_functions.py) and of
  `surface_normals` (polliwog/tri/functions.py).  Mathlib-free; polymorphic over the number type.

  Python → Lean
    Plane(reference_point, normal, direction_decimals)   ↦ `Plane.mk?`         (ValueError unless |‖n‖−1| ≤ 0.1**d)
    vg.almost_unit_length(v, atol)                        ↦ `PC.almostUnitLength`  np.isclose(‖v‖, 1, rtol=0, atol)
    vg.normalize(v) = v / ‖v‖                             ↦ `PC.normalize?`     `none` = the NaN vector (0/0) —
                                                             explicit branch on ‖v‖ = 0, never Lean's x/0
    a possibly-NaN normal handed to the constructor       ↦ `Plane.mkOpt?`      (NaN compares false → ValueError)
    Plane.from_point_and_normal                           ↦ `Plane.fromPointAndNormal`
    surface_normals / plane_normal_from_points            ↦ `PC.surfaceNormal`  (stacked = `List.map`)
    plane_equation_from_points                            ↦ `PC.planeEquationFromPoints`
    Plane.from_points                                     ↦ `Plane.fromPoints`
    Plane.from_points_and_vector                          ↦ `Plane.fromPointsAndVector`
    Plane.fit_from_points                                 ↦ `Plane.fitFromPoints`  — `np.linalg.eigh(np.cov(points.T))`
                                                             is a *parameter* (eigval, eigvec as data); its contract
                                                             (`PC.EigenContract`) is a hypothesis of the theorems and
                                                             is checked on NumPy's actual output by the harness
    np.cov(points.T)                                      ↦ `PC.covMatrix`
    np.argsort (stable insertion sort for n < 16)         ↦ `PC.argsort`
    vg.project / reject / angle(look=) / signed_angle / rotate ↦ `PC.projectV`, `rejectV`, `angleLook`, `signedAngle`, `rotateV`
    Plane.tilted                                          ↦ `Plane.tilted`
    Plane.xy / xz / yz                                    ↦ `Plane.xy?` … (the constructor call made at import time)
  Things without arithmetic content (dtype of the normal, read-only flag, fresh copies) are tags printed as
  constants by the driver and compared with what the adapter observes.
-/
import PW.Vec
import PW.Err
import PW.Model.Plane

namespace PW

variable {K : Type} [Add K] [Sub K] [Mul K] [Div K] [Neg K] [OfNat K 0] [OfNat K 1]
  [LT K] [LE K] [DecidableLT K] [DecidableLE K]

/-- column `j` of a 3×3 matrix (`eigvec[:, j]`) -/
def M3.colN (m : M3 K) : Nat → V3 K
  | 0 => m.col0
  | 1 => m.col1
  | _ => m.col2

/-- `[p1, p2, p3]`: one row of a `(k,3,3)` stack of triangles -/
structure Tri (K : Type) where
  p1 : V3 K
  p2 : V3 K
  p3 : V3 K
deriving Repr, Inhabited

namespace PC

/-- `np.absolute` on a non-NaN value -/
def absK (x : K) : K := if x < 0 then -x else x

/-- `x ** n` for a non-negative integer `n` -/
def powNat (x : K) : Nat → K
  | 0 => 1
  | n + 1 => x * powNat x n

/-- the number `n` in `K` (`len(points)` as a float) -/
def natCast : Nat → K
  | 0 => 0
  | n + 1 => natCast n + 1

def ten : K := (1 + 1) * ((1 + 1) * (1 + 1) + 1)

/-- the literal `0.1` -/
def tenth : K := 1 / ten

/-- `Plane.DEFAULT_DIRECTION_DECIMALS` -/
def defaultDirectionDecimals : Nat := 6
/-- `Plane.DEFAULT_POSITION_DECIMALS` -/
def defaultPositionDecimals : Nat := 6

/-- `0.1 ** direction_decimals` -/
def atolOf (d : Nat) : K := powNat tenth d

/-- `vg.almost_unit_length(v, atol)` = `np.isclose(‖v‖, 1.0, rtol=0, atol=atol)`: `|‖v‖ − 1| ≤ atol`
    (false when the norm is NaN: every comparison with NaN is false) -/
def almostUnitLength [Sqrt K] (v : V3 K) (atol : K) : Bool := decide (absK (v.norm - 1) ≤ atol)

/-- `vg.normalize`: `v / ‖v‖`; `none` stands for the all-NaN vector the code gets from `0/0`
    (the branch is on the computed norm being positive, i.e. not zero and not NaN). -/
def normalize? [Sqrt K] (v : V3 K) : Option (V3 K) :=
  let m := v.norm
  if 0 < m then some (v.sdiv m) else none

/-- `(p2 − p1) × (p3 − p1)` -/
def triCross (t : Tri K) : V3 K := (t.p2 - t.p1).cross (t.p3 - t.p1)

/-- `surface_normals(points, normalize)` = `plane_normal_from_points(points, normalize)` on one triangle -/
def surfaceNormal [Sqrt K] (normalize : Bool) (t : Tri K) : Option (V3 K) :=
  if normalize then normalize? (triCross t) else some (triCross t)

/-- `plane_equation_from_points` on one triangle: `[n, −p1·n]` (`none` = four NaNs) -/
def planeEquationFromPoints [Sqrt K] (t : Tri K) : Option (V4 K) :=
  (surfaceNormal true t).map fun n => ⟨n.x, n.y, n.z, -(t.p1.dot n)⟩

/-- `normal_and_offset_from_plane_equations` on one equation -/
def normalAndOffset (e : V4 K) : V3 K × K := (eqNormal e, eqOffset e)

/-! ### fit_from_points -/

def vsum (pts : List (V3 K)) : V3 K := pts.foldl (· + ·) V3.zero
def ksum (l : List K) : K := l.foldl (· + ·) 0

/-- `points.mean(axis=0)` -/
def centroid (pts : List (V3 K)) : V3 K := (vsum pts).sdiv (natCast pts.length)

/-- `Σ q[a]·q[b]` over the rows `q` -/
def scatterEntry (qs : List (V3 K)) (a b : Nat) : K := ksum (qs.map fun q => q.get a * q.get b)

/-- `np.cov(points.T)`: rows minus their mean, `X Xᵀ`, times `1/(k−1)`  (requires `k ≥ 2`, guarded by the caller) -/
def covMatrix (pts : List (V3 K)) : M3 K :=
  let c := centroid pts
  let qs := pts.map (· - c)
  let f : K := 1 / (natCast pts.length - 1)
  let e := fun a b => scatterEntry qs a b * f
  ⟨⟨e 0 0, e 0 1, e 0 2⟩, ⟨e 1 0, e 1 1, e 1 2⟩, ⟨e 2 0, e 2 1, e 2 2⟩⟩

/-- insertion of index `i` after every index whose key is `≤ key i` (stable) -/
def insertIdx (key : Nat → K) (i : Nat) : List Nat → List Nat
  | [] => [i]
  | j :: js => if key i < key j then i :: j :: js else j :: insertIdx key i js

/-- `np.argsort(l)` (stable for short arrays: insertion sort) -/
def argsort (l : List K) : List Nat :=
  (List.range l.length).foldl (fun acc i => insertIdx (fun j => l.getD j 0) i acc) []

/-- `ordering = np.argsort(eigval)[::-1]`; `np.cross(eigvec[:, ordering[0]], eigvec[:, ordering[1]])` -/
def fitNormal (eigval : V3 K) (eigvec : M3 K) : V3 K :=
  let ord := (argsort eigval.toList).reverse
  (eigvec.colN (ord.getD 0 0)).cross (eigvec.colN (ord.getD 1 0))

/-! ### vg pieces used by `tilted` -/

/-- `vg.project(v, onto)` = `(v · ô) ô` with `ô = normalize(onto)` -/
def projectV [Sqrt K] (v onto : V3 K) : Option (V3 K) :=
  (normalize? onto).map fun o => V3.smul (v.dot o) o

/-- `vg.reject(v, from_v)` = `v − project(v, from_v)` -/
def rejectV [Sqrt K] (v frm : V3 K) : Option (V3 K) :=
  (projectV v frm).map fun p => v - p

/-- `np.clip(c, -1.0, 1.0)` = `minimum(maximum(c, −1), 1)` -/
def clip1 (c : K) : K :=
  let m := if c < -1 then -1 else c
  if 1 < m then 1 else m

/-- `vg.angle(v1, v2, look=look, units="rad")`: both vectors rejected from `look`, then
    `arccos(clip(v1·v2 / ‖v1‖ / ‖v2‖))`; `none` = NaN (`0/0` when a rejected vector vanishes) -/
def angleLook [Sqrt K] [Trig K] (v1 v2 look : V3 K) : Option K :=
  match rejectV v1 look, rejectV v2 look with
  | some r1, some r2 =>
    let m1 := r1.norm
    let m2 := r2.norm
    if 0 < m1 ∧ 0 < m2 then some (Trig.acos (clip1 (r1.dot r2 / m1 / m2))) else none
  | _, _ => none

/-- `vg.signed_angle(v1, v2, look, units="rad")`: sign of `(v1 × v2)·look`, with 0 counted as +1 -/
def signedAngle [Sqrt K] [Trig K] (v1 v2 look : V3 K) : Option K :=
  let s := (v1.cross v2).dot look
  let sg : K := if s < 0 then -1 else 1
  (angleLook v1 v2 look).map fun a => sg * a

/-- `vg.rotate(v, around_axis, angle, units="rad")` (Rodrigues' formula, axis normalised first) -/
def rotateV [Sqrt K] [Trig K] (v axis : V3 K) (angle : K) : Option (V3 K) :=
  (normalize? axis).map fun a =>
    let c := Trig.cos angle
    let s := Trig.sin angle
    let d := a.dot v
    V3.smul c v + V3.smul s (a.cross v) + V3.smul ((1 - c) * d) a

/-! ### specification-level definitions (used by the theorems and the oracle's vocabulary, not by the driver) -/

/-- `mᵀ C m` -/
def quad (C : M3 K) (m : V3 K) : K := m.dot (C.mulVec m)

/-- `Σᵢ ((pᵢ − c)·n)²`: the sum of squared distances of the points to the plane through `c` with unit normal `n` -/
def sumSqDist (pts : List (V3 K)) (c n : V3 K) : K :=
  ksum (pts.map fun p => (p - c).dot n * (p - c).dot n)

/-- contract of the eigen-solver `np.linalg.eigh(C)` → `(eigval, eigvec)`: the columns of `eigvec` are orthonormal
    (`EᵀE = 1`) and column `j` is an eigenvector of `C` for `eigval[j]` (`C E = E diag(eigval)`).
    Everything is real because `K` is. -/
def EigenContract (C : M3 K) (eigval : V3 K) (eigvec : M3 K) : Prop :=
  (∀ i j : Nat, i < 3 → j < 3 → (eigvec.colN i).dot (eigvec.colN j) = if i = j then 1 else 0) ∧
  (∀ j : Nat, j < 3 → C.mulVec (eigvec.colN j) = V3.smul (eigval.get j) (eigvec.colN j))

end PC

namespace Plane

open PC

/-- `Plane(reference_point, normal, direction_decimals)`; `none` = default decimals -/
def mk? [Sqrt K] (ref n : V3 K) (d : Option Nat := none) : Res (Plane K) :=
  if almostUnitLength n (atolOf (d.getD defaultDirectionDecimals)) then .ok ⟨ref, n⟩ else .error .ValueError

/-- the constructor given a possibly-NaN normal: `np.isclose(nan, 1)` is False → ValueError -/
def mkOpt? [Sqrt K] (ref : V3 K) (n : Option (V3 K)) (d : Option Nat := none) : Res (Plane K) :=
  match n with
  | none => .error .ValueError
  | some n => mk? ref n d

def fromPointAndNormal [Sqrt K] (ref n : V3 K) (d : Option Nat := none) : Res (Plane K) :=
  mkOpt? ref (normalize? n) d

def fromPoints [Sqrt K] (p1 p2 p3 : V3 K) : Res (Plane K) :=
  mkOpt? p1 (surfaceNormal true ⟨p1, p2, p3⟩) none

def fromPointsAndVector [Sqrt K] (p1 p2 v : V3 K) (d : Option Nat := none) : Res (Plane K) :=
  fromPointAndNormal p1 ((p2 - p1).cross v) d

/-- `fit_from_points(points)` with the eigen-solver's answer `(eigval, eigvec)` for `np.cov(points.T)` given as
    data.  Fewer than two points: the covariance is NaN and `eigh` raises LinAlgError. -/
def fitFromPoints [Sqrt K] (pts : List (V3 K)) (eigval : V3 K) (eigvec : M3 K) : Res (Plane K) :=
  if pts.length < 2 then .error .LinAlgError
  else mk? (centroid pts) (fitNormal eigval eigvec) none

/-- `Plane.tilted(new_point, coplanar_point)` -/
def tilted [Sqrt K] [Trig K] (pl : Plane K) (newPoint coplanar : V3 K) : Res (Plane K) :=
  let u := pl.projectPoint newPoint - coplanar
  let w := newPoint - coplanar
  match normalize? (u.cross pl.n) with
  | none => .error .ValueError
  | some axis =>
    match signedAngle u w axis with
    | none => .error .ValueError
    | some θ => mkOpt? coplanar (rotateV pl.n axis θ) none

/-- `Plane.xy = Plane(reference_point=np.zeros(3), normal=vg.basis.z)` -/
def xy? [Sqrt K] : Res (Plane K) := mk? V3.zero ⟨0, 0, 1⟩ none
/-- `Plane.xz = Plane(reference_point=np.zeros(3), normal=vg.basis.y)` -/
def xz? [Sqrt K] : Res (Plane K) := mk? V3.zero ⟨0, 1, 0⟩ none
/-- `Plane.yz = Plane(reference_point=np.zeros(3), normal=vg.basis.x)` -/
def yz? [Sqrt K] : Res (Plane K) := mk? V3.zero ⟨1, 0, 0⟩ none

end Plane

end PW
