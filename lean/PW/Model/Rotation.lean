/-
  PW.Model.Rotation — model of polliwog/transform/_rotation.py (Mathlib-free) and the stacked /
  flagged forms of `apply_transform` that PW.Model.Affine leaves to its users.

    euler(xyz, order, units)                  ↦ `euler`            (left-multiplication by elementary rotations,
                                                                    `zip(xyz, order)`, `np.radians` for "deg")
    the three `np.array([[…]])` literals      ↦ `elemRot`
    rotation_from_up_and_look(up, look)       ↦ `rotationFromUpAndLook`   (the three `raise ValueError`s)
    apply_transform(M)(points, discard_z_coord, treat_input_as_vector)
                                              ↦ `applyTransformMany` / `applyTransformOut`
  vg / numpy pieces modelled by what they compute: `np.linalg.norm` = `sqrt (v·v)`, `np.dot`, `np.cross`.
-/
import PW.Vec
import PW.Err
import PW.Model.Affine

namespace PW

/-- one character of the `order` string of `euler`; any character other than x, y, z consumes an angle and
    does nothing (none of the three `if axis == …` fires). -/
inductive EulerAxis where
  | x | y | z | other
deriving Repr, DecidableEq, Inhabited

section
variable {K : Type} [Add K] [Sub K] [Mul K] [Div K] [Neg K] [OfNat K 0] [OfNat K 1]

/-- the three literal matrices of `euler`, given `c = cos θ`, `s = sin θ` -/
def elemRotCS (a : EulerAxis) (c s : K) : M3 K :=
  match a with
  | .x => ⟨⟨1, 0, 0⟩, ⟨0, c, -s⟩, ⟨0, s, c⟩⟩
  | .y => ⟨⟨c, 0, s⟩, ⟨0, 1, 0⟩, ⟨-s, 0, c⟩⟩
  | .z => ⟨⟨c, -s, 0⟩, ⟨s, c, 0⟩, ⟨0, 0, 1⟩⟩
  | .other => M3.one

/-- one loop iteration of `euler`: `r = np.dot(E, r)` (nothing for a character that is not an axis) -/
def eulerStepCS (r : M3 K) (a : EulerAxis) (c s : K) : M3 K :=
  match a with
  | .other => r
  | a => (elemRotCS a c s).mul r

variable [Trig K]

/-- `π` as the model sees it (`acos(-1)`: the double `M_PI` at `Float`, `Real.pi` at `ℝ`) -/
def eulerPi : K := Trig.acos (-1)

/-- `np.radians`: `x * (π / 180)` -/
def npRadians [OfNat K 180] (x : K) : K := x * (eulerPi / 180)

def elemRot (a : EulerAxis) (θ : K) : M3 K := elemRotCS a (Trig.cos θ) (Trig.sin θ)

/-- `euler` for angles already in radians: `for theta, axis in zip(xyz, order): r = E(axis, theta) · r` -/
def eulerRad (angles : List K) (order : List EulerAxis) : M3 K :=
  (angles.zip order).foldl (fun r p => eulerStepCS r p.2 (Trig.cos p.1) (Trig.sin p.1)) M3.one

/-- `euler(xyz, order, units)`; `deg = true` is `units == "deg"` (anything else is taken as radians).
    A scalar `xyz` is the one-element list. -/
def euler [OfNat K 180] (angles : List K) (order : List EulerAxis) (deg : Bool) : M3 K :=
  eulerRad (if deg then angles.map npRadians else angles) order

end

section
variable {K : Type} [Add K] [Sub K] [Mul K] [Div K] [Neg K] [OfNat K 0] [OfNat K 1] [BEq K] [Sqrt K]

/-- `rotation_from_up_and_look(up, look)`: rows `x = y × z`, `y = up/‖up‖`, `z = normalised (look − (look·y) y)`;
    `ValueError` for `‖up‖ == 0`, `‖look‖ == 0`, `‖look − (look·y) y‖ == 0`. -/
def rotationFromUpAndLook (up look : V3 K) : Res (M3 K) :=
  if V3.norm up == 0 then .error .ValueError
  else if V3.norm look == 0 then .error .ValueError
  else
    let y := V3.sdiv up (V3.norm up)
    let z0 := look - V3.smul (V3.dot look y) y
    if V3.norm z0 == 0 then .error .ValueError
    else
      let z := V3.sdiv z0 (V3.norm z0)
      .ok ⟨V3.cross y z, y, z⟩

end

section
variable {K : Type} [Add K] [Sub K] [Mul K] [Div K] [Neg K] [OfNat K 0] [OfNat K 1]
  [LT K] [LE K] [DecidableLT K] [DecidableLE K] [BEq K]

/-- a stack of points: the single result row by row -/
def applyTransformMany (m : M4 K) (ps : List (V3 K)) (asVector : Bool) : List (V3 K) :=
  ps.map fun p => applyTransform m p asVector

/-- the coordinates `apply(points, discard_z_coord, treat_input_as_vector)` returns for one point -/
def applyTransformOut (m : M4 K) (p : V3 K) (discardZ asVector : Bool) : List K :=
  let q := applyTransform m p asVector
  if discardZ then [q.x, q.y] else [q.x, q.y, q.z]

end

end PW
