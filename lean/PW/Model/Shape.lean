/-
  PW.Model.Shape — model of the shape-validation layer every public polliwog callable starts with
  (Mathlib-free; no numbers involved, only shapes).

  Python → Lean:
    arr.shape (tuple of ints)                         ↦ `Shape`  = `List Nat`
    a shape pattern such as `(-1, 3)`                 ↦ `Pat`    = `List Dim`, `Dim = dim n | wild`
    the value passed for an argument                  ↦ `Arg`    = `absent` (None) | `number` (a Python
                                                         scalar, no `.shape`) | `arr s` (an ndarray)
    vg.shape.check_value(arr, shape)                  ↦ `checkValue`      (returns the wildcard binding)
    vg.shape.check(locals(), "name", shape)           ↦ `checkValue` on the named argument
    vg.shape.check_value_any(arr, *shapes)            ↦ `checkValueAny`
    polliwog._common.shape.check_shape_any            ↦ `checkShapeAny`
    polliwog._common.shape.columnize                  ↦ `columnizePW`
    vg.shape.columnize                                ↦ `columnizeVG`

  The second half is a tiny language (`Step`, `Sig`) in which the translator (harness/translate/c20.py)
  writes down, for every public callable, the ordered list of its shape-validation calls *as data*
  (lean/PW/Gen/Signatures.lean), and `accepts` which runs such a list against actual argument shapes
  exactly as Python would: in order, first failure raises.
-/
import PW.Err

namespace PW.Shape

abbrev Shape := List Nat

inductive Dim where
  | dim (n : Nat)
  | wild
deriving Repr, DecidableEq, Inhabited

abbrev Pat := List Dim

/-- what Python passes for an argument -/
inductive Arg where
  | absent                 -- `None`
  | number                 -- a Python `int`/`float` (an instance of `numbers.Number` without `.shape`)
  | arr (s : Shape)        -- an `np.ndarray` of that shape (rank 0 included)
deriving Repr, DecidableEq, Inhabited

/-- the return value of `check_value`: `None`, one wildcard dimension, or a tuple of them -/
inductive Ret where
  | none
  | one (k : Nat)
  | tuple (ks : List Nat)
deriving Repr, DecidableEq, Inhabited

/-- `len(arr.shape) == len(shape)` and every non-wildcard dimension agrees -/
def matchDims : Pat → Shape → Bool
  | [], [] => true
  | .dim n :: p, d :: s => d == n && matchDims p s
  | .wild :: p, _ :: s => matchDims p s
  | _, _ => false

/-- `[actual for actual, expected in zip(arr.shape, shape) if is_wildcard(expected)]` -/
def wildDims : Pat → Shape → List Nat
  | .wild :: p, d :: s => d :: wildDims p s
  | .dim _ :: p, _ :: s => wildDims p s
  | _, _ => []

def retOf : List Nat → Ret
  | [] => .none
  | [k] => .one k
  | ks => .tuple ks

/-- `vg.shape.check_value(arr, shape)`: `None` and objects without `.shape` raise `ValueError` too. -/
def checkValue (a : Arg) (p : Pat) : Res Ret :=
  match a with
  | .arr s => if matchDims p s then .ok (retOf (wildDims p s)) else .error .ValueError
  | _ => .error .ValueError

/-- the loop shared by `check_value_any` and `check_shape_any`
    (`for shape in shapes: try: return check_value(arr, shape) except ValueError: pass`):
    the binding of the first shape that matches -/
def firstMatch (a : Arg) : List Pat → Option Ret
  | [] => none
  | p :: ps =>
    match checkValue a p with
    | .ok r => some r
    | .error _ => firstMatch a ps

/-- `vg.shape.check_value_any(arr, *shapes)`.  When nothing matches the code formats its message first:
    with three or more shapes `", ".join(shapes[:-2] + …)` joins tuples and is a `TypeError`; with one or two
    shapes the intended `ValueError` (no shapes at all: `ValueError` up front). -/
def checkValueAny (a : Arg) (ps : List Pat) : Res Ret :=
  match firstMatch a ps with
  | some r => .ok r
  | none => if ps.length ≥ 3 then .error .TypeError else .error .ValueError

/-- `polliwog._common.shape.check_shape_any`: the same loop; with no shapes at all
    `ValueError("At least one shape is required")`.  When nothing matches the code builds its message from
    `shapes[-2]` and `arr.shape` before raising: a single shape is an `IndexError`, three or more a `TypeError`
    (tuples joined as strings), an object without `.shape` (other than `None`) an `AttributeError`;
    otherwise the intended `ValueError`. -/
def checkShapeAny (a : Arg) (ps : List Pat) : Res Ret :=
  match firstMatch a ps with
  | some r => .ok r
  | none =>
    if ps.length = 0 then .error .ValueError
    else if ps.length = 1 then .error .IndexError
    else if ps.length ≥ 3 then .error .TypeError
    else match a with
      | .number => .error .AttributeError
      | _ => .error .ValueError

/-- result of a columnize: the columnized shape and the `is_columnized` flag -/
structure Columnized where
  shape : Shape
  isColumnized : Bool
deriving Repr, DecidableEq

def prod : Shape → Nat
  | [] => 1
  | d :: s => d * prod s

/-- `arr.reshape(*shape)` when `arr` has the trailing shape `shape[1:]`: with a leading wildcard the result is
    `1 :: trailing`; with a leading literal `n` NumPy needs `n * size = size`, i.e. `n = 1` or an empty array. -/
def reshapeOk (p : Pat) (s : Shape) : Bool :=
  match p with
  | .dim n :: _ => n == 1 || prod s == 0
  | _ => true

def reshapeTo (p : Pat) (s : Shape) : Shape :=
  match p with
  | .wild :: _ => 1 :: s
  | .dim n :: _ => n :: s
  | [] => s

/-- `vg.shape.columnize(arr, shape)`:
      `len(shape) < 2` → ValueError; `check_value_any(arr, shape, shape[1:])`;
      `arr.ndim == len(shape)` → as is, else `arr.reshape(*shape)`. -/
def columnizeVG (a : Arg) (p : Pat) : Res Columnized :=
  if p.length < 2 then .error .ValueError else
  match a with
  | .arr s =>
    if matchDims p s then .ok ⟨s, true⟩
    else if matchDims p.tail s then (if reshapeOk p s then .ok ⟨reshapeTo p s, false⟩ else .error .ValueError)
    else .error .ValueError
  | _ => .error .ValueError

/-- `np.array(number).reshape(*shape)` for a one-dimensional `shape` -/
def numberFits (p : Pat) : Bool :=
  match p with
  | [.wild] => true
  | [.dim n] => n == 1
  | _ => false

/-- `polliwog._common.shape.columnize(arr, shape)`:
      `len(shape) == 1`: a `Number` is wrapped (`np.array(arr).reshape(*shape)`), anything else must match;
      otherwise `arr.ndim == len(shape)` → `check_value(arr, shape)`, else `check_value(arr, shape[1:])`
      and reshape.  (`arr.ndim` on `None`/a Python scalar is an `AttributeError`.) -/
def columnizePW (a : Arg) (p : Pat) : Res Columnized :=
  if p.length = 1 then
    match a with
    | .number => if numberFits p then .ok ⟨[1], false⟩ else .error .ValueError
    | .arr s => if matchDims p s then .ok ⟨s, true⟩ else .error .ValueError
    | .absent => .error .ValueError
  else
    match a with
    | .arr s =>
      if s.length = p.length then (if matchDims p s then .ok ⟨s, true⟩ else .error .ValueError)
      else if matchDims p.tail s then (if reshapeOk p s then .ok ⟨reshapeTo p s, false⟩ else .error .ValueError)
      else .error .ValueError
    | _ => .error .AttributeError

/-! ### signatures: the shape-validation prefix of a callable, as data -/

/-- a dimension *expression* inside a shape tuple of the source -/
inductive DimE where
  | lit (n : Nat)                 -- `3`
  | wild                          -- `-1`
  | var (v : String)              -- `k`            (a name bound by an earlier check, or `self.num_e`)
  | varOrWild (v : String)        -- `-1 if k is None else k`
deriving Repr, DecidableEq, Inhabited

/-- a shape *expression* -/
inductive ShapeE where
  | tuple (ds : List DimE)        -- `(k, 3)`
  | shapeOf (arg : String)        -- `a.shape`      (also through a local alias `orig_shape = a.shape`)
deriving Repr, DecidableEq, Inhabited

/-- what a check looks at: a parameter of the callable, or (after inlining a delegated call such as
    `signed_distance_to_plane(points, self.equation)`) an object attribute whose shape is fixed -/
inductive ArgRef where
  | param (name : String)
  | fixed (s : Shape)
deriving Repr, DecidableEq, Inhabited

/-- when a step runs -/
inductive Guard where
  | always
  | ifPresent (arg : String)                 -- `if x is not None:` / the `else:` of `if x is None:`
  | unlessShape (arg : String) (s : Shape)   -- the `else:` of `if x.shape == (3, 3):`
  | flags (fs : List (String × Bool))        -- inside `if c:` / `elif d:` / `else:` where `c`, `d` are not about
                                             -- shapes (`from_index == to_index`): the required truth values
deriving Repr, DecidableEq, Inhabited

inductive Act where
  | check (arg : ArgRef) (alts : List ShapeE) (bind : Option String)
        -- `k = vg.shape.check(locals(), "arg", shape)` / `check_value` / `check_shape_any` / `check_value_any`
  | check1d (arg : String) (alts : List ShapeE) (bind : Option String)
        -- `x = np.atleast_1d(np.asarray(x)); vg.shape.check(locals(), "x", shape)`
  | colPW (arg : ArgRef) (shape : ShapeE)    -- polliwog's `columnize(arg, shape)`
  | colVG (arg : ArgRef) (shape : ShapeE)    -- `vg.shape.columnize(arg, shape)`
  | atLeast (v : String) (n : Nat)           -- `if k < n: raise ValueError(…)` (also `if k == 0`)
  | flatSize (arg : String) (n : Nat)        -- `r = np.array(r).flatten(); check_value(r, (n,))`
  | sizeOrShape (arg : String) (n : Nat) (s : Shape)   -- cv2_rodrigues: `r.size == n` / `r.shape == s` / else ValueError
  | untranslated                             -- fail closed: the translator met something it cannot render (never accepts)
deriving Repr, DecidableEq, Inhabited

structure Step where
  guard : Guard := .always
  act : Act
deriving Repr, DecidableEq, Inhabited

abbrev Sig := List Step

/-- actual arguments by parameter name -/
abbrev Env := List (String × Arg)
/-- names bound so far (`k`, `num_faces`, …) and the object's own dimensions (`self.num_e`) -/
abbrev Binds := List (String × Ret)

/-- truth values of the non-shape conditions a signature mentions (absent = false) -/
abbrev Flags := List (String × Bool)

def argOf (env : Env) (name : String) : Arg := (env.lookup name).getD .absent

def flagOf (fl : Flags) (name : String) : Bool := (fl.lookup name).getD false

/-- `np.atleast_1d(np.asarray(x))`: scalars (Python numbers, 0-d arrays, and `None`, which becomes
    `array(nan)`) turn into one-element vectors, everything else keeps its shape -/
def atLeast1d : Arg → Arg
  | .arr [] => .arr [1]
  | .arr s => .arr s
  | .number => .arr [1]
  | .absent => .arr [1]

def ArgRef.val (env : Env) : ArgRef → Arg
  | .param n => argOf env n
  | .fixed s => .arr s

def DimE.eval (b : Binds) : DimE → Option Dim
  | .lit n => some (.dim n)
  | .wild => some .wild
  | .var v =>
    match b.lookup v with
    | some (.one k) => some (.dim k)
    | _ => none                      -- `None`/a tuple as a dimension: "Expected shape dimensions to be int"
  | .varOrWild v =>
    match b.lookup v with
    | some .none => some .wild
    | some (.one k) => some (.dim k)
    | _ => none

def evalDims (b : Binds) : List DimE → Option Pat
  | [] => some []
  | d :: ds =>
    match d.eval b, evalDims b ds with
    | some x, some xs => some (x :: xs)
    | _, _ => none

/-- value of a shape expression: a pattern, or the exception raised while evaluating it -/
def ShapeE.eval (env : Env) (b : Binds) : ShapeE → Res Pat
  | .tuple ds =>
    match evalDims b ds with
    | some p => .ok p
    | none => .error .ValueError
  | .shapeOf a =>
    match argOf env a with
    | .arr s => .ok (s.map .dim)
    | _ => .error .AttributeError

def evalAlts (env : Env) (b : Binds) : List ShapeE → Res (List Pat)
  | [] => .ok []
  | e :: es =>
    match e.eval env b, evalAlts env b es with
    | .ok p, .ok ps => .ok (p :: ps)
    | .error x, _ => .error x
    | _, .error x => .error x

def Guard.holds (env : Env) (fl : Flags) : Guard → Bool
  | .always => true
  | .ifPresent a => argOf env a != .absent
  | .unlessShape a s => argOf env a != .arr s
  | .flags fs => fs.all fun nv => flagOf fl nv.1 == nv.2

def bindTo (b : Binds) : Option String → Ret → Binds
  | none, _ => b
  | some v, r => (v, r) :: b

/-! `runK`: one step in continuation-passing form (the continuation is "the rest of the function").
    Written this way the outcome of a whole signature on shapes whose *ranks* are known is a plain tree of
    `if dimension-test then … else …` with `ok`/`error` leaves, which is what the proofs in PW.Props.C20
    compute with. -/

/-- `check_value_any` followed by the rest -/
def checkAnyK (a : Arg) : List Pat → (Ret → Res Unit) → Res Unit
  | [], _ => .error .ValueError
  | p :: ps, k =>
    match a with
    | .arr s => if matchDims p s then k (retOf (wildDims p s)) else checkAnyK a ps k
    | _ => checkAnyK a ps k

/-- polliwog's `columnize` followed by the rest -/
def columnizePWK (a : Arg) (p : Pat) (k : Res Unit) : Res Unit :=
  if p.length = 1 then
    match a with
    | .number => if numberFits p then k else .error .ValueError
    | .arr s => if matchDims p s then k else .error .ValueError
    | .absent => .error .ValueError
  else
    match a with
    | .arr s =>
      if s.length = p.length then (if matchDims p s then k else .error .ValueError)
      else if matchDims p.tail s then (if reshapeOk p s then k else .error .ValueError)
      else .error .ValueError
    | _ => .error .AttributeError

/-- `vg.shape.columnize` followed by the rest -/
def columnizeVGK (a : Arg) (p : Pat) (k : Res Unit) : Res Unit :=
  if p.length < 2 then .error .ValueError else
  match a with
  | .arr s =>
    if matchDims p s then k
    else if matchDims p.tail s then (if reshapeOk p s then k else .error .ValueError)
    else .error .ValueError
  | _ => .error .ValueError

def Act.runK (env : Env) (b : Binds) (k : Binds → Res Unit) : Act → Res Unit
  | .check a alts bind =>
    match evalAlts env b alts with
    | .error e => .error e
    | .ok ps => checkAnyK (a.val env) ps (fun r => k (bindTo b bind r))
  | .check1d a alts bind =>
    match evalAlts env b alts with
    | .error e => .error e
    | .ok ps => checkAnyK (atLeast1d (argOf env a)) ps (fun r => k (bindTo b bind r))
  | .colPW a sh =>
    match sh.eval env b with
    | .error e => .error e
    | .ok p => columnizePWK (a.val env) p (k b)
  | .colVG a sh =>
    match sh.eval env b with
    | .error e => .error e
    | .ok p => columnizeVGK (a.val env) p (k b)
  | .atLeast v n =>
    match b.lookup v with
    | some (.one d) => if d < n then .error .ValueError else k b
    | _ => .error .TypeError
  | .flatSize a n =>
    match argOf env a with
    | .arr s => if prod s = n then k b else .error .ValueError
    | _ => .error .ValueError
  | .sizeOrShape a n sh =>
    match argOf env a with
    | .arr s => if prod s = n ∨ s = sh then k b else .error .ValueError
    | _ => .error .ValueError
  | .untranslated => .error .Other

def run (env : Env) (fl : Flags) : Sig → Binds → Res Unit
  | [], _ => .ok ()
  | st :: rest, b =>
    if st.guard.holds env fl then st.act.runK env b (fun b' => run env fl rest b')
    else run env fl rest b

/-- outcome of the validation prefix of a callable on the given argument shapes; `self`-dimensions
    (`self.num_e`, …) are passed as initial bindings, the truth values of non-shape conditions as flags -/
def outcome (sig : Sig) (env : Env) (self : Binds := []) (fl : Flags := []) : Res Unit := run env fl sig self

/-- the callable's validation prefix lets these argument shapes through -/
def isOk : Res Unit → Bool
  | .ok _ => true
  | .error _ => false

def acceptsB (sig : Sig) (env : Env) (self : Binds := []) (fl : Flags := []) : Bool := isOk (outcome sig env self fl)

def accepts (sig : Sig) (env : Env) (self : Binds := []) (fl : Flags := []) : Prop := acceptsB sig env self fl = true

instance (sig : Sig) (env : Env) (self : Binds) (fl : Flags) : Decidable (accepts sig env self fl) := by
  unfold accepts; infer_instance

end PW.Shape
