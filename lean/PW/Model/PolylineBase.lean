/-
  PW.Model.PolylineBase — the Polyline value and its edge structure
  (polliwog/polyline/_polyline_object.py constructor + properties, polliwog/polyline/_edges.py).
  Shared by the models of C06–C09, C14, C17, C19.  Mathlib-free.

    Polyline(v, is_closed)       ↦ `Polyline K` = { v : List (V3 K), closed : Bool }
    edges_for(num_v, is_closed)  ↦ `edgesFor`
    .e / .num_v / .num_e         ↦ `edges` / `numV` / `numE`
    .segments                    ↦ `segments`        (pairs of endpoints, `v[e]`)
    .segment_vectors             ↦ `segmentVectors`
-/
import PW.Vec
import PW.Err

namespace PW

structure Polyline (K : Type) where
  v : List (V3 K)
  closed : Bool
deriving Repr, Inhabited

/-- `edges_for`: `num_e = num_v if closed else num_v - 1`; edge `i` joins `i` and `i+1`, the last edge of a
    closed polyline goes back to 0.  (`num_v = 0`, open: Python computes `num_e = -1`, `np.arange(-1)` is
    empty, so the result is the empty edge array as well.) -/
def edgesFor (numV : Nat) (closed : Bool) : List (Nat × Nat) :=
  let numE := if closed then numV else numV - 1
  (List.range numE).map fun i => (i, if closed && i + 1 == numE then 0 else i + 1)

namespace Polyline
variable {K : Type}

def numV (p : Polyline K) : Nat := p.v.length
def edges (p : Polyline K) : List (Nat × Nat) := edgesFor p.numV p.closed
def numE (p : Polyline K) : Nat := p.edges.length

/-- `self.v[self.e]`: consecutive pairs, plus (last, first) when closed -/
def segments (p : Polyline K) : List (V3 K × V3 K) :=
  match p.v with
  | [] => []
  | a :: rest => List.zip (a :: rest) (if p.closed then rest ++ [a] else rest)

def segmentVectors [Sub K] (p : Polyline K) : List (V3 K) :=
  p.segments.map fun (a, b) => b - a

end Polyline
end PW
