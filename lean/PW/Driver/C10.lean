/- driver ops for C10 (Rodrigues conversions)

   rod.fwd <jac 0/1> <ndim d…> <n x…>                       → ok 3 3 R(9) [3 9 J(27)]
   rod.inv <jac 0/1> <ndim d…> <n x…> <P = u·v, 9 numbers>  → ok 3 1 w(3) [9 3 J(27)]
   rod.cv2 <jac 0/1> <ndim d…> <n x…> <P, 9 numbers>        → ok mat … | ok vec …
-/
import PW.Driver.Core
import PW.Model.Rodrigues

namespace PW.Driver

variable {K : Type} [Add K] [Sub K] [Mul K] [Div K] [Neg K] [OfNat K 0] [OfNat K 1]
  [LT K] [LE K] [DecidableLT K] [DecidableLE K] [BEq K] [Sqrt K] [Trig K] [DriverNum K]

def rodEpsK : K := DriverNum.ofRat (mkRat rodEpsND.1 rodEpsND.2)
def rodThrK : K := DriverNum.ofRat (mkRat rodSinThreshND.1 rodSinThreshND.2)

def ndarr : Rd (NdArr K) := do
  let sh ← listOf nat
  let d ← listOf (num (K := K))
  pure ⟨sh, d⟩

def rFwd (jac : Bool) (o : FwdOut K) : List String :=
  ["3", "3"] ++ rM3 o.R ++ (if jac then ["3", "9"] ++ o.jac.toList39.map rNum else [])

def rInv (jac : Bool) (o : InvOut K) : List String :=
  ["3", "1"] ++ rV3 o.w ++ (if jac then ["9", "3"] ++ o.jac.toList93.map rNum else [])

def c10Ops : List (String × Handler) := [
  ("rod.fwd", do
    let jac ← bool; let a : NdArr K ← ndarr
    pure (finish ((rodFwdArr rodEpsK a).map (rFwd jac)))),
  ("rod.inv", do
    let jac ← bool; let a : NdArr K ← ndarr; let p : M3 K ← m3
    pure (finish ((rodInvArr rodThrK (fun _ => p) a).map (rInv jac)))),
  ("rod.cv2", do
    let jac ← bool; let a : NdArr K ← ndarr; let p : M3 K ← m3
    pure (finish ((cv2Rodrigues rodEpsK rodThrK (fun _ => p) a).map fun
      | .mat o => "mat" :: rFwd jac o
      | .vec o => "vec" :: rInv jac o)))
]

end PW.Driver
