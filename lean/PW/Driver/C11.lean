/- driver ops for C11 (rotation builders, affine builders, apply, compose) -/
import PW.Driver.Core
import PW.Model.Affine
import PW.Model.Rotation

namespace PW.Driver

variable {K : Type} [Add K] [Sub K] [Mul K] [Div K] [Neg K] [OfNat K 0] [OfNat K 1] [OfNat K 180]
  [LT K] [LE K] [DecidableLT K] [DecidableLE K] [BEq K] [Sqrt K] [Trig K] [DriverNum K]

def c11AxisOfNat : Nat → EulerAxis
  | 0 => .x
  | 1 => .y
  | 2 => .z
  | _ => .other

def c11Pair (p : M4 K × M4 K) : List String := rM4 p.1 ++ rM4 p.2

def c11Ops : List (String × Handler) := [
  -- transform_matrix_for_rotation(R, ret_inverse_matrix=True) ++ the ret_inverse_matrix=False result
  ("c11.aff.rot", do
    let r : M3 K ← m3
    let p := rotationMatrix r
    pure (okLine (c11Pair p ++ rM4 p.1))),
  ("c11.aff.trans", do
    let v : V3 K ← v3
    let p := translationMatrix v
    pure (okLine (c11Pair p ++ rM4 p.1))),
  ("c11.aff.nuscale", do
    let allow ← bool
    let x : K ← num; let y : K ← num; let z : K ← num
    pure (finish ((nonUniformScaleMatrix x y z allow).map fun p => c11Pair p ++ rM4 p.1))),
  ("c11.aff.uscale", do
    let allow ← bool
    let s : K ← num
    pure (finish ((uniformScaleMatrix s allow).map fun p => c11Pair p ++ rM4 p.1))),
  -- apply_transform(M)(points, discard_z_coord, treat_input_as_vector): count + coordinates row by row
  ("c11.apply", do
    let discardZ ← bool; let asVector ← bool
    let m : M4 K ← m4
    let pts ← listOf (v3 (K := K))
    pure (okLine (rList (fun p => (applyTransformOut m p discardZ asVector).map rNum) pts))),
  ("c11.compose", do
    let ms ← listOf (m4 (K := K))
    pure (okLine (rM4 (composeTransforms ms)))),
  -- euler: <deg> <n axes> a… <n angles> θ…
  ("c11.euler", do
    let deg ← bool
    let axes ← listOf nat
    let angles ← listOf (num (K := K))
    pure (okLine (rM3 (euler angles (axes.map c11AxisOfNat) deg)))),
  ("c11.uplook", do
    let up : V3 K ← v3; let look : V3 K ← v3
    pure (finish ((rotationFromUpAndLook up look).map rM3)))
]

end PW.Driver
