/- driver ops for C05 (plane point queries) -/
import PW.Driver.Core
import PW.Model.Plane

namespace PW.Driver

variable {K : Type} [Add K] [Sub K] [Mul K] [Div K] [Neg K] [OfNat K 0] [OfNat K 1]
  [LT K] [LE K] [DecidableLT K] [DecidableLE K] [DriverNum K]

def plane : Rd (Plane K) := do
  let r ← v3; let n ← v3; pure ⟨r, n⟩

def c05Ops : List (String × Handler) := [
  ("plane.equation", do let pl : Plane K ← plane; pure (okLine (rV4 pl.equation))),
  ("plane.canonical", do let pl : Plane K ← plane; pure (okLine (rV3 pl.canonicalPoint))),
  ("plane.flipped", do let pl : Plane K ← plane; let f := pl.flipped; pure (okLine (rV3 f.ref ++ rV3 f.n))),
  ("plane.sd", do
    let pl : Plane K ← plane; let pts ← listOf v3
    pure (okLine (rList (fun p => [rNum (pl.signedDistance p)]) pts))),
  ("plane.dist", do
    let pl : Plane K ← plane; let pts ← listOf v3
    pure (okLine (rList (fun p => [rNum (pl.distance p)]) pts))),
  ("plane.sign", do
    let pl : Plane K ← plane; let pts ← listOf v3
    pure (okLine (rList (fun p => [rInt (pl.sign p)]) pts))),
  ("plane.front", do
    let inv ← bool; let pl : Plane K ← plane; let pts ← listOf v3
    pure (okLine (rList (fun i => [rNat i]) (pl.pointsInFrontIdx inv pts)))),
  ("plane.onfront", do
    let inv ← bool; let pl : Plane K ← plane; let pts ← listOf v3
    pure (okLine (rList (fun i => [rNat i]) (pl.pointsOnOrInFrontIdx inv pts)))),
  ("plane.frontpts", do
    let inv ← bool; let pl : Plane K ← plane; let pts ← listOf v3
    pure (okLine (rList rV3 (pl.pointsInFront inv pts)))),
  ("plane.onfrontpts", do
    let inv ← bool; let pl : Plane K ← plane; let pts ← listOf v3
    pure (okLine (rList rV3 (pl.pointsOnOrInFront inv pts)))),
  ("plane.project", do
    let pl : Plane K ← plane; let pts ← listOf v3
    pure (okLine (rList (fun p => rV3 (pl.projectPoint p)) pts))),
  ("plane.mirror", do
    let pl : Plane K ← plane; let pts ← listOf v3
    pure (okLine (rList (fun p => rV3 (pl.mirrorPoint p)) pts))),
  -- module-level functions, one equation per point (zip) ----------------------------------------
  ("fn.sd", do
    let pts ← listOf (v3 (K := K)); let eqs ← listOf (v4 (K := K))
    pure (okLine (rList (fun x => [rNum x]) (List.zipWith signedDistanceEq pts eqs)))),
  ("fn.project", do
    let pts ← listOf (v3 (K := K)); let eqs ← listOf (v4 (K := K))
    pure (okLine (rList rV3 (List.zipWith projectPointToPlane pts eqs)))),
  ("fn.mirror", do
    let pts ← listOf (v3 (K := K)); let eqs ← listOf (v4 (K := K))
    pure (okLine (rList rV3 (List.zipWith mirrorPointAcrossPlane pts eqs)))),
  -- one equation, many points (map)
  ("fn1.sd", do
    let e ← v4 (K := K); let pts ← listOf (v3 (K := K))
    pure (okLine (rList (fun p => [rNum (signedDistanceEq p e)]) pts))),
  ("fn1.project", do
    let e ← v4 (K := K); let pts ← listOf (v3 (K := K))
    pure (okLine (rList (fun p => rV3 (projectPointToPlane p e)) pts))),
  ("fn1.mirror", do
    let e ← v4 (K := K); let pts ← listOf (v3 (K := K))
    pure (okLine (rList (fun p => rV3 (mirrorPointAcrossPlane p e)) pts)))
]

end PW.Driver
