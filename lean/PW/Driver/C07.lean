/- driver ops for C07 (closest point of segments, Polyline.nearest, sliced_at_points, aligned_along_subsegment) -/
import PW.Driver.Core
import PW.Model.Nearest

namespace PW.Driver

open PW.Nearest

variable {K : Type} [Add K] [Sub K] [Mul K] [Div K] [Neg K] [OfNat K 0] [OfNat K 1]
  [LT K] [LE K] [DecidableLT K] [DecidableLE K] [Sqrt K] [DriverNum K]

def c07Polyline : Rd (Polyline K) := do
  let closed ← bool; let vs ← listOf v3; pure ⟨vs, closed⟩

/-- `tuple|bare`, then per returned array a tag (`P1`/`Pk n`, `i1`/`Ik n`, `f1`/`Fk n`) and its values -/
def c07RenderRet (r : Ret K) : List String :=
  let pts := if r.single then "P1" :: r.points.flatMap rV3 else "Pk" :: rList rV3 r.points
  let ints (l : List Nat) := if r.single then "i1" :: l.map rNat else "Ik" :: rList (fun i => [rNat i]) l
  let nums (l : List K) := if r.single then "f1" :: l.map rNum else "Fk" :: rList (fun x => [rNum x]) l
  [if r.tuple then "tuple" else "bare"] ++ pts
    ++ (match r.indices with | some l => ints l | none => [])
    ++ (match r.dists with | some l => nums l | none => [])
    ++ (match r.ts with | some l => nums l | none => [])

/-- the all-pairs table (per query, per segment: point, t, distance) used by the abstract comparison -/
def c07RenderCands (pl : Polyline K) (qs : List (V3 K)) : List String :=
  ["cands", rNat qs.length, rNat pl.segments.length] ++
    qs.flatMap fun q => pl.segments.flatMap fun s =>
      let c := cand sqrt q s
      rV3 c.point ++ [rNum c.t, rNum c.dist]

def c07RenderPolyline (p : Polyline K) : List String :=
  rBool p.closed :: rList rV3 p.v

/-- the double `1e-08` (default `atol` of `index_of_vertex`) -/
def c07Atol : K := DriverNum.ofRat ((1 : Rat) / 100000000)

def c07Ops : List (String × Handler) := [
  ("c07.closest", do
    let rt ← bool
    let qs ← listOf (v3 (K := K)); let as ← listOf (v3 (K := K)); let vs ← listOf (v3 (K := K))
    pure (finish ((closestPointsOfLineSegments qs as vs).map fun l =>
      (if rt then ["tuple"] else ["bare"]) ++ rList (fun x => rV3 x.1) l
        ++ (if rt then rList (fun x => [rNum x.2]) l else [])))),
  ("c07.ison", do
    let qs ← listOf (v3 (K := K)); let as ← listOf (v3 (K := K)); let vs ← listOf (v3 (K := K))
    let eps : K ← num
    pure (finish ((arePointsOnLineSegments qs as vs eps).map fun l => rList (fun b => [rBool b]) l))),
  ("c07.nearest", do
    let si ← bool; let sd ← bool; let st ← bool
    let pl : Polyline K ← c07Polyline
    let single ← bool
    let qs ← listOf (v3 (K := K))
    let q : Res (Query K) :=
      if single then (match qs with | [x] => .ok (.one x) | _ => .error .Other) else .ok (.many qs)
    pure (finish (q.bind fun q => (nearest pl q si sd st).map fun r =>
      c07RenderRet r ++ c07RenderCands pl qs))),
  ("c07.slicedpts", do
    let pl : Polyline K ← c07Polyline
    let a ← v3; let b ← v3
    pure (finish ((slicedAtPoints pl a b c07Atol).map c07RenderPolyline))),
  ("c07.aligned", do
    let pl : Polyline K ← c07Polyline
    let a ← v3; let b ← v3
    pure (finish ((alignedAlongSubsegment pl a b c07Atol).map c07RenderPolyline)))
]

end PW.Driver
