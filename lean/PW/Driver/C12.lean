/- driver ops for C12 (viewing matrices): the hand model and the definitions generated from the source -/
import PW.Driver.Core
import PW.Model.Affine
import PW.Model.Viewing
import PW.Gen.Viewing

namespace PW.Driver

variable {K : Type} [Add K] [Sub K] [Mul K] [Div K] [Neg K] [OfNat K 0] [OfNat K 1] [OfNat K 2]
  [LT K] [LE K] [DecidableLT K] [DecidableLE K] [BEq K] [Sqrt K] [DriverNum K]

def c12Ops : List (String × Handler) := [
  ("c12.view.w2v", do
    let inv ← bool
    let pos : V3 K ← v3; let tgt : V3 K ← v3; let up : V3 K ← v3
    pure (okLine (rM4 (worldToView pos tgt up inv)))),
  ("c12.view.ortho", do
    let inv ← bool
    let w : K ← num; let h : K ← num; let n : K ← num; let f : K ← num
    pure (finish ((viewToOrtho w h n f inv).map rM4))),
  -- near / far left to the defaults of the source (as extracted by the translator)
  ("c12.view.ortho.defaults", do
    let inv ← bool
    let w : K ← num; let h : K ← num
    let n : K := DriverNum.ofRat PW.Gen.orthoNearDefault
    let f : K := DriverNum.ofRat PW.Gen.orthoFarDefault
    pure (finish ((viewToOrtho w h n f inv).map rM4))),
  ("c12.view.viewport", do
    let inv ← bool
    let xr : K ← num; let yb : K ← num; let xl : K ← num; let yt : K ← num
    pure (finish ((viewportTransform xr yb xl yt inv).map rM4))),
  ("c12.view.viewport.defaults", do
    let inv ← bool
    let xr : K ← num; let yb : K ← num
    let xl : K := DriverNum.ofRat PW.Gen.viewportXLeftDefault
    let yt : K := DriverNum.ofRat PW.Gen.viewportYTopDefault
    pure (finish ((viewportTransform xr yb xl yt inv).map rM4))),
  ("c12.view.canvas", do
    let inv ← bool
    let w : K ← num; let h : K ← num
    let pos : V3 K ← v3; let tgt : V3 K ← v3
    let zoom : K ← num
    let n : K := DriverNum.ofRat PW.Gen.orthoNearDefault
    let f : K := DriverNum.ofRat PW.Gen.orthoFarDefault
    pure (finish ((worldToCanvas w h pos tgt zoom n f inv).map rM4))),
  -- the generated closed forms, executed as they are (no guards: a zero divisor shows as nan / inf)
  ("c12.gen.ortho", do
    let inv ← bool
    let w : K ← num; let h : K ← num; let n : K ← num; let f : K ← num
    pure (okLine (rM4 (composeTransforms (if inv then PW.Gen.orthoInv w h n f else PW.Gen.orthoFwd w h n f))))),
  ("c12.gen.viewport", do
    let inv ← bool
    let xr : K ← num; let yb : K ← num; let xl : K ← num; let yt : K ← num
    pure (okLine (rM4 (composeTransforms
      (if inv then PW.Gen.viewportInv xr yb xl yt else PW.Gen.viewportFwd xr yb xl yt)))))
]

end PW.Driver
