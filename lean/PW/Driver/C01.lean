/- driver ops for the mesh slicer (C01, C02) -/
import PW.Driver.Core
import PW.Model.Slicing
import PW.Gen.Slicer

namespace PW.Driver

open PW.Slicing

variable {K : Type} [Add K] [Sub K] [Mul K] [Div K] [Neg K] [OfNat K 0] [OfNat K 1]
  [LT K] [LE K] [DecidableLT K] [DecidableLE K] [BEq K] [DriverNum K]

def face : Rd (T3 Nat) := do
  let a ← nat; let b ← nat; let c ← nat; pure ⟨a, b, c⟩

def rT3 {α : Type} (f : α → List String) (t : T3 α) : List String := f t.a ++ f t.b ++ f t.c

/-- the constants the source uses, as the doubles Python sees -/
def tolK : K := DriverNum.ofRat PW.Gen.Slicer.tolMerge
def epsK : K := DriverNum.ofRat PW.Gen.Slicer.denomGuard

def c01Ops : List (String × Handler) := [
  -- slice <o> <n> <verts> <faces> <hasMask> [<mask>]
  ("slice", do
    let o ← v3 (K := K); let n ← v3 (K := K)
    let verts ← listOf (v3 (K := K))
    let faces ← listOf face
    let hasMask ← bool
    let m ← if hasMask then (do let l ← listOf bool; pure (some l)) else pure none
    let mask := maskOf faces.length m
    let r := sliceMesh (tolK (K := K)) epsK verts faces o n mask
    pure (okLine (rList rV3 r.verts ++ rList (rT3 fun i => [rNat i]) r.faces ++ rList (fun i => [rNat i]) r.mapping))),
  -- slice.face <sel> <o> <n> <p0 p1 p2>  : the per-face kernel
  ("slice.face", do
    let sel ← bool
    let o ← v3 (K := K); let n ← v3 (K := K)
    let a ← v3 (K := K); let b ← v3 (K := K); let c ← v3 (K := K)
    let ts := sliceFacePos (tolK (K := K)) epsK o n ⟨a, b, c⟩ sel
    pure (okLine (rList (rT3 rV3) ts))),
  -- slice.kinds <o> <n> <verts> <faces> <mask> : classification of every face (branch coverage)
  ("slice.kinds", do
    let o ← v3 (K := K); let n ← v3 (K := K)
    let verts ← listOf (v3 (K := K))
    let faces ← listOf face
    let mask ← listOf bool
    let vs : List Int := vsigns (tolK (K := K)) o n verts
    let ks := faces.zipIdx.map fun (f, i) => classifyFace (f.map fun j => vs.getD j 0) (mask.getD i true)
    pure (okLine (ks.map fun
      | .keep => "keep" | .drop => "drop" | .quad c => s!"quad{c}" | .tri c => s!"tri{c}")))
]

end PW.Driver
