/- driver ops for C04 (CoordinateManager).  Stateless: one line carries a whole script.

     cm.run <n> op…
       op : tag <name> | step <step as in ct.run> | set <name> <count> <v3>… | setbad <name>
            | get <name> | do <pts> <from> <to>
     answer: ok <per op: N | E:<Class> | numbers (stacks are preceded by their count)>
-/
import PW.Driver.C03
import PW.Model.CoordMgr

namespace PW.Driver

open PW.CT PW.CM

variable {K : Type} [Add K] [Sub K] [Mul K] [Div K] [Neg K] [OfNat K 0] [OfNat K 1]
  [LT K] [LE K] [DecidableLT K] [DecidableLE K] [BEq K] [DriverNum K]

def cmOp : Rd (Op K) := do
  let t ← tok
  if t = "tag" then do let n ← tok; pure (.tagAs n)
  else if t = "step" then do let c ← ctStepCmd; pure (.step c)
  else if t = "set" then do let n ← tok; let l ← listOf v3; pure (.set n l)
  else if t = "setbad" then do let n ← tok; pure (.setBad n)
  else if t = "get" then do let n ← tok; pure (.get n)
  else if t = "do" then do let p ← ctPtsArg; let f ← tok; let g ← tok; pure (.doT p f g)
  else throw s!"bad op {t}"

def cmROut : Out K → List String
  | .none => ["N"]
  | .err e => ["E:" ++ e.name]
  | .pts a => ctRArg3 a

def c04Ops : List (String × Handler) := [
  ("cm.run", do
    let ops ← listOf (cmOp (K := K))
    let r := run CM.empty ops
    pure (okLine (r.2.flatMap cmROut)))
]

end PW.Driver
