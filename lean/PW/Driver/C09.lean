/-
  driver ops for C09 (Polyline as an immutable value: operation programs).

  One line holds a whole program, because the driver is stateless between lines:

      c09.prog <nops> <op> <args…> <op> <args…> …

  Every op names the polylines it works on by handle = position in the table of polyline values created
  so far (results of earlier ops).  After every op the model prints the op's own answer and then the value
  of *every* polyline in the table (closed flag, vertices, edges, `ro ro` = both arrays read-only); the
  harness re-reads every live Polyline object after every op and must see exactly these values.
  An op that raises answers `err <Class>` inline and leaves the table unchanged.
-/
import PW.Driver.Core
import PW.Model.PolylineOps

namespace PW.Driver

open PW.NP

variable {K : Type} [Add K] [Sub K] [Mul K] [Div K] [Neg K] [OfNat K 0] [OfNat K 1]
  [LT K] [LE K] [DecidableLT K] [DecidableLE K] [BEq K] [Sqrt K] [Inhabited K] [DriverNum K]

structure ProgState (K : Type) where
  polys : Array (Polyline K) := #[]
  out : Array String := #[]

namespace ProgState

def emit (st : ProgState K) (toks : List String) : ProgState K :=
  { st with out := st.out ++ toks.toArray }

def push (st : ProgState K) (p : Polyline K) : ProgState K :=
  { st with polys := st.polys.push p }

def emitErr (st : ProgState K) (e : Err) : ProgState K := st.emit ["err", e.name]

end ProgState

def dumpPoly (p : Polyline K) : List String :=
  [rBool p.closed] ++ rList rV3 p.v ++ rList (fun e => [rNat e.1, rNat e.2]) p.edges ++ ["ro", "ro"]

def dumpAll (st : ProgState K) : ProgState K :=
  st.emit ("#" :: rNat st.polys.size :: st.polys.toList.flatMap dumpPoly)

def handle (st : ProgState K) : Rd (Polyline K) := do
  let h ← nat
  match st.polys[h]? with
  | some p => pure p
  | none => throw s!"bad handle {h}"

def rNats (l : List Nat) : List String := rList (fun i => [rNat i]) l

/-- one op: read its arguments, answer, extend the table -/
def progStep (st : ProgState K) : Rd (ProgState K) := do
  let op ← tok
  let st := st.emit ["|" ++ op]
  match op with
  | "new" =>
    let closed ← bool
    let v ← listOf (v3 (K := K))
    pure ((st.push ⟨v, closed⟩).emit ["fresh"])
  | "flipped" =>
    let p ← handle st
    pure ((st.push p.flipped).emit ["fresh"])
  | "flipped_if" =>
    let p ← handle st
    let c ← bool
    pure ((st.push (p.flippedIf c)).emit [if c then "fresh" else "same"])
  | "rolled" =>
    let p ← handle st
    let index ← int
    let ret ← bool
    match p.rolled index with
    | .error e => pure (st.emitErr e)
    | .ok (q, mapping) => pure ((st.push q).emit ("fresh" :: (if ret then rNats mapping else [])))
  | "slice" =>
    let p ← handle st
    let start ← int
    let stop ← int
    match p.slicedAtIndices start stop with
    | .error e => pure (st.emitErr e)
    | .ok q => pure ((st.push q).emit ["fresh"])
  | "sectioned" =>
    let p ← handle st
    let bps ← listOf int
    match p.sectioned bps with
    | .error e => pure (st.emitErr e)
    | .ok qs =>
      let st := st.emit (rNat qs.length :: qs.map fun _ => "fresh")
      pure (qs.foldl (fun s q => s.push q) st)
  | "join" =>
    let closed ← bool
    let ps ← listOf (handle st)
    match Polyline.join ps closed with
    | .error e => pure (st.emitErr e)
    | .ok q => pure ((st.push q).emit ["fresh"])
  | "insert" =>
    let p ← handle st
    let ret ← bool
    let pts ← listOf (v3 (K := K))
    let idx ← listOf int
    match p.withInsertions pts idx with
    | .error e => pure (st.emitErr e)
    | .ok (q, orig, ins) =>
      pure ((st.push q).emit ("fresh" :: (if ret then rNats orig ++ rNats ins else [])))
  | "index_of" =>
    let p ← handle st
    let pt ← v3 (K := K)
    let atol ← num (K := K)
    match p.indexOfVertex pt atol with
    | .error e => pure (st.emitErr e)
    | .ok i => pure (st.emit [rNat i])
  | "aligned" =>
    let p ← handle st
    let vec ← v3 (K := K)
    match p.alignedWith vec with
    | .error e => pure (st.emitErr e)
    | .ok (q, same) => pure ((st.push q).emit [if same then "same" else "fresh"])
  | "apex" =>
    let p ← handle st
    let axis ← v3 (K := K)
    match p.apex axis with
    | .error e => pure (st.emitErr e)
    | .ok q => pure (st.emit (rV3 q ++ ["fresh"]))
  | "bbox" =>
    let p ← handle st
    match p.boundingBox with
    | .error e => pure (st.emitErr e)
    | .ok none => pure (st.emit ["none"])
    | .ok (some (o, s)) => pure (st.emit (rV3 o ++ rV3 s))
  | "len" =>
    let p ← handle st
    pure (st.emit [rNat p.len, rNat p.numV, rNat p.numE])
  | _ => throw s!"unknown program op {op}"

def progRun : Nat → ProgState K → Rd (ProgState K)
  | 0, st => pure st
  | k + 1, st => do
    let st ← progStep st
    progRun k (dumpAll st)

def c09Ops : List (String × Handler) := [
  ("c09.prog", do
    let n ← nat
    let st ← progRun n ({} : ProgState K)
    pure (okLine st.out.toList))
]

end PW.Driver
