/- driver ops for C03 (CompositeTransform).  The driver is stateless: one line carries the whole history
   and the queries made on the resulting object.

     ct.run <n> step…  <q> query…
       step  : A <fwd m4> <inv m4>      append_transform(forward, reverse)
               AI <fwd m4> <inv m4>     append_transform(forward); inv = what np.linalg.inv returned
               AE <fwd m4>              append_transform(forward); np.linalg.inv raised LinAlgError
               U <s> <allow>            uniform_scale
               N <x> <y> <z> <allow>    non_uniform_scale
               C <factor>               convert_units (factor from ounce)
               F <dim>                  flip
               T <v3>                   translate
               R <m3>                   rotate (3×3 given, or produced from the Rodrigues vector)
               O <m3> | OE              reorient (matrix from rotation_from_up_and_look | it raised ValueError)
       query : M <range> <reverse>                                  transform_matrix_for
               P <range> <reverse> <discard_z> <as_vector> <pts>    __call__
       range : -  |  r <start> <stop>
       pts   : S <v3>  |  K <count> <v3>…
     answer: ok <per step: index | E:<Class>> … <per query: numbers (stacks are preceded by their count)>
-/
import PW.Driver.Core
import PW.Model.Composite

namespace PW.Driver

open PW.CT

variable {K : Type} [Add K] [Sub K] [Mul K] [Div K] [Neg K] [OfNat K 0] [OfNat K 1]
  [LT K] [LE K] [DecidableLT K] [DecidableLE K] [BEq K] [DriverNum K]

def ctStepCmd : Rd (StepCmd K) := do
  let t ← tok
  if t = "A" then do let f ← m4; let i ← m4; pure (.appendTransform f i)
  else if t = "AI" then do let f ← m4; let i ← m4; pure (.appendTransformAuto f (.ok i))
  else if t = "AE" then do let f ← m4; pure (.appendTransformAuto f (.error .LinAlgError))
  else if t = "U" then do let s ← num; let a ← bool; pure (.uniformScale s a)
  else if t = "N" then do let x ← num; let y ← num; let z ← num; let a ← bool; pure (.nonUniformScale x y z a)
  else if t = "C" then do let s ← num; pure (.convertUnits s)
  else if t = "F" then do let d ← int; pure (.flip d)
  else if t = "T" then do let v ← v3; pure (.translate v)
  else if t = "R" then do let r ← m3; pure (.rotate r)
  else if t = "O" then do let r ← m3; pure (.reorient (.ok r))
  else if t = "OE" then pure (.reorient (.error .ValueError))
  else throw s!"bad step {t}"

def ctFromRange : Rd (Option (Int × Int)) := do
  let t ← tok
  if t = "-" then pure none
  else if t = "r" then do let a ← int; let b ← int; pure (some (a, b))
  else throw s!"bad range {t}"

def ctPtsArg : Rd (Arg (V3 K)) := do
  let t ← tok
  if t = "S" then do let p ← v3; pure (.one p)
  else if t = "K" then do let l ← listOf v3; pure (.many l)
  else throw s!"bad points {t}"

def ctRArg3 : Arg (V3 K) → List String
  | .one p => rV3 p
  | .many l => rList rV3 l

def ctRArg2 : Arg (K × K) → List String
  | .one p => [rNum p.1, rNum p.2]
  | .many l => rList (fun p => [rNum p.1, rNum p.2]) l

def ctRIdx : Res Nat → String
  | .ok i => rNat i
  | .error e => "E:" ++ e.name

def ctQuery : Rd (Composite K → List String) := do
  let t ← tok
  if t = "M" then do
    let r ← ctFromRange; let rev ← bool
    pure fun c => rM4 (c.transformMatrixFor r rev)
  else if t = "P" then do
    let r ← ctFromRange; let rev ← bool; let dz ← bool; let av ← bool; let pts ← ctPtsArg
    pure fun c => if dz then ctRArg2 (c.callDiscardZ pts r rev av) else ctRArg3 (c.call pts r rev av)
  else throw s!"bad query {t}"

def c03Ops : List (String × Handler) := [
  ("ct.run", do
    let cmds ← listOf (ctStepCmd (K := K))
    let qs ← listOf (ctQuery (K := K))
    let r := Composite.exec [] cmds
    pure (okLine (r.2.map ctRIdx ++ qs.flatMap (fun q => q r.1))))
]

end PW.Driver
