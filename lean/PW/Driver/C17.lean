/- driver ops for C17 (Box, Polyline.bounding_box, pointcloud.extent / percentile) -/
import PW.Driver.Core
import PW.Model.Box
import PW.Model.Pointcloud

namespace PW.Driver

variable {K : Type} [Add K] [Sub K] [Mul K] [Div K] [Neg K] [OfNat K 0] [OfNat K 1]
  [LT K] [LE K] [DecidableLT K] [DecidableLE K] [Sqrt K] [Rounding K] [DriverNum K]

def rBox17 (b : Box K) : List String := rV3 b.origin ++ rV3 b.size

def rPlane17 (p : Plane K) : List String := rV3 p.ref ++ rV3 p.n

def c17Ops : List (String × Handler) := [
  ("box.ctor", do
    let o ← v3 (K := K); let s ← v3 (K := K)
    pure (finish ((Box.mk? o s).map rBox17))),
  ("box.from_points", do
    let pts ← listOf (v3 (K := K))
    pure (finish ((Box.fromPoints pts).map rBox17))),
  ("box.acc", do
    let o ← v3 (K := K); let s ← v3 (K := K)
    pure (finish ((Box.mk? o s).map fun b =>
      (b.ranges.flatMap fun r => [rNum r.1, rNum r.2]) ++
      [b.minX, b.minY, b.minZ, b.maxX, b.maxY, b.maxZ, b.midX, b.midY, b.midZ,
       b.width, b.height, b.depth].map rNum ++
      rV3 b.centerPoint ++ rV3 b.floorPoint ++ [rNum b.volume, rNum b.surfaceArea] ++
      rList rV3 b.v))),
  ("box.planes", do
    let o ← v3 (K := K); let s ← v3 (K := K)
    pure (finish ((Box.mk? o s).map fun b => b.planes.flatMap rPlane17))),
  ("box.contains", do
    let o ← v3 (K := K); let s ← v3 (K := K); let p ← v3 (K := K); let has ← bool; let atol ← num (K := K)
    pure (finish ((Box.mk? o s).map fun b => [rBool (b.contains p (if has then some atol else none))]))),
  ("polyline.bbox", do
    let pts ← listOf (v3 (K := K))
    pure (finish ((Box.boundingBox (⟨pts, false⟩ : Polyline K)).map fun r =>
      match r with
      | none => ["none"]
      | some b => "box" :: rBox17 b))),
  ("pc.extent", do
    let ret ← bool; let pts ← listOf (v3 (K := K))
    pure (finish ((Pointcloud.extent pts).map fun r =>
      if ret then [rNum r.1, rNat r.2.1, rNat r.2.2] else [rNum r.1]))),
  ("pc.percentile", do
    let tol ← num (K := K); let hundred ← num (K := K)
    let pts ← listOf (v3 (K := K)); let axis ← v3 (K := K); let q ← num (K := K); let c ← num (K := K)
    pure (finish (do
      let r ← Pointcloud.percentile tol pts (Rounding.ofInt (Int.ofNat pts.length)) axis c
      let c' ← Pointcloud.percentileValue (Pointcloud.coordsOnAxis pts axis) q hundred
      pure (rV3 r ++ [rNum c'])))),
  -- when `np.percentile` itself raised there is no `c` to pass: only the error decision is compared
  ("pc.percentile.err", do
    let tol ← num (K := K); let hundred ← num (K := K)
    let pts ← listOf (v3 (K := K)); let axis ← v3 (K := K); let q ← num (K := K)
    pure (finish (do
      let _ ← Pointcloud.percentile tol pts (Rounding.ofInt (Int.ofNat pts.length)) axis q
      let c' ← Pointcloud.percentileValue (Pointcloud.coordsOnAxis pts axis) q hundred
      pure [rNum c'])))
]

end PW.Driver
