/- driver ops for C13 (plane constructors) -/
import PW.Driver.Core
import PW.Model.PlaneCtor

namespace PW.Driver

variable {K : Type} [Add K] [Sub K] [Mul K] [Div K] [Neg K] [OfNat K 0] [OfNat K 1]
  [LT K] [LE K] [DecidableLT K] [DecidableLE K] [Sqrt K] [Trig K] [DriverNum K]

/-- `-1` = None (default decimals) -/
def c13Decimals : Rd (Option Nat) := do
  let i ← int
  pure (if i < 0 then none else some i.toNat)

def c13Tri : Rd (Tri K) := do
  let a ← v3; let b ← v3; let c ← v3; pure ⟨a, b, c⟩

/-- tags the property demands of every constructed plane: float64 normal, read-only arrays, fresh copies -/
def c13PlaneTags : List String := ["dt:f8", "ro", "fresh"]

def c13Plane (r : Res (Plane K)) : String :=
  match r with
  | .ok pl => okLine (c13PlaneTags ++ rV3 pl.ref ++ rV3 pl.n)
  | .error e => errLine e

def c13OptV3 (o : Option (V3 K)) : List String :=
  match o with
  | some v => rV3 v
  | none => ["nan", "nan", "nan"]

def c13OptV4 (o : Option (V4 K)) : List String :=
  match o with
  | some v => rV4 v
  | none => ["nan", "nan", "nan", "nan"]

def c13Ops : List (String × Handler) := [
  ("c13.ctor", do
    let d ← c13Decimals; let r ← v3 (K := K); let n ← v3 (K := K)
    pure (c13Plane (Plane.mk? r n d))),
  ("c13.pn", do
    let d ← c13Decimals; let r ← v3 (K := K); let n ← v3 (K := K)
    pure (c13Plane (Plane.fromPointAndNormal r n d))),
  ("c13.points", do
    let a ← v3 (K := K); let b ← v3 (K := K); let c ← v3 (K := K)
    pure (c13Plane (Plane.fromPoints a b c))),
  ("c13.pv", do
    let d ← c13Decimals; let a ← v3 (K := K); let b ← v3 (K := K); let v ← v3 (K := K)
    pure (c13Plane (Plane.fromPointsAndVector a b v d))),
  ("c13.fit", do
    let pts ← listOf (v3 (K := K)); let ev ← v3 (K := K); let em ← m3 (K := K)
    pure (c13Plane (Plane.fitFromPoints pts ev em))),
  ("c13.cov", do
    let pts ← listOf (v3 (K := K))
    pure (okLine (rM3 (PC.covMatrix pts)))),
  ("c13.centroid", do
    let pts ← listOf (v3 (K := K))
    pure (okLine (rV3 (PC.centroid pts)))),
  ("c13.tilted", do
    let r ← v3 (K := K); let n ← v3 (K := K); let np ← v3 (K := K); let cp ← v3 (K := K)
    pure (c13Plane (Plane.tilted ⟨r, n⟩ np cp))),
  ("c13.const", do
    let which ← tok
    let r : Res (Plane K) :=
      if which = "xy" then Plane.xy? else if which = "xz" then Plane.xz? else Plane.yz?
    pure (c13Plane r)),
  ("c13.decimals", pure (okLine [rNat PC.defaultPositionDecimals, rNat PC.defaultDirectionDecimals])),
  -- module-level functions: stacked = map of the single form -------------------------------------
  ("c13.fn.normal", do
    let nz ← bool; let ts ← listOf (c13Tri (K := K))
    pure (okLine (rList c13OptV3 (ts.map (PC.surfaceNormal nz))))),
  ("c13.fn.normal1", do
    let nz ← bool; let t ← c13Tri (K := K)
    pure (okLine (c13OptV3 (PC.surfaceNormal nz t)))),
  ("c13.fn.equation", do
    let ts ← listOf (c13Tri (K := K))
    pure (okLine (rList c13OptV4 (ts.map PC.planeEquationFromPoints)))),
  ("c13.fn.equation1", do
    let t ← c13Tri (K := K)
    pure (okLine (c13OptV4 (PC.planeEquationFromPoints t)))),
  ("c13.fn.nao", do
    let es ← listOf (v4 (K := K))
    let r := es.map PC.normalAndOffset
    pure (okLine (rList (fun x => rV3 x.1) r ++ rList (fun x => [rNum x.2]) r))),
  ("c13.fn.nao1", do
    let e ← v4 (K := K)
    let r := PC.normalAndOffset e
    pure (okLine (rV3 r.1 ++ [rNum r.2])))
]

end PW.Driver
