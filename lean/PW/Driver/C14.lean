/- driver ops for C14 (plane–line / plane–segment intersections) -/
import PW.Driver.Core
import PW.Model.PlaneXsect

namespace PW.Driver
open PW.Xsect

variable {K : Type} [Add K] [Sub K] [Mul K] [Div K] [Neg K] [OfNat K 0] [OfNat K 1]
  [LT K] [LE K] [DecidableLT K] [DecidableLE K] [BEq K] [DriverNum K]

/-- `None` ↦ `none`; a point ↦ `some x y z` -/
def c14OptPt (o : Option (V3 K)) : List String :=
  match o with
  | none => ["none"]
  | some p => "some" :: rV3 p

/-- stacked row: validity flag + the row (`nan nan nan` when invalid) -/
def c14FlagRow (o : Option (V3 K)) : List String :=
  match o with
  | none => ["F", "nan", "nan", "nan"]
  | some p => "T" :: rV3 p

/-- row without a flag (NaN row when there is no intersection) -/
def c14NanRow (o : Option (V3 K)) : List String :=
  match o with
  | none => ["nan", "nan", "nan"]
  | some p => rV3 p

def c14plane : Rd (Plane K) := do
  let r ← v3; let n ← v3; pure ⟨r, n⟩

def c14Ops : List (String × Handler) := [
  ("xs.line", do
    let pl : Plane K ← c14plane; let pt ← v3; let ray ← v3
    pure (okLine (c14OptPt (pl.lineXsection pt ray)))),
  ("xs.seg", do
    let pl : Plane K ← c14plane; let a ← v3; let b ← v3
    pure (okLine (c14OptPt (pl.lineSegmentXsection a b)))),
  ("xs.lines", do
    let pl : Plane K ← c14plane; let pts ← listOf v3; let rays ← listOf v3
    pure (finish ((pl.lineXsections pts rays).map (rList c14FlagRow)))),
  ("xs.segs", do
    let pl : Plane K ← c14plane; let a ← listOf v3; let b ← listOf v3
    pure (finish ((pl.lineSegmentXsections a b).map (rList c14FlagRow)))),
  -- intersect_segment_with_plane: `big` (np.finfo(float64).max) is sent by the harness
  ("xs.isp1", do
    let big : K ← num; let s ← v3; let v ← v3; let q ← v3; let n ← v3
    pure (okLine (c14NanRow (intersectSegmentWithPlane big s v q n)))),
  ("xs.isp", do
    let big : K ← num; let s ← listOf v3; let v ← listOf v3; let q ← listOf v3; let n ← listOf v3
    pure (finish ((intersectSegmentsWithPlanes big s v q n).map (rList c14NanRow)))),
  ("xs.poly", do
    let closed ← bool; let pl : Plane K ← c14plane; let vs ← listOf v3
    let p : Polyline K := ⟨vs, closed⟩
    let r := p.intersectPlane pl
    pure (okLine (rList (fun (e : Nat × Option (V3 K)) => rNat e.1 :: c14NanRow e.2) r)))
]

end PW.Driver
