/- driver ops for C06 (Polyline.sliced_by_plane / slice_open_polyline_by_plane) -/
import PW.Driver.Core
import PW.Model.SliceByPlane

namespace PW.Driver
open PW.SBP

variable {K : Type} [Add K] [Sub K] [Mul K] [Div K] [Neg K] [OfNat K 0] [OfNat K 1]
  [LT K] [LE K] [DecidableLT K] [DecidableLE K] [DriverNum K]

def c06Plane : Rd (Plane K) := do
  let r ← v3; let n ← v3; pure ⟨r, n⟩

def c06Row (r : Option (V3 K)) : List String :=
  match r with
  | some v => rV3 v
  | none => ["nan", "nan", "nan"]

def c06Sliced (r : Res (List (V3 K) × Bool)) : String :=
  match r with
  | .ok (v, c) => okLine (rBool c :: rList rV3 v)
  | .error e => errLine e

/-- `<closed> <plane> <vertices>` -/
def c06Args : Rd (Bool × Plane K × List (V3 K)) := do
  let c ← bool; let pl : Plane K ← c06Plane; let vs ← listOf v3; pure (c, pl, vs)

/-- `<sign> <signed distance> <x y z>` -/
def c06Given : Rd (GivenVertex K) := do
  let s ← int; let d ← num; let v ← v3; pure ⟨v, s, d⟩

def c06Ops : List (String × Handler) := [
  -- Polyline(v, is_closed).sliced_by_plane(plane): code-shaped model
  ("slice.poly", do
    let (c, pl, vs) ← c06Args (K := K)
    pure (c06Sliced (slicedByPlane pl ⟨vs, c⟩))),
  -- the same through the proof-shaped open slicer
  ("slice.polyspan", do
    let (c, pl, vs) ← c06Args (K := K)
    pure (c06Sliced (slicedByPlaneSpan pl ⟨vs, c⟩))),
  -- the specification (result is open by definition)
  ("slice.spec", do
    let (c, pl, vs) ← c06Args (K := K)
    pure (c06Sliced ((sliceSpec pl c vs).map fun v => (v, false)))),
  -- the code-shaped kernel on the signs / signed distances the implementation computed (inputs within rounding
  -- error of the plane): `<closed> <count> (<sign> <d> <x y z>)*`
  ("slice.given", do
    let c ← bool; let gs ← listOf (c06Given (K := K))
    pure (c06Sliced (slicedByPlaneGiven c gs))),
  -- slice_open_polyline_by_plane(vertices, plane)
  ("slice.open", do
    let pl : Plane K ← c06Plane; let vs ← listOf (v3 (K := K))
    pure (finish ((sliceOpenRuns pl vs).map (rList rV3)))),
  ("slice.openspan", do
    let pl : Plane K ← c06Plane; let vs ← listOf (v3 (K := K))
    pure (finish ((sliceOpenSpan pl vs).map (rList rV3)))),
  -- intersect_segment_with_plane, one segment (no longer used by the slicer; still part of the library)
  ("slice.isect", do
    let s ← v3 (K := K); let d ← v3 (K := K); let r ← v3 (K := K); let n ← v3 (K := K)
    pure (okLine (c06Row (intersectSegmentWithPlane s d r n))))
]

end PW.Driver
