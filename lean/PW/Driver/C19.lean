/- driver ops for C19 (serialization of Polyline and Plane)

   document tokens (prefix notation, both directions):
     N | B 0/1 (in) B T/F (out) | I <int> | D <number> | S <string without blanks> | A <n> item… | O <n> key value …
   `decimals`: an int, `-1` = None (the class default)
-/
import PW.Driver.Core
import PW.Model.Serialize

namespace PW.Driver.C19

open PW.Ser PW.Driver

variable {K : Type} [Add K] [Sub K] [Mul K] [Div K] [Neg K] [OfNat K 0] [OfNat K 1]
  [LT K] [LE K] [DecidableLT K] [DecidableLE K] [Rounding K] [DriverNum K]

/-- reader for a document; the token list shrinks at every step (driver-side plumbing, not part of the model) -/
partial def jsonDoc : Rd (Json K) := do
  let t ← tok
  match t with
  | "N" => pure .null
  | "B" => do let b ← bool; pure (.bool b)
  | "I" => do let i ← int; pure (.int i)
  | "D" => do let x ← num; pure (.num x)
  | "S" => do let s ← tok; pure (.str s)
  | "A" => do
    let n ← nat
    let mut acc : Array (Json K) := #[]
    for _ in [0:n] do
      acc := acc.push (← jsonDoc)
    pure (.arr acc.toList)
  | "O" => do
    let n ← nat
    let mut acc : Array (String × Json K) := #[]
    for _ in [0:n] do
      let k ← tok
      acc := acc.push (k, ← jsonDoc)
    pure (.obj acc.toList)
  | _ => throw s!"bad document token {t}"

partial def rJson : Json K → List String
  | .null => ["N"]
  | .bool b => ["B", rBool b]
  | .int i => ["I", rInt i]
  | .num x => ["D", rNum x]
  | .str s => ["S", s]
  | .arr xs => "A" :: toString xs.length :: xs.flatMap rJson
  | .obj kvs => "O" :: toString kvs.length :: kvs.flatMap fun (k, v) => k :: rJson v

def decimals : Rd (Option Nat) := do
  let i ← int
  if i < 0 then pure none else pure (some i.toNat)

def polyline : Rd (Polyline K) := do
  let c ← bool; let v ← listOf v3; pure ⟨v, c⟩

def rPolyline (p : Polyline K) : List String := rBool p.closed :: rList rV3 p.v

def rPlane (p : Plane K) : List String := rV3 p.ref ++ rV3 p.n

def refusedOr {α : Type} (r : Res α) (f : α → List String) : String :=
  match r with
  | .ok a => okLine ("accepted" :: f a)
  | .error .Other => okLine ["refused"]
  | .error e => errLine e

end PW.Driver.C19

namespace PW.Driver

open PW.Ser PW.Driver.C19

variable {K : Type} [Add K] [Sub K] [Mul K] [Div K] [Neg K] [OfNat K 0] [OfNat K 1]
  [LT K] [LE K] [DecidableLT K] [DecidableLE K] [Rounding K] [DriverNum K]

def c19Ops : List (String × Handler) := [
  ("ser.pl.rounded", do
    let d ← decimals; let p : Polyline K ← polyline
    pure (okLine (rPolyline (plRounded p d)))),
  ("ser.pl.serialize", do
    let d ← decimals; let p : Polyline K ← polyline
    pure (okLine (rJson (plSerialize p d)))),
  ("ser.pl.validate", do
    let doc : Json K ← jsonDoc
    pure (refusedOr (plValidate doc) fun _ => [])),
  ("ser.pl.deserialize", do
    let doc : Json K ← jsonDoc
    pure (refusedOr (plDeserialize doc) rPolyline)),
  ("ser.pl.roundtrip", do
    let d ← decimals; let p : Polyline K ← polyline
    pure (refusedOr (plDeserialize (plSerialize p d)) rPolyline)),
  ("ser.plane.rounded", do
    let pd ← decimals; let dd ← decimals; let r ← v3; let n ← v3
    pure (finish ((planeRounded (K := K) ⟨r, n⟩ pd dd).map rPlane))),
  ("ser.plane.serialize", do
    let pd ← decimals; let dd ← decimals; let r ← v3; let n ← v3
    pure (finish ((planeSerialize (K := K) ⟨r, n⟩ pd dd).map rJson))),
  ("ser.plane.validate", do
    let doc : Json K ← jsonDoc
    pure (refusedOr (planeValidate doc) fun _ => [])),
  ("ser.plane.deserialize", do
    let doc : Json K ← jsonDoc
    pure (refusedOr (planeDeserialize doc) rPlane)),
  ("ser.plane.roundtrip", do
    let pd ← decimals; let dd ← decimals; let r ← v3; let n ← v3
    pure (refusedOr (do let doc ← planeSerialize (K := K) ⟨r, n⟩ pd dd; planeDeserialize doc) rPlane))
]

end PW.Driver
