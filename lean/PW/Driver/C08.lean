/- driver ops for C08 (arc-length queries, subdivision) -/
import PW.Driver.Core
import PW.Model.ArcLength

namespace PW.Driver

variable {K : Type} [Add K] [Sub K] [Mul K] [Div K] [Neg K] [OfNat K 0] [OfNat K 1]
  [LT K] [LE K] [DecidableLT K] [DecidableLE K] [BEq K] [Sqrt K] [Rounding K] [DriverNum K]

open PW.ArcLength

/-- `<closed> <count> x y z …` -/
def c08Polyline : Rd (Polyline K) := do
  let c ← bool; let v ← listOf v3; pure ⟨v, c⟩

def c08RPolyline (p : Polyline K) : List String := rBool p.closed :: rList rV3 p.v

def c08Ops : List (String × Handler) := [
  ("pl.lengths", do
    let p : Polyline K ← c08Polyline
    pure (okLine (rList (fun x => [rNum x]) (segmentLengths p)))),
  ("pl.total", do
    let p : Polyline K ← c08Polyline
    pure (okLine [rNum (totalLength p)])),
  ("pl.centroid", do
    let p : Polyline K ← c08Polyline
    pure (finish ((polylineCentroid p).map rV3))),
  ("seg.centroid", do
    let segs ← listOf (do let a ← v3 (K := K); let b ← v3 (K := K); pure (a, b))
    pure (finish ((pathCentroid segs).map rV3))),
  ("pl.along", do
    let single ← bool
    let p : Polyline K ← c08Polyline
    let fs ← listOf (num (K := K))
    pure (finish ((pointAlongPath p fs).map fun pts =>
      if single then "single" :: (pts.take 1).flatMap rV3 else rList rV3 pts))),
  ("pl.subdiv", do
    let ret ← bool
    let p : Polyline K ← c08Polyline
    let maxLen ← num (K := K)
    let hasMask ← bool
    let mask ← listOf bool
    pure (finish ((subdividedByLength p maxLen (if hasMask then some mask else none)).map fun (q, idx) =>
      c08RPolyline q ++ (if ret then rList (fun i => [rNat i]) idx else [])))),
  ("pl.bisect", do
    let ret ← bool
    let oneDim ← bool
    let p : Polyline K ← c08Polyline
    let idx ← listOf int
    pure (finish ((withSegmentsBisected oneDim p idx).map fun (q, orig, ins) =>
      c08RPolyline q ++ (if ret then rList (fun i => [rNat i]) orig ++ rList (fun i => [rNat i]) ins else [])))),
  ("seg.subdivide", do
    let isInt ← bool
    let n ← int
    let endpoint ← bool
    let shapesOk ← bool
    let p1 ← v3 (K := K); let p2 ← v3 (K := K)
    pure (finish ((subdivideSegment isInt n endpoint shapesOk p1 p2).map (rList rV3)))),
  ("seg.subdivides", do
    let is2d ← bool
    let n ← nat
    let v ← listOf (v3 (K := K))
    pure (finish ((subdivideSegments is2d v n).map (rList rV3))))
]

end PW.Driver
