/- driver ops for C18 (line projection, line intersections, the Line object) -/
import PW.Driver.Core
import PW.Model.Line

namespace PW.Driver

open PW.Lines

variable {K : Type} [Add K] [Sub K] [Mul K] [Div K] [Neg K] [OfNat K 0] [OfNat K 1]
  [LT K] [LE K] [DecidableLT K] [DecidableLE K] [BEq K] [Sqrt K] [DriverNum K]

/-- the default `atol=1e-08` of `vg.almost_zero` (the double that literal denotes) -/
def c18Atol : K := DriverNum.ofRat ((1 : Rat) / 100000000)

def c18V2 : Rd (V2 K) := do
  let x ← num; let y ← num; pure ⟨x, y⟩

/-- `<many?> (v3 | count v3…)` -/
def c18Arg : Rd (Arg (V3 K)) := do
  let m ← bool
  if m then do let l ← listOf v3; pure (.many l) else do let v ← v3; pure (.one v)

def c18RArg (a : Arg (V3 K)) : List String :=
  match a with
  | .one v => "one" :: rV3 v
  | .many l => "many" :: rList rV3 l

def c18ROpt3 (o : Option (V3 K)) : List String :=
  match o with
  | none => ["none"]
  | some v => "some" :: rV3 v

def c18ROpt2 (o : Option (V2 K)) : List String :=
  match o with
  | none => ["none"]
  | some v => ["some", rNum v.x, rNum v.y]

def c18Shape : Rd (List Nat) := listOf nat

def c18Quad3 : Rd (V3 K × V3 K × V3 K × V3 K) := do
  let a ← v3; let b ← v3; let c ← v3; let d ← v3; pure (a, b, c, d)

def c18Quad2 : Rd (V2 K × V2 K × V2 K × V2 K) := do
  let a ← c18V2; let b ← c18V2; let c ← c18V2; let d ← c18V2; pure (a, b, c, d)

def c18ResArg (r : Res (Arg (V3 K))) : String :=
  match r with
  | .ok a => okLine (c18RArg a)
  | .error e => errLine e

def c18Ops : List (String × Handler) := [
  ("line.project", do
    let pts ← c18Arg (K := K); let refs ← c18Arg (K := K); let vecs ← c18Arg (K := K)
    pure (c18ResArg (projectPointToLineArgs pts refs vecs))),
  ("line.projectalg", do   -- the normalisation-free closed form, single row
    let p ← v3 (K := K); let r ← v3 (K := K); let v ← v3 (K := K)
    pure (okLine (rV3 (projectAlg p r v)))),
  ("line.project.shapes", do
    let sp ← c18Shape; let sr ← c18Shape; let sv ← c18Shape
    pure (if projectShapesOk sp sr sv then okLine ["accepted"] else errLine .ValueError)),
  ("line.isect.shapes", do
    let d ← nat; let s0 ← c18Shape; let s1 ← c18Shape; let s2 ← c18Shape; let s3 ← c18Shape
    pure (if pointShapesOk d s0 s1 s2 s3 then okLine ["accepted"] else errLine .ValueError)),
  ("line.isect3", do
    let p0 ← v3 (K := K); let q0 ← v3 (K := K); let p1 ← v3 (K := K); let q1 ← v3 (K := K)
    pure (okLine (c18ROpt3 (intersectLines p0 q0 p1 q1)))),
  ("line.isect3.branch", do
    let p0 ← v3 (K := K); let q0 ← v3 (K := K); let p1 ← v3 (K := K); let q1 ← v3 (K := K)
    pure (okLine [intersectBranch p0 q0 p1 q1])),
  ("line.isect3spec", do
    let p0 ← v3 (K := K); let q0 ← v3 (K := K); let p1 ← v3 (K := K); let q1 ← v3 (K := K)
    pure (okLine (c18ROpt3 (intersectLinesSpec p0 q0 p1 q1)))),
  -- batches: `<n>` then n quadruples p0 q0 p1 q1; answers concatenated
  ("line.isect3.batch", do
    let ls ← listOf (c18Quad3 (K := K))
    pure (okLine (ls.flatMap fun q => c18ROpt3 (intersectLines q.1 q.2.1 q.2.2.1 q.2.2.2)))),
  ("line.isect3spec.batch", do
    let ls ← listOf (c18Quad3 (K := K))
    pure (okLine (ls.flatMap fun q => c18ROpt3 (intersectLinesSpec q.1 q.2.1 q.2.2.1 q.2.2.2)))),
  ("line.isect2", do
    let p0 ← c18V2 (K := K); let q0 ← c18V2 (K := K); let p1 ← c18V2 (K := K); let q1 ← c18V2 (K := K)
    pure (okLine (c18ROpt2 (intersect2d p0 q0 p1 q1)))),
  ("line.isect2.batch", do
    let ls ← listOf (c18Quad2 (K := K))
    pure (okLine (ls.flatMap fun q => c18ROpt2 (intersect2d q.1 q.2.1 q.2.2.1 q.2.2.2)))),
  -- the Line object --------------------------------------------------------------------------------
  ("line.obj.new", do
    let p ← v3 (K := K); let a ← v3 (K := K)
    pure (match Line.mk? c18Atol p a with
      | .ok l => okLine (rV3 l.ref ++ rV3 l.along ++ rV3 l.referencePoints.1 ++ rV3 l.referencePoints.2)
      | .error e => errLine e)),
  ("line.obj.frompoints", do
    let p ← v3 (K := K); let q ← v3 (K := K)
    pure (match Line.fromPoints c18Atol p q with
      | .ok l => okLine (rV3 l.ref ++ rV3 l.along ++ rV3 l.referencePoints.1 ++ rV3 l.referencePoints.2)
      | .error e => errLine e)),
  ("line.obj.intersect", do
    let p ← v3 (K := K); let a ← v3 (K := K); let p' ← v3 (K := K); let a' ← v3 (K := K)
    pure (match Line.mk? c18Atol p a, Line.mk? c18Atol p' a' with
      | .ok l, .ok m => okLine (c18ROpt3 (l.intersectLine m))
      | .error e, _ => errLine e
      | _, .error e => errLine e)),
  ("line.obj.project", do
    let p ← v3 (K := K); let a ← v3 (K := K); let pts ← c18Arg (K := K)
    pure (match Line.mk? c18Atol p a with
      | .ok l => c18ResArg (l.project pts)
      | .error e => errLine e))
]

end PW.Driver
