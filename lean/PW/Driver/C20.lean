/- driver ops for C20:
     shape.accepts        the GENERATED signature of a callable (PW.Gen.Signatures) on a sweep of argument shapes
     shape.check_value …  the models of the shape helpers (PW.Model.Shape)
     stk.sd/project/mirror, stk.plane   the plane functions / Plane methods on single-or-stacked arguments
                          (PW.Model.Stacked), the only ops here that involve numbers -/
import PW.Driver.Core
import PW.Model.Shape
import PW.Model.Stacked
import PW.Gen.Signatures

namespace PW.Driver.C20

open PW PW.Driver PW.Shape

/-- `N` (None) | `S` (Python scalar) | `A <rank> <dim>…` -/
def argDesc : Rd Arg := do
  let t ← tok
  if t = "N" then pure .absent
  else if t = "S" then pure .number
  else if t = "A" then do
    let s ← listOf nat
    pure (.arr s)
  else throw s!"bad arg descriptor {t}"

/-- pattern: `<rank> <dim>…` with `-1` for the wildcard -/
def patDesc : Rd Pat := do
  let ds ← listOf int
  pure (ds.map fun d => if d < 0 then Dim.wild else Dim.dim d.toNat)

def named {α : Type} (p : Rd α) : Rd (String × α) := do
  let n ← tok; let a ← p; pure (n, a)

def outcomeTag : Res Unit → String
  | .ok _ => "A"
  | .error .ValueError => "V"
  | .error e => "X:" ++ e.name

def retTag : Ret → String
  | .none => "none"
  | .one k => s!"one:{k}"
  | .tuple ks => "tup:" ++ ",".intercalate (ks.map toString)

def shapeTag (s : Shape) : String := ",".intercalate (s.map toString)

def resTag {α : Type} (f : α → String) : Res α → String
  | .ok a => f a
  | .error .ValueError => "V"
  | .error e => "X:" ++ e.name

def colTag (c : Columnized) : String := s!"col:{shapeTag c.shape}:{if c.isColumnized then "T" else "F"}"

def setArgs (env : Env) (names : List String) (a : Arg) : Env :=
  names.map (fun n => (n, a)) ++ env

/-- `one <item>` | `many <count> <item>…` -/
def stk {α : Type} (p : Rd α) : Rd (Stk α) := do
  let t ← tok
  if t = "one" then do let a ← p; pure (.one a)
  else if t = "many" then do let l ← listOf p; pure (.many l)
  else throw s!"bad stack descriptor {t}"

def rStk {α : Type} (f : α → List String) : Stk α → List String
  | .one a => "one" :: f a
  | .many l => "many" :: rList f l

end PW.Driver.C20

namespace PW.Driver

open PW.Shape PW.Driver.C20

variable {K : Type} [Add K] [Sub K] [Mul K] [Div K] [Neg K] [OfNat K 0] [OfNat K 1]
  [LT K] [LE K] [DecidableLT K] [DecidableLE K] [DriverNum K]

def c20Ops : List (String × Handler) := [
  -- the plane functions on single-or-stacked arguments (PW.Model.Stacked)
  ("stk.sd", do
    let p ← stk (v3 (K := K)); let e ← stk (v4 (K := K))
    pure (finish ((signedDistanceStk p e).map (rStk fun x => [rNum x])))),
  ("stk.project", do
    let p ← stk (v3 (K := K)); let e ← stk (v4 (K := K))
    pure (finish ((projectPointStk p e).map (rStk rV3)))),
  ("stk.mirror", do
    let p ← stk (v3 (K := K)); let e ← stk (v4 (K := K))
    pure (finish ((mirrorPointStk p e).map (rStk rV3)))),
  ("stk.plane", do
    let which ← tok
    let ref ← v3 (K := K); let n ← v3 (K := K); let p ← stk (v3 (K := K))
    let pl : Plane K := ⟨ref, n⟩
    match which with
    | "sd" => pure (okLine (rStk (fun x => [rNum x]) (pl.signedDistanceStk p)))
    | "dist" => pure (okLine (rStk (fun x => [rNum x]) (pl.distanceStk p)))
    | "project" => pure (okLine (rStk rV3 (pl.projectPointStk p)))
    | "mirror" => pure (okLine (rStk rV3 (pl.mirrorPointStk p)))
    | _ => pure s!"bad unknown-plane-op {which}"),
  -- shape.accepts <callable> <#self> (<name> <nat>)… <#flags> (<name> <0|1>)… <#base> (<arg> <desc>)… <#vary> <arg>… <#shapes> <desc>…
  ("shape.accepts", do
    let name ← tok
    let selfs ← listOf (named nat)
    let flags ← listOf (named bool)
    let base ← listOf (named argDesc)
    let vary ← listOf tok
    let shapes ← listOf argDesc
    match PW.Gen.allSigs.lookup name with
    | none => pure s!"bad unknown-callable {name}"
    | some sig =>
      let b : Binds := selfs.map fun (n, v) => (n, Ret.one v)
      pure (okLine (shapes.map fun a => outcomeTag (outcome sig (setArgs base vary a) b flags)))),
  -- shape.helper <which> <pattern>… <#shapes> <desc>…
  ("shape.check_value", do
    let p ← patDesc
    let shapes ← listOf argDesc
    pure (okLine (shapes.map fun a => resTag retTag (checkValue a p)))),
  ("shape.check_value_any", do
    let ps ← listOf patDesc
    let shapes ← listOf argDesc
    pure (okLine (shapes.map fun a => resTag retTag (checkValueAny a ps)))),
  ("shape.check_shape_any", do
    let ps ← listOf patDesc
    let shapes ← listOf argDesc
    pure (okLine (shapes.map fun a => resTag retTag (checkShapeAny a ps)))),
  ("shape.columnize_pw", do
    let p ← patDesc
    let shapes ← listOf argDesc
    pure (okLine (shapes.map fun a => resTag colTag (columnizePW a p)))),
  ("shape.columnize_vg", do
    let p ← patDesc
    let shapes ← listOf argDesc
    pure (okLine (shapes.map fun a => resTag colTag (columnizeVG a p))))
]

end PW.Driver
