/-
  PW.Driver.Core — line-protocol plumbing for the model driver (Mathlib-free).

  input  line:  <op> <tok> <tok> …        doubles are 16-hex-digit bit patterns, ints decimal
  output line:  ok <tok> …   |   err <PythonExceptionClass>   |   bad <message>
-/
import PW.Num
import PW.Vec
import PW.Err

namespace PW.Driver

/-- token reader -/
abbrev Rd := StateT (List String) (Except String)

def tok : Rd String := do
  match (← get) with
  | [] => throw "unexpected end of line"
  | t :: ts => set ts; pure t

def int : Rd Int := do
  let t ← tok
  match t.toInt? with
  | some i => pure i
  | none => throw s!"bad int {t}"

def nat : Rd Nat := do
  let i ← int
  if i < 0 then throw s!"negative nat {i}" else pure i.toNat

def bool : Rd Bool := do
  let t ← tok
  if t = "1" then pure true else if t = "0" then pure false else throw s!"bad bool {t}"

def hexVal (c : Char) : Option Nat :=
  if c.isDigit then some (c.toNat - '0'.toNat)
  else if 'a' ≤ c ∧ c ≤ 'f' then some (c.toNat - 'a'.toNat + 10) else none

def parseHex (s : String) : Option UInt64 :=
  if s.length ≠ 16 then none else
  (s.foldl (fun acc c => do let a ← acc; let d ← hexVal c; pure (a * 16 + d)) (some 0)).map Nat.toUInt64

variable {K : Type} [DriverNum K]

def num : Rd K := do
  let t ← tok
  match parseHex t with
  | some b => pure (DriverNum.ofBits b)
  | none => throw s!"bad float bits {t}"

def v3 : Rd (V3 K) := do
  let x ← num; let y ← num; let z ← num; pure ⟨x, y, z⟩

def v4 : Rd (V4 K) := do
  let x ← num; let y ← num; let z ← num; let w ← num; pure ⟨x, y, z, w⟩

def m3 : Rd (M3 K) := do
  let a ← v3; let b ← v3; let c ← v3; pure ⟨a, b, c⟩

def m4 : Rd (M4 K) := do
  let a ← v4; let b ← v4; let c ← v4; let d ← v4; pure ⟨a, b, c, d⟩

/-- `<count> item item …` -/
def listOf {α : Type} (p : Rd α) : Rd (List α) := do
  let n ← nat
  let rec go : Nat → List α → Rd (List α)
    | 0, acc => pure acc.reverse
    | k + 1, acc => do let a ← p; go k (a :: acc)
  go n []

def done : Rd Unit := do
  match (← get) with
  | [] => pure ()
  | t :: _ => throw s!"trailing token {t}"

/-! output -/

def rNum (x : K) : String := DriverNum.render x
def rV3 (v : V3 K) : List String := v.toList.map rNum
def rV4 (v : V4 K) : List String := v.toList.map rNum
def rM3 (m : M3 K) : List String := m.toList.map rNum
def rM4 (m : M4 K) : List String := m.toList.map rNum
def rInt (i : Int) : String := toString i
def rNat (i : Nat) : String := toString i
def rBool (b : Bool) : String := if b then "T" else "F"
def rList {α : Type} (f : α → List String) (l : List α) : List String :=
  toString l.length :: l.flatMap f

def okLine (toks : List String) : String := " ".intercalate ("ok" :: toks)
def errLine (e : Err) : String := "err " ++ e.name

def finish (r : Res (List String)) : String :=
  match r with
  | .ok t => okLine t
  | .error e => errLine e

/-- an op handler: reads its arguments, returns the answer line -/
abbrev Handler := Rd String

def runLine (table : String → Option Handler) (line : String) : String :=
  match (line.splitOn " ").filter (· ≠ "") with
  | [] => "bad empty"
  | op :: args =>
    match table op with
    | none => s!"bad unknown-op {op}"
    | some h =>
      match (do let r ← h; done; pure r : Rd String).run args with
      | .ok (s, _) => s
      | .error m => s!"bad {m}"

def lookup (tbl : List (String × Handler)) (op : String) : Option Handler :=
  (tbl.find? (·.1 = op)).map (·.2)

end PW.Driver
