/- driver ops for C16 (rectangular_prism, cube, triangular_prism) -/
import PW.Driver.Core
import PW.Model.Shapes

namespace PW.Driver

open PW.Shapes

variable {K : Type} [Add K] [Sub K] [Mul K] [Div K] [Neg K] [OfNat K 0] [OfNat K 1]
  [LT K] [LE K] [DecidableLT K] [DecidableLE K] [Sqrt K] [DriverNum K]

/-- `<ndim> <dims…> <count> <values…>`; `ndim = -1` for an argument that is not an ndarray -/
def arrArg16 : Rd (ArrArg K) := do
  let nd ← int
  if nd < 0 then
    let data ← listOf (num (K := K))
    pure ⟨none, data⟩
  else
    let rec dims : Nat → List Nat → Rd (List Nat)
      | 0, acc => pure acc.reverse
      | k + 1, acc => do let d ← nat; dims k (d :: acc)
    let sh ← dims nd.toNat []
    let data ← listOf (num (K := K))
    pure ⟨some sh, data⟩

/-- `<f|o> <value>` -/
def pyNum16 : Rd (PyNum K) := do
  let t ← tok
  let x ← num (K := K)
  if t = "f" then pure (.float x) else pure (.other x)

def rOut16 (o : Out K) : List String :=
  match o with
  | .indexed vs fs => "indexed" :: (rList rV3 vs ++ rList (fun f => [rNat f.1, rNat f.2.1, rNat f.2.2]) fs)
  | .flat ts => "flat" :: rList (fun t => rV3 t.1 ++ rV3 t.2.1 ++ rV3 t.2.2) ts

def c16Ops : List (String × Handler) := [
  ("shape.rect", do
    let o ← arrArg16 (K := K); let s ← arrArg16 (K := K); let u ← bool
    pure (finish ((rectPrism o s u).map rOut16))),
  ("shape.cube", do
    let o ← arrArg16 (K := K); let s ← pyNum16 (K := K); let u ← bool
    pure (finish ((cube o s u).map rOut16))),
  ("shape.triprism", do
    let tol ← num (K := K)
    let p1 ← arrArg16 (K := K); let p2 ← arrArg16 (K := K); let p3 ← arrArg16 (K := K)
    let h ← pyNum16 (K := K); let u ← bool
    pure (finish ((triPrism tol p1 p2 p3 h u).map rOut16))),
  -- measures of the model's own mesh (what the theorems speak about), for the oracle cross-check
  ("shape.rect.measures", do
    let o ← v3 (K := K); let s ← v3 (K := K)
    let vs := rectVertices o s
    pure (okLine [rBool (closedOriented rectFaces), rBool (indexesAll 8 rectFaces),
                  rNum (sixVolume vs rectFaces), rNum (twoTotalArea vs rectFaces)])),
  ("shape.triprism.measures", do
    let tol ← num (K := K)
    let p1 ← v3 (K := K); let p2 ← v3 (K := K); let p3 ← v3 (K := K); let h ← num (K := K)
    pure (finish (do
      let n ← basePlaneNormal tol p1 p2 p3
      let vs := triVertices p1 p2 p3 n h
      pure [rBool (closedOriented triFaces), rBool (indexesAll 6 triFaces),
            rNum (sixVolume vs triFaces), rNum (twoTotalArea vs triFaces)])))
]

end PW.Driver
