/- driver ops for C15 (triangle functions, quads_to_tris, edges_of_faces, same-side test) -/
import PW.Driver.Core
import PW.Model.Tri

namespace PW.Driver

open PW.Tri

variable {K : Type} [Add K] [Sub K] [Mul K] [Div K] [Neg K] [OfNat K 0] [OfNat K 1]
  [LT K] [LE K] [DecidableLT K] [DecidableLE K] [BEq K] [Sqrt K] [DriverNum K]

def c15Tri : Rd (Tri K) := do
  let a ← v3; let b ← v3; let c ← v3; pure ⟨a, b, c⟩

def c15Face : Rd Face := do
  let a ← int; let b ← int; let c ← int; pure ⟨a, b, c⟩

def c15Quad : Rd Quad := do
  let a ← int; let b ← int; let c ← int; let d ← int; pure ⟨a, b, c, d⟩

def c15Zip4 {α β : Type} (f : α → α → α → α → β) : List α → List α → List α → List α → List β
  | a :: as, b :: bs, c :: cs, d :: ds => f a b c d :: c15Zip4 f as bs cs ds
  | _, _, _, _ => []

def c15Ops : List (String × Handler) := [
  ("tri.normals", do
    let nz ← bool; let ts ← listOf (c15Tri (K := K))
    pure (okLine (rList (fun t => rV3 (surfaceNormal nz t)) ts))),
  ("tri.area", do
    let ts ← listOf (c15Tri (K := K))
    pure (okLine (rList (fun t => [rNum (surfaceArea t)]) ts))),
  ("tri.bary", do
    let ts ← listOf (c15Tri (K := K)); let ps ← listOf (v3 (K := K))
    pure (finish ((baryStack ts ps).map (rList rV3)))),
  ("tri.contains", do
    let as ← listOf (v3 (K := K)); let bs ← listOf (v3 (K := K)); let cs ← listOf (v3 (K := K))
    let ps ← listOf (v3 (K := K))
    pure (okLine (rList (fun b => [rBool b]) (c15Zip4 triContains as bs cs ps)))),
  ("line.sameside", do
    let as ← listOf (v3 (K := K)); let bs ← listOf (v3 (K := K)); let p1 ← listOf (v3 (K := K))
    let p2 ← listOf (v3 (K := K))
    pure (okLine (rList (fun b => [rBool b]) (c15Zip4 sameSide as bs p1 p2)))),
  ("tri.sample", do
    let numIsInt ← bool; let n ← int; let rngOk ← bool; let hasW ← bool
    let w ← listOf (num (K := K)); let ts ← listOf (c15Tri (K := K)); let draws ← listOf (num (K := K))
    let r := sample ts numIsInt n rngOk (if hasW then some w else none) draws
    pure (finish (r.map fun o =>
      ["dt:f8", if o.idxFloat then "dt:f8" else "dt:i8"] ++ rList rV3 o.pts ++ rList (fun i => [rNat i]) o.idx))),
  ("tri.edges", do
    let dtypeOk ← bool; let nz ← bool; let fs ← listOf c15Face
    pure (finish ((edgesOfFaces dtypeOk nz fs).map fun es => "dt:i8" :: rList (fun e => [rInt e.1, rInt e.2]) es))),
  ("tri.quads", do
    let retMapping ← bool; let qs ← listOf c15Quad
    let ts := quadsToTris qs
    let out := "dt:i8" :: rList (fun (f : Face) => [rInt f.a, rInt f.b, rInt f.c]) ts
    let mp := if retMapping then "dt:i8" :: rList (fun (p : Nat × Nat) => [rNat p.1, rNat p.2]) (quadsMapping qs.length) else []
    pure (okLine (out ++ mp)))
]

end PW.Driver
