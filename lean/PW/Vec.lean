/-
  PW.Vec — 3-vectors, 4-vectors, 3×3 and 4×4 matrices over an arbitrary number type.
  Mathlib-free.  Products are written out so that `ext <;> simp [..] <;> ring` works on them.
-/
import PW.Num

namespace PW

@[ext] structure V3 (K : Type) where
  x : K
  y : K
  z : K
deriving Repr, Inhabited, DecidableEq

@[ext] structure V4 (K : Type) where
  x : K
  y : K
  z : K
  w : K
deriving Repr, Inhabited, DecidableEq

/-- rows `r0 r1 r2` -/
@[ext] structure M3 (K : Type) where
  r0 : V3 K
  r1 : V3 K
  r2 : V3 K
deriving Repr, Inhabited, DecidableEq

@[ext] structure M4 (K : Type) where
  r0 : V4 K
  r1 : V4 K
  r2 : V4 K
  r3 : V4 K
deriving Repr, Inhabited, DecidableEq

variable {K : Type} [Add K] [Sub K] [Mul K] [Div K] [Neg K] [OfNat K 0] [OfNat K 1]

namespace V3

def add (a b : V3 K) : V3 K := ⟨a.x + b.x, a.y + b.y, a.z + b.z⟩
def sub (a b : V3 K) : V3 K := ⟨a.x - b.x, a.y - b.y, a.z - b.z⟩
def neg (a : V3 K) : V3 K := ⟨-a.x, -a.y, -a.z⟩
def smul (c : K) (a : V3 K) : V3 K := ⟨c * a.x, c * a.y, c * a.z⟩
/-- `a / c` componentwise -/
def sdiv (a : V3 K) (c : K) : V3 K := ⟨a.x / c, a.y / c, a.z / c⟩
def dot (a b : V3 K) : K := a.x * b.x + a.y * b.y + a.z * b.z
def cross (a b : V3 K) : V3 K :=
  ⟨a.y * b.z - a.z * b.y, a.z * b.x - a.x * b.z, a.x * b.y - a.y * b.x⟩
def normSq (a : V3 K) : K := dot a a
def zero : V3 K := ⟨0, 0, 0⟩
def norm [Sqrt K] (a : V3 K) : K := sqrt (normSq a)
/-- `vg.normalize`: `v / ‖v‖` (NaN for the zero vector under IEEE; `nan` at `NRat`) -/
def normalize [Sqrt K] (a : V3 K) : V3 K := sdiv a (norm a)
def get (a : V3 K) : Nat → K
  | 0 => a.x
  | 1 => a.y
  | _ => a.z
def toList (a : V3 K) : List K := [a.x, a.y, a.z]
def map {L : Type} (f : K → L) (a : V3 K) : V3 L := ⟨f a.x, f a.y, f a.z⟩

instance : Add (V3 K) := ⟨add⟩
instance : Sub (V3 K) := ⟨sub⟩
instance : Neg (V3 K) := ⟨neg⟩

end V3

namespace V4
def dot (a b : V4 K) : K := a.x * b.x + a.y * b.y + a.z * b.z + a.w * b.w
def toList (a : V4 K) : List K := [a.x, a.y, a.z, a.w]
def xyz (a : V4 K) : V3 K := ⟨a.x, a.y, a.z⟩
end V4

namespace M3
def col0 (m : M3 K) : V3 K := ⟨m.r0.x, m.r1.x, m.r2.x⟩
def col1 (m : M3 K) : V3 K := ⟨m.r0.y, m.r1.y, m.r2.y⟩
def col2 (m : M3 K) : V3 K := ⟨m.r0.z, m.r1.z, m.r2.z⟩
def mulVec (m : M3 K) (v : V3 K) : V3 K := ⟨m.r0.dot v, m.r1.dot v, m.r2.dot v⟩
def transpose (m : M3 K) : M3 K := ⟨m.col0, m.col1, m.col2⟩
def mul (a b : M3 K) : M3 K :=
  ⟨⟨a.r0.dot b.col0, a.r0.dot b.col1, a.r0.dot b.col2⟩,
   ⟨a.r1.dot b.col0, a.r1.dot b.col1, a.r1.dot b.col2⟩,
   ⟨a.r2.dot b.col0, a.r2.dot b.col1, a.r2.dot b.col2⟩⟩
def one : M3 K := ⟨⟨1, 0, 0⟩, ⟨0, 1, 0⟩, ⟨0, 0, 1⟩⟩
def det (m : M3 K) : K := m.r0.dot (m.r1.cross m.r2)
def toList (m : M3 K) : List K := m.r0.toList ++ m.r1.toList ++ m.r2.toList
def add (a b : M3 K) : M3 K := ⟨a.r0 + b.r0, a.r1 + b.r1, a.r2 + b.r2⟩
def smul (c : K) (a : M3 K) : M3 K := ⟨V3.smul c a.r0, V3.smul c a.r1, V3.smul c a.r2⟩
end M3

namespace M4
def col0 (m : M4 K) : V4 K := ⟨m.r0.x, m.r1.x, m.r2.x, m.r3.x⟩
def col1 (m : M4 K) : V4 K := ⟨m.r0.y, m.r1.y, m.r2.y, m.r3.y⟩
def col2 (m : M4 K) : V4 K := ⟨m.r0.z, m.r1.z, m.r2.z, m.r3.z⟩
def col3 (m : M4 K) : V4 K := ⟨m.r0.w, m.r1.w, m.r2.w, m.r3.w⟩
def mulVec (m : M4 K) (v : V4 K) : V4 K := ⟨m.r0.dot v, m.r1.dot v, m.r2.dot v, m.r3.dot v⟩
def mul (a b : M4 K) : M4 K :=
  ⟨⟨a.r0.dot b.col0, a.r0.dot b.col1, a.r0.dot b.col2, a.r0.dot b.col3⟩,
   ⟨a.r1.dot b.col0, a.r1.dot b.col1, a.r1.dot b.col2, a.r1.dot b.col3⟩,
   ⟨a.r2.dot b.col0, a.r2.dot b.col1, a.r2.dot b.col2, a.r2.dot b.col3⟩,
   ⟨a.r3.dot b.col0, a.r3.dot b.col1, a.r3.dot b.col2, a.r3.dot b.col3⟩⟩
def one : M4 K := ⟨⟨1, 0, 0, 0⟩, ⟨0, 1, 0, 0⟩, ⟨0, 0, 1, 0⟩, ⟨0, 0, 0, 1⟩⟩
def toList (m : M4 K) : List K := m.r0.toList ++ m.r1.toList ++ m.r2.toList ++ m.r3.toList
/-- `_convert_33_to_44` -/
def ofM3 (m : M3 K) : M4 K :=
  ⟨⟨m.r0.x, m.r0.y, m.r0.z, 0⟩, ⟨m.r1.x, m.r1.y, m.r1.z, 0⟩, ⟨m.r2.x, m.r2.y, m.r2.z, 0⟩, ⟨0, 0, 0, 1⟩⟩
end M4

end PW
