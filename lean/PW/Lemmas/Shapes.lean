/-
  PW.Lemmas.Shapes — helpers for the C16 theorems (no property statements here).
-/
import PW.Model.Shapes
import PW.Lemmas.Vec

set_option linter.unusedSectionVars false

namespace PW.Shapes

variable {K : Type} [Add K] [Sub K] [Mul K] [Div K] [Neg K] [OfNat K 0] [OfNat K 1]

/-- column `i` of a quad row -/
def qget (q : Quad) : Nat → Nat
  | 0 => q.1
  | 1 => q.2.1
  | 2 => q.2.2.1
  | _ => q.2.2.2

/-- what a list of `tris[start::step, :] = quads[:, [c0, c1, c2]]` assignments leaves in row `r` of `tris`
    (`none` when no assignment writes the row) -/
def pickRow (picks : List (Nat × Nat × (Nat × Nat × Nat))) (quads : List Quad) (r : Nat) : Option Tri :=
  match picks.filter (fun p => decide (0 < p.2.1) && r % p.2.1 == p.1 % p.2.1 && decide (p.1 ≤ r)) with
  | [] => none
  | p :: _ =>
    match quads[(r - p.1) / p.2.1]? with
    | none => none
    | some q => some (qget q p.2.2.1, qget q p.2.2.2.1, qget q p.2.2.2.2)

/-- the `2·len(quads)` rows of `tris` after the assignments (`none` if some row is never written, i.e. is
    left as `np.empty` garbage) -/
def applyPicks (picks : List (Nat × Nat × (Nat × Nat × Nat))) (quads : List Quad) : Option (List Tri) :=
  (List.range (2 * quads.length)).mapM (pickRow picks quads)

@[simp] theorem vget_zero (a : V3 K) (l : List (V3 K)) : vget (a :: l) 0 = a := rfl
@[simp] theorem vget_succ (a : V3 K) (l : List (V3 K)) (n : Nat) : vget (a :: l) (n + 1) = vget l n := rfl

end PW.Shapes
