/-
  PW.Lemmas.Assembly — list lemmas for the array-level assembly of the slicer: new vertices are appended in pairs
  after the existing ones, and new faces refer to them by `base + 2j`, `base + 2j + 1`.
-/
import PW.Model.Slicing
import Mathlib.Data.List.Basic
import Mathlib.Tactic.Linarith

namespace PW.Slicing

variable {K : Type} [OfNat K 0] {E : Type}

theorem getD_append_lt (l r : List (V3 K)) (i : Nat) (h : i < l.length) :
    (l ++ r).getD i V3.zero = l.getD i V3.zero := by
  simp [List.getD, List.getElem?_append_left h]

theorem getD_append_at (l r : List (V3 K)) (j : Nat) :
    (l ++ r).getD (l.length + j) V3.zero = r.getD j V3.zero := by
  simp [List.getD, List.getElem?_append_right]

theorem quadsToTris_cons {α : Type} (q : α × α × α × α) (qs : List (α × α × α × α)) :
    quadsToTris (q :: qs) = [⟨q.1, q.2.1, q.2.2.1⟩, ⟨q.1, q.2.2.1, q.2.2.2⟩] ++ quadsToTris qs := by
  simp [quadsToTris]

/-- quads: faces `(a e, b e, base+2j, base+2j+1)` over vertices `pre ++ pairs ++ post`, split by `quads_to_tris` -/
theorem quads_positions (P : Nat → V3 K) (m : Nat) (a b : E → Nat) (x1 x2 : E → V3 K)
    (l : List E) (hl : ∀ e ∈ l, a e < m ∧ b e < m) (post : List (V3 K)) :
    ∀ (s base : Nat) (pre : List (V3 K)), pre.length = base + 2 * s → m ≤ pre.length →
      (∀ i < m, pre.getD i V3.zero = P i) →
      (quadsToTris ((l.zipIdx s).map fun (e, j) => (a e, b e, base + 2 * j, base + 2 * j + 1))).map
          (facePos (pre ++ l.flatMap (fun e => [x1 e, x2 e]) ++ post)) =
        l.flatMap fun e => [(⟨P (a e), P (b e), x1 e⟩ : T3 (V3 K)), ⟨P (a e), x1 e, x2 e⟩] := by
  induction l with
  | nil => intro s base pre _ _ _; simp [quadsToTris]
  | cons e l ih =>
    intro s base pre hpre hm hP
    have hl' : ∀ e ∈ l, a e < m ∧ b e < m := fun e' he' => hl e' (by simp [he'])
    obtain ⟨ha, hb⟩ := hl e (by simp)
    have hW : pre ++ (e :: l).flatMap (fun e => [x1 e, x2 e]) ++ post =
        (pre ++ [x1 e, x2 e]) ++ l.flatMap (fun e => [x1 e, x2 e]) ++ post := by
      simp [List.flatMap_cons, List.append_assoc]
    have ih' := ih hl' (s + 1) base (pre ++ [x1 e, x2 e]) (by simp [hpre]; omega) (by simp; omega)
      (by
        intro i hi
        rw [getD_append_lt _ _ _ (by omega)]
        exact hP i hi)
    rw [hW]
    -- the two head triangles
    have e0 : (pre ++ [x1 e, x2 e] ++ l.flatMap (fun e => [x1 e, x2 e]) ++ post).getD (a e) V3.zero = P (a e) := by
      rw [List.append_assoc, List.append_assoc, getD_append_lt _ _ _ (by omega)]; exact hP _ ha
    have e1 : (pre ++ [x1 e, x2 e] ++ l.flatMap (fun e => [x1 e, x2 e]) ++ post).getD (b e) V3.zero = P (b e) := by
      rw [List.append_assoc, List.append_assoc, getD_append_lt _ _ _ (by omega)]; exact hP _ hb
    have e2 : (pre ++ [x1 e, x2 e] ++ l.flatMap (fun e => [x1 e, x2 e]) ++ post).getD (base + 2 * s) V3.zero = x1 e := by
      rw [List.append_assoc, List.append_assoc, ← hpre]
      have := getD_append_at pre ([x1 e, x2 e] ++ (l.flatMap (fun e => [x1 e, x2 e]) ++ post)) 0
      simpa using this
    have e3 : (pre ++ [x1 e, x2 e] ++ l.flatMap (fun e => [x1 e, x2 e]) ++ post).getD (base + 2 * s + 1) V3.zero = x2 e := by
      rw [List.append_assoc, List.append_assoc, ← hpre]
      have := getD_append_at pre ([x1 e, x2 e] ++ (l.flatMap (fun e => [x1 e, x2 e]) ++ post)) 1
      simpa using this
    rw [List.zipIdx_cons, List.map_cons, quadsToTris_cons, List.map_append, ih', List.flatMap_cons]
    congr 1
    simp only [List.map_cons, List.map_nil, facePos, T3.map, e0, e1, e2, e3]

/-- triangles: faces `(a e, base+2j, base+2j+1)` -/
theorem tris_positions (P : Nat → V3 K) (m : Nat) (a : E → Nat) (x1 x2 : E → V3 K)
    (l : List E) (hl : ∀ e ∈ l, a e < m) (post : List (V3 K)) :
    ∀ (s base : Nat) (pre : List (V3 K)), pre.length = base + 2 * s → m ≤ pre.length →
      (∀ i < m, pre.getD i V3.zero = P i) →
      ((l.zipIdx s).map fun (e, j) => (⟨a e, base + 2 * j, base + 2 * j + 1⟩ : T3 Nat)).map
          (facePos (pre ++ l.flatMap (fun e => [x1 e, x2 e]) ++ post)) =
        l.map fun e => (⟨P (a e), x1 e, x2 e⟩ : T3 (V3 K)) := by
  induction l with
  | nil => intro s base pre _ _ _; simp
  | cons e l ih =>
    intro s base pre hpre hm hP
    have hl' : ∀ e ∈ l, a e < m := fun e' he' => hl e' (by simp [he'])
    have ha := hl e (by simp)
    have hW : pre ++ (e :: l).flatMap (fun e => [x1 e, x2 e]) ++ post =
        (pre ++ [x1 e, x2 e]) ++ l.flatMap (fun e => [x1 e, x2 e]) ++ post := by
      simp [List.flatMap_cons, List.append_assoc]
    have ih' := ih hl' (s + 1) base (pre ++ [x1 e, x2 e]) (by simp [hpre]; omega) (by simp; omega)
      (by
        intro i hi
        rw [getD_append_lt _ _ _ (by omega)]
        exact hP i hi)
    rw [hW]
    have e0 : (pre ++ [x1 e, x2 e] ++ l.flatMap (fun e => [x1 e, x2 e]) ++ post).getD (a e) V3.zero = P (a e) := by
      rw [List.append_assoc, List.append_assoc, getD_append_lt _ _ _ (by omega)]; exact hP _ ha
    have e2 : (pre ++ [x1 e, x2 e] ++ l.flatMap (fun e => [x1 e, x2 e]) ++ post).getD (base + 2 * s) V3.zero = x1 e := by
      rw [List.append_assoc, List.append_assoc, ← hpre]
      have := getD_append_at pre ([x1 e, x2 e] ++ (l.flatMap (fun e => [x1 e, x2 e]) ++ post)) 0
      simpa using this
    have e3 : (pre ++ [x1 e, x2 e] ++ l.flatMap (fun e => [x1 e, x2 e]) ++ post).getD (base + 2 * s + 1) V3.zero = x2 e := by
      rw [List.append_assoc, List.append_assoc, ← hpre]
      have := getD_append_at pre ([x1 e, x2 e] ++ (l.flatMap (fun e => [x1 e, x2 e]) ++ post)) 1
      simpa using this
    rw [List.zipIdx_cons, List.map_cons, List.map_cons, List.map_cons, ih']
    congr 1
    simp only [facePos, T3.map, e0, e2, e3]

/-- validity of the new faces -/
theorem quads_valid (m : Nat) (a b : E → Nat) (l : List E) (hl : ∀ e ∈ l, a e < m ∧ b e < m) (base total : Nat)
    (hm : m ≤ total) :
    ∀ (s : Nat), base + 2 * (s + l.length) ≤ total →
      ∀ f ∈ quadsToTris ((l.zipIdx s).map fun (e, j) => (a e, b e, base + 2 * j, base + 2 * j + 1)),
        f.a < total ∧ f.b < total ∧ f.c < total := by
  induction l with
  | nil => intro s _ f hf; simp [quadsToTris] at hf
  | cons e l ih =>
    intro s hs f hf
    obtain ⟨ha, hb⟩ := hl e (by simp)
    simp only [List.length_cons] at hs
    rw [List.zipIdx_cons, List.map_cons] at hf
    simp only [quadsToTris, List.flatMap_cons, List.mem_append, List.mem_cons, List.not_mem_nil, or_false] at hf
    rcases hf with (rfl | rfl) | hf
    · refine ⟨?_, ?_, ?_⟩ <;> simp only <;> omega
    · refine ⟨?_, ?_, ?_⟩ <;> simp only <;> omega
    · exact ih (fun e' he' => hl e' (by simp [he'])) (s + 1) (by omega) f (by simpa [quadsToTris] using hf)

theorem tris_valid (m : Nat) (a : E → Nat) (l : List E) (hl : ∀ e ∈ l, a e < m) (base total : Nat)
    (hm : m ≤ total) :
    ∀ (s : Nat), base + 2 * (s + l.length) ≤ total →
      ∀ f ∈ (l.zipIdx s).map (fun (e, j) => (⟨a e, base + 2 * j, base + 2 * j + 1⟩ : T3 Nat)),
        f.a < total ∧ f.b < total ∧ f.c < total := by
  induction l with
  | nil => intro s _ f hf; simp at hf
  | cons e l ih =>
    intro s hs f hf
    have ha := hl e (by simp)
    simp only [List.length_cons] at hs
    rw [List.zipIdx_cons, List.map_cons, List.mem_cons] at hf
    rcases hf with rfl | hf
    · refine ⟨?_, ?_, ?_⟩ <;> simp only <;> omega
    · exact ih (fun e' he' => hl e' (by simp [he'])) (s + 1) (by omega) f hf

end PW.Slicing
