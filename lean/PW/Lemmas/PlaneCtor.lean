/-
  PW.Lemmas.PlaneCtor — helper lemmas for C13 (no property statements here).
  Part 1: algebra over an ordered field.  Part 2: ℝ with `Real.sqrt` / `Real.cos` / `Real.sin` / `Real.arccos`.
-/
import PW.Model.PlaneCtor
import PW.Lemmas.Vec
import Mathlib.Tactic.Ring
import Mathlib.Tactic.LinearCombination
import Mathlib.Tactic.Linarith
import Mathlib.Tactic.Positivity
import Mathlib.Tactic.FieldSimp
import Mathlib.Algebra.Order.Field.Basic
import Mathlib.Analysis.Real.Sqrt
import Mathlib.Analysis.SpecialFunctions.Trigonometric.Inverse

set_option linter.unusedSectionVars false
set_option linter.unusedVariables false

namespace PW

/-- the reals as a number system of the model: `Real.sqrt` -/
noncomputable instance c13SqrtReal : PW.Sqrt ℝ := ⟨Real.sqrt⟩
/-- … and `Real.sin`, `Real.cos`, `Real.arccos` -/
noncomputable instance c13TrigReal : PW.Trig ℝ := ⟨Real.sin, Real.cos, Real.arccos⟩

namespace PC

section Field
variable {K : Type} [Field K] [LinearOrder K] [IsStrictOrderedRing K]

theorem absK_eq_abs (x : K) : absK x = |x| := by
  unfold absK
  split_ifs with h
  · exact (abs_of_neg h).symm
  · exact (abs_of_nonneg (not_lt.mp h)).symm

theorem powNat_eq_pow (x : K) (n : Nat) : powNat x n = x ^ n := by
  induction n with
  | zero => simp [powNat]
  | succ n ih => rw [powNat, ih, pow_succ]; ring

theorem ten_eq : (ten : K) = 10 := by unfold ten; norm_num

theorem tenth_eq : (tenth : K) = 1 / 10 := by unfold tenth; rw [ten_eq]

theorem atolOf_eq (d : Nat) : (atolOf d : K) = (1 / 10) ^ d := by
  unfold atolOf; rw [powNat_eq_pow, tenth_eq]

theorem atolOf_nonneg (d : Nat) : (0 : K) ≤ atolOf d := by
  rw [atolOf_eq]; positivity

theorem natCast_eq (n : Nat) : (natCast n : K) = (n : K) := by
  induction n with
  | zero => simp [natCast]
  | succ n ih => simp [natCast, ih]

theorem normSq_nonneg (v : V3 K) : 0 ≤ v.normSq := by
  rw [V3.normSq_def]; nlinarith [mul_self_nonneg v.x, mul_self_nonneg v.y, mul_self_nonneg v.z]

theorem normSq_eq_zero_iff (v : V3 K) : v.normSq = 0 ↔ v = V3.zero := by
  constructor
  · intro h
    rw [V3.normSq_def] at h
    have hx : v.x = 0 := by nlinarith [mul_self_nonneg v.x, mul_self_nonneg v.y, mul_self_nonneg v.z]
    have hy : v.y = 0 := by nlinarith [mul_self_nonneg v.x, mul_self_nonneg v.y, mul_self_nonneg v.z]
    have hz : v.z = 0 := by nlinarith [mul_self_nonneg v.x, mul_self_nonneg v.y, mul_self_nonneg v.z]
    ext <;> simp [hx, hy, hz]
  · rintro rfl; simp [V3.normSq_def]

theorem normSq_pos_of_ne_zero (v : V3 K) (h : v ≠ V3.zero) : 0 < v.normSq :=
  lt_of_le_of_ne (normSq_nonneg v) (fun h0 => h ((normSq_eq_zero_iff v).mp h0.symm))

/-- the cross product is perpendicular to both factors -/
theorem cross_dot_left (a b : V3 K) : (a.cross b).dot a = 0 := by
  simp only [V3.dot_def, V3.cross_x, V3.cross_y, V3.cross_z]; ring
theorem cross_dot_right (a b : V3 K) : (a.cross b).dot b = 0 := by
  simp only [V3.dot_def, V3.cross_x, V3.cross_y, V3.cross_z]; ring

theorem dot_comm (a b : V3 K) : a.dot b = b.dot a := by simp only [V3.dot_def]; ring

theorem dot_sdiv_left (a b : V3 K) (c : K) : (a.sdiv c).dot b = a.dot b / c := by
  simp only [V3.dot_def, V3.sdiv_x, V3.sdiv_y, V3.sdiv_z]; ring

theorem normSq_sdiv (a : V3 K) (c : K) : (a.sdiv c).normSq = a.normSq / (c * c) := by
  by_cases hc : c = 0
  · subst hc; simp [V3.normSq_def]
  · simp only [V3.normSq_def, V3.sdiv_x, V3.sdiv_y, V3.sdiv_z]; field_simp

/-- Lagrange's identity -/
theorem normSq_cross (a b : V3 K) : (a.cross b).normSq = a.normSq * b.normSq - a.dot b * a.dot b := by
  simp only [V3.normSq_def, V3.dot_def, V3.cross_x, V3.cross_y, V3.cross_z]; ring

theorem sd_mk (ref n p : V3 K) : Plane.signedDistance ⟨ref, n⟩ p = (p - ref).dot n := by
  simp only [Plane.signedDistance, signedDistanceEq, Plane.equation, eqNormal, eqOffset, V3.dot_def, V3.sub_x,
    V3.sub_y, V3.sub_z]
  ring

theorem dot_sdiv_right (a b : V3 K) (c : K) : a.dot (b.sdiv c) = a.dot b / c := by
  simp only [V3.dot_def, V3.sdiv_x, V3.sdiv_y, V3.sdiv_z]; ring

theorem sdiv_eq_smul (a : V3 K) (c : K) : a.sdiv c = V3.smul (1 / c) a := by
  ext <;> simp only [V3.sdiv_x, V3.sdiv_y, V3.sdiv_z, V3.smul_x, V3.smul_y, V3.smul_z] <;> ring

end Field

/-! ## ℝ -/

theorem norm_real (v : V3 ℝ) : v.norm = Real.sqrt v.normSq := rfl

theorem norm_pos_iff (v : V3 ℝ) : 0 < v.norm ↔ v ≠ V3.zero := by
  rw [norm_real, Real.sqrt_pos]
  constructor
  · intro h h0; rw [h0] at h; simp [V3.normSq_def] at h
  · exact normSq_pos_of_ne_zero v

theorem norm_eq_one_of_normSq (v : V3 ℝ) (h : v.normSq = 1) : v.norm = 1 := by
  rw [norm_real, h, Real.sqrt_one]

theorem norm_mul_self (v : V3 ℝ) : v.norm * v.norm = v.normSq := by
  rw [norm_real]; exact Real.mul_self_sqrt (normSq_nonneg v)

/-- `vg.normalize` of a non-zero vector is defined … -/
theorem normalize?_of_ne_zero (v : V3 ℝ) (h : v ≠ V3.zero) : normalize? v = some (v.sdiv v.norm) := by
  unfold normalize?
  simp only
  rw [if_pos ((norm_pos_iff v).mpr h)]

/-- … and NaN for the zero vector -/
theorem normalize?_zero (v : V3 ℝ) (h : v = V3.zero) : normalize? v = none := by
  unfold normalize?
  simp only
  rw [if_neg]
  rw [norm_pos_iff]; exact fun h' => h' h

theorem normalize?_eq_some_iff (v u : V3 ℝ) : normalize? v = some u ↔ v ≠ V3.zero ∧ u = v.sdiv v.norm := by
  by_cases h : v = V3.zero
  · rw [normalize?_zero v h]; simp [h]
  · rw [normalize?_of_ne_zero v h]; simp [h, eq_comm]

/-- the normalised vector has unit length -/
theorem normSq_sdiv_norm (v : V3 ℝ) (h : v ≠ V3.zero) : (v.sdiv v.norm).normSq = 1 := by
  rw [normSq_sdiv, norm_mul_self]
  exact div_self (ne_of_gt (normSq_pos_of_ne_zero v h))

/-- a unit vector normalises to itself -/
theorem normalize?_of_unit (v : V3 ℝ) (h : v.normSq = 1) : normalize? v = some v := by
  have hne : v ≠ V3.zero := by
    intro h0; rw [h0] at h; simp [V3.normSq_def] at h
  rw [normalize?_of_ne_zero v hne, norm_eq_one_of_normSq v h]
  congr 1
  ext <;> simp

theorem almostUnitLength_iff (v : V3 ℝ) (atol : ℝ) :
    almostUnitLength v atol = true ↔ |Real.sqrt v.normSq - 1| ≤ atol := by
  unfold almostUnitLength
  rw [decide_eq_true_iff, absK_eq_abs, norm_real]

end PC

namespace Plane
open PC

/-- the constructor accepts exactly the normals with `|‖n‖ − 1| ≤ (1/10)^d` -/
theorem mk?_eq (ref n : V3 ℝ) (d : Option Nat) :
    mk? ref n d =
      if |Real.sqrt n.normSq - 1| ≤ (1 / 10 : ℝ) ^ (d.getD defaultDirectionDecimals) then .ok ⟨ref, n⟩
      else .error .ValueError := by
  unfold mk?
  by_cases h : |Real.sqrt n.normSq - 1| ≤ (1 / 10 : ℝ) ^ (d.getD defaultDirectionDecimals)
  · rw [if_pos h, if_pos]
    rw [almostUnitLength_iff, atolOf_eq]; exact h
  · rw [if_neg h, if_neg]
    rw [almostUnitLength_iff, atolOf_eq]; exact h

/-- a unit normal is accepted at every number of decimals -/
theorem mk?_of_unit (ref n : V3 ℝ) (d : Option Nat) (h : n.normSq = 1) : mk? ref n d = .ok ⟨ref, n⟩ := by
  rw [mk?_eq, if_pos]
  rw [h, Real.sqrt_one]
  simp only [sub_self, abs_zero]
  positivity

end Plane

end PW
