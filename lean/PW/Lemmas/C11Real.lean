/-
  PW.Lemmas.C11Real — the model's operation classes at ℝ (`Real.sqrt`, `Real.sin/cos/arccos`) and the facts about
  norms, unit vectors and orthonormal frames that C11 / C12 need.  No property statements here.
-/
import PW.Vec
import PW.Model.Affine
import PW.Model.Rotation
import PW.Lemmas.Vec
import PW.Lemmas.C11
import Mathlib.Tactic.Ring
import Mathlib.Tactic.LinearCombination
import Mathlib.Tactic.Linarith
import Mathlib.Tactic.Positivity
import Mathlib.Tactic.FieldSimp
import Mathlib.Analysis.Real.Sqrt
import Mathlib.Analysis.SpecialFunctions.Trigonometric.Inverse

set_option linter.unusedSectionVars false

namespace PW.C11

noncomputable instance instSqrtReal : PW.Sqrt ℝ := ⟨Real.sqrt⟩
noncomputable instance instTrigReal : PW.Trig ℝ := ⟨Real.sin, Real.cos, Real.arccos⟩

theorem sqrt_real (x : ℝ) : PW.sqrt x = Real.sqrt x := rfl
theorem sin_real (x : ℝ) : Trig.sin x = Real.sin x := rfl
theorem cos_real (x : ℝ) : Trig.cos x = Real.cos x := rfl
theorem acos_real (x : ℝ) : Trig.acos x = Real.arccos x := rfl

/-! ### orthonormal frames over any field -/

section frame
variable {K : Type} [Field K]

/-- rows `y × z, y, z` for orthonormal `y, z` form a proper rotation (Lagrange's identity) -/
theorem frame_yz (y z : V3 K) (hy : y.dot y = 1) (hz : z.dot z = 1) (hyz : y.dot z = 0) :
    IsRotation (⟨y.cross z, y, z⟩ : M3 K) := by
  have hrows : (⟨y.cross z, y, z⟩ : M3 K).mul (⟨y.cross z, y, z⟩ : M3 K).transpose = M3.one := by
    simp only [V3.dot_def] at hy hz hyz
    ext <;> mat_simp
    · linear_combination (z.x * z.x + z.y * z.y + z.z * z.z) * hy + hz - (y.x * z.x + y.y * z.y + y.z * z.z) * hyz
    · ring
    · ring
    · ring
    · exact hy
    · exact hyz
    · ring
    · linear_combination hyz
    · exact hz
  constructor
  · have := mul_transpose_of_transpose_mul (⟨y.cross z, y, z⟩ : M3 K).transpose hrows
    exact this
  · simp only [V3.dot_def] at hy hz hyz
    mat_simp
    linear_combination (z.x * z.x + z.y * z.y + z.z * z.z) * hy + hz - (y.x * z.x + y.y * z.y + y.z * z.z) * hyz

end frame

/-! ### norms over ℝ -/

theorem normSq_nonneg (v : V3 ℝ) : 0 ≤ v.normSq := by
  simp only [V3.normSq_def]
  exact add_nonneg (add_nonneg (mul_self_nonneg _) (mul_self_nonneg _)) (mul_self_nonneg _)

theorem normSq_eq_zero_iff (v : V3 ℝ) : v.normSq = 0 ↔ v = V3.zero := by
  constructor
  · intro h
    simp only [V3.normSq_def] at h
    have hx : v.x = 0 := by nlinarith [mul_self_nonneg v.x, mul_self_nonneg v.y, mul_self_nonneg v.z]
    have hy : v.y = 0 := by nlinarith [mul_self_nonneg v.x, mul_self_nonneg v.y, mul_self_nonneg v.z]
    have hz : v.z = 0 := by nlinarith [mul_self_nonneg v.x, mul_self_nonneg v.y, mul_self_nonneg v.z]
    ext <;> simp [hx, hy, hz]
  · rintro rfl; simp [V3.normSq_def]

theorem norm_def (v : V3 ℝ) : v.norm = Real.sqrt v.normSq := rfl

theorem norm_mul_self (v : V3 ℝ) : v.norm * v.norm = v.normSq :=
  Real.mul_self_sqrt (normSq_nonneg v)

theorem norm_nonneg (v : V3 ℝ) : 0 ≤ v.norm := Real.sqrt_nonneg _

theorem norm_eq_zero_iff (v : V3 ℝ) : v.norm = 0 ↔ v = V3.zero := by
  rw [norm_def, Real.sqrt_eq_zero (normSq_nonneg v), normSq_eq_zero_iff]

theorem norm_beq_zero (v : V3 ℝ) : (v.norm == 0) = true ↔ v = V3.zero := by
  rw [beq_iff_eq, norm_eq_zero_iff]

theorem norm_pos (v : V3 ℝ) (h : v ≠ V3.zero) : 0 < v.norm :=
  lt_of_le_of_ne (norm_nonneg v) (fun e => h ((norm_eq_zero_iff v).mp e.symm))

/-- `v = ‖v‖ · (v / ‖v‖)` and the quotient is a unit vector -/
theorem normalize_spec (v : V3 ℝ) (h : v ≠ V3.zero) :
    v = V3.smul v.norm (V3.sdiv v v.norm) ∧ (V3.sdiv v v.norm).dot (V3.sdiv v v.norm) = 1 := by
  have hn : v.norm ≠ 0 := (norm_pos v h).ne'
  constructor
  · ext <;> simp only [V3.smul_x, V3.smul_y, V3.smul_z, V3.sdiv_x, V3.sdiv_y, V3.sdiv_z] <;> field_simp
  · have := norm_mul_self v
    simp only [V3.normSq_def] at this
    simp only [V3.dot_def, V3.sdiv_x, V3.sdiv_y, V3.sdiv_z]
    field_simp
    linear_combination -this

/-- Lagrange: `‖a × b‖² = ‖a‖²‖b‖² − (a·b)²` -/
theorem cross_normSq {K : Type} [CommRing K] (a b : V3 K) :
    (a.cross b).normSq = a.normSq * b.normSq - a.dot b * a.dot b := by
  simp only [V3.normSq_def, V3.dot_def, V3.cross_x, V3.cross_y, V3.cross_z]; ring

/-! ### rotations are closed under products; the elementary rotations -/

section rot
variable {K : Type} [Field K]

theorem rotation_one : IsRotation (M3.one : M3 K) := ⟨M3.one_mul _, M3.det_one⟩

theorem rotation_mul (a b : M3 K) (ha : IsRotation a) (hb : IsRotation b) : IsRotation (a.mul b) := by
  constructor
  · rw [M3.transpose_mul, M3.mul_assoc, ← M3.mul_assoc a.transpose, ha.1, M3.one_mul, hb.1]
  · rw [M3.det_mul, ha.2, hb.2, one_mul]

theorem elemRotCS_rotation (a : EulerAxis) (c s : K) (h : c * c + s * s = 1) : IsRotation (elemRotCS a c s) := by
  cases a
  case other => exact rotation_one
  all_goals
    constructor
    · ext <;> simp only [elemRotCS] <;> mat_simp <;> first | ring1 | linear_combination h
    · simp only [elemRotCS]; mat_simp; linear_combination h

theorem eulerStepCS_eq (r : M3 K) (a : EulerAxis) (c s : K) : eulerStepCS r a c s = (elemRotCS a c s).mul r := by
  cases a <;> simp only [eulerStepCS, elemRotCS]
  exact (M3.one_mul r).symm

/-- a left-multiplying fold started at `r₀` is the fold started at `1`, times `r₀` -/
theorem foldl_mul_start {α : Type} (f : α → M3 K) (l : List α) (r0 : M3 K) :
    l.foldl (fun r p => (f p).mul r) r0 = (l.foldl (fun r p => (f p).mul r) M3.one).mul r0 := by
  induction l generalizing r0 with
  | nil => exact (M3.one_mul r0).symm
  | cons p l ih =>
    simp only [List.foldl_cons]
    rw [ih ((f p).mul r0), ih ((f p).mul M3.one), M3.mul_one, M3.mul_assoc]

theorem foldl_mul_rotation {α : Type} (f : α → M3 K) (hf : ∀ p, IsRotation (f p)) (l : List α) (r0 : M3 K)
    (h0 : IsRotation r0) : IsRotation (l.foldl (fun r p => (f p).mul r) r0) := by
  induction l generalizing r0 with
  | nil => exact h0
  | cons p l ih => exact ih _ (rotation_mul _ _ (hf p) h0)

theorem foldl_mul_mulVec {α : Type} (f : α → M3 K) (l : List α) (v : V3 K) :
    (l.foldl (fun r p => (f p).mul r) M3.one).mulVec v = l.foldl (fun v p => (f p).mulVec v) v := by
  induction l generalizing v with
  | nil => exact M3.one_mulVec v
  | cons p l ih =>
    simp only [List.foldl_cons]
    rw [foldl_mul_start, M3.mulVec_mul, M3.mul_one, ih]

end rot

/-! ### the Gram–Schmidt step of rotation_from_up_and_look, in multiplicative form (any field) -/

section gs
variable {K : Type} [Field K]

/-- with `u = n·y`, `y·y = 1`: `‖l − (l·y) y‖² · n² = ‖u × l‖²` -/
theorem z0_normSq (u l y : V3 K) (n : K) (hup : u = V3.smul n y) (hy : y.dot y = 1) :
    (l - V3.smul (l.dot y) y).normSq * (n * n) = (u.cross l).normSq := by
  subst hup
  simp only [V3.dot_def] at hy
  simp only [V3.normSq_def, V3.dot_def, V3.cross_x, V3.cross_y, V3.cross_z, V3.sub_x, V3.sub_y, V3.sub_z,
    V3.smul_x, V3.smul_y, V3.smul_z]
  linear_combination (n * n * ((l.x * y.x + l.y * y.y + l.z * y.z) * (l.x * y.x + l.y * y.y + l.z * y.z)
    - (l.x * l.x + l.y * l.y + l.z * l.z))) * hy

/-- the frame `x = y × z, y, z` built from `u = n·y`, `l − (l·y) y = m·z` with unit `y`, `z`, `m ≠ 0` -/
theorem uplook_frame (u l y z : V3 K) (n m : K) (hup : u = V3.smul n y) (hy : y.dot y = 1) (hz : z.dot z = 1)
    (hz0 : l - V3.smul (l.dot y) y = V3.smul m z) (hm : m ≠ 0) :
    y.dot z = 0 ∧
    (⟨y.cross z, y, z⟩ : M3 K).mulVec u = ⟨0, n, 0⟩ ∧
    (⟨y.cross z, y, z⟩ : M3 K).mulVec l = ⟨0, l.dot y, m⟩ := by
  have h := V3.ext_iff.mp hz0
  simp only [V3.sub_x, V3.sub_y, V3.sub_z, V3.smul_x, V3.smul_y, V3.smul_z, V3.dot_def] at h
  obtain ⟨hx', hy', hz'⟩ := h
  simp only [V3.dot_def] at hy hz
  have hyz : y.dot z = 0 := by
    apply mul_left_cancel₀ hm
    simp only [V3.dot_def]
    linear_combination (-y.x) * hx' + (-y.y) * hy' + (-y.z) * hz' - (l.x * y.x + l.y * y.y + l.z * y.z) * hy
  refine ⟨hyz, ?_, ?_⟩
  · subst hup
    simp only [V3.dot_def] at hyz
    ext <;> mat_simp
    · ring
    · linear_combination n * hy
    · linear_combination n * hyz
  · simp only [V3.dot_def] at hyz
    ext <;> mat_simp
    · linear_combination (y.y * z.z - y.z * z.y) * hx' + (y.z * z.x - y.x * z.z) * hy' + (y.x * z.y - y.y * z.x) * hz'
    · ring
    · linear_combination z.x * hx' + z.y * hy' + z.z * hz' + m * hz + (l.x * y.x + l.y * y.y + l.z * y.z) * hyz

end gs

/-! ### the four exits of rotation_from_up_and_look -/

section exits
variable {K : Type} [Add K] [Sub K] [Mul K] [Div K] [Neg K] [OfNat K 0] [OfNat K 1] [BEq K] [Sqrt K]

/-- `look − (look·y) y` with `y = up/‖up‖` -/
def uplookZ0 (up look : V3 K) : V3 K :=
  look - V3.smul (V3.dot look (V3.sdiv up (V3.norm up))) (V3.sdiv up (V3.norm up))

theorem uplook_exit1 (up look : V3 K) (h1 : (V3.norm up == 0) = true) :
    rotationFromUpAndLook up look = .error .ValueError := by
  unfold rotationFromUpAndLook; simp only [h1, if_true]

theorem uplook_exit2 (up look : V3 K) (h1 : (V3.norm up == 0) = false) (h2 : (V3.norm look == 0) = true) :
    rotationFromUpAndLook up look = .error .ValueError := by
  unfold rotationFromUpAndLook; simp only [h1, h2, if_true, Bool.false_eq_true, if_false]

theorem uplook_exit3 (up look : V3 K) (h1 : (V3.norm up == 0) = false) (h2 : (V3.norm look == 0) = false)
    (h3 : (V3.norm (uplookZ0 up look) == 0) = true) :
    rotationFromUpAndLook up look = .error .ValueError := by
  unfold rotationFromUpAndLook; unfold uplookZ0 at h3
  simp only [h1, h2, h3, if_true, Bool.false_eq_true, if_false]

theorem uplook_exit4 (up look : V3 K) (h1 : (V3.norm up == 0) = false) (h2 : (V3.norm look == 0) = false)
    (h3 : (V3.norm (uplookZ0 up look) == 0) = false) :
    rotationFromUpAndLook up look =
      .ok ⟨V3.cross (V3.sdiv up (V3.norm up)) (V3.sdiv (uplookZ0 up look) (V3.norm (uplookZ0 up look))),
           V3.sdiv up (V3.norm up), V3.sdiv (uplookZ0 up look) (V3.norm (uplookZ0 up look))⟩ := by
  unfold rotationFromUpAndLook; unfold uplookZ0 at h3 ⊢
  simp only [h1, h2, h3, Bool.false_eq_true, if_false]

end exits

theorem norm_beq_zero_false (v : V3 ℝ) : (v.norm == 0) = false ↔ v ≠ V3.zero := by
  rw [← Bool.not_eq_true, norm_beq_zero]

end PW.C11
