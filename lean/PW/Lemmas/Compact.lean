/-
  PW.Lemmas.Compact — the `unique_bincount` renumbering (`PW.Slicing.compact`): helper lemmas.
-/
import PW.Model.Slicing
import Mathlib.Data.List.Basic
import Mathlib.Data.List.Nodup
import Mathlib.Tactic.Linarith

namespace PW.Slicing

/-- indices below `n` satisfying `p`, increasing -/
def uniqueIdx (n : Nat) (p : Nat → Bool) : List Nat := (List.range n).filter p
/-- `(cumsum(unique_bin) - 1)[x]` -/
def rankOf (p : Nat → Bool) (x : Nat) : Nat := ((List.range (x + 1)).filter p).length - 1

theorem unique_rank (n : Nat) (p : Nat → Bool) (x : Nat) (hx : x < n) (hp : p x = true) :
    (uniqueIdx n p)[rankOf p x]? = some x := by
  unfold uniqueIdx rankOf
  obtain ⟨m, rfl⟩ : ∃ m, n = (x + 1) + m := ⟨n - (x + 1), by omega⟩
  rw [List.range_add, List.filter_append, List.range_succ, List.filter_append]
  simp only [List.filter_cons, hp, List.filter_nil, if_true]
  rw [List.getElem?_append_left (by simp)]
  simp

theorem rank_lt (n : Nat) (p : Nat → Bool) (x : Nat) (hx : x < n) (hp : p x = true) :
    rankOf p x < (uniqueIdx n p).length := by
  have := unique_rank n p x hx hp
  exact (List.getElem?_eq_some_iff.mp this).1

theorem unique_mem (n : Nat) (p : Nat → Bool) (y : Nat) : y ∈ uniqueIdx n p ↔ y < n ∧ p y = true := by
  unfold uniqueIdx
  simp [List.mem_filter]

theorem unique_sorted (n : Nat) (p : Nat → Bool) : (uniqueIdx n p).Pairwise (· < ·) :=
  List.Pairwise.filter _ List.pairwise_lt_range

/-- the rank of the `j`-th unique index is `j` -/
theorem rank_of_unique (n : Nat) (p : Nat → Bool) (j : Nat) (hj : j < (uniqueIdx n p).length) :
    rankOf p ((uniqueIdx n p)[j]) = j := by
  have hmem : (uniqueIdx n p)[j] ∈ uniqueIdx n p := List.getElem_mem hj
  obtain ⟨hx, hp⟩ := (unique_mem n p _).mp hmem
  have h1 := unique_rank n p _ hx hp
  have hlt := rank_lt n p _ hx hp
  rw [List.getElem?_eq_getElem hlt] at h1
  have hnd : (uniqueIdx n p).Nodup := (unique_sorted n p).imp (fun h => Nat.ne_of_lt h)
  exact (List.Nodup.getElem_inj_iff hnd).mp (Option.some.inj h1)

/-! connection with the `List Bool` form used by the model -/

theorem usedList_length (n : Nat) (faces : List (T3 Nat)) : (usedList n faces).length = n := by
  simp [usedList]

def usedP (faces : List (T3 Nat)) (x : Nat) : Bool := faces.any fun f => f.a == x || f.b == x || f.c == x

theorem usedList_getD (n : Nat) (faces : List (T3 Nat)) (x : Nat) (hx : x < n) :
    (usedList n faces).getD x false = usedP faces x := by
  simp [usedList, usedP, List.getD, List.getElem?_map, List.getElem?_range hx]

theorem count_take_eq (u : List Bool) (m : Nat) (hm : m ≤ u.length) :
    (u.take m).count true = ((List.range m).filter fun i => u.getD i false).length := by
  induction m with
  | zero => simp
  | succ k ih =>
    have hk : k < u.length := by omega
    rw [List.take_add_one, List.range_succ, List.filter_append, List.count_append, List.length_append,
      ih (by omega)]
    congr 1
    simp only [List.getElem?_eq_getElem hk, Option.toList_some, List.filter_cons, List.filter_nil, List.getD,
      Option.getD_some]
    cases u[k] <;> simp

theorem rankIn_eq (n : Nat) (faces : List (T3 Nat)) (x : Nat) (hx : x < n) :
    rankIn (usedList n faces) x = rankOf (usedP faces) x := by
  unfold rankIn rankOf
  rw [count_take_eq _ _ (by rw [usedList_length]; omega)]
  congr 2
  apply List.filter_congr
  intro i hi
  exact usedList_getD n faces i (by have := List.mem_range.mp hi; omega)

theorem unique_eq (n : Nat) (faces : List (T3 Nat)) :
    ((List.range n).filter fun x => (usedList n faces).getD x false) = uniqueIdx n (usedP faces) := by
  unfold uniqueIdx
  apply List.filter_congr
  intro i hi
  exact usedList_getD n faces i (List.mem_range.mp hi)

theorem usedP_of_mem (faces : List (T3 Nat)) (f : T3 Nat) (hf : f ∈ faces) :
    usedP faces f.a = true ∧ usedP faces f.b = true ∧ usedP faces f.c = true := by
  unfold usedP
  simp only [List.any_eq_true, Bool.or_eq_true, beq_iff_eq]
  exact ⟨⟨f, hf, Or.inl (Or.inl rfl)⟩, ⟨f, hf, Or.inl (Or.inr rfl)⟩, ⟨f, hf, Or.inr rfl⟩⟩

end PW.Slicing
