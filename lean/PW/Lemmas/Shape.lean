/-
  PW.Lemmas.Shape — helper lemmas and the normalising tactic for the shape theorems of C20
  (no property statements here).
-/
import PW.Model.Shape
import Mathlib.Tactic.Common

namespace PW.Shape

@[simp] theorem isOk_ok (u : Unit) : isOk (.ok u) = true := rfl
@[simp] theorem isOk_error (e : Err) : isOk (.error e) = false := rfl

theorem isOk_ite (c : Prop) [Decidable c] (x y : Res Unit) :
    isOk (if c then x else y) = if c then isOk x else isOk y := by
  split <;> rfl

/-- unfolds a generated signature on arguments whose ranks are known into a propositional formula over
    dimension (in)equalities -/
macro "shape_simp" : tactic =>
  `(tactic| simp [accepts, acceptsB, outcome, run, Guard.holds, Act.runK, ArgRef.val, evalAlts, ShapeE.eval,
      evalDims, DimE.eval, argOf, flagOf, atLeast1d, List.lookup, List.all, checkAnyK, matchDims, wildDims, retOf, bindTo, columnizePWK,
      columnizeVGK, numberFits, reshapeOk, prod, isOk_ok, isOk_error, isOk_ite])

/-- case split of one argument: None / Python scalar / array of rank 0, 1, 2, 3, ≥ 4; every case that the
    normaliser (and linear arithmetic on the dimensions) closes is closed -/
macro "shape_cases" x:ident : tactic =>
  `(tactic| (rcases $x:ident with _ | _ | (_ | ⟨_, _ | ⟨_, _ | ⟨_, _ | ⟨_, _⟩⟩⟩⟩) <;>
      try (shape_simp <;> omega)))

end PW.Shape
