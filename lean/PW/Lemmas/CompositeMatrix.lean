/-
  PW.Lemmas.CompositeMatrix — bridge from the model's `M3` / `M4` structures to Mathlib's `Matrix`, used for one
  fact only: over a field a one-sided inverse of a square matrix is two-sided.  (Helper lemmas.)
-/
import PW.Lemmas.CompositeSpec
import Mathlib.LinearAlgebra.Matrix.NonsingularInverse

set_option linter.unusedSectionVars false

namespace PW.CT

variable {K : Type} [Field K]

def toMat4 (m : M4 K) : Matrix (Fin 4) (Fin 4) K :=
  !![m.r0.x, m.r0.y, m.r0.z, m.r0.w; m.r1.x, m.r1.y, m.r1.z, m.r1.w;
     m.r2.x, m.r2.y, m.r2.z, m.r2.w; m.r3.x, m.r3.y, m.r3.z, m.r3.w]

def toMat3 (m : M3 K) : Matrix (Fin 3) (Fin 3) K :=
  !![m.r0.x, m.r0.y, m.r0.z; m.r1.x, m.r1.y, m.r1.z; m.r2.x, m.r2.y, m.r2.z]

theorem toMat4_mul (a b : M4 K) : toMat4 (a * b) = toMat4 a * toMat4 b := by
  ext i j
  fin_cases i <;> fin_cases j <;>
    simp [toMat4, m4_mul_def, M4.mul, V4.dot, M4.col0, M4.col1, M4.col2, M4.col3, Matrix.mul_apply, Fin.sum_univ_four]

theorem toMat4_one : toMat4 (1 : M4 K) = 1 := by
  ext i j
  fin_cases i <;> fin_cases j <;> simp [toMat4, m4_one_def, M4.one]

theorem toMat4_injective {a b : M4 K} (h : toMat4 a = toMat4 b) : a = b := by
  have e : ∀ i j, toMat4 a i j = toMat4 b i j := fun i j => by rw [h]
  ext
  · simpa [toMat4] using e 0 0
  · simpa [toMat4] using e 0 1
  · simpa [toMat4] using e 0 2
  · simpa [toMat4] using e 0 3
  · simpa [toMat4] using e 1 0
  · simpa [toMat4] using e 1 1
  · simpa [toMat4] using e 1 2
  · simpa [toMat4] using e 1 3
  · simpa [toMat4] using e 2 0
  · simpa [toMat4] using e 2 1
  · simpa [toMat4] using e 2 2
  · simpa [toMat4] using e 2 3
  · simpa [toMat4] using e 3 0
  · simpa [toMat4] using e 3 1
  · simpa [toMat4] using e 3 2
  · simpa [toMat4] using e 3 3

/-- a one-sided inverse of a 4×4 matrix over a field is two-sided -/
theorem m4_mul_eq_one_comm {a b : M4 K} (h : a * b = 1) : b * a = 1 := by
  apply toMat4_injective
  rw [toMat4_mul, toMat4_one]
  have : toMat4 a * toMat4 b = 1 := by rw [← toMat4_mul, h, toMat4_one]
  exact mul_eq_one_comm.mp this

theorem toMat3_mul (a b : M3 K) : toMat3 (M3.mul a b) = toMat3 a * toMat3 b := by
  ext i j
  fin_cases i <;> fin_cases j <;>
    simp [toMat3, M3.mul, V3.dot, M3.col0, M3.col1, M3.col2, Matrix.mul_apply, Fin.sum_univ_three]

theorem toMat3_one : toMat3 (M3.one : M3 K) = 1 := by
  ext i j
  fin_cases i <;> fin_cases j <;> simp [toMat3, M3.one]

theorem toMat3_injective {a b : M3 K} (h : toMat3 a = toMat3 b) : a = b := by
  have e : ∀ i j, toMat3 a i j = toMat3 b i j := fun i j => by rw [h]
  ext
  · simpa [toMat3] using e 0 0
  · simpa [toMat3] using e 0 1
  · simpa [toMat3] using e 0 2
  · simpa [toMat3] using e 1 0
  · simpa [toMat3] using e 1 1
  · simpa [toMat3] using e 1 2
  · simpa [toMat3] using e 2 0
  · simpa [toMat3] using e 2 1
  · simpa [toMat3] using e 2 2

/-- a one-sided inverse of a 3×3 matrix over a field is two-sided -/
theorem m3_mul_eq_one_comm {a b : M3 K} (h : M3.mul a b = M3.one) : M3.mul b a = M3.one := by
  apply toMat3_injective
  rw [toMat3_mul, toMat3_one]
  have : toMat3 a * toMat3 b = 1 := by rw [← toMat3_mul, h, toMat3_one]
  exact mul_eq_one_comm.mp this

end PW.CT
