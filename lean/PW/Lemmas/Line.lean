/-
  PW.Lemmas.Line — helper lemmas for C18 (vector algebra over an ordered field, the `Real.sqrt` instance,
  Bool ↔ Prop bridges for the model's tests).  No property statements here.
-/
import PW.Model.Line
import PW.Lemmas.Vec
import Mathlib.Tactic.Ring
import Mathlib.Tactic.LinearCombination
import Mathlib.Tactic.Linarith
import Mathlib.Tactic.FieldSimp
import Mathlib.Tactic.Positivity
import Mathlib.Algebra.Order.Field.Basic
import Mathlib.Analysis.Real.Sqrt

set_option linter.unusedSectionVars false

namespace PW

namespace Lines

/-- the square root used at `K = ℝ` (uniquely named: other properties declare their own copy) -/
noncomputable instance sqrtRealC18 : PW.Sqrt ℝ := ⟨Real.sqrt⟩

theorem sqrt_real_def (x : ℝ) : PW.Sqrt.sqrt x = Real.sqrt x := rfl

section field
variable {K : Type} [Field K] [LinearOrder K] [IsStrictOrderedRing K]

@[simp] theorem v3beq_iff (a b : V3 K) : v3beq a b = true ↔ a = b := by
  unfold v3beq
  simp only [Bool.and_eq_true, beq_iff_eq]
  constructor
  · rintro ⟨⟨h1, h2⟩, h3⟩; exact V3.ext h1 h2 h3
  · rintro rfl; exact ⟨⟨rfl, rfl⟩, rfl⟩

theorem dot_self_nonneg (a : V3 K) : 0 ≤ a.dot a := by
  rw [V3.dot_def]
  have hx := mul_self_nonneg a.x
  have hy := mul_self_nonneg a.y
  have hz := mul_self_nonneg a.z
  linarith

theorem dot_self_eq_zero {a : V3 K} (h : a.dot a = 0) : a.x = 0 ∧ a.y = 0 ∧ a.z = 0 := by
  rw [V3.dot_def] at h
  have hx := mul_self_nonneg a.x
  have hy := mul_self_nonneg a.y
  have hz := mul_self_nonneg a.z
  refine ⟨?_, ?_, ?_⟩ <;> apply mul_self_eq_zero.mp <;> linarith

theorem dot_self_eq_zero_iff (a : V3 K) : a.dot a = 0 ↔ a = V3.zero := by
  constructor
  · intro h
    obtain ⟨h1, h2, h3⟩ := dot_self_eq_zero h
    exact V3.ext h1 h2 h3
  · rintro rfl; simp [V3.dot_def, V3.zero]

theorem sub_eq_zero_iff (a b : V3 K) : a - b = V3.zero ↔ a = b := by
  constructor
  · intro h
    have hx := congrArg V3.x h
    have hy := congrArg V3.y h
    have hz := congrArg V3.z h
    simp only [V3.sub_x, V3.sub_y, V3.sub_z, V3.zero_x, V3.zero_y, V3.zero_z] at hx hy hz
    exact V3.ext (sub_eq_zero.mp hx) (sub_eq_zero.mp hy) (sub_eq_zero.mp hz)
  · rintro rfl; ext <;> simp

theorem sub_dot_self_ne_zero {a b : V3 K} (h : a ≠ b) : (a - b).dot (a - b) ≠ 0 := by
  intro h0
  exact h ((sub_eq_zero_iff a b).mp ((dot_self_eq_zero_iff _).mp h0))

/-- `(f × g) × (f × e) = −(g · (f × e)) f` -/
theorem cross_cross (f g e : V3 K) :
    (f.cross g).cross (f.cross e) = V3.smul (-(g.dot (f.cross e))) f := by
  ext <;> simp only [V3.cross_x, V3.cross_y, V3.cross_z, V3.smul_x, V3.smul_y, V3.smul_z, V3.dot_def] <;> ring

/-- `a × b = 0`, `b ≠ 0` ⟹ `a = ((a·b)/(b·b)) b` -/
theorem eq_smul_of_cross_zero {a b : V3 K} (hb : b.dot b ≠ 0) (h : a.cross b = V3.zero) :
    a = V3.smul (a.dot b / b.dot b) b := by
  have hx := congrArg V3.x h
  have hy := congrArg V3.y h
  have hz := congrArg V3.z h
  simp only [V3.cross_x, V3.cross_y, V3.cross_z, V3.zero_x, V3.zero_y, V3.zero_z] at hx hy hz
  ext <;> simp only [V3.smul_x, V3.smul_y, V3.smul_z] <;> field_simp <;>
    simp only [V3.dot_def]
  · linear_combination b.y * hz - b.z * hy
  · linear_combination b.z * hx - b.x * hz
  · linear_combination b.x * hy - b.y * hx

/-- with `h = f × g`, `k = f × e` and `g · k = 0`: `h = ((h·k)/(k·k)) k` -/
theorem h_parallel_k (f g e : V3 K) (hk : (f.cross e).dot (f.cross e) ≠ 0)
    (hgk : g.dot (f.cross e) = 0) :
    f.cross g = V3.smul ((f.cross g).dot (f.cross e) / (f.cross e).dot (f.cross e)) (f.cross e) := by
  apply eq_smul_of_cross_zero hk
  rw [cross_cross, hgk]
  ext <;> simp

theorem cross_zero_left_dot (f e : V3 K) (hf : f.dot f = 0) : (f.cross e).dot (f.cross e) = 0 := by
  obtain ⟨h1, h2, h3⟩ := dot_self_eq_zero hf
  simp [V3.dot_def, h1, h2, h3]

theorem cross_zero_right_dot (f e : V3 K) (he : e.dot e = 0) : (f.cross e).dot (f.cross e) = 0 := by
  obtain ⟨h1, h2, h3⟩ := dot_self_eq_zero he
  simp [V3.dot_def, h1, h2, h3]

end field

/-! list helper -/

theorem zipWith3_getElem? {α β γ δ : Type} (f : α → β → γ → δ) (as : List α) (bs : List β) (cs : List γ)
    (i : Nat) (a : α) (b : β) (c : γ) (ha : as[i]? = some a) (hb : bs[i]? = some b) (hc : cs[i]? = some c) :
    (zipWith3 f as bs cs)[i]? = some (f a b c) := by
  induction as generalizing bs cs i with
  | nil => simp at ha
  | cons a' as ih =>
    cases bs with
    | nil => simp at hb
    | cons b' bs =>
      cases cs with
      | nil => simp at hc
      | cons c' cs =>
        cases i with
        | zero =>
          simp only [List.getElem?_cons_zero, Option.some.injEq] at ha hb hc
          simp [zipWith3, ha, hb, hc]
        | succ i =>
          simp only [List.getElem?_cons_succ] at ha hb hc
          simp only [zipWith3, List.getElem?_cons_succ]
          exact ih bs cs i ha hb hc

theorem zipWith3_length {α β γ δ : Type} (f : α → β → γ → δ) (as : List α) (bs : List β) (cs : List γ)
    (h1 : as.length = bs.length) (h2 : bs.length = cs.length) : (zipWith3 f as bs cs).length = as.length := by
  induction as generalizing bs cs with
  | nil => simp [zipWith3]
  | cons a' as ih =>
    cases bs with
    | nil => simp at h1
    | cons b' bs =>
      cases cs with
      | nil => simp at h2
      | cons c' cs =>
        simp only [List.length_cons, Nat.add_right_cancel_iff] at h1 h2
        simp [zipWith3, ih bs cs h1 h2]


section field2
variable {K : Type} [Field K] [LinearOrder K] [IsStrictOrderedRing K]

theorem absK_eq_abs (x : K) : absK x = |x| := by
  unfold absK
  split_ifs with h
  · exact (abs_of_neg h).symm
  · exact (abs_of_nonneg (not_lt.mp h)).symm

end field2

/-! `Real.sqrt` facts for the faithful `intersect_lines` -/

theorem norm_beq_zero (a : V3 ℝ) : (a.norm == 0) = (a.dot a == 0) := by
  rw [Bool.eq_iff_iff]
  simp only [beq_iff_eq, V3.norm, V3.normSq, sqrt_real_def]
  exact Real.sqrt_eq_zero (dot_self_nonneg a)

/-- the step of the code, `sign · (|h|/|k|) · e`, is `−((h·k)/(k·k)) · e` when `h = α k` -/
theorem step_eq (h k e p0 : V3 ℝ) (hk : k.dot k ≠ 0)
    (hpar : h = V3.smul (h.dot k / k.dot k) k) :
    p0 + V3.smul (if 0 < h.dot k then (-1 : ℝ) else 1) (V3.smul (h.norm / k.norm) e)
      = p0 - V3.smul (h.dot k / k.dot k) e := by
  obtain ⟨a, ha⟩ : ∃ a, a = h.dot k / k.dot k := ⟨_, rfl⟩
  rw [← ha] at hpar ⊢
  have hkk : 0 < k.dot k := lt_of_le_of_ne (dot_self_nonneg k) (Ne.symm hk)
  have hhk : h.dot k = a * k.dot k := by rw [ha]; field_simp
  have hhh : h.dot h = a * a * k.dot k := by
    have hx := congrArg V3.x hpar
    have hy := congrArg V3.y hpar
    have hz := congrArg V3.z hpar
    simp only [V3.smul_x, V3.smul_y, V3.smul_z] at hx hy hz
    rw [V3.dot_def, V3.dot_def, hx, hy, hz]
    ring
  have hsk : Real.sqrt (k.dot k) ≠ 0 := fun h0 => hk ((Real.sqrt_eq_zero (dot_self_nonneg k)).mp h0)
  have hratio : h.norm / k.norm = |a| := by
    simp only [V3.norm, V3.normSq, sqrt_real_def]
    rw [hhh, Real.sqrt_mul (mul_self_nonneg a), Real.sqrt_mul_self_eq_abs]
    field_simp
  rw [hratio, hhk]
  split_ifs with hs
  · have ha0 : 0 < a := by
      by_contra hn
      have : a * k.dot k ≤ 0 := mul_nonpos_of_nonpos_of_nonneg (not_lt.mp hn) hkk.le
      linarith
    rw [abs_of_pos ha0]
    ext <;> simp only [V3.add_x, V3.add_y, V3.add_z, V3.sub_x, V3.sub_y, V3.sub_z, V3.smul_x, V3.smul_y,
      V3.smul_z] <;> ring
  · have ha0 : a ≤ 0 := by
      by_contra hn
      exact hs (mul_pos (not_le.mp hn) hkk)
    rw [abs_of_nonpos ha0]
    ext <;> simp only [V3.add_x, V3.add_y, V3.add_z, V3.sub_x, V3.sub_y, V3.sub_z, V3.smul_x, V3.smul_y,
      V3.smul_z] <;> ring


end Lines
end PW
