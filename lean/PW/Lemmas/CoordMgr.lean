/-
  PW.Lemmas.CoordMgr — helper lemmas for C04: the conversion matrix between two positions of a step list,
  frame lemmas for the operations of the CoordinateManager model.  No property statements here.
-/
import PW.Model.CoordMgr
import PW.Lemmas.CompositeSpec

set_option linter.unusedSectionVars false

namespace PW.CM

open PW.CT

section Arg
variable {α β γ : Type}

theorem arg_map_map (f : α → β) (g : β → γ) (a : Arg α) : (a.map f).map g = a.map (g ∘ f) := by
  cases a <;> simp [Arg.map]

theorem arg_map_id {f : α → α} (h : ∀ x, f x = x) (a : Arg α) : a.map f = a := by
  have : f = id := funext h
  cases a <;> simp [Arg.map, this]

theorem arg_map_congr {f g : α → β} (h : ∀ x, f x = g x) (a : Arg α) : a.map f = a.map g := by
  have : f = g := funext h
  rw [this]

end Arg

/-! ### conversion matrix between two positions -/

section Conv
variable {K : Type} [CommRing K]

/-- matrix taking coordinates at position `i` (after the first `i` steps) to coordinates at position `j`:
    undo the first `i` steps, then do the first `j` steps -/
def convMatrix (c : Composite K) (i j : Nat) : M4 K := fwdProd (c.take j) * invProd (c.take i)

theorem convMatrix_self {c : Composite K} (h : ∀ s ∈ c, IsInvPair s) (i : Nat) : convMatrix c i i = 1 :=
  fwdProd_mul_invProd fun s hs => h s (List.mem_of_mem_take hs)

theorem convMatrix_trans {c : Composite K} (h : ∀ s ∈ c, IsInvPair s) (i j k : Nat) :
    convMatrix c j k * convMatrix c i j = convMatrix c i k := by
  unfold convMatrix
  have hj : invProd (c.take j) * fwdProd (c.take j) = 1 :=
    invProd_mul_fwdProd fun s hs => h s (List.mem_of_mem_take hs)
  calc fwdProd (c.take k) * invProd (c.take j) * (fwdProd (c.take j) * invProd (c.take i))
      = fwdProd (c.take k) * (invProd (c.take j) * fwdProd (c.take j)) * invProd (c.take i) := by
        simp only [mul_assoc]
    _ = fwdProd (c.take k) * invProd (c.take i) := by rw [hj, mul_one]

theorem fwdProd_extract {c : Composite K} (h : ∀ s ∈ c, IsInvPair s) {i j : Nat} (hij : i ≤ j) :
    fwdProd (c.extract i j) = convMatrix c i j := by
  unfold convMatrix
  rw [take_eq_take_append_extract c hij, fwdProd_append, mul_assoc,
    fwdProd_mul_invProd fun s hs => h s (List.mem_of_mem_take hs), mul_one]

theorem invProd_extract {c : Composite K} (h : ∀ s ∈ c, IsInvPair s) {i j : Nat} (hji : j ≤ i) :
    invProd (c.extract j i) = convMatrix c i j := by
  unfold convMatrix
  rw [take_eq_take_append_extract c hji, invProd_append, ← mul_assoc,
    fwdProd_mul_invProd fun s hs => h s (List.mem_of_mem_take hs), one_mul]

theorem isAffine_convMatrix {c : Composite K} (h : ∀ s ∈ c, IsAffine s.1 ∧ IsAffine s.2) (i j : Nat) :
    IsAffine (convMatrix c i j) :=
  (isAffine_fwdProd fun s hs => (h s (List.mem_of_mem_take hs)).1).mul
    (isAffine_invProd fun s hs => (h s (List.mem_of_mem_take hs)).2)

end Conv

/-! ### frame lemmas -/

section Frame
variable {K : Type} [Add K] [Sub K] [Mul K] [Div K] [Neg K] [OfNat K 0] [OfNat K 1]
  [LT K] [LE K] [DecidableLT K] [DecidableLE K] [BEq K]

theorem lookup_cons (k : String) (v : Nat) (t : List (String × Nat)) (n : String) :
    lookup ((k, v) :: t) n = if k = n then some v else lookup t n := rfl

/-- the transform-appending calls of a script -/
def cmdsOf : List (Op K) → List (StepCmd K)
  | [] => []
  | .step cmd :: rest => cmd :: cmdsOf rest
  | _ :: rest => cmdsOf rest

theorem append_steps (m : State K) (cmd : StepCmd K) :
    (stepOp m (.step cmd)).1.steps = m.steps ++ (if cmd.accepted then [cmd.stepOf] else []) ∧
      (stepOp m (.step cmd)).1.tags = m.tags ∧ (stepOp m (.step cmd)).1.points = m.points := by
  simp only [stepOp, State.append]
  rw [step_eq_build]
  cases hb : cmd.build with
  | ok s => simp [ofRes, StepCmd.accepted, StepCmd.stepOf, hb, bind, Except.bind, pure, Except.pure]
  | error e => simp [ofRes, StepCmd.accepted, hb, bind, Except.bind]

theorem stepOp_steps (m : State K) (op : Op K) :
    (stepOp m op).1.steps = m.steps ++ (acceptedCmds (cmdsOf [op])).map StepCmd.stepOf := by
  cases op with
  | step cmd =>
    rw [(append_steps m cmd).1]
    cases h : cmd.accepted <;> simp [cmdsOf, acceptedCmds, h]
  | tagAs n => simp [stepOp, State.tagAs, cmdsOf, acceptedCmds]
  | set n pts =>
    simp only [stepOp, State.setattr, cmdsOf, acceptedCmds]
    cases lookup m.tags n <;> simp [ofRes]
  | setBad n =>
    simp only [stepOp, State.setattrBadShape, cmdsOf, acceptedCmds]
    cases lookup m.tags n <;> simp [ofRes]
  | get n =>
    simp only [stepOp, cmdsOf, acceptedCmds]
    cases m.getattr n <;> simp [ofPts]
  | doT pts f t =>
    simp only [stepOp, cmdsOf, acceptedCmds]
    cases m.doTransform pts f t <;> simp [ofPts]

theorem stepOp_tags (m : State K) (op : Op K) :
    (stepOp m op).1.tags = match op with
      | .tagAs n => (n, m.steps.length) :: m.tags
      | _ => m.tags := by
  cases op with
  | step cmd => exact (append_steps m cmd).2.1
  | tagAs n => rfl
  | set n pts =>
    simp only [stepOp, State.setattr]
    cases lookup m.tags n <;> simp [ofRes]
  | setBad n =>
    simp only [stepOp, State.setattrBadShape]
    cases lookup m.tags n <;> simp [ofRes]
  | get n =>
    simp only [stepOp]
    cases m.getattr n <;> simp [ofPts]
  | doT pts f t =>
    simp only [stepOp]
    cases m.doTransform pts f t <;> simp [ofPts]

theorem cmdsOf_cons (op : Op K) (rest : List (Op K)) : cmdsOf (op :: rest) = cmdsOf [op] ++ cmdsOf rest := by
  cases op <;> simp [cmdsOf]

theorem run_steps (m : State K) (ops : List (Op K)) :
    (run m ops).1.steps = m.steps ++ (acceptedCmds (cmdsOf ops)).map StepCmd.stepOf := by
  induction ops generalizing m with
  | nil => simp [run, cmdsOf, acceptedCmds]
  | cons op rest ih =>
    simp only [run]
    rw [ih, stepOp_steps, cmdsOf_cons op rest]
    simp [acceptedCmds, List.filter_append]

theorem run_append (m : State K) (a b : List (Op K)) :
    run m (a ++ b) = ((run (run m a).1 b).1, (run m a).2 ++ (run (run m a).1 b).2) := by
  induction a generalizing m with
  | nil => simp [run]
  | cons op rest ih => simp [run, ih]

end Frame

end PW.CM
