/-
  PW.Lemmas.Serialize — helper lemmas for C19 (no property statements here):
    * structural lemmas of the JSON-Schema interpreter `PW.Ser.valid` by cases on the document constructors,
      parametrised by what the (dereferenced) schema node says, so that the property file discharges the
      hypotheses on the *generated* schema by evaluation (`rfl` / `decide`), independent of key order and
      of annotation keywords;
    * the `Rounding` instance of a floor ring (round half to even built from `⌊·⌋`, the same formula as the
      executable `PW.rintRat`) and the half-unit bound;
    * the algebra behind the unit-length check after rounding (Cauchy–Schwarz in three dimensions).
-/
import PW.Model.Serialize
import PW.Lemmas.Vec
import Mathlib.Tactic.Ring
import Mathlib.Tactic.Linarith
import Mathlib.Tactic.NormNum
import Mathlib.Tactic.Positivity
import Mathlib.Tactic.FieldSimp
import Mathlib.Algebra.Order.Field.Basic
import Mathlib.Algebra.Order.Floor.Ring
import Mathlib.Algebra.Order.Floor.Defs
import Mathlib.Data.Rat.Floor

set_option linter.unusedSectionVars false
set_option linter.unusedVariables false

namespace PW.Ser

open PW.Json

/-! ## interpreter -/

section Interp
variable {K : Type}

/-- the dereferenced node of a schema (`null` if `deref` refuses) and a member of a node -/
def nodeOf (root s : Schema) : Schema := (deref root s).getD .null
def sub (k : String) (n : Schema) : Schema := (n.get? k).getD .null
def keysOf : Schema → List String
  | .obj kvs => kvs.map Prod.fst
  | _ => []
/-- the schema `{"$ref": r}` the validator is created with -/
def refS (r : String) : Schema := .obj [("$ref", .str r)]

def strOf : Schema → Option String
  | .str s => some s
  | _ => none
/-- the names listed under `required` -/
def reqNames (n : Schema) : List String :=
  match n.get? "required" with
  | some (.arr names) => names.filterMap strOf
  | _ => []
/-- `required` is absent or a list of strings -/
def reqWF (n : Schema) : Bool :=
  match n.get? "required" with
  | none => true
  | some (.arr names) => names.all fun x => (strOf x).isSome
  | some _ => false

theorem validAll_iff (root it : Schema) (xs : List (Json K)) :
    validAll root it xs = true ↔ ∀ x ∈ xs, valid root it x = true := by
  induction xs with
  | nil => simp [validAll]
  | cons x xs ih => simp [validAll, ih]

theorem validProps_iff (root : Schema) (props addl : Option Schema) (kvs : List (String × Json K)) :
    validProps root props addl kvs = true ↔
      ∀ kv ∈ kvs, (match props.bind (Json.get? kv.1) with
                   | some ps => valid root ps kv.2
                   | none => addlOk addl) = true := by
  induction kvs with
  | nil => simp [validProps]
  | cons kv kvs ih =>
    obtain ⟨k, v⟩ := kv
    simp only [validProps, Bool.and_eq_true, List.forall_mem_cons, ih]
    exact Iff.rfl

theorem lookup_mem {β : Type} (k : String) (v : β) (l : List (String × β)) (h : l.lookup k = some v) :
    (k, v) ∈ l := by
  induction l with
  | nil => simp at h
  | cons kv l ih =>
    obtain ⟨k', v'⟩ := kv
    simp only [List.lookup_cons] at h
    by_cases hk : k = k'
    · subst hk
      simp at h
      simp [h]
    · have : (k == k') = false := by simpa using hk
      rw [this] at h
      exact List.mem_cons_of_mem _ (ih h)

theorem lookup_isSome_iff {β : Type} (k : String) (l : List (String × β)) :
    (l.lookup k).isSome = true ↔ k ∈ l.map Prod.fst := by
  induction l with
  | nil => simp
  | cons kv l ih =>
    obtain ⟨k', v'⟩ := kv
    simp only [List.lookup_cons, List.map_cons, List.mem_cons]
    by_cases hk : k = k'
    · subst hk; simp
    · have : (k == k') = false := by simpa using hk
      rw [this]
      simp [hk, ih]

theorem get?_some_iff (ps : Schema) (k : String) (s' : Schema) :
    ps.get? k = some s' → k ∈ keysOf ps ∧ sub k ps = s' := by
  intro h
  cases ps <;> simp [Json.get?] at h
  case obj kvs =>
    refine ⟨?_, by simp [sub, Json.get?, h]⟩
    simpa [keysOf] using (lookup_isSome_iff k kvs).mp (by simp [h])

theorem get?_of_mem_keys (ps : Schema) (k : String) (h : k ∈ keysOf ps) : ps.get? k = some (sub k ps) := by
  cases ps <;> simp [keysOf] at h
  case obj kvs =>
    have : (kvs.lookup k).isSome = true := (lookup_isSome_iff k kvs).mpr (by simpa using h)
    obtain ⟨v, hv⟩ := Option.isSome_iff_exists.mp this
    simp [Json.get?, sub, hv]

/-- an association list with unique keys, all of them `a` or `b`, both present, has exactly two members -/
theorem two_keys {β : Type} (kvs : List (String × β)) (a b : String) (hab : a ≠ b)
    (hnd : (kvs.map Prod.fst).Nodup) (hsub : ∀ kv ∈ kvs, kv.1 = a ∨ kv.1 = b)
    (ha : (kvs.lookup a).isSome = true) (hb : (kvs.lookup b).isSome = true) :
    ∃ va vb, kvs = [(a, va), (b, vb)] ∨ kvs = [(b, vb), (a, va)] := by
  rw [lookup_isSome_iff] at ha hb
  match kvs, hnd, hsub, ha, hb with
  | [], _, _, ha, _ => simp at ha
  | [(k, v)], _, _, ha, hb =>
    simp at ha hb
    exact absurd (ha.trans hb.symm) hab
  | [(k1, v1), (k2, v2)], hnd, hsub, ha, hb =>
    simp at hnd ha hb
    rcases ha with rfl | rfl <;> rcases hb with rfl | rfl
    · exact absurd rfl hab
    · exact ⟨v1, v2, Or.inl rfl⟩
    · exact ⟨v2, v1, Or.inr rfl⟩
    · exact absurd rfl hab
  | (k1, v1) :: (k2, v2) :: (k3, v3) :: rest, hnd, hsub, _, _ =>
    have h1 := hsub (k1, v1) (by simp)
    have h2 := hsub (k2, v2) (by simp)
    have h3 := hsub (k3, v3) (by simp)
    simp at hnd h1 h2 h3
    rcases h1 with rfl | rfl <;> rcases h2 with rfl | rfl <;> rcases h3 with rfl | rfl <;> simp_all

/-- a node that only says `type: t` for a scalar type -/
theorem valid_leaf {root s n : Schema} {t : String} (doc : Json K)
    (hd : deref root s = some n) (ht : n.get? "type" = some (.str t))
    (h1 : t ≠ "array") (h2 : t ≠ "object") : valid root s doc = typeIs t doc := by
  rw [valid.eq_1, hd]
  simp only [ht, typeOk]
  cases doc <;> simp [typeIs, h1, h2]

/-- a node with `type: array` and `items` -/
theorem valid_array {root s n it : Schema} (doc : Json K)
    (hd : deref root s = some n) (ht : n.get? "type" = some (.str "array"))
    (hi : n.get? "items" = some it) :
    valid root s doc = true ↔
      ∃ xs, doc = .arr xs ∧ lenOk n xs.length = true ∧ ∀ x ∈ xs, valid root it x = true := by
  rw [valid.eq_1, hd]
  simp only [ht, typeOk, hi]
  cases doc <;> simp [typeIs, validAll_iff]

theorem lenOk_iff {n : Schema} {a b : Int} (k : Nat) (hmin : n.get? "minItems" = some (.int a))
    (hmax : n.get? "maxItems" = some (.int b)) : lenOk n k = true ↔ a ≤ (k : Int) ∧ (k : Int) ≤ b := by
  simp [lenOk, hmin, hmax]

theorem lenOk_free {n : Schema} (k : Nat) (hmin : n.get? "minItems" = none)
    (hmax : n.get? "maxItems" = none) : lenOk n k = true := by
  simp [lenOk, hmin, hmax]

theorem requiredOk_iff (n : Schema) (kvs : List (String × Json K)) (hw : reqWF n = true) :
    requiredOk n kvs = true ↔ ∀ name ∈ reqNames n, (kvs.lookup name).isSome = true := by
  unfold requiredOk reqNames
  unfold reqWF at hw
  cases h : n.get? "required" with
  | none => simp
  | some r =>
    rw [h] at hw
    cases r with
    | arr names =>
      simp only [List.all_eq_true, List.mem_filterMap] at hw ⊢
      constructor
      · rintro hall name ⟨x, hx, hs⟩
        have := hall x hx
        cases x <;> simp [strOf] at hs
        subst hs; exact this
      · intro hall x hx
        have hsome := hw x hx
        cases x <;> simp [strOf] at hsome
        exact hall _ ⟨_, hx, rfl⟩
    | null => simp at hw
    | bool _ => simp at hw
    | int _ => simp at hw
    | num _ => simp at hw
    | str _ => simp at hw
    | obj _ => simp at hw

/-- a node with `type: object`, `properties`, and `additionalProperties: false` -/
theorem valid_object {root s n ps : Schema} (doc : Json K)
    (hd : deref root s = some n) (ht : n.get? "type" = some (.str "object"))
    (hp : n.get? "properties" = some ps) (ha : n.get? "additionalProperties" = some (.bool false))
    (hw : reqWF n = true) :
    valid root s doc = true ↔
      ∃ kvs, doc = .obj kvs ∧ (∀ name ∈ reqNames n, (kvs.lookup name).isSome = true) ∧
        ∀ kv ∈ kvs, kv.1 ∈ keysOf ps ∧ valid root (sub kv.1 ps) kv.2 = true := by
  rw [valid.eq_1, hd]
  simp only [ht, typeOk, hp, ha]
  cases doc
  case obj kvs =>
    simp only [typeIs, beq_self_eq_true, Bool.true_and, Bool.and_eq_true, Json.obj.injEq, exists_eq_left']
    rw [requiredOk_iff n kvs hw, validProps_iff]
    apply and_congr_right
    intro _
    apply forall_congr'
    intro kv
    apply imp_congr_right
    intro _
    simp only [Option.bind_some]
    cases h : ps.get? kv.1 with
    | none =>
      simp only [addlOk]
      constructor
      · intro h'; exact absurd h' (by simp)
      · rintro ⟨hk, _⟩
        rw [get?_of_mem_keys ps kv.1 hk] at h
        exact absurd h (by simp)
    | some s' =>
      obtain ⟨hk, hs⟩ := get?_some_iff ps kv.1 s' h
      simp [hk, hs]
  all_goals simp [typeIs]

end Interp

/-! ## documents ↔ vectors -/

section Conv
variable {K : Type} [Rounding K]

theorem toV3_vecJson (v : V3 K) : toV3 (vecJson v) = some v := by
  simp [toV3, vecJson, toNum]

theorem toV3s_map_vecJson (l : List (V3 K)) : toV3s (l.map vecJson) = some l := by
  induction l with
  | nil => simp [toV3s]
  | cons v l ih => simp [toV3s, toV3_vecJson, ih]

end Conv

/-! ## rounding in a floor ring -/

section Floor
variable {K : Type} [Field K] [LinearOrder K] [IsStrictOrderedRing K] [FloorRing K]

/-- round half to even, from the floor (the formula of the executable `PW.rintRat`) -/
def rintFloor (x : K) : Int :=
  let f := ⌊x⌋
  let d := x - (f : K)
  if d < 1 / 2 then f else if 1 / 2 < d then f + 1 else if f % 2 = 0 then f else f + 1

/-- the `Rounding` operations of a floor ring; the theorems of C19 are about this instance -/
scoped instance floorRounding : Rounding K := ⟨fun x => ⌈x⌉, fun x => ⌊x⌋, rintFloor, fun i => (i : K)⟩

theorem rint_def (x : K) : Rounding.rint x = rintFloor x := rfl
theorem ofInt_def (i : Int) : (Rounding.ofInt i : K) = (i : K) := rfl

theorem rintFloor_error (x : K) : |((rintFloor x : Int) : K) - x| ≤ 1 / 2 := by
  have h1 : ((⌊x⌋ : Int) : K) ≤ x := Int.floor_le x
  have h2 : x < ((⌊x⌋ : Int) : K) + 1 := Int.lt_floor_add_one x
  unfold rintFloor
  simp only
  rw [abs_le]
  split_ifs with ha hb hc
  · constructor <;> linarith
  · push_cast; constructor <;> linarith
  · have : x - ((⌊x⌋ : Int) : K) = 1 / 2 := le_antisymm (not_lt.mp hb) (not_lt.mp ha)
    constructor <;> linarith
  · have : x - ((⌊x⌋ : Int) : K) = 1 / 2 := le_antisymm (not_lt.mp hb) (not_lt.mp ha)
    push_cast; constructor <;> linarith

/-- on an exact tie the even neighbour is chosen -/
theorem rintFloor_tie_even (m : Int) : (rintFloor ((m : K) + 1 / 2)) % 2 = 0 := by
  have hf : ⌊(m : K) + 1 / 2⌋ = m := by
    rw [Int.floor_eq_iff]
    constructor <;> norm_num
  unfold rintFloor
  simp only [hf]
  have hd : (m : K) + 1 / 2 - (m : K) = 1 / 2 := by ring
  rw [hd]
  simp only [lt_irrefl, if_false]
  split_ifs with h
  · exact h
  · omega

theorem pow10_eq (d : Nat) : (pow10 d : K) = (10 : K) ^ d := by
  simp [pow10, ofInt_def]

theorem pow10_pos (d : Nat) : (0 : K) < pow10 d := by
  rw [pow10_eq]; positivity

theorem around_eq (d : Nat) (x : K) : around d x = ((rintFloor (x * 10 ^ d) : Int) : K) / 10 ^ d := by
  simp [around, pow10_eq, rint_def, ofInt_def]

theorem around_error' (d : Nat) (x : K) : |around d x - x| ≤ 1 / 2 / 10 ^ d := by
  have hp : (0 : K) < 10 ^ d := by positivity
  rw [around_eq]
  have h := rintFloor_error (x * 10 ^ d)
  have : ((rintFloor (x * 10 ^ d) : Int) : K) / 10 ^ d - x = (((rintFloor (x * 10 ^ d) : Int) : K) - x * 10 ^ d) / 10 ^ d := by
    field_simp
  rw [this, abs_div, abs_of_pos hp]
  exact div_le_div_of_nonneg_right h hp.le

theorem unitTol_eq (d : Nat) : (unitTol d : K) = 1 / 10 ^ d := by
  simp [unitTol, pow10_eq]

theorem unitTol_range (d : Nat) : (0 : K) ≤ unitTol d ∧ (unitTol d : K) ≤ 1 := by
  rw [unitTol_eq]
  have h1 : (1 : K) ≤ 10 ^ d := one_le_pow₀ (by norm_num)
  have h0 : (0 : K) < 10 ^ d := by positivity
  constructor
  · positivity
  · rw [div_le_one h0]; exact h1

theorem unitTol_anti {d d' : Nat} (h : d' ≤ d) : (unitTol d : K) ≤ unitTol d' := by
  rw [unitTol_eq, unitTol_eq]
  have h0 : (0 : K) < 10 ^ d' := by positivity
  exact one_div_le_one_div_of_le h0 (pow_le_pow_right₀ (by norm_num) h)

theorem round_normSq_error (d : Nat) (n : V3 K) :
    (roundV3 d n - n).normSq ≤ 3 / 4 * (unitTol d * unitTol d) := by
  have hx := around_error' d n.x
  have hy := around_error' d n.y
  have hz := around_error' d n.z
  rw [unitTol_eq]
  simp only [V3.normSq_def, V3.sub_x, V3.sub_y, V3.sub_z, roundV3]
  have hsq : ∀ a : K, |a| ≤ 1 / 2 / 10 ^ d → a * a ≤ 1 / 4 * (1 / 10 ^ d * (1 / 10 ^ d)) := by
    intro a ha
    have h := abs_le.mp ha
    have e : (1 : K) / 4 * (1 / 10 ^ d * (1 / 10 ^ d)) = (1 / 2 / 10 ^ d) * (1 / 2 / 10 ^ d) := by ring
    rw [e]
    nlinarith [h.1, h.2]
  have := hsq _ hx
  have := hsq _ hy
  have := hsq _ hz
  linarith

end Floor

/-! ## unit length after rounding -/

section Unit
variable {K : Type} [Field K] [LinearOrder K] [IsStrictOrderedRing K]

/-- Cauchy–Schwarz in three dimensions (Lagrange's identity) -/
theorem dot_sq_le (n e : V3 K) : (n.dot e) * (n.dot e) ≤ n.normSq * e.normSq := by
  simp only [V3.dot_def, V3.normSq_def]
  nlinarith [sq_nonneg (n.x * e.y - n.y * e.x), sq_nonneg (n.y * e.z - n.z * e.y), sq_nonneg (n.z * e.x - n.x * e.z)]

/-- a unit vector moved by `e` with `e·e ≤ ε²`, `0 ≤ ε ≤ 1`, has squared length in `[(1−ε)², (1+ε)²]` -/
theorem normSq_perturbed (n r : V3 K) (ε : K) (hn : n.normSq = 1) (h0 : 0 ≤ ε) (h1 : ε ≤ 1)
    (he : (r - n).normSq ≤ ε * ε) :
    (1 - ε) * (1 - ε) ≤ r.normSq ∧ r.normSq ≤ (1 + ε) * (1 + ε) := by
  have hcs := dot_sq_le n (r - n)
  rw [hn, one_mul] at hcs
  have hq0 : 0 ≤ (r - n).normSq := by
    simp only [V3.normSq_def]
    nlinarith [mul_self_nonneg (r - n).x, mul_self_nonneg (r - n).y, mul_self_nonneg (r - n).z]
  set t := n.dot (r - n) with ht
  set q := (r - n).normSq with hq
  have hr : r.normSq = 1 + 2 * t + q := by
    have : r.normSq = n.normSq + 2 * t + q := by
      simp only [ht, hq, V3.dot_def, V3.normSq_def, V3.sub_x, V3.sub_y, V3.sub_z]; ring
    rw [this, hn]
  have htt : t * t ≤ ε * ε := le_trans hcs he
  have ht1 : t ≤ ε := by
    by_contra h
    have h := not_le.mp h
    nlinarith
  have ht2 : -ε ≤ t := by
    by_contra h
    have h := not_le.mp h
    nlinarith
  rw [hr]
  constructor
  · nlinarith
  · nlinarith

/-- the scalar core of `normSq_perturbed_slack`: `s = n·n`, `t = n·e`, `q = e·e` -/
theorem perturbed_scalar (s t q δ ε a : K) (hδ0 : 0 ≤ δ) (hδ1 : δ < 1)
    (hs1 : 1 - δ ≤ s) (hs2 : s ≤ 1 + δ) (hε : 0 ≤ ε) (ha1 : a ≤ 1) (hq0 : 0 ≤ q) (he : q ≤ ε * ε)
    (hcs : t * t ≤ s * q) (hC : 2 * (1 + δ) * ε + δ * (1 + a) ≤ 2 * a) :
    (1 - a) * (1 - a) ≤ s + 2 * t + q ∧ s + 2 * t + q ≤ (1 + a) * (1 + a) := by
  have hspos : 0 < s := by linarith
  have hδε : 0 ≤ δ * ε := mul_nonneg hδ0 hε
  have ha0 : 0 ≤ a := by
    by_contra h
    have h := not_le.mp h
    have : δ * (1 + a) ≥ δ * a := by nlinarith
    nlinarith
  have hδa : 0 ≤ δ * a := mul_nonneg hδ0 ha0
  have hεa : ε ≤ a := by linarith
  have hτ0 : 0 ≤ (1 + δ) * ε := by positivity
  -- |t| ≤ (1+δ)ε
  have htt : t * t ≤ ((1 + δ) * ε) * ((1 + δ) * ε) := by
    have h1 : s * q ≤ (1 + δ) * q := mul_le_mul_of_nonneg_right hs2 hq0
    have h2 : (1 + δ) * q ≤ (1 + δ) * (ε * ε) := mul_le_mul_of_nonneg_left he (by linarith)
    have h3 : 0 ≤ δ * (1 + δ) * (ε * ε) := by positivity
    have h4 : ((1 + δ) * ε) * ((1 + δ) * ε) = (1 + δ) * (ε * ε) + δ * (1 + δ) * (ε * ε) := by ring
    linarith
  have ht1 : t ≤ (1 + δ) * ε := by
    by_contra h
    have h := not_le.mp h
    have := mul_lt_mul'' h h hτ0 hτ0
    linarith
  have ht2 : -((1 + δ) * ε) ≤ t := by
    by_contra h
    have h := not_le.mp h
    have h' : (1 + δ) * ε < -t := by linarith
    have := mul_lt_mul'' h' h' hτ0 hτ0
    have e : -t * -t = t * t := by ring
    linarith
  constructor
  · have h1 : (s + t) * (s + t) ≤ s * (s + 2 * t + q) := by
      have e : s * (s + 2 * t + q) - (s + t) * (s + t) = s * q - t * t := by ring
      linarith
    have h2 : (1 - a) * (1 + s) ≤ 2 * (s + t) := by
      have hp : (1 - δ) * (1 + a) ≤ s * (1 + a) := mul_le_mul_of_nonneg_right hs1 (by linarith)
      have e1 : (1 - a) * (1 + s) = 1 - a + s - a * s := by ring
      have e2 : s * (1 + a) = s + a * s := by ring
      have e3 : (1 - δ) * (1 + a) = 1 + a - δ * (1 + a) := by ring
      have e4 : 2 * (1 + δ) * ε = 2 * ((1 + δ) * ε) := by ring
      linarith
    have h3 : 0 ≤ (1 - a) * (1 + s) := mul_nonneg (by linarith) (by linarith)
    have h4 : ((1 - a) * (1 + s)) * ((1 - a) * (1 + s)) ≤ (2 * (s + t)) * (2 * (s + t)) :=
      mul_le_mul h2 h2 h3 (le_trans h3 h2)
    have h5 : (4 * s) * ((1 - a) * (1 - a)) ≤ ((1 + s) * (1 + s)) * ((1 - a) * (1 - a)) := by
      apply mul_le_mul_of_nonneg_right _ (mul_self_nonneg _)
      have := mul_self_nonneg (1 - s)
      have e : (1 + s) * (1 + s) - 4 * s = (1 - s) * (1 - s) := by ring
      linarith
    have h6 : s * ((1 - a) * (1 - a)) ≤ s * (s + 2 * t + q) := by
      have e1 : ((1 - a) * (1 + s)) * ((1 - a) * (1 + s)) = ((1 + s) * (1 + s)) * ((1 - a) * (1 - a)) := by ring
      have e2 : (2 * (s + t)) * (2 * (s + t)) = 4 * ((s + t) * (s + t)) := by ring
      have e3 : (4 * s) * ((1 - a) * (1 - a)) = 4 * (s * ((1 - a) * (1 - a))) := by ring
      linarith
    exact le_of_mul_le_mul_left h6 hspos
  · have h1 : ε * ε ≤ a * a := mul_le_mul hεa hεa hε ha0
    have e1 : (1 + a) * (1 + a) = 1 + 2 * a + a * a := by ring
    have e2 : 2 * (1 + δ) * ε = 2 * ((1 + δ) * ε) := by ring
    have e3 : δ * (1 + a) = δ + δ * a := by ring
    linarith

/-- slack version: `n` is unit only up to `δ` (`|n·n − 1| ≤ δ < 1`), it is moved by `e` with `e·e ≤ ε²`; under the
    explicit condition `2(1+δ)ε + δ(1+a) ≤ 2a` (i.e. `(1+δ)·ε + δ(1+a)/2 ≤ a`) the squared length stays in
    `[(1−a)², (1+a)²]`.  Square-root free: Cauchy–Schwarz `t² ≤ (n·n)(e·e)` and `4s ≤ (1+s)²`. -/
theorem normSq_perturbed_slack (n r : V3 K) (δ ε a : K) (hδ0 : 0 ≤ δ) (hδ1 : δ < 1)
    (hn : |n.normSq - 1| ≤ δ) (hε : 0 ≤ ε) (ha1 : a ≤ 1)
    (he : (r - n).normSq ≤ ε * ε) (hC : 2 * (1 + δ) * ε + δ * (1 + a) ≤ 2 * a) :
    (1 - a) * (1 - a) ≤ r.normSq ∧ r.normSq ≤ (1 + a) * (1 + a) := by
  obtain ⟨hs1, hs2⟩ := abs_le.mp hn
  have hcs := dot_sq_le n (r - n)
  have hq0 : 0 ≤ (r - n).normSq := by
    simp only [V3.normSq_def]
    nlinarith [mul_self_nonneg (r - n).x, mul_self_nonneg (r - n).y, mul_self_nonneg (r - n).z]
  have hr : r.normSq = n.normSq + 2 * n.dot (r - n) + (r - n).normSq := by
    simp only [V3.dot_def, V3.normSq_def, V3.sub_x, V3.sub_y, V3.sub_z]; ring
  rw [hr]
  exact perturbed_scalar _ _ _ δ ε a hδ0 hδ1 (by linarith) (by linarith) hε ha1 hq0 he hcs hC

end Unit

end PW.Ser
