/-
  PW.Lemmas.Pointcloud — helper lemmas for the C17 theorems about `extent`: `argmax` returns a maximum and an
  index where it is attained; the probe loop keeps "at least every distance seen so far, and attained".
-/
import PW.Model.Pointcloud
import PW.Lemmas.Vec
import PW.Lemmas.RealNormC16C17
import Mathlib.Tactic.Ring
import Mathlib.Tactic.Linarith
import Mathlib.Order.Lattice
import Mathlib.Analysis.Real.Sqrt

set_option linter.unusedSectionVars false

namespace PW.Pointcloud

section order
variable {K : Type} [LinearOrder K] [Zero K]

theorem argmaxFrom_spec (ds : List K) (i : Nat) (best : K) (bi : Nat) :
    best ≤ (argmaxFrom i best bi ds).1 ∧ (∀ d ∈ ds, d ≤ (argmaxFrom i best bi ds).1) ∧
    (((argmaxFrom i best bi ds).1 = best ∧ (argmaxFrom i best bi ds).2 = bi) ∨
      ∃ t, ds[t]? = some (argmaxFrom i best bi ds).1 ∧ (argmaxFrom i best bi ds).2 = i + t) := by
  induction ds generalizing i best bi with
  | nil => simp [argmaxFrom]
  | cons d ds ih =>
    unfold argmaxFrom
    split_ifs with h
    · obtain ⟨h1, h2, h3⟩ := ih (i + 1) d i
      refine ⟨le_trans h.le h1, ?_, ?_⟩
      · intro x hx
        rcases List.mem_cons.mp hx with rfl | hx
        · exact h1
        · exact h2 x hx
      · right
        rcases h3 with ⟨e1, e2⟩ | ⟨t, e1, e2⟩
        · exact ⟨0, by simp [e1], by simp [e2]⟩
        · exact ⟨t + 1, by simp [e1], by omega⟩
    · obtain ⟨h1, h2, h3⟩ := ih (i + 1) best bi
      refine ⟨h1, ?_, ?_⟩
      · intro x hx
        rcases List.mem_cons.mp hx with rfl | hx
        · exact le_trans (not_lt.mp h) h1
        · exact h2 x hx
      · rcases h3 with h3 | ⟨t, e1, e2⟩
        · left; exact h3
        · right; exact ⟨t + 1, by simp [e1], by omega⟩

/-- `np.argmax` of a non-empty list: the value is an upper bound and sits at the returned index -/
theorem argmax_spec (d : K) (ds : List K) :
    (∀ x ∈ d :: ds, x ≤ (argmax (d :: ds)).1) ∧ (d :: ds)[(argmax (d :: ds)).2]? = some (argmax (d :: ds)).1 := by
  unfold argmax
  obtain ⟨h1, h2, h3⟩ := argmaxFrom_spec ds 1 d 0
  constructor
  · intro x hx
    rcases List.mem_cons.mp hx with rfl | hx
    · exact h1
    · exact h2 x hx
  · rcases h3 with ⟨e1, e2⟩ | ⟨t, e1, e2⟩
    · rw [e2, e1]; rfl
    · rw [e2, Nat.add_comm]; simpa using e1

end order

open PW.RealNorm

theorem dist_nonneg (p q : V3 ℝ) : 0 ≤ dist p q := Real.sqrt_nonneg _

/-- loop invariant after `k` probes: the best distance bounds every distance from the probes seen so far, and it
    is the distance of the recorded pair (before the first probe it is `-1`, no pair) -/
def Inv (pts : List (V3 ℝ)) (k : Nat) (acc : Best ℝ) : Prop :=
  (∀ a p, a < k → pts[a]? = some p → ∀ q ∈ pts, dist q p ≤ acc.1) ∧
  (match acc.2 with
   | none => acc.1 = -1 ∧ k = 0
   | some (a, b) => ∃ p q, pts[a]? = some p ∧ pts[b]? = some q ∧ acc.1 = dist q p)

theorem step_inv (pts : List (V3 ℝ)) (i : Nat) (probe : V3 ℝ) (acc : Best ℝ)
    (hp : pts[i]? = some probe) (h : Inv pts i acc) : Inv pts (i + 1) (step pts acc i probe) := by
  obtain ⟨h1, h2⟩ := h
  -- the distances to the probe: a non-empty list
  have hne : pts ≠ [] := by intro e; rw [e] at hp; simp at hp
  obtain ⟨q0, qs, hq⟩ := List.exists_cons_of_ne_nil hne
  have hmap : pts.map (fun q => dist q probe) = dist q0 probe :: qs.map (fun q => dist q probe) := by
    rw [hq]; rfl
  obtain ⟨a1, a2⟩ := argmax_spec (dist q0 probe) (qs.map (fun q => dist q probe))
  rw [← hmap] at a1 a2
  unfold step
  rcases hA : argmax (pts.map fun q => dist q probe) with ⟨d, j⟩
  rw [hA] at a1 a2
  simp only at a1 a2 ⊢
  have hub : ∀ q ∈ pts, dist q probe ≤ d := fun q hq' => a1 _ (List.mem_map_of_mem hq')
  obtain ⟨qj, hqj, hdj⟩ : ∃ qj, pts[j]? = some qj ∧ dist qj probe = d := by
    rw [List.getElem?_map] at a2
    cases hj : pts[j]? with
    | none => rw [hj] at a2; simp at a2
    | some qj => rw [hj] at a2; exact ⟨qj, rfl, by simpa using a2⟩
  have hd0 : 0 ≤ d := by rw [← hdj]; exact dist_nonneg _ _
  split_ifs with hlt
  · refine ⟨?_, ?_⟩
    · intro a p ha hpa q hq'
      rcases Nat.lt_succ_iff_lt_or_eq.mp ha with ha | rfl
      · exact le_trans (h1 a p ha hpa q hq') hlt.le
      · rw [hp] at hpa; cases hpa; exact hub q hq'
    · exact ⟨probe, qj, hp, hqj, hdj.symm⟩
  · have hle : d ≤ acc.1 := not_lt.mp hlt
    refine ⟨?_, ?_⟩
    · intro a p ha hpa q hq'
      rcases Nat.lt_succ_iff_lt_or_eq.mp ha with ha | rfl
      · exact h1 a p ha hpa q hq'
      · rw [hp] at hpa; cases hpa; exact le_trans (hub q hq') hle
    · cases hacc : acc.2 with
      | none =>
        rw [hacc] at h2
        simp only at h2
        linarith [h2.1]
      | some ab =>
        rw [hacc] at h2
        exact h2

theorem loop_inv (pts : List (V3 ℝ)) (rest : List (V3 ℝ)) (i : Nat) (acc : Best ℝ)
    (hd : pts.drop i = rest) (h : Inv pts i acc) : Inv pts (i + rest.length) (loop pts i acc rest) := by
  induction rest generalizing i acc with
  | nil => simpa [loop] using h
  | cons probe rest ih =>
    have hp : pts[i]? = some probe := by
      have := congrArg (fun l => l[0]?) hd
      simpa [List.getElem?_drop] using this
    have hd' : pts.drop (i + 1) = rest := by
      have := congrArg List.tail hd
      simpa [List.tail_drop] using this
    have := ih (i + 1) (step pts acc i probe) hd' (step_inv pts i probe acc hp h)
    simp only [loop, List.length_cons]
    rw [show i + (rest.length + 1) = i + 1 + rest.length by omega]
    exact this

end PW.Pointcloud
