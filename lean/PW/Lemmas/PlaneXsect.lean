/-
  PW.Lemmas.PlaneXsect — helper lemmas for C14 (no property statements here).
-/
import PW.Model.PlaneXsect
import PW.Lemmas.Vec
import Mathlib.Tactic.Ring
import Mathlib.Tactic.LinearCombination
import Mathlib.Tactic.Linarith
import Mathlib.Tactic.FieldSimp
import Mathlib.Tactic.Tauto
import Mathlib.Algebra.Order.Field.Basic

set_option linter.unusedSectionVars false

namespace PW.XsectLemmas

variable {K : Type} [Field K] [LinearOrder K] [IsStrictOrderedRing K]

open Plane Xsect

/-! ### one coordinate of the bounds test -/

theorem outOfBounds_iff (pt a b : V3 K) :
    outOfBounds pt a b = true ↔
      ((a.x < pt.x ∧ b.x < pt.x) ∨ (a.y < pt.y ∧ b.y < pt.y) ∨ (a.z < pt.z ∧ b.z < pt.z)) ∨
      ((pt.x < a.x ∧ pt.x < b.x) ∨ (pt.y < a.y ∧ pt.y < b.y) ∨ (pt.z < a.z ∧ pt.z < b.z)) := by
  simp only [Xsect.outOfBounds, Bool.or_eq_true, Bool.and_eq_true, decide_eq_true_eq, or_assoc]

theorem mul_pos_pair (p r : K) :
    (0 < p * r ∧ 0 < (p - 1) * r) ↔ (0 < r ∧ 1 < p) ∨ (r < 0 ∧ p < 0) := by
  constructor
  · rintro ⟨h1, h2⟩
    rcases mul_pos_iff.mp h1 with ⟨hp, hr⟩ | ⟨hp, hr⟩
    · rcases mul_pos_iff.mp h2 with ⟨hq, _⟩ | ⟨_, hr'⟩
      · left; exact ⟨hr, by linarith⟩
      · exfalso; linarith
    · right; exact ⟨hr, hp⟩
  · rintro (⟨hr, hp⟩ | ⟨hr, hp⟩)
    · exact ⟨mul_pos (by linarith) hr, mul_pos (by linarith) hr⟩
    · exact ⟨mul_pos_of_neg_of_neg hp hr, mul_pos_of_neg_of_neg (by linarith) hr⟩

theorem mul_neg_pair (p r : K) :
    (p * r < 0 ∧ (p - 1) * r < 0) ↔ (0 < r ∧ p < 0) ∨ (r < 0 ∧ 1 < p) := by
  have h := mul_pos_pair p (-r)
  have e1 : 0 < p * -r ↔ p * r < 0 := by rw [mul_neg, neg_pos]
  have e2 : 0 < (p - 1) * -r ↔ (p - 1) * r < 0 := by rw [mul_neg, neg_pos]
  rw [e1, e2] at h
  rw [h]
  constructor
  · rintro (⟨hr, hp⟩ | ⟨hr, hp⟩)
    · right; exact ⟨by linarith, hp⟩
    · left; exact ⟨by linarith, hp⟩
  · rintro (⟨hr, hp⟩ | ⟨hr, hp⟩)
    · right; exact ⟨by linarith, hp⟩
    · left; exact ⟨by linarith, hp⟩

/-- `pt_c > a_c ∧ pt_c > b_c` for `pt_c = p (b_c − a_c) + a_c` -/
theorem coord_gt (p ac bc : K) :
    (ac < p * (bc - ac) + ac ∧ bc < p * (bc - ac) + ac) ↔
      (0 < bc - ac ∧ 1 < p) ∨ (bc - ac < 0 ∧ p < 0) := by
  rw [← mul_pos_pair]
  constructor
  · rintro ⟨h1, h2⟩; constructor <;> nlinarith
  · rintro ⟨h1, h2⟩; constructor <;> nlinarith

theorem coord_lt (p ac bc : K) :
    (p * (bc - ac) + ac < ac ∧ p * (bc - ac) + ac < bc) ↔
      (0 < bc - ac ∧ p < 0) ∨ (bc - ac < 0 ∧ 1 < p) := by
  rw [← mul_neg_pair]
  constructor
  · rintro ⟨h1, h2⟩; constructor <;> nlinarith
  · rintro ⟨h1, h2⟩; constructor <;> nlinarith

theorem coord_imp (p r : K)
    (h : ((0 < r ∧ 1 < p) ∨ (r < 0 ∧ p < 0)) ∨ ((0 < r ∧ p < 0) ∨ (r < 0 ∧ 1 < p))) : p < 0 ∨ 1 < p := by
  rcases h with (⟨_, h⟩ | ⟨_, h⟩) | (⟨_, h⟩ | ⟨_, h⟩)
  · exact Or.inr h
  · exact Or.inl h
  · exact Or.inl h
  · exact Or.inr h

theorem coord_cases (p r : K) (hr : r ≠ 0) (hp : p < 0 ∨ 1 < p) :
    ((0 < r ∧ 1 < p) ∨ (r < 0 ∧ p < 0)) ∨ ((0 < r ∧ p < 0) ∨ (r < 0 ∧ 1 < p)) := by
  rcases lt_or_gt_of_ne hr with hr | hr <;> rcases hp with hp | hp
  · exact Or.inl (Or.inr ⟨hr, hp⟩)
  · exact Or.inr (Or.inr ⟨hr, hp⟩)
  · exact Or.inr (Or.inl ⟨hr, hp⟩)
  · exact Or.inl (Or.inl ⟨hr, hp⟩)

theorem exists_coord_ne {a b : V3 K} (h : a ≠ b) :
    b.x - a.x ≠ 0 ∨ b.y - a.y ≠ 0 ∨ b.z - a.z ≠ 0 := by
  by_contra hc
  simp only [not_or, not_not] at hc
  obtain ⟨hx, hy, hz⟩ := hc
  apply h
  ext
  · exact (sub_eq_zero.mp hx).symm
  · exact (sub_eq_zero.mp hy).symm
  · exact (sub_eq_zero.mp hz).symm

/-! ### signed distance along a segment / a line -/

theorem sd_eq (pl : Plane K) (p : V3 K) :
    pl.signedDistance p = (p.x - pl.ref.x) * pl.n.x + (p.y - pl.ref.y) * pl.n.y + (p.z - pl.ref.z) * pl.n.z := by
  simp only [signedDistance, signedDistanceEq, equation, eqNormal, eqOffset, V3.dot_def]
  ring

/-- the signed distance is affine along a line -/
theorem sd_line (pl : Plane K) (pt ray : V3 K) (s : K) :
    pl.signedDistance (V3.smul s ray + pt) = pl.signedDistance pt + s * ray.dot pl.n := by
  simp only [sd_eq, V3.dot_def, V3.add_x, V3.add_y, V3.add_z, V3.smul_x, V3.smul_y, V3.smul_z]
  ring

theorem denom_eq (pl : Plane K) (a b : V3 K) :
    (b - a).dot pl.n = pl.signedDistance b - pl.signedDistance a := by
  simp only [sd_eq, V3.dot_def, V3.sub_x, V3.sub_y, V3.sub_z]
  ring

theorem sd_ref (pl : Plane K) : pl.signedDistance pl.ref = 0 := by
  simp only [sd_eq]; ring

theorem num_eq (pl : Plane K) (a : V3 K) :
    (pl.ref - a).dot pl.n = - pl.signedDistance a := by
  simp only [sd_eq, V3.dot_def, V3.sub_x, V3.sub_y, V3.sub_z]
  ring

theorem sd_segment (pl : Plane K) (a b : V3 K) (t : K) :
    pl.signedDistance (a + V3.smul t (b - a)) =
      pl.signedDistance a + t * (pl.signedDistance b - pl.signedDistance a) := by
  simp only [sd_eq, V3.add_x, V3.add_y, V3.add_z, V3.smul_x, V3.smul_y, V3.smul_z, V3.sub_x, V3.sub_y, V3.sub_z]
  ring

theorem ne_of_sd_ne (pl : Plane K) {a b : V3 K} (h : pl.signedDistance a ≠ pl.signedDistance b) : a ≠ b := by
  rintro rfl; exact h rfl

/-! ### sign, abs -/

theorem sgn_pos {x : K} (h : 0 < x) : sgn x = 1 := by simp [sgn, h]
theorem sgn_neg {x : K} (h : x < 0) : sgn x = -1 := by simp [sgn, h, not_lt.mpr (le_of_lt h)]
theorem sgn_zero : sgn (0 : K) = 0 := by simp [sgn]

theorem absK_eq (x : K) : absK x = |x| := by
  unfold absK
  split_ifs with h
  · exact (abs_of_neg h).symm
  · exact (abs_of_nonneg (not_lt.mp h)).symm

/-! ### the parameter -/

theorem param_eq (da db : K) : -da / (db - da) = da / (da - db) := by
  rw [← neg_sub da db, neg_div_neg_eq]

theorem param_pos_lt_one {da db : K} (h : (da < 0 ∧ 0 < db) ∨ (0 < da ∧ db < 0)) :
    0 < da / (da - db) ∧ da / (da - db) < 1 := by
  rcases h with ⟨ha, hb⟩ | ⟨ha, hb⟩
  · have hd : da - db < 0 := by linarith
    refine ⟨div_pos_of_neg_of_neg ha hd, ?_⟩
    rw [div_lt_one_of_neg hd]; linarith
  · have hd : 0 < da - db := by linarith
    refine ⟨div_pos ha hd, ?_⟩
    rw [div_lt_one hd]; linarith

theorem param_outside {da db : K} (h : (0 < da ∧ 0 < db) ∨ (da < 0 ∧ db < 0)) (hne : da ≠ db) :
    da / (da - db) < 0 ∨ 1 < da / (da - db) := by
  have hd : da - db ≠ 0 := sub_ne_zero.mpr hne
  rcases lt_or_gt_of_ne hd with hd | hd
  · rcases h with ⟨ha, hb⟩ | ⟨ha, hb⟩
    · left; exact div_neg_of_pos_of_neg ha hd
    · right; rw [one_lt_div_of_neg hd]; linarith
  · rcases h with ⟨ha, hb⟩ | ⟨ha, hb⟩
    · right; rw [one_lt_div hd]; linarith
    · left; exact div_neg_of_neg_of_pos ha hd

/-! ### polyline walk -/

theorem mem_intersectPlaneFrom (pl : Plane K) (segs : List (V3 K × V3 K)) (i j : Nat) (r : Option (V3 K)) :
    (j, r) ∈ intersectPlaneFrom pl i segs ↔
      ∃ k a b, segs[k]? = some (a, b) ∧ j = i + k ∧
        edgeSelected (pl.signedDistance a) (pl.signedDistance b) = true ∧
        r = edgePoint (pl.signedDistance a) (pl.signedDistance b) a b := by
  induction segs generalizing i with
  | nil => simp [intersectPlaneFrom]
  | cons s rest ih =>
    obtain ⟨a, b⟩ := s
    simp only [intersectPlaneFrom, List.mem_append]
    rw [ih]
    constructor
    · rintro (h | ⟨k, a', b', hk, hj, hs, hr⟩)
      · split_ifs at h with hsel
        · simp only [List.mem_singleton, Prod.mk.injEq] at h
          exact ⟨0, a, b, by simp, by simp [h.1], hsel, h.2⟩
        · simp at h
      · exact ⟨k + 1, a', b', by simpa using hk, by omega, hs, hr⟩
    · rintro ⟨k, a', b', hk, hj, hs, hr⟩
      cases k with
      | zero =>
        simp only [List.getElem?_cons_zero, Option.some.injEq, Prod.mk.injEq] at hk
        obtain ⟨rfl, rfl⟩ := hk
        left
        rw [if_pos hs]
        simp [hj, hr]
      | succ k =>
        right
        exact ⟨k, a', b', by simpa using hk, by omega, hs, hr⟩

theorem intersectPlaneFrom_ge (pl : Plane K) (segs : List (V3 K × V3 K)) (i : Nat) :
    ∀ e ∈ intersectPlaneFrom pl i segs, i ≤ e.1 := by
  intro e he
  obtain ⟨j, r⟩ := e
  obtain ⟨k, _, _, _, hj, _⟩ := (mem_intersectPlaneFrom pl segs i j r).mp he
  simp only; omega

theorem intersectPlaneFrom_sorted (pl : Plane K) (segs : List (V3 K × V3 K)) (i : Nat) :
    (intersectPlaneFrom pl i segs).Pairwise (fun e f => e.1 < f.1) := by
  induction segs generalizing i with
  | nil => simp [intersectPlaneFrom]
  | cons s rest ih =>
    obtain ⟨a, b⟩ := s
    simp only [intersectPlaneFrom]
    rw [List.pairwise_append]
    refine ⟨?_, ih (i + 1), ?_⟩
    · split_ifs <;> simp
    · intro e he f hf
      have hge := intersectPlaneFrom_ge pl rest (i + 1) f hf
      split_ifs at he
      · simp only [List.mem_singleton] at he
        subst he
        simp only; omega
      · simp at he

/-! ### row `i` of `self.segments` is `v[e[i]]` -/

omit [Field K] [LinearOrder K] [IsStrictOrderedRing K] in
theorem segments_getElem (p : Polyline K) (i : Nat) (a b : V3 K) :
    p.segments[i]? = some (a, b) ↔
      ∃ j k, p.edges[i]? = some (j, k) ∧ p.v[j]? = some a ∧ p.v[k]? = some b := by
  obtain ⟨v, closed⟩ := p
  cases v with
  | nil => cases closed <;> simp [Polyline.segments, Polyline.edges, edgesFor, Polyline.numV]
  | cons a0 rest =>
    cases closed
    · simp only [Polyline.segments, Polyline.edges, edgesFor, Polyline.numV, List.length_cons,
        Bool.false_eq_true, if_false, Bool.false_and, Nat.add_sub_cancel, List.getElem?_map,
        List.getElem?_zip_eq_some, Option.map_eq_some_iff, Prod.mk.injEq]
      constructor
      · rintro ⟨h1, h2⟩
        have hi : i < rest.length := (List.getElem?_eq_some_iff.mp h2).1
        exact ⟨i, i + 1, ⟨i, by simp [hi], rfl, rfl⟩, h1, by simpa using h2⟩
      · rintro ⟨j, k, ⟨i', hi', rfl, rfl⟩, h1, h2⟩
        have : i' = i := by
          rw [List.getElem?_range] at hi'
          · simpa using hi'.symm
          · by_contra hc
            rw [List.getElem?_eq_none (by simpa using hc)] at hi'
            exact absurd hi' (by simp)
        subst this
        exact ⟨h1, by simpa using h2⟩
    · simp only [Polyline.segments, Polyline.edges, edgesFor, Polyline.numV, List.length_cons,
        if_true, Bool.true_and, List.getElem?_map,
        List.getElem?_zip_eq_some, Option.map_eq_some_iff, Prod.mk.injEq]
      have hrange : ∀ i', (List.range (rest.length + 1))[i]? = some i' ↔ (i' = i ∧ i < rest.length + 1) := by
        intro i'
        by_cases hi : i < rest.length + 1
        · rw [List.getElem?_range hi]; simp [hi, eq_comm]
        · rw [List.getElem?_eq_none (by simpa using hi)]; simp [hi]
      constructor
      · rintro ⟨h1, h2⟩
        have hi : i < rest.length + 1 := by
          have := (List.getElem?_eq_some_iff.mp h1).1
          simpa using this
        refine ⟨i, _, ⟨i, (hrange i).mpr ⟨rfl, hi⟩, rfl, rfl⟩, h1, ?_⟩
        by_cases hlast : i = rest.length
        · subst hlast
          simp at h2 ⊢
          exact h2
        · have hlt : i < rest.length := by omega
          have hne : (i + 1 == rest.length + 1) = false := by simp [hlast]
          rw [hne]
          rw [List.getElem?_append_left hlt] at h2
          simpa using h2
      · rintro ⟨j, k, ⟨i', hi', rfl, rfl⟩, h1, h2⟩
        obtain ⟨rfl, hi⟩ := (hrange i').mp hi'
        refine ⟨h1, ?_⟩
        by_cases hlast : i' = rest.length
        · subst hlast
          simp at h2 ⊢
          exact h2
        · have hlt : i' < rest.length := by omega
          have hne : (i' + 1 == rest.length + 1) = false := by simp [hlast]
          rw [hne] at h2
          rw [List.getElem?_append_left hlt]
          simpa using h2

end PW.XsectLemmas
