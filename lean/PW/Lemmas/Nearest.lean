/-
  PW.Lemmas.Nearest — helper lemmas for C07 (no property statements here): the clamp, the one-variable
  quadratic, the arg-min scan `pickFrom`.
-/
import PW.Model.Nearest
import PW.Lemmas.Vec
import Mathlib.Tactic.Ring
import Mathlib.Tactic.LinearCombination
import Mathlib.Tactic.Linarith
import Mathlib.Tactic.Positivity
import Mathlib.Tactic.FieldSimp
import Mathlib.Algebra.Order.Field.Basic

set_option linter.unusedSectionVars false

/-- decidable equality of vectors (named, in this namespace, so that it cannot clash with another file's) -/
instance PW.Nearest.v3DecEq {K : Type} [DecidableEq K] : DecidableEq (PW.V3 K) := fun a b =>
  decidable_of_iff (a.x = b.x ∧ a.y = b.y ∧ a.z = b.z)
    ⟨fun ⟨h1, h2, h3⟩ => PW.V3.ext h1 h2 h3, fun h => by subst h; exact ⟨rfl, rfl, rfl⟩⟩

namespace PW.Nearest

variable {K : Type} [Field K] [LinearOrder K] [IsStrictOrderedRing K]

theorem clip01_mem (t : K) : 0 ≤ clip01 t ∧ clip01 t ≤ 1 := by
  unfold clip01
  split_ifs with h1 h2
  · exact ⟨le_refl _, zero_le_one⟩
  · exact ⟨zero_le_one, le_refl _⟩
  · exact ⟨not_lt.mp h1, not_lt.mp h2⟩

theorem clampedRatio_mem (num den : K) : 0 ≤ clampedRatio num den ∧ clampedRatio num den ≤ 1 := by
  unfold clampedRatio
  split_ifs
  · exact clip01_mem _
  · exact ⟨zero_le_one, le_refl _⟩
  · exact ⟨le_refl _, zero_le_one⟩

theorem clampedRatio_pos {num den : K} (h : 0 < den) : clampedRatio num den = clip01 (num / den) := by
  unfold clampedRatio
  rw [if_pos (Or.inr h)]

theorem clampedRatio_zero_den (num : K) : clampedRatio num 0 = if 0 < num then 1 else 0 := by
  unfold clampedRatio
  rw [if_neg (by simp)]

/-- the one-variable fact behind everything: `t = clamp(n/d)` minimises `s ↦ s²d − 2sn` on `[0,1]` -/
theorem quad_min {n d : K} (hd : 0 ≤ d) (h0 : d = 0 → n = 0) {s : K} (hs0 : 0 ≤ s) (hs1 : s ≤ 1) :
    clampedRatio n d * clampedRatio n d * d - 2 * clampedRatio n d * n ≤ s * s * d - 2 * s * n := by
  rcases hd.eq_or_lt with h | h
  · have hn := h0 h.symm
    subst hn
    rw [← h]
    simp
  · rw [clampedRatio_pos h]
    unfold clip01
    have hne : d ≠ 0 := ne_of_gt h
    split_ifs with h1 h2
    · -- n/d < 0, so n < 0
      have hn : n < 0 := by
        have := mul_neg_of_neg_of_pos h1 h
        rwa [div_mul_cancel₀ _ hne] at this
      nlinarith [mul_nonneg hs0 hs0, mul_nonneg (mul_nonneg hs0 hs0) hd, mul_nonneg hs0 (le_of_lt (neg_pos.mpr hn))]
    · -- 1 < n/d, so d < n
      have hn : d < n := by
        have := mul_lt_mul_of_pos_right h2 h
        rwa [div_mul_cancel₀ _ hne, one_mul] at this
      nlinarith [mul_nonneg (sub_nonneg.mpr hs1) (le_of_lt (sub_pos.mpr hn)), mul_nonneg (sub_nonneg.mpr hs1) hd,
        mul_nonneg (mul_nonneg (sub_nonneg.mpr hs1) hs0) hd]
    · -- interior: difference is d (s − n/d)²
      have key : s * s * d - 2 * s * n - (n / d * (n / d) * d - 2 * (n / d) * n) = d * ((s - n / d) * (s - n / d)) := by
        field_simp
        ring
      have : 0 ≤ d * ((s - n / d) * (s - n / d)) := mul_nonneg hd (mul_self_nonneg _)
      linarith

theorem dot_self_eq_zero {v : V3 K} (h : v.dot v = 0) : v.x = 0 ∧ v.y = 0 ∧ v.z = 0 := by
  rw [V3.dot_def] at h
  have hx := mul_self_nonneg v.x
  have hy := mul_self_nonneg v.y
  have hz := mul_self_nonneg v.z
  refine ⟨mul_self_eq_zero.mp (le_antisymm ?_ hx), mul_self_eq_zero.mp (le_antisymm ?_ hy),
    mul_self_eq_zero.mp (le_antisymm ?_ hz)⟩ <;> linarith

theorem dot_self_nonneg (v : V3 K) : 0 ≤ v.dot v := by
  rw [V3.dot_def]
  have hx := mul_self_nonneg v.x
  have hy := mul_self_nonneg v.y
  have hz := mul_self_nonneg v.z
  linarith

/-- squared distance from `q` to the point at parameter `s` of the segment `a, a+v`, as a quadratic in `s` -/
theorem normSq_param (q a v : V3 K) (s : K) :
    ((a + V3.smul s v) - q).normSq = (q - a).dot (q - a) + (s * s * v.dot v - 2 * s * (q - a).dot v) := by
  simp only [V3.normSq_def, V3.dot_def, V3.add_x, V3.add_y, V3.add_z, V3.sub_x, V3.sub_y, V3.sub_z,
    V3.smul_x, V3.smul_y, V3.smul_z]
  ring




/-! ### the arg-min scan -/

/-- invariant of `pickFrom`: `pre` is what has been scanned, `best = pre[bi]` is minimal in it and strictly
    smaller than everything before it; then the result is the first minimum of `pre ++ cs` -/
theorem pickFrom_inv (cs : List (Cand K)) : ∀ (pre : List (Cand K)) (best : Cand K) (bi i : Nat),
    pre.length = i → pre[bi]? = some best → (∀ x ∈ pre, best.dist ≤ x.dist) →
    (∀ k x, k < bi → pre[k]? = some x → best.dist < x.dist) →
    (pre ++ cs)[(pickFrom best bi i cs).1]? = some (pickFrom best bi i cs).2 ∧
    (∀ x ∈ pre ++ cs, (pickFrom best bi i cs).2.dist ≤ x.dist) ∧
    (∀ k x, k < (pickFrom best bi i cs).1 → (pre ++ cs)[k]? = some x → (pickFrom best bi i cs).2.dist < x.dist) := by
  induction cs with
  | nil =>
    intro pre best bi i _ h1 h2 h3
    simp only [pickFrom, List.append_nil]
    exact ⟨h1, h2, h3⟩
  | cons c cs ih =>
    intro pre best bi i hlen h1 h2 h3
    have hbi : bi < pre.length := (List.getElem?_eq_some_iff.mp h1).1
    have happ : pre ++ c :: cs = (pre ++ [c]) ++ cs := by simp
    unfold pickFrom
    split_ifs with hc
    · rw [happ]
      apply ih (pre ++ [c]) c i (i + 1)
      · simp [hlen]
      · rw [← hlen]; simp
      · intro x hx
        rcases List.mem_append.mp hx with hx | hx
        · exact le_of_lt (lt_of_lt_of_le hc (h2 x hx))
        · simp at hx; rw [hx]
      · intro k x hk hkx
        rw [List.getElem?_append_left (by omega)] at hkx
        exact lt_of_lt_of_le hc (h2 x (List.mem_of_getElem? hkx))
    · rw [happ]
      apply ih (pre ++ [c]) best bi (i + 1)
      · simp [hlen]
      · rw [List.getElem?_append_left hbi]; exact h1
      · intro x hx
        rcases List.mem_append.mp hx with hx | hx
        · exact h2 x hx
        · simp at hx; rw [hx]; exact not_lt.mp hc
      · intro k x hk hkx
        rw [List.getElem?_append_left (by omega)] at hkx
        exact h3 k x hk hkx

/-- `pickFrom` started on the head of a non-empty list returns its first minimum -/
theorem pickFrom_first_min (c : Cand K) (cs : List (Cand K)) :
    (c :: cs)[(pickFrom c 0 1 cs).1]? = some (pickFrom c 0 1 cs).2 ∧
    (∀ x ∈ c :: cs, (pickFrom c 0 1 cs).2.dist ≤ x.dist) ∧
    (∀ k x, k < (pickFrom c 0 1 cs).1 → (c :: cs)[k]? = some x → (pickFrom c 0 1 cs).2.dist < x.dist) := by
  have := pickFrom_inv cs [c] c 0 1 rfl rfl (by intro x hx; simp at hx; rw [hx]) (by intro k x hk; omega)
  simpa using this

/-- re-labelling the distances by an order-reflecting function does not change which row is picked -/
theorem pickFrom_map (g : K → K) (cs : List (Cand K)) : ∀ (best : Cand K) (bi i : Nat),
    (∀ x ∈ best :: cs, ∀ y ∈ best :: cs, (g x.dist < g y.dist ↔ x.dist < y.dist)) →
    pickFrom (⟨best.point, best.t, g best.dist⟩ : Cand K) bi i (cs.map fun c => ⟨c.point, c.t, g c.dist⟩) =
      ((pickFrom best bi i cs).1,
        ⟨(pickFrom best bi i cs).2.point, (pickFrom best bi i cs).2.t, g (pickFrom best bi i cs).2.dist⟩) := by
  induction cs with
  | nil => intro best bi i _; simp [pickFrom]
  | cons c cs ih =>
    intro best bi i h
    simp only [List.map_cons, pickFrom]
    have hcb := h c (by simp) best (by simp)
    by_cases hc : c.dist < best.dist
    · rw [if_pos (hcb.mpr hc), if_pos hc]
      apply ih
      intro x hx y hy
      exact h x (List.mem_cons_of_mem _ hx) y (List.mem_cons_of_mem _ hy)
    · rw [if_neg (fun h' => hc (hcb.mp h')), if_neg hc]
      apply ih
      intro x hx y hy
      have hx' : x ∈ best :: c :: cs := by
        rcases List.mem_cons.mp hx with rfl | hx
        · simp
        · exact List.mem_cons_of_mem _ (List.mem_cons_of_mem _ hx)
      have hy' : y ∈ best :: c :: cs := by
        rcases List.mem_cons.mp hy with rfl | hy
        · simp
        · exact List.mem_cons_of_mem _ (List.mem_cons_of_mem _ hy)
      exact h x hx' y hy'

theorem zip3_getElem? {α β γ : Type} : ∀ (as : List α) (bs : List β) (cs : List γ) (i : Nat),
    (zip3 as bs cs)[i]? = (do let a ← as[i]?; let b ← bs[i]?; let c ← cs[i]?; pure (a, b, c)) := by
  intro as
  induction as with
  | nil => intro bs cs i; simp [zip3]
  | cons a as ih =>
    intro bs cs i
    cases bs with
    | nil => simp [zip3]
    | cons b bs =>
      cases cs with
      | nil => cases i <;> simp [zip3]
      | cons c cs =>
        cases i with
        | zero => simp [zip3]
        | succ i => simp [zip3, ih]

theorem zip3_length {α β γ : Type} : ∀ (as : List α) (bs : List β) (cs : List γ),
    (zip3 as bs cs).length = min as.length (min bs.length cs.length) := by
  intro as
  induction as with
  | nil => intro bs cs; simp [zip3]
  | cons a as ih =>
    intro bs cs
    cases bs with
    | nil => simp [zip3]
    | cons b bs =>
      cases cs with
      | nil => simp [zip3]
      | cons c cs => simp [zip3, ih]


/-! ### uniqueness of the closest point, cutting a segment -/

/-- strict version of `quad_min`: the excess over the minimum is at least `d (s − t)²` -/
theorem quad_min_strict {n d : K} (hd : 0 ≤ d) (h0 : d = 0 → n = 0) {s : K} (hs0 : 0 ≤ s) (hs1 : s ≤ 1) :
    clampedRatio n d * clampedRatio n d * d - 2 * clampedRatio n d * n
      + d * ((s - clampedRatio n d) * (s - clampedRatio n d)) ≤ s * s * d - 2 * s * n := by
  rcases hd.eq_or_lt with h | h
  · have hn := h0 h.symm
    subst hn
    rw [← h]
    simp
  · rw [clampedRatio_pos h]
    unfold clip01
    have hne : d ≠ 0 := ne_of_gt h
    split_ifs with h1 h2
    · have hn : n < 0 := by
        have := mul_neg_of_neg_of_pos h1 h
        rwa [div_mul_cancel₀ _ hne] at this
      nlinarith [mul_nonneg hs0 (le_of_lt (neg_pos.mpr hn))]
    · have hn : d < n := by
        have := mul_lt_mul_of_pos_right h2 h
        rwa [div_mul_cancel₀ _ hne, one_mul] at this
      nlinarith [mul_nonneg (sub_nonneg.mpr hs1) (le_of_lt (sub_pos.mpr hn))]
    · have key : s * s * d - 2 * s * n - (n / d * (n / d) * d - 2 * (n / d) * n) = d * ((s - n / d) * (s - n / d)) := by
        field_simp
        ring
      linarith

theorem closestPoint_opt (q a v : V3 K) (s : K) (hs0 : 0 ≤ s) (hs1 : s ≤ 1) :
    (closestPoint q a v - q).normSq ≤ ((a + V3.smul s v) - q).normSq := by
  unfold closestPoint
  rw [normSq_param, normSq_param]
  have h0 : v.dot v = 0 → (q - a).dot v = 0 := by
    intro h
    obtain ⟨hx, hy, hz⟩ := dot_self_eq_zero h
    simp [V3.dot_def, hx, hy, hz]
  have := quad_min (dot_self_nonneg v) h0 hs0 hs1
  unfold closestT
  linarith

/-- uniqueness of the closest point: a point of the segment that is at least as close is the closest point -/
theorem closest_unique (q a v : V3 K) (u : K) (hu0 : 0 ≤ u) (hu1 : u ≤ 1)
    (h : ((a + V3.smul u v) - q).normSq ≤ (closestPoint q a v - q).normSq) :
    a + V3.smul u v = closestPoint q a v := by
  unfold closestPoint at h ⊢
  rw [normSq_param, normSq_param] at h
  have h0 : v.dot v = 0 → (q - a).dot v = 0 := by
    intro h
    obtain ⟨hx, hy, hz⟩ := dot_self_eq_zero h
    simp [V3.dot_def, hx, hy, hz]
  have hs := quad_min_strict (dot_self_nonneg v) h0 hu0 hu1
  unfold closestT at h ⊢
  set t := clampedRatio ((q - a).dot v) (v.dot v) with ht
  have hz : v.dot v * ((u - t) * (u - t)) ≤ 0 := by linarith
  have hnn : 0 ≤ v.dot v * ((u - t) * (u - t)) := mul_nonneg (dot_self_nonneg v) (mul_self_nonneg _)
  have hzero : v.dot v * ((u - t) * (u - t)) = 0 := le_antisymm hz hnn
  rcases mul_eq_zero.mp hzero with hd | hd
  · obtain ⟨hx, hy, hz⟩ := dot_self_eq_zero hd
    ext <;> simp [hx, hy, hz]
  · have : u = t := by
      have := mul_self_eq_zero.mp hd
      linarith
    rw [this]

/-- cutting the segment `a b` at `P = a + s (b − a)`: both halves are no closer than the whole, and one of them
    has the same closest point (hence the same distance) -/
theorem split_segment (q a b : V3 K) (s : K) (hs0 : 0 ≤ s) (hs1 : s ≤ 1) :
    (closestPoint q a (b - a) - q).normSq ≤
        (closestPoint q a ((a + V3.smul s (b - a)) - a) - q).normSq ∧
    (closestPoint q a (b - a) - q).normSq ≤
        (closestPoint q (a + V3.smul s (b - a)) (b - (a + V3.smul s (b - a))) - q).normSq ∧
    (closestPoint q a ((a + V3.smul s (b - a)) - a) = closestPoint q a (b - a) ∨
     closestPoint q (a + V3.smul s (b - a)) (b - (a + V3.smul s (b - a))) = closestPoint q a (b - a)) := by
  set P := a + V3.smul s (b - a) with hP
  set t1 := closestT q a (P - a) with ht1
  set t2 := closestT q P (b - P) with ht2
  set t := closestT q a (b - a) with ht
  have ht1m : 0 ≤ t1 ∧ t1 ≤ 1 := clampedRatio_mem _ _
  have ht2m : 0 ≤ t2 ∧ t2 ≤ 1 := clampedRatio_mem _ _
  have htm : 0 ≤ t ∧ t ≤ 1 := clampedRatio_mem _ _
  have e1 : closestPoint q a (P - a) = a + V3.smul (t1 * s) (b - a) := by
    unfold closestPoint; rw [← ht1, hP]; ext <;> simp <;> ring
  have e2 : closestPoint q P (b - P) = a + V3.smul (s + t2 * (1 - s)) (b - a) := by
    unfold closestPoint; rw [← ht2, hP]; ext <;> simp <;> ring
  have r1 : 0 ≤ t1 * s ∧ t1 * s ≤ 1 := ⟨mul_nonneg ht1m.1 hs0, by nlinarith⟩
  have r2 : 0 ≤ s + t2 * (1 - s) ∧ s + t2 * (1 - s) ≤ 1 := by
    constructor
    · nlinarith [mul_nonneg ht2m.1 (sub_nonneg.mpr hs1)]
    · nlinarith [mul_nonneg (sub_nonneg.mpr ht2m.2) (sub_nonneg.mpr hs1)]
  have le1 : (closestPoint q a (b - a) - q).normSq ≤ (closestPoint q a (P - a) - q).normSq := by
    rw [e1]; exact closestPoint_opt q a (b - a) _ r1.1 r1.2
  have le2 : (closestPoint q a (b - a) - q).normSq ≤ (closestPoint q P (b - P) - q).normSq := by
    rw [e2]; exact closestPoint_opt q a (b - a) _ r2.1 r2.2
  refine ⟨le1, le2, ?_⟩
  by_cases hts : t ≤ s
  · left
    -- the closest point of the whole segment lies on the first half
    have hu : ∃ u, 0 ≤ u ∧ u ≤ 1 ∧ a + V3.smul u (P - a) = closestPoint q a (b - a) := by
      rcases hs0.eq_or_lt with h | h
      · refine ⟨0, le_refl _, zero_le_one, ?_⟩
        have ht0 : t = 0 := le_antisymm (by rw [← h] at hts; exact hts) htm.1
        unfold closestPoint; rw [← ht, ht0]; ext <;> simp
      · refine ⟨t / s, div_nonneg htm.1 hs0, (div_le_one h).mpr hts, ?_⟩
        have hne : s ≠ 0 := ne_of_gt h
        unfold closestPoint; rw [← ht, hP]
        ext <;> simp <;> field_simp
    obtain ⟨u, hu0, hu1, hue⟩ := hu
    have := closestPoint_opt q a (P - a) u hu0 hu1
    rw [hue] at this
    rw [e1]
    apply closest_unique q a (b - a) _ r1.1 r1.2
    rw [← e1]; exact this
  · right
    have hlt : s < t := not_le.mp hts
    have h1s : 0 < 1 - s := by linarith [htm.2]
    have hne : 1 - s ≠ 0 := ne_of_gt h1s
    have hue : P + V3.smul ((t - s) / (1 - s)) (b - P) = closestPoint q a (b - a) := by
      unfold closestPoint; rw [← ht, hP]
      ext <;> simp <;> field_simp <;> ring
    have := closestPoint_opt q P (b - P) ((t - s) / (1 - s)) (div_nonneg (by linarith) (le_of_lt h1s))
      ((div_le_one h1s).mpr (by linarith [htm.2]))
    rw [hue] at this
    rw [e2]
    apply closest_unique q a (b - a) _ r2.1 r2.2
    rw [← e2]; exact this


/-! ### first minimum of a candidate list, and what cutting one row does to it -/

/-- `c = L[k]` is the first minimum (by `dist`) of `L` -/
def FirstMin (L : List (Cand K)) (k : Nat) (c : Cand K) : Prop :=
  L[k]? = some c ∧ (∀ x ∈ L, c.dist ≤ x.dist) ∧ (∀ j x, j < k → L[j]? = some x → c.dist < x.dist)

theorem FirstMin.unique {L : List (Cand K)} {k k' : Nat} {c c' : Cand K}
    (h : FirstMin L k c) (h' : FirstMin L k' c') : k = k' ∧ c = c' := by
  rcases Nat.lt_trichotomy k k' with hlt | heq | hgt
  · have h1 := h'.2.2 k c hlt h.1
    have h2 := h.2.1 c' (List.mem_of_getElem? h'.1)
    exact absurd h1 (not_lt.mpr h2)
  · subst heq
    have := h.1.symm.trans h'.1
    exact ⟨rfl, Option.some.inj this⟩
  · have h1 := h.2.2 k' c' hgt h'.1
    have h2 := h'.2.1 c (List.mem_of_getElem? h.1)
    exact absurd h1 (not_lt.mpr h2)

section split
variable (pre post : List (Cand K)) (c c1 c2 : Cand K)

theorem split_get_lt (j : Nat) (hj : j < pre.length) :
    (pre ++ c1 :: c2 :: post)[j]? = (pre ++ c :: post)[j]? := by
  rw [List.getElem?_append_left hj, List.getElem?_append_left hj]

theorem split_get_gt (j : Nat) (hj : pre.length < j) :
    (pre ++ c1 :: c2 :: post)[j + 1]? = (pre ++ c :: post)[j]? := by
  obtain ⟨m, rfl⟩ : ∃ m, j = pre.length + 1 + m := ⟨j - pre.length - 1, by omega⟩
  rw [List.getElem?_append_right (by omega), List.getElem?_append_right (by omega)]
  have e1 : pre.length + 1 + m + 1 - pre.length = m + 1 + 1 := by omega
  have e2 : pre.length + 1 + m - pre.length = m + 1 := by omega
  rw [e1, e2]
  simp

theorem split_get_at : (pre ++ c1 :: c2 :: post)[pre.length]? = some c1 ∧
    (pre ++ c1 :: c2 :: post)[pre.length + 1]? = some c2 ∧ (pre ++ c :: post)[pre.length]? = some c := by
  refine ⟨?_, ?_, ?_⟩
  · rw [List.getElem?_append_right (le_refl _)]; simp
  · rw [List.getElem?_append_right (by omega)]; simp
  · rw [List.getElem?_append_right (le_refl _)]; simp

theorem split_mem (x : Cand K) (hx : x ∈ pre ++ c1 :: c2 :: post) :
    x = c1 ∨ x = c2 ∨ x ∈ pre ++ c :: post := by
  simp only [List.mem_append, List.mem_cons] at hx ⊢
  tauto

/-- replacing the row `c` by two rows `c1, c2`, both no smaller and one of them equal: the first minimum keeps its
    value and its index moves predictably -/
theorem FirstMin.split {k : Nat} {x : Cand K} (h : FirstMin (pre ++ c :: post) k x)
    (h1 : c.dist ≤ c1.dist) (h2 : c.dist ≤ c2.dist) (h12 : c1.dist = c.dist ∨ c2.dist = c.dist) :
    (k < pre.length → FirstMin (pre ++ c1 :: c2 :: post) k x) ∧
    (k = pre.length → c1.dist = c.dist → FirstMin (pre ++ c1 :: c2 :: post) k c1) ∧
    (k = pre.length → c.dist < c1.dist → FirstMin (pre ++ c1 :: c2 :: post) (k + 1) c2) ∧
    (pre.length < k → FirstMin (pre ++ c1 :: c2 :: post) (k + 1) x) := by
  obtain ⟨hk, hmin, hfirst⟩ := h
  obtain ⟨g1, g2, g0⟩ := split_get_at pre post c c1 c2
  have hc : x.dist ≤ c.dist := hmin c (by simp)
  have hmin' : ∀ y ∈ pre ++ c1 :: c2 :: post, x.dist ≤ y.dist := by
    intro y hy
    rcases split_mem pre post c c1 c2 y hy with rfl | rfl | hy
    · exact le_trans hc h1
    · exact le_trans hc h2
    · exact hmin y hy
  refine ⟨?_, ?_, ?_, ?_⟩
  · intro hlt
    refine ⟨by rw [split_get_lt pre post c c1 c2 k hlt]; exact hk, hmin', ?_⟩
    intro j y hj hy
    rw [split_get_lt pre post c c1 c2 j (by omega)] at hy
    exact hfirst j y hj hy
  · intro he hd
    subst he
    have hxc : x = c := Option.some.inj (hk.symm.trans g0)
    subst hxc
    refine ⟨g1, ?_, ?_⟩
    · intro y hy; rw [hd]; exact hmin' y hy
    · intro j y hj hy
      rw [split_get_lt pre post x c1 c2 j hj] at hy
      rw [hd]; exact hfirst j y hj hy
  · intro he hd
    subst he
    have hxc : x = c := Option.some.inj (hk.symm.trans g0)
    subst hxc
    have hd2 : c2.dist = x.dist := by
      rcases h12 with h | h
      · exact absurd h (ne_of_gt hd)
      · exact h
    refine ⟨g2, ?_, ?_⟩
    · intro y hy; rw [hd2]; exact hmin' y hy
    · intro j y hj hy
      rw [hd2]
      rcases Nat.lt_or_ge j pre.length with hjl | hjl
      · rw [split_get_lt pre post x c1 c2 j hjl] at hy
        exact hfirst j y hjl hy
      · have : j = pre.length := by omega
        subst this
        have : y = c1 := Option.some.inj (hy.symm.trans g1)
        rw [this]; exact hd
  · intro hgt
    have hlt : x.dist < c.dist := hfirst pre.length c hgt g0
    refine ⟨by rw [split_get_gt pre post c c1 c2 k hgt]; exact hk, hmin', ?_⟩
    intro j y hj hy
    rcases Nat.lt_trichotomy j pre.length with hjl | hjl | hjl
    · rw [split_get_lt pre post c c1 c2 j hjl] at hy
      exact hfirst j y (by omega) hy
    · subst hjl
      have : y = c1 := Option.some.inj (hy.symm.trans g1)
      rw [this]; exact lt_of_lt_of_le hlt h1
    · rcases Nat.eq_or_lt_of_le (Nat.succ_le_of_lt hjl) with hje | hjg
      · have : j = pre.length + 1 := by omega
        subst this
        have : y = c2 := Option.some.inj (hy.symm.trans g2)
        rw [this]; exact lt_of_lt_of_le hlt h2
      · obtain ⟨j', rfl⟩ : ∃ j', j = j' + 1 := ⟨j - 1, by omega⟩
        rw [split_get_gt pre post c c1 c2 j' (by omega)] at hy
        exact hfirst j' y (by omega) hy
end split

/-- a half that is at least as close as the whole segment has the whole segment's closest point -/
theorem split_half_eq (q a b : V3 K) (s : K) (hs0 : 0 ≤ s) (hs1 : s ≤ 1) :
    ((closestPoint q a ((a + V3.smul s (b - a)) - a) - q).normSq ≤ (closestPoint q a (b - a) - q).normSq →
      closestPoint q a ((a + V3.smul s (b - a)) - a) = closestPoint q a (b - a)) ∧
    ((closestPoint q (a + V3.smul s (b - a)) (b - (a + V3.smul s (b - a))) - q).normSq ≤
        (closestPoint q a (b - a) - q).normSq →
      closestPoint q (a + V3.smul s (b - a)) (b - (a + V3.smul s (b - a))) = closestPoint q a (b - a)) := by
  set P := a + V3.smul s (b - a) with hP
  set t1 := closestT q a (P - a) with ht1
  set t2 := closestT q P (b - P) with ht2
  have ht1m : 0 ≤ t1 ∧ t1 ≤ 1 := clampedRatio_mem _ _
  have ht2m : 0 ≤ t2 ∧ t2 ≤ 1 := clampedRatio_mem _ _
  have e1 : closestPoint q a (P - a) = a + V3.smul (t1 * s) (b - a) := by
    unfold closestPoint; rw [← ht1, hP]; ext <;> simp <;> ring
  have e2 : closestPoint q P (b - P) = a + V3.smul (s + t2 * (1 - s)) (b - a) := by
    unfold closestPoint; rw [← ht2, hP]; ext <;> simp <;> ring
  have r1 : 0 ≤ t1 * s ∧ t1 * s ≤ 1 := ⟨mul_nonneg ht1m.1 hs0, by nlinarith⟩
  have r2 : 0 ≤ s + t2 * (1 - s) ∧ s + t2 * (1 - s) ≤ 1 := by
    constructor
    · nlinarith [mul_nonneg ht2m.1 (sub_nonneg.mpr hs1)]
    · nlinarith [mul_nonneg (sub_nonneg.mpr ht2m.2) (sub_nonneg.mpr hs1)]
  constructor
  · intro h
    rw [e1] at h ⊢
    exact closest_unique q a (b - a) _ r1.1 r1.2 h
  · intro h
    rw [e2] at h ⊢
    exact closest_unique q a (b - a) _ r2.1 r2.2 h

/-- what `nearestOne` returns is the first minimum of the candidate list -/
theorem nearestOne_firstMin (f : K → K) (pl : Polyline K) (q : V3 K) (h : Hit K)
    (hn : nearestOne f pl q = .ok h) :
    FirstMin (pl.segments.map (cand f q)) h.index ⟨h.point, h.t, h.dist⟩ := by
  unfold nearestOne at hn
  cases hs : pl.segments with
  | nil => rw [hs] at hn; cases hn
  | cons s ss =>
    rw [hs] at hn
    injection hn with hn
    subst hn
    exact pickFrom_first_min (cand f q s) (ss.map (cand f q))

/-- conversely the first minimum determines what `nearestOne` returns -/
theorem nearestOne_of_firstMin (f : K → K) (pl : Polyline K) (q : V3 K) (h : Hit K)
    (hn : nearestOne f pl q = .ok h) (k : Nat) (c : Cand K)
    (hfm : FirstMin (pl.segments.map (cand f q)) k c) :
    h.index = k ∧ h.point = c.point ∧ h.t = c.t ∧ h.dist = c.dist := by
  have := (nearestOne_firstMin f pl q h hn).unique hfm
  obtain ⟨h1, h2⟩ := this
  rw [← h2]
  exact ⟨h1, rfl, rfl, rfl⟩

/-! ### list surgery behind sliced_at_points -/

section lists
variable {K : Type}

theorem insertBefore_append (p s : List (V3 K)) (A : V3 K) :
    insertBefore (p ++ s) p.length A = p ++ A :: s := by
  unfold insertBefore
  simp

theorem insertBefore_zero (v : List (V3 K)) (A : V3 K) : insertBefore v 0 A = A :: v := by
  unfold insertBefore
  simp

/-- forward: `v = p ++ m ++ s`, `A` inserted after `p`, then `B` inserted after `m` -/
theorem slice_forward (p m s : List (V3 K)) (A B : V3 K) :
    ((insertBefore (insertBefore (p ++ m ++ s) p.length A) (p.length + 1 + m.length) B).drop p.length).take
        (p.length + 1 + m.length + 1 - p.length) = A :: m ++ [B] := by
  have h1 : insertBefore (p ++ m ++ s) p.length A = (p ++ A :: m) ++ s := by
    rw [List.append_assoc, insertBefore_append]; simp
  have h2 : (p ++ A :: m).length = p.length + 1 + m.length := by simp; omega
  rw [h1, ← h2, insertBefore_append]
  have h3 : (p ++ A :: m) ++ B :: s = p ++ ((A :: m ++ [B]) ++ s) := by simp
  rw [h3, List.drop_left']
  · have : (p ++ A :: m).length + 1 - p.length = (A :: m ++ [B]).length := by simp; omega
    rw [this, List.take_left']
    rfl
  · rfl

/-- backward: `v = p ++ m ++ s`, `A` inserted after `p ++ m`, then `B` inserted after `p` -/
theorem slice_backward (p m s : List (V3 K)) (A B : V3 K) :
    insertBefore (insertBefore (p ++ m ++ s) (p.length + m.length) A) p.length B = p ++ B :: m ++ A :: s := by
  have h1 : insertBefore (p ++ m ++ s) (p.length + m.length) A = p ++ (m ++ A :: s) := by
    rw [← List.length_append, insertBefore_append]; simp
  rw [h1, insertBefore_append]
  simp

theorem numE_eq (pl : Polyline K) : pl.numE = if pl.closed then pl.v.length else pl.v.length - 1 := by
  unfold Polyline.numE Polyline.edges edgesFor Polyline.numV
  simp

theorem segments_length (pl : Polyline K) : pl.segments.length = pl.numE := by
  rw [numE_eq]
  unfold Polyline.segments
  cases h : pl.v with
  | nil => simp
  | cons a rest =>
    cases pl.closed <;> simp [List.length_zip]

theorem edgeEnd_inner (v : List (V3 K)) (c : Bool) (i : Nat) (h : c = false ∨ i + 1 < v.length) :
    edgeEnd ⟨v, c⟩ i = i + 1 := by
  unfold edgeEnd
  rw [numE_eq]
  rcases h with h | h
  · simp [h]
  · cases c
    · simp
    · simp; omega

theorem edgeEnd_closing (v : List (V3 K)) (i : Nat) (h : i + 1 = v.length) :
    edgeEnd ⟨v, true⟩ i = 0 := by
  unfold edgeEnd
  rw [numE_eq]
  simp [h]

theorem slicedAtIndices_lt (v : List (V3 K)) (c : Bool) (start stop : Nat) (h : start < stop) :
    slicedAtIndices ⟨v, c⟩ start stop = .ok ⟨(v.drop start).take (stop - start), false⟩ := by
  unfold slicedAtIndices
  rw [if_neg (by omega)]

theorem slicedAtIndices_open_le (v : List (V3 K)) (start stop : Nat) (h : stop ≤ start) :
    slicedAtIndices ⟨v, false⟩ start stop = .error .ValueError := by
  unfold slicedAtIndices
  rw [if_pos h]; rfl

theorem slicedAtIndices_wrap (v : List (V3 K)) (start stop : Nat) (h : stop ≤ start) (hlt : start < v.length) :
    slicedAtIndices ⟨v, true⟩ start stop = .ok ⟨v.drop start ++ v.take stop, false⟩ := by
  unfold slicedAtIndices
  rw [if_pos h, if_pos rfl]
  unfold rotl
  simp only
  rw [Nat.mod_eq_of_lt hlt]
  have h1 : (v.drop start).length = v.length - start := List.length_drop
  rw [List.take_append, List.take_of_length_le (by omega), h1, List.take_take]
  have : v.length - start + stop - (v.length - start) = stop := by omega
  rw [this, Nat.min_eq_left h]

/-- the segment list around an inner edge `x → y`, before and after a vertex `P` is inserted on it -/
theorem segments_split_inner (p' s' : List (V3 K)) (x y P : V3 K) (c : Bool) :
    ∃ pre post, pre.length = p'.length ∧
      (⟨p' ++ x :: y :: s', c⟩ : Polyline K).segments = pre ++ (x, y) :: post ∧
      (⟨p' ++ x :: P :: y :: s', c⟩ : Polyline K).segments = pre ++ (x, P) :: (P, y) :: post := by
  cases p' with
  | nil =>
    refine ⟨[], List.zip (y :: s') (if c then s' ++ [x] else s'), rfl, ?_, ?_⟩
    · simp only [Polyline.segments, List.nil_append]
      cases c <;> simp
    · simp only [Polyline.segments, List.nil_append]
      cases c <;> simp
  | cons a p'' =>
    refine ⟨List.zip (a :: p'') (p'' ++ [x]), List.zip (y :: s') (if c then s' ++ [a] else s'), by simp, ?_, ?_⟩
    · simp only [Polyline.segments, List.cons_append]
      cases c
      · simp only [Bool.false_eq_true, if_false]
        have : p'' ++ x :: y :: s' = (p'' ++ [x]) ++ y :: s' := by simp
        rw [this]
        have h2 : a :: ((p'' ++ [x]) ++ y :: s') = (a :: p'') ++ x :: y :: s' := by simp
        rw [h2, List.zip_append (by simp)]
        simp
      · simp only [if_true]
        have : p'' ++ x :: y :: s' ++ [a] = (p'' ++ [x]) ++ y :: (s' ++ [a]) := by simp
        rw [this]
        have h2 : a :: (p'' ++ x :: y :: s') = (a :: p'') ++ x :: y :: s' := by simp
        rw [h2, List.zip_append (by simp)]
        simp
    · simp only [Polyline.segments, List.cons_append]
      cases c
      · simp only [Bool.false_eq_true, if_false]
        have : p'' ++ x :: P :: y :: s' = (p'' ++ [x]) ++ P :: y :: s' := by simp
        rw [this]
        have h2 : a :: ((p'' ++ [x]) ++ P :: y :: s') = (a :: p'') ++ x :: P :: y :: s' := by simp
        rw [h2, List.zip_append (by simp)]
        simp
      · simp only [if_true]
        have : p'' ++ x :: P :: y :: s' ++ [a] = (p'' ++ [x]) ++ P :: y :: (s' ++ [a]) := by simp
        rw [this]
        have h2 : a :: (p'' ++ x :: P :: y :: s') = (a :: p'') ++ x :: P :: y :: s' := by simp
        rw [h2, List.zip_append (by simp)]
        simp

end lists

/-! ### which half of a cut segment carries the closest point -/

theorem closestT_zero_vec (q a v : V3 K) (hv : v.dot v = 0) : closestT q a v = 0 := by
  obtain ⟨hx, hy, hz⟩ := dot_self_eq_zero hv
  unfold closestT
  have h2 : (q - a).dot v = 0 := by simp [V3.dot_def, hx, hy, hz]
  rw [hv, h2, clampedRatio_zero_den]
  simp

theorem smul_eq_smul_cancel (a v : V3 K) (s t : K) (h : a + V3.smul s v = a + V3.smul t v) (hne : s ≠ t) :
    v.dot v = 0 := by
  have hx := congrArg V3.x h
  have hy := congrArg V3.y h
  have hz := congrArg V3.z h
  simp only [V3.add_x, V3.add_y, V3.add_z, V3.smul_x, V3.smul_y, V3.smul_z] at hx hy hz
  have hd : s - t ≠ 0 := sub_ne_zero.mpr hne
  have ex : v.x = 0 := by
    have : (s - t) * v.x = 0 := by linarith
    rcases mul_eq_zero.mp this with h | h
    · exact absurd h hd
    · exact h
  have ey : v.y = 0 := by
    have : (s - t) * v.y = 0 := by linarith
    rcases mul_eq_zero.mp this with h | h
    · exact absurd h hd
    · exact h
  have ez : v.z = 0 := by
    have : (s - t) * v.z = 0 := by linarith
    rcases mul_eq_zero.mp this with h | h
    · exact absurd h hd
    · exact h
  simp [V3.dot_def, ex, ey, ez]

/-- cutting `a b` at `P = a + s (b − a)`: which half has the whole segment's closest point, in terms of the whole
    segment's parameter `t = closestT q a (b − a)` -/
theorem split_which (q a b : V3 K) (s : K) (hs0 : 0 ≤ s) (hs1 : s ≤ 1) :
    (closestT q a (b - a) ≤ s →
      closestPoint q a ((a + V3.smul s (b - a)) - a) = closestPoint q a (b - a)) ∧
    (s ≤ closestT q a (b - a) →
      closestPoint q (a + V3.smul s (b - a)) (b - (a + V3.smul s (b - a))) = closestPoint q a (b - a)) ∧
    (s < closestT q a (b - a) →
      (closestPoint q a (b - a) - q).normSq < (closestPoint q a ((a + V3.smul s (b - a)) - a) - q).normSq) ∧
    (closestT q a (b - a) < s → (b - a).dot (b - a) ≠ 0 →
      (closestPoint q a (b - a) - q).normSq <
        (closestPoint q (a + V3.smul s (b - a)) (b - (a + V3.smul s (b - a))) - q).normSq) := by
  set P := a + V3.smul s (b - a) with hP
  set t1 := closestT q a (P - a) with ht1
  set t2 := closestT q P (b - P) with ht2
  set t := closestT q a (b - a) with ht
  have ht1m : 0 ≤ t1 ∧ t1 ≤ 1 := clampedRatio_mem _ _
  have ht2m : 0 ≤ t2 ∧ t2 ≤ 1 := clampedRatio_mem _ _
  have htm : 0 ≤ t ∧ t ≤ 1 := clampedRatio_mem _ _
  have e1 : closestPoint q a (P - a) = a + V3.smul (t1 * s) (b - a) := by
    unfold closestPoint; rw [← ht1, hP]; ext <;> simp <;> ring
  have e2 : closestPoint q P (b - P) = a + V3.smul (s + t2 * (1 - s)) (b - a) := by
    unfold closestPoint; rw [← ht2, hP]; ext <;> simp <;> ring
  have e0 : closestPoint q a (b - a) = a + V3.smul t (b - a) := rfl
  have r1 : 0 ≤ t1 * s ∧ t1 * s ≤ 1 := ⟨mul_nonneg ht1m.1 hs0, by nlinarith⟩
  have r2 : 0 ≤ s + t2 * (1 - s) ∧ s + t2 * (1 - s) ≤ 1 := by
    constructor
    · nlinarith [mul_nonneg ht2m.1 (sub_nonneg.mpr hs1)]
    · nlinarith [mul_nonneg (sub_nonneg.mpr ht2m.2) (sub_nonneg.mpr hs1)]
  obtain ⟨le1, le2, _⟩ := split_segment q a b s hs0 hs1
  obtain ⟨heq1, heq2⟩ := split_half_eq q a b s hs0 hs1
  rw [← hP] at le1 le2 heq1 heq2
  refine ⟨?_, ?_, ?_, ?_⟩
  · intro hts
    have hu : ∃ u, 0 ≤ u ∧ u ≤ 1 ∧ a + V3.smul u (P - a) = closestPoint q a (b - a) := by
      rcases hs0.eq_or_lt with h | h
      · refine ⟨0, le_refl _, zero_le_one, ?_⟩
        have ht0 : t = 0 := le_antisymm (by rw [← h] at hts; exact hts) htm.1
        unfold closestPoint; rw [← ht, ht0]; ext <;> simp
      · refine ⟨t / s, div_nonneg htm.1 hs0, (div_le_one h).mpr hts, ?_⟩
        have hne : s ≠ 0 := ne_of_gt h
        unfold closestPoint; rw [← ht, hP]
        ext <;> simp <;> field_simp
    obtain ⟨u, hu0, hu1, hue⟩ := hu
    have := closestPoint_opt q a (P - a) u hu0 hu1
    rw [hue] at this
    exact heq1 this
  · intro hst
    have hu : ∃ u, 0 ≤ u ∧ u ≤ 1 ∧ P + V3.smul u (b - P) = closestPoint q a (b - a) := by
      rcases hs1.eq_or_lt with h | h
      · refine ⟨0, le_refl _, zero_le_one, ?_⟩
        have ht0 : t = 1 := le_antisymm htm.2 (by rw [h] at hst; exact hst)
        unfold closestPoint; rw [← ht, ht0, hP, h]; ext <;> simp
      · have h1s : 0 < 1 - s := by linarith
        have hne : 1 - s ≠ 0 := ne_of_gt h1s
        refine ⟨(t - s) / (1 - s), div_nonneg (by linarith) (le_of_lt h1s),
          (div_le_one h1s).mpr (by linarith [htm.2]), ?_⟩
        unfold closestPoint; rw [← ht, hP]
        ext <;> simp <;> field_simp <;> ring
    obtain ⟨u, hu0, hu1, hue⟩ := hu
    have := closestPoint_opt q P (b - P) u hu0 hu1
    rw [hue] at this
    exact heq2 this
  · intro hst
    by_contra hnot
    have hle := not_lt.mp hnot
    have heq := heq1 hle
    rw [e1, e0] at heq
    have hne : t1 * s ≠ t := by
      have : t1 * s ≤ s := by nlinarith
      intro h; linarith
    have hz := smul_eq_smul_cancel a (b - a) _ _ heq hne
    have := closestT_zero_vec q a (b - a) hz
    rw [← ht] at this
    linarith
  · intro hts hnz
    by_contra hnot
    have hle := not_lt.mp hnot
    have heq := heq2 hle
    rw [e2, e0] at heq
    have hne : s + t2 * (1 - s) ≠ t := by
      have : 0 ≤ t2 * (1 - s) := mul_nonneg ht2m.1 (sub_nonneg.mpr hs1)
      intro h; linarith
    exact hnz (smul_eq_smul_cancel a (b - a) _ _ heq hne)

/-! ### cutting the closing edge: the second half becomes row 0, the first half the last row -/

theorem FirstMin.split_closing (pre : List (Cand K)) (c c1 c2 : Cand K) {k : Nat} {x : Cand K}
    (h : FirstMin (pre ++ [c]) k x) (h1 : c.dist ≤ c1.dist) (h2 : c.dist ≤ c2.dist) :
    (k < pre.length → x.dist < c.dist → FirstMin (c2 :: pre ++ [c1]) (k + 1) x) ∧
    (k = pre.length → c2.dist = c.dist → FirstMin (c2 :: pre ++ [c1]) 0 c2) ∧
    (k = pre.length → c.dist < c2.dist → c1.dist = c.dist → FirstMin (c2 :: pre ++ [c1]) (pre.length + 1) c1) := by
  obtain ⟨hk, hmin, hfirst⟩ := h
  have hc : x.dist ≤ c.dist := hmin c (by simp)
  have g0 : (pre ++ [c])[pre.length]? = some c := by
    rw [List.getElem?_append_right (le_refl _)]; simp
  have hmin' : ∀ y ∈ c2 :: pre ++ [c1], x.dist ≤ y.dist := by
    intro y hy
    simp only [List.cons_append, List.mem_cons, List.mem_append, List.not_mem_nil, or_false] at hy
    rcases hy with rfl | hy | rfl
    · exact le_trans hc h2
    · exact hmin y (by simp [hy])
    · exact le_trans hc h1
  refine ⟨?_, ?_, ?_⟩
  · intro hlt hxc
    refine ⟨?_, hmin', ?_⟩
    · rw [List.getElem?_append_left hlt] at hk
      simp only [List.cons_append, List.getElem?_cons_succ]
      rw [List.getElem?_append_left hlt]; exact hk
    · intro j y hj hy
      cases j with
      | zero =>
        simp only [List.cons_append, List.getElem?_cons_zero, Option.some.injEq] at hy
        rw [← hy]; exact lt_of_lt_of_le hxc h2
      | succ j =>
        simp only [List.cons_append, List.getElem?_cons_succ] at hy
        have hj' : j < k := by omega
        rw [List.getElem?_append_left (by omega)] at hy
        apply hfirst j y hj'
        rw [List.getElem?_append_left (by omega)]; exact hy
  · intro he hd
    subst he
    have hxc : x = c := Option.some.inj (hk.symm.trans g0)
    subst hxc
    refine ⟨by simp, ?_, ?_⟩
    · intro y hy; rw [hd]; exact hmin' y hy
    · intro j y hj; omega
  · intro he hd2 hd1
    subst he
    have hxc : x = c := Option.some.inj (hk.symm.trans g0)
    subst hxc
    refine ⟨?_, ?_, ?_⟩
    · simp only [List.cons_append, List.getElem?_cons_succ]
      rw [List.getElem?_append_right (le_refl _)]; simp
    · intro y hy; rw [hd1]; exact hmin' y hy
    · intro j y hj hy
      rw [hd1]
      cases j with
      | zero =>
        simp only [List.cons_append, List.getElem?_cons_zero, Option.some.injEq] at hy
        rw [← hy]; exact hd2
      | succ j =>
        simp only [List.cons_append, List.getElem?_cons_succ] at hy
        have hj' : j < pre.length := by omega
        rw [List.getElem?_append_left hj'] at hy
        apply hfirst j y hj'
        rw [List.getElem?_append_left hj']; exact hy

section lists2
variable {K : Type}

/-- the segment list of a closed polyline ends with the closing edge `(last, first)`; putting a new vertex `P` in
    front of the vertex list (i.e. on the closing edge) turns it into `(P, first) :: … ++ [(last, P)]` -/
theorem segments_split_closing (v : List (V3 K)) (hv : v ≠ []) (P : V3 K) :
    ∃ pre l f, pre.length + 1 = v.length ∧ v.head? = some f ∧ v.getLast? = some l ∧
      (⟨v, true⟩ : Polyline K).segments = pre ++ [(l, f)] ∧
      (⟨P :: v, true⟩ : Polyline K).segments = (P, f) :: pre ++ [(l, P)] := by
  obtain ⟨f, rest, rfl⟩ := List.exists_cons_of_ne_nil hv
  obtain ⟨ini, l, hil⟩ : ∃ ini l, f :: rest = ini ++ [l] :=
    ⟨(f :: rest).dropLast, (f :: rest).getLast (by simp), (List.dropLast_append_getLast _).symm⟩
  have hlen : ini.length = rest.length := by
    have := congrArg List.length hil
    simp at this; omega
  refine ⟨List.zip ini rest, l, f, ?_, rfl, ?_, ?_, ?_⟩
  · simp [List.length_zip, hlen]
  · rw [hil]; simp
  · simp only [Polyline.segments, if_true]
    rw [hil, List.zip_append hlen]
    simp
  · simp only [Polyline.segments, if_true]
    have h2 : f :: rest ++ [P] = f :: (rest ++ [P]) := rfl
    rw [h2]
    simp only [List.zip_cons_cons]
    rw [hil, List.zip_append hlen]
    simp

theorem list_split_two {α : Type} (v : List α) (i : Nat) (h : i + 1 < v.length) :
    ∃ p' x y s', p'.length = i ∧ v = p' ++ x :: y :: s' ∧ p' = v.take i ∧ s' = v.drop (i + 2) := by
  refine ⟨v.take i, v[i], v[i + 1], v.drop (i + 2), ?_, ?_, rfl, rfl⟩
  · simp; omega
  · have h1 : v.drop i = v[i] :: v.drop (i + 1) := List.drop_eq_getElem_cons (by omega)
    have h2 : v.drop (i + 1) = v[i + 1] :: v.drop (i + 2) := List.drop_eq_getElem_cons h
    rw [← h2, ← h1, List.take_append_drop]

theorem indexOfVertex_insert_error {K : Type} [LT K] [LE K] [DecidableLT K] [DecidableLE K] [Sub K] [Neg K] [OfNat K 0]
    (vs : List (V3 K)) (e : Nat) (P p : V3 K) (atol : K)
    (h1 : indexOfVertex vs p atol = .error .ValueError) (h2 : vertexMatches p atol P = false) :
    indexOfVertex (insertBefore vs e P) p atol = .error .ValueError := by
  unfold indexOfVertex at h1 ⊢
  cases hf : vs.findIdx? (vertexMatches p atol) with
  | some k => rw [hf] at h1; cases h1
  | none =>
    have hnone := List.findIdx?_eq_none_iff.mp hf
    have : (insertBefore vs e P).findIdx? (vertexMatches p atol) = none := by
      apply List.findIdx?_eq_none_iff.mpr
      intro x hx
      unfold insertBefore at hx
      simp only [List.mem_append, List.mem_cons] at hx
      rcases hx with hx | rfl | hx
      · exact hnone x (List.mem_of_mem_take hx)
      · exact h2
      · exact hnone x (List.mem_of_mem_drop hx)
    rw [this]

end lists2

/-! ### `flipped()`: segments of the reversed vertex list -/

section flip
variable {K : Type}

theorem segments_get_open (v : List (V3 K)) (k : Nat) (sg : V3 K × V3 K) :
    (⟨v, false⟩ : Polyline K).segments[k]? = some sg ↔ v[k]? = some sg.1 ∧ v[k + 1]? = some sg.2 := by
  cases v with
  | nil => simp [Polyline.segments]
  | cons a rest =>
    simp only [Polyline.segments, Bool.false_eq_true, if_false]
    rw [List.getElem?_zip_eq_some, List.getElem?_cons_succ]

theorem segments_get_closed (v : List (V3 K)) (k : Nat) (sg : V3 K × V3 K) :
    (⟨v, true⟩ : Polyline K).segments[k]? = some sg ↔
      v[k]? = some sg.1 ∧ ((k + 1 < v.length ∧ v[k + 1]? = some sg.2) ∨ (k + 1 = v.length ∧ v[0]? = some sg.2)) := by
  cases v with
  | nil => simp [Polyline.segments]
  | cons a rest =>
    simp only [Polyline.segments, if_true]
    rw [List.getElem?_zip_eq_some]
    constructor
    · rintro ⟨h1, h2⟩
      refine ⟨h1, ?_⟩
      have hk : k < (a :: rest).length := (List.getElem?_eq_some_iff.mp h1).1
      simp only [List.length_cons] at hk
      rcases Nat.lt_or_ge k rest.length with h | h
      · left
        rw [List.getElem?_append_left h] at h2
        exact ⟨by simp only [List.length_cons]; omega, by rw [List.getElem?_cons_succ]; exact h2⟩
      · right
        have hke : k = rest.length := by omega
        subst hke
        rw [List.getElem?_append_right (le_refl _)] at h2
        simp only [Nat.sub_self, List.getElem?_cons_zero] at h2
        exact ⟨by simp, by simpa using h2⟩
    · rintro ⟨h1, h2⟩
      refine ⟨h1, ?_⟩
      rcases h2 with ⟨hk, h2⟩ | ⟨hk, h2⟩
      · simp only [List.length_cons] at hk
        rw [List.getElem?_append_left (by omega)]
        rw [List.getElem?_cons_succ] at h2; exact h2
      · simp only [List.length_cons] at hk
        have hke : k = rest.length := by omega
        subst hke
        rw [List.getElem?_append_right (le_refl _)]
        simpa using h2

/-- the index of the flipped polyline's segment that is segment `k` run backwards: the closing edge stays the closing
    edge, inner segment `k` becomes `n − 2 − k` -/
def flipIdx (closed : Bool) (n k : Nat) : Nat := if closed = true ∧ k + 1 = n then k else n - 2 - k

/-- segment `k` of the flipped polyline is segment `flipIdx k` of the polyline, run backwards -/
theorem flipped_segment (pl : Polyline K) (k : Nat) (sg : V3 K × V3 K)
    (h : (flipped pl).segments[k]? = some sg) :
    pl.segments[flipIdx pl.closed pl.v.length k]? = some (sg.2, sg.1) ∧
    k < (if pl.closed then pl.v.length else pl.v.length - 1) := by
  obtain ⟨v, c⟩ := pl
  unfold flipped at h
  simp only at h ⊢
  unfold flipIdx
  cases c
  · simp only [Bool.false_eq_true, false_and, if_false]
    rw [segments_get_open] at h ⊢
    obtain ⟨h1, h2⟩ := h
    have hk : k + 1 < v.length := by
      have := (List.getElem?_eq_some_iff.mp h2).1
      simpa using this
    rw [List.getElem?_reverse (by omega)] at h1 h2
    have e1 : v.length - 1 - (k + 1) = v.length - 2 - k := by omega
    have e2 : v.length - 2 - k + 1 = v.length - 1 - k := by omega
    rw [e1] at h2
    rw [e2]
    exact ⟨⟨h2, h1⟩, by omega⟩
  · simp only [true_and, if_true]
    rw [segments_get_closed] at h ⊢
    obtain ⟨h1, h2⟩ := h
    have hk : k < v.length := by
      have := (List.getElem?_eq_some_iff.mp h1).1
      simpa using this
    rw [List.getElem?_reverse hk] at h1
    simp only [List.length_reverse] at h2
    rcases h2 with ⟨hk1, h2⟩ | ⟨hk1, h2⟩
    · rw [List.getElem?_reverse hk1] at h2
      rw [if_neg (by omega)]
      have e1 : v.length - 1 - (k + 1) = v.length - 2 - k := by omega
      have e2 : v.length - 2 - k + 1 = v.length - 1 - k := by omega
      rw [e1] at h2
      refine ⟨⟨h2, Or.inl ⟨by omega, by rw [e2]; exact h1⟩⟩, hk⟩
    · rw [List.getElem?_reverse (by omega)] at h2
      rw [if_pos hk1]
      have e1 : v.length - 1 - k = 0 := by omega
      have e2 : v.length - 1 - 0 = k := by omega
      rw [e1] at h1
      rw [e2] at h2
      exact ⟨⟨h2, Or.inr ⟨hk1, h1⟩⟩, hk⟩

theorem flipped_flipped' (pl : Polyline K) : flipped (flipped pl) = pl := by
  unfold flipped; simp

/-- conversely segment `i` of the polyline, run backwards, is segment `flipIdx i` of the flipped polyline -/
theorem segment_of_flipped (pl : Polyline K) (i : Nat) (sg : V3 K × V3 K) (h : pl.segments[i]? = some sg) :
    (flipped pl).segments[flipIdx pl.closed pl.v.length i]? = some (sg.2, sg.1) := by
  have := (flipped_segment (flipped pl) i sg (by rw [flipped_flipped']; exact h)).1
  simpa [flipped] using this

end flip

section revlists
theorem rev_drop_idx {α : Type} (v : List α) (i : Nat) (hi : i + 1 ≤ v.length) :
    v.reverse.drop (v.length - 1 - i) = (v.take (i + 1)).reverse := by
  rw [List.drop_reverse]; congr 2; omega

theorem rev_take_idx {α : Type} (v : List α) (j : Nat) (hj : j + 1 ≤ v.length) :
    v.reverse.take (v.length - 1 - j) = (v.drop (j + 1)).reverse := by
  rw [List.take_reverse]; congr 2; omega

theorem rev_take_take {α : Type} (v : List α) (i j : Nat) (hji : j ≤ i) (hi : i + 1 ≤ v.length) :
    ((v.take (i + 1)).reverse).take (i - j) = ((v.drop (j + 1)).take (i - j)).reverse := by
  rw [List.take_reverse, List.length_take, Nat.min_eq_left hi, List.drop_take]
  have e : i + 1 - (i - j) = j + 1 := by omega
  rw [e]
  congr 2
  omega

end revlists

end PW.Nearest
