/-
  PW.Lemmas.C11 — helper lemmas for C11 / C12: algebra of the explicit 3×3 / 4×4 matrices
  (associativity, units, transpose and determinant of a product, `RᵀR = 1 → RRᵀ = 1`), `M4.ofM3`,
  `composeTransforms` and `applyTransform`.  No property statements here.
-/
import PW.Vec
import PW.Model.Affine
import PW.Lemmas.Vec
import PW.Gen.NatLit
import Mathlib.Tactic.Ring
import Mathlib.Tactic.LinearCombination
import Mathlib.Tactic.Linarith
import Mathlib.Tactic.FieldSimp
import Mathlib.Algebra.Order.Field.Basic
import Mathlib.Data.List.Induction

set_option linter.unusedSectionVars false

namespace PW.C11

/-- every field-of-a-constructor / product projection needed to turn a matrix identity into scalar identities -/
macro "mat_simp" : tactic =>
  `(tactic| simp only [M3.mul, M3.one, M3.transpose, M3.col0, M3.col1, M3.col2, M3.mulVec, M3.det,
      M4.mul, M4.one, M4.transpose, M4.col0, M4.col1, M4.col2, M4.col3, M4.mulVec, M4.ofM3,
      V3.dot, V3.cross, V4.dot, V4.xyz, V3.add_x, V3.add_y, V3.add_z, V3.sub_x, V3.sub_y, V3.sub_z,
      V3.neg_x, V3.neg_y, V3.neg_z, V3.smul_x, V3.smul_y, V3.smul_z])

section ring
variable {K : Type} [CommRing K]

theorem M3.mul_assoc (a b c : M3 K) : (a.mul b).mul c = a.mul (b.mul c) := by
  ext <;> mat_simp <;> ring

theorem M3.one_mul (a : M3 K) : (M3.one).mul a = a := by
  ext <;> mat_simp <;> ring

theorem M3.mul_one (a : M3 K) : a.mul M3.one = a := by
  ext <;> mat_simp <;> ring

theorem M3.transpose_mul (a b : M3 K) : (a.mul b).transpose = b.transpose.mul a.transpose := by
  ext <;> mat_simp <;> ring

theorem M3.transpose_transpose (a : M3 K) : a.transpose.transpose = a := rfl

theorem M3.transpose_one : (M3.one : M3 K).transpose = M3.one := rfl

theorem M3.det_mul (a b : M3 K) : (a.mul b).det = a.det * b.det := by
  mat_simp; ring

theorem M3.det_one : (M3.one : M3 K).det = 1 := by
  mat_simp; ring

theorem M3.det_transpose (a : M3 K) : a.transpose.det = a.det := by
  mat_simp; ring

theorem M3.mulVec_mul (a b : M3 K) (v : V3 K) : (a.mul b).mulVec v = a.mulVec (b.mulVec v) := by
  ext <;> mat_simp <;> ring

theorem M3.one_mulVec (v : V3 K) : (M3.one).mulVec v = v := by
  ext <;> mat_simp <;> ring

theorem M4.mul_assoc (a b c : M4 K) : (a.mul b).mul c = a.mul (b.mul c) := by
  ext <;> mat_simp <;> ring

theorem M4.one_mul (a : M4 K) : (M4.one).mul a = a := by
  ext <;> mat_simp <;> ring

theorem M4.mul_one (a : M4 K) : a.mul M4.one = a := by
  ext <;> mat_simp <;> ring

theorem M4.mulVec_mul (a b : M4 K) (v : V4 K) : (a.mul b).mulVec v = a.mulVec (b.mulVec v) := by
  ext <;> mat_simp <;> ring

theorem ofM3_mul (a b : M3 K) : M4.ofM3 (a.mul b) = (M4.ofM3 a).mul (M4.ofM3 b) := by
  ext <;> mat_simp <;> ring

theorem ofM3_one : M4.ofM3 (M3.one : M3 K) = M4.one := rfl

theorem ofM3_transpose (a : M3 K) : (M4.ofM3 a).transpose = M4.ofM3 a.transpose := rfl

/-- adjugate (transposed cofactor matrix): rows are the cross products of the columns -/
def adj (a : M3 K) : M3 K := ⟨a.col1.cross a.col2, a.col2.cross a.col0, a.col0.cross a.col1⟩

theorem mul_adj (a : M3 K) : a.mul (adj a) = ⟨⟨a.det, 0, 0⟩, ⟨0, a.det, 0⟩, ⟨0, 0, a.det⟩⟩ := by
  ext <;> simp only [adj] <;> mat_simp <;> ring

end ring

section field
variable {K : Type} [Field K]

/-- a left inverse by the transpose is a right inverse (3×3, any field) -/
theorem mul_transpose_of_transpose_mul (r : M3 K) (h : r.transpose.mul r = M3.one) :
    r.mul r.transpose = M3.one := by
  -- det r ≠ 0
  have hd : r.det * r.det = 1 := by
    have := congrArg M3.det h
    rw [M3.det_mul, M3.det_transpose, M3.det_one] at this
    exact this
  have hne : r.det ≠ 0 := by
    intro h0; rw [h0] at hd; simp at hd
  -- r · rᵀ · (det r) = r · (rᵀ r) · adj r = r · adj r = det r · 1
  have key : (r.mul r.transpose).mul (r.mul (adj r)) = r.mul (adj r) := by
    rw [M3.mul_assoc, ← M3.mul_assoc r.transpose, h, M3.one_mul]
  rw [mul_adj] at key
  have e := M3.ext_iff.mp key
  obtain ⟨e0, e1, e2⟩ := e
  have e0 := V3.ext_iff.mp e0
  have e1 := V3.ext_iff.mp e1
  have e2 := V3.ext_iff.mp e2
  simp only [M3.mul, M3.col0, M3.col1, M3.col2, V3.dot, mul_zero, add_zero, zero_add] at e0 e1 e2
  obtain ⟨a0, a1, a2⟩ := e0
  obtain ⟨b0, b1, b2⟩ := e1
  obtain ⟨c0, c1, c2⟩ := e2
  ext <;> simp only [M3.mul, M3.one, M3.col0, M3.col1, M3.col2, V3.dot] <;>
    apply mul_right_cancel₀ hne <;> first | (rw [one_mul]; assumption) | (rw [zero_mul]; assumption)

end field

/-- the literal helper of the generated files denotes the natural number -/
theorem natLit_eq {K : Type} [Field K] (n : ℕ) : (Gen.natLit n : K) = (n : K) := by
  induction n with
  | zero => simp [Gen.natLit]
  | succ n ih => simp [Gen.natLit, ih]

/-! ### composeTransforms -/

section compose
variable {K : Type} [CommRing K] [LT K] [LE K] [DecidableLT K] [DecidableLE K] [BEq K]

theorem foldl_mul_left (t r : M4 K) (rs : List (M4 K)) :
    rs.foldl M4.mul (t.mul r) = t.mul (rs.foldl M4.mul r) := by
  induction rs generalizing r with
  | nil => rfl
  | cons a rs ih => simp only [List.foldl_cons]; rw [M4.mul_assoc, ih]

theorem compose_nil : composeTransforms ([] : List (M4 K)) = M4.one := rfl

theorem compose_singleton (a : M4 K) : composeTransforms [a] = a := rfl

theorem compose_pair (a b : M4 K) : composeTransforms [a, b] = b.mul a := rfl

theorem compose_triple (a b c : M4 K) : composeTransforms [a, b, c] = (c.mul b).mul a := rfl

/-- adding a last transform multiplies on the left -/
theorem compose_append_singleton (ts : List (M4 K)) (t : M4 K) :
    composeTransforms (ts ++ [t]) = t.mul (composeTransforms ts) := by
  unfold composeTransforms
  rw [List.reverse_append, List.reverse_singleton, List.singleton_append]
  cases h : ts.reverse with
  | nil => simp only [List.foldl_nil]; rw [M4.mul_one]
  | cons r rs => simp only [List.foldl_cons]; rw [foldl_mul_left]

/-- homogeneous matrix of an affine map: last row `(0,0,0,1)` -/
def IsAffine (m : M4 K) : Prop := m.r3 = ⟨0, 0, 0, 1⟩

/-- proper rotation: orthogonal with determinant one -/
def IsRotation (r : M3 K) : Prop := r.transpose.mul r = M3.one ∧ r.det = 1

theorem affine_one : IsAffine (M4.one : M4 K) := rfl

theorem affine_mul (b a : M4 K) (hb : IsAffine b) (ha : IsAffine a) : IsAffine (b.mul a) := by
  obtain ⟨a0, a1, a2, a3⟩ := a
  obtain ⟨b0, b1, b2, b3⟩ := b
  simp only [IsAffine] at ha hb
  subst ha hb
  simp only [IsAffine]
  ext <;> mat_simp <;> ring

/-- applying a product = applying the right factor first, when that factor is affine -/
theorem apply_mul (b a : M4 K) (ha : IsAffine a) (p : V3 K) (asVector : Bool) :
    applyTransform (b.mul a) p asVector = applyTransform b (applyTransform a p asVector) asVector := by
  obtain ⟨a0, a1, a2, a3⟩ := a
  simp only [IsAffine] at ha
  subst ha
  cases asVector <;> (ext <;> simp [applyTransform] <;> mat_simp <;> ring)

theorem apply_one (p : V3 K) (asVector : Bool) : applyTransform (M4.one : M4 K) p asVector = p := by
  cases asVector <;> (ext <;> simp [applyTransform] <;> mat_simp <;> ring)

theorem apply_compose_list (ts : List (M4 K)) (h : ∀ t ∈ ts, IsAffine t) (p : V3 K) (asVector : Bool) :
    applyTransform (composeTransforms ts) p asVector = ts.foldl (fun q t => applyTransform t q asVector) p ∧
    IsAffine (composeTransforms ts) := by
  induction ts using List.reverseRecOn with
  | nil => exact ⟨apply_one p asVector, affine_one⟩
  | append_singleton ts t ih =>
    have hts : ∀ t ∈ ts, IsAffine t := fun u hu => h u (List.mem_append_left _ hu)
    have ht : IsAffine t := h t (by simp)
    obtain ⟨ih1, ih2⟩ := ih hts
    rw [compose_append_singleton, List.foldl_append]
    refine ⟨?_, affine_mul _ _ ht ih2⟩
    rw [apply_mul _ _ ih2, ih1]
    rfl

end compose

end PW.C11
