/-
  PW.Lemmas.Vec — component simp lemmas for V3/V4/M3/M4 (helper lemmas; no property statements here).
-/
import PW.Vec

namespace PW

variable {K : Type} [Add K] [Sub K] [Mul K] [Div K] [Neg K] [OfNat K 0] [OfNat K 1]

namespace V3
@[simp] theorem add_x (a b : V3 K) : (a + b).x = a.x + b.x := rfl
@[simp] theorem add_y (a b : V3 K) : (a + b).y = a.y + b.y := rfl
@[simp] theorem add_z (a b : V3 K) : (a + b).z = a.z + b.z := rfl
@[simp] theorem sub_x (a b : V3 K) : (a - b).x = a.x - b.x := rfl
@[simp] theorem sub_y (a b : V3 K) : (a - b).y = a.y - b.y := rfl
@[simp] theorem sub_z (a b : V3 K) : (a - b).z = a.z - b.z := rfl
@[simp] theorem neg_x (a : V3 K) : (-a).x = -a.x := rfl
@[simp] theorem neg_y (a : V3 K) : (-a).y = -a.y := rfl
@[simp] theorem neg_z (a : V3 K) : (-a).z = -a.z := rfl
@[simp] theorem smul_x (c : K) (a : V3 K) : (smul c a).x = c * a.x := rfl
@[simp] theorem smul_y (c : K) (a : V3 K) : (smul c a).y = c * a.y := rfl
@[simp] theorem smul_z (c : K) (a : V3 K) : (smul c a).z = c * a.z := rfl
@[simp] theorem sdiv_x (c : K) (a : V3 K) : (sdiv a c).x = a.x / c := rfl
@[simp] theorem sdiv_y (c : K) (a : V3 K) : (sdiv a c).y = a.y / c := rfl
@[simp] theorem sdiv_z (c : K) (a : V3 K) : (sdiv a c).z = a.z / c := rfl
@[simp] theorem cross_x (a b : V3 K) : (cross a b).x = a.y * b.z - a.z * b.y := rfl
@[simp] theorem cross_y (a b : V3 K) : (cross a b).y = a.z * b.x - a.x * b.z := rfl
@[simp] theorem cross_z (a b : V3 K) : (cross a b).z = a.x * b.y - a.y * b.x := rfl
theorem dot_def (a b : V3 K) : dot a b = a.x * b.x + a.y * b.y + a.z * b.z := rfl
theorem normSq_def (a : V3 K) : normSq a = a.x * a.x + a.y * a.y + a.z * a.z := rfl
@[simp] theorem zero_x : (zero : V3 K).x = 0 := rfl
@[simp] theorem zero_y : (zero : V3 K).y = 0 := rfl
@[simp] theorem zero_z : (zero : V3 K).z = 0 := rfl
end V3

end PW
