/-
  PW.Lemmas.Slicing — helper lemmas for the mesh slicer (C01, C02): clip01, edge points, sign classification,
  vector identities.  No property statements here.
-/
import PW.Model.Slicing
import PW.Lemmas.Vec
import Mathlib.Tactic.Ring
import Mathlib.Tactic.LinearCombination
import Mathlib.Tactic.Linarith
import Mathlib.Tactic.Positivity
import Mathlib.Tactic.FieldSimp
import Mathlib.Algebra.Order.Field.Basic

set_option linter.unusedSectionVars false

namespace PW.Slicing

variable {K : Type} [Field K] [LinearOrder K] [IsStrictOrderedRing K]

/-! ### clip01 -/

theorem clip01_nonneg (x : K) : 0 ≤ clip01 x := by
  unfold clip01; split_ifs with h1 h2
  · exact le_refl 0
  · exact zero_le_one
  · exact not_lt.mp h1

theorem clip01_le_one (x : K) : clip01 x ≤ 1 := by
  unfold clip01; split_ifs with h1 h2
  · exact zero_le_one
  · exact le_refl 1
  · exact not_lt.mp h2

theorem clip01_of_mem {x : K} (h0 : 0 ≤ x) (h1 : x ≤ 1) : clip01 x = x := by
  unfold clip01; rw [if_neg (not_lt.mpr h0), if_neg (not_lt.mpr h1)]

theorem clip01_of_ge_one {x : K} (h : 1 ≤ x) : clip01 x = 1 := by
  unfold clip01
  rw [if_neg (not_lt.mpr (le_trans zero_le_one h))]
  rcases lt_or_eq_of_le h with h' | h'
  · rw [if_pos h']
  · rw [if_neg (by rw [← h']; exact lt_irrefl 1), ← h']

theorem clip01_of_nonpos {x : K} (h : x ≤ 0) : clip01 x = 0 := by
  unfold clip01
  rcases lt_or_eq_of_le h with h' | h'
  · rw [if_pos h']
  · rw [h', if_neg (lt_irrefl 0), if_neg (not_lt.mpr zero_le_one)]

/-! ### offsets are affine -/

theorem offset_lerp (o n a b : V3 K) (t : K) :
    offset o n (V3.smul t (b - a) + a) = offset o n a + t * (offset o n b - offset o n a) := by
  simp only [offset, V3.dot_def, V3.add_x, V3.add_y, V3.add_z, V3.sub_x, V3.sub_y, V3.sub_z,
    V3.smul_x, V3.smul_y, V3.smul_z]
  ring

/-- the edge parameter the code computes: `num = (o - a)·n = -d_a`, `denom = (b - a)·n = d_b - d_a` -/
theorem edge_num (o n a : V3 K) : (o - a).dot n = - offset o n a := by
  simp only [offset, V3.dot_def, V3.sub_x, V3.sub_y, V3.sub_z]; ring

theorem edge_den (o n a b : V3 K) : (b - a).dot n = offset o n b - offset o n a := by
  simp only [offset, V3.dot_def, V3.sub_x, V3.sub_y, V3.sub_z]; ring

/-- edge parameter: `clip01(num/den)` with the zero-denominator guard -/
def edgeParam (eps : K) (o n a b : V3 K) : K :=
  let den0 := (b - a).dot n
  clip01 ((o - a).dot n / (if den0 == 0 then eps else den0))

theorem edgePoint_eq (eps : K) (o n a b : V3 K) :
    edgePoint eps o n a b = V3.smul (edgeParam eps o n a b) (b - a) + a := rfl

theorem edgeParam_mem (eps : K) (o n a b : V3 K) :
    0 ≤ edgeParam eps o n a b ∧ edgeParam eps o n a b ≤ 1 :=
  ⟨clip01_nonneg _, clip01_le_one _⟩

/-- for an edge whose endpoints have different offsets the parameter is `clip01(d_a / (d_a - d_b))` -/
theorem edgeParam_of_ne (eps : K) (o n a b : V3 K) (h : offset o n a ≠ offset o n b) :
    edgeParam eps o n a b = clip01 (offset o n a / (offset o n a - offset o n b)) := by
  unfold edgeParam
  simp only
  rw [edge_den o n a b, edge_num o n a]
  have hne : offset o n b - offset o n a ≠ 0 := fun h' => h (sub_eq_zero.mp h').symm
  have : (offset o n b - offset o n a == 0) = false := by
    simp only [beq_eq_false_iff_ne, ne_eq]; exact hne
  rw [this]
  simp only [Bool.false_eq_true, if_false]
  congr 1
  rw [neg_div, ← div_neg, neg_sub]

/-- front → behind (or behind → front): the crossing is strictly inside the edge and on the plane -/
theorem edgeParam_cross {da db : K} (h : (0 < da ∧ db < 0) ∨ (da < 0 ∧ 0 < db)) :
    clip01 (da / (da - db)) = da / (da - db) ∧ 0 < da / (da - db) ∧ da / (da - db) < 1 ∧
      da + da / (da - db) * (db - da) = 0 := by
  have hne : da - db ≠ 0 := by rcases h with ⟨h1, h2⟩ | ⟨h1, h2⟩ <;> intro h' <;> linarith
  have hpos : 0 < da / (da - db) := by
    rcases h with ⟨h1, h2⟩ | ⟨h1, h2⟩
    · exact div_pos h1 (by linarith)
    · exact div_pos_of_neg_of_neg h1 (by linarith)
  have hlt : da / (da - db) < 1 := by
    rcases h with ⟨h1, h2⟩ | ⟨h1, h2⟩
    · rw [div_lt_one (by linarith)]; linarith
    · rw [div_lt_one_of_neg (by linarith)]; linarith
  refine ⟨clip01_of_mem hpos.le hlt.le, hpos, hlt, ?_⟩
  field_simp
  ring

/-- front → on-with-nonnegative-offset: clamps to the far endpoint -/
theorem edgeParam_to_on {da db : K} (ha : 0 < da) (hb : 0 ≤ db) (hlt : db < da) :
    clip01 (da / (da - db)) = 1 := by
  apply clip01_of_ge_one
  rw [le_div_iff₀ (by linarith)]; linarith

/-- on-with-nonnegative-offset → front: clamps to the near endpoint -/
theorem edgeParam_from_on {da db : K} (ha : 0 ≤ da) (hlt : da < db) :
    clip01 (da / (da - db)) = 0 := by
  apply clip01_of_nonpos
  exact div_nonpos_of_nonneg_of_nonpos ha (by linarith)

/-! ### signs -/

theorem vsign_front_iff (tol d : K) : vsign tol d = -1 ↔ tol < d := by
  unfold vsign; split_ifs <;> simp_all

theorem vsign_behind_iff {tol : K} (ht : 0 ≤ tol) (d : K) : vsign tol d = 1 ↔ d < -tol := by
  unfold vsign
  split_ifs with h1 h2
  · constructor
    · intro h; simp at h
    · intro h; exfalso; linarith
  · simp [h2]
  · simp [h2]

theorem vsign_on_iff {tol : K} (ht : 0 ≤ tol) (d : K) : vsign tol d = 0 ↔ -tol ≤ d ∧ d ≤ tol := by
  unfold vsign
  split_ifs with h1 h2
  · simp; intro _; exact h1
  · simp; intro h; linarith
  · simp; exact ⟨not_lt.mp h2, not_lt.mp h1⟩

theorem vsign_mem (tol d : K) : vsign tol d = -1 ∨ vsign tol d = 0 ∨ vsign tol d = 1 := by
  unfold vsign; split_ifs <;> simp

/-! ### triple accessors -/

theorem T3.get_cases {α : Type} (t : T3 α) (i : Nat) :
    (i % 3 = 0 ∧ t.get i = t.a ∧ t.get (i + 1) = t.b ∧ t.get (i + 2) = t.c) ∨
    (i % 3 = 1 ∧ t.get i = t.b ∧ t.get (i + 1) = t.c ∧ t.get (i + 2) = t.a) ∨
    (i % 3 = 2 ∧ t.get i = t.c ∧ t.get (i + 1) = t.a ∧ t.get (i + 2) = t.b) := by
  have h : i % 3 = 0 ∨ i % 3 = 1 ∨ i % 3 = 2 := by omega
  rcases h with h | h | h
  · left
    have h1 : (i + 1) % 3 = 1 := by omega
    have h2 : (i + 2) % 3 = 2 := by omega
    simp [T3.get, h, h1, h2]
  · right; left
    have h1 : (i + 1) % 3 = 2 := by omega
    have h2 : (i + 2) % 3 = 0 := by omega
    simp [T3.get, h, h1, h2]
  · right; right
    have h1 : (i + 1) % 3 = 0 := by omega
    have h2 : (i + 2) % 3 = 1 := by omega
    simp [T3.get, h, h1, h2]

theorem T3.get_map {α β : Type} (f : α → β) (t : T3 α) (i : Nat) : (t.map f).get i = f (t.get i) := by
  unfold T3.get T3.map
  split <;> rfl

/-- edge point `i` of a face runs from corner `i` to corner `i+1` -/
theorem intPoints_get (eps : K) (o n : V3 K) (p : T3 (V3 K)) (i : Nat) :
    (intPoints eps o n p).get i = edgePoint eps o n (p.get i) (p.get (i + 1)) := by
  rcases T3.get_cases p i with ⟨h, h0, h1, _⟩ | ⟨h, h0, h1, _⟩ | ⟨h, h0, h1, _⟩ <;>
    simp [T3.get, intPoints, h, h0, h1] <;> simp [T3.get, h] at h0 h1 ⊢ <;> simp_all


/-! ### pointwise tiling in barycentric coordinates (scalar cores) -/

/-- barycentric coordinates (w.r.t. `A, B, C`) of `a•A + b•X₁ + c•X₂` where `X₁ = A + r(B−A)`, `X₂ = C + t(A−C)` -/
def inOutTri (r t : K) (α β γ : K) : Prop :=
  ∃ a b c : K, 0 ≤ a ∧ 0 ≤ b ∧ 0 ≤ c ∧ a + b + c = 1 ∧
    α = a + b * (1 - r) + c * t ∧ β = b * r ∧ γ = c * (1 - t)

/-- triangle case: `A` in front (`0 < dA`), `eB, eC ≤ 0` the other offsets capped at 0.  The cut triangle is exactly
    the part of the face where the (capped) offset is non-negative. -/
theorem tri_case_tiles (dA eB eC α β γ : K) (hA : 0 < dA) (hB : eB ≤ 0) (hC : eC ≤ 0)
    (hα : 0 ≤ α) (hβ : 0 ≤ β) (hγ : 0 ≤ γ) (hs : α + β + γ = 1) :
    inOutTri (dA / (dA - eB)) (eC / (eC - dA)) α β γ ↔ 0 ≤ α * dA + β * eB + γ * eC := by
  have h1 : 0 < dA - eB := by linarith
  have h2 : 0 < dA - eC := by linarith
  have h2' : eC - dA ≠ 0 := by linarith
  have hA' : dA ≠ 0 := ne_of_gt hA
  constructor
  · rintro ⟨a, b, c, ha, hb, hc, habc, e1, e2, e3⟩
    have : α * dA + β * eB + γ * eC = a * dA := by
      rw [e1, e2, e3]; field_simp; ring
    rw [this]; exact mul_nonneg ha hA.le
  · intro hd
    refine ⟨(α * dA + β * eB + γ * eC) / dA, β * (dA - eB) / dA, γ * (dA - eC) / dA,
      div_nonneg hd hA.le, div_nonneg (mul_nonneg hβ h1.le) hA.le, div_nonneg (mul_nonneg hγ h2.le) hA.le,
      ?_, ?_, ?_, ?_⟩
    · field_simp; linear_combination dA * hs
    · field_simp; ring
    · field_simp
    · field_simp; ring

/-- first half of a cut quad: `b•B + c•C + w•X_CA`, `X_CA = C + t(A−C)` -/
def inT1 (t : K) (α β γ : K) : Prop :=
  ∃ b c w : K, 0 ≤ b ∧ 0 ≤ c ∧ 0 ≤ w ∧ b + c + w = 1 ∧
    α = w * t ∧ β = b ∧ γ = c + w * (1 - t)

/-- second half: `b•B + w•X_CA + z•X_AB`, `X_AB = A + u(B−A)` -/
def inT2 (t u : K) (α β γ : K) : Prop :=
  ∃ b w z : K, 0 ≤ b ∧ 0 ≤ w ∧ 0 ≤ z ∧ b + w + z = 1 ∧
    α = w * t + z * (1 - u) ∧ β = b + z * u ∧ γ = w * (1 - t)

/-- quad case: `A` behind, `B, C` in front.  The two triangles together are exactly the part of the face with
    non-negative offset. -/
theorem quad_case_tiles (dA dB dC α β γ : K) (hA : dA < 0) (hB : 0 < dB) (hC : 0 < dC)
    (hα : 0 ≤ α) (hβ : 0 ≤ β) (hγ : 0 ≤ γ) (hs : α + β + γ = 1) :
    (inT1 (dC / (dC - dA)) α β γ ∨ inT2 (dC / (dC - dA)) (dA / (dA - dB)) α β γ) ↔
      0 ≤ α * dA + β * dB + γ * dC := by
  have h1 : 0 < dC - dA := by linarith
  have h2 : 0 < dB - dA := by linarith
  have h2' : dA - dB ≠ 0 := by linarith
  have hA' : dA ≠ 0 := by linarith
  have hB' : dB ≠ 0 := by linarith
  have hC' : dC ≠ 0 := by linarith
  have h1' : dC - dA ≠ 0 := by linarith
  constructor
  · rintro (⟨b, c, w, hb, hc, hw, hsum, e1, e2, e3⟩ | ⟨b, w, z, hb, hw, hz, hsum, e1, e2, e3⟩)
    · have : α * dA + β * dB + γ * dC = b * dB + c * dC := by
        rw [e1, e2, e3]; field_simp; ring
      rw [this]; positivity
    · have : α * dA + β * dB + γ * dC = b * dB := by
        rw [e1, e2, e3]; field_simp; ring
      rw [this]; positivity
  · intro hd
    by_cases hcase : α * (-dA) ≤ γ * dC
    · left
      refine ⟨β, (γ * dC - α * (-dA)) / dC, α * (dC - dA) / dC, hβ, ?_, ?_, ?_, ?_, rfl, ?_⟩
      · apply div_nonneg <;> linarith
      · positivity
      · field_simp; linear_combination dC * hs
      · field_simp
      · field_simp; ring
    · right
      rw [not_le] at hcase
      refine ⟨(α * dA + β * dB + γ * dC) / dB, γ * (dA - dC) / dA,
              (α * dA + γ * dC) * (dB - dA) / (dA * dB), ?_, ?_, ?_, ?_, ?_, ?_, ?_⟩
      · positivity
      · apply div_nonneg_of_nonpos
        · apply mul_nonpos_of_nonneg_of_nonpos hγ; linarith
        · linarith
      · apply div_nonneg_of_nonpos
        · apply mul_nonpos_of_nonpos_of_nonneg
          · linarith
          · linarith
        · exact (mul_neg_of_neg_of_pos hA hB).le
      · field_simp; linear_combination (dA * dB) * hs
      · field_simp; ring
      · field_simp; ring
      · field_simp; ring

/-- the clamped edge parameter from a front corner (`0 < dF`) towards `Y` (`dY < dF`) -/
theorem param_FY {dF dY : K} (hF : 0 < dF) (hY : dY < dF) :
    clip01 (dF / (dF - dY)) = dF / (dF - min dY 0) := by
  rcases lt_or_ge dY 0 with h | h
  · rw [min_eq_left h.le]; exact (edgeParam_cross (Or.inl ⟨hF, h⟩)).1
  · rw [min_eq_right h, edgeParam_to_on hF h hY, sub_zero, div_self (ne_of_gt hF)]

/-- … and from `Y` towards the front corner -/
theorem param_YF {dF dY : K} (hF : 0 < dF) (hY : dY < dF) :
    clip01 (dY / (dY - dF)) = min dY 0 / (min dY 0 - dF) := by
  rcases lt_or_ge dY 0 with h | h
  · rw [min_eq_left h.le]; exact (edgeParam_cross (Or.inr ⟨h, hF⟩)).1
  · rw [min_eq_right h, edgeParam_from_on h hY, zero_div]

end PW.Slicing
