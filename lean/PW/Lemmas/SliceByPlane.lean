/-
  PW.Lemmas.SliceByPlane — helper lemmas for C06 (list bookkeeping of the polyline slicer).
  No property statements here; see PW/Props/C06.lean.

  Part 1  `nonzeroFrom`            (mask.nonzero())
  Part 2  `groups`                  the structural form of `np.vsplit(vertices, transition_points + 1)`
  Part 3  structure of `groups`     (flatten, non-empty, constant sign, adjacent groups differ)
  Part 4  the span decomposition    (`sliceSpanG` on `pre ++ run ++ post`)
  Part 5  code-shaped = span-shaped (`sliceOpenRunsG_eq_span`)
  Part 6  rotation                  (`cycG` is the same from every vertex that is not in front; `npRoll`, `closedRoll`)
-/
import PW.Model.SliceByPlane

set_option linter.unusedSectionVars false
set_option linter.unusedVariables false

namespace PW.SBP

variable {α β : Type}

/-! ## Part 1: nonzeroFrom -/

theorem nonzeroFrom_succ (i : Nat) (bs : List Bool) :
    nonzeroFrom (i + 1) bs = (nonzeroFrom i bs).map (· + 1) := by
  induction bs generalizing i with
  | nil => rfl
  | cons b bs ih =>
    cases b <;> simp [nonzeroFrom, ih]

theorem nonzeroFrom_allFalse (i : Nat) (bs : List Bool) (h : ∀ b ∈ bs, b = false) :
    nonzeroFrom i bs = [] := by
  induction bs generalizing i with
  | nil => rfl
  | cons b bs ih =>
    have hb : b = false := h b (by simp)
    subst hb
    simp only [nonzeroFrom]
    exact ih _ (fun b hb => h b (by simp [hb]))

theorem nonzeroFrom_append (i : Nat) (A B : List Bool) :
    nonzeroFrom i (A ++ B) = nonzeroFrom i A ++ nonzeroFrom (i + A.length) B := by
  induction A generalizing i with
  | nil => simp [nonzeroFrom]
  | cons a A ih =>
    cases a <;> simp [nonzeroFrom, ih, Nat.add_assoc, Nat.add_comm 1]

/-- first true entry -/
theorem nonzeroFrom_cons_decomp (i : Nat) (bs : List Bool) (c : Nat) (r : List Nat)
    (h : nonzeroFrom i bs = c :: r) :
    ∃ A B, bs = A ++ true :: B ∧ (∀ b ∈ A, b = false) ∧ c = i + A.length ∧ r = nonzeroFrom (c + 1) B := by
  induction bs generalizing i with
  | nil => simp [nonzeroFrom] at h
  | cons b bs ih =>
    cases b with
    | true =>
      simp only [nonzeroFrom, if_true, List.cons.injEq] at h
      exact ⟨[], bs, by simp, by simp, by simp [h.1], by rw [← h.1]; exact h.2.symm⟩
    | false =>
      simp only [nonzeroFrom, Bool.false_eq_true, if_false] at h
      obtain ⟨A, B, hbs, hA, hc, hr⟩ := ih (i + 1) h
      refine ⟨false :: A, B, by simp [hbs], ?_, by simp [hc]; omega, hr⟩
      intro b hb
      cases hb with
      | head => rfl
      | tail _ hb => exact hA b hb

theorem nonzeroFrom_eq_nil (i : Nat) (bs : List Bool) (h : nonzeroFrom i bs = []) : ∀ b ∈ bs, b = false := by
  induction bs generalizing i with
  | nil => simp
  | cons b bs ih =>
    cases b with
    | true => simp [nonzeroFrom] at h
    | false =>
      simp only [nonzeroFrom, Bool.false_eq_true, if_false] at h
      intro b hb
      cases hb with
      | head => rfl
      | tail _ hb => exact ih _ h b hb

theorem mem_nonzeroFrom (i : Nat) (bs : List Bool) (c : Nat) (h : c ∈ nonzeroFrom i bs) :
    i ≤ c ∧ bs[c - i]? = some true := by
  induction bs generalizing i with
  | nil => simp [nonzeroFrom] at h
  | cons b bs ih =>
    cases b with
    | true =>
      simp only [nonzeroFrom, if_true, List.mem_cons] at h
      rcases h with h | h
      · subst h; simp
      · obtain ⟨h1, h2⟩ := ih _ h
        refine ⟨by omega, ?_⟩
        have : c - i = (c - (i + 1)) + 1 := by omega
        rw [this]; simpa using h2
    | false =>
      simp only [nonzeroFrom, Bool.false_eq_true, if_false] at h
      obtain ⟨h1, h2⟩ := ih _ h
      refine ⟨by omega, ?_⟩
      have : c - i = (c - (i + 1)) + 1 := by omega
      rw [this]; simpa using h2

/-! ## Part 2: groups = vsplit at the transition points -/

def consHead (a : α) : List (List α) → List (List α)
  | [] => [[a]]
  | g :: gs => (a :: g) :: gs

/-- maximal runs of equal sign, structurally (`[[]]` for the empty list, as `np.vsplit` of an empty array) -/
def groups (sg : α → Int) : List α → List (List α)
  | [] => [[]]
  | [a] => [[a]]
  | a :: b :: r => if sg a != sg b then [a] :: groups sg (b :: r) else consHead a (groups sg (b :: r))

/-- `transition_points + 1` -/
def cutsOf (sg : α → Int) (vs : List α) : List Nat := (transitionPoints (vs.map sg)).map (· + 1)

theorem cutsOf_nil (sg : α → Int) : cutsOf sg ([] : List α) = [] := rfl
theorem cutsOf_single (sg : α → Int) (a : α) : cutsOf sg [a] = [] := rfl

theorem cutsOf_cons_cons (sg : α → Int) (a b : α) (r : List α) :
    cutsOf sg (a :: b :: r) = (if sg a != sg b then [1] else []) ++ (cutsOf sg (b :: r)).map (· + 1) := by
  unfold cutsOf transitionPoints
  simp only [List.map_cons, List.tail_cons, List.zipWith_cons_cons, nonzeroFrom]
  rw [nonzeroFrom_succ]
  split <;> simp

theorem vsplitFrom_shift (k : Nat) (l : List α) (is : List Nat) (s : Nat) (h : ∀ i ∈ is, s ≤ i)
    (hs : List.Pairwise (· ≤ ·) is) :
    vsplitFrom (s + k) l (is.map (· + k)) = vsplitFrom s l is := by
  induction is generalizing s l with
  | nil => rfl
  | cons i is ih =>
    simp only [List.map_cons, vsplitFrom]
    have hi : s ≤ i := h i (by simp)
    have e : i + k - (s + k) = i - s := by omega
    rw [e, ih]
    · intro j hj
      exact (List.pairwise_cons.mp hs).1 j hj
    · exact (List.pairwise_cons.mp hs).2

theorem vsplitFrom_ne_nil (s : Nat) (l : List α) (is : List Nat) : vsplitFrom s l is ≠ [] := by
  cases is <;> simp [vsplitFrom]

theorem vsplitFrom_cons_shift (a : α) (l : List α) (is : List Nat)
    (hs : List.Pairwise (· ≤ ·) is) :
    vsplitFrom 0 (a :: l) (is.map (· + 1)) = consHead a (vsplitFrom 0 l is) := by
  cases is with
  | nil => rfl
  | cons i is =>
    simp only [List.map_cons, vsplitFrom, Nat.sub_zero, List.take_succ_cons, List.drop_succ_cons, consHead]
    congr 1
    have := vsplitFrom_shift 1 (l.drop i) is i (fun j hj => (List.pairwise_cons.mp hs).1 j hj)
      (List.pairwise_cons.mp hs).2
    exact this

theorem nonzeroFrom_sorted (i : Nat) (bs : List Bool) :
    List.Pairwise (· ≤ ·) (nonzeroFrom i bs) ∧ ∀ c ∈ nonzeroFrom i bs, i ≤ c := by
  induction bs generalizing i with
  | nil => simp [nonzeroFrom]
  | cons b bs ih =>
    obtain ⟨h1, h2⟩ := ih (i + 1)
    cases b with
    | true =>
      simp only [nonzeroFrom, if_true, List.pairwise_cons, List.mem_cons]
      refine ⟨⟨fun c hc => by have := h2 c hc; omega, h1⟩, ?_⟩
      rintro c (rfl | hc)
      · exact Nat.le_refl _
      · have := h2 c hc; omega
    | false =>
      simp only [nonzeroFrom, Bool.false_eq_true, if_false]
      exact ⟨h1, fun c hc => by have := h2 c hc; omega⟩

theorem cutsOf_sorted (sg : α → Int) (vs : List α) :
    List.Pairwise (· ≤ ·) (cutsOf sg vs) ∧ ∀ c ∈ cutsOf sg vs, 1 ≤ c := by
  unfold cutsOf transitionPoints
  obtain ⟨h1, h2⟩ := nonzeroFrom_sorted 0 (List.zipWith (fun a b => a != b) (vs.map sg) (vs.map sg).tail)
  constructor
  · rw [List.pairwise_map]
    exact h1.imp (by intro a b h; omega)
  · intro c hc
    simp only [List.mem_map] at hc
    obtain ⟨d, _, rfl⟩ := hc
    omega

/-- the components computed by the code are the structural groups -/
theorem components_eq_groups (sg : α → Int) (vs : List α) :
    vsplitFrom 0 vs (cutsOf sg vs) = groups sg vs := by
  induction vs with
  | nil => rfl
  | cons a r ih =>
    cases r with
    | nil => rfl
    | cons b r =>
      rw [cutsOf_cons_cons, groups]
      obtain ⟨hs, h1⟩ := cutsOf_sorted sg (b :: r)
      by_cases h : (sg a != sg b) = true
      · simp only [h, if_true, List.singleton_append, vsplitFrom, Nat.sub_zero, List.take_succ_cons, List.take_zero,
          List.drop_succ_cons, List.drop_zero]
        congr 1
        rw [← ih]
        have := vsplitFrom_shift 1 (b :: r) (cutsOf sg (b :: r)) 0 (fun _ _ => Nat.zero_le _) hs
        simpa using this
      · simp only [h, if_false, List.nil_append, Bool.false_eq_true]
        rw [vsplitFrom_cons_shift a (b :: r) _ hs, ih]

/-- sign of a component, read at its first vertex (0 for an empty component) -/
def headSign (sg : α → Int) (g : List α) : Int :=
  match g with
  | [] => 0
  | a :: _ => sg a

theorem headSign_consHead (sg : α → Int) (a : α) (G : List (List α)) :
    (consHead a G).map (headSign sg) = sg a :: (G.map (headSign sg)).tail := by
  cases G <;> simp [consHead, headSign]

theorem groups_ne_nil (sg : α → Int) (vs : List α) : groups sg vs ≠ [] := by
  rw [← components_eq_groups]; exact vsplitFrom_ne_nil _ _ _

theorem groups_head_headSign (sg : α → Int) (a : α) (r : List α) :
    ((groups sg (a :: r)).map (headSign sg)).head? = some (sg a) := by
  cases r with
  | nil => rfl
  | cons b r =>
    rw [groups]
    split
    · rfl
    · rw [headSign_consHead]; rfl

/-- `signs[concatenate([[0], transition_points + 1])]` are the signs of the groups -/
theorem componentSigns_eq (sg : α → Int) (vs : List α) (hne : vs ≠ []) :
    ((0 :: cutsOf sg vs).map fun i => (vs.map sg).getD i 0) = (groups sg vs).map (headSign sg) := by
  induction vs with
  | nil => exact absurd rfl hne
  | cons a r ih =>
    cases r with
    | nil => rfl
    | cons b r =>
      have ih' := ih (by simp)
      rw [cutsOf_cons_cons, groups]
      simp only [List.map_cons, List.getD_cons_zero] at ih' ⊢
      have shift : ∀ l : List Nat, (l.map (· + 1)).map (fun i => (sg a :: sg b :: r.map sg).getD i 0)
          = l.map (fun i => (sg b :: r.map sg).getD i 0) := by
        intro l; simp [List.map_map, Function.comp_def]
      by_cases h : (sg a != sg b) = true
      · simp only [h, if_true, List.singleton_append, List.map_cons]
        rw [shift, ← ih']
        simp [headSign]
      · simp only [h, if_false, List.nil_append, Bool.false_eq_true]
        rw [shift, headSign_consHead, ← ih']
        simp

/-! ## Part 3: structure of groups -/

theorem flatten_consHead (a : α) (G : List (List α)) (h : G ≠ []) : (consHead a G).flatten = a :: G.flatten := by
  cases G with
  | nil => exact absurd rfl h
  | cons g gs => simp [consHead]

theorem groups_flatten (sg : α → Int) (vs : List α) : (groups sg vs).flatten = vs := by
  induction vs with
  | nil => rfl
  | cons a r ih =>
    cases r with
    | nil => rfl
    | cons b r =>
      rw [groups]
      split
      · simp [ih]
      · rw [flatten_consHead _ _ (groups_ne_nil _ _), ih]

theorem mem_consHead (a : α) (G : List (List α)) (g : List α) (h : g ∈ consHead a G) :
    (∃ g', g = a :: g' ∧ (G.head? = some g' ∨ (G = [] ∧ g' = []))) ∨ g ∈ G.tail := by
  cases G with
  | nil => simp [consHead] at h; subst h; exact Or.inl ⟨[], rfl, Or.inr ⟨rfl, rfl⟩⟩
  | cons g0 gs =>
    simp only [consHead, List.mem_cons] at h
    rcases h with h | h
    · exact Or.inl ⟨g0, h, Or.inl rfl⟩
    · exact Or.inr (by simpa using h)

/-- every group of a non-empty list is non-empty and has constant sign -/
theorem groups_const (sg : α → Int) (vs : List α) (hne : vs ≠ []) :
    ∀ g ∈ groups sg vs, g ≠ [] ∧ ∀ x ∈ g, sg x = headSign sg g := by
  induction vs with
  | nil => exact absurd rfl hne
  | cons a r ih =>
    cases r with
    | nil =>
      intro g hg
      simp [groups] at hg
      subst hg
      simp [headSign]
    | cons b r =>
      have ih' := ih (by simp)
      have hh := groups_head_headSign sg b r
      intro g hg
      rw [groups] at hg
      by_cases h : (sg a != sg b) = true
      · simp only [h, if_true, List.mem_cons] at hg
        rcases hg with hg | hg
        · subst hg; simp [headSign]
        · exact ih' g hg
      · simp only [h, if_false, Bool.false_eq_true] at hg
        have hab : sg a = sg b := by simpa using h
        rcases mem_consHead a _ g hg with ⟨g', rfl, hg'⟩ | hg'
        · rcases hg' with hg' | ⟨hnil, _⟩
          · have hmem : g' ∈ groups sg (b :: r) := List.mem_of_mem_head? hg'
            obtain ⟨hne', hc⟩ := ih' g' hmem
            refine ⟨by simp, ?_⟩
            have hs : headSign sg g' = sg b := by
              cases hG : groups sg (b :: r) with
              | nil => simp [hG] at hg'
              | cons g0 gs =>
                rw [hG] at hh hg'
                simp at hh hg'
                rw [← hg']; exact hh
            intro x hx
            simp only [List.mem_cons] at hx
            rcases hx with rfl | hx
            · simp [headSign]
            · rw [hc x hx, hs]; simp [headSign, hab]
          · exact absurd hnil (groups_ne_nil _ _)
        · exact ih' g (List.mem_of_mem_tail hg')

/-- adjacent elements of a list have different `f`-values -/
def AdjNe {γ : Type} (f : γ → Int) : List γ → Prop
  | [] => True
  | [_] => True
  | a :: b :: r => f a ≠ f b ∧ AdjNe f (b :: r)

theorem AdjNe_tail {γ : Type} (f : γ → Int) (a : γ) (l : List γ) (h : AdjNe f (a :: l)) : AdjNe f l := by
  cases l with
  | nil => trivial
  | cons b r => exact h.2

theorem AdjNe_append {γ : Type} (f : γ → Int) (A : List γ) (g h : γ) (B : List γ)
    (hc : AdjNe f (A ++ g :: h :: B)) : f g ≠ f h := by
  induction A with
  | nil => exact hc.1
  | cons a A ih => exact ih (AdjNe_tail f a _ hc)

theorem groups_adj (sg : α → Int) (vs : List α) : AdjNe (headSign sg) (groups sg vs) := by
  induction vs with
  | nil => trivial
  | cons a r ih =>
    cases r with
    | nil => trivial
    | cons b r =>
      have hh := groups_head_headSign sg b r
      rw [groups]
      by_cases h : (sg a != sg b) = true
      · simp only [h, if_true]
        cases hG : groups sg (b :: r) with
        | nil => trivial
        | cons g0 gs =>
          rw [hG] at hh ih
          simp at hh
          refine ⟨?_, ih⟩
          show sg a ≠ headSign sg g0
          rw [hh]
          simpa using h
      · simp only [h, if_false, Bool.false_eq_true]
        have hab : sg a = sg b := by simpa using h
        cases hG : groups sg (b :: r) with
        | nil => trivial
        | cons g0 gs =>
          rw [hG] at hh ih
          simp at hh
          cases gs with
          | nil => trivial
          | cons g1 gs =>
            refine ⟨?_, ih.2⟩
            have := ih.1
            show sg a ≠ headSign sg g1
            rw [hab, ← hh]; exact this

/-! ## Part 4: the span decomposition -/

theorem takeWhile_of_head_false (p : α → Bool) (l : List α) (h : ∀ x, l.head? = some x → p x = false) :
    l.takeWhile p = [] ∧ l.dropWhile p = l := by
  cases l with
  | nil => simp
  | cons x l =>
    have hx : p x = false := h x rfl
    simp [hx]

/-- `sliceSpanG` evaluated on an explicit decomposition `pre ++ run ++ post` -/
theorem sliceSpanG_decomp (sg : α → Int) (cross : α → α → β) (keep : α → β) (pre run post : List α)
    (first last : α) (hf : run.head? = some first) (hl : run.getLast? = some last)
    (hpre : ∀ x ∈ pre, isFront sg x = false) (hrun : ∀ x ∈ run, isFront sg x = true)
    (hpost : ∀ x, post.head? = some x → isFront sg x = false) :
    sliceSpanG sg cross keep (pre ++ run ++ post) =
      if post.any (isFront sg) then .error .ValueError
      else if pre.isEmpty && post.isEmpty then .error .ValueError
      else .ok (entryRows sg cross keep pre first ++ run.map keep ++ exitRows sg cross keep last post) := by
  have hq : ∀ x ∈ pre, (fun a => !isFront sg a) x = true := by
    intro x hx; simp [hpre x hx]
  have hrp : ∀ x, (run ++ post).head? = some x → (fun a => !isFront sg a) x = false := by
    intro x hx
    cases run with
    | nil => simp at hf
    | cons y run' =>
      simp at hx; subst hx
      simp [hrun y (by simp)]
  have e1 : (pre ++ run ++ post).takeWhile (fun a => !isFront sg a) = pre := by
    rw [List.append_assoc, List.takeWhile_append_of_pos hq, (takeWhile_of_head_false _ _ hrp).1]; simp
  have e2 : (pre ++ run ++ post).dropWhile (fun a => !isFront sg a) = run ++ post := by
    rw [List.append_assoc, List.dropWhile_append_of_pos hq, (takeWhile_of_head_false _ _ hrp).2]
  have e3 : (run ++ post).takeWhile (isFront sg) = run := by
    rw [List.takeWhile_append_of_pos hrun, (takeWhile_of_head_false _ _ hpost).1]; simp
  have e4 : (run ++ post).dropWhile (isFront sg) = post := by
    rw [List.dropWhile_append_of_pos hrun, (takeWhile_of_head_false _ _ hpost).2]
  unfold sliceSpanG
  simp only [e1, e2, e3, e4, hf, hl]

theorem sliceSpanG_nofront (sg : α → Int) (cross : α → α → β) (keep : α → β) (vs : List α)
    (h : ∀ x ∈ vs, isFront sg x = false) : sliceSpanG sg cross keep vs = .error .ValueError := by
  have hq : ∀ x ∈ vs, (fun a => !isFront sg a) x = true := by
    intro x hx; simp [h x hx]
  have e2 : vs.dropWhile (fun a => !isFront sg a) = [] := by
    have := List.dropWhile_append_of_pos (l₂ := []) hq
    simpa using this
  unfold sliceSpanG
  simp only [e2, List.takeWhile_nil, List.head?_nil]

/-! ## Part 5: code-shaped = span-shaped -/

/-- the decision part of `sliceOpenRunsG`, as a function of the components and their signs -/
def runsLogic (cross : α → α → β) (keep : α → β) (components : List (List α)) (componentSigns : List Int) :
    Res (List β) :=
  match nonzeroFrom 0 (componentSigns.map (· == 1)) with
  | [] => .error .ValueError
  | _ :: _ :: _ => .error .ValueError
  | [c] =>
    if components.length < 2 then .error .ValueError
    else
      let vertsInFront := components.getD c []
      match vertsInFront.head?, vertsInFront.getLast? with
      | some first, some last =>
        let prepend : Res (List β) :=
          if c > 0 then
            match (components.getD (c - 1) []).getLast? with
            | some adjacent =>
              if componentSigns.getD (c - 1) 0 == 0 then .ok [keep adjacent] else .ok [cross adjacent first]
            | none => .error .IndexError
          else .ok []
        let append : Res (List β) :=
          if c + 1 < components.length then
            match (components.getD (c + 1) []).head? with
            | some adjacent =>
              if componentSigns.getD (c + 1) 0 == 0 then .ok [keep adjacent] else .ok [cross last adjacent]
            | none => .error .IndexError
          else .ok []
        match prepend, append with
        | .ok pre, .ok app => .ok (pre ++ vertsInFront.map keep ++ app)
        | .error e, _ => .error e
        | _, .error e => .error e
      | _, _ => .error .IndexError

theorem sliceOpenRunsG_eq_logic (sg : α → Int) (cross : α → α → β) (keep : α → β) (vs : List α) :
    sliceOpenRunsG sg cross keep vs =
      if vs.length = 0 then .error .ValueError
      else runsLogic cross keep (vsplitFrom 0 vs (cutsOf sg vs))
        ((0 :: cutsOf sg vs).map fun i => (vs.map sg).getD i 0) := rfl

theorem getD_at_len {γ : Type} (A : List γ) (g : γ) (B : List γ) (d : γ) : (A ++ g :: B).getD A.length d = g := by
  induction A with
  | nil => rfl
  | cons a A ih => simpa using ih

theorem map_eq_append_cons {γ δ : Type} (f : γ → δ) (l : List γ) (A' : List δ) (b : δ) (B' : List δ)
    (h : l.map f = A' ++ b :: B') : ∃ A x B, l = A ++ x :: B ∧ A.map f = A' ∧ f x = b ∧ B.map f = B' := by
  rw [List.map_eq_append_iff] at h
  obtain ⟨A, R, rfl, hA, hR⟩ := h
  rw [List.map_eq_cons_iff] at hR
  obtain ⟨x, B, rfl, hx, hB⟩ := hR
  exact ⟨A, x, B, rfl, hA, hx, hB⟩

theorem allFalse_of_map {γ : Type} (f : γ → Bool) (A : List γ) (h : ∀ b ∈ A.map f, b = false) :
    ∀ x ∈ A, f x = false := by
  intro x hx
  exact h (f x) (List.mem_map_of_mem hx)

section main
variable (sg : α → Int) (cross : α → α → β) (keep : α → β)

/-- groups whose sign is not 1 contain no front vertex; groups of sign 1 only front vertices -/
theorem front_of_group (g : List α) (hc : ∀ x ∈ g, sg x = headSign sg g) (b : Bool)
    (hb : (headSign sg g == 1) = b) : ∀ x ∈ g, isFront sg x = b := by
  intro x hx
  unfold isFront
  rw [hc x hx]; exact hb

theorem nofront_flatten (A : List (List α)) (hc : ∀ g ∈ A, ∀ x ∈ g, sg x = headSign sg g)
    (hA : ∀ g ∈ A, (headSign sg g == 1) = false) : ∀ x ∈ A.flatten, isFront sg x = false := by
  intro x hx
  rw [List.mem_flatten] at hx
  obtain ⟨g, hg, hxg⟩ := hx
  exact front_of_group sg g (hc g hg) false (hA g hg) x hxg

theorem sliceOpenRunsG_eq_span (vs : List α) :
    sliceOpenRunsG sg cross keep vs = sliceSpanG sg cross keep vs := by
  cases vs with
  | nil => rfl
  | cons a0 r0 =>
  generalize hvs : a0 :: r0 = vs
  have hne : vs ≠ [] := by rw [← hvs]; simp
  rw [sliceOpenRunsG_eq_logic, components_eq_groups, componentSigns_eq sg vs hne]
  have hlen : vs.length ≠ 0 := by
    intro h; exact hne (List.length_eq_zero_iff.mp h)
  simp only [hlen, if_false]
  have hflat := groups_flatten sg vs
  have hconst := groups_const sg vs hne
  have hadj := groups_adj sg vs
  generalize groups sg vs = G at hflat hconst hadj
  have hcs : ∀ g ∈ G, ∀ x ∈ g, sg x = headSign sg g := fun g hg => (hconst g hg).2
  have hmm : (G.map (headSign sg)).map (· == 1) = G.map (fun g => headSign sg g == 1) := by
    simp [List.map_map, Function.comp_def]
  unfold runsLogic
  rw [hmm]
  rcases hnz : nonzeroFrom 0 (G.map (fun g => headSign sg g == 1)) with _ | ⟨c, _ | ⟨c2, rest⟩⟩
  · -- no component in front
    simp only []
    have hall := allFalse_of_map _ G (nonzeroFrom_eq_nil _ _ hnz)
    rw [← hflat]
    exact (sliceSpanG_nofront sg cross keep _ (nofront_flatten sg G hcs hall)).symm
  · -- exactly one component in front
    simp only []
    obtain ⟨A', B', hmask, hA', hc, hB'⟩ := nonzeroFrom_cons_decomp _ _ _ _ hnz
    have hB'f := nonzeroFrom_eq_nil _ _ hB'.symm
    obtain ⟨A, g, B, hG, hAm, hg1, hBm⟩ := map_eq_append_cons _ _ _ _ _ hmask
    subst hAm hBm
    have hAf := allFalse_of_map _ A hA'
    have hBf := allFalse_of_map _ B hB'f
    have hcA : c = A.length := by simp [hc]
    subst hG
    have hgne := (hconst g (by simp)).1
    have hgfront : ∀ x ∈ g, isFront sg x = true := front_of_group sg g (hcs g (by simp)) true hg1
    have hApre : ∀ x ∈ A.flatten, isFront sg x = false :=
      nofront_flatten sg A (fun g hg => hcs g (by simp [hg])) hAf
    have hBpost : ∀ x ∈ B.flatten, isFront sg x = false :=
      nofront_flatten sg B (fun g hg => hcs g (by simp [hg])) hBf
    obtain ⟨first, hfirst⟩ : ∃ f, g.head? = some f := by
      cases g with
      | nil => exact absurd rfl hgne
      | cons x _ => exact ⟨x, rfl⟩
    obtain ⟨last, hlast⟩ : ∃ l, g.getLast? = some l := by
      cases h : g.getLast? with
      | none => exact absurd (List.getLast?_eq_none_iff.mp h) hgne
      | some l => exact ⟨l, rfl⟩
    have hvsd : vs = A.flatten ++ g ++ B.flatten := by rw [← hflat]; simp
    have hspan := sliceSpanG_decomp sg cross keep A.flatten g B.flatten first last hfirst hlast hApre hgfront
      (fun x hx => hBpost x (List.mem_of_mem_head? hx))
    have hany : B.flatten.any (isFront sg) = false := by
      rw [List.any_eq_false]; intro x hx; simp [hBpost x hx]
    rw [hvsd, hspan, hany]
    simp only [Bool.false_eq_true, if_false]
    have hgetc : (A ++ g :: B).getD c [] = g := by rw [hcA]; exact getD_at_len A g B []
    by_cases hlen2 : (A ++ g :: B).length < 2
    · have hA0 : A = [] := by
        cases A with
        | nil => rfl
        | cons _ _ => simp at hlen2; omega
      have hB0 : B = [] := by
        cases B with
        | nil => rfl
        | cons _ _ => simp at hlen2; omega
      subst hA0 hB0
      simp
    · simp only [hlen2, if_false, hgetc, hfirst, hlast]
      -- the prepend block
      have hpre : (if c > 0 then
            match ((A ++ g :: B).getD (c - 1) []).getLast? with
            | some adjacent =>
              if ((A ++ g :: B).map (headSign sg)).getD (c - 1) 0 == 0 then (Except.ok [keep adjacent] : Res (List β))
              else .ok [cross adjacent first]
            | none => .error .IndexError
          else .ok []) = .ok (entryRows sg cross keep A.flatten first) := by
        rcases List.eq_nil_or_concat A with hA0 | ⟨A0, gp, hA1⟩
        · subst hA0
          simp [hcA, entryRows]
        · rw [List.concat_eq_append] at hA1
          subst hA1
          have hc1 : c - 1 = A0.length := by simp [hcA]
          have hcpos : c > 0 := by simp [hcA]
          have hgp := hconst gp (by simp)
          obtain ⟨adj, hadjl⟩ : ∃ l, gp.getLast? = some l := by
            cases h : gp.getLast? with
            | none => exact absurd (List.getLast?_eq_none_iff.mp h) hgp.1
            | some l => exact ⟨l, rfl⟩
          have e1 : (A0 ++ [gp] ++ g :: B).getD (c - 1) [] = gp := by
            rw [hc1, List.append_assoc]; exact getD_at_len A0 gp _ []
          have e2 : ((A0 ++ [gp] ++ g :: B).map (headSign sg)).getD (c - 1) 0 = headSign sg gp := by
            rw [hc1, List.append_assoc, List.map_append]
            have := getD_at_len (A0.map (headSign sg)) (headSign sg gp) ((g :: B).map (headSign sg)) 0
            simpa using this
          have e3 : (A0 ++ [gp]).flatten.getLast? = some adj := by
            simp [List.flatten_append, List.getLast?_append, hadjl]
          have e4 : sg adj = headSign sg gp := hgp.2 adj (List.mem_of_getLast? hadjl)
          simp only [hcpos, if_true, e1, e2, hadjl, entryRows, e3, entryPt, e4]
          by_cases h0 : headSign sg gp = 0 <;> simp [h0]
      -- the append block
      have happ : (if c + 1 < (A ++ g :: B).length then
            match ((A ++ g :: B).getD (c + 1) []).head? with
            | some adjacent =>
              if ((A ++ g :: B).map (headSign sg)).getD (c + 1) 0 == 0 then (Except.ok [keep adjacent] : Res (List β))
              else .ok [cross last adjacent]
            | none => .error .IndexError
          else .ok []) = .ok (exitRows sg cross keep last B.flatten) := by
        cases B with
        | nil => simp [hcA, exitRows]
        | cons gn B1 =>
          have hlt : c + 1 < (A ++ g :: gn :: B1).length := by simp [hcA]
          have hgn := hconst gn (by simp)
          obtain ⟨adj, hadjh⟩ : ∃ l, gn.head? = some l := by
            cases gn with
            | nil => exact absurd rfl hgn.1
            | cons x _ => exact ⟨x, rfl⟩
          have e1 : (A ++ g :: gn :: B1).getD (c + 1) [] = gn := by
            have := getD_at_len (A ++ [g]) gn B1 []
            simpa [hcA] using this
          have e2 : ((A ++ g :: gn :: B1).map (headSign sg)).getD (c + 1) 0 = headSign sg gn := by
            have := getD_at_len ((A ++ [g]).map (headSign sg)) (headSign sg gn) (B1.map (headSign sg)) 0
            simpa [hcA] using this
          have e3 : (gn :: B1).flatten.head? = some adj := by
            simp [hadjh]
          have e4 : sg adj = headSign sg gn := hgn.2 adj (List.mem_of_mem_head? hadjh)
          simp only [hlt, if_true, e1, e2, hadjh, exitRows, e3, exitPt, e4]
          by_cases h0 : headSign sg gn = 0 <;> simp [h0]
      rw [hpre, happ]
      have hemp : (A.flatten.isEmpty && B.flatten.isEmpty) = false := by
        cases A with
        | cons a A1 =>
          have := (hconst a (by simp)).1
          cases a with
          | nil => exact absurd rfl this
          | cons _ _ => simp
        | nil =>
          cases B with
          | nil => simp at hlen2
          | cons b B1 =>
            have := (hconst b (by simp)).1
            cases b with
            | nil => exact absurd rfl this
            | cons _ _ => simp
      simp [hemp]
  · -- more than one component in front
    simp only []
    obtain ⟨A', R', hmask, hA', hc, hR'⟩ := nonzeroFrom_cons_decomp _ _ _ _ hnz
    obtain ⟨B', C', hmask2, hB', hc2, _⟩ := nonzeroFrom_cons_decomp _ _ _ _ hR'.symm
    obtain ⟨A, g1, R, hG, hAm, hg1, hRm⟩ := map_eq_append_cons _ _ _ _ _ hmask
    rw [hmask2] at hRm
    obtain ⟨B, g2, C, hR, hBm, hg2, hCm⟩ := map_eq_append_cons _ _ _ _ _ hRm
    subst hAm hBm hG hR
    have hAf := allFalse_of_map _ A hA'
    have hBf := allFalse_of_map _ B hB'
    have hg1ne := (hconst g1 (by simp)).1
    have hg2ne := (hconst g2 (by simp)).1
    have hg1front : ∀ x ∈ g1, isFront sg x = true := front_of_group sg g1 (hcs g1 (by simp)) true hg1
    have hg2front : ∀ x ∈ g2, isFront sg x = true := front_of_group sg g2 (hcs g2 (by simp)) true hg2
    have hApre : ∀ x ∈ A.flatten, isFront sg x = false :=
      nofront_flatten sg A (fun g hg => hcs g (by simp [hg])) hAf
    have hBmid : ∀ x ∈ B.flatten, isFront sg x = false :=
      nofront_flatten sg B (fun g hg => hcs g (by simp [hg])) hBf
    obtain ⟨first, hfirst⟩ : ∃ f, g1.head? = some f := by
      cases g1 with
      | nil => exact absurd rfl hg1ne
      | cons x _ => exact ⟨x, rfl⟩
    obtain ⟨last, hlast⟩ : ∃ l, g1.getLast? = some l := by
      cases h : g1.getLast? with
      | none => exact absurd (List.getLast?_eq_none_iff.mp h) hg1ne
      | some l => exact ⟨l, rfl⟩
    -- the two front components are not adjacent
    obtain ⟨b0, B1, hB⟩ : ∃ b0 B1, B = b0 :: B1 := by
      cases B with
      | nil =>
        exfalso
        have := AdjNe_append (headSign sg) A g1 g2 C (by simpa using hadj)
        have h1 : headSign sg g1 = 1 := by simpa using hg1
        have h2 : headSign sg g2 = 1 := by simpa using hg2
        exact this (h1.trans h2.symm)
      | cons b0 B1 => exact ⟨b0, B1, rfl⟩
    subst hB
    have hb0 := hconst b0 (by simp)
    obtain ⟨y, b0', hb0e⟩ : ∃ y b0', b0 = y :: b0' := by
      cases b0 with
      | nil => exact absurd rfl hb0.1
      | cons y b0' => exact ⟨y, b0', rfl⟩
    have hvsd : vs = A.flatten ++ g1 ++ ((b0 :: B1).flatten ++ g2 ++ C.flatten) := by
      rw [← hflat]; simp
    have hpost : ∀ x, ((b0 :: B1).flatten ++ g2 ++ C.flatten).head? = some x → isFront sg x = false := by
      intro x hx
      subst hb0e
      simp at hx
      subst hx
      exact hBmid y (by simp)
    have hspan := sliceSpanG_decomp sg cross keep A.flatten g1 ((b0 :: B1).flatten ++ g2 ++ C.flatten) first last
      hfirst hlast hApre hg1front hpost
    have hany : ((b0 :: B1).flatten ++ g2 ++ C.flatten).any (isFront sg) = true := by
      cases g2 with
      | nil => exact absurd rfl hg2ne
      | cons z _ =>
        rw [List.any_eq_true]
        exact ⟨z, by simp, hg2front z (by simp)⟩
    rw [hvsd, hspan, hany]
    simp

end main

/-! ## Part 6: rotation -/

/-- read a cycle from its first element `a` on and come back to `a` -/
def cycG (sg : α → Int) (cross : α → α → β) (keep : α → β) (u : List α) : Res (List β) :=
  match u with
  | [] => .error .ValueError
  | a :: _ => sliceSpanG sg cross keep (u ++ [a])

section rot
variable (sg : α → Int) (cross : α → α → β) (keep : α → β)

theorem mem_takeWhile_sat (p : α → Bool) (l : List α) (x : α) (h : x ∈ l.takeWhile p) : p x = true := by
  induction l with
  | nil => simp at h
  | cons a l ih =>
    rw [List.takeWhile_cons] at h
    split at h
    · rcases List.mem_cons.mp h with rfl | h
      · assumption
      · exact ih h
    · simp at h

/-- every list is `N ++ F ++ T`: leading non-front vertices, then front vertices, then a rest that does not start with a
    front vertex (and is empty when `F` is) -/
theorem shape (L : List α) : ∃ N F T, L = N ++ F ++ T ∧ (∀ x ∈ N, isFront sg x = false) ∧
    (∀ x ∈ F, isFront sg x = true) ∧ (∀ x, T.head? = some x → isFront sg x = false) ∧ (F = [] → T = []) := by
  refine ⟨L.takeWhile (fun a => !isFront sg a), (L.dropWhile (fun a => !isFront sg a)).takeWhile (isFront sg),
    (L.dropWhile (fun a => !isFront sg a)).dropWhile (isFront sg), ?_, ?_, ?_, ?_, ?_⟩
  · rw [List.append_assoc, List.takeWhile_append_dropWhile, List.takeWhile_append_dropWhile]
  · intro x hx
    have := mem_takeWhile_sat _ _ _ hx
    simpa using this
  · intro x hx
    exact mem_takeWhile_sat _ _ _ hx
  · intro x hx
    have := List.head?_dropWhile_not (isFront sg) (L.dropWhile (fun a => !isFront sg a))
    rw [hx] at this
    simpa using this
  · intro hF
    have h1 := List.head?_dropWhile_not (fun a => !isFront sg a) L
    cases hR : L.dropWhile (fun a => !isFront sg a) with
    | nil => rfl
    | cons z R =>
      rw [hR] at hF h1
      have hz : isFront sg z = true := by simpa using h1
      simp [hz] at hF

theorem entryRows_append (A B : List α) (first : α) (hB : B ≠ []) :
    entryRows sg cross keep (A ++ B) first = entryRows sg cross keep B first := by
  unfold entryRows
  rw [List.getLast?_append]
  cases h : B.getLast? with
  | none => exact absurd (List.getLast?_eq_none_iff.mp h) hB
  | some b => rfl

theorem exitRows_append (A B : List α) (last : α) (hA : A ≠ []) :
    exitRows sg cross keep last (A ++ B) = exitRows sg cross keep last A := by
  unfold exitRows
  rw [List.head?_append]
  cases h : A.head? with
  | none => exact absurd (List.head?_eq_none_iff.mp h) hA
  | some b => rfl

theorem head_getLast_of_ne_nil (F : List α) (h : F ≠ []) : ∃ f l, F.head? = some f ∧ F.getLast? = some l := by
  cases F with
  | nil => exact absurd rfl h
  | cons x F' =>
    cases h2 : (x :: F').getLast? with
    | none => simp at h2
    | some l => exact ⟨x, l, rfl, rfl⟩

/-- a cycle read from two vertices that are not in front, when the stretch `X` between them has no front vertex -/
theorem cycG_swap_nofront (x : α) (Nx : List α) (y : α) (Y' : List α)
    (hx : isFront sg x = false) (hNx : ∀ z ∈ Nx, isFront sg z = false) (hy : isFront sg y = false) :
    cycG sg cross keep ((x :: Nx) ++ (y :: Y')) = cycG sg cross keep ((y :: Y') ++ (x :: Nx)) := by
  obtain ⟨Ny, Fy, Ty, hY, hNy, hFy, hTy, hFT⟩ := shape sg Y'
  have hX : ∀ z ∈ x :: Nx, isFront sg z = false := by
    intro z hz
    rcases List.mem_cons.mp hz with rfl | hz
    · exact hx
    · exact hNx z hz
  show sliceSpanG sg cross keep ((x :: Nx) ++ (y :: Y') ++ [x]) = sliceSpanG sg cross keep ((y :: Y') ++ (x :: Nx) ++ [y])
  by_cases hF : Fy = []
  · -- no front vertex at all
    have hT := hFT hF
    subst hF hT
    simp only [List.append_nil] at hY
    subst hY
    rw [sliceSpanG_nofront, sliceSpanG_nofront]
    · intro z hz
      simp only [List.mem_append, List.mem_cons, List.not_mem_nil, or_false] at hz
      rcases hz with (((rfl | hz) | (rfl | hz)) | rfl)
      · exact hy
      · exact hNy z hz
      · exact hx
      · exact hNx z hz
      · exact hy
    · intro z hz
      simp only [List.mem_append, List.mem_cons, List.not_mem_nil, or_false] at hz
      rcases hz with (((rfl | hz) | (rfl | hz)) | rfl)
      · exact hx
      · exact hNx z hz
      · exact hy
      · exact hNy z hz
      · exact hx
  · obtain ⟨first, last, hfirst, hlast⟩ := head_getLast_of_ne_nil Fy hF
    subst hY
    have e1 : (x :: Nx) ++ (y :: (Ny ++ Fy ++ Ty)) ++ [x] = ((x :: Nx) ++ (y :: Ny)) ++ Fy ++ (Ty ++ [x]) := by simp
    have e2 : (y :: (Ny ++ Fy ++ Ty)) ++ (x :: Nx) ++ [y] = (y :: Ny) ++ Fy ++ (Ty ++ ((x :: Nx) ++ [y])) := by simp
    have hpre1 : ∀ z ∈ (x :: Nx) ++ (y :: Ny), isFront sg z = false := by
      intro z hz
      simp only [List.mem_append, List.mem_cons] at hz
      rcases hz with ((rfl | hz) | (rfl | hz))
      · exact hx
      · exact hNx z hz
      · exact hy
      · exact hNy z hz
    have hpre2 : ∀ z ∈ (y :: Ny), isFront sg z = false := by
      intro z hz
      rcases List.mem_cons.mp hz with rfl | hz
      · exact hy
      · exact hNy z hz
    have hpost1 : ∀ z, (Ty ++ [x]).head? = some z → isFront sg z = false := by
      intro z hz
      cases Ty with
      | nil => simp at hz; subst hz; exact hx
      | cons t Ty' => simp at hz; subst hz; exact hTy _ rfl
    have hpost2 : ∀ z, (Ty ++ ((x :: Nx) ++ [y])).head? = some z → isFront sg z = false := by
      intro z hz
      cases Ty with
      | nil => simp at hz; subst hz; exact hx
      | cons t Ty' => simp at hz; subst hz; exact hTy _ rfl
    rw [e1, e2, sliceSpanG_decomp sg cross keep _ Fy _ first last hfirst hlast hpre1 hFy hpost1,
      sliceSpanG_decomp sg cross keep _ Fy _ first last hfirst hlast hpre2 hFy hpost2]
    have hany : (Ty ++ [x]).any (isFront sg) = (Ty ++ ((x :: Nx) ++ [y])).any (isFront sg) := by
      have hn : (x :: Nx).any (isFront sg) = false := by
        rw [List.any_eq_false]; intro z hz; simp [hX z hz]
      simp only [List.any_append, hn]
      simp [hx, hy]
    have hent : entryRows sg cross keep ((x :: Nx) ++ (y :: Ny)) first = entryRows sg cross keep (y :: Ny) first :=
      entryRows_append sg cross keep _ _ _ (by simp)
    have hexit : exitRows sg cross keep last (Ty ++ [x]) = exitRows sg cross keep last (Ty ++ ((x :: Nx) ++ [y])) := by
      cases Ty with
      | nil => simp [exitRows]
      | cons t Ty' => simp [exitRows]
    rw [hany, hent, hexit]
    simp

/-- two stretches that both contain a front vertex: refused, whichever comes first -/
theorem cycG_two_runs (x : α) (X' : List α) (y : α) (Y' : List α)
    (hx : isFront sg x = false) (hy : isFront sg y = false)
    (hXf : ∃ z ∈ X', isFront sg z = true) (hYf : ∃ z ∈ Y', isFront sg z = true) :
    cycG sg cross keep ((x :: X') ++ (y :: Y')) = .error .ValueError := by
  obtain ⟨Nx, Fx, Tx, hX, hNx, hFx, hTx, hFT⟩ := shape sg X'
  show sliceSpanG sg cross keep ((x :: X') ++ (y :: Y') ++ [x]) = _
  have hF : Fx ≠ [] := by
    intro hF
    have hT := hFT hF
    subst hF hT
    simp only [List.append_nil] at hX
    subst hX
    obtain ⟨z, hz, hzf⟩ := hXf
    rw [hNx z hz] at hzf
    exact absurd hzf (by simp)
  obtain ⟨first, last, hfirst, hlast⟩ := head_getLast_of_ne_nil Fx hF
  subst hX
  have e1 : (x :: (Nx ++ Fx ++ Tx)) ++ (y :: Y') ++ [x] = (x :: Nx) ++ Fx ++ (Tx ++ ((y :: Y') ++ [x])) := by simp
  have hpre : ∀ z ∈ (x :: Nx), isFront sg z = false := by
    intro z hz
    rcases List.mem_cons.mp hz with rfl | hz
    · exact hx
    · exact hNx z hz
  have hpost : ∀ z, (Tx ++ ((y :: Y') ++ [x])).head? = some z → isFront sg z = false := by
    intro z hz
    cases Tx with
    | nil => simp at hz; subst hz; exact hy
    | cons t Tx' => simp at hz; subst hz; exact hTx _ rfl
  rw [e1, sliceSpanG_decomp sg cross keep _ Fx _ first last hfirst hlast hpre hFx hpost]
  have hany : (Tx ++ ((y :: Y') ++ [x])).any (isFront sg) = true := by
    obtain ⟨z, hz, hzf⟩ := hYf
    rw [List.any_eq_true]
    exact ⟨z, by simp [hz], hzf⟩
  simp only [hany, if_true]

theorem front_or_not (L : List α) : (∃ z ∈ L, isFront sg z = true) ∨ (∀ z ∈ L, isFront sg z = false) := by
  induction L with
  | nil => right; simp
  | cons a L ih =>
    cases h : isFront sg a with
    | true => left; exact ⟨a, by simp, h⟩
    | false =>
      rcases ih with ⟨z, hz, hzf⟩ | ih
      · left; exact ⟨z, by simp [hz], hzf⟩
      · right
        intro z hz
        rcases List.mem_cons.mp hz with rfl | hz
        · exact h
        · exact ih z hz

theorem nonfront_or_all (L : List α) : (∃ z ∈ L, isFront sg z = false) ∨ (∀ z ∈ L, isFront sg z = true) := by
  induction L with
  | nil => right; simp
  | cons a L ih =>
    cases h : isFront sg a with
    | false => left; exact ⟨a, by simp, h⟩
    | true =>
      rcases ih with ⟨z, hz, hzf⟩ | ih
      · left; exact ⟨z, by simp [hz], hzf⟩
      · right
        intro z hz
        rcases List.mem_cons.mp hz with rfl | hz
        · exact h
        · exact ih z hz

/-- **rotation invariance**: a cycle may be read from any vertex that is not in front -/
theorem cycG_swap (x : α) (X' : List α) (y : α) (Y' : List α)
    (hx : isFront sg x = false) (hy : isFront sg y = false) :
    cycG sg cross keep ((x :: X') ++ (y :: Y')) = cycG sg cross keep ((y :: Y') ++ (x :: X')) := by
  rcases front_or_not sg X' with hXf | hXn
  · rcases front_or_not sg Y' with hYf | hYn
    · rw [cycG_two_runs sg cross keep x X' y Y' hx hy hXf hYf, cycG_two_runs sg cross keep y Y' x X' hy hx hYf hXf]
    · exact (cycG_swap_nofront sg cross keep y Y' x X' hy hYn hx).symm
  · exact cycG_swap_nofront sg cross keep x X' y Y' hx hXn hy

/-- reading the cycle from index `k` (not in front) or from index `j ≤ k` (not in front) gives the same -/
theorem cycG_rotl (vs : List α) (j k : Nat) (hjk : j ≤ k) (hk : k < vs.length)
    (hj : ∀ a, vs[j]? = some a → isFront sg a = false) (hkf : ∀ a, vs[k]? = some a → isFront sg a = false) :
    cycG sg cross keep (rotl k vs) = cycG sg cross keep (rotl j vs) := by
  by_cases hjk' : j = k
  · subst hjk'; rfl
  have hjlt : j < k := by omega
  -- vs = P ++ X ++ Y with |P| = j, |P ++ X| = k
  have hsplit : vs = vs.take j ++ ((vs.drop j).take (k - j) ++ vs.drop k) := by
    have h1 : vs.drop k = (vs.drop j).drop (k - j) := by
      rw [List.drop_drop]; congr 1; omega
    rw [h1, List.take_append_drop, List.take_append_drop]
  generalize hP : vs.take j = P at hsplit
  generalize hXd : (vs.drop j).take (k - j) = X at hsplit
  generalize hYd : vs.drop k = Y at hsplit
  have hPl : P.length = j := by rw [← hP]; simp; omega
  have hXl : X.length = k - j := by rw [← hXd]; simp; omega
  have hr1 : rotl k vs = Y ++ (P ++ X) := by
    unfold rotl
    rw [hYd]
    congr 1
    rw [hsplit, ← List.append_assoc]
    have : k = (P ++ X).length := by simp [hPl, hXl]; omega
    rw [this, List.take_left]
  have hr2 : rotl j vs = X ++ (Y ++ P) := by
    unfold rotl
    rw [hP, hsplit, ← hPl, List.drop_left]
    simp
  -- X and Y start with vertices that are not in front
  cases X with
  | nil => simp at hXl; omega
  | cons x X' =>
  cases Y with
  | nil =>
    have : (vs.drop k).length = 0 := by rw [hYd]; rfl
    simp at this; omega
  | cons y Y' =>
  have hx : isFront sg x = false := by
    apply hj
    rw [hsplit, List.getElem?_append_right (by omega), hPl]
    simp
  have hy : isFront sg y = false := by
    apply hkf
    rw [hsplit, ← List.append_assoc, List.getElem?_append_right (by simp [hPl, hXl]; omega)]
    have : k - (P ++ x :: X').length = 0 := by simp [hPl] at hXl ⊢; omega
    rw [this]; rfl
  rw [hr1, hr2]
  have := cycG_swap sg cross keep x X' y (Y' ++ P) hx hy
  simp only [List.cons_append, List.append_assoc] at this ⊢
  exact this.symm

end rot

/-! ## Part 7: the closed polyline (roll + append) -/

theorem roll_idx_nat (k n : Nat) (h : k < n) : (((k : Int)) % (n : Int)).toNat = k := by
  rw [Int.emod_eq_of_lt (by omega) (by omega)]; simp

theorem roll_idx_neg_one (n : Nat) (h : 0 < n) : ((-1 : Int) % (n : Int)).toNat = n - 1 := by
  have h1 : (-1 : Int) % n = ((n : Int) - 1) := by
    rw [← Int.add_emod_right (-1) n, Int.emod_eq_of_lt (by omega) (by omega)]; omega
  rw [h1]; omega

theorem mem_rotl (k : Nat) (l : List α) (x : α) : x ∈ rotl k l ↔ x ∈ l := by
  unfold rotl
  rw [List.mem_append, Or.comm, ← List.mem_append, List.take_append_drop]

theorem rotl_zero (l : List α) : rotl 0 l = l := by simp [rotl]

theorem rotl_length (k : Nat) (l : List α) : (rotl k l).length = l.length := by
  unfold rotl
  rw [List.length_append, Nat.add_comm, ← List.length_append, List.take_append_drop]

section closed
variable (sg : α → Int) (cross : α → α → β) (keep : α → β)

theorem rotl_takeWhile (p : α → Bool) (vs : List α) :
    rotl (vs.takeWhile p).length vs = vs.dropWhile p ++ vs.takeWhile p := by
  have key : ∀ A B : List α, rotl A.length (A ++ B) = B ++ A := by
    intro A B; simp [rotl]
  calc rotl (vs.takeWhile p).length vs
      = rotl (vs.takeWhile p).length (vs.takeWhile p ++ vs.dropWhile p) := by
        rw [List.takeWhile_append_dropWhile]
    _ = _ := key _ _

theorem sliceSpanG_allfront (vs : List α) (h : ∀ x ∈ vs, isFront sg x = true) :
    sliceSpanG sg cross keep vs = .error .ValueError := by
  by_cases hne : vs = []
  · subst hne; rfl
  · obtain ⟨first, last, hf, hl⟩ := head_getLast_of_ne_nil vs hne
    have := sliceSpanG_decomp sg cross keep [] vs [] first last hf hl (by simp) h (by simp)
    simpa using this

theorem cycG_allfront (u : List α) (h : ∀ x ∈ u, isFront sg x = true) :
    cycG sg cross keep u = .error .ValueError := by
  cases u with
  | nil => rfl
  | cons a u' =>
    show sliceSpanG sg cross keep ((a :: u') ++ [a]) = _
    apply sliceSpanG_allfront
    intro x hx
    simp only [List.mem_append, List.mem_cons, List.not_mem_nil, or_false] at hx
    rcases hx with (rfl | hx) | rfl
    · exact h _ (by simp)
    · exact h x (by simp [hx])
    · exact h _ (by simp)

theorem specClosed_allfront (vs : List α) (h : ∀ x ∈ vs, isFront sg x = true) :
    sliceSpecClosedG sg cross keep vs = .error .ValueError := by
  unfold sliceSpecClosedG
  have : vs.dropWhile (isFront sg) = [] := by
    have := List.dropWhile_append_of_pos (p := isFront sg) (l₂ := []) h
    simpa using this
  simp only [this]

/-- the closed specification reads the cycle from the first vertex that is not in front -/
theorem specClosed_eq_cyc (vs : List α) (h : ∃ x ∈ vs, isFront sg x = false) :
    sliceSpecClosedG sg cross keep vs = cycG sg cross keep (rotl (vs.takeWhile (isFront sg)).length vs) := by
  rw [rotl_takeWhile]
  unfold sliceSpecClosedG
  cases hd : vs.dropWhile (isFront sg) with
  | nil =>
    exfalso
    obtain ⟨x, hx, hxf⟩ := h
    have hv : vs = vs.takeWhile (isFront sg) := by
      have := List.takeWhile_append_dropWhile (p := isFront sg) (l := vs)
      rw [hd, List.append_nil] at this
      exact this.symm
    rw [hv] at hx
    have := mem_takeWhile_sat _ _ _ hx
    rw [hxf] at this
    exact absurd this (by simp)
  | cons a n => rfl

/-- all vertices before the first vertex that is not in front are in front -/
theorem takeWhile_length_le (vs : List α) (k : Nat) (a : α) (hk : vs[k]? = some a) (ha : isFront sg a = false) :
    (vs.takeWhile (isFront sg)).length ≤ k := by
  apply Nat.le_of_not_lt
  intro hlt
  have hv : vs = vs.takeWhile (isFront sg) ++ vs.dropWhile (isFront sg) := (List.takeWhile_append_dropWhile).symm
  have hk' : (vs.takeWhile (isFront sg) ++ vs.dropWhile (isFront sg))[k]? = some a := by
    rw [List.takeWhile_append_dropWhile]; exact hk
  rw [List.getElem?_append_left hlt] at hk'
  have := mem_takeWhile_sat _ _ _ (List.mem_of_getElem? hk')
  rw [ha] at this
  exact absurd this (by simp)

theorem takeWhile_index_nonfront (vs : List α) (a : α)
    (hk : vs[(vs.takeWhile (isFront sg)).length]? = some a) : isFront sg a = false := by
  have hk' : (vs.takeWhile (isFront sg) ++ vs.dropWhile (isFront sg))[(vs.takeWhile (isFront sg)).length]? = some a := by
    rw [List.takeWhile_append_dropWhile]; exact hk
  rw [List.getElem?_append_right (Nat.le_refl _), Nat.sub_self] at hk'
  have h1 := List.head?_dropWhile_not (isFront sg) vs
  rw [List.head?_eq_getElem?, hk'] at h1
  simpa using h1

theorem signs_mask_front (vs : List α) : (vs.map sg).map (· == 1) = vs.map (isFront sg) := by
  simp [List.map_map, Function.comp_def, isFront]

theorem signs_mask_notfront (vs : List α) : (vs.map sg).map (· != 1) = vs.map (fun a => !isFront sg a) := by
  simp [List.map_map, Function.comp_def, isFront, bne]

/-- the roll computed by the code lands on a vertex that is not in front (when there is one) -/
theorem closedRoll_index (vs : List α) (hn : 2 ≤ vs.length) (h : ∃ x ∈ vs, isFront sg x = false) :
    ∃ k, npRoll vs (closedRoll (vs.map sg)) = rotl k vs ∧ k < vs.length ∧ ∀ a, vs[k]? = some a → isFront sg a = false := by
  have hlen0 : vs.length ≠ 0 := by omega
  unfold npRoll closedRoll
  simp only [hlen0, if_false]
  rw [signs_mask_front, signs_mask_notfront]
  by_cases hlast : ((vs.map sg).getLast? == some 1) = true
  · simp only [hlast, if_true]
    unfold lastTrue?
    cases hnz : (nonzeroFrom 0 (vs.map fun a => !isFront sg a)).getLast? with
    | none =>
      exfalso
      rw [List.getLast?_eq_none_iff] at hnz
      have := allFalse_of_map _ vs (nonzeroFrom_eq_nil _ _ hnz)
      obtain ⟨x, hx, hxf⟩ := h
      have := this x hx
      simp [hxf] at this
    | some k0 =>
      have hmem := mem_nonzeroFrom 0 _ k0 (List.mem_of_getLast? hnz)
      simp only [Nat.sub_zero, List.getElem?_map, Option.map_eq_some_iff] at hmem
      obtain ⟨_, a, hak, haf⟩ := hmem
      have hk0 : k0 < vs.length := (List.getElem?_eq_some_iff.mp hak).1
      refine ⟨k0, ?_, hk0, ?_⟩
      · simp only [Int.neg_neg]
        rw [roll_idx_nat k0 vs.length hk0]
      · intro a' ha'
        rw [hak] at ha'
        cases ha'
        simpa using haf
  · simp only [hlast, Bool.false_eq_true, if_false]
    unfold firstTrue?
    cases hnz : nonzeroFrom 0 (vs.map (isFront sg)) with
    | nil =>
      simp only [List.head?_nil]
      have hall := allFalse_of_map _ vs (nonzeroFrom_eq_nil _ _ hnz)
      refine ⟨0, by simp, by omega, ?_⟩
      intro a ha
      exact hall a (List.mem_of_getElem? ha)
    | cons f rest =>
      simp only [List.head?_cons]
      obtain ⟨A, B, hmask, hA, hf, _⟩ := nonzeroFrom_cons_decomp _ _ _ _ hnz
      have hfA : f = A.length := by simp [hf]
      have hflt : f < vs.length := by
        have : (vs.map (isFront sg)).length = (A ++ true :: B).length := by rw [hmask]
        simp at this; omega
      cases f with
      | zero =>
        refine ⟨vs.length - 1, ?_, by omega, ?_⟩
        · have : (-(-((0 : Nat) : Int) + 1)) = -1 := by simp
          rw [this, roll_idx_neg_one vs.length (by omega)]
        · intro a ha
          have hl : (vs.map sg).getLast? = some (sg a) := by
            rw [List.getLast?_eq_getElem?, List.getElem?_map]
            simp [ha]
          rw [hl] at hlast
          simpa [isFront] using hlast
      | succ f' =>
        refine ⟨f', ?_, by omega, ?_⟩
        · have : (-(-((f' + 1 : Nat) : Int) + 1)) = (f' : Int) := by omega
          rw [this, roll_idx_nat f' vs.length (by omega)]
        · intro a ha
          have h1 : (vs.map (isFront sg))[f']? = some (isFront sg a) := by simp [ha]
          rw [hmask, List.getElem?_append_left (by omega)] at h1
          exact hA _ (List.mem_of_getElem? h1)

theorem closedRoll_allfront (vs : List α) (hne : vs ≠ []) (h : ∀ x ∈ vs, isFront sg x = true) :
    npRoll vs (closedRoll (vs.map sg)) = vs := by
  have hlen0 : vs.length ≠ 0 := fun h0 => hne (List.length_eq_zero_iff.mp h0)
  unfold npRoll closedRoll
  simp only [hlen0, if_false]
  rw [signs_mask_notfront]
  have hlast : ((vs.map sg).getLast? == some 1) = true := by
    obtain ⟨_, l, _, hl⟩ := head_getLast_of_ne_nil vs hne
    have hlf := h l (List.mem_of_getLast? hl)
    rw [List.getLast?_map, hl]
    simpa [isFront] using hlf
  simp only [hlast, if_true]
  unfold lastTrue?
  rw [nonzeroFrom_allFalse]
  · simp [rotl_zero]
  · intro b hb
    simp only [List.mem_map] at hb
    obtain ⟨x, hx, rfl⟩ := hb
    simp [h x hx]

/-- **closed = open ∘ roll + append**: the vertex list handed to the open slicer, sliced, is the closed specification -/
theorem span_working_closed (vs : List α) :
    sliceSpanG sg cross keep (workingVertices sg true vs) = sliceSpecClosedG sg cross keep vs := by
  unfold workingVertices
  by_cases hn : vs.length > 1
  · simp only [Bool.true_and, hn, decide_true, if_true]
    have hne : vs ≠ [] := by intro h; subst h; simp at hn
    refine (front_or_not sg vs).symm.elim (fun hnf => ?_) (fun _ => ?_)
    · -- nothing in front: both refuse
      have h1 : ∀ w : List α, (∀ x ∈ w, isFront sg x = false) → sliceSpanG sg cross keep (w ++ w.take 1) = .error .ValueError := by
        intro w hw
        apply sliceSpanG_nofront
        intro x hx
        rcases List.mem_append.mp hx with hx | hx
        · exact hw x hx
        · exact hw x (List.mem_of_mem_take hx)
      have hw : ∀ x ∈ npRoll vs (closedRoll (vs.map sg)), isFront sg x = false := by
        intro x hx
        unfold npRoll at hx
        split at hx
        · exact hnf x hx
        · exact hnf x ((mem_rotl _ _ _).mp hx)
      rw [h1 _ hw]
      obtain ⟨a, r, rfl⟩ : ∃ a r, vs = a :: r := by
        cases vs with
        | nil => exact absurd rfl hne
        | cons a r => exact ⟨a, r, rfl⟩
      have : sliceSpecClosedG sg cross keep (a :: r) = cycG sg cross keep (rotl ((a :: r).takeWhile (isFront sg)).length (a :: r)) :=
        specClosed_eq_cyc sg cross keep _ ⟨a, by simp, hnf a (by simp)⟩
      rw [this]
      have ha : isFront sg a = false := hnf a (by simp)
      simp only [List.takeWhile_cons, ha, Bool.false_eq_true, if_false, List.length_nil, rotl_zero]
      show _ = sliceSpanG sg cross keep ((a :: r) ++ [a])
      symm
      apply sliceSpanG_nofront
      intro x hx
      rcases List.mem_append.mp hx with hx | hx
      · exact hnf x hx
      · simp at hx; subst hx; exact ha
    rcases nonfront_or_all sg vs with hex' | hall'
    · -- some vertex is not in front
      obtain ⟨k, hroll, hk, hkf⟩ := closedRoll_index sg vs (by omega) hex'
      rw [hroll, specClosed_eq_cyc sg cross keep vs hex']
      have hj : (vs.takeWhile (isFront sg)).length ≤ k := by
        obtain ⟨a, ha⟩ : ∃ a, vs[k]? = some a := ⟨vs[k], List.getElem?_eq_getElem hk⟩
        exact takeWhile_length_le sg vs k a ha (hkf a ha)
      rw [← cycG_rotl sg cross keep vs _ k hj hk (fun a ha => takeWhile_index_nonfront sg vs a ha) hkf]
      have hl : (rotl k vs).length = vs.length := rotl_length k vs
      cases hw : rotl k vs with
      | nil => rw [hw] at hl; simp at hl; omega
      | cons a w' => rfl
    · -- every vertex is in front
      rw [closedRoll_allfront sg vs hne hall', specClosed_allfront sg cross keep vs hall']
      apply sliceSpanG_allfront
      intro x hx
      rcases List.mem_append.mp hx with hx | hx
      · exact hall' x hx
      · exact hall' x (List.mem_of_mem_take hx)
  · -- fewer than two vertices: treated as an open polyline by the code
    simp only [Bool.true_and, hn, decide_false, Bool.false_eq_true, if_false]
    cases vs with
    | nil => rfl
    | cons a r =>
      cases r with
      | cons b r' => simp at hn
      | nil =>
        cases hf : isFront sg a with
        | true =>
          rw [sliceSpanG_allfront sg cross keep [a] (by simp [hf]), specClosed_allfront sg cross keep [a] (by simp [hf])]
        | false =>
          rw [sliceSpanG_nofront sg cross keep [a] (by simp [hf])]
          unfold sliceSpecClosedG
          simp only [List.dropWhile_cons, hf, Bool.false_eq_true, if_false, List.takeWhile_cons, List.nil_append]
          symm
          apply sliceSpanG_nofront
          simp [hf]

end closed

/-! ## Part 8: model = specification (generic), change of the crossing function -/

/-- what the model returns for a given specification result: the rows wrapped by `f`, and `is_closed = False` -/
def liftRes {γ : Type} (f : γ → β) (r : Res (List γ)) : Res (List β × Bool) :=
  match r with
  | .ok v => .ok (v.map f, false)
  | .error e => .error e

section congr
variable {γ : Type} (sg : α → Int)

/-- the crossing function is only ever called on (not in front and off the plane, in front) for the entry and on
    (in front, not in front and off the plane) for the exit -/
theorem sliceSpanG_map (f : γ → β) (cross1 : α → α → β) (cross2 : α → α → γ) (keep1 : α → β) (keep2 : α → γ)
    (hk : ∀ a, keep1 a = f (keep2 a))
    (hin : ∀ a b, isFront sg a = false → sg a ≠ 0 → isFront sg b = true → cross1 a b = f (cross2 a b))
    (hout : ∀ a b, isFront sg a = true → isFront sg b = false → sg b ≠ 0 → cross1 a b = f (cross2 a b))
    (vs : List α) :
    sliceSpanG sg cross1 keep1 vs =
      match sliceSpanG sg cross2 keep2 vs with
      | .ok v => .ok (v.map f)
      | .error e => .error e := by
  obtain ⟨N, F, T, hvs, hN, hF, hT, hFT⟩ := shape sg vs
  by_cases hF0 : F = []
  · have hT0 := hFT hF0
    subst hF0 hT0
    simp only [List.append_nil] at hvs
    subst hvs
    rw [sliceSpanG_nofront sg cross1 keep1 _ hN, sliceSpanG_nofront sg cross2 keep2 _ hN]
  · obtain ⟨first, last, hfirst, hlast⟩ := head_getLast_of_ne_nil F hF0
    subst hvs
    rw [sliceSpanG_decomp sg cross1 keep1 N F T first last hfirst hlast hN hF hT,
      sliceSpanG_decomp sg cross2 keep2 N F T first last hfirst hlast hN hF hT]
    have hfirstF : isFront sg first = true := hF first (List.mem_of_mem_head? hfirst)
    have hlastF : isFront sg last = true := hF last (List.mem_of_getLast? hlast)
    have hent : entryRows sg cross1 keep1 N first = (entryRows sg cross2 keep2 N first).map f := by
      unfold entryRows
      cases hl : N.getLast? with
      | none => rfl
      | some nb =>
        have hnb : isFront sg nb = false := hN nb (List.mem_of_getLast? hl)
        simp only [List.map_cons, List.map_nil, entryPt]
        by_cases h0 : sg nb = 0
        · simp [h0, hk]
        · simp [h0, hin nb first hnb h0 hfirstF]
    have hexit : exitRows sg cross1 keep1 last T = (exitRows sg cross2 keep2 last T).map f := by
      unfold exitRows
      cases hh : T.head? with
      | none => rfl
      | some nb =>
        have hnb : isFront sg nb = false := hT nb hh
        simp only [List.map_cons, List.map_nil, exitPt]
        by_cases h0 : sg nb = 0
        · simp [h0, hk]
        · simp [h0, hout last nb hlastF hnb h0]
    have hrun : F.map keep1 = (F.map keep2).map f := by
      simp [List.map_map, Function.comp_def, hk]
    rw [hent, hexit, hrun]
    split
    · rfl
    · split
      · rfl
      · simp

end congr

section final
variable {γ : Type} (sg : α → Int)

/-- **model = specification**, list level: for every vertex list, open or closed -/
theorem slicedByPlaneG_eq_spec (f : γ → β) (cross1 : α → α → β) (cross2 : α → α → γ) (keep1 : α → β) (keep2 : α → γ)
    (hk : ∀ a, keep1 a = f (keep2 a))
    (hin : ∀ a b, isFront sg a = false → sg a ≠ 0 → isFront sg b = true → cross1 a b = f (cross2 a b))
    (hout : ∀ a b, isFront sg a = true → isFront sg b = false → sg b ≠ 0 → cross1 a b = f (cross2 a b))
    (closed : Bool) (vs : List α) :
    slicedByPlaneG sg cross1 keep1 closed vs = liftRes f (sliceSpecG sg cross2 keep2 closed vs) := by
  unfold slicedByPlaneG liftRes sliceSpecG
  rw [sliceOpenRunsG_eq_span]
  cases closed with
  | false =>
    have hw : workingVertices sg false vs = vs := by simp [workingVertices]
    rw [hw, sliceSpanG_map sg f cross1 cross2 keep1 keep2 hk hin hout vs]
    simp only [Bool.false_eq_true, if_false]
    cases sliceSpanG sg cross2 keep2 vs <;> rfl
  | true =>
    rw [span_working_closed sg cross1 keep1 vs]
    simp only [if_true]
    unfold sliceSpecClosedG
    cases vs.dropWhile (isFront sg) with
    | nil => rfl
    | cons a n =>
      simp only []
      rw [sliceSpanG_map sg f cross1 cross2 keep1 keep2 hk hin hout _]
      cases sliceSpanG sg cross2 keep2 (a :: n ++ vs.takeWhile (isFront sg) ++ [a]) <;> rfl

/-- the span-shaped twin of the model computes the same as the code-shaped model -/
theorem slicedByPlaneSpanG_eq (cross : α → α → β) (keep : α → β) (closed : Bool) (vs : List α) :
    slicedByPlaneSpanG sg cross keep closed vs = slicedByPlaneG sg cross keep closed vs := by
  unfold slicedByPlaneSpanG slicedByPlaneG
  rw [sliceOpenRunsG_eq_span]

end final

/-! ## Part 9: the specification function computes the declarative relation -/

section decl
variable (sg : α → Int) (cross : α → α → β) (keep : α → β)

theorem any_false_of_nofront (l : List α) (h : ∀ x ∈ l, isFront sg x = false) : l.any (isFront sg) = false := by
  rw [List.any_eq_false]; intro x hx; simp [h x hx]

theorem nofront_of_any_false (l : List α) (h : l.any (isFront sg) = false) : ∀ x ∈ l, isFront sg x = false := by
  rw [List.any_eq_false] at h
  intro x hx
  simpa using h x hx

theorem sliceSpanG_error_class (vs : List α) (e : Err) (h : sliceSpanG sg cross keep vs = .error e) :
    e = .ValueError := by
  obtain ⟨N, F, T, hvs, hN, hF, hT, hFT⟩ := shape sg vs
  by_cases hF0 : F = []
  · have hT0 := hFT hF0
    subst hF0 hT0
    simp only [List.append_nil] at hvs
    subst hvs
    rw [sliceSpanG_nofront sg cross keep _ hN] at h
    cases h; rfl
  · obtain ⟨first, last, hfirst, hlast⟩ := head_getLast_of_ne_nil F hF0
    subst hvs
    rw [sliceSpanG_decomp sg cross keep N F T first last hfirst hlast hN hF hT] at h
    split at h
    · cases h; rfl
    · split at h
      · cases h; rfl
      · cases h

theorem sliceSpanG_ok_iff (vs : List α) (out : List β) :
    sliceSpanG sg cross keep vs = .ok out ↔ OpenSlice sg cross keep vs out := by
  constructor
  · intro h
    obtain ⟨N, F, T, hvs, hN, hF, hT, hFT⟩ := shape sg vs
    by_cases hF0 : F = []
    · have hT0 := hFT hF0
      subst hF0 hT0
      simp only [List.append_nil] at hvs
      subst hvs
      rw [sliceSpanG_nofront sg cross keep _ hN] at h
      cases h
    · obtain ⟨first, last, hfirst, hlast⟩ := head_getLast_of_ne_nil F hF0
      subst hvs
      rw [sliceSpanG_decomp sg cross keep N F T first last hfirst hlast hN hF hT] at h
      by_cases hany : T.any (isFront sg) = true
      · simp [hany] at h
      · have hany' : T.any (isFront sg) = false := by simpa using hany
        simp only [hany', Bool.false_eq_true, if_false] at h
        by_cases hemp : (N.isEmpty && T.isEmpty) = true
        · simp [hemp] at h
        · simp only [hemp, if_false] at h
          refine ⟨N, F, T, first, last, rfl, hfirst, hlast, hN, hF, nofront_of_any_false sg T hany', ?_, ?_⟩
          · cases N with
            | cons _ _ => left; simp
            | nil =>
              cases T with
              | cons _ _ => right; simp
              | nil => simp at hemp
          · cases h; rfl
  · rintro ⟨pre, run, post, first, last, rfl, hfirst, hlast, hpre, hrun, hpost, hne, rfl⟩
    rw [sliceSpanG_decomp sg cross keep pre run post first last hfirst hlast hpre hrun
      (fun x hx => hpost x (List.mem_of_mem_head? hx)), any_false_of_nofront sg post hpost]
    have hemp : (pre.isEmpty && post.isEmpty) = false := by
      rcases hne with h | h
      · cases pre with
        | nil => exact absurd rfl h
        | cons _ _ => rfl
      · cases post with
        | nil => exact absurd rfl h
        | cons _ _ => simp
    simp [hemp]

theorem specClosed_error_class (vs : List α) (e : Err) (h : sliceSpecClosedG sg cross keep vs = .error e) :
    e = .ValueError := by
  unfold sliceSpecClosedG at h
  split at h
  · cases h; rfl
  · exact sliceSpanG_error_class sg cross keep _ e h

theorem mem_of_dropWhile {p : α → Bool} {l : List α} {x : α} (h : x ∈ l.dropWhile p) : x ∈ l :=
  (List.dropWhile_sublist p).subset h

theorem specClosed_ok_iff (vs : List α) (out : List β) :
    sliceSpecClosedG sg cross keep vs = .ok out ↔ ClosedSlice sg cross keep vs out := by
  have hsplit : vs = vs.takeWhile (isFront sg) ++ vs.dropWhile (isFront sg) := (List.takeWhile_append_dropWhile).symm
  have hf0 : ∀ x ∈ vs.takeWhile (isFront sg), isFront sg x = true := fun x hx => mem_takeWhile_sat _ _ _ hx
  constructor
  · intro h
    unfold sliceSpecClosedG at h
    have hhead := List.head?_dropWhile_not (isFront sg) vs
    generalize vs.takeWhile (isFront sg) = f0 at h hsplit hf0
    cases hd : vs.dropWhile (isFront sg) with
    | nil => rw [hd] at h; cases h
    | cons a n =>
      rw [hd] at h hsplit hhead
      simp only [] at h
      have ha : isFront sg a = false := by simpa using hhead
      obtain ⟨N1, F, T, hn, hN1, hF, hT, hFT⟩ := shape sg n
      have hpre : ∀ z ∈ a :: N1, isFront sg z = false := by
        intro z hz
        rcases List.mem_cons.mp hz with rfl | hz
        · exact ha
        · exact hN1 z hz
      obtain ⟨nbIn, hnbIn⟩ : ∃ l, (a :: N1).getLast? = some l := by
        cases hl : (a :: N1).getLast? with
        | none => simp at hl
        | some l => exact ⟨l, rfl⟩
      cases T with
      | nil =>
        -- the run is `F ++ f0` (it wraps around the end of `vs` when both are non-empty)
        simp only [List.append_nil] at hn
        subst hn
        have hrunF : ∀ x ∈ F ++ f0, isFront sg x = true := by
          intro x hx
          rcases List.mem_append.mp hx with hx | hx
          · exact hF x hx
          · exact hf0 x hx
        have e1 : a :: (N1 ++ F) ++ f0 ++ [a] = (a :: N1) ++ (F ++ f0) ++ [a] := by simp
        rw [e1] at h
        by_cases hrun0 : F ++ f0 = []
        · rw [hrun0] at h
          rw [sliceSpanG_nofront] at h
          · cases h
          · intro z hz
            simp only [List.append_nil, List.mem_append, List.mem_cons, List.not_mem_nil, or_false] at hz
            rcases hz with (rfl | hz) | rfl
            · exact ha
            · exact hN1 z hz
            · exact ha
        · obtain ⟨first, last, hfirst, hlast⟩ := head_getLast_of_ne_nil _ hrun0
          rw [sliceSpanG_decomp sg cross keep (a :: N1) (F ++ f0) [a] first last hfirst hlast hpre hrunF
            (by intro x hx; simp at hx; subst hx; exact ha)] at h
          simp only [List.any_cons, ha, List.any_nil, Bool.or_false, Bool.false_eq_true, if_false, List.isEmpty_cons,
            Bool.false_and] at h
          cases h
          refine ⟨f0 ++ a :: N1, F, F ++ f0, a :: N1, first, last, nbIn, a, ?_, by simp, hfirst, hlast, hnbIn, rfl, hrunF, hpre, ?_⟩
          · rw [hsplit]; simp
          · simp [entryRows, hnbIn, exitRows]
      | cons t T' =>
        have hF0 : F ≠ [] := by
          intro hF0; have := hFT hF0; simp at this
        obtain ⟨first, last, hfirst, hlast⟩ := head_getLast_of_ne_nil F hF0
        subst hn
        have e1 : a :: (N1 ++ F ++ t :: T') ++ f0 ++ [a] = (a :: N1) ++ F ++ (t :: T' ++ f0 ++ [a]) := by simp
        rw [e1] at h
        rw [sliceSpanG_decomp sg cross keep (a :: N1) F (t :: T' ++ f0 ++ [a]) first last hfirst hlast hpre hF
          (by intro x hx; simp at hx; subst hx; exact hT _ rfl)] at h
        by_cases hany : (t :: T' ++ f0 ++ [a]).any (isFront sg) = true
        · simp only [hany, if_true] at h
          cases h
        · have hany' : (t :: T' ++ f0 ++ [a]).any (isFront sg) = false := by simpa using hany
          have hnf := nofront_of_any_false sg _ hany'
          have hf00 : f0 = [] := by
            cases f0 with
            | nil => rfl
            | cons z f0' =>
              have h1 := hf0 z (by simp)
              have h2 := hnf z (by simp)
              rw [h1] at h2; cases h2
          subst hf00
          simp only [hany', Bool.false_eq_true, if_false, List.isEmpty_cons, Bool.false_and] at h
          cases h
          have hrest : ∀ x ∈ t :: T' ++ a :: N1, isFront sg x = false := by
            intro x hx
            rcases List.mem_append.mp hx with hx | hx
            · exact hnf x (List.mem_append_left _ (List.mem_append_left _ hx))
            · exact hpre x hx
          refine ⟨a :: N1, F ++ t :: T', F, t :: T' ++ a :: N1, first, last, nbIn, t, ?_, by simp, hfirst, hlast, ?_, rfl, hF, hrest, ?_⟩
          · rw [hsplit]; simp
          · rw [List.getLast?_append, hnbIn]; rfl
          · simp [entryRows, hnbIn, exitRows]
  · rintro ⟨A, B, run, rest, first, last, nbIn, nbOut, hvs, hrot, hfirst, hlast, hnbIn, hnbOut, hrun, hrest, rfl⟩
    have hrunne : run ≠ [] := by intro h; subst h; simp at hfirst
    rcases (List.append_eq_append_iff.mp hrot).symm with ⟨C, hB, hrs⟩ | ⟨C, hr, hA⟩
    · -- the run does not wrap: vs = A ++ run ++ C, rest = C ++ A
      subst hB hrs
      have hAn : ∀ x ∈ A, isFront sg x = false := fun x hx => hrest x (by simp [hx])
      have hCn : ∀ x ∈ C, isFront sg x = false := fun x hx => hrest x (by simp [hx])
      cases A with
      | nil =>
        simp only [List.append_nil, List.nil_append] at hvs hnbIn hnbOut
        obtain ⟨c, C', hC⟩ : ∃ c C', C = c :: C' := by
          cases C with
          | nil => simp at hnbOut
          | cons c C' => exact ⟨c, C', rfl⟩
        have hc : isFront sg c = false := hCn c (by simp [hC])
        have htw : vs.takeWhile (isFront sg) = run := by
          rw [hvs, List.takeWhile_append_of_pos hrun, hC, List.takeWhile_cons]; simp [hc]
        have hdw : vs.dropWhile (isFront sg) = C := by
          rw [hvs, List.dropWhile_append_of_pos hrun, hC, List.dropWhile_cons]; simp [hc]
        unfold sliceSpecClosedG
        rw [htw, hdw, hC]
        simp only []
        rw [← hC, sliceSpanG_decomp sg cross keep C run [c] first last hfirst hlast hCn hrun
          (by intro x hx; simp at hx; subst hx; exact hc)]
        have hCe : C.isEmpty = false := by rw [hC]; rfl
        have hco : c = nbOut := by rw [hC] at hnbOut; simpa using hnbOut
        subst hco
        simp [hc, hCe, entryRows, hnbIn, exitRows]
      | cons a A' =>
        have ha : isFront sg a = false := hAn a (by simp)
        have htw : vs.takeWhile (isFront sg) = [] := by
          rw [hvs]; simp [List.takeWhile_cons, ha]
        have hdw : vs.dropWhile (isFront sg) = vs := by
          rw [hvs]; simp [List.dropWhile_cons, ha]
        unfold sliceSpecClosedG
        rw [htw, hdw, hvs]
        simp only [List.cons_append]
        have e1 : a :: (A' ++ (run ++ C) ++ [] ++ [a]) = (a :: A') ++ run ++ (C ++ [a]) := by simp
        rw [e1, sliceSpanG_decomp sg cross keep (a :: A') run (C ++ [a]) first last hfirst hlast hAn hrun
          (by
            intro x hx
            cases C with
            | nil => simp at hx; subst hx; exact ha
            | cons c C' => simp at hx; subst hx; exact hCn _ (by simp))]
        have hany : (C ++ [a]).any (isFront sg) = false :=
          any_false_of_nofront sg _ (by
            intro x hx
            rcases List.mem_append.mp hx with hx | hx
            · exact hCn x hx
            · simp at hx; subst hx; exact ha)
        have hin : (a :: A').getLast? = some nbIn := by
          rw [List.getLast?_append] at hnbIn
          cases hl : (a :: A').getLast? with
          | none => simp at hl
          | some l => rw [hl] at hnbIn; simpa using hnbIn
        have hout : (C ++ [a]).head? = some nbOut := by
          cases C with
          | nil => simpa using hnbOut
          | cons c C' => simpa using hnbOut
        simp [hany, entryRows, hin, exitRows, hout]
    · -- the run wraps around the end of vs: vs = C ++ rest ++ B, run = B ++ C
      subst hr hA
      have hBf : ∀ x ∈ B, isFront sg x = true := fun x hx => hrun x (by simp [hx])
      have hCf : ∀ x ∈ C, isFront sg x = true := fun x hx => hrun x (by simp [hx])
      obtain ⟨r, rest', hR⟩ : ∃ r rest', rest = r :: rest' := by
        cases rest with
        | nil => simp at hnbOut
        | cons r rest' => exact ⟨r, rest', rfl⟩
      have hr : isFront sg r = false := hrest r (by simp [hR])
      have htw : vs.takeWhile (isFront sg) = C := by
        rw [hvs, List.append_assoc, List.takeWhile_append_of_pos hCf, hR]; simp [List.takeWhile_cons, hr]
      have hdw : vs.dropWhile (isFront sg) = rest ++ B := by
        rw [hvs, List.append_assoc, List.dropWhile_append_of_pos hCf, hR]; simp [List.dropWhile_cons, hr]
      unfold sliceSpecClosedG
      rw [htw, hdw, hR]
      simp only [List.cons_append]
      have e1 : r :: (rest' ++ B ++ C ++ [r]) = (r :: rest') ++ (B ++ C) ++ [r] := by simp
      rw [e1, ← hR, sliceSpanG_decomp sg cross keep rest (B ++ C) [r] first last hfirst hlast hrest hrun
        (by intro x hx; simp at hx; subst hx; exact hr)]
      have hRe : rest.isEmpty = false := by rw [hR]; rfl
      have hro : r = nbOut := by rw [hR] at hnbOut; simpa using hnbOut
      subst hro
      simp [hr, hRe, entryRows, hnbIn, exitRows]

theorem sliceSpecG_ok_iff (closed : Bool) (vs : List α) (out : List β) :
    sliceSpecG sg cross keep closed vs = .ok out ↔ SliceRel sg cross keep closed vs out := by
  unfold sliceSpecG SliceRel
  cases closed with
  | false => simpa using sliceSpanG_ok_iff sg cross keep vs out
  | true => simpa using specClosed_ok_iff sg cross keep vs out

theorem sliceSpecG_error_class (closed : Bool) (vs : List α) (e : Err)
    (h : sliceSpecG sg cross keep closed vs = .error e) : e = .ValueError := by
  unfold sliceSpecG at h
  cases closed with
  | false => exact sliceSpanG_error_class sg cross keep vs e (by simpa using h)
  | true => exact specClosed_error_class sg cross keep vs e (by simpa using h)

theorem sliceSpecG_error_iff (closed : Bool) (vs : List α) :
    sliceSpecG sg cross keep closed vs = .error .ValueError ↔ ¬ ∃ out, SliceRel sg cross keep closed vs out := by
  constructor
  · intro h ⟨out, hout⟩
    rw [← sliceSpecG_ok_iff, h] at hout
    cases hout
  · intro h
    cases hr : sliceSpecG sg cross keep closed vs with
    | ok out => exact absurd ⟨out, (sliceSpecG_ok_iff sg cross keep closed vs out).mp hr⟩ h
    | error e => rw [sliceSpecG_error_class sg cross keep closed vs e hr]

/-- closed polyline: two vertices not in front with a front vertex strictly between them and another one outside -/
theorem specClosed_two_runs (P : List α) (x : α) (X' : List α) (y : α) (Y' : List α)
    (hx : isFront sg x = false) (hy : isFront sg y = false)
    (hXf : ∃ z ∈ X', isFront sg z = true) (hYf : ∃ z ∈ Y' ++ P, isFront sg z = true) :
    sliceSpecClosedG sg cross keep (P ++ x :: X' ++ y :: Y') = .error .ValueError := by
  generalize hvs : P ++ x :: X' ++ y :: Y' = vs
  have hk : vs[P.length]? = some x := by rw [← hvs]; simp
  have hklt : P.length < vs.length := by rw [← hvs]; simp
  rw [specClosed_eq_cyc sg cross keep vs ⟨x, List.mem_of_getElem? hk, hx⟩]
  rw [← cycG_rotl sg cross keep vs _ P.length (takeWhile_length_le sg vs _ x hk hx) hklt
    (fun a ha => takeWhile_index_nonfront sg vs a ha) (fun a ha => by rw [hk] at ha; cases ha; exact hx)]
  have hr : rotl P.length vs = (x :: X') ++ (y :: (Y' ++ P)) := by
    rw [← hvs]; simp [rotl]
  rw [hr]
  exact cycG_two_runs sg cross keep x X' y (Y' ++ P) hx hy hXf hYf

/-- open polyline: front, not in front, front, in this order -/
theorem span_two_runs (A : List α) (n : α) (B : List α) (hn : isFront sg n = false)
    (hA : ∃ z ∈ A, isFront sg z = true) (hB : ∃ z ∈ B, isFront sg z = true) :
    sliceSpanG sg cross keep (A ++ n :: B) = .error .ValueError := by
  cases hr : sliceSpanG sg cross keep (A ++ n :: B) with
  | error e => rw [sliceSpanG_error_class sg cross keep _ e hr]
  | ok out =>
    exfalso
    obtain ⟨pre, run, post, first, last, hvs, _, _, hpre, hrun, hpost, _, _⟩ := (sliceSpanG_ok_iff sg cross keep _ out).mp hr
    obtain ⟨zA, hzA, hzAf⟩ := hA
    obtain ⟨zB, hzB, hzBf⟩ := hB
    have contra : ∀ z, isFront sg z = true → isFront sg z = false → False := by
      intro z h1 h2; rw [h1] at h2; cases h2
    rcases List.append_eq_append_iff.mp hvs with ⟨a', h1, h2⟩ | ⟨c', h1, h2⟩
    · -- pre ++ run = A ++ a',  n :: B = a' ++ post
      cases a' with
      | nil =>
        simp only [List.nil_append] at h2
        exact contra zB hzBf (hpost zB (by rw [← h2]; simp [hzB]))
      | cons m a'' =>
        simp only [List.cons_append, List.cons.injEq] at h2
        obtain ⟨rfl, hBeq⟩ := h2
        rcases List.append_eq_append_iff.mp h1 with ⟨c, h3, h4⟩ | ⟨c, h3, h4⟩
        · -- A = pre ++ c, run = c ++ n :: a''
          exact contra n (hrun n (by rw [h4]; simp)) hn
        · -- pre = A ++ c
          exact contra zA hzAf (hpre zA (by rw [h3]; simp [hzA]))
    · -- A = pre ++ run ++ c', post = c' ++ n :: B
      exact contra zB hzBf (hpost zB (by rw [h2]; simp [hzB]))

end decl

/-! ## Part 10: naturality — annotating the vertices (signs / signed distances carried along as data) -/

section nat
variable {γ : Type} (sg : γ → Int) (cross : γ → γ → β) (keep : γ → β) (g : α → γ)

theorem isFront_comp : (fun a => isFront sg (g a)) = isFront (fun a => sg (g a)) := rfl

theorem sliceSpanG_natural (vs : List α) :
    sliceSpanG sg cross keep (vs.map g) =
      sliceSpanG (fun a => sg (g a)) (fun a b => cross (g a) (g b)) (fun a => keep (g a)) vs := by
  unfold sliceSpanG
  have hq : ((fun a => !isFront sg a) ∘ g) = (fun a => !isFront (fun a => sg (g a)) a) := rfl
  have hp : (isFront sg ∘ g) = isFront (fun a => sg (g a)) := rfl
  simp only [List.takeWhile_map, List.dropWhile_map, hq, hp, List.head?_map, List.getLast?_map]
  generalize vs.takeWhile (fun a => !isFront (fun a => sg (g a)) a) = pre
  generalize vs.dropWhile (fun a => !isFront (fun a => sg (g a)) a) = rest
  generalize rest.takeWhile (isFront (fun a => sg (g a))) = run
  generalize rest.dropWhile (isFront (fun a => sg (g a))) = post
  cases hh : run.head? with
  | none => rfl
  | some first =>
    cases hl : run.getLast? with
    | none => rfl
    | some last =>
      simp only [Option.map_some, List.any_map, hp, List.isEmpty_map, List.map_map]
      have he : entryRows sg cross keep (pre.map g) (g first) =
          entryRows (fun a => sg (g a)) (fun a b => cross (g a) (g b)) (fun a => keep (g a)) pre first := by
        unfold entryRows
        rw [List.getLast?_map]
        cases pre.getLast? <;> rfl
      have hx : exitRows sg cross keep (g last) (post.map g) =
          exitRows (fun a => sg (g a)) (fun a b => cross (g a) (g b)) (fun a => keep (g a)) last post := by
        unfold exitRows
        rw [List.head?_map]
        cases post.head? <;> rfl
      rw [he, hx]
      rfl

theorem sliceSpecG_natural (closed : Bool) (vs : List α) :
    sliceSpecG sg cross keep closed (vs.map g) =
      sliceSpecG (fun a => sg (g a)) (fun a b => cross (g a) (g b)) (fun a => keep (g a)) closed vs := by
  unfold sliceSpecG
  cases closed with
  | false => simpa using sliceSpanG_natural sg cross keep g vs
  | true =>
    simp only [if_true]
    unfold sliceSpecClosedG
    have hp : (isFront sg ∘ g) = isFront (fun a => sg (g a)) := rfl
    simp only [List.takeWhile_map, List.dropWhile_map, hp]
    cases vs.dropWhile (isFront (fun a => sg (g a))) with
    | nil => rfl
    | cons a n =>
      simp only [List.map_cons]
      have := sliceSpanG_natural sg cross keep g (a :: n ++ vs.takeWhile (isFront (fun a => sg (g a))) ++ [a])
      simpa using this

end nat

end PW.SBP
