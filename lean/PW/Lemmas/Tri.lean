/-
  PW.Lemmas.Tri — helper lemmas for C15 (no property statements here):
  prefix sums / `cumsum`, `searchRight`, the shape of `sampleAll`, `pairs`, small algebra facts.
-/
import PW.Model.Tri
import PW.Lemmas.Vec
import Mathlib.Tactic.Ring
import Mathlib.Tactic.Linarith
import Mathlib.Tactic.Positivity
import Mathlib.Tactic.FieldSimp
import Mathlib.Tactic.LinearCombination
import Mathlib.Algebra.Order.Field.Basic
import Mathlib.Algebra.BigOperators.Group.List.Basic
import Mathlib.Algebra.Order.BigOperators.Group.List

set_option linter.unusedSectionVars false

namespace PW.Tri

variable {K : Type} [Field K] [LinearOrder K] [IsStrictOrderedRing K]

/-! ### sums of squares -/

theorem sumsq_eq_zero {x y z : K} (h : x * x + y * y + z * z = 0) : x = 0 ∧ y = 0 ∧ z = 0 := by
  have hx := mul_self_nonneg x
  have hy := mul_self_nonneg y
  have hz := mul_self_nonneg z
  refine ⟨?_, ?_, ?_⟩ <;> apply mul_self_eq_zero.mp <;> linarith

theorem normSq_nonneg (a : V3 K) : 0 ≤ V3.dot a a := by
  rw [V3.dot_def]
  have hx := mul_self_nonneg a.x
  have hy := mul_self_nonneg a.y
  have hz := mul_self_nonneg a.z
  linarith

theorem dot_self_eq_zero {a : V3 K} (h : V3.dot a a = 0) : a.x = 0 ∧ a.y = 0 ∧ a.z = 0 :=
  sumsq_eq_zero (by rw [V3.dot_def] at h; exact h)

theorem dot_self_pos {a : V3 K} (h : V3.dot a a ≠ 0) : 0 < V3.dot a a :=
  lt_of_le_of_ne (normSq_nonneg a) (Ne.symm h)

/-- one component of "the weights reconstruct the projection", with the polynomial identity as hypothesis -/
theorem recon_component (S X1 X2 D a0 a1 a2 pp nn : K) (hS : S ≠ 0)
    (h : X1 * (a1 - a0) + X2 * (a2 - a0) = S * (pp - a0) - D * nn) :
    (1 - X1 / S - X2 / S) * a0 + X1 / S * a1 + X2 / S * a2 = pp - D / S * nn := by
  field_simp
  linear_combination h

/-! ### prefix sums and `cumsum` -/

/-- prefix sum `P i = w₀ + … + w_{i-1}` -/
def prefixSum (ws : List K) (i : Nat) : K := (ws.take i).sum

@[simp] theorem prefixSum_zero (ws : List K) : prefixSum ws 0 = 0 := by simp [prefixSum]

theorem prefixSum_succ (ws : List K) (i : Nat) (h : i < ws.length) :
    prefixSum ws (i + 1) = prefixSum ws i + ws[i] := by
  unfold prefixSum
  exact List.sum_take_succ ws i h

theorem prefixSum_cons_succ (w : K) (ws : List K) (i : Nat) :
    prefixSum (w :: ws) (i + 1) = w + prefixSum ws i := by
  simp [prefixSum]

theorem prefixSum_mono (ws : List K) (hw : ∀ w ∈ ws, 0 ≤ w) {a b : Nat} (hab : a ≤ b) :
    prefixSum ws a ≤ prefixSum ws b := by
  induction ws generalizing a b with
  | nil => simp [prefixSum]
  | cons w ws ih =>
    have hw0 : 0 ≤ w := hw w (by simp)
    have hws : ∀ w' ∈ ws, 0 ≤ w' := fun w' h => hw w' (by simp [h])
    cases a with
    | zero =>
      cases b with
      | zero => simp
      | succ b =>
        rw [prefixSum_zero, prefixSum_cons_succ]
        have := ih hws (Nat.zero_le b)
        rw [prefixSum_zero] at this
        linarith
    | succ a =>
      cases b with
      | zero => omega
      | succ b =>
        rw [prefixSum_cons_succ, prefixSum_cons_succ]
        have := ih hws (Nat.le_of_succ_le_succ hab)
        linarith

theorem prefixSum_nonneg (ws : List K) (hw : ∀ w ∈ ws, 0 ≤ w) (i : Nat) : 0 ≤ prefixSum ws i := by
  have := prefixSum_mono ws hw (Nat.zero_le i)
  simpa using this

theorem cumsumFrom_getElem? (acc : K) (ws : List K) (i : Nat) :
    (cumsumFrom acc ws)[i]? = if i < ws.length then some (acc + prefixSum ws (i + 1)) else none := by
  induction ws generalizing acc i with
  | nil => simp [cumsumFrom]
  | cons w ws ih =>
    cases i with
    | zero => simp [cumsumFrom, prefixSum]
    | succ i =>
      simp only [cumsumFrom, List.getElem?_cons_succ, ih, List.length_cons, Nat.add_lt_add_iff_right]
      split_ifs
      · rw [prefixSum_cons_succ]; congr 1; ring
      · rfl

/-- `cumsum ws` is the list of prefix sums `P 1, …, P k`. -/
theorem cumsum_getElem? (ws : List K) (i : Nat) :
    (cumsum ws)[i]? = if i < ws.length then some (prefixSum ws (i + 1)) else none := by
  cases ws with
  | nil => simp [cumsum]
  | cons w ws =>
    cases i with
    | zero => simp [cumsum, prefixSum]
    | succ i =>
      simp only [cumsum, List.getElem?_cons_succ, cumsumFrom_getElem?, List.length_cons,
        Nat.add_lt_add_iff_right]
      split_ifs
      · rw [prefixSum_cons_succ]
      · rfl

theorem cumsum_length (ws : List K) : (cumsum ws).length = ws.length := by
  have h1 : ∀ i, i < (cumsum ws).length ↔ i < ws.length := by
    intro i
    have := cumsum_getElem? ws i
    constructor
    · intro h
      by_contra hc
      rw [if_neg hc] at this
      exact absurd (List.getElem?_eq_none_iff.mp this) (by omega)
    · intro h
      rw [if_pos h] at this
      exact (List.getElem?_eq_some_iff.mp this).1
  apply Nat.le_antisymm
  · by_contra hc
    have := (h1 ws.length).mp (by omega)
    omega
  · by_contra hc
    have := (h1 (cumsum ws).length).mpr (by omega)
    omega

/-- the code's `total_weight = cumulative_weights[-1]` is the full sum. -/
theorem cumsum_getLastD (ws : List K) (hk : ws ≠ []) :
    (cumsum ws).getLastD 0 = prefixSum ws ws.length := by
  have hlen := cumsum_length ws
  have hpos : 0 < ws.length := List.length_pos_iff.mpr hk
  have h := cumsum_getElem? ws (ws.length - 1)
  rw [if_pos (by omega)] at h
  have e : ws.length - 1 + 1 = ws.length := by omega
  rw [e] at h
  rw [List.getLastD_eq_getLast?, List.getLast?_eq_getElem?, hlen, h]
  rfl

/-! ### `searchRight` -/

/-- `np.searchsorted(cum, x, side="right") = i` iff the first `i` entries are `≤ x` and entry `i`
    (if any) is `> x`.  No sortedness needed for this form. -/
theorem searchRight_eq_iff (cum : List K) (x : K) (i : Nat) :
    searchRight cum x = i ↔
      (∀ j, j < i → ∃ c, cum[j]? = some c ∧ c ≤ x) ∧ (∀ c, cum[i]? = some c → x < c) := by
  induction cum generalizing i with
  | nil =>
    simp only [searchRight, List.takeWhile_nil, List.length_nil, List.getElem?_nil]
    constructor
    · intro h; subst h; simp
    · rintro ⟨h, _⟩
      by_contra hc
      obtain ⟨c, hc', _⟩ := h 0 (by omega)
      simp at hc'
  | cons c cs ih =>
    unfold searchRight at ih ⊢
    by_cases hcx : c ≤ x
    · rw [List.takeWhile_cons_of_pos (by simpa using hcx), List.length_cons]
      cases i with
      | zero =>
        constructor
        · intro h; omega
        · rintro ⟨_, h⟩
          exact absurd (h c (by simp)) (not_lt.mpr hcx)
      | succ i =>
        rw [Nat.add_right_cancel_iff, ih i]
        constructor
        · rintro ⟨h1, h2⟩
          refine ⟨?_, by simpa using h2⟩
          intro j hj
          cases j with
          | zero => exact ⟨c, by simp, hcx⟩
          | succ j => simpa using h1 j (by omega)
        · rintro ⟨h1, h2⟩
          refine ⟨?_, by simpa using h2⟩
          intro j hj
          simpa using h1 (j + 1) (by omega)
    · rw [List.takeWhile_cons_of_neg (by simpa using hcx), List.length_nil]
      constructor
      · intro h; subst h
        exact ⟨by intro j hj; omega, by intro c' hc'; simp at hc'; subst hc'; exact not_le.mp hcx⟩
      · rintro ⟨h1, _⟩
        by_contra hne
        obtain ⟨c', hc', hle⟩ := h1 0 (by omega)
        simp at hc'; subst hc'
        exact hcx hle

theorem searchRight_le_length (cum : List K) (x : K) : searchRight cum x ≤ cum.length := by
  unfold searchRight
  exact (List.takeWhile_sublist _).length_le

/-! ### `pairs`, `sampleAll` -/

theorem pairs_mem {a b : K} : ∀ {l : List K}, (a, b) ∈ pairs l → a ∈ l ∧ b ∈ l
  | [], h => by simp [pairs] at h
  | [_], h => by simp [pairs] at h
  | x :: y :: rest, h => by
    simp only [pairs, List.mem_cons, Prod.mk.injEq] at h
    rcases h with ⟨rfl, rfl⟩ | h
    · simp
    · have := pairs_mem h
      simp [this.1, this.2]

theorem pairs_length : ∀ (l : List K), (pairs l).length = l.length / 2
  | [] => by simp [pairs]
  | [_] => by simp [pairs]
  | x :: y :: rest => by
    simp only [pairs, List.length_cons, pairs_length rest]
    omega

/-- what `sampleAll` returns: one entry per (draw, coefficient pair), each the point built from the
    triangle named by the returned index. -/
theorem sampleAll_spec (tris : List (Tri K)) (cum : List K) (total : K) :
    ∀ (rs : List K) (uvs : List (K × K)) (xs : List (V3 K × Nat)),
      sampleAll tris cum total rs uvs = .ok xs →
      List.Forall₂ (fun (ru : K × (K × K)) (x : V3 K × Nat) =>
          x.2 = chooseFace cum total ru.1 ∧ ∃ t, tris[x.2]? = some t ∧ x.1 = samplePoint t ru.2.1 ru.2.2)
        (List.zip rs uvs) xs
  | [], _, xs, h => by
    simp [sampleAll] at h; subst h; simp
  | _ :: _, [], xs, h => by
    simp [sampleAll] at h; subst h; simp
  | r :: rs, uv :: uvs, xs, h => by
    simp only [sampleAll, sampleOne] at h
    cases ht : tris[chooseFace cum total r]? with
    | none => simp [ht] at h
    | some t =>
      simp only [ht] at h
      cases hrest : sampleAll tris cum total rs uvs with
      | error e => simp [hrest] at h
      | ok ys =>
        simp only [hrest] at h
        cases h
        simp only [List.zip_cons_cons]
        exact List.Forall₂.cons ⟨rfl, t, ht, rfl⟩ (sampleAll_spec tris cum total rs uvs ys hrest)

/-- `sampleAll` fails only with an out-of-range index. -/
theorem sampleAll_ok_of_valid (tris : List (Tri K)) (cum : List K) (total : K) :
    ∀ (rs : List K) (uvs : List (K × K)),
      (∀ r ∈ rs, chooseFace cum total r < tris.length) →
      ∃ xs, sampleAll tris cum total rs uvs = .ok xs
  | [], _, _ => ⟨[], by simp [sampleAll]⟩
  | _ :: _, [], _ => ⟨[], by simp [sampleAll]⟩
  | r :: rs, uv :: uvs, h => by
    have hr : chooseFace cum total r < tris.length := h r (by simp)
    obtain ⟨ys, hys⟩ := sampleAll_ok_of_valid tris cum total rs uvs (fun r' hr' => h r' (by simp [hr']))
    refine ⟨(samplePoint tris[chooseFace cum total r] uv.1 uv.2, chooseFace cum total r) :: ys, ?_⟩
    simp [sampleAll, sampleOne, List.getElem?_eq_getElem hr, hys]

theorem zip_map_fst_snd {α β : Type} (xs : List (α × β)) :
    List.zip (xs.map (·.1)) (xs.map (·.2)) = xs := by
  induction xs with
  | nil => rfl
  | cons x xs ih => simp [ih]

theorem forall₂_mem_right {α β : Type} {R : α → β → Prop} :
    ∀ {l : List α} {xs : List β}, List.Forall₂ R l xs → ∀ x ∈ xs, ∃ a ∈ l, R a x
  | _, _, .nil, x, hx => by simp at hx
  | _, _, .cons h t, x, hx => by
    rcases List.mem_cons.mp hx with rfl | hx'
    · exact ⟨_, by simp, h⟩
    · obtain ⟨a, ha, hr⟩ := forall₂_mem_right t x hx'
      exact ⟨a, by simp [ha], hr⟩

theorem forall₂_map_eq {α β γ : Type} {R : α → β → Prop} (f : α → γ) (g : β → γ)
    (hR : ∀ a x, R a x → g x = f a) :
    ∀ {l : List α} {xs : List β}, List.Forall₂ R l xs → xs.map g = l.map f
  | _, _, .nil => rfl
  | _, _, .cons h t => by simp [hR _ _ h, forall₂_map_eq f g hR t]

/-- inversion of a successful `sample` call on a non-empty set of triangles. -/
theorem sample_inv [Sqrt K] (tris : List (Tri K)) (n : Int) (weights : Option (List K)) (draws : List K)
    (out : SampleOut K) (hk : tris ≠ [])
    (h : sample tris true n true weights draws = .ok out) :
    ∃ w xs, ((weights = none ∧ w = tris.map surfaceArea) ∨ (weights = some w ∧ w.length = tris.length)) ∧
      0 ≤ n ∧
      sampleCore tris w (draws.take n.toNat) (pairs ((draws.drop n.toNat).take (2 * n.toNat))) = .ok xs ∧
      out = ⟨xs.map (·.1), xs.map (·.2), false⟩ := by
  have hlen : tris.length ≠ 0 := fun h0 => hk (List.length_eq_zero_iff.mp h0)
  unfold sample at h
  simp only [Bool.not_true, Bool.false_eq_true, if_false] at h
  cases weights with
  | none =>
    simp only [hlen, if_false] at h
    by_cases hn : n < 0
    · simp only [hn, if_true] at h; cases h
    · simp only [hn, if_false] at h
      cases hxs : sampleCore tris (tris.map surfaceArea) (draws.take n.toNat)
          (pairs ((draws.drop n.toNat).take (2 * n.toNat))) with
      | error e => simp only [hxs] at h; cases h
      | ok xs =>
        simp only [hxs] at h
        cases h
        exact ⟨_, xs, Or.inl ⟨rfl, rfl⟩, not_lt.mp hn, hxs, rfl⟩
  | some w =>
    by_cases hwl : w.length = tris.length
    · simp only [hwl, if_true, hlen, if_false] at h
      by_cases hn : n < 0
      · simp only [hn, if_true] at h; cases h
      · simp only [hn, if_false] at h
        cases hxs : sampleCore tris w (draws.take n.toNat)
            (pairs ((draws.drop n.toNat).take (2 * n.toNat))) with
        | error e => simp only [hxs] at h; cases h
        | ok xs =>
          simp only [hxs] at h
          cases h
          exact ⟨w, xs, Or.inr ⟨rfl, hwl⟩, not_lt.mp hn, hxs, rfl⟩
    · simp only [hwl, if_false] at h
      cases h


end PW.Tri
