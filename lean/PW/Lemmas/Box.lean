/-
  PW.Lemmas.Box — helper lemmas for the C17 theorems: `minK`/`maxK` are `min`/`max`, column folds are
  componentwise folds, a fold of `min` is a lower bound that is attained.
-/
import PW.Model.Box
import PW.Lemmas.Vec
import Mathlib.Tactic.Ring
import Mathlib.Tactic.Linarith
import Mathlib.Algebra.Order.Field.Basic
import Mathlib.Order.Lattice

set_option linter.unusedSectionVars false

namespace PW.Box

variable {K : Type} [Field K] [LinearOrder K] [IsStrictOrderedRing K]

theorem minK_eq_min (a b : K) : minK a b = min a b := by
  unfold minK
  split_ifs with h
  · exact (min_eq_right h.le).symm
  · exact (min_eq_left (not_lt.mp h)).symm

theorem maxK_eq_max (a b : K) : maxK a b = max a b := by
  unfold maxK
  split_ifs with h
  · exact (max_eq_right h.le).symm
  · exact (max_eq_left (not_lt.mp h)).symm

/-- a left fold of `min` from `a` over `l` is `≤ a`, `≤` every element, and equals `a` or an element -/
theorem foldl_min_spec (l : List K) (a : K) :
    l.foldl min a ≤ a ∧ (∀ x ∈ l, l.foldl min a ≤ x) ∧ (l.foldl min a = a ∨ l.foldl min a ∈ l) := by
  induction l generalizing a with
  | nil => simp
  | cons y ys ih =>
    obtain ⟨h1, h2, h3⟩ := ih (min a y)
    simp only [List.foldl_cons, List.mem_cons, forall_eq_or_imp]
    refine ⟨le_trans h1 (min_le_left _ _), ⟨le_trans h1 (min_le_right _ _), h2⟩, ?_⟩
    rcases h3 with h | h
    · rcases min_choice a y with hc | hc
      · left; rw [h, hc]
      · right; left; rw [h, hc]
    · right; right; exact h

theorem foldl_max_spec (l : List K) (a : K) :
    a ≤ l.foldl max a ∧ (∀ x ∈ l, x ≤ l.foldl max a) ∧ (l.foldl max a = a ∨ l.foldl max a ∈ l) := by
  induction l generalizing a with
  | nil => simp
  | cons y ys ih =>
    obtain ⟨h1, h2, h3⟩ := ih (max a y)
    simp only [List.foldl_cons, List.mem_cons, forall_eq_or_imp]
    refine ⟨le_trans (le_max_left _ _) h1, ⟨le_trans (le_max_right _ _) h1, h2⟩, ?_⟩
    rcases h3 with h | h
    · rcases max_choice a y with hc | hc
      · left; rw [h, hc]
      · right; left; rw [h, hc]
    · right; right; exact h

theorem colMin_x (p : V3 K) (ps : List (V3 K)) : (colMin p ps).x = (ps.map (·.x)).foldl min p.x := by
  unfold colMin
  induction ps generalizing p with
  | nil => rfl
  | cons q qs ih => simp only [List.foldl_cons, List.map_cons]; rw [ih]; simp [minK_eq_min]
theorem colMin_y (p : V3 K) (ps : List (V3 K)) : (colMin p ps).y = (ps.map (·.y)).foldl min p.y := by
  unfold colMin
  induction ps generalizing p with
  | nil => rfl
  | cons q qs ih => simp only [List.foldl_cons, List.map_cons]; rw [ih]; simp [minK_eq_min]
theorem colMin_z (p : V3 K) (ps : List (V3 K)) : (colMin p ps).z = (ps.map (·.z)).foldl min p.z := by
  unfold colMin
  induction ps generalizing p with
  | nil => rfl
  | cons q qs ih => simp only [List.foldl_cons, List.map_cons]; rw [ih]; simp [minK_eq_min]
theorem colMax_x (p : V3 K) (ps : List (V3 K)) : (colMax p ps).x = (ps.map (·.x)).foldl max p.x := by
  unfold colMax
  induction ps generalizing p with
  | nil => rfl
  | cons q qs ih => simp only [List.foldl_cons, List.map_cons]; rw [ih]; simp [maxK_eq_max]
theorem colMax_y (p : V3 K) (ps : List (V3 K)) : (colMax p ps).y = (ps.map (·.y)).foldl max p.y := by
  unfold colMax
  induction ps generalizing p with
  | nil => rfl
  | cons q qs ih => simp only [List.foldl_cons, List.map_cons]; rw [ih]; simp [maxK_eq_max]
theorem colMax_z (p : V3 K) (ps : List (V3 K)) : (colMax p ps).z = (ps.map (·.z)).foldl max p.z := by
  unfold colMax
  induction ps generalizing p with
  | nil => rfl
  | cons q qs ih => simp only [List.foldl_cons, List.map_cons]; rw [ih]; simp [maxK_eq_max]

/-- a coordinate-wise statement of "`m` is the minimum of `f` over `p :: ps`" -/
def IsMinOf (f : V3 K → K) (m : K) (l : List (V3 K)) : Prop := (∀ q ∈ l, m ≤ f q) ∧ ∃ q ∈ l, f q = m
def IsMaxOf (f : V3 K → K) (m : K) (l : List (V3 K)) : Prop := (∀ q ∈ l, f q ≤ m) ∧ ∃ q ∈ l, f q = m

theorem isMinOf_fold (f : V3 K → K) (p : V3 K) (ps : List (V3 K)) :
    IsMinOf f ((ps.map f).foldl min (f p)) (p :: ps) := by
  obtain ⟨h1, h2, h3⟩ := foldl_min_spec (ps.map f) (f p)
  constructor
  · intro q hq
    rcases List.mem_cons.mp hq with rfl | hq
    · exact h1
    · exact h2 _ (List.mem_map_of_mem hq)
  · rcases h3 with h | h
    · exact ⟨p, List.mem_cons_self, h.symm⟩
    · obtain ⟨q, hq, e⟩ := List.mem_map.mp h
      exact ⟨q, List.mem_cons_of_mem _ hq, e⟩

theorem isMaxOf_fold (f : V3 K → K) (p : V3 K) (ps : List (V3 K)) :
    IsMaxOf f ((ps.map f).foldl max (f p)) (p :: ps) := by
  obtain ⟨h1, h2, h3⟩ := foldl_max_spec (ps.map f) (f p)
  constructor
  · intro q hq
    rcases List.mem_cons.mp hq with rfl | hq
    · exact h1
    · exact h2 _ (List.mem_map_of_mem hq)
  · rcases h3 with h | h
    · exact ⟨p, List.mem_cons_self, h.symm⟩
    · obtain ⟨q, hq, e⟩ := List.mem_map.mp h
      exact ⟨q, List.mem_cons_of_mem _ hq, e⟩

end PW.Box
