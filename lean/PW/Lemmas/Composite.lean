/-
  PW.Lemmas.Composite — helper lemmas and specification vocabulary for C03 / C04
  (4×4 matrices form a monoid, `composeTransforms` is the reversed product, homogeneous application
  distributes over products of affine matrices, Python slices, forward / inverse products of a step list).
  No property statements here.
-/
import PW.Model.Composite
import PW.Lemmas.Vec
import Mathlib.Tactic.Ring
import Mathlib.Tactic.LinearCombination
import Mathlib.Tactic.FieldSimp
import Mathlib.Algebra.Field.Basic
import Mathlib.Algebra.Order.Field.Basic
import Mathlib.Algebra.BigOperators.Group.List.Basic

set_option linter.unusedSectionVars false

namespace PW.CT

/-! ### 4×4 matrices over a commutative ring: monoid structure -/

section Ring
variable {K : Type} [CommRing K]

instance instMulM4 : Mul (M4 K) := ⟨M4.mul⟩
instance instOneM4 : One (M4 K) := ⟨M4.one⟩

theorem m4_mul_def (a b : M4 K) : a * b = M4.mul a b := rfl
theorem m4_one_def : (1 : M4 K) = M4.one := rfl

theorem m4_mul_assoc (a b c : M4 K) : a * b * c = a * (b * c) := by
  simp only [m4_mul_def]
  ext <;> simp [M4.mul, V4.dot, M4.col0, M4.col1, M4.col2, M4.col3] <;> ring

theorem m4_one_mul (a : M4 K) : 1 * a = a := by
  simp only [m4_mul_def, m4_one_def]
  ext <;> simp [M4.mul, M4.one, V4.dot, M4.col0, M4.col1, M4.col2, M4.col3]

theorem m4_mul_one (a : M4 K) : a * 1 = a := by
  simp only [m4_mul_def, m4_one_def]
  ext <;> simp [M4.mul, M4.one, V4.dot, M4.col0, M4.col1, M4.col2, M4.col3]

instance instMonoidM4 : Monoid (M4 K) where
  mul_assoc := m4_mul_assoc
  one_mul := m4_one_mul
  mul_one := m4_mul_one

theorem mulVec_mul (a b : M4 K) (v : V4 K) : (a * b).mulVec v = a.mulVec (b.mulVec v) := by
  simp only [m4_mul_def]
  ext <;> simp [M4.mul, M4.mulVec, V4.dot, M4.col0, M4.col1, M4.col2, M4.col3] <;> ring

theorem mulVec_one (v : V4 K) : (1 : M4 K).mulVec v = v := by
  simp only [m4_one_def]
  ext <;> simp [M4.one, M4.mulVec, V4.dot]

/-- last row `0 0 0 1` -/
def IsAffine (m : M4 K) : Prop := m.r3 = ⟨0, 0, 0, 1⟩

theorem isAffine_one : IsAffine (1 : M4 K) := rfl

theorem IsAffine.mul {a b : M4 K} (ha : IsAffine a) (hb : IsAffine b) : IsAffine (a * b) := by
  unfold IsAffine at *
  simp only [m4_mul_def, M4.mul, ha]
  ext <;> simp [V4.dot, M4.col0, M4.col1, M4.col2, M4.col3, hb]

theorem IsAffine.prod {l : List (M4 K)} (h : ∀ m ∈ l, IsAffine m) : IsAffine l.prod := by
  induction l with
  | nil => exact isAffine_one
  | cons a t ih =>
    rw [List.prod_cons]
    exact (h a (by simp)).mul (ih fun m hm => h m (by simp [hm]))

/-- if `f` is affine and `f * i = 1` then `i` is affine -/
theorem IsAffine.of_mul_eq_one {f i : M4 K} (hf : IsAffine f) (h : f * i = 1) : IsAffine i := by
  have h3 := congrArg M4.r3 h
  unfold IsAffine at *
  simp only [m4_mul_def, m4_one_def, M4.mul, M4.one, hf] at h3
  have hx := congrArg V4.x h3
  have hy := congrArg V4.y h3
  have hz := congrArg V4.z h3
  have hw := congrArg V4.w h3
  simp [V4.dot, M4.col0, M4.col1, M4.col2, M4.col3] at hx hy hz hw
  ext <;> simp [hx, hy, hz, hw]

/-! ### homogeneous application -/

theorem applyTransform_one (p : V3 K) (av : Bool) : applyTransform (1 : M4 K) p av = p := by
  simp only [m4_one_def]
  cases av <;> ext <;> simp [applyTransform, M4.one, M4.mulVec, V4.dot, V4.xyz]

theorem applyTransform_mul {a b : M4 K} (hb : IsAffine b) (p : V3 K) (av : Bool) :
    applyTransform (a * b) p av = applyTransform a (applyTransform b p av) av := by
  unfold IsAffine at hb
  have h0 : b.r3.x = 0 := by rw [hb]
  have h1 : b.r3.y = 0 := by rw [hb]
  have h2 : b.r3.z = 0 := by rw [hb]
  have h3 : b.r3.w = 1 := by rw [hb]
  simp only [m4_mul_def]
  cases av <;> ext <;>
    simp [applyTransform, M4.mul, M4.mulVec, V4.dot, V4.xyz, M4.col0, M4.col1, M4.col2, M4.col3, h0, h1, h2, h3] <;>
    ring

/-- vector mode only needs the first three entries of the last row to vanish -/
theorem applyTransform_mul_vector {a b : M4 K} (h0 : b.r3.x = 0) (h1 : b.r3.y = 0) (h2 : b.r3.z = 0) (p : V3 K) :
    applyTransform (a * b) p true = applyTransform a (applyTransform b p true) true := by
  simp only [m4_mul_def]
  ext <;>
    simp [applyTransform, M4.mul, M4.mulVec, V4.dot, V4.xyz, M4.col0, M4.col1, M4.col2, M4.col3, h0, h1, h2] <;>
    ring

/-! ### `compose_transforms` -/

theorem foldl_mul_eq (r : M4 K) (rs : List (M4 K)) : rs.foldl M4.mul r = r * rs.prod := by
  induction rs generalizing r with
  | nil => simp
  | cons a t ih => rw [List.foldl_cons, ih, List.prod_cons, ← m4_mul_def, mul_assoc]

/-- `compose_transforms(t₁ … tₙ) = tₙ · … · t₁` -/
theorem composeTransforms_eq (ts : List (M4 K)) : composeTransforms ts = ts.reverse.prod := by
  unfold composeTransforms
  cases h : ts.reverse with
  | nil => rfl
  | cons r rs => simp only [foldl_mul_eq, List.prod_cons]

theorem composeTransforms_nil : composeTransforms ([] : List (M4 K)) = 1 := by
  simp [composeTransforms_eq]

theorem composeTransforms_cons (t : M4 K) (ts : List (M4 K)) :
    composeTransforms (t :: ts) = composeTransforms ts * t := by
  simp [composeTransforms_eq, List.prod_append]

theorem composeTransforms_append (a b : List (M4 K)) :
    composeTransforms (a ++ b) = composeTransforms b * composeTransforms a := by
  simp [composeTransforms_eq, List.prod_append]

theorem isAffine_composeTransforms {ts : List (M4 K)} (h : ∀ m ∈ ts, IsAffine m) :
    IsAffine (composeTransforms ts) := by
  rw [composeTransforms_eq]
  exact IsAffine.prod fun m hm => h m (by simpa using hm)

end Ring

/-! ### Python slices -/

section Slice
variable {α : Type}

theorem pyIndex_nat {len i : Nat} (h : i ≤ len) : pyIndex len (i : Int) = i := by
  unfold pyIndex
  have : ¬ ((i : Int) < 0) := by omega
  simp [this, h]

/-- inside `0 ≤ start ≤ stop ≤ len` the Python slice is `List.extract` -/
theorem pySlice_nat (l : List α) {s e : Nat} (he : e ≤ l.length) (hs : s ≤ e) :
    pySlice l (s : Int) (e : Int) = l.extract s e := by
  unfold pySlice
  simp only [pyIndex_nat he, pyIndex_nat (le_trans hs he), List.extract_eq_take_drop]

theorem extract_full (l : List α) : l.extract 0 l.length = l := by
  simp [List.extract_eq_take_drop]

/-- `l[0:j] = l[0:i] ++ l[i:j]` -/
theorem take_eq_take_append_extract (l : List α) {i j : Nat} (hij : i ≤ j) :
    l.take j = l.take i ++ l.extract i j := by
  rw [List.extract_eq_take_drop]
  have : l.take i = (l.take j).take i := by rw [List.take_take, Nat.min_eq_left hij]
  rw [this, ← List.drop_take]
  exact (List.take_append_drop i (l.take j)).symm

/-- slices inside the old length are not affected by appending -/
theorem extract_append_of_le (l t : List α) {i j : Nat} (hj : j ≤ l.length) :
    (l ++ t).extract i j = l.extract i j := by
  simp only [List.extract_eq_take_drop]
  by_cases hi : i ≤ l.length
  · rw [List.drop_append_of_le_length hi, List.take_append_of_le_length]
    simp; omega
  · have h1 : j - i = 0 := by omega
    simp [h1]

end Slice

/-! ### forward and inverse products of a list of steps -/

section Steps
variable {K : Type} [CommRing K]

/-- forward and stored inverse matrix multiply to the identity, both ways -/
def IsInvPair (s : Step K) : Prop := s.1 * s.2 = 1 ∧ s.2 * s.1 = 1

/-- `compose_transforms(forward matrices in order)` -/
def fwdProd (l : List (Step K)) : M4 K := (l.map (·.1)).reverse.prod

/-- `compose_transforms(inverse matrices, last step first)` -/
def invProd (l : List (Step K)) : M4 K := (l.map (·.2)).prod

theorem fwdProd_nil : fwdProd ([] : List (Step K)) = 1 := rfl
theorem invProd_nil : invProd ([] : List (Step K)) = 1 := rfl

theorem fwdProd_append (a b : List (Step K)) : fwdProd (a ++ b) = fwdProd b * fwdProd a := by
  simp [fwdProd, List.prod_append]

theorem invProd_append (a b : List (Step K)) : invProd (a ++ b) = invProd a * invProd b := by
  simp [invProd, List.prod_append]

theorem fwdProd_cons (s : Step K) (l : List (Step K)) : fwdProd (s :: l) = fwdProd l * s.1 := by
  simp [fwdProd, List.prod_append]

theorem invProd_cons (s : Step K) (l : List (Step K)) : invProd (s :: l) = s.2 * invProd l := by
  simp [invProd]

theorem invProd_mul_fwdProd {l : List (Step K)} (h : ∀ s ∈ l, IsInvPair s) : invProd l * fwdProd l = 1 := by
  induction l with
  | nil => simp [fwdProd_nil, invProd_nil]
  | cons s t ih =>
    have hs := h s (by simp)
    have ht := ih fun x hx => h x (by simp [hx])
    rw [fwdProd_cons, invProd_cons]
    calc s.2 * invProd t * (fwdProd t * s.1) = s.2 * (invProd t * fwdProd t) * s.1 := by
          simp only [mul_assoc]
      _ = 1 := by rw [ht, mul_one, hs.2]

theorem fwdProd_mul_invProd {l : List (Step K)} (h : ∀ s ∈ l, IsInvPair s) : fwdProd l * invProd l = 1 := by
  induction l with
  | nil => simp [fwdProd_nil, invProd_nil]
  | cons s t ih =>
    have hs := h s (by simp)
    have ht := ih fun x hx => h x (by simp [hx])
    rw [fwdProd_cons, invProd_cons]
    calc fwdProd t * s.1 * (s.2 * invProd t) = fwdProd t * (s.1 * s.2) * invProd t := by
          simp only [mul_assoc]
      _ = 1 := by rw [hs.1, mul_one, ht]

theorem isAffine_fwdProd {l : List (Step K)} (h : ∀ s ∈ l, IsAffine s.1) : IsAffine (fwdProd l) := by
  unfold fwdProd
  apply IsAffine.prod
  intro m hm
  simp only [List.mem_reverse, List.mem_map] at hm
  obtain ⟨s, hs, rfl⟩ := hm
  exact h s hs

theorem isAffine_invProd {l : List (Step K)} (h : ∀ s ∈ l, IsAffine s.2) : IsAffine (invProd l) := by
  unfold invProd
  apply IsAffine.prod
  intro m hm
  simp only [List.mem_map] at hm
  obtain ⟨s, hs, rfl⟩ := hm
  exact h s hs

/-- applying the forward product = applying the forward matrices one after another -/
theorem apply_fwdProd {l : List (Step K)} (h : ∀ s ∈ l, IsAffine s.1) (p : V3 K) (av : Bool) :
    applyTransform (fwdProd l) p av = l.foldl (fun q s => applyTransform s.1 q av) p := by
  induction l generalizing p with
  | nil => simp [fwdProd_nil, applyTransform_one]
  | cons s t ih =>
    rw [fwdProd_cons, applyTransform_mul (h s (by simp)), List.foldl_cons]
    exact ih (fun x hx => h x (by simp [hx])) _

/-- applying the inverse product = applying the inverse matrices one after another, last step first -/
theorem apply_invProd {l : List (Step K)} (h : ∀ s ∈ l, IsAffine s.2) (p : V3 K) (av : Bool) :
    applyTransform (invProd l) p av = l.reverse.foldl (fun q s => applyTransform s.2 q av) p := by
  induction l generalizing p with
  | nil => simp [invProd_nil, applyTransform_one]
  | cons s t ih =>
    have ht : IsAffine (invProd t) := isAffine_invProd fun x hx => h x (by simp [hx])
    rw [invProd_cons, applyTransform_mul ht, List.reverse_cons, List.foldl_append, List.foldl_cons, List.foldl_nil]
    rw [ih (fun x hx => h x (by simp [hx]))]

/-- homogeneous form, no affinity needed -/
theorem mulVec_fwdProd (l : List (Step K)) (v : V4 K) :
    (fwdProd l).mulVec v = l.foldl (fun q s => s.1.mulVec q) v := by
  induction l generalizing v with
  | nil => simp [fwdProd_nil, mulVec_one]
  | cons s t ih => rw [fwdProd_cons, mulVec_mul, List.foldl_cons, ih]

theorem mulVec_invProd (l : List (Step K)) (v : V4 K) :
    (invProd l).mulVec v = l.reverse.foldl (fun q s => s.2.mulVec q) v := by
  induction l generalizing v with
  | nil => simp [invProd_nil, mulVec_one]
  | cons s t ih =>
    rw [invProd_cons, mulVec_mul, List.reverse_cons, List.foldl_append, List.foldl_cons, List.foldl_nil, ih]

theorem transformMatrixFor_forward (c : Composite K) (r : Option (Int × Int)) :
    c.transformMatrixFor r false = fwdProd (c.selected r) := by
  simp [Composite.transformMatrixFor, Composite.matrices, composeTransforms_eq, fwdProd]

theorem transformMatrixFor_reverse (c : Composite K) (r : Option (Int × Int)) :
    c.transformMatrixFor r true = invProd (c.selected r) := by
  simp [Composite.transformMatrixFor, Composite.matrices, composeTransforms_eq, invProd]

theorem foldl_congr_mem {α β : Type} {f g : β → α → β} {l : List α} (h : ∀ x ∈ l, ∀ b, f b x = g b x) (b : β) :
    l.foldl f b = l.foldl g b := by
  induction l generalizing b with
  | nil => rfl
  | cons a t ih =>
    rw [List.foldl_cons, List.foldl_cons, h a (by simp)]
    exact ih (fun x hx => h x (by simp [hx])) _

end Steps

end PW.CT
