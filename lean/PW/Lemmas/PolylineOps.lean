/-
  PW.Lemmas.PolylineOps — helper lemmas about the list functions of PW.Model.PolylineOps
  (NumPy-insert positions, bincount/cumsum, stable argsort rank, roll, slices, argmax, min/max).
  No property statements here (those are in PW.Props.C09).
-/
import PW.Model.PolylineOps
import Mathlib.Data.List.Basic
import Mathlib.Data.List.Rotate
import Mathlib.Tactic.Linarith
import Mathlib.Algebra.Order.Field.Basic

set_option linter.unusedSectionVars false

/- all helper lemmas live in their own namespace so that they cannot clash with other properties' lemmas -/
namespace PW.C09L
open PW PW.NP PW.Polyline
variable {α : Type}

theorem countP_split {β : Type} (p q r : β → Bool) (l : List β)
    (hcover : ∀ x, p x = true ↔ (q x = true ∨ r x = true)) (hdisj : ∀ x, ¬(q x = true ∧ r x = true)) :
    l.countP p = l.countP q + l.countP r := by
  induction l with
  | nil => simp
  | cons a t ih =>
    simp only [List.countP_cons, ih]
    have h1 := hcover a
    have h2 := hdisj a
    by_cases hq : q a = true <;> by_cases hr : r a = true <;> by_cases hp : p a = true <;> simp_all <;> omega

theorem countP_take_lt {β : Type} (p : β → Bool) (l : List β) (m : Nat) (hm : m < l.length)
    (hp : p l[m] = true) : (l.take m).countP p + 1 ≤ l.countP p := by
  have h : l = l.take m ++ l[m] :: l.drop (m + 1) := by
    rw [List.getElem_cons_drop, List.take_append_drop]
  have h2 := congrArg (List.countP p) h
  rw [List.countP_append, List.countP_cons, if_pos hp] at h2
  omega

theorem filter_getElem?_countP_take {β : Type} (q : β → Bool) (l : List β) (m : Nat) (hm : m < l.length)
    (hq : q l[m] = true) : (l.filter q)[(l.take m).countP q]? = some l[m] := by
  have h : l = l.take m ++ l[m] :: l.drop (m + 1) := by
    rw [List.getElem_cons_drop, List.take_append_drop]
  have h2 := congrArg (List.filter q) h
  rw [List.filter_append, List.filter_cons, if_pos hq] at h2
  rw [h2, List.countP_eq_length_filter, List.getElem?_append_right (le_refl _)]
  simp

theorem length_insertBlock (ps : List (Nat × α)) (j : Nat) :
    (insertBlock ps j).length = ps.countP (fun p => p.1 == j) := by
  simp [insertBlock, List.countP_eq_length_filter]

theorem insertBlock_getElem? (ps : List (Nat × α)) (m : Nat) (hm : m < ps.length) :
    (insertBlock ps ps[m].1)[(ps.take m).countP (fun p => p.1 == ps[m].1)]? = some ps[m].2 := by
  unfold insertBlock
  rw [List.getElem?_map, filter_getElem?_countP_take (fun p => p.1 == ps[m].1) ps m hm (by simp)]
  rfl

theorem npInsertFrom_orig (ps : List (Nat × α)) :
    ∀ (l : List α) (j0 i : Nat), i < l.length →
      (npInsertFrom ps j0 l)[i + ps.countP (fun p => decide (j0 ≤ p.1) && decide (p.1 ≤ j0 + i))]? = l[i]?
  | [], _, _, h => by simp at h
  | x :: rest, j0, 0, _ => by
    have hc : ps.countP (fun p => decide (j0 ≤ p.1) && decide (p.1 ≤ j0 + 0)) = (insertBlock ps j0).length := by
      rw [length_insertBlock]
      apply List.countP_congr
      intro p _
      simp
      omega
    simp only [npInsertFrom, Nat.zero_add, hc]
    rw [List.getElem?_append_right (le_refl _)]
    simp
  | x :: rest, j0, i + 1, h => by
    have hsplit : ps.countP (fun p => decide (j0 ≤ p.1) && decide (p.1 ≤ j0 + (i + 1)))
        = ps.countP (fun p => p.1 == j0)
          + ps.countP (fun p => decide (j0 + 1 ≤ p.1) && decide (p.1 ≤ j0 + 1 + i)) := by
      apply countP_split
      · intro p; simp; omega
      · intro p; simp; omega
    have ih := npInsertFrom_orig ps rest (j0 + 1) i (by simpa using h)
    simp only [npInsertFrom, hsplit, ← length_insertBlock]
    rw [List.getElem?_append_right (by omega)]
    have : i + 1 + ((insertBlock ps j0).length
        + ps.countP (fun p => decide (j0 + 1 ≤ p.1) && decide (p.1 ≤ j0 + 1 + i))) - (insertBlock ps j0).length
        = (i + ps.countP (fun p => decide (j0 + 1 ≤ p.1) && decide (p.1 ≤ j0 + 1 + i))) + 1 := by omega
    rw [this, List.getElem?_cons_succ, ih]
    simp

theorem npInsertFrom_ins (ps : List (Nat × α)) (m : Nat) (hm : m < ps.length) :
    ∀ (l : List α) (j0 : Nat), j0 ≤ ps[m].1 → ps[m].1 ≤ j0 + l.length →
      (npInsertFrom ps j0 l)[(ps[m].1 - j0)
          + ps.countP (fun p => decide (j0 ≤ p.1) && decide (p.1 < ps[m].1))
          + (ps.take m).countP (fun p => p.1 == ps[m].1)]? = some ps[m].2
  | [], j0, h1, h2 => by
    have hj : ps[m].1 = j0 := by simp at h2; omega
    have h0 : ps.countP (fun p => decide (j0 ≤ p.1) && decide (p.1 < ps[m].1)) = 0 := by
      rw [List.countP_eq_zero]
      intro p _
      simp; omega
    have hb := insertBlock_getElem? ps m hm
    simp only [npInsertFrom, h0, Nat.add_zero]
    rw [hj] at hb ⊢
    simpa using hb
  | y :: rest, j0, h1, h2 => by
    by_cases hj : ps[m].1 = j0
    · have h0 : ps.countP (fun p => decide (j0 ≤ p.1) && decide (p.1 < ps[m].1)) = 0 := by
        rw [List.countP_eq_zero]
        intro p _
        simp; omega
      have hb := insertBlock_getElem? ps m hm
      simp only [npInsertFrom, h0, Nat.add_zero]
      rw [hj] at hb ⊢
      have hlt := (List.getElem?_eq_some_iff.mp hb).1
      simp only [Nat.sub_self, Nat.zero_add]
      rw [List.getElem?_append_left hlt]
      exact hb
    · have hlt : j0 < ps[m].1 := by omega
      have hsplit : ps.countP (fun p => decide (j0 ≤ p.1) && decide (p.1 < ps[m].1))
          = ps.countP (fun p => p.1 == j0)
            + ps.countP (fun p => decide (j0 + 1 ≤ p.1) && decide (p.1 < ps[m].1)) := by
        apply countP_split
        · intro p; simp; omega
        · intro p; simp; omega
      have ih := npInsertFrom_ins ps m hm rest (j0 + 1) (by omega) (by simp at h2; omega)
      simp only [npInsertFrom, hsplit, ← length_insertBlock]
      rw [List.getElem?_append_right (by omega)]
      have : ps[m].1 - j0 + ((insertBlock ps j0).length
            + ps.countP (fun p => decide (j0 + 1 ≤ p.1) && decide (p.1 < ps[m].1)))
            + (insertBlock (ps.take m) ps[m].1).length - (insertBlock ps j0).length
          = (ps[m].1 - (j0 + 1) + ps.countP (fun p => decide (j0 + 1 ≤ p.1) && decide (p.1 < ps[m].1))
            + (insertBlock (ps.take m) ps[m].1).length) + 1 := by omega
      rw [this, List.getElem?_cons_succ]
      rw [length_insertBlock]
      exact ih

theorem length_npInsertFrom (ps : List (Nat × α)) :
    ∀ (l : List α) (j0 : Nat),
      (npInsertFrom ps j0 l).length
        = l.length + ps.countP (fun p => decide (j0 ≤ p.1) && decide (p.1 ≤ j0 + l.length))
  | [], j0 => by
    simp only [npInsertFrom, length_insertBlock, List.length_nil, Nat.zero_add, Nat.add_zero]
    apply List.countP_congr
    intro p _
    simp; omega
  | x :: rest, j0 => by
    have hsplit : ps.countP (fun p => decide (j0 ≤ p.1) && decide (p.1 ≤ j0 + (rest.length + 1)))
        = ps.countP (fun p => p.1 == j0)
          + ps.countP (fun p => decide (j0 + 1 ≤ p.1) && decide (p.1 ≤ j0 + 1 + rest.length)) := by
      apply countP_split
      · intro p; simp; omega
      · intro p; simp; omega
    simp only [npInsertFrom, List.length_append, List.length_cons, length_npInsertFrom ps rest (j0 + 1),
      hsplit, length_insertBlock]
    omega
theorem countP_zip_fst (idx : List Nat) (vals : List α) (h : idx.length = vals.length) (q : Nat → Bool) :
    (idx.zip vals).countP (fun p => q p.1) = idx.countP q := by
  have := List.countP_map (p := q) (f := Prod.fst) (l := idx.zip vals)
  rw [List.map_fst_zip (by omega)] at this
  rw [this]; rfl

theorem take_zip (idx : List Nat) (vals : List α) (m : Nat) :
    (idx.zip vals).take m = (idx.take m).zip (vals.take m) := by
  simp [List.zip, List.take_zipWith]

/-- `new[j + #{m : idx[m] ≤ j}] = a[j]` -/
theorem npInsert_orig (a : List α) (idx : List Nat) (vals : List α) (h : idx.length = vals.length)
    (j : Nat) (hj : j < a.length) :
    (npInsert a idx vals)[j + idx.countP (fun i => decide (i ≤ j))]? = a[j]? := by
  have := npInsertFrom_orig (idx.zip vals) a 0 j hj
  rw [← countP_zip_fst idx vals h]
  simpa [npInsert] using this

/-- `new[idx[m] + #{m' : idx[m'] < idx[m]} + #{m' < m : idx[m'] = idx[m]}] = vals[m]` -/
theorem npInsert_ins (a : List α) (idx : List Nat) (vals : List α) (h : idx.length = vals.length)
    (m : Nat) (hm : m < idx.length) (hr : idx[m] ≤ a.length) :
    (npInsert a idx vals)[idx[m] + idx.countP (fun i => decide (i < idx[m]))
        + (idx.take m).countP (fun i => i == idx[m])]? = vals[m]? := by
  have hm' : m < (idx.zip vals).length := by simp; omega
  have hz : (idx.zip vals)[m] = (idx[m], vals[m]'(by omega)) := by simp
  have := npInsertFrom_ins (idx.zip vals) m hm' a 0 (by simp) (by rw [hz]; simpa using hr)
  rw [hz] at this
  rw [← countP_zip_fst idx vals h, ← countP_zip_fst (idx.take m) (vals.take m) (by simp; omega), ← take_zip]
  rw [List.getElem?_eq_getElem (by omega : m < vals.length)]
  simpa [npInsert] using this

theorem length_npInsert (a : List α) (idx : List Nat) (vals : List α) (h : idx.length = vals.length)
    (hr : ∀ i ∈ idx, i ≤ a.length) : (npInsert a idx vals).length = a.length + idx.length := by
  unfold npInsert
  rw [length_npInsertFrom, countP_zip_fst idx vals h (fun i => decide (0 ≤ i) && decide (i ≤ 0 + a.length))]
  congr 1
  rw [List.countP_eq_length]
  intro i hi
  simpa using hr i hi

theorem take_bincount (x : List Nat) (n m : Nat) (h : n ≤ m) :
    (bincount x m).take n = (List.range n).map fun i => x.count i := by
  unfold bincount
  rw [← List.map_take, List.take_range]
  congr 2
  omega

theorem cumsumFrom_getElem? (acc : Nat) (l : List Nat) (j : Nat) (hj : j < l.length) :
    (cumsumFrom acc l)[j]? = some (acc + (l.take (j + 1)).sum) := by
  induction l generalizing acc j with
  | nil => simp at hj
  | cons x xs ih =>
    cases j with
    | zero => simp [cumsumFrom]
    | succ j =>
      simp only [cumsumFrom, List.getElem?_cons_succ, List.take_succ_cons, List.sum_cons]
      rw [ih (acc + x) j (by simpa using hj)]
      simp; omega

theorem length_cumsumFrom (acc : Nat) (l : List Nat) : (cumsumFrom acc l).length = l.length := by
  induction l generalizing acc with
  | nil => rfl
  | cons x xs ih => simp [cumsumFrom, ih]

theorem sum_counts (x : List Nat) (j : Nat) :
    ((List.range (j + 1)).map fun i => x.count i).sum = x.countP (fun i => decide (i ≤ j)) := by
  induction j with
  | zero =>
    simp [List.count]
    apply List.countP_congr
    intro i _; simp
  | succ j ih =>
    rw [List.range_succ, List.map_append, List.sum_append_nat, ih]
    simp only [List.map_cons, List.map_nil, List.sum_cons, List.sum_nil, Nat.add_zero, List.count]
    symm
    apply countP_split
    · intro i; simp; omega
    · intro i; simp; omega

theorem idxOf_eq_countP_of_pairwise (R : Nat → Nat → Bool) (l : List Nat)
    (hp : l.Pairwise (fun a b => R a b = true)) (hirr : ∀ a, R a a = false)
    (hasym : ∀ a b, R a b = true → R b a = false) (m : Nat) (hm : m ∈ l) :
    l.idxOf m = l.countP (fun a => R a m) := by
  induction l with
  | nil => simp at hm
  | cons a t ih =>
    rw [List.pairwise_cons] at hp
    rw [List.idxOf_cons, List.countP_cons]
    by_cases ham : a = m
    · subst ham
      have : t.countP (fun b => R b a) = 0 := by
        rw [List.countP_eq_zero]
        intro b hb
        simp [hasym a b (hp.1 b hb)]
      simp [this, hirr]
    · have hmt : m ∈ t := by
        rcases List.mem_cons.mp hm with h | h
        · exact absurd h.symm ham
        · exact h
      have hb : (a == m) = false := by simpa using ham
      simp [hb, ih hp.2 hmt, hp.1 m hmt]

theorem map_getD_range (x : List Nat) (m : Nat) (hm : m ≤ x.length) :
    (List.range m).map (fun a => x.getD a 0) = x.take m := by
  apply List.ext_getElem
  · simp; omega
  · intro i h1 h2
    simp at h1 h2
    simp [List.getD, List.getElem?_eq_getElem (show i < x.length by omega)]

theorem countP_and_lt_range (p : Nat → Bool) (m d : Nat) :
    (List.range (m + d)).countP (fun a => p a && decide (a < m)) = (List.range m).countP p := by
  induction d with
  | zero =>
    apply List.countP_congr
    intro a ha
    simp at ha
    simp [ha]
  | succ d ih =>
    rw [← Nat.add_assoc, List.range_succ, List.countP_append, ih]
    simp

/-- the strict (key, position) order the positions are sorted by -/
def keyPosLt (x : List Nat) (a b : Nat) : Bool :=
  decide (x.getD a 0 < x.getD b 0) || (x.getD a 0 == x.getD b 0 && decide (a < b))

theorem argsortStable_perm (x : List Nat) : (argsortStable x).Perm (List.range x.length) :=
  List.mergeSort_perm _ _

theorem argsortStable_pairwise (x : List Nat) :
    (argsortStable x).Pairwise (fun a b => keyPosLt x a b = true) := by
  have h1 : (argsortStable x).Pairwise (fun a b =>
      (decide (x.getD a 0 < x.getD b 0) || (x.getD a 0 == x.getD b 0 && decide (a ≤ b))) = true) := by
    apply List.pairwise_mergeSort
    · intro a b c; simp; omega
    · intro a b; simp; omega
  have h2 : (argsortStable x).Pairwise (· ≠ ·) :=
    ((argsortStable_perm x).nodup_iff.mpr List.nodup_range)
  refine (h1.and h2).imp ?_
  intro a b ⟨h, hne⟩
  simp [keyPosLt] at h ⊢
  omega

/-- place of position `m` in the stable argsort = number of smaller keys + number of earlier equal keys -/
theorem idxOf_argsortStable (x : List Nat) (m : Nat) (hm : m < x.length) :
    (argsortStable x).idxOf m
      = x.countP (fun i => decide (i < x[m])) + (x.take m).countP (fun i => i == x[m]) := by
  have hmem : m ∈ argsortStable x := (argsortStable_perm x).mem_iff.mpr (List.mem_range.mpr hm)
  rw [idxOf_eq_countP_of_pairwise (keyPosLt x) _ (argsortStable_pairwise x)
    (by intro a; simp [keyPosLt]) (by intro a b; simp [keyPosLt]; omega) m hmem]
  rw [(argsortStable_perm x).countP_eq]
  have hk : x.getD m 0 = x[m] := by simp [List.getD, List.getElem?_eq_getElem hm]
  rw [countP_split (fun a => keyPosLt x a m) (fun a => decide (x.getD a 0 < x[m]))
    (fun a => (x.getD a 0 == x[m]) && decide (a < m))]
  · congr 1
    · have := List.countP_map (p := fun i => decide (i < x[m])) (f := fun a => x.getD a 0) (l := List.range x.length)
      rw [map_getD_range x x.length (le_refl _), List.take_length] at this
      rw [this]; rfl
    · obtain ⟨d, hd⟩ : ∃ d, x.length = m + d := ⟨x.length - m, by omega⟩
      rw [hd, countP_and_lt_range (fun a => x.getD a 0 == x[m]) m d]
      have := List.countP_map (p := fun i => i == x[m]) (f := fun a => x.getD a 0) (l := List.range m)
      rw [map_getD_range x m (by omega)] at this
      rw [this]; rfl
  · intro a; rw [← hk]; simp [keyPosLt]
  · intro a; simp; omega

/-- amount of left rotation of `np.roll(a, -index)`: `index mod n` -/
def rollAmount (n : Nat) (index : Int) : Nat := (index % (n : Int)).toNat

theorem rollAmount_lt (n : Nat) (hn : 0 < n) (index : Int) : rollAmount n index < n := by
  unfold rollAmount
  have h1 := Int.emod_nonneg index (show (n : Int) ≠ 0 by omega)
  have h2 := Int.emod_lt_of_pos index (show (0 : Int) < n by omega)
  omega

theorem npRoll_neg (a : List α) (index : Int) :
    npRoll a (-index) = a.drop (rollAmount a.length index) ++ a.take (rollAmount a.length index) := by
  unfold npRoll rollAmount
  by_cases hn : a.length = 0
  · have : a = [] := List.length_eq_zero_iff.mp hn
    subst this; simp
  · rw [if_neg hn]
    have hpos : (0 : Int) < a.length := by omega
    have h1 := Int.emod_nonneg index (show (a.length : Int) ≠ 0 by omega)
    have h2 := Int.emod_lt_of_pos index hpos
    simp only
    rw [Int.neg_emod]
    split_ifs with hd
    · have h0 : index % (a.length : Int) = 0 := Int.emod_eq_zero_of_dvd hd
      simp [h0]
    · have hne : index % (a.length : Int) ≠ 0 := fun h => hd (Int.dvd_of_emod_eq_zero h)
      have : ((((a.length : Int).natAbs : Int) - index % (a.length : Int)).toNat) = a.length - (index % (a.length : Int)).toNat := by
        simp; omega
      rw [this]
      have : a.length - (a.length - (index % (a.length : Int)).toNat) = (index % (a.length : Int)).toNat := by omega
      try rw [this]

theorem length_npRoll (a : List α) (s : Int) : (npRoll a s).length = a.length := by
  unfold npRoll
  split_ifs with h
  · rfl
  · simp

/-- `np.roll(a, -index)[i] = a[(i + index) mod n]` -/
theorem npRoll_neg_getElem? (a : List α) (index : Int) (i : Nat) (hi : i < a.length) :
    (npRoll a (-index))[i]? = a[(i + rollAmount a.length index) % a.length]? := by
  rw [npRoll_neg, ← List.rotate_eq_drop_append_take (le_of_lt (rollAmount_lt _ (by omega) _)),
    List.getElem?_rotate hi]

/-- the same index written with Python's `%` on integers -/
theorem rollAmount_mod (n : Nat) (hn : 0 < n) (index : Int) (i : Nat) :
    (((i + rollAmount n index) % n : Nat) : Int) = ((i : Int) + index) % (n : Int) := by
  unfold rollAmount
  have h1 := Int.emod_nonneg index (show (n : Int) ≠ 0 by omega)
  rw [Int.natCast_mod, Int.natCast_add, Int.toNat_of_nonneg h1, Int.add_emod_emod]

theorem sliceBound_of_nonneg (n : Nat) (i : Nat) : sliceBound n (i : Int) = min i n := by
  unfold sliceBound
  simp

/-- `a[s:e]` for `0 ≤ s`, `0 ≤ e` -/
theorem pySlice_natCast (a : List α) (s e : Nat) :
    pySlice a (s : Int) (e : Int) = (a.drop (min s a.length)).take (min e a.length - min s a.length) := by
  unfold pySlice
  simp [sliceBound_of_nonneg]

theorem pySlice_in_range (a : List α) (s e : Nat) (hs : s ≤ e) (he : e ≤ a.length) :
    pySlice a (s : Int) (e : Int) = (a.drop s).take (e - s) := by
  rw [pySlice_natCast, Nat.min_eq_left he, Nat.min_eq_left (by omega)]

theorem length_pySlice_in_range (a : List α) (s e : Nat) (hs : s ≤ e) (he : e ≤ a.length) :
    (pySlice a (s : Int) (e : Int)).length = e - s := by
  rw [pySlice_in_range a s e hs he]
  simp; omega

theorem pySlice_getElem? (a : List α) (s e : Nat) (hs : s ≤ e) (he : e ≤ a.length) (i : Nat) (hi : i < e - s) :
    (pySlice a (s : Int) (e : Int))[i]? = a[s + i]? := by
  rw [pySlice_in_range a s e hs he, List.getElem?_take_of_lt hi, List.getElem?_drop]

/-! ### argmax -/

theorem argmaxGo_spec {β : Type} [LinearOrder β] (xs : List β) :
    ∀ (best : β) (bi i : Nat), bi < i →
      let r := argmaxGo best bi i xs
      (r = bi ∧ ∀ x ∈ xs, x ≤ best) ∨
      (∃ k, ∃ hk : k < xs.length, r = i + k ∧ best < xs[k] ∧ (∀ j (hj : j < xs.length), xs[j] ≤ xs[k])
          ∧ ∀ j (hj : j < k), xs[j] < xs[k]) := by
  induction xs with
  | nil => intro best bi i _; left; simp [argmaxGo]
  | cons x t ih =>
    intro best bi i hbi
    simp only [argmaxGo]
    split_ifs with hlt
    · -- x becomes the best
      right
      rcases ih x i (i + 1) (by omega) with ⟨hr, hall⟩ | ⟨k, hk, hr, hb, hmax, hfirst⟩
      · refine ⟨0, by simp, by simpa using hr, by simpa using hlt, ?_, by simp⟩
        intro j hj
        cases j with
        | zero => simp
        | succ j => simpa using hall _ (List.getElem_mem (by simpa using hj))
      · refine ⟨k + 1, by simpa using hk, by rw [hr]; omega, by simpa using lt_trans hlt hb, ?_, ?_⟩
        · intro j hj
          cases j with
          | zero => simpa using le_of_lt hb
          | succ j => simpa using hmax j (by simpa using hj)
        · intro j hj
          cases j with
          | zero => simpa using hb
          | succ j => simpa using hfirst j (by omega)
    · rcases ih best bi (i + 1) (by omega) with ⟨hr, hall⟩ | ⟨k, hk, hr, hb, hmax, hfirst⟩
      · left
        refine ⟨hr, ?_⟩
        intro y hy
        rcases List.mem_cons.mp hy with h | h
        · rw [h]; exact not_lt.mp hlt
        · exact hall y h
      · right
        refine ⟨k + 1, by simpa using hk, by rw [hr]; omega, by simpa using hb, ?_, ?_⟩
        · intro j hj
          cases j with
          | zero => simpa using le_trans (not_lt.mp hlt) (le_of_lt hb)
          | succ j => simpa using hmax j (by simpa using hj)
        · intro j hj
          cases j with
          | zero => simpa using lt_of_le_of_lt (not_lt.mp hlt) hb
          | succ j => simpa using hfirst j (by omega)

/-- `np.argmax` returns the first index holding the maximum -/
theorem argmaxFirst_spec {β : Type} [LinearOrder β] (l : List β) (r : Nat) (h : argmaxFirst l = some r) :
    ∃ hr : r < l.length, (∀ j (hj : j < l.length), l[j] ≤ l[r]) ∧ ∀ j (hj : j < r), l[j] < l[r] := by
  cases l with
  | nil => simp [argmaxFirst] at h
  | cons x t =>
    simp only [argmaxFirst, Option.some.injEq] at h
    rcases argmaxGo_spec t x 0 1 (by omega) with ⟨hr, hall⟩ | ⟨k, hk, hr, hb, hmax, hfirst⟩
    · rw [h] at hr
      subst hr
      refine ⟨by simp, ?_, by simp⟩
      intro j hj
      cases j with
      | zero => simp
      | succ j => simpa using hall _ (List.getElem_mem (by simpa using hj))
    · rw [h] at hr
      have hr' : r = k + 1 := by omega
      subst hr'
      refine ⟨by simpa using hk, ?_, ?_⟩
      · intro j hj
        cases j with
        | zero => simpa using le_of_lt hb
        | succ j => simpa using hmax j (by simpa using hj)
      · intro j hj
        cases j with
        | zero => simpa using hb
        | succ j => simpa using hfirst j (by omega)

theorem argmaxFirst_eq_none {β : Type} [LT β] [DecidableLT β] (l : List β) : argmaxFirst l = none ↔ l = [] := by
  cases l <;> simp [argmaxFirst]


theorem indicesOfOriginalVertices_getElem? (n : Nat) (idx : List Nat) (j : Nat) (hj : j < n) :
    (indicesOfOriginalVertices n idx)[j]? = some (j + idx.countP (fun i => decide (i ≤ j))) := by
  unfold indicesOfOriginalVertices cumsum
  rw [take_bincount idx n (n + 1) (by omega), List.getElem?_zipWith, List.getElem?_range hj,
    cumsumFrom_getElem? 0 _ j (by simpa using hj)]
  simp only [Nat.zero_add, ← List.map_take, List.take_range]
  rw [show min (j + 1) n = j + 1 by omega, sum_counts]

theorem length_indicesOfOriginalVertices (n : Nat) (idx : List Nat) :
    (indicesOfOriginalVertices n idx).length = n := by
  unfold indicesOfOriginalVertices cumsum
  rw [take_bincount idx n (n + 1) (by omega)]
  simp [length_cumsumFrom]

theorem indicesOfInsertedPoints_getElem? (idx : List Nat) (m : Nat) (hm : m < idx.length) :
    (indicesOfInsertedPoints idx)[m]?
      = some (idx[m] + idx.countP (fun i => decide (i < idx[m])) + (idx.take m).countP (fun i => i == idx[m])) := by
  unfold indicesOfInsertedPoints scatterRank
  rw [List.getElem?_map, List.getElem?_range hm]
  simp only [Option.map_some, idxOf_argsortStable idx m hm]
  simp [List.getD, List.getElem?_eq_getElem hm]
  omega

theorem length_indicesOfInsertedPoints (idx : List Nat) : (indicesOfInsertedPoints idx).length = idx.length := by
  simp [indicesOfInsertedPoints, scatterRank]

variable {K : Type}

section minmax
variable [Field K] [LinearOrder K] [IsStrictOrderedRing K]

theorem minOf_le (a : K) (l : List K) : minOf a l ≤ a ∧ ∀ x ∈ l, minOf a l ≤ x := by
  induction l generalizing a with
  | nil => simp [minOf]
  | cons x t ih =>
    simp only [minOf]
    split_ifs with h
    · obtain ⟨h1, h2⟩ := ih x
      refine ⟨le_trans h1 (le_of_lt h), ?_⟩
      intro y hy
      rcases List.mem_cons.mp hy with rfl | hy
      · exact h1
      · exact h2 y hy
    · obtain ⟨h1, h2⟩ := ih a
      refine ⟨h1, ?_⟩
      intro y hy
      rcases List.mem_cons.mp hy with rfl | hy
      · exact le_trans h1 (not_lt.mp h)
      · exact h2 y hy

theorem minOf_mem (a : K) (l : List K) : minOf a l ∈ a :: l := by
  induction l generalizing a with
  | nil => simp [minOf]
  | cons x t ih =>
    simp only [minOf]
    split_ifs with h
    · have := ih x
      simp at this ⊢
      tauto
    · have := ih a
      simp at this ⊢
      tauto

theorem le_maxOf (a : K) (l : List K) : a ≤ maxOf a l ∧ ∀ x ∈ l, x ≤ maxOf a l := by
  induction l generalizing a with
  | nil => simp [maxOf]
  | cons x t ih =>
    simp only [maxOf]
    split_ifs with h
    · obtain ⟨h1, h2⟩ := ih x
      refine ⟨le_trans (le_of_lt h) h1, ?_⟩
      intro y hy
      rcases List.mem_cons.mp hy with rfl | hy
      · exact h1
      · exact h2 y hy
    · obtain ⟨h1, h2⟩ := ih a
      refine ⟨h1, ?_⟩
      intro y hy
      rcases List.mem_cons.mp hy with rfl | hy
      · exact le_trans (not_lt.mp h) h1
      · exact h2 y hy

theorem maxOf_mem (a : K) (l : List K) : maxOf a l ∈ a :: l := by
  induction l generalizing a with
  | nil => simp [maxOf]
  | cons x t ih =>
    simp only [maxOf]
    split_ifs with h
    · have := ih x
      simp at this ⊢
      tauto
    · have := ih a
      simp at this ⊢
      tauto

end minmax

/-! ### edges and segments -/

theorem length_edgesFor (n : Nat) (closed : Bool) :
    (edgesFor n closed).length = if closed then n else n - 1 := by
  simp [edgesFor]

theorem edgesFor_getElem? (n : Nat) (closed : Bool) (i : Nat) (hi : i < (if closed then n else n - 1)) :
    (edgesFor n closed)[i]? = some (i, if closed = true ∧ i + 1 = n then 0 else i + 1) := by
  unfold edgesFor
  simp only [List.getElem?_map, List.getElem?_range hi, Option.map_some]
  cases closed <;> simp at hi ⊢

theorem getElem?_zip' {α β : Type} (l : List α) (l' : List β) (i : Nat) :
    (l.zip l')[i]? = (l[i]?).bind fun a => (l'[i]?).map fun b => (a, b) := by
  rw [List.zip, List.getElem?_zipWith]
  cases l[i]? <;> cases l'[i]? <;> rfl

/-- `segments = v[e]` -/
theorem segments_getElem? (p : Polyline K) (i : Nat) (hi : i < p.numE) :
    p.segments[i]? = (p.edges[i]?).bind fun e => (p.v[e.1]?).bind fun a => (p.v[e.2]?).map fun b => (a, b) := by
  obtain ⟨v, closed⟩ := p
  simp only [numE, edges, numV, length_edgesFor] at hi
  rw [show (Polyline.mk v closed).edges = edgesFor v.length closed from rfl, edgesFor_getElem? _ _ _ hi]
  cases v with
  | nil => cases closed <;> simp at hi
  | cons a rest =>
    simp only [segments, Option.bind_some, getElem?_zip']
    cases closed
    · simp at hi
      simp [hi]
    · simp at hi
      simp only [if_true, true_and, List.length_cons]
      by_cases hl : i + 1 = rest.length + 1
      · have : i = rest.length := by omega
        subst this
        simp
      · have : i < rest.length := by omega
        have hne : ¬ i = rest.length := by omega
        simp [hne, List.getElem?_append_left this]

end PW.C09L

