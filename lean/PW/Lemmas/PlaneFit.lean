/-
  PW.Lemmas.PlaneFit — helper lemmas for the `fit_from_points` clause of C13 (no property statements here):
  sums over lists, the scatter matrix as a quadratic form, completeness of an orthonormal triple, the Rayleigh
  bound, the 3-element argsort.  Everything over an arbitrary ordered field.
-/
import PW.Model.PlaneCtor
import PW.Lemmas.Vec
import PW.Lemmas.PlaneCtor

set_option linter.unusedSectionVars false
set_option linter.unusedVariables false

namespace PW.PC

variable {K : Type} [Field K] [LinearOrder K] [IsStrictOrderedRing K]

@[simp] theorem get_zero (a : V3 K) : a.get 0 = a.x := rfl
@[simp] theorem get_one (a : V3 K) : a.get 1 = a.y := rfl
@[simp] theorem get_two (a : V3 K) : a.get 2 = a.z := rfl

theorem foldl_add_acc (l : List K) (a : K) : l.foldl (· + ·) a = a + l.foldl (· + ·) 0 := by
  induction l generalizing a with
  | nil => simp
  | cons x xs ih =>
    simp only [List.foldl_cons]
    rw [ih (a + x), ih (0 + x)]; ring

theorem ksum_nil : ksum ([] : List K) = 0 := rfl

theorem ksum_cons (x : K) (l : List K) : ksum (x :: l) = x + ksum l := by
  unfold ksum
  simp only [List.foldl_cons]
  rw [foldl_add_acc]; ring

theorem ksum_map_mul (l : List K) (f : K) : ksum (l.map (· * f)) = ksum l * f := by
  induction l with
  | nil => simp [ksum_nil]
  | cons x xs ih => simp only [List.map_cons, ksum_cons, ih]; ring

/-- `Σ (q·m)²` is the quadratic form of the scatter matrix -/
theorem scatter_quad (qs : List (V3 K)) (m : V3 K) :
    ksum (qs.map fun q => q.dot m * q.dot m) =
      m.x * (scatterEntry qs 0 0 * m.x + scatterEntry qs 0 1 * m.y + scatterEntry qs 0 2 * m.z) +
      m.y * (scatterEntry qs 1 0 * m.x + scatterEntry qs 1 1 * m.y + scatterEntry qs 1 2 * m.z) +
      m.z * (scatterEntry qs 2 0 * m.x + scatterEntry qs 2 1 * m.y + scatterEntry qs 2 2 * m.z) := by
  induction qs with
  | nil => simp [scatterEntry, ksum_nil]
  | cons q qs ih =>
    simp only [scatterEntry, List.map_cons, ksum_cons, get_zero, get_one, get_two] at ih ⊢
    rw [ih]
    simp only [V3.dot_def]
    ring

/-- `mᵀ cov(points) m = Σ((pᵢ − centroid)·m)² / (k − 1)` -/
theorem quad_cov (pts : List (V3 K)) (m : V3 K) :
    quad (covMatrix pts) m = sumSqDist pts (centroid pts) m * (1 / (natCast pts.length - 1)) := by
  have h := scatter_quad (pts.map (· - centroid pts)) m
  rw [List.map_map] at h
  unfold sumSqDist
  have e : (fun p => (p - centroid pts).dot m * (p - centroid pts).dot m) =
      ((fun q : V3 K => q.dot m * q.dot m) ∘ fun x => x - centroid pts) := rfl
  rw [e, h]
  simp only [quad, covMatrix, M3.mulVec, V3.dot_def]
  ring

/-! ### an orthonormal triple is complete; Rayleigh -/

section Rayleigh
variable (C : M3 K) (f0 f1 f2 : V3 K) (μ0 μ1 μ2 : K)
  (n0 : f0.dot f0 = 1) (n1 : f1.dot f1 = 1) (n2 : f2.dot f2 = 1)
  (o01 : f0.dot f1 = 0) (o02 : f0.dot f2 = 0) (o12 : f1.dot f2 = 0)

include n0 n1 n2 o01 o02 o12

/-- Gram: the determinant of an orthonormal triple squares to 1 -/
theorem det_sq_eq_one : f0.dot (f1.cross f2) * f0.dot (f1.cross f2) = 1 := by
  have h : f0.dot (f1.cross f2) * f0.dot (f1.cross f2) =
      f0.dot f0 * (f1.dot f1 * f2.dot f2 - f1.dot f2 * f1.dot f2)
      - f0.dot f1 * (f0.dot f1 * f2.dot f2 - f1.dot f2 * f0.dot f2)
      + f0.dot f2 * (f0.dot f1 * f1.dot f2 - f1.dot f1 * f0.dot f2) := by
    simp only [V3.dot_def, V3.cross_x, V3.cross_y, V3.cross_z]; ring
  rw [h, n0, n1, n2, o01, o02, o12]; ring

/-- a vector orthogonal to all three is zero, hence every `m` is `Σ (m·fⱼ) fⱼ` -/
theorem expand (m : V3 K) :
    m.x = m.dot f0 * f0.x + m.dot f1 * f1.x + m.dot f2 * f2.x ∧
    m.y = m.dot f0 * f0.y + m.dot f1 * f1.y + m.dot f2 * f2.y ∧
    m.z = m.dot f0 * f0.z + m.dot f1 * f1.z + m.dot f2 * f2.z := by
  have hd := det_sq_eq_one f0 f1 f2 n0 n1 n2 o01 o02 o12
  have hdne : f0.dot (f1.cross f2) ≠ 0 := by
    intro h0; rw [h0] at hd; simp at hd
  -- w = m − Σ (m·fⱼ) fⱼ
  set a0 := m.dot f0 with ha0
  set a1 := m.dot f1 with ha1
  set a2 := m.dot f2 with ha2
  let w : V3 K := ⟨m.x - (a0 * f0.x + a1 * f1.x + a2 * f2.x), m.y - (a0 * f0.y + a1 * f1.y + a2 * f2.y),
    m.z - (a0 * f0.z + a1 * f1.z + a2 * f2.z)⟩
  have w0 : w.dot f0 = 0 := by
    simp only [V3.dot_def] at n0 o01 o02 ha0 ⊢
    simp only [w]
    linear_combination (-a0) * n0 - a1 * o01 - a2 * o02 - ha0
  have w1 : w.dot f1 = 0 := by
    simp only [V3.dot_def] at n1 o01 o12 ha1 ⊢
    simp only [w]
    linear_combination (-a1) * n1 - a0 * o01 - a2 * o12 - ha1
  have w2 : w.dot f2 = 0 := by
    simp only [V3.dot_def] at n2 o02 o12 ha2 ⊢
    simp only [w]
    linear_combination (-a2) * n2 - a0 * o02 - a1 * o12 - ha2
  have cx : f0.dot (f1.cross f2) * w.x =
      (f1.cross f2).x * w.dot f0 + (f2.cross f0).x * w.dot f1 + (f0.cross f1).x * w.dot f2 := by
    simp only [V3.dot_def, V3.cross_x, V3.cross_y, V3.cross_z]; ring
  have cy : f0.dot (f1.cross f2) * w.y =
      (f1.cross f2).y * w.dot f0 + (f2.cross f0).y * w.dot f1 + (f0.cross f1).y * w.dot f2 := by
    simp only [V3.dot_def, V3.cross_x, V3.cross_y, V3.cross_z]; ring
  have cz : f0.dot (f1.cross f2) * w.z =
      (f1.cross f2).z * w.dot f0 + (f2.cross f0).z * w.dot f1 + (f0.cross f1).z * w.dot f2 := by
    simp only [V3.dot_def, V3.cross_x, V3.cross_y, V3.cross_z]; ring
  rw [w0, w1, w2] at cx cy cz
  simp only [mul_zero, add_zero] at cx cy cz
  have hx : w.x = 0 := (mul_eq_zero.mp cx).resolve_left hdne
  have hy : w.y = 0 := (mul_eq_zero.mp cy).resolve_left hdne
  have hz : w.z = 0 := (mul_eq_zero.mp cz).resolve_left hdne
  simp only [w] at hx hy hz
  exact ⟨by linarith, by linarith, by linarith⟩

/-- Parseval -/
theorem parseval (m : V3 K) :
    m.normSq = m.dot f0 * m.dot f0 + m.dot f1 * m.dot f1 + m.dot f2 * m.dot f2 := by
  obtain ⟨hx, hy, hz⟩ := expand f0 f1 f2 n0 n1 n2 o01 o02 o12 m
  have : m.normSq = m.x * m.x + m.y * m.y + m.z * m.z := V3.normSq_def m
  rw [this]
  have e0 : m.dot f0 = m.x * f0.x + m.y * f0.y + m.z * f0.z := V3.dot_def _ _
  have e1 : m.dot f1 = m.x * f1.x + m.y * f1.y + m.z * f1.z := V3.dot_def _ _
  have e2 : m.dot f2 = m.x * f2.x + m.y * f2.y + m.z * f2.z := V3.dot_def _ _
  linear_combination m.x * hx + m.y * hy + m.z * hz - m.dot f0 * e0 - m.dot f1 * e1 - m.dot f2 * e2

variable (h0 : C.mulVec f0 = V3.smul μ0 f0) (h1 : C.mulVec f1 = V3.smul μ1 f1) (h2 : C.mulVec f2 = V3.smul μ2 f2)
include h0 h1 h2

/-- in the eigenbasis the quadratic form is diagonal -/
theorem quad_diag (m : V3 K) :
    quad C m = μ0 * (m.dot f0 * m.dot f0) + μ1 * (m.dot f1 * m.dot f1) + μ2 * (m.dot f2 * m.dot f2) := by
  obtain ⟨hx, hy, hz⟩ := expand f0 f1 f2 n0 n1 n2 o01 o02 o12 m
  have e0 : m.dot f0 = m.x * f0.x + m.y * f0.y + m.z * f0.z := V3.dot_def _ _
  have e1 : m.dot f1 = m.x * f1.x + m.y * f1.y + m.z * f1.z := V3.dot_def _ _
  have e2 : m.dot f2 = m.x * f2.x + m.y * f2.y + m.z * f2.z := V3.dot_def _ _
  have c0x := congrArg V3.x h0; have c0y := congrArg V3.y h0; have c0z := congrArg V3.z h0
  have c1x := congrArg V3.x h1; have c1y := congrArg V3.y h1; have c1z := congrArg V3.z h1
  have c2x := congrArg V3.x h2; have c2y := congrArg V3.y h2; have c2z := congrArg V3.z h2
  simp only [M3.mulVec, V3.smul_x, V3.smul_y, V3.smul_z, V3.dot_def] at c0x c0y c0z c1x c1y c1z c2x c2y c2z
  have rx : C.r0.x * m.x + C.r0.y * m.y + C.r0.z * m.z =
      m.dot f0 * (μ0 * f0.x) + m.dot f1 * (μ1 * f1.x) + m.dot f2 * (μ2 * f2.x) := by
    linear_combination C.r0.x * hx + C.r0.y * hy + C.r0.z * hz + m.dot f0 * c0x + m.dot f1 * c1x + m.dot f2 * c2x
  have ry : C.r1.x * m.x + C.r1.y * m.y + C.r1.z * m.z =
      m.dot f0 * (μ0 * f0.y) + m.dot f1 * (μ1 * f1.y) + m.dot f2 * (μ2 * f2.y) := by
    linear_combination C.r1.x * hx + C.r1.y * hy + C.r1.z * hz + m.dot f0 * c0y + m.dot f1 * c1y + m.dot f2 * c2y
  have rz : C.r2.x * m.x + C.r2.y * m.y + C.r2.z * m.z =
      m.dot f0 * (μ0 * f0.z) + m.dot f1 * (μ1 * f1.z) + m.dot f2 * (μ2 * f2.z) := by
    linear_combination C.r2.x * hx + C.r2.y * hy + C.r2.z * hz + m.dot f0 * c0z + m.dot f1 * c1z + m.dot f2 * c2z
  have q : quad C m = m.x * (C.r0.x * m.x + C.r0.y * m.y + C.r0.z * m.z)
      + m.y * (C.r1.x * m.x + C.r1.y * m.y + C.r1.z * m.z) + m.z * (C.r2.x * m.x + C.r2.y * m.y + C.r2.z * m.z) := by
    simp only [quad, M3.mulVec, V3.dot_def]
  rw [q, rx, ry, rz]
  linear_combination (-(μ0 * m.dot f0)) * e0 - (μ1 * m.dot f1) * e1 - (μ2 * m.dot f2) * e2

/-- Rayleigh: the cross product of the two dominant eigenvectors is a unit vector whose quadratic form equals the
    smallest eigenvalue, which bounds the quadratic form of every unit vector from below -/
theorem rayleigh (l0 : μ2 ≤ μ0) (l1 : μ2 ≤ μ1) (m : V3 K) (hm : m.normSq = 1) :
    (f0.cross f1).normSq = 1 ∧ quad C (f0.cross f1) = μ2 ∧ μ2 ≤ quad C m := by
  have hn : (f0.cross f1).normSq = 1 := by
    rw [normSq_cross]
    have a : f0.normSq = 1 := n0
    have b : f1.normSq = 1 := n1
    rw [a, b, o01]; ring
  refine ⟨hn, ?_, ?_⟩
  · rw [quad_diag C f0 f1 f2 μ0 μ1 μ2 n0 n1 n2 o01 o02 o12 h0 h1 h2]
    have p := parseval f0 f1 f2 n0 n1 n2 o01 o02 o12 (f0.cross f1)
    rw [hn, cross_dot_left, cross_dot_right] at p
    rw [cross_dot_left, cross_dot_right]
    linear_combination (-μ2) * p
  · rw [quad_diag C f0 f1 f2 μ0 μ1 μ2 n0 n1 n2 o01 o02 o12 h0 h1 h2]
    have p := parseval f0 f1 f2 n0 n1 n2 o01 o02 o12 m
    rw [hm] at p
    have hC : m.dot f2 * m.dot f2 = 1 - m.dot f0 * m.dot f0 - m.dot f1 * m.dot f1 := by linarith
    rw [hC]
    have t0 := mul_nonneg (sub_nonneg.mpr l0) (mul_self_nonneg (m.dot f0))
    have t1 := mul_nonneg (sub_nonneg.mpr l1) (mul_self_nonneg (m.dot f1))
    nlinarith [t0, t1]

end Rayleigh

/-! ### the ordering -/

/-- `np.argsort(eigval)[::-1]` on three values: the first two entries index the two largest values, the remaining
    index the smallest -/
theorem fitNormal_cases (ev : V3 K) (E : M3 K) :
    ∃ a b c : Nat, a < 3 ∧ b < 3 ∧ c < 3 ∧ a ≠ b ∧ a ≠ c ∧ b ≠ c ∧
      fitNormal ev E = (E.colN a).cross (E.colN b) ∧ ev.get c ≤ ev.get a ∧ ev.get c ≤ ev.get b := by
  unfold fitNormal argsort
  simp only [V3.toList, List.length_cons, List.length_nil, List.range, List.range.loop, List.foldl_cons,
    List.foldl_nil, insertIdx, List.getD_cons_zero, List.getD_cons_succ]
  by_cases hyx : ev.y < ev.x <;> by_cases hzy : ev.z < ev.y <;> by_cases hzx : ev.z < ev.x <;>
    simp only [hyx, hzy, hzx, if_true, if_false, insertIdx, List.getD_cons_zero, List.getD_cons_succ,
      List.reverse_cons, List.reverse_nil, List.nil_append, List.cons_append]
  all_goals first
    | exact absurd (lt_trans hzy hyx) hzx
    | (refine ⟨0, 1, 2, by decide, by decide, by decide, by decide, by decide, by decide, rfl, ?_, ?_⟩ <;>
        simp only [get_zero, get_one, get_two] <;> linarith)
    | (refine ⟨0, 2, 1, by decide, by decide, by decide, by decide, by decide, by decide, rfl, ?_, ?_⟩ <;>
        simp only [get_zero, get_one, get_two] <;> linarith)
    | (refine ⟨1, 0, 2, by decide, by decide, by decide, by decide, by decide, by decide, rfl, ?_, ?_⟩ <;>
        simp only [get_zero, get_one, get_two] <;> linarith)
    | (refine ⟨1, 2, 0, by decide, by decide, by decide, by decide, by decide, by decide, rfl, ?_, ?_⟩ <;>
        simp only [get_zero, get_one, get_two] <;> linarith)
    | (refine ⟨2, 0, 1, by decide, by decide, by decide, by decide, by decide, by decide, rfl, ?_, ?_⟩ <;>
        simp only [get_zero, get_one, get_two] <;> linarith)
    | (refine ⟨2, 1, 0, by decide, by decide, by decide, by decide, by decide, by decide, rfl, ?_, ?_⟩ <;>
        simp only [get_zero, get_one, get_two] <;> linarith)

end PW.PC
