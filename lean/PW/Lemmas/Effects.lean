/-
  PW.Lemmas.Effects — soundness of the abstract interpreter of PW.Model.Effects for the alias language's concrete
  semantics: a parameter the interpreter does not report as written keeps its contents in every execution.
-/
import PW.Model.Effects

namespace PW.Effects

theorem AEnv.get_cons (e : AEnv) (x y : Nat) (v : List Nat) :
    AEnv.get ((x, v) :: e) y = if y = x then v else AEnv.get e y := by
  unfold AEnv.get
  by_cases h : y = x
  · subst h; simp [List.lookup]
  · have : (y == x) = false := by simpa using h
    simp [List.lookup, this, h]

theorem mem_pts {e : AEnv} {ys : List Nat} {o : Nat} : o ∈ pts e ys ↔ ∃ y ∈ ys, o ∈ e.get y := by
  simp [pts, List.mem_flatMap]

/-- every argument region a variable reaches concretely is in its abstract set -/
def Cover (n : Nat) (c : CState) (a : AState) : Prop :=
  ∀ x o, o ∈ c.env x → o < n → o ∈ a.env.get x

/-- argument regions not reported as written still hold their initial contents -/
def Frame (n : Nat) (h0 : Nat → Nat) (c : CState) (a : AState) : Prop :=
  ∀ o, o < n → o ∉ a.written → c.heap o = h0 o

theorem written_mono (n : Nat) (summ rsumm : Summ) (a : AState) (st : Stmt) :
    ∀ o, o ∈ a.written → o ∈ (step n summ rsumm a st).written := by
  intro o ho
  cases st with
  | bind m x src => cases m <;> simpa [step] using ho
  | write x how => simp [step, ho]
  | call f args => simp [step, ho]
  | unknown why => simp [step, ho]

theorem written_mono_foldl (n : Nat) (summ rsumm : Summ) (body : List Stmt) (a : AState) :
    ∀ o, o ∈ a.written → o ∈ (body.foldl (step n summ rsumm) a).written := by
  induction body generalizing a with
  | nil => intro o ho; simpa using ho
  | cons st rest ih =>
    intro o ho
    simp only [List.foldl_cons]
    exact ih _ o (written_mono n summ rsumm a st o ho)

theorem srcMay_cover {n : Nat} {rsumm : Summ} {c : CState} {a : AState} (hc : Cover n c a)
    {src : Src} {o : Nat} (ho : SrcMay n rsumm c o src) (hn : o < n) : o ∈ srcPts rsumm a.env src := by
  cases src with
  | fresh => simp [SrcMay] at ho; omega
  | alias ys =>
    simp only [SrcMay] at ho
    rcases ho with h | ⟨y, hy, hoy⟩
    · omega
    · exact mem_pts.mpr ⟨y, hy, hc y o hoy hn⟩
  | ret f args =>
    simp only [SrcMay] at ho
    rcases ho with h | ⟨i, hi, y, hy, hoy⟩
    · omega
    · simp only [srcPts, List.mem_flatMap]
      exact ⟨i, hi, mem_pts.mpr ⟨y, hy, hc y o hoy hn⟩⟩

theorem step_preserves (n : Nat) (summ rsumm : Summ) (h0 : Nat → Nat) (c c' : CState) (a : AState) (st : Stmt)
    (hc : Cover n c a) (hf : Frame n h0 c a) (hex : Exec n summ rsumm c st c') :
    Cover n c' (step n summ rsumm a st) ∧ Frame n h0 c' (step n summ rsumm a st) := by
  cases hex with
  | bind m x src v hv =>
    constructor
    · intro y o hoy hn
      cases m
      · simp only [step, AEnv.get_cons]
        by_cases hyx : y = x
        · subst hyx
          simp only [updEnv, if_true] at hoy
          simp only [if_true, List.mem_append]
          exact Or.inr (srcMay_cover hc (hv o hoy) hn)
        · simp only [updEnv, hyx, if_false] at hoy
          simp only [hyx, if_false]
          exact hc y o hoy hn
      · simp only [step, AEnv.get_cons]
        by_cases hyx : y = x
        · subst hyx
          simp only [updEnv, if_true] at hoy
          simp only [if_true]
          exact srcMay_cover hc (hv o hoy) hn
        · simp only [updEnv, hyx, if_false] at hoy
          simp only [hyx, if_false]
          exact hc y o hoy hn
    · intro o hn hw
      cases m <;> exact hf o hn (by simpa [step] using hw)
  | skip x s =>
    constructor
    · intro y o hoy hn
      simp only [step, AEnv.get_cons]
      by_cases hyx : y = x
      · subst hyx; simp only [if_true, List.mem_append]; exact Or.inl (hc y o hoy hn)
      · simp only [hyx, if_false]; exact hc y o hoy hn
    · intro o hn hw
      exact hf o hn (by simpa [step] using hw)
  | write x how h' hh =>
    constructor
    · intro y o hoy hn; exact hc y o hoy hn
    · intro o hn hw
      simp only [step, List.mem_append, not_or] at hw
      by_cases hch : h' o = c.heap o
      · simp only; rw [hch]; exact hf o hn hw.1
      · exact absurd (hc x o (hh o hn hch) hn) hw.2
  | call f args h' hh =>
    constructor
    · intro y o hoy hn; exact hc y o hoy hn
    · intro o hn hw
      simp only [step, List.mem_append, not_or] at hw
      by_cases hch : h' o = c.heap o
      · simp only; rw [hch]; exact hf o hn hw.1
      · obtain ⟨i, hi, y, hy, hoy⟩ := hh o hn hch
        refine absurd ?_ hw.2
        simp only [List.mem_flatMap]
        exact ⟨i, hi, mem_pts.mpr ⟨y, hy, hc y o hoy hn⟩⟩
  | unknown why h' =>
    constructor
    · intro y o hoy hn; exact hc y o hoy hn
    · intro o hn hw
      simp only [step, List.mem_append, not_or, List.mem_range] at hw
      exact absurd hn hw.2

theorem execList_preserves (n : Nat) (summ rsumm : Summ) (h0 : Nat → Nat) (body : List Stmt) :
    ∀ (c c' : CState) (a : AState), Cover n c a → Frame n h0 c a → ExecList n summ rsumm c body c' →
      Frame n h0 c' (body.foldl (step n summ rsumm) a) := by
  induction body with
  | nil =>
    intro c c' a _ hf hex
    cases hex
    simpa using hf
  | cons st rest ih =>
    intro c c' a hc hf hex
    cases hex with
    | stop =>
      intro o hn hw
      exact hf o hn (fun hmem => hw (written_mono_foldl n summ rsumm (st :: rest) a o hmem))
    | cons _ c1 _ _ _ h1 hrest =>
      obtain ⟨hc1, hf1⟩ := step_preserves n summ rsumm h0 c c1 a st hc hf h1
      simpa using ih c1 c' _ hc1 hf1 hrest

theorem init_cover (n : Nat) (h0 : Nat → Nat) : Cover n (initC n h0) { env := initEnv n, written := [] } := by
  intro x o hox hn
  simp only [initC] at hox
  by_cases hx : x < n
  · simp only [hx, if_true, List.mem_singleton] at hox
    subst hox
    have : ∀ (l : List Nat), o ∈ l → AEnv.get (l.map (fun i => (i, [i]))) o = [o] := by
      intro l
      induction l with
      | nil => intro h; simp at h
      | cons a t ih =>
        intro h
        simp only [List.map_cons, AEnv.get_cons]
        by_cases hoa : o = a
        · simp [hoa]
        · simp only [hoa, if_false]
          exact ih (by simpa [hoa] using h)
    simp [initEnv, this (List.range n) (List.mem_range.mpr hx)]
  · simp [hx] at hox

/-- **Soundness.**  In every execution of `body` that starts with parameter `i` reaching exactly region `i` —
may-statements skipped or not, stopping anywhere, callees behaving within their summaries — an argument region the
abstract interpreter does not report as written still holds its initial contents at the end. -/
theorem sound (n : Nat) (summ rsumm : Summ) (body : List Stmt) (h0 : Nat → Nat) (c : CState)
    (hex : ExecList n summ rsumm (initC n h0) body c) :
    ∀ o, o < n → o ∉ (run n summ rsumm body).written → c.heap o = h0 o :=
  execList_preserves n summ rsumm h0 body (initC n h0) c _ (init_cover n h0)
    (fun _ _ _ => rfl) hex

/-- a callable whose analysis reports no written parameter leaves every argument's memory unchanged -/
theorem pure_of_analyse_nil (summ rsumm : Summ) (f : Fn) (hw : (analyse summ rsumm f).1 = [])
    (h0 : Nat → Nat) (c : CState) (hex : ExecList f.nparams summ rsumm (initC f.nparams h0) f.body c) :
    ∀ o, o < f.nparams → c.heap o = h0 o := by
  intro o hn
  apply sound f.nparams summ rsumm f.body h0 c hex o hn
  intro hmem
  have : o ∈ (analyse summ rsumm f).1 := by
    simp only [analyse, List.mem_filter, List.mem_range]
    exact ⟨hn, by simpa using hmem⟩
  rw [hw] at this
  simp at this

/-! ### what a result may share memory with -/

/-- no top-level (replacing) binding of `x` in the body: its abstract set only grows -/
def NoMust (x : Nat) (body : List Stmt) : Bool :=
  body.all fun st => match st with
    | .bind true y _ => y != x
    | _ => true

theorem get_mono_step (n : Nat) (summ rsumm : Summ) (a : AState) (st : Stmt) (x : Nat)
    (hst : (match st with | .bind true y _ => y != x | _ => true) = true) :
    ∀ o, o ∈ a.env.get x → o ∈ (step n summ rsumm a st).env.get x := by
  intro o ho
  cases st with
  | bind m y src =>
    cases m
    · simp only [step, AEnv.get_cons]
      by_cases hxy : x = y
      · subst hxy; simp only [if_true, List.mem_append]; exact Or.inl ho
      · simp only [hxy, if_false]; exact ho
    · simp only [step, AEnv.get_cons]
      have hne : x ≠ y := by
        intro h; subst h; simp at hst
      simp only [hne, if_false]; exact ho
  | write y how => simpa [step] using ho
  | call f args => simpa [step] using ho
  | unknown why => simpa [step] using ho

theorem get_mono_foldl (n : Nat) (summ rsumm : Summ) (x : Nat) (body : List Stmt) (hb : NoMust x body = true) (a : AState) :
    ∀ o, o ∈ a.env.get x → o ∈ (body.foldl (step n summ rsumm) a).env.get x := by
  induction body generalizing a with
  | nil => intro o ho; simpa using ho
  | cons st rest ih =>
    intro o ho
    simp only [NoMust, List.all_cons, Bool.and_eq_true] at hb
    simp only [List.foldl_cons]
    exact ih hb.2 _ o (get_mono_step n summ rsumm a st x hb.1 o ho)

theorem execList_reach (n : Nat) (summ rsumm : Summ) (h0 : Nat → Nat) (x : Nat) (body : List Stmt) :
    ∀ (c c' : CState) (a : AState), NoMust x body = true → Cover n c a → Frame n h0 c a →
      ExecList n summ rsumm c body c' →
      ∀ o, o ∈ c'.env x → o < n → o ∈ (body.foldl (step n summ rsumm) a).env.get x := by
  induction body with
  | nil =>
    intro c c' a _ hc _ hex o ho hn
    cases hex
    simpa using hc x o ho hn
  | cons st rest ih =>
    intro c c' a hb hc hf hex o ho hn
    cases hex with
    | stop => exact get_mono_foldl n summ rsumm x (st :: rest) hb a o (hc x o ho hn)
    | cons _ c1 _ _ _ h1 hrest =>
      obtain ⟨hc1, hf1⟩ := step_preserves n summ rsumm h0 c c1 a st hc hf h1
      simp only [NoMust, List.all_cons, Bool.and_eq_true] at hb
      simpa using ih c1 c' _ hb.2 hc1 hf1 hrest o ho hn

/-- **Soundness for results.**  Whatever the variable that collects the returned values reaches at the end of an
execution (or where it stops), the argument regions among it are within the set the abstract interpreter computes:
a callable whose analysis lists no parameter there hands back nothing that shares memory with an argument. -/
theorem sound_reach (f : Fn) (summ rsumm : Summ) (hb : NoMust f.retVar f.body = true) (h0 : Nat → Nat) (c : CState)
    (hex : ExecList f.nparams summ rsumm (initC f.nparams h0) f.body c) :
    ∀ o, o ∈ c.env f.retVar → o < f.nparams → o ∈ (analyse summ rsumm f).2 := by
  intro o ho hn
  have := execList_reach f.nparams summ rsumm h0 f.retVar f.body (initC f.nparams h0) c _ hb
    (init_cover f.nparams h0) (fun _ _ _ => rfl) hex o ho hn
  simp only [analyse, List.mem_filter, List.mem_range]
  exact ⟨hn, by simpa [run] using this⟩

end PW.Effects
