/-
  PW.Lemmas.Rodrigues — helper lemmas for C10 (no property statements here): component simp lemmas for the
  3×3 matrix operations, the real-number instances of the operation classes, square-root / clip facts.
-/
import PW.Model.Rodrigues
import PW.Lemmas.Vec
import Mathlib.Tactic.Ring
import Mathlib.Tactic.LinearCombination
import Mathlib.Tactic.Linarith
import Mathlib.Tactic.Positivity
import Mathlib.Tactic.FieldSimp
import Mathlib.Analysis.Real.Sqrt
import Mathlib.Analysis.SpecialFunctions.Trigonometric.Inverse
import Mathlib.Analysis.SpecialFunctions.Trigonometric.Bounds
import Mathlib.Analysis.Calculus.Deriv.Basic

set_option linter.unusedSectionVars false

namespace PW

namespace M3
variable {K : Type} [Add K] [Sub K] [Mul K] [Div K] [Neg K] [OfNat K 0] [OfNat K 1]

theorem mul_def (a b : M3 K) : a.mul b =
  ⟨⟨a.r0.dot b.col0, a.r0.dot b.col1, a.r0.dot b.col2⟩,
   ⟨a.r1.dot b.col0, a.r1.dot b.col1, a.r1.dot b.col2⟩,
   ⟨a.r2.dot b.col0, a.r2.dot b.col1, a.r2.dot b.col2⟩⟩ := rfl

end M3

/-- the simp set that unfolds every 3×3 operation of the model down to components -/
macro "rod_unfold" : tactic => `(tactic|
  simp only [rodFormula, Rod.skew, Rod.outer, M3.add, M3.smul, M3.one, M3.mul, M3.transpose, M3.col0, M3.col1,
    M3.col2, M3.mulVec, M3.det, V3.dot_def, V3.add_x, V3.add_y, V3.add_z, V3.smul_x, V3.smul_y, V3.smul_z,
    V3.cross_x, V3.cross_y, V3.cross_z, V3.sub_x, V3.sub_y, V3.sub_z, V3.neg_x, V3.neg_y, V3.neg_z])


section tables
variable {K : Type} [Field K]
open Rod

theorem drrt_forms (k : V3 K) :
    drrt k 0 = ⟨⟨k.x + k.x, k.y, k.z⟩, ⟨k.y, 0, 0⟩, ⟨k.z, 0, 0⟩⟩ ∧
    drrt k 1 = ⟨⟨0, k.x, 0⟩, ⟨k.x, k.y + k.y, k.z⟩, ⟨0, k.z, 0⟩⟩ ∧
    drrt k 2 = ⟨⟨0, 0, k.x⟩, ⟨0, 0, k.y⟩, ⟨k.x, k.y, k.z + k.z⟩⟩ := ⟨rfl, rfl, rfl⟩

theorem drx_forms :
    (drx 0 : M3 K) = ⟨⟨0, 0, 0⟩, ⟨0, 0, -1⟩, ⟨0, 1, 0⟩⟩ ∧
    (drx 1 : M3 K) = ⟨⟨0, 0, 1⟩, ⟨0, 0, 0⟩, ⟨-1, 0, 0⟩⟩ ∧
    (drx 2 : M3 K) = ⟨⟨0, -1, 0⟩, ⟨1, 0, 0⟩, ⟨0, 0, 0⟩⟩ := ⟨rfl, rfl, rfl⟩

theorem dvardR_forms :
    (dvardRBlock 0 : M3 K) = ⟨⟨0, 0, 0⟩, ⟨0, 0, 1⟩, ⟨0, -1, 0⟩⟩ ∧
    (dvardRBlock 1 : M3 K) = ⟨⟨0, 0, -1⟩, ⟨0, 0, 0⟩, ⟨1, 0, 0⟩⟩ ∧
    (dvardRBlock 2 : M3 K) = ⟨⟨0, 1, 0⟩, ⟨-1, 0, 0⟩, ⟨0, 0, 0⟩⟩ := ⟨rfl, rfl, rfl⟩

theorem smallJacFwd_form :
    (smallJacFwd : J3 K) = ⟨⟨⟨0, 0, 0⟩, ⟨0, 0, -1⟩, ⟨0, 1, 0⟩⟩, ⟨⟨0, 0, 1⟩, ⟨0, 0, 0⟩, ⟨-1, 0, 0⟩⟩,
      ⟨⟨0, -1, 0⟩, ⟨1, 0, 0⟩, ⟨0, 0, 0⟩⟩⟩ := rfl

end tables

namespace C10
open Rod

noncomputable instance : PW.Sqrt ℝ := ⟨Real.sqrt⟩
noncomputable instance : PW.Trig ℝ := ⟨Real.sin, Real.cos, Real.arccos⟩

theorem sqrt_eq (x : ℝ) : PW.Sqrt.sqrt x = Real.sqrt x := rfl
theorem sin_eq (x : ℝ) : PW.Trig.sin x = Real.sin x := rfl
theorem cos_eq (x : ℝ) : PW.Trig.cos x = Real.cos x := rfl
theorem acos_eq (x : ℝ) : PW.Trig.acos x = Real.arccos x := rfl

theorem norm_def (r : V3 ℝ) : r.norm = Real.sqrt (r.dot r) := rfl

theorem dot_self_nonneg (r : V3 ℝ) : 0 ≤ r.dot r := by
  rw [V3.dot_def]; nlinarith [mul_self_nonneg r.x, mul_self_nonneg r.y, mul_self_nonneg r.z]

theorem norm_nonneg (r : V3 ℝ) : 0 ≤ r.norm := by rw [norm_def]; exact Real.sqrt_nonneg _

theorem norm_mul_self (r : V3 ℝ) : r.norm * r.norm = r.dot r := by
  rw [norm_def]; exact Real.mul_self_sqrt (dot_self_nonneg r)

/-- `r / ‖r‖` is a unit vector -/
theorem unit_normalized (r : V3 ℝ) (h : 0 < r.norm) :
    (V3.smul (1 / r.norm) r).dot (V3.smul (1 / r.norm) r) = 1 := by
  have hn := norm_mul_self r
  rw [V3.dot_def] at hn ⊢
  simp only [V3.smul_x, V3.smul_y, V3.smul_z]
  have h0 : r.norm ≠ 0 := ne_of_gt h
  field_simp
  nlinarith [hn]

theorem norm_zero : (V3.zero : V3 ℝ).norm = 0 := by
  rw [norm_def, V3.dot_def]; simp

theorem norm_smul_unit (t : ℝ) (k : V3 ℝ) (ht : 0 ≤ t) (hk : k.dot k = 1) : (V3.smul t k).norm = t := by
  rw [norm_def, V3.dot_def]
  rw [V3.dot_def] at hk
  simp only [V3.smul_x, V3.smul_y, V3.smul_z]
  rw [show t * k.x * (t * k.x) + t * k.y * (t * k.y) + t * k.z * (t * k.z) = t * t by
    linear_combination (t * t) * hk]
  exact Real.sqrt_mul_self ht

theorem smul_norm_normalized (r : V3 ℝ) (h : 0 < r.norm) : V3.smul r.norm (V3.smul (1 / r.norm) r) = r := by
  have h0 : r.norm ≠ 0 := ne_of_gt h
  ext <;> simp only [V3.smul_x, V3.smul_y, V3.smul_z] <;> field_simp

theorem mulVec_smul (m : M3 ℝ) (a : ℝ) (v : V3 ℝ) : m.mulVec (V3.smul a v) = V3.smul a (m.mulVec v) := by
  ext <;> simp only [M3.mulVec, V3.dot_def, V3.smul_x, V3.smul_y, V3.smul_z] <;> ring

theorem one_mulVec (v : V3 ℝ) : (M3.one : M3 ℝ).mulVec v = v := by
  ext <;> simp only [M3.mulVec, M3.one, V3.dot_def] <;> ring

theorem one_proper : (M3.one : M3 ℝ).transpose.mul M3.one = M3.one ∧ (M3.one : M3 ℝ).mul M3.one.transpose = M3.one ∧
    (M3.one : M3 ℝ).det = 1 := by
  refine ⟨?_, ?_, ?_⟩
  · ext <;> rod_unfold <;> ring
  · ext <;> rod_unfold <;> ring
  · rod_unfold; ring

theorem cos_sin_sq (t : ℝ) : Real.cos t * Real.cos t + Real.sin t * Real.sin t = 1 := by
  have := Real.cos_sq_add_sin_sq t
  nlinarith [this]

open Rod in
theorem rodHalf_eq : (rodHalf : ℝ) = 1 / 2 := by unfold rodHalf; norm_num
open Rod in
theorem rodTwo_eq : (rodTwo : ℝ) = 2 := by unfold rodTwo; norm_num
open Rod in
theorem sqrt_quarter : PW.Sqrt.sqrt (rodQuarter : ℝ) = 1 / 2 := by
  rw [sqrt_eq]; unfold rodQuarter
  rw [show (1 : ℝ) / ((1 + 1) * (1 + 1)) = (1 / 2) * (1 / 2) by norm_num]
  exact Real.sqrt_mul_self (by norm_num)
open Rod in
theorem clip_mem (x : ℝ) (h1 : -1 ≤ x) (h2 : x ≤ 1) : clip x (-1) 1 = x := by
  unfold clip
  simp only [if_neg (not_lt.mpr h1), if_neg (not_lt.mpr h2)]

/-- antisymmetric part and trace of Rodrigues' formula -/
theorem formula_parts (c s : ℝ) (k : V3 ℝ) (hk : k.dot k = 1) :
    (rodFormula c s k).r2.y - (rodFormula c s k).r1.z = 2 * s * k.x ∧
    (rodFormula c s k).r0.z - (rodFormula c s k).r2.x = 2 * s * k.y ∧
    (rodFormula c s k).r1.x - (rodFormula c s k).r0.y = 2 * s * k.z ∧
    (rodFormula c s k).r0.x + (rodFormula c s k).r1.y + (rodFormula c s k).r2.z = 1 + 2 * c := by
  rw [V3.dot_def] at hk
  refine ⟨?_, ?_, ?_, ?_⟩ <;> rod_unfold
  · ring
  · ring
  · ring
  · linear_combination (1 - c) * hk

/-- the main branch of the inverse on any matrix whose antisymmetric part is `2 s [k]×` and whose trace is `1 + 2c` -/
theorem inv_core_of (thr : ℝ) (p : M3 ℝ) (s c θ : ℝ) (k : V3 ℝ)
    (e1 : p.r2.y - p.r1.z = 2 * s * k.x) (e2 : p.r0.z - p.r2.x = 2 * s * k.y) (e3 : p.r1.x - p.r0.y = 2 * s * k.z)
    (htr : p.r0.x + p.r1.y + p.r2.z = 1 + 2 * c) (hk : k.dot k = 1) (hs : 0 < s) (hc1 : -1 ≤ c) (hc2 : c ≤ 1)
    (hθ : Real.arccos c = θ) (hthr : thr ≤ s) :
    (rodriguesInverseCore thr p).w = V3.smul θ k := by
  rw [V3.dot_def] at hk
  have hnorm : V3.norm (⟨2 * s * k.x, 2 * s * k.y, 2 * s * k.z⟩ : V3 ℝ) * PW.Sqrt.sqrt (Rod.rodQuarter : ℝ) = s := by
    rw [sqrt_quarter, norm_def, V3.dot_def]
    simp only
    rw [show 2 * s * k.x * (2 * s * k.x) + 2 * s * k.y * (2 * s * k.y) + 2 * s * k.z * (2 * s * k.z) = (2 * s) * (2 * s) by
      linear_combination (4 * s * s) * hk]
    rw [Real.sqrt_mul_self (by positivity)]
    ring
  have hc : Rod.clip ((p.r0.x + p.r1.y + p.r2.z - 1) * Rod.rodHalf) (-1) 1 = c := by
    rw [htr, rodHalf_eq, show (1 + 2 * c - 1) * (1 / 2) = c by ring]
    exact clip_mem c hc1 hc2
  unfold rodriguesInverseCore
  simp only [e1, e2, e3, hnorm, hc, if_neg (not_lt.mpr hthr), acos_eq, hθ, rodTwo_eq]
  have hs0 : s ≠ 0 := ne_of_gt hs
  ext <;> simp only [V3.smul_x, V3.smul_y, V3.smul_z] <;> field_simp

/-- the Jacobian of the main branch, same hypotheses as `inv_core_of` -/
theorem inv_core_jac_of (thr : ℝ) (p : M3 ℝ) (s c θ : ℝ) (k : V3 ℝ)
    (e1 : p.r2.y - p.r1.z = 2 * s * k.x) (e2 : p.r0.z - p.r2.x = 2 * s * k.y) (e3 : p.r1.x - p.r0.y = 2 * s * k.z)
    (htr : p.r0.x + p.r1.y + p.r2.z = 1 + 2 * c) (hk : k.dot k = 1) (hs : 0 < s) (hc1 : -1 ≤ c) (hc2 : c ≤ 1)
    (hθ : Real.arccos c = θ) (hthr : thr ≤ s) :
    (rodriguesInverseCore thr p).jac =
      ⟨invJacBlock θ (1 / (2 * s)) (1 / 2 * (-(1 / (2 * s)) * c / s) * (-1 / s)) (1 / 2 * (-1 / s)) (2 * s * k.x) 0,
       invJacBlock θ (1 / (2 * s)) (1 / 2 * (-(1 / (2 * s)) * c / s) * (-1 / s)) (1 / 2 * (-1 / s)) (2 * s * k.y) 1,
       invJacBlock θ (1 / (2 * s)) (1 / 2 * (-(1 / (2 * s)) * c / s) * (-1 / s)) (1 / 2 * (-1 / s)) (2 * s * k.z) 2⟩ := by
  rw [V3.dot_def] at hk
  have hnorm : V3.norm (⟨2 * s * k.x, 2 * s * k.y, 2 * s * k.z⟩ : V3 ℝ) * PW.Sqrt.sqrt (Rod.rodQuarter : ℝ) = s := by
    rw [sqrt_quarter, norm_def, V3.dot_def]
    simp only
    rw [show 2 * s * k.x * (2 * s * k.x) + 2 * s * k.y * (2 * s * k.y) + 2 * s * k.z * (2 * s * k.z) = (2 * s) * (2 * s) by
      linear_combination (4 * s * s) * hk]
    rw [Real.sqrt_mul_self (by positivity)]
    ring
  have hc : Rod.clip ((p.r0.x + p.r1.y + p.r2.z - 1) * Rod.rodHalf) (-1) 1 = c := by
    rw [htr, rodHalf_eq, show (1 + 2 * c - 1) * (1 / 2) = c by ring]
    exact clip_mem c hc1 hc2
  unfold rodriguesInverseCore
  simp only [e1, e2, e3, hnorm, hc, if_neg (not_lt.mpr hthr), acos_eq, hθ, rodTwo_eq]
  simp only [rodHalf_eq]

open Rod in
theorem absK_eq (t : ℝ) : absK t = |t| := by
  unfold absK
  split_ifs with h
  · exact (abs_of_neg h).symm
  · exact (abs_of_nonneg (not_lt.mp h)).symm

open Rod in
theorem clip0_nonneg (u : ℝ) (h : 0 ≤ u) : clip0 u = u := by
  unfold clip0
  rw [if_neg (not_lt.mpr h)]

open Rod in
theorem clip0_ge (u : ℝ) : 0 ≤ clip0 u := by
  unfold clip0
  split_ifs with h
  · exact le_rfl
  · exact not_lt.mp h

/-- the left-hand sides of the three sign tests: twice the symmetric part -/
theorem signTestVal_forms (p : M3 ℝ) :
    signTestVal p 0 = p.r0.y + p.r1.x ∧ signTestVal p 1 = p.r0.z + p.r2.x ∧ signTestVal p 2 = p.r1.z + p.r2.y :=
  ⟨rfl, rfl, rfl⟩

theorem bne_decide_iff (P Q : Prop) [Decidable P] [Decidable Q] : (decide P != decide Q) = true ↔ ¬ (P ↔ Q) := by
  by_cases hP : P <;> by_cases hQ : Q <;> simp [hP, hQ]

/-- the sign fix-ups of the half-turn branch, as a statement about reals: the sign tests see `A·xy`, `A·xz`, `A·yz`
    (`A > 0`; twice the symmetric part of `rot((x,y,z), θ)`), the magnitudes `mx, my, mz` are ordered like `|x|, |y|, |z|`
    and positive where the component is non-zero.  Then the signed result has the sign pattern of `(x,y,z)` or of
    `−(x,y,z)`, weakly (nothing is said about a component whose axis component is zero). -/
theorem sign_fix_gen (x y z A mx my mz : ℝ) (hA : 0 < A) (hmx : 0 ≤ mx) (hmy : 0 ≤ my) (hmz : 0 ≤ mz)
    (hy : y ≠ 0 → 0 < my) (hz : z ≠ 0 → 0 < mz) (hxy : mx < my ↔ x * x < y * y) (hxz : mx < mz ↔ x * x < z * z) :
    let ry := if A * (x * y) < 0 then -my else my
    let rz := if A * (x * z) < 0 then -mz else mz
    let rz' := if |mx| < |ry| ∧ |mx| < |rz| ∧ (decide (0 < A * (y * z)) != decide (0 < ry * rz)) then -rz else rz
    ∃ σ : ℝ, (σ = 1 ∨ σ = -1) ∧ 0 ≤ σ * mx * x ∧ 0 ≤ σ * ry * y ∧ 0 ≤ σ * rz' * z := by
  intro ry rz rz'
  have hAxy : A * (x * y) < 0 ↔ x * y < 0 := by
    constructor
    · intro h; by_contra h'; have := mul_nonneg hA.le (not_lt.mp h'); linarith
    · intro h; exact mul_neg_of_pos_of_neg hA h
  have hAxz : A * (x * z) < 0 ↔ x * z < 0 := by
    constructor
    · intro h; by_contra h'; have := mul_nonneg hA.le (not_lt.mp h'); linarith
    · intro h; exact mul_neg_of_pos_of_neg hA h
  have hAyz : 0 < A * (y * z) ↔ 0 < y * z := by
    constructor
    · intro h; by_contra h'; have := mul_nonpos_of_nonneg_of_nonpos hA.le (not_lt.mp h'); linarith
    · intro h; exact mul_pos hA h
  have hry_abs : |ry| = my := by
    simp only [ry]; split_ifs
    · rw [abs_neg, abs_of_nonneg hmy]
    · exact abs_of_nonneg hmy
  have hrz_abs : |rz| = mz := by
    simp only [rz]; split_ifs
    · rw [abs_neg, abs_of_nonneg hmz]
    · exact abs_of_nonneg hmz
  -- ry has the sign of x·y, rz that of x·z
  have hry : (x * y < 0 → ry = -my) ∧ (¬ x * y < 0 → ry = my) := by
    constructor
    · intro h; simp only [ry]; rw [if_pos (hAxy.mpr h)]
    · intro h; simp only [ry]; rw [if_neg (fun h' => h (hAxy.mp h'))]
  have hrz : (x * z < 0 → rz = -mz) ∧ (¬ x * z < 0 → rz = mz) := by
    constructor
    · intro h; simp only [rz]; rw [if_pos (hAxz.mpr h)]
    · intro h; simp only [rz]; rw [if_neg (fun h' => h (hAxz.mp h'))]
  have hryxy : 0 ≤ ry * (x * y) := by
    by_cases h : x * y < 0
    · rw [hry.1 h]; nlinarith
    · rw [hry.2 h]; exact mul_nonneg hmy (not_lt.mp h)
  have hrzxz : 0 ≤ rz * (x * z) := by
    by_cases h : x * z < 0
    · rw [hrz.1 h]; nlinarith
    · rw [hrz.2 h]; exact mul_nonneg hmz (not_lt.mp h)
  by_cases hc3 : |mx| < |ry| ∧ |mx| < |rz| ∧ (decide (0 < A * (y * z)) != decide (0 < ry * rz)) = true
  · -- the third fix-up fires: only possible for x = 0, y·z < 0
    obtain ⟨c1, c2, c3⟩ := hc3
    rw [abs_of_nonneg hmx, hry_abs] at c1
    rw [abs_of_nonneg hmx, hrz_abs] at c2
    have hxy' := hxy.mp c1
    have hxz' := hxz.mp c2
    have hy0 : y ≠ 0 := by rintro rfl; nlinarith [mul_self_nonneg x]
    have hz0 : z ≠ 0 := by rintro rfl; nlinarith [mul_self_nonneg x]
    have hmy' := hy hy0
    have hmz' := hz hz0
    have hx0 : x = 0 := by
      by_contra hx
      -- ry·rz has the sign of y·z, so the two tests agree
      have hyz0 : y * z ≠ 0 := mul_ne_zero hy0 hz0
      have hxy0 : x * y ≠ 0 := mul_ne_zero hx hy0
      have hxz0 : x * z ≠ 0 := mul_ne_zero hx hz0
      have hsame : (0 < y * z) ↔ (0 < ry * rz) := by
        have hprod : 0 < (x * y) * (x * z) ↔ 0 < y * z := by
          have hxx : 0 < x * x := mul_self_pos.mpr hx
          rw [show (x * y) * (x * z) = (x * x) * (y * z) by ring]
          constructor
          · intro h; by_contra h'; have := mul_nonpos_of_nonneg_of_nonpos hxx.le (not_lt.mp h'); linarith
          · intro h; exact mul_pos hxx h
        rcases lt_or_gt_of_ne hxy0 with h1 | h1 <;> rcases lt_or_gt_of_ne hxz0 with h2 | h2
        · rw [hry.1 h1, hrz.1 h2, ← hprod]
          constructor <;> intro _
          · nlinarith [mul_pos hmy' hmz']
          · exact mul_pos_of_neg_of_neg h1 h2
        · rw [hry.1 h1, hrz.2 (not_lt.mpr h2.le), ← hprod]
          constructor <;> intro h
          · have := mul_neg_of_neg_of_pos h1 h2; linarith
          · nlinarith [mul_pos hmy' hmz']
        · rw [hry.2 (not_lt.mpr h1.le), hrz.1 h2, ← hprod]
          constructor <;> intro h
          · have := mul_neg_of_pos_of_neg h1 h2; linarith
          · nlinarith [mul_pos hmy' hmz']
        · rw [hry.2 (not_lt.mpr h1.le), hrz.2 (not_lt.mpr h2.le), ← hprod]
          constructor <;> intro _
          · exact mul_pos hmy' hmz'
          · exact mul_pos h1 h2
      rw [bne_decide_iff, hAyz] at c3
      exact c3 hsame
    subst hx0
    have e1 : ry = my := hry.2 (by simp)
    have e2 : rz = mz := hrz.2 (by simp)
    have hyz : y * z < 0 := by
      have c3' := c3
      rw [bne_decide_iff, hAyz, e1, e2] at c3'
      have hp : 0 < my * mz := mul_pos hmy' hmz'
      by_contra h
      have h' : 0 < y * z := lt_of_le_of_ne (not_lt.mp h) (Ne.symm (mul_ne_zero hy0 hz0))
      exact c3' ⟨fun _ => hp, fun _ => h'⟩
    have hrz' : rz' = -mz := by
      simp only [rz']
      rw [if_pos ⟨by rw [abs_of_nonneg hmx, hry_abs]; exact c1, by rw [abs_of_nonneg hmx, hrz_abs]; exact c2, c3⟩, e2]
    rw [hrz', e1]
    rcases lt_or_gt_of_ne hy0 with h | h
    · refine ⟨-1, Or.inr rfl, by simp, by nlinarith, ?_⟩
      have hz' : 0 < z := by nlinarith
      nlinarith
    · refine ⟨1, Or.inl rfl, by simp, by nlinarith, ?_⟩
      have hz' : z < 0 := by nlinarith
      nlinarith
  · -- the third fix-up does not fire
    have hrz' : rz' = rz := by simp only [rz']; rw [if_neg hc3]
    rw [hrz']
    rcases lt_trichotomy x 0 with hx | hx | hx
    · refine ⟨-1, Or.inr rfl, by nlinarith, ?_, ?_⟩
      · have e : x * (ry * y) = ry * (x * y) := by ring
        have : ry * y ≤ 0 := by
          by_contra h; have := mul_neg_of_neg_of_pos hx (not_le.mp h); linarith
        linarith
      · have e : x * (rz * z) = rz * (x * z) := by ring
        have : rz * z ≤ 0 := by
          by_contra h; have := mul_neg_of_neg_of_pos hx (not_le.mp h); linarith
        linarith
    · subst hx
      have e1 : ry = my := hry.2 (by simp)
      have e2 : rz = mz := hrz.2 (by simp)
      rw [e1, e2]
      by_cases hy0 : y = 0
      · subst hy0
        rcases le_or_gt 0 z with h | h
        · exact ⟨1, Or.inl rfl, by simp, by simp, by nlinarith⟩
        · exact ⟨-1, Or.inr rfl, by simp, by simp, by nlinarith⟩
      by_cases hz0 : z = 0
      · subst hz0
        rcases le_or_gt 0 y with h | h
        · exact ⟨1, Or.inl rfl, by simp, by nlinarith, by simp⟩
        · exact ⟨-1, Or.inr rfl, by simp, by nlinarith, by simp⟩
      -- y, z ≠ 0: the two magnitude tests hold, so the boolean part must be false: y·z > 0
      have hmy' := hy hy0
      have hmz' := hz hz0
      have c1 : |mx| < |ry| := by
        rw [abs_of_nonneg hmx, hry_abs, hxy]; simp only [mul_zero]; exact mul_self_pos.mpr hy0
      have c2 : |mx| < |rz| := by
        rw [abs_of_nonneg hmx, hrz_abs, hxz]; simp only [mul_zero]; exact mul_self_pos.mpr hz0
      have hyz : 0 < y * z := by
        by_contra h
        apply hc3
        refine ⟨c1, c2, ?_⟩
        rw [bne_decide_iff, hAyz, e1, e2]
        have hp : 0 < my * mz := mul_pos hmy' hmz'
        exact fun hiff => h (hiff.mpr hp)
      rcases lt_or_gt_of_ne hy0 with h | h
      · have hz' : z < 0 := by nlinarith
        exact ⟨-1, Or.inr rfl, by simp, by nlinarith, by nlinarith⟩
      · have hz' : 0 < z := by nlinarith
        exact ⟨1, Or.inl rfl, by simp, by nlinarith, by nlinarith⟩
    · refine ⟨1, Or.inl rfl, by nlinarith, ?_, ?_⟩
      · have e : x * (ry * y) = ry * (x * y) := by ring
        have : 0 ≤ ry * y := by
          by_contra h; have := mul_neg_of_pos_of_neg hx (not_le.mp h); linarith
        linarith
      · have e : x * (rz * z) = rz * (x * z) := by ring
        have : 0 ≤ rz * z := by
          by_contra h; have := mul_neg_of_pos_of_neg hx (not_le.mp h); linarith
        linarith

/-- a component with the magnitude of `k` and (weakly) the sign of `σ·k` is `σ·k` -/
theorem eq_of_sq_eq_of_sign (v k σ : ℝ) (hσ : σ = 1 ∨ σ = -1) (h2 : v * v = k * k) (hs : 0 ≤ σ * v * k) :
    v = σ * k := by
  have hσ2 : σ * σ = 1 := by rcases hσ with h | h <;> rw [h] <;> norm_num
  have h3 : σ * v * k = k * k := by
    have hsq : (σ * v * k) * (σ * v * k) = (k * k) * (k * k) := by
      linear_combination (v * v * k * k) * hσ2 + (k * k) * h2
    exact (mul_self_inj hs (mul_self_nonneg k)).mp hsq
  have h4 : (v - σ * k) * (v - σ * k) = 0 := by
    linear_combination h2 - 2 * h3 + (k * k) * hσ2
  have := mul_self_eq_zero.mp h4
  linarith

/-- the components of the recovered axis are `± sqrt(clip((diag + 1)/2))`, whatever the sign fix-ups do -/
theorem halfTurnAxis_sq (p : M3 ℝ) :
    (halfTurnAxis p).x * (halfTurnAxis p).x = clip0 ((p.r0.x + 1) * (1 / 2)) ∧
    (halfTurnAxis p).y * (halfTurnAxis p).y = clip0 ((p.r1.y + 1) * (1 / 2)) ∧
    (halfTurnAxis p).z * (halfTurnAxis p).z = clip0 ((p.r2.z + 1) * (1 / 2)) := by
  unfold halfTurnAxis
  simp only [rodHalf_eq, sqrt_eq]
  refine ⟨?_, ?_, ?_⟩
  · exact Real.mul_self_sqrt (clip0_ge _)
  · split_ifs <;> first
      | exact Real.mul_self_sqrt (clip0_ge _)
      | (simp only [neg_mul_neg, neg_neg]; exact Real.mul_self_sqrt (clip0_ge _))
  · split_ifs <;> first
      | exact Real.mul_self_sqrt (clip0_ge _)
      | (simp only [neg_mul_neg, neg_neg]; exact Real.mul_self_sqrt (clip0_ge _))

/-- the recovered axis on a matrix whose symmetric part is that of a rotation about `(x,y,z)` close to a half-turn:
    diagonal `(p_ii + 1)/2 = a + b·kᵢ²` (`a ≥ 0`, `b > 0`), off-diagonal sums `A·kᵢkⱼ` (`A > 0`).  Its components
    have the sign pattern of `k` or of `−k` (weakly). -/
theorem halfTurnAxis_signs (p : M3 ℝ) (k : V3 ℝ) (A a b : ℝ) (hA : 0 < A) (ha : 0 ≤ a) (hb : 0 < b)
    (d0 : (p.r0.x + 1) * (1 / 2) = a + b * (k.x * k.x)) (d1 : (p.r1.y + 1) * (1 / 2) = a + b * (k.y * k.y))
    (d2 : (p.r2.z + 1) * (1 / 2) = a + b * (k.z * k.z))
    (o1 : p.r0.y + p.r1.x = A * (k.x * k.y)) (o2 : p.r0.z + p.r2.x = A * (k.x * k.z))
    (o3 : p.r1.z + p.r2.y = A * (k.y * k.z)) :
    ∃ σ : ℝ, (σ = 1 ∨ σ = -1) ∧ 0 ≤ σ * (halfTurnAxis p).x * k.x ∧ 0 ≤ σ * (halfTurnAxis p).y * k.y ∧
      0 ≤ σ * (halfTurnAxis p).z * k.z := by
  have n0 : 0 ≤ a + b * (k.x * k.x) := add_nonneg ha (mul_nonneg hb.le (mul_self_nonneg _))
  have n1 : 0 ≤ a + b * (k.y * k.y) := add_nonneg ha (mul_nonneg hb.le (mul_self_nonneg _))
  have n2 : 0 ≤ a + b * (k.z * k.z) := add_nonneg ha (mul_nonneg hb.le (mul_self_nonneg _))
  obtain ⟨t0, t1, t2⟩ := signTestVal_forms p
  have key := sign_fix_gen k.x k.y k.z A (Real.sqrt (a + b * (k.x * k.x))) (Real.sqrt (a + b * (k.y * k.y)))
    (Real.sqrt (a + b * (k.z * k.z))) hA (Real.sqrt_nonneg _) (Real.sqrt_nonneg _) (Real.sqrt_nonneg _)
    (fun h => Real.sqrt_pos.mpr (by have := mul_pos hb (mul_self_pos.mpr h); linarith))
    (fun h => Real.sqrt_pos.mpr (by have := mul_pos hb (mul_self_pos.mpr h); linarith))
    (by rw [Real.sqrt_lt_sqrt_iff n0]
        constructor
        · intro h; have := (mul_lt_mul_iff_right₀ hb).mp (by linarith : b * (k.x * k.x) < b * (k.y * k.y)); exact this
        · intro h; have := mul_lt_mul_of_pos_left h hb; linarith)
    (by rw [Real.sqrt_lt_sqrt_iff n0]
        constructor
        · intro h; have := (mul_lt_mul_iff_right₀ hb).mp (by linarith : b * (k.x * k.x) < b * (k.z * k.z)); exact this
        · intro h; have := mul_lt_mul_of_pos_left h hb; linarith)
  unfold halfTurnAxis
  simp only [t0, t1, t2, o1, o2, o3, rodHalf_eq, d0, d1, d2, clip0_nonneg _ n0, clip0_nonneg _ n1, clip0_nonneg _ n2,
    sqrt_eq, absK_eq]
  exact key

/-- on a matrix with the diagonal and the symmetric part of `2kkᵀ − I` the recovered axis is `k` or `−k` -/
theorem halfTurnAxis_of (p : M3 ℝ) (k : V3 ℝ)
    (d0 : p.r0.x = 2 * (k.x * k.x) - 1) (d1 : p.r1.y = 2 * (k.y * k.y) - 1) (d2 : p.r2.z = 2 * (k.z * k.z) - 1)
    (o1 : p.r0.y + p.r1.x = 4 * (k.x * k.y)) (o2 : p.r0.z + p.r2.x = 4 * (k.x * k.z))
    (o3 : p.r1.z + p.r2.y = 4 * (k.y * k.z)) :
    halfTurnAxis p = k ∨ halfTurnAxis p = -k := by
  have e0 : (p.r0.x + 1) * (1 / 2) = 0 + 1 * (k.x * k.x) := by rw [d0]; ring
  have e1 : (p.r1.y + 1) * (1 / 2) = 0 + 1 * (k.y * k.y) := by rw [d1]; ring
  have e2 : (p.r2.z + 1) * (1 / 2) = 0 + 1 * (k.z * k.z) := by rw [d2]; ring
  obtain ⟨σ, hσ, s0, s1, s2⟩ := halfTurnAxis_signs p k 4 0 1 (by norm_num) le_rfl one_pos e0 e1 e2 o1 o2 o3
  obtain ⟨q0, q1, q2⟩ := halfTurnAxis_sq p
  rw [e0, clip0_nonneg _ (by nlinarith [mul_self_nonneg k.x])] at q0
  rw [e1, clip0_nonneg _ (by nlinarith [mul_self_nonneg k.y])] at q1
  rw [e2, clip0_nonneg _ (by nlinarith [mul_self_nonneg k.z])] at q2
  have c0 := eq_of_sq_eq_of_sign _ k.x σ hσ (by rw [q0]; ring) s0
  have c1 := eq_of_sq_eq_of_sign _ k.y σ hσ (by rw [q1]; ring) s1
  have c2 := eq_of_sq_eq_of_sign _ k.z σ hσ (by rw [q2]; ring) s2
  rcases hσ with h | h <;> rw [h] at c0 c1 c2
  · left; ext <;> simp [c0, c1, c2]
  · right; ext <;> simp [c0, c1, c2]

theorem norm_smul (a : ℝ) (v : V3 ℝ) : (V3.smul a v).norm = |a| * v.norm := by
  rw [norm_def, norm_def, V3.dot_def, V3.dot_def]
  simp only [V3.smul_x, V3.smul_y, V3.smul_z]
  rw [show a * v.x * (a * v.x) + a * v.y * (a * v.y) + a * v.z * (a * v.z) =
    (a * a) * (v.x * v.x + v.y * v.y + v.z * v.z) by ring]
  rw [Real.sqrt_mul (mul_self_nonneg a), Real.sqrt_mul_self_eq_abs]

theorem norm_mul_right (a x y z : ℝ) :
    (⟨x * a, y * a, z * a⟩ : V3 ℝ).norm = |a| * (⟨x, y, z⟩ : V3 ℝ).norm := by
  rw [← norm_smul]
  congr 1
  ext <;> simp only [V3.smul_x, V3.smul_y, V3.smul_z] <;> ring

theorem norm_neg (k : V3 ℝ) : (-k).norm = k.norm := by
  rw [norm_def, norm_def, V3.dot_def, V3.dot_def]
  simp only [V3.neg_x, V3.neg_y, V3.neg_z]
  congr 1; ring

theorem norm_unit (k : V3 ℝ) (hk : k.dot k = 1) : k.norm = 1 := by
  rw [norm_def, hk, Real.sqrt_one]

/-- the snap branch on a matrix with zero antisymmetric part, trace −1 and recovered axis `±k` -/
theorem inv_core_half (thr : ℝ) (p : M3 ℝ) (k : V3 ℝ)
    (e1 : p.r2.y - p.r1.z = 0) (e2 : p.r0.z - p.r2.x = 0) (e3 : p.r1.x - p.r0.y = 0)
    (htr : p.r0.x + p.r1.y + p.r2.z = -1) (hk : k.dot k = 1) (hthr : 0 < thr)
    (hv : halfTurnAxis p = k ∨ halfTurnAxis p = -k) :
    (rodriguesInverseCore thr p).w = V3.smul Real.pi k ∨ (rodriguesInverseCore thr p).w = V3.smul Real.pi (-k) := by
  have hnorm : V3.norm (⟨0, 0, 0⟩ : V3 ℝ) * PW.Sqrt.sqrt (Rod.rodQuarter : ℝ) = 0 := by
    rw [norm_def, V3.dot_def]; simp
  have hc : Rod.clip ((p.r0.x + p.r1.y + p.r2.z - 1) * Rod.rodHalf) (-1) 1 = -1 := by
    rw [htr, rodHalf_eq, show ((-1 : ℝ) - 1) * (1 / 2) = -1 by norm_num]
    exact clip_mem (-1) le_rfl (by norm_num)
  have hneg : ¬ (0 : ℝ) < -1 := by norm_num
  unfold rodriguesInverseCore
  simp only [e1, e2, e3, hnorm, hc, if_pos hthr, if_neg hneg, acos_eq, Real.arccos_neg_one]
  rcases hv with hv | hv
  · left; rw [hv, norm_unit k hk, div_one]
  · right; rw [hv, norm_neg, norm_unit k hk, div_one]

/-- entries of `2kkᵀ − I = rodFormula (−1) 0 k` -/
theorem half_turn_entries (k : V3 ℝ) (hk : k.dot k = 1) :
    (rodFormula (-1) 0 k).r0.x = 2 * (k.x * k.x) - 1 ∧ (rodFormula (-1) 0 k).r1.y = 2 * (k.y * k.y) - 1 ∧
    (rodFormula (-1) 0 k).r2.z = 2 * (k.z * k.z) - 1 ∧
    (rodFormula (-1) 0 k).r0.y + (rodFormula (-1) 0 k).r1.x = 4 * (k.x * k.y) ∧
    (rodFormula (-1) 0 k).r0.z + (rodFormula (-1) 0 k).r2.x = 4 * (k.x * k.z) ∧
    (rodFormula (-1) 0 k).r1.z + (rodFormula (-1) 0 k).r2.y = 4 * (k.y * k.z) ∧
    (rodFormula (-1) 0 k).r2.y - (rodFormula (-1) 0 k).r1.z = 0 ∧
    (rodFormula (-1) 0 k).r0.z - (rodFormula (-1) 0 k).r2.x = 0 ∧
    (rodFormula (-1) 0 k).r1.x - (rodFormula (-1) 0 k).r0.y = 0 ∧
    (rodFormula (-1) 0 k).r0.x + (rodFormula (-1) 0 k).r1.y + (rodFormula (-1) 0 k).r2.z = -1 := by
  rw [V3.dot_def] at hk
  refine ⟨?_, ?_, ?_, ?_, ?_, ?_, ?_, ?_, ?_, ?_⟩ <;> rod_unfold <;> first | ring1 | linear_combination 2 * hk

/-- every entry of `a − b` is at most `t` in absolute value -/
def entriesWithin (a b : M3 ℝ) (t : ℝ) : Prop :=
  |a.r0.x - b.r0.x| ≤ t ∧ |a.r0.y - b.r0.y| ≤ t ∧ |a.r0.z - b.r0.z| ≤ t ∧
  |a.r1.x - b.r1.x| ≤ t ∧ |a.r1.y - b.r1.y| ≤ t ∧ |a.r1.z - b.r1.z| ≤ t ∧
  |a.r2.x - b.r2.x| ≤ t ∧ |a.r2.y - b.r2.y| ≤ t ∧ |a.r2.z - b.r2.z| ≤ t

theorem entriesWithin_symm {a b : M3 ℝ} {t : ℝ} (h : entriesWithin a b t) : entriesWithin b a t := by
  unfold entriesWithin at h ⊢
  obtain ⟨h1, h2, h3, h4, h5, h6, h7, h8, h9⟩ := h
  exact ⟨by rwa [abs_sub_comm], by rwa [abs_sub_comm], by rwa [abs_sub_comm], by rwa [abs_sub_comm],
    by rwa [abs_sub_comm], by rwa [abs_sub_comm], by rwa [abs_sub_comm], by rwa [abs_sub_comm], by rwa [abs_sub_comm]⟩

theorem entriesWithin_mono {a b : M3 ℝ} {t u : ℝ} (h : entriesWithin a b t) (htu : t ≤ u) : entriesWithin a b u := by
  unfold entriesWithin at h ⊢
  obtain ⟨h1, h2, h3, h4, h5, h6, h7, h8, h9⟩ := h
  exact ⟨h1.trans htu, h2.trans htu, h3.trans htu, h4.trans htu, h5.trans htu, h6.trans htu, h7.trans htu,
    h8.trans htu, h9.trans htu⟩

theorem bound_entry (a s t u : ℝ) (ha0 : 0 ≤ a) (ha : a ≤ s * s) (hs0 : 0 ≤ s) (ht : |t| ≤ 1) (hu : |u| ≤ 1) :
    |a * t + s * u| ≤ s + s * s := by
  have h1 : |a * t| ≤ a := by
    rw [abs_mul, abs_of_nonneg ha0]; exact mul_le_of_le_one_right ha0 ht
  have h2 : |s * u| ≤ s := by
    rw [abs_mul, abs_of_nonneg hs0]; exact mul_le_of_le_one_right hs0 hu
  calc |a * t + s * u| ≤ |a * t| + |s * u| := abs_add_le _ _
    _ ≤ a + s := add_le_add h1 h2
    _ ≤ s + s * s := by linarith

/-- a rotation with `c > 0` and small `s ≥ 0` is within `s + s²` of the identity, entrywise -/
theorem near_identity (c s : ℝ) (k : V3 ℝ) (hk : k.dot k = 1) (hcs : c * c + s * s = 1) (hc : 0 < c) (hs0 : 0 ≤ s) :
    entriesWithin (rodFormula c s k) M3.one (s + s * s) := by
  rw [V3.dot_def] at hk
  have ha0 : 0 ≤ 1 - c := by nlinarith
  have ha : 1 - c ≤ s * s := by nlinarith
  have hx : |k.x| ≤ 1 := abs_le.mpr ⟨by nlinarith [sq_nonneg k.y, sq_nonneg k.z, sq_nonneg (k.x + 1)],
    by nlinarith [sq_nonneg k.y, sq_nonneg k.z, sq_nonneg (k.x - 1)]⟩
  have hy : |k.y| ≤ 1 := abs_le.mpr ⟨by nlinarith [sq_nonneg k.x, sq_nonneg k.z, sq_nonneg (k.y + 1)],
    by nlinarith [sq_nonneg k.x, sq_nonneg k.z, sq_nonneg (k.y - 1)]⟩
  have hz : |k.z| ≤ 1 := abs_le.mpr ⟨by nlinarith [sq_nonneg k.x, sq_nonneg k.y, sq_nonneg (k.z + 1)],
    by nlinarith [sq_nonneg k.x, sq_nonneg k.y, sq_nonneg (k.z - 1)]⟩
  have hnx : |(-k.x)| ≤ 1 := by rwa [abs_neg]
  have hny : |(-k.y)| ≤ 1 := by rwa [abs_neg]
  have hnz : |(-k.z)| ≤ 1 := by rwa [abs_neg]
  have h0 : |(0 : ℝ)| ≤ 1 := by norm_num
  have dxx : |k.x * k.x - 1| ≤ 1 := abs_le.mpr ⟨by nlinarith [sq_nonneg k.x], by nlinarith [sq_nonneg k.y, sq_nonneg k.z]⟩
  have dyy : |k.y * k.y - 1| ≤ 1 := abs_le.mpr ⟨by nlinarith [sq_nonneg k.y], by nlinarith [sq_nonneg k.x, sq_nonneg k.z]⟩
  have dzz : |k.z * k.z - 1| ≤ 1 := abs_le.mpr ⟨by nlinarith [sq_nonneg k.z], by nlinarith [sq_nonneg k.x, sq_nonneg k.y]⟩
  have dxy : |k.x * k.y| ≤ 1 := abs_le.mpr ⟨by nlinarith [sq_nonneg (k.x + k.y), sq_nonneg k.z],
    by nlinarith [sq_nonneg (k.x - k.y), sq_nonneg k.z]⟩
  have dxz : |k.x * k.z| ≤ 1 := abs_le.mpr ⟨by nlinarith [sq_nonneg (k.x + k.z), sq_nonneg k.y],
    by nlinarith [sq_nonneg (k.x - k.z), sq_nonneg k.y]⟩
  have dyz : |k.y * k.z| ≤ 1 := abs_le.mpr ⟨by nlinarith [sq_nonneg (k.y + k.z), sq_nonneg k.x],
    by nlinarith [sq_nonneg (k.y - k.z), sq_nonneg k.x]⟩
  unfold entriesWithin
  refine ⟨?_, ?_, ?_, ?_, ?_, ?_, ?_, ?_, ?_⟩ <;> rod_unfold
  · rw [show c * 1 + (1 - c) * (k.x * k.x) + s * 0 - 1 = (1 - c) * (k.x * k.x - 1) + s * 0 by ring]
    exact bound_entry _ _ _ _ ha0 ha hs0 dxx h0
  · rw [show c * 0 + (1 - c) * (k.y * k.x) + s * -k.z - 0 = (1 - c) * (k.x * k.y) + s * (-k.z) by ring]
    exact bound_entry _ _ _ _ ha0 ha hs0 dxy hnz
  · rw [show c * 0 + (1 - c) * (k.z * k.x) + s * k.y - 0 = (1 - c) * (k.x * k.z) + s * k.y by ring]
    exact bound_entry _ _ _ _ ha0 ha hs0 dxz hy
  · rw [show c * 0 + (1 - c) * (k.x * k.y) + s * k.z - 0 = (1 - c) * (k.x * k.y) + s * k.z by ring]
    exact bound_entry _ _ _ _ ha0 ha hs0 dxy hz
  · rw [show c * 1 + (1 - c) * (k.y * k.y) + s * 0 - 1 = (1 - c) * (k.y * k.y - 1) + s * 0 by ring]
    exact bound_entry _ _ _ _ ha0 ha hs0 dyy h0
  · rw [show c * 0 + (1 - c) * (k.z * k.y) + s * -k.x - 0 = (1 - c) * (k.y * k.z) + s * (-k.x) by ring]
    exact bound_entry _ _ _ _ ha0 ha hs0 dyz hnx
  · rw [show c * 0 + (1 - c) * (k.x * k.z) + s * -k.y - 0 = (1 - c) * (k.x * k.z) + s * (-k.y) by ring]
    exact bound_entry _ _ _ _ ha0 ha hs0 dxz hny
  · rw [show c * 0 + (1 - c) * (k.y * k.z) + s * k.x - 0 = (1 - c) * (k.y * k.z) + s * k.x by ring]
    exact bound_entry _ _ _ _ ha0 ha hs0 dyz hx
  · rw [show c * 1 + (1 - c) * (k.z * k.z) + s * 0 - 1 = (1 - c) * (k.z * k.z - 1) + s * 0 by ring]
    exact bound_entry _ _ _ _ ha0 ha hs0 dzz h0

/-- the snap branch with `c > 0` on a matrix whose antisymmetric part is `2 s [k]×` and whose trace is `1 + 2c` -/
theorem inv_core_zero (thr : ℝ) (p : M3 ℝ) (s c : ℝ) (k : V3 ℝ)
    (e1 : p.r2.y - p.r1.z = 2 * s * k.x) (e2 : p.r0.z - p.r2.x = 2 * s * k.y) (e3 : p.r1.x - p.r0.y = 2 * s * k.z)
    (htr : p.r0.x + p.r1.y + p.r2.z = 1 + 2 * c) (hk : k.dot k = 1) (hs : 0 ≤ s) (hc0 : 0 < c) (hc2 : c ≤ 1)
    (hthr : s < thr) :
    (rodriguesInverseCore thr p).w = V3.zero := by
  rw [V3.dot_def] at hk
  have hnorm : V3.norm (⟨2 * s * k.x, 2 * s * k.y, 2 * s * k.z⟩ : V3 ℝ) * PW.Sqrt.sqrt (Rod.rodQuarter : ℝ) = s := by
    rw [sqrt_quarter, norm_def, V3.dot_def]
    simp only
    rw [show 2 * s * k.x * (2 * s * k.x) + 2 * s * k.y * (2 * s * k.y) + 2 * s * k.z * (2 * s * k.z) = (2 * s) * (2 * s) by
      linear_combination (4 * s * s) * hk]
    rw [Real.sqrt_mul_self (by positivity)]
    ring
  have hc : Rod.clip ((p.r0.x + p.r1.y + p.r2.z - 1) * Rod.rodHalf) (-1) 1 = c := by
    rw [htr, rodHalf_eq, show (1 + 2 * c - 1) * (1 / 2) = c by ring]
    exact clip_mem c (by linarith) hc2
  unfold rodriguesInverseCore
  simp only [e1, e2, e3, hnorm, hc, if_pos hthr, if_pos hc0]

/-! ### the near-π half of the snap branch -/

/-- the snap branch with `c ≤ 0` on a matrix whose antisymmetric part is `2 s [k]×` and whose trace is `1 + 2c`:
    the recovered axis scaled to length `θ = arccos c` -/
theorem inv_core_near_pi (thr : ℝ) (p : M3 ℝ) (s c θ : ℝ) (k : V3 ℝ)
    (e1 : p.r2.y - p.r1.z = 2 * s * k.x) (e2 : p.r0.z - p.r2.x = 2 * s * k.y) (e3 : p.r1.x - p.r0.y = 2 * s * k.z)
    (htr : p.r0.x + p.r1.y + p.r2.z = 1 + 2 * c) (hk : k.dot k = 1) (hs : 0 ≤ s) (hc1 : -1 ≤ c) (hc0 : c ≤ 0)
    (hθ : Real.arccos c = θ) (hthr : s < thr) :
    (rodriguesInverseCore thr p).w = V3.smul (θ / (halfTurnAxis p).norm) (halfTurnAxis p) := by
  rw [V3.dot_def] at hk
  have hnorm : V3.norm (⟨2 * s * k.x, 2 * s * k.y, 2 * s * k.z⟩ : V3 ℝ) * PW.Sqrt.sqrt (Rod.rodQuarter : ℝ) = s := by
    rw [sqrt_quarter, norm_def, V3.dot_def]
    simp only
    rw [show 2 * s * k.x * (2 * s * k.x) + 2 * s * k.y * (2 * s * k.y) + 2 * s * k.z * (2 * s * k.z) = (2 * s) * (2 * s) by
      linear_combination (4 * s * s) * hk]
    rw [Real.sqrt_mul_self (by positivity)]
    ring
  have hc : Rod.clip ((p.r0.x + p.r1.y + p.r2.z - 1) * Rod.rodHalf) (-1) 1 = c := by
    rw [htr, rodHalf_eq, show (1 + 2 * c - 1) * (1 / 2) = c by ring]
    exact clip_mem c hc1 (by linarith)
  unfold rodriguesInverseCore
  simp only [e1, e2, e3, hnorm, hc, if_pos hthr, if_neg (not_lt.mpr hc0), acos_eq, hθ]

/-- … and its Jacobian is the all-zero 9×3 array -/
theorem inv_core_near_pi_jac (thr : ℝ) (p : M3 ℝ) (s c : ℝ) (k : V3 ℝ)
    (e1 : p.r2.y - p.r1.z = 2 * s * k.x) (e2 : p.r0.z - p.r2.x = 2 * s * k.y) (e3 : p.r1.x - p.r0.y = 2 * s * k.z)
    (htr : p.r0.x + p.r1.y + p.r2.z = 1 + 2 * c) (hk : k.dot k = 1) (hs : 0 ≤ s) (hc1 : -1 ≤ c) (hc0 : c ≤ 0)
    (hthr : s < thr) :
    (rodriguesInverseCore thr p).jac = zeroJac := by
  rw [V3.dot_def] at hk
  have hnorm : V3.norm (⟨2 * s * k.x, 2 * s * k.y, 2 * s * k.z⟩ : V3 ℝ) * PW.Sqrt.sqrt (Rod.rodQuarter : ℝ) = s := by
    rw [sqrt_quarter, norm_def, V3.dot_def]
    simp only
    rw [show 2 * s * k.x * (2 * s * k.x) + 2 * s * k.y * (2 * s * k.y) + 2 * s * k.z * (2 * s * k.z) = (2 * s) * (2 * s) by
      linear_combination (4 * s * s) * hk]
    rw [Real.sqrt_mul_self (by positivity)]
    ring
  have hc : Rod.clip ((p.r0.x + p.r1.y + p.r2.z - 1) * Rod.rodHalf) (-1) 1 = c := by
    rw [htr, rodHalf_eq, show (1 + 2 * c - 1) * (1 / 2) = c by ring]
    exact clip_mem c hc1 (by linarith)
  unfold rodriguesInverseCore
  simp only [e1, e2, e3, hnorm, hc, if_pos hthr, if_neg (not_lt.mpr hc0)]

theorem frob_zero (m : M3 ℝ) (b : Nat) : frob m ((zeroJac : J3 ℝ).get b) = 0 := by
  have h : (zeroJac : J3 ℝ).get b = m3Zero := by
    unfold J3.get zeroJac; split <;> rfl
  rw [h]
  simp [frob, m3Zero, V3.dot_def, V3.zero]

theorem clip0_eq_zero_iff (u : ℝ) : clip0 u = 0 ↔ u ≤ 0 := by
  unfold clip0
  split_ifs with h
  · exact ⟨fun _ => h.le, fun _ => rfl⟩
  · exact ⟨fun h' => h'.le, fun h' => le_antisymm h' (not_lt.mp h)⟩

/-- the recovered axis is the zero vector exactly when every diagonal entry is `≤ −1` -/
theorem halfTurnAxis_norm_zero_iff (p : M3 ℝ) :
    (halfTurnAxis p).norm = 0 ↔ p.r0.x ≤ -1 ∧ p.r1.y ≤ -1 ∧ p.r2.z ≤ -1 := by
  obtain ⟨q0, q1, q2⟩ := halfTurnAxis_sq p
  have g0 := clip0_ge ((p.r0.x + 1) * (1 / 2))
  have g1 := clip0_ge ((p.r1.y + 1) * (1 / 2))
  have g2 := clip0_ge ((p.r2.z + 1) * (1 / 2))
  rw [norm_def, Real.sqrt_eq_zero', V3.dot_def, q0, q1, q2]
  have z0 := clip0_eq_zero_iff ((p.r0.x + 1) * (1 / 2))
  have z1 := clip0_eq_zero_iff ((p.r1.y + 1) * (1 / 2))
  have z2 := clip0_eq_zero_iff ((p.r2.z + 1) * (1 / 2))
  constructor
  · intro h
    exact ⟨by have := z0.mp (by linarith); linarith, by have := z1.mp (by linarith); linarith,
      by have := z2.mp (by linarith); linarith⟩
  · rintro ⟨h0, h1, h2⟩
    rw [z0.mpr (by linarith), z1.mpr (by linarith), z2.mpr (by linarith)]
    norm_num

/-- a recovered component `v` with `v² = a + (1−a)k²` and the sign of `σ·k` is within `√a` of `σ·k` -/
theorem component_close (a q k v σ : ℝ) (ha0 : 0 ≤ a) (ha1 : a ≤ 1) (hq0 : 0 ≤ q) (hq : q * q = a)
    (hk1 : k * k ≤ 1) (hv : v * v = a + (1 - a) * (k * k)) (hσ : σ = 1 ∨ σ = -1) (hsgn : 0 ≤ σ * v * k) :
    |σ * v - k| ≤ q := by
  have hσ2 : σ * σ = 1 := by rcases hσ with h | h <;> rw [h] <;> norm_num
  set r := σ * v with hr
  have hr2 : r * r = a + (1 - a) * (k * k) := by
    rw [hr, ← hv]; linear_combination (v * v) * hσ2
  have hge : k * k ≤ r * r := by rw [hr2]; nlinarith
  -- r k ≥ k²
  have hrk : k * k ≤ r * k := by
    by_contra h
    have h := not_le.mp h
    have := mul_self_lt_mul_self hsgn h
    nlinarith [mul_self_nonneg k]
  apply abs_le_of_sq_le_sq _ hq0
  nlinarith [mul_self_nonneg k]

/-- `|x| + |y| + 2|z| ≤ √6 < 2.45` on the unit sphere -/
theorem weighted_abs_sum (x y z : ℝ) (h : x * x + y * y + z * z = 1) : |x| + |y| + 2 * |z| ≤ 49 / 20 := by
  have hx := abs_mul_abs_self x
  have hy := abs_mul_abs_self y
  have hz := abs_mul_abs_self z
  have h6 : (|x| + |y| + 2 * |z|) * (|x| + |y| + 2 * |z|) ≤ 6 := by
    nlinarith [mul_self_nonneg (|x| - |y|), mul_self_nonneg (2 * |x| - |z|), mul_self_nonneg (2 * |y| - |z|)]
  by_contra hc
  have hc := not_le.mp hc
  have := mul_self_lt_mul_self (by norm_num : (0 : ℝ) ≤ 49 / 20) hc
  nlinarith

/-- `2√a ≤ s(1+a)` when `s² = 4a(1−a)`, `a ≤ 1/2` -/
theorem two_sqrt_a_le (a s q : ℝ) (ha0 : 0 ≤ a) (ha : a ≤ 1 / 2) (hs0 : 0 ≤ s) (hsa : s * s = 4 * a * (1 - a))
    (hq0 : 0 ≤ q) (hq : q * q = a) : 2 * q ≤ s * (1 + a) := by
  by_contra h
  have h := not_le.mp h
  have h1 := mul_self_lt_mul_self (by positivity : 0 ≤ s * (1 + a)) h
  have h2 : s * (1 + a) * (s * (1 + a)) = 4 * a * (1 - a) * ((1 + a) * (1 + a)) := by
    linear_combination ((1 + a) * (1 + a)) * hsa
  have h3 : 2 * q * (2 * q) = 4 * a := by linear_combination 4 * hq
  rw [h2, h3] at h1
  have h4 : 0 ≤ a * a * (1 - a - a * a) := mul_nonneg (mul_nonneg ha0 ha0) (by nlinarith)
  nlinarith

/-- the product part: `|uᵢuⱼ − kᵢkⱼ| ≤ √a(|kᵢ| + |kⱼ|) + 2a` -/
theorem prod_dev_bound (a q N ki kj vi vj σ : ℝ)
    (ha0 : 0 ≤ a) (hq0 : 0 ≤ q) (hq : q * q = a) (hN0 : 0 < N) (hN : N * N = 1 + 2 * a)
    (hσ2 : σ * σ = 1) (hei : |σ * vi - ki| ≤ q) (hej : |σ * vj - kj| ≤ q) (hkk : |ki| * |kj| ≤ 1 / 2) :
    |(1 / N * vi) * (1 / N * vj) - ki * kj| ≤ q * (|ki| + |kj|) + 2 * a := by
  have hNN : (0 : ℝ) < 1 + 2 * a := by linarith
  have hNne : N ≠ 0 := ne_of_gt hN0
  obtain ⟨ei, hei'⟩ : ∃ ei, ei = σ * vi - ki := ⟨_, rfl⟩
  obtain ⟨ej, hej'⟩ : ∃ ej, ej = σ * vj - kj := ⟨_, rfl⟩
  rw [← hei'] at hei
  rw [← hej'] at hej
  have hvivj : vi * vj = (ki + ei) * (kj + ej) := by
    rw [hei', hej']; linear_combination (-(vi * vj)) * hσ2
  have e0 : (1 / N * vi) * (1 / N * vj) = (vi * vj) / (1 + 2 * a) := by
    rw [← hN]; field_simp
  have e : (1 / N * vi) * (1 / N * vj) - ki * kj =
      (ei * kj + ki * ej + ei * ej - 2 * a * (ki * kj)) / (1 + 2 * a) := by
    rw [e0, hvivj, eq_div_iff (ne_of_gt hNN)]
    field_simp
    ring
  rw [e, abs_div, abs_of_pos hNN, div_le_iff₀ hNN]
  have t1 : |ei * kj| ≤ q * |kj| := by rw [abs_mul]; exact mul_le_mul_of_nonneg_right hei (abs_nonneg _)
  have t2 : |ki * ej| ≤ q * |ki| := by
    rw [abs_mul, mul_comm]; exact mul_le_mul_of_nonneg_right hej (abs_nonneg _)
  have t3 : |ei * ej| ≤ a := by
    rw [abs_mul, ← hq]; exact mul_le_mul hei hej (abs_nonneg _) hq0
  have t4 : |2 * a * (ki * kj)| ≤ a := by
    rw [abs_mul (2 * a) (ki * kj), abs_of_nonneg (by positivity : (0 : ℝ) ≤ 2 * a), abs_mul ki kj]
    have := mul_le_mul_of_nonneg_left hkk (by positivity : (0 : ℝ) ≤ 2 * a)
    linarith
  have hpos : 0 ≤ q * (|ki| + |kj|) + 2 * a := by positivity
  have s1 : |ei * kj + ki * ej + ei * ej - 2 * a * (ki * kj)| ≤
      |ei * kj + ki * ej + ei * ej| + |2 * a * (ki * kj)| := abs_sub _ _
  have s2 : |ei * kj + ki * ej + ei * ej| ≤ |ei * kj + ki * ej| + |ei * ej| := abs_add_le _ _
  have s3 : |ei * kj + ki * ej| ≤ |ei * kj| + |ki * ej| := abs_add_le _ _
  have s4 : q * (|ki| + |kj|) + 2 * a ≤ (q * (|ki| + |kj|) + 2 * a) * (1 + 2 * a) := by
    have := mul_nonneg hpos (by positivity : (0 : ℝ) ≤ 2 * a)
    linarith
  linarith

/-- the axis part: `|u_l − k_l| ≤ 2|k_l| + √a` (whichever of `±k` was recovered) -/
theorem axis_dev_bound (q N kl vl σ : ℝ) (hN1 : 1 ≤ N) (hσ : σ = 1 ∨ σ = -1) (hel : |σ * vl - kl| ≤ q) :
    |1 / N * vl - kl| ≤ 2 * |kl| + q := by
  have hN0 : 0 < N := by linarith
  have hvl : |vl| ≤ |kl| + q := by
    have h1 : |σ * vl| = |vl| := by
      rw [abs_mul]; rcases hσ with h | h <;> rw [h] <;> simp
    rw [← h1]
    have h2 : σ * vl = kl + (σ * vl - kl) := by ring
    rw [h2]
    exact (abs_add_le _ _).trans (by linarith)
  have h1N : |1 / N * vl| ≤ |vl| := by
    rw [abs_mul, abs_of_pos (by positivity : 0 < 1 / N)]
    have : 1 / N ≤ 1 := by rw [div_le_one hN0]; exact hN1
    exact mul_le_of_le_one_left (abs_nonneg _) this
  have h3 : |1 / N * vl - kl| ≤ |1 / N * vl| + |kl| := abs_sub _ _
  linarith

/-- an off-diagonal entry of `rot(u, θ) − rot(k, θ)` for `u = v/N`, `v` the recovered axis:
    `(1−c)(uᵢuⱼ − kᵢkⱼ) ± s(u_l − k_l)` with `c = 2a − 1`, bounded by `2.5·s` for `s ≤ 1/100` -/
theorem offdiag_bound (a s q N ki kj kl vi vj vl σ ε : ℝ)
    (ha0 : 0 ≤ a) (ha : a ≤ 1 / 2) (hs0 : 0 ≤ s) (hs1 : s ≤ 1 / 100) (hsa : s * s = 4 * a * (1 - a))
    (hq0 : 0 ≤ q) (hq : q * q = a) (hN1 : 1 ≤ N) (hN : N * N = 1 + 2 * a)
    (hσ : σ = 1 ∨ σ = -1) (hε : ε = 1 ∨ ε = -1)
    (hei : |σ * vi - ki| ≤ q) (hej : |σ * vj - kj| ≤ q) (hel : |σ * vl - kl| ≤ q)
    (hk : ki * ki + kj * kj + kl * kl = 1) :
    |2 * (1 - a) * ((1 / N * vi) * (1 / N * vj) - ki * kj) + s * ε * (1 / N * vl - kl)| ≤ 5 / 2 * s := by
  have hσ2 : σ * σ = 1 := by rcases hσ with h | h <;> rw [h] <;> norm_num
  have hN0 : 0 < N := by linarith
  have hki : |ki| ≤ 1 := abs_le_one_iff_mul_self_le_one.mpr (by nlinarith [mul_self_nonneg kj, mul_self_nonneg kl])
  have hkj : |kj| ≤ 1 := abs_le_one_iff_mul_self_le_one.mpr (by nlinarith [mul_self_nonneg ki, mul_self_nonneg kl])
  have hkk : |ki| * |kj| ≤ 1 / 2 := by
    nlinarith [mul_self_nonneg (|ki| - |kj|), abs_mul_abs_self ki, abs_mul_abs_self kj, mul_self_nonneg kl]
  have hsum := weighted_abs_sum ki kj kl hk
  have ha2 : 2 * a ≤ s * s := by
    have : 0 ≤ a * (1 - 2 * a) := mul_nonneg ha0 (by linarith)
    linarith
  have h2q : 2 * q ≤ s * (1 + a) := two_sqrt_a_le a s q ha0 ha hs0 hsa hq0 hq
  have hq34 : q ≤ 3 / 4 * s := by
    have : s * a ≤ s * (1 / 2) := mul_le_mul_of_nonneg_left ha hs0
    linarith
  have hD := prod_dev_bound a q N ki kj vi vj σ ha0 hq0 hq hN0 hN hσ2 hei hej hkk
  have hL := axis_dev_bound q N kl vl σ hN1 hσ hel
  have hε1 : |ε| = 1 := by rcases hε with h | h <;> rw [h] <;> simp
  have T1 : |2 * (1 - a) * ((1 / N * vi) * (1 / N * vj) - ki * kj)| ≤ 2 * (q * (|ki| + |kj|) + 2 * a) := by
    rw [abs_mul, abs_of_nonneg (by linarith : (0 : ℝ) ≤ 2 * (1 - a))]
    have : 2 * (1 - a) ≤ 2 := by linarith
    exact mul_le_mul this hD (abs_nonneg _) (by norm_num)
  have T2 : |s * ε * (1 / N * vl - kl)| ≤ s * (2 * |kl| + q) := by
    rw [abs_mul, abs_mul, hε1, mul_one, abs_of_nonneg hs0]
    exact mul_le_mul_of_nonneg_left hL hs0
  have hkij : 0 ≤ |ki| + |kj| := by positivity
  have hkij2 : |ki| + |kj| ≤ 2 := by linarith
  have u1 := mul_le_mul_of_nonneg_right h2q hkij
  have u2 := mul_le_mul_of_nonneg_left hq34 hs0
  have u3 := mul_le_mul_of_nonneg_left hsum hs0
  have u4 := mul_le_mul_of_nonneg_left hkij2 (mul_nonneg hs0 ha0)
  have u5 : s * a ≤ s * (s * s / 2) := mul_le_mul_of_nonneg_left (by linarith) hs0
  have u6 : s * s ≤ s * (1 / 100) := mul_le_mul_of_nonneg_left hs1 hs0
  have u7 : s * (s * s) ≤ s * (s * (1 / 100)) := mul_le_mul_of_nonneg_left u6 hs0
  have u8 := (abs_add_le (2 * (1 - a) * ((1 / N * vi) * (1 / N * vj) - ki * kj)) (s * ε * (1 / N * vl - kl)))
  nlinarith

/-- a diagonal entry of `rot(u, θ) − rot(k, θ)`: `(1−c)(uᵢ² − kᵢ²)`, of order `s²` -/
theorem diag_bound (a s N k v : ℝ)
    (ha0 : 0 ≤ a) (ha : a ≤ 1 / 2) (hs0 : 0 ≤ s) (hs1 : s ≤ 1 / 100) (hsa : s * s = 4 * a * (1 - a))
    (hN1 : 1 ≤ N) (hN : N * N = 1 + 2 * a) (hk1 : k * k ≤ 1) (hv : v * v = a + (1 - a) * (k * k)) :
    |2 * (1 - a) * ((1 / N * v) * (1 / N * v) - k * k)| ≤ 5 / 2 * s := by
  have hN0 : 0 < N := by linarith
  have hNN : (0 : ℝ) < 1 + 2 * a := by linarith
  have ha2 : 2 * a ≤ s * s := by nlinarith
  have e : (1 / N * v) * (1 / N * v) - k * k = a * (1 - 3 * (k * k)) / (1 + 2 * a) := by
    have hNne : N ≠ 0 := ne_of_gt hN0
    have e0 : (1 / N * v) * (1 / N * v) = (v * v) / (1 + 2 * a) := by
      rw [← hN]; field_simp
    rw [e0, hv, eq_div_iff (ne_of_gt hNN)]
    field_simp
    ring
  have hD : |(1 / N * v) * (1 / N * v) - k * k| ≤ 2 * a := by
    rw [e, abs_div, abs_of_pos hNN, div_le_iff₀ hNN, abs_mul, abs_of_nonneg ha0]
    have : |1 - 3 * (k * k)| ≤ 2 := abs_le.mpr ⟨by nlinarith [mul_self_nonneg k], by nlinarith [mul_self_nonneg k]⟩
    nlinarith
  rw [abs_mul, abs_of_nonneg (by linarith : (0 : ℝ) ≤ 2 * (1 - a))]
  have : 2 * (1 - a) * |(1 / N * v) * (1 / N * v) - k * k| ≤ 2 * (2 * a) :=
    mul_le_mul (by linarith) hD (abs_nonneg _) (by norm_num)
  nlinarith

/-- `rot(v/‖v‖, θ)` is within `2.5·sin θ` of `rot(k, θ)`, entrywise, when `v` has the magnitudes the half-turn branch
    recovers from the diagonal (`vᵢ² = a + (1−a)kᵢ²`, `a = (1 + cos θ)/2`) and the signs of `k` or of `−k`
    (weakly: a zero component of `k` puts no condition on that of `v`) -/
theorem near_pi_entries (c s σ : ℝ) (k v : V3 ℝ) (hk : k.dot k = 1) (hcs : c * c + s * s = 1)
    (hc1 : -1 ≤ c) (hc0 : c ≤ 0) (hs0 : 0 ≤ s) (hs1 : s ≤ 1 / 100)
    (hvx : v.x * v.x = (1 + c) / 2 + (1 - (1 + c) / 2) * (k.x * k.x))
    (hvy : v.y * v.y = (1 + c) / 2 + (1 - (1 + c) / 2) * (k.y * k.y))
    (hvz : v.z * v.z = (1 + c) / 2 + (1 - (1 + c) / 2) * (k.z * k.z))
    (hσ : σ = 1 ∨ σ = -1) (hsx : 0 ≤ σ * v.x * k.x) (hsy : 0 ≤ σ * v.y * k.y) (hsz : 0 ≤ σ * v.z * k.z) :
    entriesWithin (rodFormula c s (V3.smul (1 / v.norm) v)) (rodFormula c s k) (5 / 2 * s) := by
  obtain ⟨a, ha⟩ : ∃ a, c = 2 * a - 1 := ⟨(1 + c) / 2, by ring⟩
  subst ha
  rw [V3.dot_def] at hk
  have hvx' : v.x * v.x = a + (1 - a) * (k.x * k.x) := by rw [hvx]; ring
  have hvy' : v.y * v.y = a + (1 - a) * (k.y * k.y) := by rw [hvy]; ring
  have hvz' : v.z * v.z = a + (1 - a) * (k.z * k.z) := by rw [hvz]; ring
  have ha0 : 0 ≤ a := by linarith
  have ha : a ≤ 1 / 2 := by linarith
  have ha1 : a ≤ 1 := by linarith
  have hsa : s * s = 4 * a * (1 - a) := by linear_combination hcs
  have hq0 : 0 ≤ Real.sqrt a := Real.sqrt_nonneg a
  have hq : Real.sqrt a * Real.sqrt a = a := Real.mul_self_sqrt ha0
  have hN : v.norm * v.norm = 1 + 2 * a := by
    rw [norm_mul_self, V3.dot_def]
    linear_combination hvx' + hvy' + hvz' + (1 - a) * hk
  have hN1 : 1 ≤ v.norm := by
    by_contra h
    have h := not_le.mp h
    nlinarith [norm_nonneg v]
  have hkx : k.x * k.x ≤ 1 := by nlinarith [mul_self_nonneg k.y, mul_self_nonneg k.z]
  have hky : k.y * k.y ≤ 1 := by nlinarith [mul_self_nonneg k.x, mul_self_nonneg k.z]
  have hkz : k.z * k.z ≤ 1 := by nlinarith [mul_self_nonneg k.x, mul_self_nonneg k.y]
  have cx := component_close a _ k.x v.x σ ha0 ha1 hq0 hq hkx hvx' hσ hsx
  have cy := component_close a _ k.y v.y σ ha0 ha1 hq0 hq hky hvy' hσ hsy
  have cz := component_close a _ k.z v.z σ ha0 ha1 hq0 hq hkz hvz' hσ hsz
  have p1 : (1 : ℝ) = 1 ∨ (1 : ℝ) = -1 := Or.inl rfl
  have m1 : (-1 : ℝ) = 1 ∨ (-1 : ℝ) = -1 := Or.inr rfl
  unfold entriesWithin
  refine ⟨?_, ?_, ?_, ?_, ?_, ?_, ?_, ?_, ?_⟩ <;> rod_unfold
  · have h := diag_bound a s v.norm k.x v.x ha0 ha hs0 hs1 hsa hN1 hN hkx hvx'
    convert h using 2; ring
  · have h := offdiag_bound a s _ v.norm k.y k.x k.z v.y v.x v.z σ (-1) ha0 ha hs0 hs1 hsa hq0 hq hN1 hN hσ m1
      cy cx cz (by linarith)
    convert h using 2; ring
  · have h := offdiag_bound a s _ v.norm k.z k.x k.y v.z v.x v.y σ 1 ha0 ha hs0 hs1 hsa hq0 hq hN1 hN hσ p1
      cz cx cy (by linarith)
    convert h using 2; ring
  · have h := offdiag_bound a s _ v.norm k.x k.y k.z v.x v.y v.z σ 1 ha0 ha hs0 hs1 hsa hq0 hq hN1 hN hσ p1
      cx cy cz (by linarith)
    convert h using 2; ring
  · have h := diag_bound a s v.norm k.y v.y ha0 ha hs0 hs1 hsa hN1 hN hky hvy'
    convert h using 2; ring
  · have h := offdiag_bound a s _ v.norm k.z k.y k.x v.z v.y v.x σ (-1) ha0 ha hs0 hs1 hsa hq0 hq hN1 hN hσ m1
      cz cy cx (by linarith)
    convert h using 2; ring
  · have h := offdiag_bound a s _ v.norm k.x k.z k.y v.x v.z v.y σ (-1) ha0 ha hs0 hs1 hsa hq0 hq hN1 hN hσ m1
      cx cz cy (by linarith)
    convert h using 2; ring
  · have h := offdiag_bound a s _ v.norm k.y k.z k.x v.y v.z v.x σ 1 ha0 ha hs0 hs1 hsa hq0 hq hN1 hN hσ p1
      cy cz cx (by linarith)
    convert h using 2; ring
  · have h := diag_bound a s v.norm k.z v.z ha0 ha hs0 hs1 hsa hN1 hN hkz hvz'
    convert h using 2; ring

/-- the diagonal of `rot(k, θ)`: `(R_ii + 1)/2 = a + (1−a)kᵢ²` with `a = (1 + cos θ)/2`, which is not negative -/
theorem formula_diag (c s : ℝ) (k : V3 ℝ) (hk : k.dot k = 1) (hc1 : -1 ≤ c) (hc2 : c ≤ 1) :
    clip0 (((rodFormula c s k).r0.x + 1) * (1 / 2)) = (1 + c) / 2 + (1 - (1 + c) / 2) * (k.x * k.x) ∧
    clip0 (((rodFormula c s k).r1.y + 1) * (1 / 2)) = (1 + c) / 2 + (1 - (1 + c) / 2) * (k.y * k.y) ∧
    clip0 (((rodFormula c s k).r2.z + 1) * (1 / 2)) = (1 + c) / 2 + (1 - (1 + c) / 2) * (k.z * k.z) := by
  have h1 : 0 ≤ (1 + c) / 2 := by linarith
  have h2 : 0 ≤ 1 - (1 + c) / 2 := by linarith
  refine ⟨?_, ?_, ?_⟩
  · rw [show ((rodFormula c s k).r0.x + 1) * (1 / 2) = (1 + c) / 2 + (1 - (1 + c) / 2) * (k.x * k.x) by
      rod_unfold; ring]
    exact clip0_nonneg _ (add_nonneg h1 (mul_nonneg h2 (mul_self_nonneg _)))
  · rw [show ((rodFormula c s k).r1.y + 1) * (1 / 2) = (1 + c) / 2 + (1 - (1 + c) / 2) * (k.y * k.y) by
      rod_unfold; ring]
    exact clip0_nonneg _ (add_nonneg h1 (mul_nonneg h2 (mul_self_nonneg _)))
  · rw [show ((rodFormula c s k).r2.z + 1) * (1 / 2) = (1 + c) / 2 + (1 - (1 + c) / 2) * (k.z * k.z) by
      rod_unfold; ring]
    exact clip0_nonneg _ (add_nonneg h1 (mul_nonneg h2 (mul_self_nonneg _)))

end C10

end PW
