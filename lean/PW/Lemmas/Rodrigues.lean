/-
  PW.Lemmas.Rodrigues — helper lemmas for C10 (no property statements here): component simp lemmas for the
  3×3 matrix operations, the real-number instances of the operation classes, square-root / clip facts.
-/
import PW.Model.Rodrigues
import PW.Lemmas.Vec
import Mathlib.Tactic.Ring
import Mathlib.Tactic.LinearCombination
import Mathlib.Tactic.Linarith
import Mathlib.Tactic.Positivity
import Mathlib.Tactic.FieldSimp
import Mathlib.Analysis.Real.Sqrt
import Mathlib.Analysis.SpecialFunctions.Trigonometric.Inverse
import Mathlib.Analysis.SpecialFunctions.Trigonometric.Bounds
import Mathlib.Analysis.Calculus.Deriv.Basic

set_option linter.unusedSectionVars false

namespace PW

namespace M3
variable {K : Type} [Add K] [Sub K] [Mul K] [Div K] [Neg K] [OfNat K 0] [OfNat K 1]

theorem mul_def (a b : M3 K) : a.mul b =
  ⟨⟨a.r0.dot b.col0, a.r0.dot b.col1, a.r0.dot b.col2⟩,
   ⟨a.r1.dot b.col0, a.r1.dot b.col1, a.r1.dot b.col2⟩,
   ⟨a.r2.dot b.col0, a.r2.dot b.col1, a.r2.dot b.col2⟩⟩ := rfl

end M3

/-- the simp set that unfolds every 3×3 operation of the model down to components -/
macro "rod_unfold" : tactic => `(tactic|
  simp only [rodFormula, Rod.skew, Rod.outer, M3.add, M3.smul, M3.one, M3.mul, M3.transpose, M3.col0, M3.col1,
    M3.col2, M3.mulVec, M3.det, V3.dot_def, V3.add_x, V3.add_y, V3.add_z, V3.smul_x, V3.smul_y, V3.smul_z,
    V3.cross_x, V3.cross_y, V3.cross_z, V3.sub_x, V3.sub_y, V3.sub_z, V3.neg_x, V3.neg_y, V3.neg_z])


section tables
variable {K : Type} [Field K]
open Rod

theorem drrt_forms (k : V3 K) :
    drrt k 0 = ⟨⟨k.x + k.x, k.y, k.z⟩, ⟨k.y, 0, 0⟩, ⟨k.z, 0, 0⟩⟩ ∧
    drrt k 1 = ⟨⟨0, k.x, 0⟩, ⟨k.x, k.y + k.y, k.z⟩, ⟨0, k.z, 0⟩⟩ ∧
    drrt k 2 = ⟨⟨0, 0, k.x⟩, ⟨0, 0, k.y⟩, ⟨k.x, k.y, k.z + k.z⟩⟩ := ⟨rfl, rfl, rfl⟩

theorem drx_forms :
    (drx 0 : M3 K) = ⟨⟨0, 0, 0⟩, ⟨0, 0, -1⟩, ⟨0, 1, 0⟩⟩ ∧
    (drx 1 : M3 K) = ⟨⟨0, 0, 1⟩, ⟨0, 0, 0⟩, ⟨-1, 0, 0⟩⟩ ∧
    (drx 2 : M3 K) = ⟨⟨0, -1, 0⟩, ⟨1, 0, 0⟩, ⟨0, 0, 0⟩⟩ := ⟨rfl, rfl, rfl⟩

theorem dvardR_forms :
    (dvardRBlock 0 : M3 K) = ⟨⟨0, 0, 0⟩, ⟨0, 0, 1⟩, ⟨0, -1, 0⟩⟩ ∧
    (dvardRBlock 1 : M3 K) = ⟨⟨0, 0, -1⟩, ⟨0, 0, 0⟩, ⟨1, 0, 0⟩⟩ ∧
    (dvardRBlock 2 : M3 K) = ⟨⟨0, 1, 0⟩, ⟨-1, 0, 0⟩, ⟨0, 0, 0⟩⟩ := ⟨rfl, rfl, rfl⟩

theorem smallJacFwd_form :
    (smallJacFwd : J3 K) = ⟨⟨⟨0, 0, 0⟩, ⟨0, 0, -1⟩, ⟨0, 1, 0⟩⟩, ⟨⟨0, 0, 1⟩, ⟨0, 0, 0⟩, ⟨-1, 0, 0⟩⟩,
      ⟨⟨0, -1, 0⟩, ⟨1, 0, 0⟩, ⟨0, 0, 0⟩⟩⟩ := rfl

end tables

namespace C10

noncomputable instance : PW.Sqrt ℝ := ⟨Real.sqrt⟩
noncomputable instance : PW.Trig ℝ := ⟨Real.sin, Real.cos, Real.arccos⟩

theorem sqrt_eq (x : ℝ) : PW.Sqrt.sqrt x = Real.sqrt x := rfl
theorem sin_eq (x : ℝ) : PW.Trig.sin x = Real.sin x := rfl
theorem cos_eq (x : ℝ) : PW.Trig.cos x = Real.cos x := rfl
theorem acos_eq (x : ℝ) : PW.Trig.acos x = Real.arccos x := rfl

theorem norm_def (r : V3 ℝ) : r.norm = Real.sqrt (r.dot r) := rfl

theorem dot_self_nonneg (r : V3 ℝ) : 0 ≤ r.dot r := by
  rw [V3.dot_def]; nlinarith [mul_self_nonneg r.x, mul_self_nonneg r.y, mul_self_nonneg r.z]

theorem norm_nonneg (r : V3 ℝ) : 0 ≤ r.norm := by rw [norm_def]; exact Real.sqrt_nonneg _

theorem norm_mul_self (r : V3 ℝ) : r.norm * r.norm = r.dot r := by
  rw [norm_def]; exact Real.mul_self_sqrt (dot_self_nonneg r)

/-- `r / ‖r‖` is a unit vector -/
theorem unit_normalized (r : V3 ℝ) (h : 0 < r.norm) :
    (V3.smul (1 / r.norm) r).dot (V3.smul (1 / r.norm) r) = 1 := by
  have hn := norm_mul_self r
  rw [V3.dot_def] at hn ⊢
  simp only [V3.smul_x, V3.smul_y, V3.smul_z]
  have h0 : r.norm ≠ 0 := ne_of_gt h
  field_simp
  nlinarith [hn]

theorem norm_zero : (V3.zero : V3 ℝ).norm = 0 := by
  rw [norm_def, V3.dot_def]; simp

theorem norm_smul_unit (t : ℝ) (k : V3 ℝ) (ht : 0 ≤ t) (hk : k.dot k = 1) : (V3.smul t k).norm = t := by
  rw [norm_def, V3.dot_def]
  rw [V3.dot_def] at hk
  simp only [V3.smul_x, V3.smul_y, V3.smul_z]
  rw [show t * k.x * (t * k.x) + t * k.y * (t * k.y) + t * k.z * (t * k.z) = t * t by
    linear_combination (t * t) * hk]
  exact Real.sqrt_mul_self ht

theorem smul_norm_normalized (r : V3 ℝ) (h : 0 < r.norm) : V3.smul r.norm (V3.smul (1 / r.norm) r) = r := by
  have h0 : r.norm ≠ 0 := ne_of_gt h
  ext <;> simp only [V3.smul_x, V3.smul_y, V3.smul_z] <;> field_simp

theorem mulVec_smul (m : M3 ℝ) (a : ℝ) (v : V3 ℝ) : m.mulVec (V3.smul a v) = V3.smul a (m.mulVec v) := by
  ext <;> simp only [M3.mulVec, V3.dot_def, V3.smul_x, V3.smul_y, V3.smul_z] <;> ring

theorem one_mulVec (v : V3 ℝ) : (M3.one : M3 ℝ).mulVec v = v := by
  ext <;> simp only [M3.mulVec, M3.one, V3.dot_def] <;> ring

theorem one_proper : (M3.one : M3 ℝ).transpose.mul M3.one = M3.one ∧ (M3.one : M3 ℝ).mul M3.one.transpose = M3.one ∧
    (M3.one : M3 ℝ).det = 1 := by
  refine ⟨?_, ?_, ?_⟩
  · ext <;> rod_unfold <;> ring
  · ext <;> rod_unfold <;> ring
  · rod_unfold; ring

theorem cos_sin_sq (t : ℝ) : Real.cos t * Real.cos t + Real.sin t * Real.sin t = 1 := by
  have := Real.cos_sq_add_sin_sq t
  nlinarith [this]

open Rod in
theorem rodHalf_eq : (rodHalf : ℝ) = 1 / 2 := by unfold rodHalf; norm_num
open Rod in
theorem rodTwo_eq : (rodTwo : ℝ) = 2 := by unfold rodTwo; norm_num
open Rod in
theorem sqrt_quarter : PW.Sqrt.sqrt (rodQuarter : ℝ) = 1 / 2 := by
  rw [sqrt_eq]; unfold rodQuarter
  rw [show (1 : ℝ) / ((1 + 1) * (1 + 1)) = (1 / 2) * (1 / 2) by norm_num]
  exact Real.sqrt_mul_self (by norm_num)
open Rod in
theorem clip_mem (x : ℝ) (h1 : -1 ≤ x) (h2 : x ≤ 1) : clip x (-1) 1 = x := by
  unfold clip
  simp only [if_neg (not_lt.mpr h1), if_neg (not_lt.mpr h2)]

/-- antisymmetric part and trace of Rodrigues' formula -/
theorem formula_parts (c s : ℝ) (k : V3 ℝ) (hk : k.dot k = 1) :
    (rodFormula c s k).r2.y - (rodFormula c s k).r1.z = 2 * s * k.x ∧
    (rodFormula c s k).r0.z - (rodFormula c s k).r2.x = 2 * s * k.y ∧
    (rodFormula c s k).r1.x - (rodFormula c s k).r0.y = 2 * s * k.z ∧
    (rodFormula c s k).r0.x + (rodFormula c s k).r1.y + (rodFormula c s k).r2.z = 1 + 2 * c := by
  rw [V3.dot_def] at hk
  refine ⟨?_, ?_, ?_, ?_⟩ <;> rod_unfold
  · ring
  · ring
  · ring
  · linear_combination (1 - c) * hk

/-- the main branch of the inverse on any matrix whose antisymmetric part is `2 s [k]×` and whose trace is `1 + 2c` -/
theorem inv_core_of (thr : ℝ) (p : M3 ℝ) (s c θ : ℝ) (k : V3 ℝ)
    (e1 : p.r2.y - p.r1.z = 2 * s * k.x) (e2 : p.r0.z - p.r2.x = 2 * s * k.y) (e3 : p.r1.x - p.r0.y = 2 * s * k.z)
    (htr : p.r0.x + p.r1.y + p.r2.z = 1 + 2 * c) (hk : k.dot k = 1) (hs : 0 < s) (hc1 : -1 ≤ c) (hc2 : c ≤ 1)
    (hθ : Real.arccos c = θ) (hthr : thr ≤ s) :
    (rodriguesInverseCore thr p).w = V3.smul θ k := by
  rw [V3.dot_def] at hk
  have hnorm : V3.norm (⟨2 * s * k.x, 2 * s * k.y, 2 * s * k.z⟩ : V3 ℝ) * PW.Sqrt.sqrt (Rod.rodQuarter : ℝ) = s := by
    rw [sqrt_quarter, norm_def, V3.dot_def]
    simp only
    rw [show 2 * s * k.x * (2 * s * k.x) + 2 * s * k.y * (2 * s * k.y) + 2 * s * k.z * (2 * s * k.z) = (2 * s) * (2 * s) by
      linear_combination (4 * s * s) * hk]
    rw [Real.sqrt_mul_self (by positivity)]
    ring
  have hc : Rod.clip ((p.r0.x + p.r1.y + p.r2.z - 1) * Rod.rodHalf) (-1) 1 = c := by
    rw [htr, rodHalf_eq, show (1 + 2 * c - 1) * (1 / 2) = c by ring]
    exact clip_mem c hc1 hc2
  unfold rodriguesInverseCore
  simp only [e1, e2, e3, hnorm, hc, if_neg (not_lt.mpr hthr), acos_eq, hθ, rodTwo_eq]
  have hs0 : s ≠ 0 := ne_of_gt hs
  ext <;> simp only [V3.smul_x, V3.smul_y, V3.smul_z] <;> field_simp

/-- the Jacobian of the main branch, same hypotheses as `inv_core_of` -/
theorem inv_core_jac_of (thr : ℝ) (p : M3 ℝ) (s c θ : ℝ) (k : V3 ℝ)
    (e1 : p.r2.y - p.r1.z = 2 * s * k.x) (e2 : p.r0.z - p.r2.x = 2 * s * k.y) (e3 : p.r1.x - p.r0.y = 2 * s * k.z)
    (htr : p.r0.x + p.r1.y + p.r2.z = 1 + 2 * c) (hk : k.dot k = 1) (hs : 0 < s) (hc1 : -1 ≤ c) (hc2 : c ≤ 1)
    (hθ : Real.arccos c = θ) (hthr : thr ≤ s) :
    (rodriguesInverseCore thr p).jac =
      ⟨invJacBlock θ (1 / (2 * s)) (1 / 2 * (-(1 / (2 * s)) * c / s) * (-1 / s)) (1 / 2 * (-1 / s)) (2 * s * k.x) 0,
       invJacBlock θ (1 / (2 * s)) (1 / 2 * (-(1 / (2 * s)) * c / s) * (-1 / s)) (1 / 2 * (-1 / s)) (2 * s * k.y) 1,
       invJacBlock θ (1 / (2 * s)) (1 / 2 * (-(1 / (2 * s)) * c / s) * (-1 / s)) (1 / 2 * (-1 / s)) (2 * s * k.z) 2⟩ := by
  rw [V3.dot_def] at hk
  have hnorm : V3.norm (⟨2 * s * k.x, 2 * s * k.y, 2 * s * k.z⟩ : V3 ℝ) * PW.Sqrt.sqrt (Rod.rodQuarter : ℝ) = s := by
    rw [sqrt_quarter, norm_def, V3.dot_def]
    simp only
    rw [show 2 * s * k.x * (2 * s * k.x) + 2 * s * k.y * (2 * s * k.y) + 2 * s * k.z * (2 * s * k.z) = (2 * s) * (2 * s) by
      linear_combination (4 * s * s) * hk]
    rw [Real.sqrt_mul_self (by positivity)]
    ring
  have hc : Rod.clip ((p.r0.x + p.r1.y + p.r2.z - 1) * Rod.rodHalf) (-1) 1 = c := by
    rw [htr, rodHalf_eq, show (1 + 2 * c - 1) * (1 / 2) = c by ring]
    exact clip_mem c hc1 hc2
  unfold rodriguesInverseCore
  simp only [e1, e2, e3, hnorm, hc, if_neg (not_lt.mpr hthr), acos_eq, hθ, rodTwo_eq]
  simp only [rodHalf_eq]

open Rod in
theorem absK_eq (t : ℝ) : absK t = |t| := by
  unfold absK
  split_ifs with h
  · exact (abs_of_neg h).symm
  · exact (abs_of_nonneg (not_lt.mp h)).symm

open Rod in
theorem clip0_nonneg (u : ℝ) (h : 0 ≤ u) : clip0 u = u := by
  unfold clip0
  rw [if_neg (not_lt.mpr h)]

/-- the sign fix-ups of the half-turn branch, as a statement about three reals (all 27 sign patterns) -/
theorem sign_fix (x y z : ℝ) :
    let ry := if 2 * (y * x) < 0 then -|y| else |y|
    let rz := if 2 * (z * x) < 0 then -|z| else |z|
    let rz' := if |x| < |ry| ∧ |x| < |rz| ∧ (decide (0 < 2 * (z * y)) != decide (0 < ry * rz)) then -rz else rz
    (|x| = x ∧ ry = y ∧ rz' = z) ∨ (|x| = -x ∧ ry = -y ∧ rz' = -z) := by
  intro ry rz rz'
  rcases lt_trichotomy x 0 with hx | hx | hx <;> rcases lt_trichotomy y 0 with hy | hy | hy <;>
  rcases lt_trichotomy z 0 with hz | hz | hz <;>
  simp [ry, rz, rz', *, abs_of_neg, abs_of_pos, mul_pos_iff, mul_neg_iff, lt_asymm]

/-- on a matrix with the diagonal and upper triangle of `2kkᵀ − I` the recovered axis is `k` or `−k` -/
theorem halfTurnAxis_of (p : M3 ℝ) (k : V3 ℝ)
    (d0 : p.r0.x = 2 * (k.x * k.x) - 1) (d1 : p.r1.y = 2 * (k.y * k.y) - 1) (d2 : p.r2.z = 2 * (k.z * k.z) - 1)
    (o1 : p.r0.y = 2 * (k.y * k.x)) (o2 : p.r0.z = 2 * (k.z * k.x)) (o3 : p.r1.z = 2 * (k.z * k.y)) :
    halfTurnAxis p = k ∨ halfTurnAxis p = -k := by
  have hsq : ∀ t : ℝ, PW.Sqrt.sqrt (Rod.clip0 ((2 * (t * t) - 1 + 1) * (1 / 2))) = |t| := by
    intro t
    rw [show (2 * (t * t) - 1 + 1) * (1 / 2) = t * t by ring, clip0_nonneg _ (mul_self_nonneg t), sqrt_eq]
    exact Real.sqrt_mul_self_eq_abs t
  unfold halfTurnAxis
  simp only [d0, d1, d2, o1, o2, o3, rodHalf_eq, absK_eq, hsq, abs_abs]
  rcases sign_fix k.x k.y k.z with ⟨h1, h2, h3⟩ | ⟨h1, h2, h3⟩
  · left
    ext
    · exact h1
    · exact h2
    · exact h3
  · right
    ext
    · simpa using h1
    · simpa using h2
    · simpa using h3

theorem norm_smul (a : ℝ) (v : V3 ℝ) : (V3.smul a v).norm = |a| * v.norm := by
  rw [norm_def, norm_def, V3.dot_def, V3.dot_def]
  simp only [V3.smul_x, V3.smul_y, V3.smul_z]
  rw [show a * v.x * (a * v.x) + a * v.y * (a * v.y) + a * v.z * (a * v.z) =
    (a * a) * (v.x * v.x + v.y * v.y + v.z * v.z) by ring]
  rw [Real.sqrt_mul (mul_self_nonneg a), Real.sqrt_mul_self_eq_abs]

theorem norm_mul_right (a x y z : ℝ) :
    (⟨x * a, y * a, z * a⟩ : V3 ℝ).norm = |a| * (⟨x, y, z⟩ : V3 ℝ).norm := by
  rw [← norm_smul]
  congr 1
  ext <;> simp only [V3.smul_x, V3.smul_y, V3.smul_z] <;> ring

theorem norm_neg (k : V3 ℝ) : (-k).norm = k.norm := by
  rw [norm_def, norm_def, V3.dot_def, V3.dot_def]
  simp only [V3.neg_x, V3.neg_y, V3.neg_z]
  congr 1; ring

theorem norm_unit (k : V3 ℝ) (hk : k.dot k = 1) : k.norm = 1 := by
  rw [norm_def, hk, Real.sqrt_one]

/-- the snap branch on a matrix with zero antisymmetric part, trace −1 and recovered axis `±k` -/
theorem inv_core_half (thr : ℝ) (p : M3 ℝ) (k : V3 ℝ)
    (e1 : p.r2.y - p.r1.z = 0) (e2 : p.r0.z - p.r2.x = 0) (e3 : p.r1.x - p.r0.y = 0)
    (htr : p.r0.x + p.r1.y + p.r2.z = -1) (hk : k.dot k = 1) (hthr : 0 < thr)
    (hv : halfTurnAxis p = k ∨ halfTurnAxis p = -k) :
    (rodriguesInverseCore thr p).w = V3.smul Real.pi k ∨ (rodriguesInverseCore thr p).w = V3.smul Real.pi (-k) := by
  have hnorm : V3.norm (⟨0, 0, 0⟩ : V3 ℝ) * PW.Sqrt.sqrt (Rod.rodQuarter : ℝ) = 0 := by
    rw [norm_def, V3.dot_def]; simp
  have hc : Rod.clip ((p.r0.x + p.r1.y + p.r2.z - 1) * Rod.rodHalf) (-1) 1 = -1 := by
    rw [htr, rodHalf_eq, show ((-1 : ℝ) - 1) * (1 / 2) = -1 by norm_num]
    exact clip_mem (-1) le_rfl (by norm_num)
  have hneg : ¬ (0 : ℝ) < -1 := by norm_num
  unfold rodriguesInverseCore
  simp only [e1, e2, e3, hnorm, hc, if_pos hthr, if_neg hneg, acos_eq, Real.arccos_neg_one]
  rcases hv with hv | hv
  · left; rw [hv, norm_unit k hk, div_one]
  · right; rw [hv, norm_neg, norm_unit k hk, div_one]

/-- entries of `2kkᵀ − I = rodFormula (−1) 0 k` -/
theorem half_turn_entries (k : V3 ℝ) (hk : k.dot k = 1) :
    (rodFormula (-1) 0 k).r0.x = 2 * (k.x * k.x) - 1 ∧ (rodFormula (-1) 0 k).r1.y = 2 * (k.y * k.y) - 1 ∧
    (rodFormula (-1) 0 k).r2.z = 2 * (k.z * k.z) - 1 ∧ (rodFormula (-1) 0 k).r0.y = 2 * (k.y * k.x) ∧
    (rodFormula (-1) 0 k).r0.z = 2 * (k.z * k.x) ∧ (rodFormula (-1) 0 k).r1.z = 2 * (k.z * k.y) ∧
    (rodFormula (-1) 0 k).r2.y - (rodFormula (-1) 0 k).r1.z = 0 ∧
    (rodFormula (-1) 0 k).r0.z - (rodFormula (-1) 0 k).r2.x = 0 ∧
    (rodFormula (-1) 0 k).r1.x - (rodFormula (-1) 0 k).r0.y = 0 ∧
    (rodFormula (-1) 0 k).r0.x + (rodFormula (-1) 0 k).r1.y + (rodFormula (-1) 0 k).r2.z = -1 := by
  rw [V3.dot_def] at hk
  refine ⟨?_, ?_, ?_, ?_, ?_, ?_, ?_, ?_, ?_, ?_⟩ <;> rod_unfold <;> first | ring1 | linear_combination 2 * hk

/-- every entry of `a − b` is at most `t` in absolute value -/
def entriesWithin (a b : M3 ℝ) (t : ℝ) : Prop :=
  |a.r0.x - b.r0.x| ≤ t ∧ |a.r0.y - b.r0.y| ≤ t ∧ |a.r0.z - b.r0.z| ≤ t ∧
  |a.r1.x - b.r1.x| ≤ t ∧ |a.r1.y - b.r1.y| ≤ t ∧ |a.r1.z - b.r1.z| ≤ t ∧
  |a.r2.x - b.r2.x| ≤ t ∧ |a.r2.y - b.r2.y| ≤ t ∧ |a.r2.z - b.r2.z| ≤ t

theorem bound_entry (a s t u : ℝ) (ha0 : 0 ≤ a) (ha : a ≤ s * s) (hs0 : 0 ≤ s) (ht : |t| ≤ 1) (hu : |u| ≤ 1) :
    |a * t + s * u| ≤ s + s * s := by
  have h1 : |a * t| ≤ a := by
    rw [abs_mul, abs_of_nonneg ha0]; exact mul_le_of_le_one_right ha0 ht
  have h2 : |s * u| ≤ s := by
    rw [abs_mul, abs_of_nonneg hs0]; exact mul_le_of_le_one_right hs0 hu
  calc |a * t + s * u| ≤ |a * t| + |s * u| := abs_add_le _ _
    _ ≤ a + s := add_le_add h1 h2
    _ ≤ s + s * s := by linarith

/-- a rotation with `c > 0` and small `s ≥ 0` is within `s + s²` of the identity, entrywise -/
theorem near_identity (c s : ℝ) (k : V3 ℝ) (hk : k.dot k = 1) (hcs : c * c + s * s = 1) (hc : 0 < c) (hs0 : 0 ≤ s) :
    entriesWithin (rodFormula c s k) M3.one (s + s * s) := by
  rw [V3.dot_def] at hk
  have ha0 : 0 ≤ 1 - c := by nlinarith
  have ha : 1 - c ≤ s * s := by nlinarith
  have hx : |k.x| ≤ 1 := abs_le.mpr ⟨by nlinarith [sq_nonneg k.y, sq_nonneg k.z, sq_nonneg (k.x + 1)],
    by nlinarith [sq_nonneg k.y, sq_nonneg k.z, sq_nonneg (k.x - 1)]⟩
  have hy : |k.y| ≤ 1 := abs_le.mpr ⟨by nlinarith [sq_nonneg k.x, sq_nonneg k.z, sq_nonneg (k.y + 1)],
    by nlinarith [sq_nonneg k.x, sq_nonneg k.z, sq_nonneg (k.y - 1)]⟩
  have hz : |k.z| ≤ 1 := abs_le.mpr ⟨by nlinarith [sq_nonneg k.x, sq_nonneg k.y, sq_nonneg (k.z + 1)],
    by nlinarith [sq_nonneg k.x, sq_nonneg k.y, sq_nonneg (k.z - 1)]⟩
  have hnx : |(-k.x)| ≤ 1 := by rwa [abs_neg]
  have hny : |(-k.y)| ≤ 1 := by rwa [abs_neg]
  have hnz : |(-k.z)| ≤ 1 := by rwa [abs_neg]
  have h0 : |(0 : ℝ)| ≤ 1 := by norm_num
  have dxx : |k.x * k.x - 1| ≤ 1 := abs_le.mpr ⟨by nlinarith [sq_nonneg k.x], by nlinarith [sq_nonneg k.y, sq_nonneg k.z]⟩
  have dyy : |k.y * k.y - 1| ≤ 1 := abs_le.mpr ⟨by nlinarith [sq_nonneg k.y], by nlinarith [sq_nonneg k.x, sq_nonneg k.z]⟩
  have dzz : |k.z * k.z - 1| ≤ 1 := abs_le.mpr ⟨by nlinarith [sq_nonneg k.z], by nlinarith [sq_nonneg k.x, sq_nonneg k.y]⟩
  have dxy : |k.x * k.y| ≤ 1 := abs_le.mpr ⟨by nlinarith [sq_nonneg (k.x + k.y), sq_nonneg k.z],
    by nlinarith [sq_nonneg (k.x - k.y), sq_nonneg k.z]⟩
  have dxz : |k.x * k.z| ≤ 1 := abs_le.mpr ⟨by nlinarith [sq_nonneg (k.x + k.z), sq_nonneg k.y],
    by nlinarith [sq_nonneg (k.x - k.z), sq_nonneg k.y]⟩
  have dyz : |k.y * k.z| ≤ 1 := abs_le.mpr ⟨by nlinarith [sq_nonneg (k.y + k.z), sq_nonneg k.x],
    by nlinarith [sq_nonneg (k.y - k.z), sq_nonneg k.x]⟩
  unfold entriesWithin
  refine ⟨?_, ?_, ?_, ?_, ?_, ?_, ?_, ?_, ?_⟩ <;> rod_unfold
  · rw [show c * 1 + (1 - c) * (k.x * k.x) + s * 0 - 1 = (1 - c) * (k.x * k.x - 1) + s * 0 by ring]
    exact bound_entry _ _ _ _ ha0 ha hs0 dxx h0
  · rw [show c * 0 + (1 - c) * (k.y * k.x) + s * -k.z - 0 = (1 - c) * (k.x * k.y) + s * (-k.z) by ring]
    exact bound_entry _ _ _ _ ha0 ha hs0 dxy hnz
  · rw [show c * 0 + (1 - c) * (k.z * k.x) + s * k.y - 0 = (1 - c) * (k.x * k.z) + s * k.y by ring]
    exact bound_entry _ _ _ _ ha0 ha hs0 dxz hy
  · rw [show c * 0 + (1 - c) * (k.x * k.y) + s * k.z - 0 = (1 - c) * (k.x * k.y) + s * k.z by ring]
    exact bound_entry _ _ _ _ ha0 ha hs0 dxy hz
  · rw [show c * 1 + (1 - c) * (k.y * k.y) + s * 0 - 1 = (1 - c) * (k.y * k.y - 1) + s * 0 by ring]
    exact bound_entry _ _ _ _ ha0 ha hs0 dyy h0
  · rw [show c * 0 + (1 - c) * (k.z * k.y) + s * -k.x - 0 = (1 - c) * (k.y * k.z) + s * (-k.x) by ring]
    exact bound_entry _ _ _ _ ha0 ha hs0 dyz hnx
  · rw [show c * 0 + (1 - c) * (k.x * k.z) + s * -k.y - 0 = (1 - c) * (k.x * k.z) + s * (-k.y) by ring]
    exact bound_entry _ _ _ _ ha0 ha hs0 dxz hny
  · rw [show c * 0 + (1 - c) * (k.y * k.z) + s * k.x - 0 = (1 - c) * (k.y * k.z) + s * k.x by ring]
    exact bound_entry _ _ _ _ ha0 ha hs0 dyz hx
  · rw [show c * 1 + (1 - c) * (k.z * k.z) + s * 0 - 1 = (1 - c) * (k.z * k.z - 1) + s * 0 by ring]
    exact bound_entry _ _ _ _ ha0 ha hs0 dzz h0

/-- the snap branch with `c > 0` on a matrix whose antisymmetric part is `2 s [k]×` and whose trace is `1 + 2c` -/
theorem inv_core_zero (thr : ℝ) (p : M3 ℝ) (s c : ℝ) (k : V3 ℝ)
    (e1 : p.r2.y - p.r1.z = 2 * s * k.x) (e2 : p.r0.z - p.r2.x = 2 * s * k.y) (e3 : p.r1.x - p.r0.y = 2 * s * k.z)
    (htr : p.r0.x + p.r1.y + p.r2.z = 1 + 2 * c) (hk : k.dot k = 1) (hs : 0 ≤ s) (hc0 : 0 < c) (hc2 : c ≤ 1)
    (hthr : s < thr) :
    (rodriguesInverseCore thr p).w = V3.zero := by
  rw [V3.dot_def] at hk
  have hnorm : V3.norm (⟨2 * s * k.x, 2 * s * k.y, 2 * s * k.z⟩ : V3 ℝ) * PW.Sqrt.sqrt (Rod.rodQuarter : ℝ) = s := by
    rw [sqrt_quarter, norm_def, V3.dot_def]
    simp only
    rw [show 2 * s * k.x * (2 * s * k.x) + 2 * s * k.y * (2 * s * k.y) + 2 * s * k.z * (2 * s * k.z) = (2 * s) * (2 * s) by
      linear_combination (4 * s * s) * hk]
    rw [Real.sqrt_mul_self (by positivity)]
    ring
  have hc : Rod.clip ((p.r0.x + p.r1.y + p.r2.z - 1) * Rod.rodHalf) (-1) 1 = c := by
    rw [htr, rodHalf_eq, show (1 + 2 * c - 1) * (1 / 2) = c by ring]
    exact clip_mem c (by linarith) hc2
  unfold rodriguesInverseCore
  simp only [e1, e2, e3, hnorm, hc, if_pos hthr, if_pos hc0]

end C10

end PW
