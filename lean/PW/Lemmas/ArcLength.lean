/-
  PW.Lemmas.ArcLength — helper lemmas for C08 (no property statements here).
-/
import PW.Model.ArcLength
import PW.Lemmas.Vec
import Mathlib.Tactic.Ring
import Mathlib.Tactic.Linarith
import Mathlib.Tactic.FieldSimp
import Mathlib.Tactic.Positivity
import Mathlib.Algebra.Order.Field.Basic
import Mathlib.Algebra.Order.Floor.Defs
import Mathlib.Algebra.Order.Floor.Ring
import Mathlib.Algebra.BigOperators.Group.List.Basic
import Mathlib.Analysis.Real.Sqrt

set_option linter.unusedSectionVars false
set_option linter.unusedVariables false

namespace PW.ArcLength

/-- the square root of the reals, for the `ℝ` instantiation of the model -/
noncomputable instance instSqrtReal : PW.Sqrt ℝ := ⟨Real.sqrt⟩

/-- `Rounding` of a floor ring (ceil/floor are Mathlib's; `rint` is not used by C08). -/
@[reducible] def fieldRounding {K : Type} [Ring K] [LinearOrder K] [FloorRing K] : Rounding K :=
  ⟨Int.ceil, Int.floor, Int.floor, Int.cast⟩

section Field
variable {K : Type} [Field K] [LinearOrder K] [IsStrictOrderedRing K]

theorem sumK_eq_sum (l : List K) : sumK l = l.sum := by
  induction l with
  | nil => rfl
  | cons x xs ih => simp [sumK, ih]

theorem natK_eq_cast (n : Nat) : (natK n : K) = (n : K) := by
  induction n with
  | zero => simp [natK]
  | succ n ih => simp [natK, ih]

theorem two_eq : (two : K) = 2 := by unfold two; norm_num

/-! ### cumFrom -/

theorem cumFrom_length (c : K) (l : List K) : (cumFrom c l).length = l.length + 1 := by
  induction l generalizing c with
  | nil => rfl
  | cons x xs ih => simp [cumFrom, ih]

theorem cumFrom_getElem? (c : K) (l : List K) (k : Nat) (hk : k ≤ l.length) :
    (cumFrom c l)[k]? = some (c + (l.take k).sum) := by
  induction l generalizing c k with
  | nil =>
    have : k = 0 := by simpa using hk
    subst this; simp [cumFrom]
  | cons x xs ih =>
    cases k with
    | zero => simp [cumFrom]
    | succ k =>
      have hk' : k ≤ xs.length := by simpa using hk
      simp [cumFrom, ih (c + x) k hk', add_assoc]

theorem take_sum_nonneg (l : List K) (h : ∀ x ∈ l, 0 ≤ x) (k : Nat) : 0 ≤ (l.take k).sum :=
  List.sum_nonneg fun x hx => h x (List.mem_of_mem_take hx)

theorem take_sum_mono (l : List K) (h : ∀ x ∈ l, 0 ≤ x) {j k : Nat} (hjk : j ≤ k) :
    (l.take j).sum ≤ (l.take k).sum := by
  obtain ⟨d, rfl⟩ := Nat.exists_eq_add_of_le hjk
  rw [List.take_add, List.sum_append]
  have : 0 ≤ ((l.drop j).take d).sum := List.sum_nonneg fun x hx =>
    h x (List.mem_of_mem_drop (List.mem_of_mem_take hx))
  linarith

theorem take_sum_le_sum (l : List K) (h : ∀ x ∈ l, 0 ≤ x) (k : Nat) : (l.take k).sum ≤ l.sum := by
  have := take_sum_mono l h (j := k) (k := max k l.length) (le_max_left _ _)
  rwa [List.take_of_length_le (le_max_right _ _)] at this

theorem take_succ_sum (l : List K) (i : Nat) (hi : i < l.length) :
    (l.take (i + 1)).sum = (l.take i).sum + l[i] := by
  rw [List.take_succ_eq_append_getElem hi, List.sum_append]; simp

/-- the segment selected by `argmax(cum > d) - 1`: for `c ≤ d < c + Σ l` there is a first index `i` with
    `c + Σ_{<i} ≤ d < c + Σ_{≤i}` and `firstTrue` finds `i + 1`. -/
theorem firstTrue_cumFrom (l : List K) (hl : ∀ x ∈ l, 0 ≤ x) (c d : K) (hc : c ≤ d) (hd : d < c + l.sum) :
    ∃ i, ∃ hi : i < l.length,
      firstTrue ((cumFrom c l).map fun x => decide (x > d)) = some (i + 1) ∧
      c + (l.take i).sum ≤ d ∧ d < c + (l.take (i + 1)).sum := by
  induction l generalizing c with
  | nil => simp at hd; exact absurd hd (not_lt.mpr hc)
  | cons x xs ih =>
    have hx : 0 ≤ x := hl x (by simp)
    have hxs : ∀ y ∈ xs, 0 ≤ y := fun y hy => hl y (by simp [hy])
    by_cases h1 : d < c + x
    · refine ⟨0, by simp, ?_, by simpa using hc, by simpa using h1⟩
      have hnc : ¬ d < c := not_lt.mpr hc
      cases xs with
      | nil => simp [cumFrom, firstTrue, hnc, h1]
      | cons y ys => simp [cumFrom, firstTrue, hnc, h1]
    · have h1' : c + x ≤ d := not_lt.mp h1
      have hd' : d < (c + x) + xs.sum := by simpa [add_assoc] using hd
      obtain ⟨i, hi, hft, hlo, hhi⟩ := ih hxs (c + x) h1' hd'
      refine ⟨i + 1, by simpa using hi, ?_, ?_, ?_⟩
      · have hnc : ¬ d < c := not_lt.mpr hc
        simp only [cumFrom, List.map_cons, gt_iff_lt, hnc, decide_false, firstTrue]
        simp only [gt_iff_lt] at hft
        rw [hft]; rfl
      · simpa [add_assoc] using hlo
      · simpa [add_assoc] using hhi

/-- nothing exceeds `d` when `d` is at least the total -/
theorem firstTrue_cumFrom_none (l : List K) (hl : ∀ x ∈ l, 0 ≤ x) (c d : K) (hd : c + l.sum ≤ d) :
    firstTrue ((cumFrom c l).map fun x => decide (x > d)) = none := by
  induction l generalizing c with
  | nil =>
    have : ¬ d < c := not_lt.mpr (by simpa using hd)
    simp [cumFrom, firstTrue, this]
  | cons x xs ih =>
    have hx : 0 ≤ x := hl x (by simp)
    have hxs : ∀ y ∈ xs, 0 ≤ y := fun y hy => hl y (by simp [hy])
    have hs : 0 ≤ xs.sum := List.sum_nonneg hxs
    have hd' : (c + x) + xs.sum ≤ d := by simpa [add_assoc] using hd
    have hnc : ¬ d < c := not_lt.mpr (by simp at hd; linarith)
    simp only [cumFrom, List.map_cons, gt_iff_lt, hnc, decide_false, firstTrue]
    simp only [gt_iff_lt] at ih
    rw [ih hxs (c + x) hd']; rfl

end Field

/-! ### Python indices -/

theorem pyIdx_natCast_sub_one (n i : Nat) : pyIdx n (((i + 1 : Nat) : Int) - 1) = i := by
  unfold pyIdx
  have : ¬ (((i + 1 : Nat) : Int) - 1 < 0) := by omega
  simp [this]

theorem pyIdx_neg_one (n : Nat) : pyIdx (n + 1) (-1) = n := by
  unfold pyIdx
  simp

theorem pyIdx_zero (n : Nat) : pyIdx n 0 = 0 := by simp [pyIdx]


theorem pyGet_of_getElem? {α : Type} {l : List α} {i : Int} {x d : α}
    (h : l[pyIdx l.length i]? = some x) : pyGet l i d = x := by
  unfold pyGet
  rw [List.getD_eq_getElem?_getD, h]; rfl

/-! ### structure of `Polyline.segments` -/

section Struct
variable {K : Type}

theorem segments_length (p : Polyline K) : p.segments.length = if p.closed then p.v.length else p.v.length - 1 := by
  unfold Polyline.segments
  cases hv : p.v with
  | nil => simp
  | cons a rest => cases p.closed <;> simp

theorem numE_eq (p : Polyline K) : p.numE = if p.closed then p.v.length else p.v.length - 1 := by
  unfold Polyline.numE Polyline.edges edgesFor Polyline.numV
  simp

theorem segments_length_eq_numE (p : Polyline K) : p.segments.length = p.numE := by
  rw [segments_length, numE_eq]

theorem segments_getElem?_fst {p : Polyline K} {i : Nat} {s : V3 K × V3 K}
    (h : p.segments[i]? = some s) : p.v[i]? = some s.1 := by
  unfold Polyline.segments at h
  cases hv : p.v with
  | nil => rw [hv] at h; simp at h
  | cons a rest =>
    rw [hv] at h
    simp only at h
    exact (List.getElem?_zip_eq_some.mp h).1

/-- consecutive segments share a vertex -/
def Connected : List (V3 K × V3 K) → Prop
  | [] => True
  | [_] => True
  | s :: t :: rest => s.2 = t.1 ∧ Connected (t :: rest)

theorem connected_zip (l : List (V3 K)) (a : V3 K) (tl : List (V3 K)) :
    Connected (List.zip (a :: l) (l ++ tl)) := by
  induction l generalizing a with
  | nil => cases tl <;> simp [Connected]
  | cons b l' ih =>
    have := ih b
    simp only [List.cons_append, List.zip_cons_cons]
    cases hz : List.zip (b :: l') (l' ++ tl) with
    | nil => simp [Connected]
    | cons t rest =>
      rw [hz] at this
      refine ⟨?_, this⟩
      cases l' with
      | nil =>
        cases tl with
        | nil => simp at hz
        | cons c tl' => simp at hz; rw [← hz.1]
      | cons c l'' => simp at hz; rw [← hz.1]

theorem segments_connected (p : Polyline K) : Connected p.segments := by
  unfold Polyline.segments
  cases hv : p.v with
  | nil => simp [Connected]
  | cons a rest =>
    simp only
    cases p.closed
    · simpa using connected_zip rest a []
    · simpa using connected_zip rest a [a]

/-- the first segment starts at the first vertex -/
theorem segments_head_fst {p : Polyline K} {s : V3 K × V3 K} (h : p.segments.head? = some s) :
    p.v.head? = some s.1 := by
  have h0 : p.segments[0]? = some s := by simpa [List.head?_eq_getElem?] using h
  have := segments_getElem?_fst h0
  simpa [List.head?_eq_getElem?] using this

/-- the last segment ends at the last vertex (open) / the first vertex (closed) -/
theorem segments_getLast_snd {p : Polyline K} {s : V3 K × V3 K} (h : p.segments.getLast? = some s) :
    (if p.closed then p.v.head? else p.v.getLast?) = some s.2 := by
  rw [List.getLast?_eq_getElem?] at h
  have hlen := segments_length p
  unfold Polyline.segments at h hlen
  cases hv : p.v with
  | nil => rw [hv] at h; simp at h
  | cons a rest =>
    rw [hv] at h hlen
    simp only at h hlen
    rw [hlen] at h
    have h2 := (List.getElem?_zip_eq_some.mp h).2
    cases hc : p.closed
    · rw [hc] at h2
      simp only [Bool.false_eq_true, if_false, List.length_cons, Nat.add_sub_cancel] at h2 ⊢
      rw [List.getLast?_cons]
      cases rest with
      | nil => simp at h2
      | cons b r' =>
        rw [List.getLast?_eq_getElem?]
        simpa using h2
    · rw [hc] at h2
      simp only [if_true, List.length_cons, Nat.add_sub_cancel] at h2 ⊢
      rw [List.getElem?_append_right (le_refl _)] at h2
      simpa using h2

end Struct


/-! ### linspace, lerp, inserted points (any ordered field) -/

section Subdiv
variable {K : Type} [Field K] [LinearOrder K] [IsStrictOrderedRing K]

theorem linspace01_open (n : Nat) :
    (linspace01 n false : List K) = (List.range n).map fun (k : Nat) => (k : K) / (n : K) := by
  unfold linspace01
  simp only [Bool.false_eq_true, if_false, Bool.false_and]
  apply List.map_congr_left
  intro k _
  rw [natK_eq_cast, natK_eq_cast]; ring

theorem linspace01_closed (n : Nat) (hn : 2 ≤ n) :
    (linspace01 n true : List K) = (List.range n).map fun (k : Nat) => (k : K) / ((n - 1 : Nat) : K) := by
  obtain ⟨m, rfl⟩ : ∃ m, n = m + 1 := ⟨n - 1, by omega⟩
  have hm : (m : K) ≠ 0 := by
    have : 0 < m := by omega
    exact_mod_cast this.ne'
  unfold linspace01
  have h1 : decide (m + 1 > 1) = true := by simp; omega
  simp only [if_true, Bool.true_and, h1, Nat.add_sub_cancel]
  rw [List.range_succ, List.map_append, List.map_append]
  simp only [List.map_cons, List.map_nil]
  rw [List.dropLast_concat]
  congr 1
  · apply List.map_congr_left
    intro k _
    rw [natK_eq_cast, natK_eq_cast]; ring
  · rw [div_self hm]

theorem lerp_x (a b : V3 K) (t : K) : (lerp a b t).x = t * (b.x - a.x) + a.x := rfl
theorem lerp_y (a b : V3 K) (t : K) : (lerp a b t).y = t * (b.y - a.y) + a.y := rfl
theorem lerp_z (a b : V3 K) (t : K) : (lerp a b t).z = t * (b.z - a.z) + a.z := rfl

theorem lerp_zero (a b : V3 K) : lerp a b 0 = a := by ext <;> simp [lerp_x, lerp_y, lerp_z]
theorem lerp_one (a b : V3 K) : lerp a b 1 = b := by ext <;> simp [lerp_x, lerp_y, lerp_z]

/-- `subdivide_segment(a, b, n, endpoint=False)[1:]` are the interior points `a + (k/n)(b - a)`, `k = 1..n-1` -/
theorem open_points_drop_one (a b : V3 K) (n : Nat) :
    ((linspace01 n false : List K).map (lerp a b)).drop 1 =
      (List.range (n - 1)).map fun (k : Nat) => lerp a b (((k + 1 : Nat) : K) / (n : K)) := by
  rw [linspace01_open]
  cases n with
  | zero => simp
  | succ m =>
    rw [List.range_succ_eq_map]
    simp [Function.comp_def]

/-! ### prefix sums of naturals, blocks -/

theorem cumsumNat_getElem? (acc : Nat) (l : List Nat) (i : Nat) (hi : i < l.length) :
    (cumsumNat acc l)[i]? = some (acc + (l.take (i + 1)).sum) := by
  induction l generalizing acc i with
  | nil => simp at hi
  | cons x xs ih =>
    cases i with
    | zero => simp [cumsumNat]
    | succ i =>
      have hi' : i < xs.length := by simpa using hi
      simp [cumsumNat, ih (acc + x) i hi', add_assoc]

theorem cumsumNat_length (acc : Nat) (l : List Nat) : (cumsumNat acc l).length = l.length := by
  induction l generalizing acc with
  | nil => rfl
  | cons x xs ih => simp [cumsumNat, ih]

theorem flatten_block_getElem? {α : Type} (bs : List (List α)) (i k : Nat) (b : List α)
    (hb : bs[i]? = some b) (hk : k < b.length) :
    bs.flatten[((bs.take i).map List.length).sum + k]? = b[k]? := by
  induction bs generalizing i with
  | nil => simp at hb
  | cons c cs ih =>
    cases i with
    | zero =>
      simp at hb; subst hb
      simp [List.getElem?_append_left hk]
    | succ i =>
      simp at hb
      have := ih i hb
      simp only [List.flatten_cons, List.take_succ_cons, List.map_cons, List.sum_cons]
      rw [add_assoc, List.getElem?_append_right (by omega)]
      simpa using this

theorem flatten_length_sum {α : Type} (bs : List (List α)) :
    bs.flatten.length = (bs.map List.length).sum := by
  simp [List.length_flatten]

theorem blocks_take_length_sum {α : Type} (v : List α) (ins : List (List α)) (i : Nat)
    (hv : i ≤ v.length) (hi : i ≤ ins.length) :
    (((List.zipWith (fun a l => a :: l) v ins).take i).map List.length).sum =
      i + ((ins.map List.length).take i).sum := by
  induction i generalizing v ins with
  | zero => simp
  | succ i ih =>
    cases v with
    | nil => simp at hv
    | cons a v' =>
      cases ins with
      | nil => simp at hi
      | cons b ins' =>
        have := ih v' ins' (by simpa using hv) (by simpa using hi)
        simp only [List.zipWith_cons_cons, List.take_succ_cons, List.map_cons, List.sum_cons,
          List.length_cons, this]
        omega

theorem blocks_getElem? {α : Type} (v : List α) (ins : List (List α)) (i : Nat) (a : α) (l : List α)
    (ha : v[i]? = some a) (hl : ins[i]? = some l) :
    (List.zipWith (fun a l => a :: l) v ins)[i]? = some (a :: l) := by
  rw [List.getElem?_zipWith, ha, hl]

/-- position of the original vertices and of the inserted points in `interleave` -/
theorem interleave_getElem? (v : List (V3 K)) (ins : List (List (V3 K))) (i : Nat) (a : V3 K)
    (ha : v[i]? = some a) (hlen : v.length ≤ ins.length + 1) (k : Nat)
    (hk : k < ((ins ++ [[]]).getD i []).length + 1) :
    (interleave v ins)[i + ((ins.map List.length).take i).sum + k]? = (a :: (ins ++ [[]]).getD i [])[k]? := by
  have hi : i < v.length := (List.getElem?_eq_some_iff.mp ha).1
  have hi2 : i < (ins ++ [[]]).length := by simp; omega
  have hl : (ins ++ [[]])[i]? = some ((ins ++ [[]]).getD i []) := by
    rw [List.getD_eq_getElem?_getD, List.getElem?_eq_getElem hi2]; rfl
  have hb := blocks_getElem? v (ins ++ [[]]) i a _ ha hl
  have := flatten_block_getElem? _ i k _ hb (by simpa using hk)
  rw [blocks_take_length_sum v (ins ++ [[]]) i (le_of_lt hi) (le_of_lt hi2)] at this
  unfold interleave
  rw [← this]
  congr 2
  have : i ≤ ins.length := by omega
  rw [List.map_append, List.take_append_of_le_length (by simpa using this)]

theorem interleave_length (v : List (V3 K)) (ins : List (List (V3 K))) (hlen : v.length = ins.length + 1 ∨ v.length = ins.length) :
    (interleave v ins).length = v.length + ((ins.map List.length).take v.length).sum := by
  unfold interleave
  rw [flatten_length_sum]
  have h1 : (List.zipWith (fun a i => a :: i) v (ins ++ [[]])).length = v.length := by
    simp; omega
  have := blocks_take_length_sum v (ins ++ [[]]) v.length (le_refl _) (by simp; omega)
  rw [List.take_of_length_le (le_of_eq h1)] at this
  rw [this]
  congr 1
  rcases hlen with h | h
  · rw [List.take_of_length_le (by simp; omega), List.take_of_length_le (by simp; omega)]
    simp
  · rw [List.map_append, List.take_append_of_le_length (by simp; omega)]

theorem subdividedIndices_getElem? (closed : Bool) (numV : Nat) (ins : List (List (V3 K))) (i : Nat)
    (hi : i < numV) (hlen : ins.length = if closed then numV else numV - 1) :
    (subdividedIndices closed numV ins)[i]? = some (i + ((ins.map List.length).take i).sum) := by
  unfold subdividedIndices
  simp only
  set counts := ins.map List.length with hcounts
  have hcl : counts.length = ins.length := by simp [hcounts]
  set c' := (if closed then counts.dropLast else counts) with hc'
  have hc'len : i ≤ c'.length := by
    rw [hc']; cases closed <;> simp at hlen ⊢ <;> omega
  have hcs := cumsumNat_getElem? 0 (0 :: c') i (by simp; omega)
  rw [List.getElem?_zipWith, List.getElem?_range hi, hcs]
  simp only [List.take_succ_cons, List.sum_cons, zero_add, Option.some.injEq]
  congr 2
  rw [hc']
  cases closed
  · simp
  · simp only [if_true, List.dropLast_eq_take, List.take_take]
    congr 1
    simp at hlen
    omega

end Subdiv

section Edges
variable {K : Type}

theorem pyIdx_lt (n : Nat) (i : Int) (h : -(n : Int) ≤ i ∧ i < n) : pyIdx n i < n := by
  unfold pyIdx; split <;> omega

theorem edges_getD_snd (p : Polyline K) (e : Nat) (he : e < p.numE) :
    (p.edges.getD e (0, 0)).2 = if e + 1 < p.numV then e + 1 else 0 := by
  have hn := numE_eq p
  unfold Polyline.numE at he hn
  unfold Polyline.edges edgesFor at he ⊢
  simp only [List.length_map, List.length_range] at he
  rw [List.getD_eq_getElem?_getD, List.getElem?_map, List.getElem?_range he]
  simp only [Option.map_some, Option.getD_some]
  unfold Polyline.numV at *
  cases hc : p.closed
  · simp [hc] at he ⊢; omega
  · simp [hc] at he ⊢
    split_ifs <;> omega

end Edges

/-! ### insertion before indices (with_insertions as used by with_segments_bisected) -/

section Insert
variable {α : Type}

/-- the points carrying index `t`, in the order given -/
def ptsAt (ins : List (Nat × α)) (t : Nat) : List α := (ins.filter (·.1 == t)).map (·.2)

theorem insertBeforeFrom_nil (ins : List (Nat × α)) (i : Nat) :
    insertBeforeFrom ins i [] = ptsAt ins i := rfl

theorem insertBeforeFrom_cons (ins : List (Nat × α)) (i : Nat) (x : α) (xs : List α) :
    insertBeforeFrom ins i (x :: xs) = ptsAt ins i ++ x :: insertBeforeFrom ins (i + 1) xs := rfl

/-- number of inserted points with index in `[i0, i0 + k]` -/
def cntRange (ins : List (Nat × α)) (i0 k : Nat) : Nat :=
  ((List.range (k + 1)).map fun t => (ptsAt ins (i0 + t)).length).sum

theorem cntRange_zero (ins : List (Nat × α)) (i0 : Nat) : cntRange ins i0 0 = (ptsAt ins i0).length := by
  simp [cntRange]

theorem cntRange_succ' (ins : List (Nat × α)) (i0 k : Nat) :
    cntRange ins i0 (k + 1) = (ptsAt ins i0).length + cntRange ins (i0 + 1) k := by
  unfold cntRange
  rw [List.range_succ_eq_map]
  simp [Function.comp_def, Nat.add_assoc, Nat.add_comm 1]

theorem cntRange_succ (ins : List (Nat × α)) (i0 k : Nat) :
    cntRange ins i0 (k + 1) = cntRange ins i0 k + (ptsAt ins (i0 + (k + 1))).length := by
  unfold cntRange
  rw [List.range_succ (n := k + 1)]
  simp

/-- original element `k` of the list being processed lands after all points with index `≤ i0 + k` -/
theorem insertBeforeFrom_original (ins : List (Nat × α)) (v : List α) (i0 k : Nat) (hk : k < v.length) :
    (insertBeforeFrom ins i0 v)[cntRange ins i0 k + k]? = v[k]? := by
  induction v generalizing i0 k with
  | nil => simp at hk
  | cons x xs ih =>
    rw [insertBeforeFrom_cons]
    cases k with
    | zero =>
      rw [cntRange_zero, List.getElem?_append_right (by omega)]
      simp
    | succ k =>
      have hk' : k < xs.length := by simpa using hk
      rw [cntRange_succ', List.getElem?_append_right (by omega)]
      have e : (ptsAt ins i0).length + cntRange ins (i0 + 1) k + (k + 1) - (ptsAt ins i0).length =
          (cntRange ins (i0 + 1) k + k) + 1 := by omega
      rw [e, List.getElem?_cons_succ, ih (i0 + 1) k hk']
      simp

theorem insertBeforeFrom_length (ins : List (Nat × α)) (v : List α) (i0 : Nat) :
    (insertBeforeFrom ins i0 v).length = v.length + cntRange ins i0 v.length := by
  induction v generalizing i0 with
  | nil => simp [insertBeforeFrom_nil, cntRange_zero]
  | cons x xs ih =>
    rw [insertBeforeFrom_cons, List.length_append, List.length_cons, ih (i0 + 1), List.length_cons,
      cntRange_succ']
    omega

theorem filter_le_succ (l : List Nat) (i : Nat) :
    (l.filter (· ≤ i + 1)).length = (l.filter (· ≤ i)).length + (l.filter (· == i + 1)).length := by
  induction l with
  | nil => rfl
  | cons x xs ih =>
    simp only [List.filter_cons]
    by_cases h1 : x ≤ i
    · have h2 : x ≤ i + 1 := by omega
      have h3 : ¬ x = i + 1 := by omega
      simp [h1, h2, h3, ih]; omega
    · by_cases h3 : x = i + 1
      · have h2 : x ≤ i + 1 := by omega
        simp [h1, h2, h3, ih]; omega
      · have h2 : ¬ x ≤ i + 1 := by omega
        simp [h1, h2, h3, ih]

theorem ptsAt_length (ins : List (Nat × α)) (t : Nat) :
    (ptsAt ins t).length = ((ins.map (·.1)).filter (· == t)).length := by
  unfold ptsAt
  rw [List.length_map, List.filter_map, List.length_map]
  rfl

/-- the points with index `≤ i` -/
theorem cntRange_eq_filter_le (ins : List (Nat × α)) (i : Nat) :
    cntRange ins 0 i = ((ins.map (·.1)).filter (· ≤ i)).length := by
  induction i with
  | zero =>
    rw [cntRange_zero, ptsAt_length]
    congr 1
    apply List.filter_congr
    intro x _
    cases x <;> simp
  | succ i ih =>
    rw [cntRange_succ, ih, filter_le_succ, ptsAt_length]
    simp

/-- number of inserted points with index in `[i0, i0 + d)` -/
def cntBelow (ins : List (Nat × α)) (i0 d : Nat) : Nat :=
  ((List.range d).map fun t => (ptsAt ins (i0 + t)).length).sum

theorem cntBelow_zero (ins : List (Nat × α)) (i0 : Nat) : cntBelow ins i0 0 = 0 := by simp [cntBelow]

theorem cntBelow_succ' (ins : List (Nat × α)) (i0 d : Nat) :
    cntBelow ins i0 (d + 1) = (ptsAt ins i0).length + cntBelow ins (i0 + 1) d := by
  unfold cntBelow
  rw [List.range_succ_eq_map]
  simp [Function.comp_def, Nat.add_assoc, Nat.add_comm 1]

theorem cntBelow_succ (ins : List (Nat × α)) (i0 d : Nat) :
    cntBelow ins i0 (d + 1) = cntBelow ins i0 d + (ptsAt ins (i0 + d)).length := by
  unfold cntBelow
  rw [List.range_succ]
  simp

/-- the block of points carrying index `i0 + d` starts after the `d` originals and all points with a smaller
    index -/
theorem insertBeforeFrom_block (ins : List (Nat × α)) (v : List α) (i0 d r : Nat) (hd : d ≤ v.length)
    (hr : r < (ptsAt ins (i0 + d)).length) :
    (insertBeforeFrom ins i0 v)[cntBelow ins i0 d + d + r]? = (ptsAt ins (i0 + d))[r]? := by
  induction v generalizing i0 d with
  | nil =>
    have : d = 0 := by simpa using hd
    subst this
    simp [insertBeforeFrom_nil, cntBelow_zero]
  | cons x xs ih =>
    rw [insertBeforeFrom_cons]
    cases d with
    | zero =>
      simp only [cntBelow_zero, Nat.add_zero, Nat.zero_add] at hr ⊢
      rw [List.getElem?_append_left hr]
    | succ d =>
      have hd' : d ≤ xs.length := by simpa using hd
      have hr' : r < (ptsAt ins (i0 + 1 + d)).length := by
        have : i0 + 1 + d = i0 + (d + 1) := by omega
        rw [this]; exact hr
      rw [cntBelow_succ', List.getElem?_append_right (by omega)]
      have e : (ptsAt ins i0).length + cntBelow ins (i0 + 1) d + (d + 1) + r - (ptsAt ins i0).length =
          (cntBelow ins (i0 + 1) d + d + r) + 1 := by omega
      rw [e, List.getElem?_cons_succ, ih (i0 + 1) d hd' hr']
      have : i0 + 1 + d = i0 + (d + 1) := by omega
      rw [this]

theorem filter_le_split (l : List Nat) (i : Nat) :
    (l.filter (· ≤ i)).length = (l.filter (· < i)).length + (l.filter (· == i)).length := by
  induction l with
  | nil => rfl
  | cons x xs ih =>
    simp only [List.filter_cons]
    by_cases h1 : x < i
    · have h2 : x ≤ i := by omega
      have h3 : ¬ x = i := by omega
      simp [h1, h2, h3, ih]; omega
    · by_cases h3 : x = i
      · have h2 : x ≤ i := by omega
        simp [h1, h2, h3, ih]; omega
      · have h2 : ¬ x ≤ i := by omega
        simp [h1, h2, h3, ih]

theorem filter_lt_succ (l : List Nat) (i : Nat) :
    (l.filter (· < i + 1)).length = (l.filter (· < i)).length + (l.filter (· == i)).length := by
  rw [← filter_le_split]
  congr 1
  apply List.filter_congr
  intro x _
  simp [Nat.lt_succ_iff]

theorem cntBelow_eq_filter_lt (ins : List (Nat × α)) (t : Nat) :
    cntBelow ins 0 t = ((ins.map (·.1)).filter (· < t)).length := by
  induction t with
  | zero => simp [cntBelow_zero]
  | succ t ih =>
    rw [cntBelow_succ, ih, filter_lt_succ, ptsAt_length]
    simp

/-- the `j`-th given point is found in the block of its index at its rank among the earlier points with the
    same index -/
theorem ptsAt_rank (ins : List (Nat × α)) (j : Nat) (x : Nat × α) (hj : ins[j]? = some x) :
    (ptsAt ins x.1)[(((ins.take j).map (·.1)).filter (· == x.1)).length]? = some x.2 := by
  induction ins generalizing j with
  | nil => simp at hj
  | cons y ys ih =>
    cases j with
    | zero =>
      simp at hj; subst hj
      simp [ptsAt]
    | succ j =>
      simp only [List.getElem?_cons_succ] at hj
      have := ih j hj
      unfold ptsAt at this ⊢
      by_cases hy : y.1 = x.1
      · simp only [List.take_succ_cons, List.map_cons, List.filter_cons, hy, beq_self_eq_true, if_true,
          List.length_cons, List.getElem?_cons_succ]
        exact this
      · have hb : (y.1 == x.1) = false := by simpa using hy
        simp only [List.take_succ_cons, List.map_cons, List.filter_cons, hb, Bool.false_eq_true, if_false]
        exact this

/-- the row reported by `indicesOfInserted` holds the inserted point -/
theorem insertBefore_inserted (v : List α) (ins : List (Nat × α)) (j : Nat) (x : Nat × α)
    (hj : ins[j]? = some x) (hx : x.1 ≤ v.length) :
    (insertBefore v ins)[(indicesOfInserted (ins.map (·.1))).getD j 0]? = some x.2 := by
  have hjl : j < ins.length := (List.getElem?_eq_some_iff.mp hj).1
  have hrank := ptsAt_rank ins j x hj
  have hr : (((ins.take j).map (·.1)).filter (· == x.1)).length < (ptsAt ins x.1).length :=
    (List.getElem?_eq_some_iff.mp hrank).1
  have hblock := insertBeforeFrom_block ins v 0 x.1
    (((ins.take j).map (·.1)).filter (· == x.1)).length hx (by rw [Nat.zero_add]; exact hr)
  rw [Nat.zero_add, cntBelow_eq_filter_lt] at hblock
  unfold insertBefore
  have hidx : (indicesOfInserted (ins.map (·.1))).getD j 0 =
      ((ins.map (·.1)).filter (· < x.1)).length + x.1 +
        (((ins.take j).map (·.1)).filter (· == x.1)).length := by
    unfold indicesOfInserted
    rw [List.getD_eq_getElem?_getD, List.getElem?_map, List.getElem?_range (by simpa using hjl)]
    simp only [Option.map_some, Option.getD_some]
    have : (ins.map (·.1)).getD j 0 = x.1 := by
      rw [List.getD_eq_getElem?_getD, List.getElem?_map, hj]; rfl
    rw [this, List.map_take]
    omega
  rw [hidx, hblock, hrank]

end Insert

/-! ### real lengths -/

section Real

theorem dist_def (a b : V3 ℝ) :
    dist a b = Real.sqrt ((b.x - a.x) * (b.x - a.x) + (b.y - a.y) * (b.y - a.y) + (b.z - a.z) * (b.z - a.z)) := rfl

theorem dist_nonneg (a b : V3 ℝ) : 0 ≤ dist a b := Real.sqrt_nonneg _

theorem dist_eq_zero {a b : V3 ℝ} (h : dist a b = 0) : a = b := by
  rw [dist_def, Real.sqrt_eq_zero'] at h
  have hx : b.x - a.x = 0 := by
    nlinarith [mul_self_nonneg (b.x - a.x), mul_self_nonneg (b.y - a.y), mul_self_nonneg (b.z - a.z)]
  have hy : b.y - a.y = 0 := by
    nlinarith [mul_self_nonneg (b.x - a.x), mul_self_nonneg (b.y - a.y), mul_self_nonneg (b.z - a.z)]
  have hz : b.z - a.z = 0 := by
    nlinarith [mul_self_nonneg (b.x - a.x), mul_self_nonneg (b.y - a.y), mul_self_nonneg (b.z - a.z)]
  ext <;> linarith

theorem dist_self (a : V3 ℝ) : dist a a = 0 := by
  rw [dist_def]; simp

theorem segmentLengths_nonneg (p : Polyline ℝ) : ∀ x ∈ segmentLengths p, 0 ≤ x := by
  intro x hx
  unfold segmentLengths at hx
  obtain ⟨s, _, rfl⟩ := List.mem_map.mp hx
  exact dist_nonneg _ _

theorem segmentLengths_length (p : Polyline ℝ) : (segmentLengths p).length = p.segments.length := by
  simp [segmentLengths]

theorem segmentLengths_getElem (p : Polyline ℝ) (i : Nat) (hi : i < p.segments.length) :
    (segmentLengths p)[i]'(by rw [segmentLengths_length]; exact hi) = dist (p.segments[i]).1 (p.segments[i]).2 := by
  simp [segmentLengths]

theorem totalLength_eq_sum (p : Polyline ℝ) : totalLength p = (segmentLengths p).sum := sumK_eq_sum _

theorem cumLengths_last (p : Polyline ℝ) : pyGet (cumLengths p) (-1) 0 = totalLength p := by
  apply pyGet_of_getElem?
  unfold cumLengths
  rw [cumFrom_length, pyIdx_neg_one, cumFrom_getElem? _ _ _ (le_refl _)]
  simp [totalLength_eq_sum]

/-- `(t) * normalize(d)` is `(t/‖d‖) * d` -/
theorem smul_normalize (t : ℝ) (d : V3 ℝ) :
    V3.smul t (V3.normalize d) = V3.smul (t / V3.norm d) d := by
  ext <;> simp [V3.normalize] <;> ring

/-- interior case of `point_along_path`: the selected segment and the value -/
theorem pointAlongOne_inner (p : Polyline ℝ) (f : ℝ) (hL : 0 < totalLength p) (h0 : 0 ≤ f) (h1 : f < 1) :
    ∃ i, ∃ hi : i < p.segments.length,
      ((segmentLengths p).take i).sum ≤ totalLength p * f ∧
      totalLength p * f < ((segmentLengths p).take (i + 1)).sum ∧
      pointAlongOne p f = (p.segments[i]).1 +
        V3.smul ((totalLength p * f - ((segmentLengths p).take i).sum) / dist (p.segments[i]).1 (p.segments[i]).2)
          ((p.segments[i]).2 - (p.segments[i]).1) := by
  have hnn := segmentLengths_nonneg p
  have hsum := totalLength_eq_sum p
  have hd0 : (0 : ℝ) ≤ totalLength p * f := by positivity
  have hd1 : totalLength p * f < 0 + (segmentLengths p).sum := by rw [zero_add, ← hsum]; nlinarith
  obtain ⟨i, hi, hft, hlo, hhi⟩ := firstTrue_cumFrom (segmentLengths p) hnn 0 _ hd0 hd1
  have hi' : i < p.segments.length := by simpa [segmentLengths] using hi
  refine ⟨i, hi', by simpa using hlo, by simpa using hhi, ?_⟩
  unfold pointAlongOne
  simp only
  rw [cumLengths_last]
  have hnot : ¬ (totalLength p * f ≥ totalLength p) := by
    intro h; nlinarith
  rw [if_neg hnot]
  have harg : argmaxBool ((cumLengths p).map fun c => decide (c > totalLength p * f)) = i + 1 := by
    unfold argmaxBool cumLengths; rw [hft]; rfl
  rw [harg]
  have hs : p.segments[i]? = some p.segments[i] := List.getElem?_eq_getElem hi'
  have hv : pyGet p.v (((i + 1 : Nat) : Int) - 1) V3.zero = (p.segments[i]).1 := by
    apply pyGet_of_getElem?
    rw [pyIdx_natCast_sub_one]; exact segments_getElem?_fst hs
  have hc : pyGet (cumLengths p) (((i + 1 : Nat) : Int) - 1) 0 = ((segmentLengths p).take i).sum := by
    apply pyGet_of_getElem?
    rw [pyIdx_natCast_sub_one]; unfold cumLengths
    rw [cumFrom_getElem? _ _ _ (le_of_lt hi)]; simp
  have hd : pyGet p.segmentVectors (((i + 1 : Nat) : Int) - 1) V3.zero = (p.segments[i]).2 - (p.segments[i]).1 := by
    apply pyGet_of_getElem?
    rw [pyIdx_natCast_sub_one]; unfold Polyline.segmentVectors
    rw [List.getElem?_map, hs]; rfl
  rw [hv, hc, hd, smul_normalize]
  rfl

/-- end case of `point_along_path` -/
theorem pointAlongOne_end (p : Polyline ℝ) (f : ℝ) (h : totalLength p ≤ totalLength p * f) :
    pointAlongOne p f = if p.closed then pyGet p.v 0 V3.zero else pyGet p.v (-1) V3.zero := by
  unfold pointAlongOne
  simp only
  rw [cumLengths_last, if_pos h]

theorem vsum_x (l : List (V3 ℝ)) : (vsum l).x = (l.map (·.x)).sum := by
  induction l with
  | nil => rfl
  | cons a l ih => simp [vsum, ih]
theorem vsum_y (l : List (V3 ℝ)) : (vsum l).y = (l.map (·.y)).sum := by
  induction l with
  | nil => rfl
  | cons a l ih => simp [vsum, ih]
theorem vsum_z (l : List (V3 ℝ)) : (vsum l).z = (l.map (·.z)).sum := by
  induction l with
  | nil => rfl
  | cons a l ih => simp [vsum, ih]

theorem zipWith_map_same {α β γ δ : Type} (l : List α) (f : α → β) (g : α → γ) (h : β → γ → δ) :
    List.zipWith h (l.map f) (l.map g) = l.map fun a => h (f a) (g a) := by
  induction l with
  | nil => rfl
  | cons a l ih => simp [ih]

/-! ### the declarative walk along the path -/

/-- the point reached after travelling `t` along consecutive segments (`e` = where we stand when no
    segment is left) -/
noncomputable def arcPoint : List (V3 ℝ × V3 ℝ) → V3 ℝ → ℝ → V3 ℝ
  | [], e, _ => e
  | s :: rest, _, t =>
    if t < dist s.1 s.2 then s.1 + V3.smul (t / dist s.1 s.2) (s.2 - s.1)
    else arcPoint rest s.2 (t - dist s.1 s.2)

/-- lengths of a list of segments -/
noncomputable def segLens (segs : List (V3 ℝ × V3 ℝ)) : List ℝ := segs.map fun s => dist s.1 s.2

theorem segLens_nonneg (segs : List (V3 ℝ × V3 ℝ)) : ∀ x ∈ segLens segs, 0 ≤ x := by
  intro x hx
  obtain ⟨s, _, rfl⟩ := List.mem_map.mp hx
  exact dist_nonneg _ _

theorem segmentLengths_eq_segLens (p : Polyline ℝ) : segmentLengths p = segLens p.segments := rfl

theorem arcPoint_index (segs : List (V3 ℝ × V3 ℝ)) (e : V3 ℝ) (t : ℝ) (i : Nat) (hi : i < segs.length)
    (hlo : ((segLens segs).take i).sum ≤ t) (hhi : t < ((segLens segs).take (i + 1)).sum) :
    arcPoint segs e t = (segs[i]).1 +
      V3.smul ((t - ((segLens segs).take i).sum) / dist (segs[i]).1 (segs[i]).2) ((segs[i]).2 - (segs[i]).1) := by
  induction segs generalizing e t i with
  | nil => simp at hi
  | cons s rest ih =>
    cases i with
    | zero =>
      have h : t < dist s.1 s.2 := by simpa [segLens] using hhi
      simp [arcPoint, h]
    | succ i =>
      have hi' : i < rest.length := by simpa using hi
      have hpre : 0 ≤ ((segLens rest).take i).sum := take_sum_nonneg _ (segLens_nonneg rest) i
      have hlo' : dist s.1 s.2 + ((segLens rest).take i).sum ≤ t := by simpa [segLens] using hlo
      have hhi' : t < dist s.1 s.2 + ((segLens rest).take (i + 1)).sum := by simpa [segLens] using hhi
      have h : ¬ t < dist s.1 s.2 := by linarith
      have := ih s.2 (t - dist s.1 s.2) i hi' (by linarith) (by linarith)
      simp only [arcPoint, h, if_false, this, List.getElem_cons_succ]
      simp only [segLens, List.map_cons, List.take_succ_cons, List.sum_cons]
      congr 2
      ring

/-- where the walk ends -/
def endPoint (segs : List (V3 ℝ × V3 ℝ)) (e : V3 ℝ) : V3 ℝ := (segs.getLast?.map Prod.snd).getD e

theorem endPoint_cons (s : V3 ℝ × V3 ℝ) (rest : List (V3 ℝ × V3 ℝ)) (e : V3 ℝ) :
    endPoint (s :: rest) e = endPoint rest s.2 := by
  unfold endPoint
  cases rest with
  | nil => simp
  | cons t r =>
    rw [List.getLast?_cons_cons]
    cases h : (t :: r).getLast? with
    | none => simp at h
    | some x => simp

theorem arcPoint_end (segs : List (V3 ℝ × V3 ℝ)) (e : V3 ℝ) (t : ℝ) (h : (segLens segs).sum ≤ t) :
    arcPoint segs e t = endPoint segs e := by
  induction segs generalizing e t with
  | nil => simp [arcPoint, endPoint]
  | cons s rest ih =>
    have hs : 0 ≤ (segLens rest).sum := List.sum_nonneg (segLens_nonneg rest)
    have h' : dist s.1 s.2 + (segLens rest).sum ≤ t := by simpa [segLens] using h
    have hn : ¬ t < dist s.1 s.2 := by linarith
    rw [endPoint_cons]
    simp only [arcPoint, hn, if_false]
    exact ih s.2 (t - dist s.1 s.2) (by linarith)

/-- the start of the `k`-th segment, the end point for `k` = number of segments -/
def vertexAt (segs : List (V3 ℝ × V3 ℝ)) (e : V3 ℝ) (k : Nat) : V3 ℝ :=
  match segs[k]? with
  | some s => s.1
  | none => endPoint segs e

/-- `e` is where the chain starts -/
def StartsAt (segs : List (V3 ℝ × V3 ℝ)) (e : V3 ℝ) : Prop := ∀ s, segs.head? = some s → s.1 = e

theorem arcPoint_zero (segs : List (V3 ℝ × V3 ℝ)) (e : V3 ℝ) (hc : Connected segs) (he : StartsAt segs e) :
    arcPoint segs e 0 = e := by
  induction segs generalizing e with
  | nil => simp [arcPoint]
  | cons s rest ih =>
    have hse : s.1 = e := he s (by simp)
    by_cases h : (0 : ℝ) < dist s.1 s.2
    · simp only [arcPoint, h, if_true, zero_div]
      rw [← hse]; ext <;> simp
    · have h0 : dist s.1 s.2 = 0 := le_antisymm (not_lt.mp h) (dist_nonneg _ _)
      have h12 : s.1 = s.2 := dist_eq_zero h0
      have hn : ¬ ((0 : ℝ) < 0) := lt_irrefl 0
      simp only [arcPoint, h0, hn, if_false, sub_zero]
      have hc' : Connected rest := by
        cases rest with
        | nil => simp [Connected]
        | cons t r => exact hc.2
      have he' : StartsAt rest s.2 := by
        intro t ht
        cases rest with
        | nil => simp at ht
        | cons t' r =>
          simp at ht; subst ht
          exact hc.1.symm
      rw [ih s.2 hc' he', ← h12, hse]

/-- the walk passes through every vertex: value at the arc length of vertex `k` -/
theorem arcPoint_vertex (segs : List (V3 ℝ × V3 ℝ)) (e : V3 ℝ) (hc : Connected segs) (he : StartsAt segs e)
    (k : Nat) (hk : k ≤ segs.length) :
    arcPoint segs e ((segLens segs).take k).sum = vertexAt segs e k := by
  induction segs generalizing e k with
  | nil => simp [arcPoint, vertexAt, endPoint]
  | cons s rest ih =>
    have hse : s.1 = e := he s (by simp)
    have hc' : Connected rest := by
      cases rest with
      | nil => simp [Connected]
      | cons t r => exact hc.2
    have he' : StartsAt rest s.2 := by
      intro t ht
      cases rest with
      | nil => simp at ht
      | cons t' r => simp at ht; subst ht; exact hc.1.symm
    cases k with
    | zero =>
      simp only [List.take_zero, List.sum_nil, vertexAt, List.getElem?_cons_zero]
      by_cases h : (0 : ℝ) < dist s.1 s.2
      · simp only [arcPoint, h, if_true, zero_div]
        ext <;> simp
      · have h0 : dist s.1 s.2 = 0 := le_antisymm (not_lt.mp h) (dist_nonneg _ _)
        have h12 : s.1 = s.2 := dist_eq_zero h0
        have hn : ¬ ((0 : ℝ) < 0) := lt_irrefl 0
        simp only [arcPoint, h0, hn, if_false, sub_zero]
        have := ih s.2 hc' he' 0 (Nat.zero_le _)
        simp only [List.take_zero, List.sum_nil] at this
        rw [this]
        unfold vertexAt
        cases rest with
        | nil => simp [endPoint, h12]
        | cons t r => simp; rw [h12]; exact hc.1.symm
    | succ k =>
      have hk' : k ≤ rest.length := by simpa using hk
      have hpre : 0 ≤ ((segLens rest).take k).sum := take_sum_nonneg _ (segLens_nonneg rest) k
      have hn : ¬ (dist s.1 s.2 + ((segLens rest).take k).sum < dist s.1 s.2) := by linarith
      simp only [segLens, List.map_cons, List.take_succ_cons, List.sum_cons, arcPoint] at hn ⊢
      rw [if_neg hn]
      have := ih s.2 hc' he' k hk'
      simp only [segLens] at this
      rw [add_sub_cancel_left, this]
      unfold vertexAt
      simp only [List.getElem?_cons_succ]
      cases rest[k]? with
      | some t => rfl
      | none => simp [endPoint_cons]

/-! ### the walk is 1-Lipschitz in the arc length -/

theorem dist_comm' (a b : V3 ℝ) : dist a b = dist b a := by
  rw [dist_def, dist_def]; congr 1; ring

theorem dist_triangle' (a b c : V3 ℝ) : dist a c ≤ dist a b + dist b c := by
  rw [dist_def a c, dist_def a b, dist_def b c]
  set ux := b.x - a.x; set uy := b.y - a.y; set uz := b.z - a.z
  set wx := c.x - b.x; set wy := c.y - b.y; set wz := c.z - b.z
  have e : (c.x - a.x) * (c.x - a.x) + (c.y - a.y) * (c.y - a.y) + (c.z - a.z) * (c.z - a.z) =
      (ux + wx) * (ux + wx) + (uy + wy) * (uy + wy) + (uz + wz) * (uz + wz) := by
    simp only [ux, uy, uz, wx, wy, wz]; ring
  rw [e]
  set U := ux * ux + uy * uy + uz * uz
  set W := wx * wx + wy * wy + wz * wz
  have hU : 0 ≤ U := add_nonneg (add_nonneg (mul_self_nonneg _) (mul_self_nonneg _)) (mul_self_nonneg _)
  have hW : 0 ≤ W := add_nonneg (add_nonneg (mul_self_nonneg _) (mul_self_nonneg _)) (mul_self_nonneg _)
  rw [Real.sqrt_le_iff]
  refine ⟨add_nonneg (Real.sqrt_nonneg _) (Real.sqrt_nonneg _), ?_⟩
  have hcs : (ux * wx + uy * wy + uz * wz) ^ 2 ≤ U * W := by
    simp only [U, W]
    nlinarith [sq_nonneg (uy * wz - uz * wy), sq_nonneg (uz * wx - ux * wz), sq_nonneg (ux * wy - uy * wx)]
  have hdot : ux * wx + uy * wy + uz * wz ≤ Real.sqrt U * Real.sqrt W := by
    rw [← Real.sqrt_mul hU]
    exact le_trans (le_abs_self _) (Real.abs_le_sqrt hcs)
  have hsU : Real.sqrt U ^ 2 = U := Real.sq_sqrt hU
  have hsW : Real.sqrt W ^ 2 = W := Real.sq_sqrt hW
  nlinarith

/-- two points of the same segment -/
theorem dist_on_segment (a d : V3 ℝ) (c1 c2 : ℝ) (h : c1 ≤ c2) :
    dist (a + V3.smul c1 d) (a + V3.smul c2 d) = (c2 - c1) * V3.norm d := by
  rw [dist_def]
  simp only [V3.add_x, V3.add_y, V3.add_z, V3.smul_x, V3.smul_y, V3.smul_z]
  have : (a.x + c2 * d.x - (a.x + c1 * d.x)) * (a.x + c2 * d.x - (a.x + c1 * d.x)) +
      (a.y + c2 * d.y - (a.y + c1 * d.y)) * (a.y + c2 * d.y - (a.y + c1 * d.y)) +
      (a.z + c2 * d.z - (a.z + c1 * d.z)) * (a.z + c2 * d.z - (a.z + c1 * d.z)) =
      (c2 - c1) ^ 2 * (d.x * d.x + d.y * d.y + d.z * d.z) := by ring
  rw [this, Real.sqrt_mul (sq_nonneg _), Real.sqrt_sq (by linarith)]
  rfl

theorem arcPoint_lipschitz (segs : List (V3 ℝ × V3 ℝ)) (e : V3 ℝ) (hc : Connected segs) (he : StartsAt segs e)
    (s t : ℝ) (hs : 0 ≤ s) (hst : s ≤ t) :
    dist (arcPoint segs e s) (arcPoint segs e t) ≤ t - s := by
  induction segs generalizing e s t with
  | nil => simp [arcPoint, dist_self]; linarith
  | cons sg rest ih =>
    have hc' : Connected rest := by
      cases rest with
      | nil => simp [Connected]
      | cons t r => exact hc.2
    have he' : StartsAt rest sg.2 := by
      intro t ht
      cases rest with
      | nil => simp at ht
      | cons t' r => simp at ht; subst ht; exact hc.1.symm
    have hl : 0 ≤ dist sg.1 sg.2 := dist_nonneg _ _
    have hnorm : V3.norm (sg.2 - sg.1) = dist sg.1 sg.2 := rfl
    by_cases h2 : t < dist sg.1 sg.2
    · -- both on the first segment
      have h1 : s < dist sg.1 sg.2 := lt_of_le_of_lt hst h2
      have hpos : 0 < dist sg.1 sg.2 := lt_of_le_of_lt hs h1
      simp only [arcPoint, h1, h2, if_true]
      rw [dist_on_segment _ _ _ _ (div_le_div_of_nonneg_right hst hpos.le), hnorm]
      have : (t / dist sg.1 sg.2 - s / dist sg.1 sg.2) * dist sg.1 sg.2 = t - s := by
        field_simp
      linarith
    · by_cases h1 : s < dist sg.1 sg.2
      · -- s on the first segment, t beyond
        have hpos : 0 < dist sg.1 sg.2 := lt_of_le_of_lt hs h1
        have ht : dist sg.1 sg.2 ≤ t := not_lt.mp h2
        simp only [arcPoint, h1, h2, if_true, if_false]
        have hb : sg.2 = sg.1 + V3.smul 1 (sg.2 - sg.1) := by ext <;> simp
        have d1 : dist (sg.1 + V3.smul (s / dist sg.1 sg.2) (sg.2 - sg.1)) sg.2 = dist sg.1 sg.2 - s := by
          have := dist_on_segment sg.1 (sg.2 - sg.1) (s / dist sg.1 sg.2) 1 ((div_le_one hpos).mpr h1.le)
          rw [← hb, hnorm] at this
          rw [this]
          field_simp
        have d2 := ih sg.2 hc' he' 0 (t - dist sg.1 sg.2) (le_refl _) (by linarith)
        rw [arcPoint_zero rest sg.2 hc' he'] at d2
        have := dist_triangle' (sg.1 + V3.smul (s / dist sg.1 sg.2) (sg.2 - sg.1)) sg.2
          (arcPoint rest sg.2 (t - dist sg.1 sg.2))
        linarith
      · -- both beyond
        have hs' : dist sg.1 sg.2 ≤ s := not_lt.mp h1
        simp only [arcPoint, h1, h2, if_false]
        have := ih sg.2 hc' he' (s - dist sg.1 sg.2) (t - dist sg.1 sg.2) (by linarith) (by linarith)
        linarith

/-! ### length of a vertex chain, refinement keeps it -/

/-- length of the open chain through the given points -/
noncomputable def pathLen : List (V3 ℝ) → ℝ
  | [] => 0
  | [_] => 0
  | a :: b :: rest => dist a b + pathLen (b :: rest)

theorem pathLen_join (l : List (V3 ℝ)) (b : V3 ℝ) (r : List (V3 ℝ)) :
    pathLen (l ++ b :: r) = pathLen (l ++ [b]) + pathLen (b :: r) := by
  induction l with
  | nil => simp [pathLen]
  | cons x l' ih =>
    cases l' with
    | nil => simp [pathLen]
    | cons y l'' =>
      simp only [List.cons_append, pathLen] at ih ⊢
      rw [ih]; ring

theorem zip_dist_sum (l : List (V3 ℝ)) (a : V3 ℝ) (tl : List (V3 ℝ)) :
    (segLens (List.zip (a :: l) (l ++ tl))).sum = pathLen (a :: l ++ tl.take 1) := by
  induction l generalizing a with
  | nil => cases tl <;> simp [segLens, pathLen]
  | cons b l' ih =>
    have := ih b
    simp only [segLens, List.cons_append, List.zip_cons_cons, List.map_cons, List.sum_cons, pathLen] at this ⊢
    rw [this]

/-- the vertex list with the first vertex repeated at the end when closed -/
def closeUp (p : Polyline ℝ) : List (V3 ℝ) := p.v ++ (if p.closed then p.v.take 1 else [])

theorem totalLength_eq_pathLen (p : Polyline ℝ) : totalLength p = pathLen (closeUp p) := by
  rw [totalLength_eq_sum, segmentLengths_eq_segLens]
  unfold Polyline.segments closeUp
  cases hv : p.v with
  | nil => cases p.closed <;> simp [segLens, pathLen]
  | cons a rest =>
    simp only
    cases p.closed
    · have := zip_dist_sum rest a []
      simpa using this
    · have := zip_dist_sum rest a [a]
      simpa using this

/-- every insert list lies straight between its two vertices -/
def StraightAll : List (V3 ℝ) → List (List (V3 ℝ)) → Prop
  | a :: b :: W, i :: I => pathLen (a :: i ++ [b]) = dist a b ∧ StraightAll (b :: W) I
  | _, _ => True

theorem pathLen_interleave (I : List (List (V3 ℝ))) (W : List (V3 ℝ)) (hlen : W.length = I.length + 1)
    (hs : StraightAll W I) :
    pathLen (List.zipWith (fun a i => a :: i) W (I ++ [[]])).flatten = pathLen W := by
  induction I generalizing W with
  | nil =>
    match W, hlen with
    | [w], _ => simp [pathLen]
  | cons i0 I' ih =>
    match W, hlen, hs with
    | a :: b :: W', hlen, hs =>
      obtain ⟨h0, hs'⟩ := hs
      have hl' : (b :: W').length = I'.length + 1 := by simpa using hlen
      have := ih (b :: W') hl' hs'
      simp only [List.cons_append, List.zipWith_cons_cons, List.flatten_cons] at this ⊢
      cases hI : I' ++ [[]] with
      | nil => simp at hI
      | cons j J =>
        rw [hI] at this
        simp only [List.zipWith_cons_cons, List.flatten_cons, List.cons_append] at this ⊢
        have hj := pathLen_join (a :: i0) b (j ++ (List.zipWith (fun a i => a :: i) W' J).flatten)
        simp only [List.cons_append] at hj
        simp only [List.cons_append] at h0
        rw [hj, this, h0]
        simp [pathLen]

theorem pathLen_map_range (q : Nat → V3 ℝ) (m : Nat) :
    pathLen ((List.range (m + 1)).map q) = ((List.range m).map fun k => dist (q k) (q (k + 1))).sum := by
  induction m with
  | zero => simp [pathLen]
  | succ m ih =>
    have e1 : (List.range (m + 1 + 1)).map q = (List.range m).map q ++ q m :: [q (m + 1)] := by
      simp [List.range_succ]
    have e2 : (List.range (m + 1)).map q = (List.range m).map q ++ [q m] := by
      simp [List.range_succ]
    have e3 : ((List.range (m + 1)).map fun k => dist (q k) (q (k + 1))).sum =
        ((List.range m).map fun k => dist (q k) (q (k + 1))).sum + dist (q m) (q (m + 1)) := by
      simp [List.range_succ]
    rw [e1, pathLen_join, ← e2, ih, e3]
    simp [pathLen]

theorem dist_lerp_step (a b : V3 ℝ) (n k : Nat) (hn : 0 < n) :
    dist (lerp a b ((k : ℝ) / n)) (lerp a b (((k + 1 : Nat) : ℝ) / n)) = dist a b / n := by
  have hn' : (0 : ℝ) < n := by exact_mod_cast hn
  rw [dist_def, dist_def]
  simp only [lerp_x, lerp_y, lerp_z]
  have : ((((k + 1 : Nat) : ℝ) / n * (b.x - a.x) + a.x - ((k : ℝ) / n * (b.x - a.x) + a.x)) *
        (((k + 1 : Nat) : ℝ) / n * (b.x - a.x) + a.x - ((k : ℝ) / n * (b.x - a.x) + a.x)) +
      (((k + 1 : Nat) : ℝ) / n * (b.y - a.y) + a.y - ((k : ℝ) / n * (b.y - a.y) + a.y)) *
        (((k + 1 : Nat) : ℝ) / n * (b.y - a.y) + a.y - ((k : ℝ) / n * (b.y - a.y) + a.y)) +
      (((k + 1 : Nat) : ℝ) / n * (b.z - a.z) + a.z - ((k : ℝ) / n * (b.z - a.z) + a.z)) *
        (((k + 1 : Nat) : ℝ) / n * (b.z - a.z) + a.z - ((k : ℝ) / n * (b.z - a.z) + a.z))) =
      ((b.x - a.x) * (b.x - a.x) + (b.y - a.y) * (b.y - a.y) + (b.z - a.z) * (b.z - a.z)) * ((1 / (n : ℝ)) ^ 2) := by
    push_cast; field_simp; ring
  rw [this, Real.sqrt_mul' _ (sq_nonneg _), Real.sqrt_sq (by positivity)]
  ring

/-- the evenly spaced interior points of a segment lie straight on it -/
theorem even_points_straight (a b : V3 ℝ) (n : Nat) (hn : 0 < n) :
    pathLen (a :: ((List.range (n - 1)).map fun (k : Nat) => lerp a b (((k + 1 : Nat) : ℝ) / (n : ℝ))) ++ [b]) =
      dist a b := by
  have hn' : (n : ℝ) ≠ 0 := by exact_mod_cast hn.ne'
  obtain ⟨m, rfl⟩ : ∃ m, n = m + 1 := ⟨n - 1, by omega⟩
  have hlist : (a :: ((List.range (m + 1 - 1)).map fun (k : Nat) => lerp a b (((k + 1 : Nat) : ℝ) / ((m + 1 : Nat) : ℝ))) ++ [b]) =
      (List.range (m + 1 + 1)).map fun (k : Nat) => lerp a b ((k : ℝ) / ((m + 1 : Nat) : ℝ)) := by
    rw [List.range_succ_eq_map, List.range_succ]
    simp only [Nat.add_sub_cancel, List.map_cons, List.map_map, List.map_append, List.map_nil, Nat.cast_zero,
      zero_div, lerp_zero, List.cons_append, Function.comp_def]
    congr 2
    rw [div_self hn', lerp_one]
  rw [hlist, pathLen_map_range]
  have : ((List.range (m + 1)).map fun (k : Nat) =>
      dist (lerp a b ((k : ℝ) / ((m + 1 : Nat) : ℝ))) (lerp a b (((k + 1 : Nat) : ℝ) / ((m + 1 : Nat) : ℝ)))) =
      (List.range (m + 1)).map fun _ => dist a b / ((m + 1 : Nat) : ℝ) := by
    apply List.map_congr_left
    intro k _
    exact dist_lerp_step a b (m + 1) k hn
  rw [this]
  simp only [List.map_const', List.length_range, List.sum_replicate, nsmul_eq_mul]
  field_simp

/-! ### subdivided_by_length keeps the length (ℝ) -/

attribute [local instance] fieldRounding

theorem edgeInserts_straight (maxLen : ℝ) (sel : Bool) (a b : V3 ℝ) :
    pathLen (a :: edgeInserts maxLen sel a b ++ [b]) = dist a b := by
  unfold edgeInserts
  simp only
  split_ifs with h
  · rw [open_points_drop_one]
    have hn : 1 < numNeeded (dist a b) maxLen := by
      simp only [Bool.and_eq_true, decide_eq_true_eq] at h; exact h.2
    exact even_points_straight a b _ (by omega)
  · simp [pathLen]

theorem straight_zip (maxLen : ℝ) (rest : List (V3 ℝ)) (a : V3 ℝ) (tl : List (V3 ℝ)) (mask : List Bool) :
    StraightAll (a :: rest ++ tl.take 1)
      (List.zipWith (fun s sel => edgeInserts maxLen sel s.1 s.2) (List.zip (a :: rest) (rest ++ tl)) mask) := by
  induction rest generalizing a mask with
  | nil =>
    cases tl with
    | nil => simp [StraightAll]
    | cons t tl' =>
      cases mask with
      | nil => simp [StraightAll]
      | cons m ms =>
        change StraightAll [a, t] [edgeInserts maxLen m a t]
        exact ⟨edgeInserts_straight maxLen m a t, trivial⟩
  | cons b rest' ih =>
    cases mask with
    | nil => simp [StraightAll]
    | cons m ms =>
      simp only [List.cons_append, List.zip_cons_cons, List.zipWith_cons_cons, StraightAll]
      exact ⟨edgeInserts_straight maxLen m a b, ih b ms⟩

theorem straight_allInserts (p : Polyline ℝ) (maxLen : ℝ) (mask : List Bool) :
    StraightAll (closeUp p) (allInserts p maxLen mask) := by
  unfold allInserts closeUp Polyline.segments
  cases hv : p.v with
  | nil => simp [StraightAll]
  | cons a rest =>
    simp only
    cases p.closed
    · have := straight_zip maxLen rest a [] mask
      simpa using this
    · have := straight_zip maxLen rest a [a] mask
      simpa using this

theorem closeUp_interleave (v : List (V3 ℝ)) (c : Bool) (ins : List (List (V3 ℝ)))
    (hlen : ins.length = if c then v.length else v.length - 1) :
    closeUp ⟨interleave v ins, c⟩ =
      (List.zipWith (fun a i => a :: i) (closeUp ⟨v, c⟩) (ins ++ [[]])).flatten := by
  unfold closeUp interleave
  cases c
  · simp
  · simp only [if_true] at hlen ⊢
    cases v with
    | nil => simp
    | cons a rest =>
      cases ins with
      | nil => simp at hlen
      | cons i0 ins' =>
        have hl' : rest.length = ins'.length := by simpa using hlen.symm
        have e1 : List.zipWith (fun a i => a :: i) (a :: rest) ((i0 :: ins') ++ [[]]) =
            List.zipWith (fun a i => a :: i) (a :: rest) (i0 :: ins') := by
          have := List.zipWith_append (f := fun (a : V3 ℝ) (i : List (V3 ℝ)) => a :: i)
            (l₁ := a :: rest) (l₁' := []) (l₂ := i0 :: ins') (l₂' := [[]]) (by simp [hl'])
          simpa using this
        have e2 : List.zipWith (fun a i => a :: i) ((a :: rest) ++ [a]) ((i0 :: ins') ++ [[]]) =
            List.zipWith (fun a i => a :: i) (a :: rest) (i0 :: ins') ++ [[a]] := by
          have := List.zipWith_append (f := fun (a : V3 ℝ) (i : List (V3 ℝ)) => a :: i)
            (l₁ := a :: rest) (l₁' := [a]) (l₂ := i0 :: ins') (l₂' := [[]]) (by simp [hl'])
          simpa using this
        rw [e1]
        simp only [List.take_succ_cons, List.take_zero]
        rw [e2]
        simp

theorem allInserts_length (p : Polyline ℝ) (maxLen : ℝ) (mask : List Bool) (hm : mask.length = p.numE) :
    (allInserts p maxLen mask).length = if p.closed then p.v.length else p.v.length - 1 := by
  unfold allInserts
  rw [List.length_zipWith, hm, segments_length_eq_numE, numE_eq]; simp

/-! ### with_segments_bisected keeps the length (ℝ)

  `np.insert` weaves blocks of points between the vertices: block `t` goes before vertex `t`.  The length of the
  woven chain is that of the vertex chain as soon as every block lies straight between its two neighbours
  (`pathLen_weave`).  For a closed polyline block 0 (the midpoint of the closing segment) comes *before* vertex 0:
  the closed length is invariant under rotation of the vertex list (`pathLen_rotate`), which moves block 0 to the
  end, between the last vertex and the repeated first vertex. -/

/-- blocks `B i, B (i+1), …` woven before the vertices of a list (the last block after the end) -/
def weave {α : Type} (B : Nat → List α) : Nat → List α → List α
  | i, [] => B i
  | i, x :: xs => B i ++ x :: weave B (i + 1) xs

theorem insertBeforeFrom_eq_weave {α : Type} (ins : List (Nat × α)) (i : Nat) (v : List α) :
    insertBeforeFrom ins i v = weave (ptsAt ins) i v := by
  induction v generalizing i with
  | nil => rfl
  | cons x xs ih => rw [insertBeforeFrom_cons, ih]; rfl

/-- the last point of the chain `x :: xs` -/
def lastOf {α : Type} : α → List α → α
  | x, [] => x
  | _, y :: ys => lastOf y ys

theorem lastOf_getElem? {α : Type} (x : α) (xs : List α) : (x :: xs)[xs.length]? = some (lastOf x xs) := by
  induction xs generalizing x with
  | nil => rfl
  | cons y ys ih => simpa [lastOf] using ih y

theorem pathLen_snoc (x : V3 ℝ) (xs : List (V3 ℝ)) (z : V3 ℝ) :
    pathLen (x :: xs ++ [z]) = pathLen (x :: xs) + dist (lastOf x xs) z := by
  induction xs generalizing x with
  | nil => simp [pathLen, lastOf]
  | cons y ys ih =>
    have := ih y
    simp only [List.cons_append, pathLen, lastOf] at this ⊢
    rw [this]; ring

/-- the closed length does not depend on where the cyclic vertex list is cut -/
theorem pathLen_rotate (l r : List (V3 ℝ)) :
    pathLen ((l ++ r) ++ (l ++ r).take 1) = pathLen ((r ++ l) ++ (r ++ l).take 1) := by
  cases l with
  | nil => simp
  | cons a l' =>
    cases r with
    | nil => simp
    | cons b r' =>
      have e1 : ((a :: l') ++ (b :: r')) ++ ((a :: l') ++ (b :: r')).take 1 = (a :: l') ++ b :: (r' ++ [a]) := by
        simp
      have e2 : ((b :: r') ++ (a :: l')) ++ ((b :: r') ++ (a :: l')).take 1 = (b :: r') ++ a :: (l' ++ [b]) := by
        simp
      rw [e1, e2, pathLen_join (a :: l') b (r' ++ [a]), pathLen_join (b :: r') a (l' ++ [b])]
      simp only [List.cons_append]
      ring

/-- every block lies straight between the two vertices it is woven between -/
def StraightFrom (B : Nat → List (V3 ℝ)) : Nat → V3 ℝ → List (V3 ℝ) → Prop
  | _, _, [] => True
  | i, x, y :: ys => pathLen (x :: B i ++ [y]) = dist x y ∧ StraightFrom B (i + 1) y ys

/-- weaving straight blocks into a chain keeps its length; what follows the last vertex (`B (i + n) ++ T`) is
    accounted for separately -/
theorem pathLen_weave (B : Nat → List (V3 ℝ)) (i : Nat) (x : V3 ℝ) (xs T : List (V3 ℝ))
    (hs : StraightFrom B i x xs) :
    pathLen (x :: weave B i xs ++ T) =
      pathLen (x :: xs) + pathLen (lastOf x xs :: B (i + xs.length) ++ T) := by
  induction xs generalizing i x with
  | nil => simp [weave, lastOf, pathLen]
  | cons y ys ih =>
    obtain ⟨h0, hs'⟩ := hs
    have e : x :: weave B i (y :: ys) ++ T = (x :: B i) ++ y :: (weave B (i + 1) ys ++ T) := by
      simp [weave]
    rw [e, pathLen_join]
    have := ih (i + 1) y hs'
    simp only [List.cons_append] at this h0 ⊢
    rw [this, h0]
    simp only [pathLen, lastOf, List.length_cons]
    have e2 : i + 1 + ys.length = i + (ys.length + 1) := by omega
    rw [e2]; ring

/-- the midpoint of two points -/
noncomputable def midpoint (a b : V3 ℝ) : V3 ℝ := ⟨(a.x + b.x) / 2, (a.y + b.y) / 2, (a.z + b.z) / 2⟩

theorem dist_midpoint_left (a b : V3 ℝ) : dist a (midpoint a b) = dist a b / 2 := by
  rw [dist_def, dist_def]
  simp only [midpoint]
  have : (((a.x + b.x) / 2 - a.x) * ((a.x + b.x) / 2 - a.x) + ((a.y + b.y) / 2 - a.y) * ((a.y + b.y) / 2 - a.y) +
      ((a.z + b.z) / 2 - a.z) * ((a.z + b.z) / 2 - a.z)) =
      ((b.x - a.x) * (b.x - a.x) + (b.y - a.y) * (b.y - a.y) + (b.z - a.z) * (b.z - a.z)) * ((1 / (2 : ℝ)) ^ 2) := by
    ring
  rw [this, Real.sqrt_mul' _ (sq_nonneg _), Real.sqrt_sq (by positivity)]
  ring

theorem dist_midpoint_right (a b : V3 ℝ) : dist (midpoint a b) b = dist a b / 2 := by
  rw [dist_def, dist_def]
  simp only [midpoint]
  have : ((b.x - (a.x + b.x) / 2) * (b.x - (a.x + b.x) / 2) + (b.y - (a.y + b.y) / 2) * (b.y - (a.y + b.y) / 2) +
      (b.z - (a.z + b.z) / 2) * (b.z - (a.z + b.z) / 2)) =
      ((b.x - a.x) * (b.x - a.x) + (b.y - a.y) * (b.y - a.y) + (b.z - a.z) * (b.z - a.z)) * ((1 / (2 : ℝ)) ^ 2) := by
    ring
  rw [this, Real.sqrt_mul' _ (sq_nonneg _), Real.sqrt_sq (by positivity)]
  ring

/-- splitting a segment at its midpoint keeps its length -/
theorem dist_split_midpoint (a b : V3 ℝ) : dist a (midpoint a b) + dist (midpoint a b) b = dist a b := by
  rw [dist_midpoint_left, dist_midpoint_right]; ring

/-- copies of one point `m`, then `b` -/
theorem pathLen_copies (m b : V3 ℝ) (L : List (V3 ℝ)) (hL : ∀ c ∈ L, c = m) :
    pathLen (m :: L ++ [b]) = dist m b := by
  induction L with
  | nil => simp [pathLen]
  | cons c L' ih =>
    have hc : c = m := hL c (by simp)
    subst hc
    have := ih (fun d hd => hL d (by simp [hd]))
    simp only [List.cons_append, pathLen] at this ⊢
    rw [this, dist_self]; ring

/-- a block of copies of the midpoint of `(a, b)` (the same segment index given several times: `np.insert`
    puts the midpoint in once per occurrence, the extra segments have length zero) lies straight between `a`
    and `b` -/
theorem pathLen_mid_block (a b : V3 ℝ) (L : List (V3 ℝ)) (hL : ∀ c ∈ L, c = midpoint a b) :
    pathLen (a :: L ++ [b]) = dist a b := by
  cases L with
  | nil => simp [pathLen]
  | cons c L' =>
    have hc : c = midpoint a b := hL c (by simp)
    subst hc
    have := pathLen_copies (midpoint a b) b L' (fun d hd => hL d (by simp [hd]))
    simp only [List.cons_append, pathLen] at this ⊢
    rw [this]
    exact dist_split_midpoint a b

theorem straightFrom_of_mid (B : Nat → List (V3 ℝ)) (i : Nat) (x : V3 ℝ) (xs : List (V3 ℝ))
    (h : ∀ k a b, (x :: xs)[k]? = some a → (x :: xs)[k + 1]? = some b → ∀ m ∈ B (i + k), m = midpoint a b) :
    StraightFrom B i x xs := by
  induction xs generalizing i x with
  | nil => trivial
  | cons y ys ih =>
    refine ⟨pathLen_mid_block x y (B i) (h 0 x y rfl rfl), ih (i + 1) y ?_⟩
    intro k a b ha hb m hm
    have e : i + 1 + k = i + (k + 1) := by omega
    rw [e] at hm
    exact h (k + 1) a b (by simpa using ha) (by simpa using hb) m hm

theorem ptsAt_eq_nil {α : Type} (ins : List (Nat × α)) (t : Nat) (h : ∀ x ∈ ins, x.1 ≠ t) : ptsAt ins t = [] := by
  unfold ptsAt
  rw [List.map_eq_nil_iff, List.filter_eq_nil_iff]
  intro x hx
  simpa using h x hx

theorem mem_ptsAt {α : Type} {ins : List (Nat × α)} {t : Nat} {m : α} (h : m ∈ ptsAt ins t) : (t, m) ∈ ins := by
  unfold ptsAt at h
  obtain ⟨x, hx, rfl⟩ := List.mem_map.mp h
  obtain ⟨hx1, hx2⟩ := List.mem_filter.mp hx
  have : x.1 = t := by simpa using hx2
  rw [← this]; exact hx1

/-- the weaving lemma for an open polyline: nothing before the first vertex, nothing after the last -/
theorem pathLen_weave_open (B : Nat → List (V3 ℝ)) (x : V3 ℝ) (xs : List (V3 ℝ))
    (h0 : B 0 = []) (hn : B (xs.length + 1) = []) (hs : StraightFrom B 1 x xs) :
    pathLen (weave B 0 (x :: xs)) = pathLen (x :: xs) := by
  have := pathLen_weave B 1 x xs [] hs
  simp only [List.append_nil] at this
  rw [weave, h0, List.nil_append, this, Nat.add_comm 1, hn]
  simp [pathLen]

/-- the weaving lemma for a closed polyline: block 0 is straight between the last vertex and the first -/
theorem pathLen_weave_closed (B : Nat → List (V3 ℝ)) (x : V3 ℝ) (xs : List (V3 ℝ))
    (h0 : pathLen (lastOf x xs :: B 0 ++ [x]) = dist (lastOf x xs) x)
    (hn : B (xs.length + 1) = []) (hs : StraightFrom B 1 x xs) :
    pathLen (weave B 0 (x :: xs) ++ (weave B 0 (x :: xs)).take 1) = pathLen ((x :: xs) ++ [x]) := by
  rw [weave, pathLen_rotate]
  have e : (x :: weave B (0 + 1) xs ++ B 0) ++ (x :: weave B (0 + 1) xs ++ B 0).take 1 =
      x :: weave B 1 xs ++ (B 0 ++ [x]) := by simp
  rw [e, pathLen_weave B 1 x xs _ hs, Nat.add_comm 1, hn]
  simp only [List.nil_append, List.cons_append, List.singleton_append] at h0 ⊢
  have := pathLen_snoc x xs x
  simp only [List.cons_append] at this
  rw [this, h0]

/-! ### subdivide_segment / subdivide_segments keep the length (ℝ) -/

theorem getLast?_eq_lastOf {α : Type} (x : α) (xs : List α) : (x :: xs).getLast? = some (lastOf x xs) := by
  induction xs generalizing x with
  | nil => rfl
  | cons y ys ih => rw [List.getLast?_cons_cons, ih y]; rfl

/-- the points `subdivide_segments` puts on one segment: `a` itself, then the interior points -/
theorem block_eq_cons (a b : V3 ℝ) (m : Nat) :
    ((List.range (m + 1)).map fun (k : Nat) => lerp a b ((k : ℝ) / ((m + 1 : Nat) : ℝ))) =
      a :: (List.range m).map fun (k : Nat) => lerp a b (((k + 1 : Nat) : ℝ) / ((m + 1 : Nat) : ℝ)) := by
  rw [List.range_succ_eq_map]
  simp only [List.map_cons, List.map_map, Nat.cast_zero, zero_div, lerp_zero, Function.comp_def]

/-- `num ≥ 1` evenly spaced points per segment, last vertex appended: the chain starts at the first vertex and has
    the length of the original chain -/
theorem pathLen_subdivided_chain (num : Nat) (hnum : 0 < num) (a : V3 ℝ) (rest : List (V3 ℝ)) :
    ∃ T, (List.zip (a :: rest) rest).flatMap (fun s => (List.range num).map fun (k : Nat) =>
        lerp s.1 s.2 ((k : ℝ) / (num : ℝ))) ++ [lastOf a rest] = a :: T ∧
      pathLen (a :: T) = pathLen (a :: rest) := by
  obtain ⟨m, rfl⟩ : ∃ m, num = m + 1 := ⟨num - 1, by omega⟩
  induction rest generalizing a with
  | nil => exact ⟨[], by simp [lastOf], rfl⟩
  | cons b rest' ih =>
    obtain ⟨T, hT, hlen⟩ := ih b
    refine ⟨((List.range m).map fun (k : Nat) => lerp a b (((k + 1 : Nat) : ℝ) / ((m + 1 : Nat) : ℝ))) ++ b :: T, ?_, ?_⟩
    · simp only [List.zip_cons_cons, List.flatMap_cons, lastOf, List.append_assoc]
      rw [hT, block_eq_cons]
      simp
    · have hj := pathLen_join (a :: (List.range m).map fun (k : Nat) =>
        lerp a b (((k + 1 : Nat) : ℝ) / ((m + 1 : Nat) : ℝ))) b T
      have hs := even_points_straight a b (m + 1) (by omega)
      simp only [Nat.add_sub_cancel, List.cons_append] at hj hs ⊢
      rw [hj, hs, hlen]
      simp [pathLen]

/-- `n + 1` evenly spaced parameters `k/d`, `k = 0..n`, on a segment span `n/d` of its length -/
theorem pathLen_even_params (a b : V3 ℝ) (n d : Nat) (hd : 0 < d) :
    pathLen ((List.range (n + 1)).map fun (k : Nat) => lerp a b ((k : ℝ) / (d : ℝ))) = dist a b * (n : ℝ) / (d : ℝ) := by
  rw [pathLen_map_range]
  have : ((List.range n).map fun (k : Nat) =>
      dist (lerp a b ((k : ℝ) / (d : ℝ))) (lerp a b (((k + 1 : Nat) : ℝ) / (d : ℝ)))) =
      (List.range n).map fun _ => dist a b / (d : ℝ) := by
    apply List.map_congr_left
    intro k _
    exact dist_lerp_step a b d k hd
  rw [this]
  simp only [List.map_const', List.length_range, List.sum_replicate, nsmul_eq_mul]
  ring

end Real

end PW.ArcLength
