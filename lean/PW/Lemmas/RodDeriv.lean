/-
  PW.Lemmas.RodDeriv — helper lemmas for C10Deriv (no property statements here): a small entrywise differential
  calculus for curves `ℝ → V3 ℝ` / `ℝ → M3 ℝ` at `t = 0` (`DerivV`, `DerivM`: every component `HasDerivAt … 0`),
  closed under `+`, scalar·vector, scalar·matrix, `outer`, `skew`; the derivative of `t ↦ ‖p t‖`, `cos‖p t‖`,
  `sin‖p t‖`, `1/‖p t‖` along a differentiable curve `p` with `p 0 ≠ 0`; and the derivative of Rodrigues' formula
  `t ↦ rodFormula (cos‖p t‖) (sin‖p t‖) (p t/‖p t‖)` along such a curve (`rod_curve_deriv`).
-/
import PW.Lemmas.Rodrigues
import Mathlib.Analysis.Calculus.Deriv.Add
import Mathlib.Analysis.Calculus.Deriv.Mul
import Mathlib.Analysis.Calculus.Deriv.Inv
import Mathlib.Analysis.SpecialFunctions.Sqrt
import Mathlib.Analysis.SpecialFunctions.Trigonometric.Deriv

set_option linter.unusedSectionVars false

namespace PW.C10

open PW.Rod Filter Topology

/-- componentwise derivative at `t = 0` of a curve of 3-vectors -/
def DerivV (v : ℝ → V3 ℝ) (v' : V3 ℝ) : Prop :=
  HasDerivAt (fun t => (v t).x) v'.x 0 ∧ HasDerivAt (fun t => (v t).y) v'.y 0 ∧ HasDerivAt (fun t => (v t).z) v'.z 0

/-- entrywise derivative at `t = 0` of a curve of 3×3 matrices -/
def DerivM (m : ℝ → M3 ℝ) (m' : M3 ℝ) : Prop :=
  DerivV (fun t => (m t).r0) m'.r0 ∧ DerivV (fun t => (m t).r1) m'.r1 ∧ DerivV (fun t => (m t).r2) m'.r2

theorem DerivV.const (v : V3 ℝ) : DerivV (fun _ => v) V3.zero :=
  ⟨hasDerivAt_const _ _, hasDerivAt_const _ _, hasDerivAt_const _ _⟩

theorem DerivV.add {u v : ℝ → V3 ℝ} {u' v' : V3 ℝ} (hu : DerivV u u') (hv : DerivV v v') :
    DerivV (fun t => u t + v t) (u' + v') :=
  ⟨hu.1.fun_add hv.1, hu.2.1.fun_add hv.2.1, hu.2.2.fun_add hv.2.2⟩

/-- product rule, scalar curve times vector curve -/
theorem DerivV.smul {a : ℝ → ℝ} {a' : ℝ} {v : ℝ → V3 ℝ} {v' : V3 ℝ} (ha : HasDerivAt a a' 0) (hv : DerivV v v') :
    DerivV (fun t => V3.smul (a t) (v t)) (V3.smul a' (v 0) + V3.smul (a 0) v') :=
  ⟨ha.fun_mul hv.1, ha.fun_mul hv.2.1, ha.fun_mul hv.2.2⟩

theorem DerivV.congr_of_eventuallyEq {v w : ℝ → V3 ℝ} {v' : V3 ℝ} (h : DerivV v v') (heq : ∀ᶠ t in 𝓝 (0 : ℝ), w t = v t) :
    DerivV w v' :=
  ⟨h.1.congr_of_eventuallyEq (heq.mono fun t ht => by show (w t).x = (v t).x; rw [ht]),
   h.2.1.congr_of_eventuallyEq (heq.mono fun t ht => by show (w t).y = (v t).y; rw [ht]),
   h.2.2.congr_of_eventuallyEq (heq.mono fun t ht => by show (w t).z = (v t).z; rw [ht])⟩

theorem DerivM.const (m : M3 ℝ) : DerivM (fun _ => m) m3Zero :=
  ⟨DerivV.const _, DerivV.const _, DerivV.const _⟩

theorem DerivM.add {m n : ℝ → M3 ℝ} {m' n' : M3 ℝ} (hm : DerivM m m') (hn : DerivM n n') :
    DerivM (fun t => M3.add (m t) (n t)) (M3.add m' n') :=
  ⟨hm.1.add hn.1, hm.2.1.add hn.2.1, hm.2.2.add hn.2.2⟩

/-- product rule, scalar curve times matrix curve -/
theorem DerivM.smul {a : ℝ → ℝ} {a' : ℝ} {m : ℝ → M3 ℝ} {m' : M3 ℝ} (ha : HasDerivAt a a' 0) (hm : DerivM m m') :
    DerivM (fun t => M3.smul (a t) (m t)) (M3.add (M3.smul a' (m 0)) (M3.smul (a 0) m')) :=
  ⟨DerivV.smul ha hm.1, DerivV.smul ha hm.2.1, DerivV.smul ha hm.2.2⟩

theorem DerivM.congr_of_eventuallyEq {m n : ℝ → M3 ℝ} {m' : M3 ℝ} (h : DerivM m m') (heq : ∀ᶠ t in 𝓝 (0 : ℝ), n t = m t) :
    DerivM n m' :=
  ⟨h.1.congr_of_eventuallyEq (heq.mono fun t ht => by show (n t).r0 = (m t).r0; rw [ht]),
   h.2.1.congr_of_eventuallyEq (heq.mono fun t ht => by show (n t).r1 = (m t).r1; rw [ht]),
   h.2.2.congr_of_eventuallyEq (heq.mono fun t ht => by show (n t).r2 = (m t).r2; rw [ht])⟩

theorem DerivM.congr_deriv {m : ℝ → M3 ℝ} {m' n' : M3 ℝ} (h : DerivM m m') (heq : m' = n') : DerivM m n' := heq ▸ h

/-- each of the nine entries of an entrywise-differentiable matrix curve -/
theorem DerivM.entry {m : ℝ → M3 ℝ} {m' : M3 ℝ} (h : DerivM m m') (e : M3 ℝ → ℝ)
    (he : e ∈ [fun m => m.r0.x, fun m => m.r0.y, fun m => m.r0.z, fun m => m.r1.x, fun m => m.r1.y, fun m => m.r1.z,
      fun m => m.r2.x, fun m => m.r2.y, fun m => m.r2.z]) :
    HasDerivAt (fun t => e (m t)) (e m') 0 := by
  simp only [List.mem_cons, List.not_mem_nil, or_false] at he
  rcases he with rfl | rfl | rfl | rfl | rfl | rfl | rfl | rfl | rfl
  exacts [h.1.1, h.1.2.1, h.1.2.2, h.2.1.1, h.2.1.2.1, h.2.1.2.2, h.2.2.1, h.2.2.2.1, h.2.2.2.2]

/-- the differential of `k ↦ k kᵀ` (as laid out by `outer`) at `k` in direction `k'` -/
def douter (k k' : V3 ℝ) : M3 ℝ :=
  ⟨⟨k'.x * k.x + k.x * k'.x, k'.y * k.x + k.y * k'.x, k'.z * k.x + k.z * k'.x⟩,
   ⟨k'.x * k.y + k.x * k'.y, k'.y * k.y + k.y * k'.y, k'.z * k.y + k.z * k'.y⟩,
   ⟨k'.x * k.z + k.x * k'.z, k'.y * k.z + k.y * k'.z, k'.z * k.z + k.z * k'.z⟩⟩

theorem derivM_outer {k : ℝ → V3 ℝ} {k' : V3 ℝ} (hk : DerivV k k') : DerivM (fun t => outer (k t)) (douter (k 0) k') :=
  ⟨⟨hk.1.fun_mul hk.1, hk.2.1.fun_mul hk.1, hk.2.2.fun_mul hk.1⟩,
   ⟨hk.1.fun_mul hk.2.1, hk.2.1.fun_mul hk.2.1, hk.2.2.fun_mul hk.2.1⟩,
   ⟨hk.1.fun_mul hk.2.2, hk.2.1.fun_mul hk.2.2, hk.2.2.fun_mul hk.2.2⟩⟩

theorem derivM_skew {k : ℝ → V3 ℝ} {k' : V3 ℝ} (hk : DerivV k k') : DerivM (fun t => skew (k t)) (skew k') :=
  ⟨⟨hasDerivAt_const _ _, hk.2.2.fun_neg, hk.2.1⟩,
   ⟨hk.2.2, hasDerivAt_const _ _, hk.1.fun_neg⟩,
   ⟨hk.2.1.fun_neg, hk.1, hasDerivAt_const _ _⟩⟩

/-- the straight line `t ↦ r + t·d` -/
theorem derivV_line (r d : V3 ℝ) : DerivV (fun t => r + V3.smul t d) d := by
  have h : ∀ a b : ℝ, HasDerivAt (fun t : ℝ => a + t * b) b 0 := by
    intro a b
    have := ((hasDerivAt_id (0 : ℝ)).mul_const b).const_add a
    simpa using this
  exact ⟨h r.x d.x, h r.y d.y, h r.z d.z⟩

theorem line_zero (r d : V3 ℝ) : r + V3.smul 0 d = r := by
  ext <;> simp

theorem dot_self_ne_zero (r : V3 ℝ) (h : 0 < r.norm) : r.dot r ≠ 0 := by
  intro h0
  rw [norm_def, h0, Real.sqrt_zero] at h
  exact lt_irrefl _ h

/-- `d/dt ‖p t‖ = (p·p')/‖p‖` at a point where `p ≠ 0` -/
theorem norm_curve_deriv {p : ℝ → V3 ℝ} {p' : V3 ℝ} (hp : DerivV p p') (hpos : 0 < (p 0).norm) :
    HasDerivAt (fun t => (p t).norm) ((p 0).dot p' / (p 0).norm) 0 := by
  have hq : HasDerivAt (fun t => (p t).dot (p t))
      (p'.x * (p 0).x + (p 0).x * p'.x + (p'.y * (p 0).y + (p 0).y * p'.y) + (p'.z * (p 0).z + (p 0).z * p'.z)) 0 :=
    ((hp.1.fun_mul hp.1).fun_add (hp.2.1.fun_mul hp.2.1)).fun_add (hp.2.2.fun_mul hp.2.2)
  have hn := hq.sqrt (dot_self_ne_zero _ hpos)
  refine hn.congr_deriv ?_
  have h0 : (p 0).norm ≠ 0 := ne_of_gt hpos
  rw [← norm_def, V3.dot_def]
  field_simp
  ring

/-- the value, at the base point `r` with `θ = ‖r‖`, of the derivative of Rodrigues' formula along a curve through
    `r` with velocity `d`: the product/chain rule applied to `c·I + (1 − c)·k kᵀ + s·[k]×`, `c = cos θ`, `s = sin θ`,
    `k = r/θ`, with `θ' = (r·d)/θ`, `c' = −s θ'`, `s' = c θ'`, `(1/θ)' = −θ'/θ²`, `k' = (1/θ)' r + d/θ` -/
noncomputable def rodDiff (r d : V3 ℝ) : M3 ℝ :=
  let θ := r.norm
  let θ' := r.dot d / θ
  let c := Real.cos θ
  let s := Real.sin θ
  let c' := -Real.sin θ * θ'
  let s' := Real.cos θ * θ'
  let it' := (0 * θ - 1 * θ') / θ ^ 2
  let k := V3.smul (1 / θ) r
  let k' := V3.smul it' r + V3.smul (1 / θ) d
  M3.add (M3.add (M3.add (M3.smul c' M3.one) (M3.smul c m3Zero))
      (M3.add (M3.smul (-c') (outer k)) (M3.smul (1 - c) (douter k k'))))
    (M3.add (M3.smul s' (skew k)) (M3.smul s (skew k')))

/-- Rodrigues' formula along a differentiable curve `p` with `p 0 ≠ 0` is entrywise differentiable at `0`, with
    derivative `rodDiff (p 0) p'` -/
theorem rod_curve_deriv {p : ℝ → V3 ℝ} {p' : V3 ℝ} (hp : DerivV p p') (hpos : 0 < (p 0).norm) :
    DerivM (fun t => rodFormula (Real.cos (p t).norm) (Real.sin (p t).norm) (V3.smul (1 / (p t).norm) (p t)))
      (rodDiff (p 0) p') := by
  have hθ := norm_curve_deriv hp hpos
  have hc : HasDerivAt (fun t => Real.cos (p t).norm) _ 0 := hθ.cos
  have hs : HasDerivAt (fun t => Real.sin (p t).norm) _ 0 := hθ.sin
  have hit : HasDerivAt (fun t => 1 / (p t).norm) _ 0 := (hasDerivAt_const (0 : ℝ) (1 : ℝ)).fun_div hθ (ne_of_gt hpos)
  have hk : DerivV (fun t => V3.smul (1 / (p t).norm) (p t)) _ := DerivV.smul hit hp
  have h1 : DerivM (fun t => M3.smul (Real.cos (p t).norm) M3.one) _ := DerivM.smul hc (DerivM.const M3.one)
  have h2 : DerivM (fun t => M3.smul (1 - Real.cos (p t).norm) (outer (V3.smul (1 / (p t).norm) (p t)))) _ :=
    DerivM.smul (hc.const_sub 1) (derivM_outer hk)
  have h3 : DerivM (fun t => M3.smul (Real.sin (p t).norm) (skew (V3.smul (1 / (p t).norm) (p t)))) _ :=
    DerivM.smul hs (derivM_skew hk)
  exact (h1.add h2).add h3

end PW.C10
