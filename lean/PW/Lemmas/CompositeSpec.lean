/-
  PW.Lemmas.CompositeSpec — specification vocabulary for C03 / C04 and the lemmas about the builders:
  the matrix pair a command appends (`StepCmd.build`), the *documented* action of a command on a point
  (`StepCmd.action` / `StepCmd.invAction`), which commands a history accepted, and what `exec` does.
  No property statements here.
-/
import PW.Lemmas.Composite

set_option linter.unusedSectionVars false

namespace PW.CT

/-! ### what a command appends -/

section Build
variable {K : Type} [Add K] [Sub K] [Mul K] [Div K] [Neg K] [OfNat K 0] [OfNat K 1]
  [LT K] [LE K] [DecidableLT K] [DecidableLE K] [BEq K]

/-- the (forward, inverse) pair an appending call stores, or the exception it raises -/
def StepCmd.build : StepCmd K → Res (Step K)
  | .appendTransform f i => .ok (f, i)
  | .appendTransformAuto f (.ok i) => .ok (f, i)
  | .appendTransformAuto _ (.error e) => .error e
  | .uniformScale s a => uniformScaleMatrix s a
  | .nonUniformScale x y z a => nonUniformScaleMatrix x y z a
  | .convertUnits s => uniformScaleMatrix s false
  | .flip d =>
    if d = 0 then nonUniformScaleMatrix (-1) 1 1 true
    else if d = 1 then nonUniformScaleMatrix 1 (-1) 1 true
    else if d = 2 then nonUniformScaleMatrix 1 1 (-1) true
    else .error .ValueError
  | .translate v => .ok (translationMatrix v)
  | .rotate r => .ok (rotationMatrix r)
  | .reorient (.ok r) => .ok (rotationMatrix r)
  | .reorient (.error e) => .error e

/-- every appending method is "build the pair, append it, return the old length" -/
theorem step_eq_build (c : Composite K) (cmd : StepCmd K) :
    c.step cmd = match cmd.build with
      | .ok s => .ok (c ++ [s], c.length)
      | .error e => .error e := by
  cases cmd with
  | appendTransform f i => rfl
  | appendTransformAuto f i => cases i <;> rfl
  | uniformScale s a =>
    simp only [Composite.step, Composite.uniformScale, StepCmd.build]
    cases uniformScaleMatrix s a <;> rfl
  | nonUniformScale x y z a =>
    simp only [Composite.step, Composite.nonUniformScale, StepCmd.build]
    cases nonUniformScaleMatrix x y z a <;> rfl
  | convertUnits s =>
    simp only [Composite.step, Composite.convertUnits, Composite.uniformScale, StepCmd.build]
    cases uniformScaleMatrix s false <;> rfl
  | flip d =>
    simp only [Composite.step, Composite.flip, Composite.nonUniformScale, StepCmd.build]
    split_ifs
    · cases nonUniformScaleMatrix (-1 : K) 1 1 true <;> rfl
    · cases nonUniformScaleMatrix (1 : K) (-1) 1 true <;> rfl
    · cases nonUniformScaleMatrix (1 : K) 1 (-1) true <;> rfl
    · rfl
  | translate v => rfl
  | rotate r => rfl
  | reorient r => cases r <;> rfl

/-- was the call accepted (no exception)? -/
def StepCmd.accepted (cmd : StepCmd K) : Bool :=
  match cmd.build with
  | .ok _ => true
  | .error _ => false

/-- the pair an accepted command stores (identity pair as a dummy for refused ones) -/
def StepCmd.stepOf (cmd : StepCmd K) : Step K :=
  match cmd.build with
  | .ok s => s
  | .error _ => (M4.one, M4.one)

/-- the accepted commands of a history, in order -/
def acceptedCmds (h : List (StepCmd K)) : List (StepCmd K) := h.filter StepCmd.accepted

theorem exec_fst (c : Composite K) (h : List (StepCmd K)) :
    (c.exec h).1 = c ++ (acceptedCmds h).map StepCmd.stepOf := by
  induction h generalizing c with
  | nil => simp [Composite.exec, acceptedCmds]
  | cons cmd rest ih =>
    unfold Composite.exec
    rw [step_eq_build]
    cases hb : cmd.build with
    | ok s =>
      simp only [ih, acceptedCmds, List.filter_cons, StepCmd.accepted, hb]
      simp [StepCmd.stepOf, hb]
    | error e =>
      simp only [ih, acceptedCmds, List.filter_cons, StepCmd.accepted, hb]
      simp

/-- what the calls of a history return, started in a state of length `n`: the k-th accepted call returns `n + k` -/
def expectedReturns (n : Nat) : List (StepCmd K) → List (Res Nat)
  | [] => []
  | cmd :: rest =>
    match cmd.build with
    | .ok _ => .ok n :: expectedReturns (n + 1) rest
    | .error e => .error e :: expectedReturns n rest

theorem exec_snd (c : Composite K) (h : List (StepCmd K)) :
    (c.exec h).2 = expectedReturns c.length h := by
  induction h generalizing c with
  | nil => simp [Composite.exec, expectedReturns]
  | cons cmd rest ih =>
    unfold Composite.exec expectedReturns
    rw [step_eq_build]
    cases hb : cmd.build with
    | ok s => simp [ih]
    | error e => simp [ih]

end Build

/-! ### documented actions -/

section Action
variable {K : Type} [Field K] [LinearOrder K] [IsStrictOrderedRing K]

/-- the documented effect of a step on a point (`av = true`: on a vector, which translations leave alone).
    An explicit matrix acts by homogeneous multiplication. -/
def StepCmd.action (cmd : StepCmd K) (av : Bool) (p : V3 K) : V3 K :=
  match cmd with
  | .appendTransform f _ => applyTransform f p av
  | .appendTransformAuto f _ => applyTransform f p av
  | .uniformScale s _ => V3.smul s p
  | .nonUniformScale x y z _ => ⟨x * p.x, y * p.y, z * p.z⟩
  | .convertUnits s => V3.smul s p
  | .flip d => if d = 0 then ⟨-p.x, p.y, p.z⟩ else if d = 1 then ⟨p.x, -p.y, p.z⟩ else ⟨p.x, p.y, -p.z⟩
  | .translate v => if av then p else p + v
  | .rotate r => r.mulVec p
  | .reorient (.ok r) => r.mulVec p
  | .reorient (.error _) => p

/-- the documented effect of undoing a step -/
def StepCmd.invAction (cmd : StepCmd K) (av : Bool) (p : V3 K) : V3 K :=
  match cmd with
  | .appendTransform _ i => applyTransform i p av
  | .appendTransformAuto _ (.ok i) => applyTransform i p av
  | .appendTransformAuto _ (.error _) => p
  | .uniformScale s _ => V3.sdiv p s
  | .nonUniformScale x y z _ => ⟨p.x / x, p.y / y, p.z / z⟩
  | .convertUnits s => V3.sdiv p s
  | .flip d => if d = 0 then ⟨-p.x, p.y, p.z⟩ else if d = 1 then ⟨p.x, -p.y, p.z⟩ else ⟨p.x, p.y, -p.z⟩
  | .translate v => if av then p else p - v
  | .rotate r => r.transpose.mulVec p
  | .reorient (.ok r) => r.transpose.mulVec p
  | .reorient (.error _) => p

/-- explicit matrices are affine (last row `0 0 0 1`); nothing is asked of the other commands -/
def StepCmd.Affine : StepCmd K → Prop
  | .appendTransform f i => IsAffine f ∧ IsAffine i
  | .appendTransformAuto f (.ok i) => IsAffine f ∧ IsAffine i
  | _ => True

/-- the stored inverse of an explicit matrix really is its inverse (hypothesis for a user-supplied `reverse`,
    contract of `np.linalg.inv` otherwise), and rotation matrices are orthogonal -/
def StepCmd.WellFormed : StepCmd K → Prop
  | .appendTransform f i => IsInvPair (f, i)
  | .appendTransformAuto f (.ok i) => IsInvPair (f, i)
  | .rotate r => M3.mul r r.transpose = M3.one ∧ M3.mul r.transpose r = M3.one
  | .reorient (.ok r) => M3.mul r r.transpose = M3.one ∧ M3.mul r.transpose r = M3.one
  | _ => True

/-! builders -/

theorem isAffine_diag4 (a b c : K) : IsAffine (diag4 a b c) := rfl

theorem apply_diag4 (a b c : K) (p : V3 K) (av : Bool) :
    applyTransform (diag4 a b c) p av = ⟨a * p.x, b * p.y, c * p.z⟩ := by
  cases av <;> ext <;> simp [applyTransform, diag4, M4.mulVec, V4.dot, V4.xyz]

theorem diag4_mul (a b c a' b' c' : K) : diag4 a b c * diag4 a' b' c' = diag4 (a * a') (b * b') (c * c') := by
  simp only [m4_mul_def]
  ext <;> simp [diag4, M4.mul, V4.dot, M4.col0, M4.col1, M4.col2, M4.col3]

theorem diag4_one : diag4 (1 : K) 1 1 = 1 := rfl

theorem nonUniformScaleMatrix_ok {x y z : K} {a : Bool} {s : Step K}
    (h : nonUniformScaleMatrix x y z a = .ok s) :
    x ≠ 0 ∧ y ≠ 0 ∧ z ≠ 0 ∧ (a = false → 0 < x ∧ 0 < y ∧ 0 < z) ∧
      s = (diag4 x y z, diag4 (1 / x) (1 / y) (1 / z)) := by
  unfold nonUniformScaleMatrix at h
  split_ifs at h with h1 h2
  · simp only [Bool.or_eq_true, beq_iff_eq, not_or] at h1
    simp only [Bool.and_eq_true, Bool.not_eq_true', Bool.or_eq_true, decide_eq_true_eq, not_and, not_or, not_lt] at h2
    injection h with h
    refine ⟨h1.1.1, h1.1.2, h1.2, ?_, h.symm⟩
    intro ha
    have := h2 ha
    exact ⟨lt_of_le_of_ne this.1.1 (Ne.symm h1.1.1), lt_of_le_of_ne this.1.2 (Ne.symm h1.1.2),
      lt_of_le_of_ne this.2 (Ne.symm h1.2)⟩

theorem uniformScaleMatrix_ok {x : K} {a : Bool} {s : Step K} (h : uniformScaleMatrix x a = .ok s) :
    x ≠ 0 ∧ (a = false → 0 < x) ∧ s = (diag4 x x x, diag4 (1 / x) (1 / x) (1 / x)) := by
  unfold uniformScaleMatrix at h
  split_ifs at h with h1 h2
  have := nonUniformScaleMatrix_ok h
  exact ⟨this.1, fun ha => (this.2.2.2.1 ha).1, this.2.2.2.2⟩

theorem isInvPair_diag4 {x y z : K} (hx : x ≠ 0) (hy : y ≠ 0) (hz : z ≠ 0) :
    IsInvPair (diag4 x y z, diag4 (1 / x) (1 / y) (1 / z)) := by
  constructor <;> simp only [diag4_mul] <;> rw [← diag4_one] <;> congr 1 <;> field_simp

theorem isAffine_translation (v : V3 K) : IsAffine (translationMatrix v).1 ∧ IsAffine (translationMatrix v).2 :=
  ⟨rfl, rfl⟩

theorem apply_translation (v p : V3 K) (av : Bool) :
    applyTransform (translationMatrix v).1 p av = if av then p else p + v := by
  cases av <;> ext <;> simp [applyTransform, translationMatrix, M4.mulVec, V4.dot, V4.xyz]

theorem apply_translation_inv (v p : V3 K) (av : Bool) :
    applyTransform (translationMatrix v).2 p av = if av then p else p - v := by
  cases av <;> ext <;> simp [applyTransform, translationMatrix, M4.mulVec, V4.dot, V4.xyz] <;> ring

theorem isInvPair_translation (v : V3 K) : IsInvPair (translationMatrix v) := by
  constructor <;> simp only [m4_mul_def, m4_one_def] <;> ext <;>
    simp [translationMatrix, M4.mul, M4.one, V4.dot, M4.col0, M4.col1, M4.col2, M4.col3]

theorem ofM3_mul (a b : M3 K) : M4.ofM3 (M3.mul a b) = M4.ofM3 a * M4.ofM3 b := by
  simp only [m4_mul_def]
  ext <;> simp [M4.ofM3, M3.mul, M4.mul, V3.dot, V4.dot, M3.col0, M3.col1, M3.col2, M4.col0, M4.col1, M4.col2, M4.col3]

theorem ofM3_one : M4.ofM3 (M3.one : M3 K) = 1 := rfl

theorem ofM3_transpose (r : M3 K) : (M4.ofM3 r).transpose = M4.ofM3 r.transpose := rfl

theorem isAffine_ofM3 (r : M3 K) : IsAffine (M4.ofM3 r) := rfl

theorem apply_ofM3 (r : M3 K) (p : V3 K) (av : Bool) : applyTransform (M4.ofM3 r) p av = r.mulVec p := by
  cases av <;> ext <;> simp [applyTransform, M4.ofM3, M4.mulVec, M3.mulVec, V3.dot, V4.dot, V4.xyz]

theorem isInvPair_rotation {r : M3 K} (h1 : M3.mul r r.transpose = M3.one) (h2 : M3.mul r.transpose r = M3.one) :
    IsInvPair (rotationMatrix r) := by
  simp only [rotationMatrix, IsInvPair, ofM3_transpose, ← ofM3_mul, h1, h2, ofM3_one, and_self]

end Action

end PW.CT
