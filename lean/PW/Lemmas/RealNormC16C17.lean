/-
  PW.Lemmas.RealNormC16C17 — `PW.Sqrt ℝ := Real.sqrt` and the facts about `V3.norm` / `V3.normalize` over ℝ
  used by the C16 and C17 theorems (helper lemmas only).
-/
import PW.Vec
import PW.Lemmas.Vec
import Mathlib.Tactic.Ring
import Mathlib.Tactic.Linarith
import Mathlib.Tactic.FieldSimp
import Mathlib.Analysis.Real.Sqrt

set_option linter.unusedSectionVars false

namespace PW.RealNorm

noncomputable instance instSqrtReal : PW.Sqrt ℝ := ⟨Real.sqrt⟩

theorem norm_real (a : V3 ℝ) : V3.norm a = Real.sqrt (a.x * a.x + a.y * a.y + a.z * a.z) := rfl

theorem normSq_pos (c : V3 ℝ) (hc : c ≠ V3.zero) : 0 < c.x * c.x + c.y * c.y + c.z * c.z := by
  by_contra h
  rw [not_lt] at h
  have hx : c.x = 0 := by nlinarith [mul_self_nonneg c.x, mul_self_nonneg c.y, mul_self_nonneg c.z]
  have hy : c.y = 0 := by nlinarith [mul_self_nonneg c.x, mul_self_nonneg c.y, mul_self_nonneg c.z]
  have hz : c.z = 0 := by nlinarith [mul_self_nonneg c.x, mul_self_nonneg c.y, mul_self_nonneg c.z]
  exact hc (V3.ext hx hy hz)

/-- the normalised vector of a non-zero vector: positive norm, unit length, `c · ĉ = ‖c‖`, `c = ‖c‖ ĉ` -/
theorem unit_facts (c : V3 ℝ) (hc : c ≠ V3.zero) :
    0 < V3.norm c ∧ (V3.normalize c).dot (V3.normalize c) = 1 ∧ c.dot (V3.normalize c) = V3.norm c ∧
      V3.norm (V3.normalize c) = 1 ∧ c = V3.smul (V3.norm c) (V3.normalize c) := by
  have hq := normSq_pos c hc
  have hm : 0 < V3.norm c := by rw [norm_real]; exact Real.sqrt_pos.mpr hq
  have hmm : V3.norm c * V3.norm c = c.x * c.x + c.y * c.y + c.z * c.z := by
    rw [norm_real]; exact Real.mul_self_sqrt hq.le
  have hne : V3.norm c ≠ 0 := hm.ne'
  have h1 : (V3.normalize c).dot (V3.normalize c) = 1 := by
    simp only [V3.normalize, V3.dot_def, V3.sdiv_x, V3.sdiv_y, V3.sdiv_z]
    field_simp
    linarith
  refine ⟨hm, h1, ?_, ?_, ?_⟩
  · simp only [V3.normalize, V3.dot_def, V3.sdiv_x, V3.sdiv_y, V3.sdiv_z]
    field_simp
    linarith
  · rw [norm_real]
    rw [V3.dot_def] at h1
    rw [h1]
    exact Real.sqrt_one
  · ext <;> simp only [V3.normalize, V3.smul_x, V3.smul_y, V3.smul_z, V3.sdiv_x, V3.sdiv_y, V3.sdiv_z] <;>
      field_simp

/-- normalising a unit vector changes nothing -/
theorem normalize_unit (a : V3 ℝ) (h : V3.norm a = 1) : V3.normalize a = a := by
  ext <;> simp [V3.normalize, h]

end PW.RealNorm
