/-
  PW.Lemmas.C12 — helper lemmas for C12: the camera frame `left, left × look, look`, the action of
  `rotation · translation`, orthogonal matrices preserve `‖·‖²`.  No property statements here.
-/
import PW.Vec
import PW.Model.Affine
import PW.Model.Viewing
import PW.Lemmas.Vec
import PW.Lemmas.C11
import PW.Lemmas.C11Real

set_option linter.unusedSectionVars false

namespace PW.C12

open PW.C11

section field
variable {K : Type} [Field K]

/-- rows `a, a × l, l` for orthonormal `a, l`: orthonormal rows, determinant `−1` (a left-handed frame) -/
theorem frame_al (a l : V3 K) (ha : a.dot a = 1) (hl : l.dot l = 1) (hal : a.dot l = 0) :
    (⟨a, a.cross l, l⟩ : M3 K).mul (⟨a, a.cross l, l⟩ : M3 K).transpose = M3.one ∧
    (⟨a, a.cross l, l⟩ : M3 K).transpose.mul (⟨a, a.cross l, l⟩ : M3 K) = M3.one ∧
    (⟨a, a.cross l, l⟩ : M3 K).det = -1 := by
  have hrows : (⟨a, a.cross l, l⟩ : M3 K).mul (⟨a, a.cross l, l⟩ : M3 K).transpose = M3.one := by
    simp only [V3.dot_def] at ha hl hal
    ext <;> mat_simp
    · exact ha
    · ring
    · exact hal
    · ring
    · linear_combination (l.x * l.x + l.y * l.y + l.z * l.z) * ha + hl - (a.x * l.x + a.y * l.y + a.z * l.z) * hal
    · ring
    · linear_combination hal
    · ring
    · exact hl
  refine ⟨hrows, ?_, ?_⟩
  · exact mul_transpose_of_transpose_mul (⟨a, a.cross l, l⟩ : M3 K).transpose hrows
  · simp only [V3.dot_def] at ha hl hal
    mat_simp
    linear_combination (a.x * l.x + a.y * l.y + a.z * l.z) * hal - (l.x * l.x + l.y * l.y + l.z * l.z) * ha - hl

/-- an orthogonal matrix preserves the squared norm -/
theorem normSq_mulVec (r : M3 K) (h : r.transpose.mul r = M3.one) (v : V3 K) :
    (r.mulVec v).normSq = v.normSq := by
  obtain ⟨h0, h1, h2⟩ := M3.ext_iff.mp h
  obtain ⟨h00, h01, h02⟩ := V3.ext_iff.mp h0
  obtain ⟨h10, h11, h12⟩ := V3.ext_iff.mp h1
  obtain ⟨h20, h21, h22⟩ := V3.ext_iff.mp h2
  simp only [M3.mul, M3.one, M3.transpose, M3.col0, M3.col1, M3.col2, V3.dot] at h00 h01 h02 h10 h11 h12 h20 h21 h22
  simp only [V3.normSq_def, M3.mulVec, V3.dot]
  linear_combination (v.x * v.x) * h00 + (v.x * v.y) * h01 + (v.x * v.z) * h02 + (v.y * v.x) * h10 +
    (v.y * v.y) * h11 + (v.y * v.z) * h12 + (v.z * v.x) * h20 + (v.z * v.y) * h21 + (v.z * v.z) * h22

theorem mulVec_sub (r : M3 K) (u v : V3 K) : r.mulVec (u - v) = r.mulVec u - r.mulVec v := by
  ext <;> mat_simp <;> ring

theorem cross_smul_left (n : K) (a b : V3 K) : (V3.smul n a).cross b = V3.smul n (a.cross b) := by
  ext <;> mat_simp <;> ring

end field

section apply
variable {K : Type} [Field K] [LinearOrder K] [IsStrictOrderedRing K]

/-- `rotation · translation(−c)` sends a point `p` to `R (p − c)` and a vector `v` to `R v` -/
theorem apply_rot_trans (r : M3 K) (c p : V3 K) :
    applyTransform ((M4.ofM3 r).mul (translationMatrix (-c)).1) p false = r.mulVec (p - c) ∧
    applyTransform ((M4.ofM3 r).mul (translationMatrix (-c)).1) p true = r.mulVec p := by
  constructor <;> (ext <;> simp [applyTransform, translationMatrix] <;> mat_simp <;> ring)

theorem trans_neg_mul_trans (c : V3 K) :
    (translationMatrix (-c)).1.mul (translationMatrix c).1 = M4.one ∧
    (translationMatrix c).1.mul (translationMatrix (-c)).1 = M4.one := by
  constructor <;> (ext <;> simp only [translationMatrix] <;> mat_simp <;> ring)

end apply

/-! ### the camera frame of world_to_view over ℝ -/

section camera

theorem w2v_fwd_eq (pos tgt up : V3 ℝ) :
    worldToView pos tgt up false =
      (M4.ofM3 (viewRotation3 pos tgt up)).mul (translationMatrix (-pos)).1 := rfl

theorem w2v_inv_eq (pos tgt up : V3 ℝ) :
    worldToView pos tgt up true =
      (translationMatrix pos).1.mul (M4.ofM3 (viewRotation3 pos tgt up).transpose) := rfl

/-- for `target ≠ position` and `up ∦ target − position` the rows are `a, a × l, l` with orthonormal `a`, `l`;
    `l` is the unit view direction, `a ⟂ up`, and `(a × l)·up > 0` -/
theorem camera_frame (pos tgt up : V3 ℝ) (hd : tgt - pos ≠ V3.zero) (hc : (tgt - pos).cross up ≠ V3.zero) :
    ∃ a l : V3 ℝ, viewRotation3 pos tgt up = ⟨a, a.cross l, l⟩ ∧ a.dot a = 1 ∧ l.dot l = 1 ∧ a.dot l = 0 ∧
      tgt - pos = V3.smul (tgt - pos).norm l ∧ a.dot up = 0 ∧ 0 < (a.cross l).dot up := by
  obtain ⟨hdl, hl⟩ := normalize_spec (tgt - pos) hd
  have hcl : (V3.sdiv (tgt - pos) (tgt - pos).norm).cross up ≠ V3.zero := by
    intro h
    apply hc
    rw [hdl, cross_smul_left, h]
    ext <;> simp
  obtain ⟨hca, ha⟩ := normalize_spec _ hcl
  have hm := norm_pos _ hcl
  refine ⟨V3.sdiv ((V3.sdiv (tgt - pos) (tgt - pos).norm).cross up)
      ((V3.sdiv (tgt - pos) (tgt - pos).norm).cross up).norm, V3.sdiv (tgt - pos) (tgt - pos).norm,
    rfl, ha, hl, ?_, hdl, ?_, ?_⟩
  all_goals
    generalize V3.sdiv ((V3.sdiv (tgt - pos) (tgt - pos).norm).cross up)
      ((V3.sdiv (tgt - pos) (tgt - pos).norm).cross up).norm = a at hca ha ⊢
    generalize ((V3.sdiv (tgt - pos) (tgt - pos).norm).cross up).norm = m at hca hm ⊢
    generalize V3.sdiv (tgt - pos) (tgt - pos).norm = l at hca ⊢
    obtain ⟨hcx, hcy, hcz⟩ := V3.ext_iff.mp hca
    simp only [V3.cross_x, V3.cross_y, V3.cross_z, V3.smul_x, V3.smul_y, V3.smul_z] at hcx hcy hcz
    simp only [V3.dot_def] at ha
  · apply mul_left_cancel₀ hm.ne'
    simp only [V3.dot_def]
    linear_combination (-l.x) * hcx + (-l.y) * hcy + (-l.z) * hcz
  · apply mul_left_cancel₀ hm.ne'
    simp only [V3.dot_def]
    linear_combination (-up.x) * hcx + (-up.y) * hcy + (-up.z) * hcz
  · have : (a.cross l).dot up = m := by
      simp only [V3.dot_def, V3.cross_x, V3.cross_y, V3.cross_z]
      linear_combination a.x * hcx + a.y * hcy + a.z * hcz + m * ha
    rw [this]; exact hm

end camera

end PW.C12
