/-
  PW.Lemmas.PlaneTilt — helper lemmas for the `tilted` clause of C13 (no property statements here):
  the vg pieces (`reject`, `angle(look=)`, `signed_angle`, `rotate`) evaluated over ℝ on the configuration that
  `Plane.tilted` produces, and the algebra of the rotated normal.
-/
import PW.Model.PlaneCtor
import PW.Lemmas.Vec
import PW.Lemmas.PlaneCtor

set_option linter.unusedSectionVars false
set_option linter.unusedVariables false

namespace PW.PC

section Field
variable {K : Type} [Field K] [LinearOrder K] [IsStrictOrderedRing K]

theorem clip1_of_mem (c : K) (h1 : -1 ≤ c) (h2 : c ≤ 1) : clip1 c = c := by
  unfold clip1
  simp only
  rw [if_neg (not_lt.mpr h1), if_neg (not_lt.mpr h2)]

/-- `((u × n) × n)·x = (u·n)(n·x) − (n·n)(u·x)` -/
theorem triple_dot (u n x : V3 K) :
    ((u.cross n).cross n).dot x = u.dot n * n.dot x - n.normSq * u.dot x := by
  simp only [V3.dot_def, V3.normSq_def, V3.cross_x, V3.cross_y, V3.cross_z]; ring

theorem cross_sdiv_left (a b : V3 K) (c : K) : (a.sdiv c).cross b = (a.cross b).sdiv c := by
  ext <;> simp only [V3.cross_x, V3.cross_y, V3.cross_z, V3.sdiv_x, V3.sdiv_y, V3.sdiv_z] <;> ring

theorem projectPoint_eq (pl : Plane K) (p : V3 K) :
    pl.projectPoint p = p - V3.smul (pl.signedDistance p) pl.n := by
  ext <;>
  simp only [Plane.projectPoint, projectPointToPlane, translateAlongNormal, projectFactor, Plane.signedDistance,
    eqNormal, Plane.equation, V3.add_x, V3.add_y, V3.add_z, V3.sub_x, V3.sub_y, V3.sub_z,
    V3.smul_x, V3.smul_y, V3.smul_z] <;> ring

theorem sd_def (pl : Plane K) (p : V3 K) : pl.signedDistance p = (p - pl.ref).dot pl.n := by
  simp only [Plane.signedDistance, signedDistanceEq, Plane.equation, eqNormal, eqOffset, V3.dot_def, V3.sub_x,
    V3.sub_y, V3.sub_z]
  ring

/-- the algebra of `tilted`: with `u ⊥ n`, `‖n‖ = 1`, `r = ‖u‖`, `w = u + d n`, `W = ‖w‖`, axis `a = (u × n)/r`,
    `cos θ = r/W`, `sin θ = d/W`, the Rodrigues-rotated normal is a unit vector orthogonal to `w`. -/
theorem tilt_algebra (u n w : V3 K) (d r W : K) (hr : r ≠ 0) (hW : W ≠ 0)
    (hrr : r * r = u.normSq) (hWW : W * W = w.normSq)
    (hun : u.dot n = 0) (hnn : n.normSq = 1) (hw : w = u + V3.smul d n) :
    (V3.smul (r / W) n + V3.smul (d / W) (((u.cross n).sdiv r).cross n)
        + V3.smul ((1 - r / W) * ((u.cross n).sdiv r).dot n) ((u.cross n).sdiv r)).dot w = 0 ∧
    (V3.smul (r / W) n + V3.smul (d / W) (((u.cross n).sdiv r).cross n)
        + V3.smul ((1 - r / W) * ((u.cross n).sdiv r).dot n) ((u.cross n).sdiv r)).normSq = 1 := by
  have han : ((u.cross n).sdiv r).dot n = 0 := by rw [dot_sdiv_left, cross_dot_right, zero_div]
  rw [han, mul_zero]
  have hnw : n.dot w = d := by
    rw [hw]
    have : n.dot (u + V3.smul d n) = u.dot n + d * n.normSq := by
      simp only [V3.dot_def, V3.normSq_def, V3.add_x, V3.add_y, V3.add_z, V3.smul_x, V3.smul_y, V3.smul_z]; ring
    rw [this, hun, hnn]; ring
  have huw : u.dot w = r * r := by
    rw [hw, hrr]
    have : u.dot (u + V3.smul d n) = u.normSq + d * u.dot n := by
      simp only [V3.dot_def, V3.normSq_def, V3.add_x, V3.add_y, V3.add_z, V3.smul_x, V3.smul_y, V3.smul_z]; ring
    rw [this, hun]; ring
  have hww : W * W = r * r + d * d := by
    rw [hWW, hw, hrr]
    have : (u + V3.smul d n).normSq = u.normSq + 2 * d * u.dot n + d * d * n.normSq := by
      simp only [V3.dot_def, V3.normSq_def, V3.add_x, V3.add_y, V3.add_z, V3.smul_x, V3.smul_y, V3.smul_z]; ring
    rw [this, hun, hnn]; ring
  -- (a × n)·w = −r
  have hanw : (((u.cross n).sdiv r).cross n).dot w = -r := by
    rw [cross_sdiv_left, dot_sdiv_left, triple_dot, hun, hnn, huw]
    field_simp
    ring
  -- |a × n|² = 1, n·(a × n) = 0
  have hann : (((u.cross n).sdiv r).cross n).normSq = 1 := by
    rw [cross_sdiv_left, normSq_sdiv, normSq_cross, normSq_cross, hun, hnn, cross_dot_right, ← hrr]
    field_simp
    ring
  have hnan : n.dot (((u.cross n).sdiv r).cross n) = 0 := by
    rw [dot_comm, cross_dot_right]
  constructor
  · have e : ∀ (p q t : V3 K) (x y : K),
        (V3.smul x p + V3.smul y q + V3.smul 0 t).dot w = x * p.dot w + y * q.dot w := by
      intro p q t x y
      simp only [V3.dot_def, V3.add_x, V3.add_y, V3.add_z, V3.smul_x, V3.smul_y, V3.smul_z]; ring
    rw [e, hnw, hanw]
    field_simp
    ring
  · have e : ∀ (p q t : V3 K) (x y : K),
        (V3.smul x p + V3.smul y q + V3.smul 0 t).normSq =
          x * x * p.normSq + 2 * x * y * p.dot q + y * y * q.normSq := by
      intro p q t x y
      simp only [V3.dot_def, V3.normSq_def, V3.add_x, V3.add_y, V3.add_z, V3.smul_x, V3.smul_y, V3.smul_z]; ring
    rw [e, hnn, hnan, hann]
    field_simp
    linear_combination (-1 : K) * hww

end Field

/-! ## ℝ -/

theorem trig_cos (x : ℝ) : Trig.cos x = Real.cos x := rfl
theorem trig_sin (x : ℝ) : Trig.sin x = Real.sin x := rfl
theorem trig_acos (x : ℝ) : Trig.acos x = Real.arccos x := rfl

/-- rejecting a vector from a unit direction it is orthogonal to leaves it unchanged -/
theorem rejectV_of_perp (v a : V3 ℝ) (ha : a.normSq = 1) (hva : v.dot a = 0) : rejectV v a = some v := by
  unfold rejectV projectV
  rw [normalize?_of_unit a ha]
  simp only [Option.map_some, hva]
  congr 1
  ext <;> simp

theorem angleLook_of_perp (v1 v2 a : V3 ℝ) (ha : a.normSq = 1) (h1 : v1.dot a = 0) (h2 : v2.dot a = 0)
    (hv1 : v1 ≠ V3.zero) (hv2 : v2 ≠ V3.zero) :
    angleLook v1 v2 a = some (Real.arccos (clip1 (v1.dot v2 / v1.norm / v2.norm))) := by
  unfold angleLook
  rw [rejectV_of_perp v1 a ha h1, rejectV_of_perp v2 a ha h2]
  simp only
  rw [if_pos ⟨(norm_pos_iff v1).mpr hv1, (norm_pos_iff v2).mpr hv2⟩]
  rfl

theorem rotateV_of_unit (v a : V3 ℝ) (θ : ℝ) (ha : a.normSq = 1) :
    rotateV v a θ = some (V3.smul (Real.cos θ) v + V3.smul (Real.sin θ) (a.cross v)
      + V3.smul ((1 - Real.cos θ) * a.dot v) a) := by
  unfold rotateV
  rw [normalize?_of_unit a ha]
  rfl

/-- evaluation of `Plane.tilted` when the plane has a unit normal, `coplanar_point` lies on it and the projection
    of `new_point` is not `coplanar_point`: a plane through `coplanar_point` is returned whose normal is a unit
    vector orthogonal to `new_point − coplanar_point`. -/
theorem tilted_eval (pl : Plane ℝ) (newP cp : V3 ℝ) (hn : pl.n.normSq = 1) (hcp : pl.signedDistance cp = 0)
    (hoff : pl.projectPoint newP ≠ cp) :
    ∃ n' : V3 ℝ, pl.tilted newP cp = .ok ⟨cp, n'⟩ ∧ n'.normSq = 1 ∧ n'.dot (newP - cp) = 0 := by
  obtain ⟨d, hd⟩ : ∃ d, d = pl.signedDistance newP := ⟨_, rfl⟩
  obtain ⟨u, hu⟩ : ∃ u, u = pl.projectPoint newP - cp := ⟨_, rfl⟩
  obtain ⟨w, hw⟩ : ∃ w, w = newP - cp := ⟨_, rfl⟩
  have hu0 : u ≠ V3.zero := by
    intro h0
    apply hoff
    rw [h0] at hu
    have hx := congrArg V3.x hu; have hy := congrArg V3.y hu; have hz := congrArg V3.z hu
    simp only [V3.zero_x, V3.zero_y, V3.zero_z, V3.sub_x, V3.sub_y, V3.sub_z] at hx hy hz
    ext <;> linarith
  -- u ⊥ n, w = u + d n
  have hun : u.dot pl.n = 0 := by
    rw [hu, projectPoint_eq, ← hd]
    rw [sd_def] at hd hcp
    simp only [V3.dot_def, V3.normSq_def, V3.sub_x, V3.sub_y, V3.sub_z, V3.smul_x, V3.smul_y, V3.smul_z] at hd hcp hn ⊢
    linear_combination (-d) * hn - hcp - hd
  have hwu : w = u + V3.smul d pl.n := by
    rw [hw, hu, projectPoint_eq, ← hd]
    ext <;> simp only [V3.add_x, V3.add_y, V3.add_z, V3.sub_x, V3.sub_y, V3.sub_z, V3.smul_x, V3.smul_y, V3.smul_z] <;> ring
  -- lengths
  have hcn : (u.cross pl.n).normSq = u.normSq := by rw [normSq_cross, hn, hun]; ring
  have hc0 : u.cross pl.n ≠ V3.zero := by
    intro h0
    have := normSq_pos_of_ne_zero u hu0
    rw [← hcn, h0] at this
    simp [V3.normSq_def] at this
  have hcnorm : (u.cross pl.n).norm = u.norm := by rw [norm_real, norm_real, hcn]
  have hr : 0 < u.norm := (norm_pos_iff u).mpr hu0
  have hwn : w.normSq = u.normSq + d * d := by
    rw [hwu]
    have : (u + V3.smul d pl.n).normSq = u.normSq + 2 * d * u.dot pl.n + d * d * pl.n.normSq := by
      simp only [V3.dot_def, V3.normSq_def, V3.add_x, V3.add_y, V3.add_z, V3.smul_x, V3.smul_y, V3.smul_z]; ring
    rw [this, hun, hn]; ring
  have hw0 : w ≠ V3.zero := by
    intro h0
    have := normSq_pos_of_ne_zero u hu0
    have hz : (V3.zero : V3 ℝ).normSq = 0 := by simp [V3.normSq_def]
    rw [h0, hz] at hwn
    nlinarith [mul_self_nonneg d]
  have hW : 0 < w.norm := (norm_pos_iff w).mpr hw0
  have hrW : u.norm ≤ w.norm := by
    rw [norm_real, norm_real]
    apply Real.sqrt_le_sqrt
    rw [hwn]; nlinarith [mul_self_nonneg d]
  -- the axis
  obtain ⟨a, hadef⟩ : ∃ a, a = (u.cross pl.n).sdiv u.norm := ⟨_, rfl⟩
  have ha : a.normSq = 1 := by rw [hadef, ← hcnorm]; exact normSq_sdiv_norm _ hc0
  have hua : u.dot a = 0 := by rw [hadef, dot_sdiv_right, dot_comm, cross_dot_left, zero_div]
  have hna : pl.n.dot a = 0 := by rw [hadef, dot_sdiv_right, dot_comm, cross_dot_right, zero_div]
  have hwa : w.dot a = 0 := by
    rw [hwu]
    have : (u + V3.smul d pl.n).dot a = u.dot a + d * pl.n.dot a := by
      simp only [V3.dot_def, V3.add_x, V3.add_y, V3.add_z, V3.smul_x, V3.smul_y, V3.smul_z]; ring
    rw [this, hua, hna]; ring
  -- the sign
  have hs : (u.cross w).dot a = d * u.norm := by
    rw [hadef, dot_sdiv_right, hwu]
    have : (u.cross (u + V3.smul d pl.n)).dot (u.cross pl.n) = d * (u.cross pl.n).normSq := by
      simp only [V3.dot_def, V3.normSq_def, V3.cross_x, V3.cross_y, V3.cross_z, V3.add_x, V3.add_y, V3.add_z,
        V3.smul_x, V3.smul_y, V3.smul_z]; ring
    rw [this, hcn, ← norm_mul_self u]
    field_simp
  -- the cosine
  have huw : u.dot w = u.norm * u.norm := by
    rw [hwu, norm_mul_self]
    have : u.dot (u + V3.smul d pl.n) = u.normSq + d * u.dot pl.n := by
      simp only [V3.dot_def, V3.normSq_def, V3.add_x, V3.add_y, V3.add_z, V3.smul_x, V3.smul_y, V3.smul_z]; ring
    rw [this, hun]; ring
  have hcos : u.dot w / u.norm / w.norm = u.norm / w.norm := by
    rw [huw]; field_simp
  have hx0 : 0 ≤ u.norm / w.norm := div_nonneg hr.le hW.le
  have hx1 : u.norm / w.norm ≤ 1 := (div_le_one hW).mpr hrW
  have hWW : w.norm * w.norm = u.norm * u.norm + d * d := by
    rw [norm_mul_self, norm_mul_self, hwn]
  have hsinα : Real.sin (Real.arccos (u.norm / w.norm)) = |d| / w.norm := by
    rw [Real.sin_arccos]
    have : 1 - (u.norm / w.norm) ^ 2 = (|d| / w.norm) ^ 2 := by
      rw [div_pow, div_pow, sq_abs]
      field_simp
      nlinarith [hWW]
    rw [this, Real.sqrt_sq (div_nonneg (abs_nonneg d) hW.le)]
  have hcosα : Real.cos (Real.arccos (u.norm / w.norm)) = u.norm / w.norm :=
    Real.cos_arccos (by linarith) hx1
  -- evaluate the model
  have hev : pl.tilted newP cp =
      Plane.mkOpt? cp (rotateV pl.n a ((if (u.cross w).dot a < 0 then (-1 : ℝ) else 1)
        * Real.arccos (u.norm / w.norm))) none := by
    unfold Plane.tilted
    simp only
    rw [← hu, ← hw, normalize?_of_ne_zero _ hc0, hcnorm, ← hadef]
    simp only
    unfold signedAngle
    rw [angleLook_of_perp u w a ha hua hwa hu0 hw0, hcos, clip1_of_mem _ (by linarith) hx1]
    rfl
  rw [hev, rotateV_of_unit _ _ _ ha]
  -- cos θ and sin θ
  obtain ⟨θ, hθ⟩ : ∃ θ, θ = (if (u.cross w).dot a < 0 then (-1 : ℝ) else 1) * Real.arccos (u.norm / w.norm) :=
    ⟨_, rfl⟩
  rw [← hθ]
  have hcθ : Real.cos θ = u.norm / w.norm := by
    rw [hθ]
    split_ifs
    · rw [neg_one_mul, Real.cos_neg, hcosα]
    · rw [one_mul, hcosα]
  have hsθ : Real.sin θ = d / w.norm := by
    rw [hθ, hs]
    split_ifs with hneg
    · have hdneg : d < 0 := by
        by_contra hge
        exact absurd hneg (not_lt.mpr (mul_nonneg (not_lt.mp hge) hr.le))
      rw [neg_one_mul, Real.sin_neg, hsinα, abs_of_neg hdneg]; ring
    · have hdpos : 0 ≤ d := by
        by_contra hlt
        exact hneg (mul_neg_of_neg_of_pos (not_le.mp hlt) hr)
      rw [one_mul, hsinα, abs_of_nonneg hdpos]
  rw [hcθ, hsθ, hadef]
  obtain ⟨h1, h2⟩ := tilt_algebra u pl.n w d u.norm w.norm (ne_of_gt hr) (ne_of_gt hW)
    (norm_mul_self u) (norm_mul_self w) hun hn hwu
  refine ⟨_, ?_, h2, ?_⟩
  · exact Plane.mk?_of_unit _ _ _ h2
  · rw [← hw]; exact h1

end PW.PC
