import PW.Num
import PW.Vec
import PW.Err
import PW.Model.Plane
