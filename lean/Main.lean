/-
  pwdriver — executes the polliwog model on operation lines (stdin → stdout).
  usage: pwdriver (rat|float)
-/
import PW.Driver.Core
import PW.Driver.C05

open PW PW.Driver

def tableRat : List (String × Handler) := c05Ops (K := NRat)
def tableFloat : List (String × Handler) := c05Ops (K := Float)

partial def loop (h : IO.FS.Stream) (out : IO.FS.Stream) (tbl : String → Option Handler) : IO Unit := do
  let line ← h.getLine
  if line.isEmpty then return ()
  let l := line.trimAscii.toString
  if l.isEmpty || l.startsWith "#" then
    out.putStrLn l
  else
    out.putStrLn (runLine tbl l)
  loop h out tbl

def main (args : List String) : IO UInt32 := do
  let stdin ← IO.getStdin
  let stdout ← IO.getStdout
  match args with
  | ["rat"] => loop stdin stdout (lookup tableRat); return 0
  | ["float"] => loop stdin stdout (lookup tableFloat); return 0
  | _ => IO.eprintln "usage: pwdriver (rat|float)"; return 2
