"""Shared by c03.py / c04.py: transform-step specs, how they are run on the real objects, how they are
written on a driver line, and their *documented* action (for the oracles, in exact rationals).

step specs (JSON-able lists):
    ["translate", [x, y, z]]
    ["uniform_scale", s, allow_flipping]
    ["non_uniform_scale", [x, y, z], allow_flipping]
    ["convert_units", from_units, to_units]
    ["flip", dim]
    ["rotate", 3x3]                       rotation given as a matrix
    ["rodrigues", [rx, ry, rz]]           rotate(<Rodrigues vector>)
    ["reorient", up, look]
    ["append", 4x4 forward, 4x4 reverse | None]
"""
import math
from fractions import Fraction

import numpy as np

from pwlib.share import shcopy

from pwlib.canon import err_name

F = Fraction


# ------------------------------------------------------------------------------------------------
# running a step on the real object (CompositeTransform or CoordinateManager)

def call_step(obj, st):
    k = st[0]
    if k == "translate":
        return obj.translate(shcopy(np.array(st[1], dtype=np.float64)))
    if k == "uniform_scale":
        return obj.uniform_scale(st[1], allow_flipping=st[2])
    if k == "non_uniform_scale":
        return obj.non_uniform_scale(st[1][0], st[1][1], st[1][2], allow_flipping=st[2])
    if k == "convert_units":
        return obj.convert_units(from_units=st[1], to_units=st[2])
    if k == "flip":
        return obj.flip(st[1])
    if k == "rotate":
        return obj.rotate(shcopy(np.array(st[1], dtype=np.float64)))
    if k == "rodrigues":
        return obj.rotate(shcopy(np.array(st[1], dtype=np.float64)))
    if k == "reorient":
        return obj.reorient(up=shcopy(np.array(st[1], dtype=np.float64)), look=shcopy(np.array(st[2], dtype=np.float64)))
    if k == "append":
        fwd = shcopy(np.array(st[1], dtype=np.float64))
        if st[2] is None:
            return obj.append_transform(fwd)
        return obj.append_transform(fwd, shcopy(np.array(st[2], dtype=np.float64)))
    raise ValueError("unknown step %r" % (k,))


def try_step(obj, st):
    """-> ("ok", returned value) | ("err", class name)"""
    try:
        return ("ok", call_step(obj, st))
    except Exception as e:  # noqa: BLE001
        return ("err", err_name(e))


# ------------------------------------------------------------------------------------------------
# driver tokens.  External routines are evaluated here (the real ones) and passed to the model as data.

def step_tokens(line, st):
    k = st[0]
    if k == "translate":
        return line.tok("T").vec(st[1])
    if k == "uniform_scale":
        return line.tok("U").f(st[1]).b(st[2])
    if k == "non_uniform_scale":
        return line.tok("N").f(*st[1]).b(st[2])
    if k == "convert_units":
        import ounce
        return line.tok("C").f(ounce.factor(st[1], st[2]))
    if k == "flip":
        return line.tok("F").i(st[1])
    if k == "rotate":
        return line.tok("R").vec(st[1])
    if k == "rodrigues":
        from polliwog.transform import rodrigues_vector_to_rotation_matrix
        return line.tok("R").vec(rodrigues_vector_to_rotation_matrix(np.array(st[1], dtype=np.float64)))
    if k == "reorient":
        from polliwog.transform import rotation_from_up_and_look
        try:
            r = rotation_from_up_and_look(np.array(st[1], dtype=np.float64), np.array(st[2], dtype=np.float64))
        except ValueError:
            return line.tok("OE")
        return line.tok("O").vec(r)
    if k == "append":
        fwd = np.array(st[1], dtype=np.float64)
        if st[2] is None:
            try:
                inv = np.linalg.inv(fwd)
            except np.linalg.LinAlgError:
                return line.tok("AE").vec(fwd)
            return line.tok("AI").vec(fwd).vec(inv)
        return line.tok("A").vec(fwd).vec(st[2])
    raise ValueError("unknown step %r" % (k,))


def pts_tokens(line, pts, single):
    if single:
        return line.tok("S").vec(pts[0])
    line.tok("K")
    return line.vecs(np.asarray(pts, dtype=np.float64).reshape(-1, 3))


def range_tokens(line, r):
    if r is None:
        return line.tok("-")
    return line.tok("r").i(r[0], r[1])


# ------------------------------------------------------------------------------------------------
# documented actions, on homogeneous 4-vectors of Fractions.  (forward, inverse) or None when the
# documentation does not accept the parameters.

UNITS_IN_M = {"m": F(1), "mm": F(1, 1000), "cm": F(1, 100), "in": F(254, 10000), "ft": F(3048, 10000)}


def fr(x):
    return F(float(x))


def mat_action(m):
    """full homogeneous multiplication by a 4x4 matrix of Fractions"""
    def act(p):
        return [sum(m[i][j] * p[j] for j in range(4)) for i in range(4)]
    return act


def lin_action(r):
    """3x3 matrix on the xyz part, w unchanged"""
    def act(p):
        return [sum(r[i][j] * p[j] for j in range(3)) for i in range(3)] + [p[3]]
    return act


def transpose(r):
    return [[r[j][i] for j in range(len(r))] for i in range(len(r[0]))]


def frac_inverse(m):
    """exact inverse of a square matrix of Fractions, None when singular"""
    n = len(m)
    a = [list(row) + [F(int(i == j)) for j in range(n)] for i, row in enumerate(m)]
    for c in range(n):
        piv = next((r for r in range(c, n) if a[r][c] != 0), None)
        if piv is None:
            return None
        a[c], a[piv] = a[piv], a[c]
        d = a[c][c]
        a[c] = [x / d for x in a[c]]
        for r in range(n):
            if r != c and a[r][c] != 0:
                f = a[r][c]
                a[r] = [x - f * y for x, y in zip(a[r], a[c])]
    return [row[n:] for row in a]


def own_rodrigues(r):
    """Rodrigues' formula, written independently of polliwog: I cosθ + (1-cosθ) k kᵀ + sinθ [k]×"""
    th = math.sqrt(r[0] * r[0] + r[1] * r[1] + r[2] * r[2])
    if th < 2.0 ** -52:
        return [[1.0, 0.0, 0.0], [0.0, 1.0, 0.0], [0.0, 0.0, 1.0]]
    k = [x / th for x in r]
    c, s = math.cos(th), math.sin(th)
    kx = [[0.0, -k[2], k[1]], [k[2], 0.0, -k[0]], [-k[1], k[0], 0.0]]
    return [[(c if i == j else 0.0) + (1 - c) * k[i] * k[j] + s * kx[i][j] for j in range(3)] for i in range(3)]


def own_up_look(up, look):
    """rows x, y, z with y = up/|up|, z = look orthogonalised against y, x = y × z; None when degenerate"""
    nu = math.sqrt(sum(x * x for x in up))
    if nu == 0 or not any(look):
        return None
    y = [x / nu for x in up]
    d = sum(a * b for a, b in zip(look, y))
    z = [a - d * b for a, b in zip(look, y)]
    nz = math.sqrt(sum(x * x for x in z))
    cr = [F(up[1]) * F(look[2]) - F(up[2]) * F(look[1]), F(up[2]) * F(look[0]) - F(up[0]) * F(look[2]),
          F(up[0]) * F(look[1]) - F(up[1]) * F(look[0])]
    if not any(cr) or nz == 0:
        return None
    z = [x / nz for x in z]
    x = [y[1] * z[2] - y[2] * z[1], y[2] * z[0] - y[0] * z[2], y[0] * z[1] - y[1] * z[0]]
    return [x, y, z]


def documented(st):
    """-> (forward action, inverse action, affine?) on homogeneous Fraction 4-vectors, or None when the step's
    parameters are not ones the method documents as acceptable"""
    k = st[0]
    if k == "translate":
        v = [fr(x) for x in st[1]]
        return (lambda p: [p[i] + p[3] * v[i] for i in range(3)] + [p[3]],
                lambda p: [p[i] - p[3] * v[i] for i in range(3)] + [p[3]], True)
    if k in ("uniform_scale", "non_uniform_scale", "convert_units"):
        if k == "uniform_scale":
            s = [fr(st[1])] * 3
            allow = st[2]
        elif k == "non_uniform_scale":
            s = [fr(x) for x in st[1]]
            allow = st[2]
        else:
            if st[1] not in UNITS_IN_M or st[2] not in UNITS_IN_M:
                return None
            s = [UNITS_IN_M[st[1]] / UNITS_IN_M[st[2]]] * 3
            allow = False
        if any(x == 0 for x in s) or (not allow and any(x < 0 for x in s)):
            return None
        return (lambda p: [p[i] * s[i] for i in range(3)] + [p[3]],
                lambda p: [p[i] / s[i] for i in range(3)] + [p[3]], True)
    if k == "flip":
        d = st[1]
        if d not in (0, 1, 2):
            return None
        f = lambda p: [(-p[i] if i == d else p[i]) for i in range(3)] + [p[3]]  # noqa: E731
        return (f, f, True)
    if k in ("rotate", "rodrigues", "reorient"):
        if k == "rotate":
            r = st[1]
        elif k == "rodrigues":
            r = own_rodrigues(st[1])
        else:
            r = own_up_look(st[1], st[2])
            if r is None:
                return None
        r = [[fr(x) for x in row] for row in r]
        return (lin_action(r), lin_action(transpose(r)), True)
    if k == "append":
        m = [[fr(x) for x in row] for row in st[1]]
        if st[2] is None:
            inv = frac_inverse(m)
            if inv is None:
                return None
        else:
            inv = [[fr(x) for x in row] for row in st[2]]
        affine = m[3] == [0, 0, 0, 1] and inv[3] == [0, 0, 0, 1]
        return (mat_action(m), mat_action(inv), affine)
    raise ValueError("unknown step %r" % (k,))


def is_translation(st):
    return st[0] == "translate"


def fold(actions, p, reverse):
    """apply the documented actions in order (reverse: inverse actions, last first)"""
    if reverse:
        for a in reversed(actions):
            p = a[1](p)
    else:
        for a in actions:
            p = a[0](p)
    return p


def fold3(actions, p3, w0, reverse):
    """the 3-D step-by-step reading: every step acts on the 3-D point (padded with w0 = 1 for a point, 0 for a
    vector) and hands a 3-D point to the next one.  Equal to `fold` when every step is affine."""
    p = list(p3)
    for a in (reversed(actions) if reverse else actions):
        p = a[1 if reverse else 0](p + [F(w0)])[:3]
    return p


def abs_bound(mats):
    """entrywise bound of every partial product of the given 4x4 float matrices (any association order)"""
    b = np.eye(4)
    for m in mats:
        b = np.abs(np.asarray(m, dtype=np.float64)) @ b
    return b


# ------------------------------------------------------------------------------------------------
# generators

def cube_rotations():
    import itertools
    out = []
    for perm in itertools.permutations(range(3)):
        for signs in itertools.product((1.0, -1.0), repeat=3):
            m = [[0.0] * 3 for _ in range(3)]
            for i in range(3):
                m[i][perm[i]] = signs[i]
            if round(np.linalg.det(np.array(m))) == 1:
                out.append(m)
    return out


CUBE_ROTS = cube_rotations()


def quat_rotation(q):
    """rotation matrix with rational entries (a²+b²-c²-d²)/N … from an integer quaternion (rounded to doubles)"""
    a, b, c, d = [F(x) for x in q]
    n = a * a + b * b + c * c + d * d
    m = [[a * a + b * b - c * c - d * d, 2 * (b * c - a * d), 2 * (b * d + a * c)],
         [2 * (b * c + a * d), a * a - b * b + c * c - d * d, 2 * (c * d - a * b)],
         [2 * (b * d - a * c), 2 * (c * d + a * b), a * a - b * b - c * c + d * d]]
    return [[float(x / n) for x in row] for row in m]


def rand_quat_int(rng):
    while True:
        q = [rng.randint(-3, 3) for _ in range(4)]
        if any(q):
            return q


def rand_rotation(rng):
    while True:
        q = [rng.gauss(0, 1) for _ in range(4)]
        n = math.sqrt(sum(x * x for x in q))
        if n > 1e-3:
            break
    a, b, c, d = [x / n for x in q]
    return [[a * a + b * b - c * c - d * d, 2 * (b * c - a * d), 2 * (b * d + a * c)],
            [2 * (b * c + a * d), a * a - b * b + c * c - d * d, 2 * (c * d - a * b)],
            [2 * (b * d - a * c), 2 * (c * d + a * b), a * a - b * b - c * c + d * d]]


def unitri(rng):
    """integer upper-unitriangular affine 4x4 (shear + translation) and its exact integer inverse"""
    m = [[F(int(i == j)) for j in range(4)] for i in range(4)]
    for i in range(3):
        for j in range(i + 1, 4):
            m[i][j] = F(rng.randint(-2, 2))
    inv = frac_inverse(m)
    return [[float(x) for x in row] for row in m], [[float(x) for x in row] for row in inv]


def nonaffine(rng):
    """small-integer unimodular 4x4 whose last row is not 0 0 0 1, and its exact integer inverse
    (upper unitriangular times lower unitriangular with a non-zero entry in the last row)"""
    while True:
        u = [[F(int(i == j)) for j in range(4)] for i in range(4)]
        for i in range(3):
            for j in range(i + 1, 4):
                if rng.random() < 0.5:
                    u[i][j] = F(rng.randint(-1, 1))
        lo = [[F(int(i == j)) for j in range(4)] for i in range(4)]
        for j in range(3):
            lo[3][j] = F(rng.randint(-1, 1))
        if not any(lo[3][:3]):
            lo[3][rng.randint(0, 2)] = F(rng.choice([-1, 1]))
        m = [[sum(u[i][t] * lo[t][j] for t in range(4)) for j in range(4)] for i in range(4)]
        if m[3] == [0, 0, 0, 1]:
            continue
        inv = frac_inverse(m)
        return [[float(x) for x in row] for row in m], [[float(x) for x in row] for row in inv]


LENGTH_UNITS = ["m", "mm", "cm", "in", "ft"]


def pick_units(rng):
    """two length units; identical ones (a conversion by factor 1, which must still append a step) 20% of the time"""
    a = rng.choice(LENGTH_UNITS)
    b = a if rng.random() < 0.2 else rng.choice(LENGTH_UNITS)
    return a, b



class Budget:
    """keeps the accumulated scale exponent of a history bounded so that lattice histories stay exact in
    doubles and float histories stay well conditioned"""

    def __init__(self, limit):
        self.left = limit

    def take(self, amount):
        if amount <= self.left:
            self.left -= amount
            return True
        return False


def gen_step(rng, stream, budget):
    """one valid step"""
    r = rng.random()
    if stream == "lattice":
        if r < 0.24:
            return ["translate", [rng.randint(-8, 8) / 2.0 for _ in range(3)]]
        if r < 0.40:
            k = rng.choice([-2, -1, 1, 2])
            if budget.take(abs(k)):
                neg = rng.random() < 0.3
                return ["uniform_scale", (-1.0 if neg else 1.0) * 2.0 ** k, True if neg else rng.random() < 0.3]
            return ["translate", [float(rng.randint(-4, 4)) for _ in range(3)]]
        if r < 0.54:
            ks = [rng.choice([-2, -1, 0, 1, 2]) for _ in range(3)]
            if budget.take(max(abs(k) for k in ks)):
                allow = rng.random() < 0.5
                sg = [(-1.0 if allow and rng.random() < 0.4 else 1.0) for _ in range(3)]
                return ["non_uniform_scale", [s * 2.0 ** k for s, k in zip(sg, ks)], allow]
            return ["flip", rng.randint(0, 2)]
        if r < 0.66:
            return ["flip", rng.randint(0, 2)]
        if r < 0.86:
            return ["rotate", rng.choice(CUBE_ROTS)]
        f, i = unitri(rng)
        return ["append", f, i if rng.random() < 0.6 else None]
    # float stream
    if r < 0.16:
        s = 10.0 ** rng.uniform(-3, 3)
        return ["translate", [rng.uniform(-1, 1) * s for _ in range(3)]]
    if r < 0.27:
        e = rng.uniform(-1, 1)
        if budget.take(abs(e)):
            neg = rng.random() < 0.25
            return ["uniform_scale", (-1.0 if neg else 1.0) * 10.0 ** e, True if neg else rng.random() < 0.3]
        return ["translate", [rng.uniform(-1, 1) for _ in range(3)]]
    if r < 0.38:
        es = [rng.uniform(-1, 1) for _ in range(3)]
        if budget.take(max(abs(e) for e in es)):
            allow = rng.random() < 0.5
            sg = [(-1.0 if allow and rng.random() < 0.4 else 1.0) for _ in range(3)]
            return ["non_uniform_scale", [s * 10.0 ** e for s, e in zip(sg, es)], allow]
        return ["flip", rng.randint(0, 2)]
    if r < 0.46:
        a, b = pick_units(rng)
        f = abs(math.log10(float(UNITS_IN_M[a] / UNITS_IN_M[b])))
        if budget.take(f):
            return ["convert_units", a, b]
        return ["flip", rng.randint(0, 2)]
    if r < 0.52:
        return ["flip", rng.randint(0, 2)]
    if r < 0.62:
        return ["rotate", rand_rotation(rng)]
    if r < 0.70:
        return ["rotate", quat_rotation(rand_quat_int(rng))]
    if r < 0.80:
        ax = rand_rotation(rng)[0]
        th = rng.choice([rng.uniform(0.01, 3.1), rng.uniform(0.01, 3.1), rng.uniform(3.2, 9.0), 0.0])
        return ["rodrigues", [x * th for x in ax]]
    if r < 0.87:
        while True:
            up = [rng.uniform(-1, 1) * 10.0 ** rng.uniform(-2, 2) for _ in range(3)]
            look = [rng.uniform(-1, 1) * 10.0 ** rng.uniform(-2, 2) for _ in range(3)]
            cu = np.cross(up, look)
            if np.linalg.norm(cu) > 0.2 * np.linalg.norm(up) * np.linalg.norm(look):
                return ["reorient", up, look]
    # explicit affine matrix: rotation * moderate scale + translation; inverse given (numerically) or left to the class
    rot = np.array(rand_rotation(rng))
    e = rng.uniform(-0.5, 0.5)
    if not budget.take(abs(e) + 0.2):
        return ["rotate", rot.tolist()]
    lin = rot @ np.diag([10.0 ** e * rng.uniform(0.7, 1.3) for _ in range(3)])
    nearly = rng.random() < 0.5
    if nearly:
        # almost a rigid motion, but not one: a rotation times 1 +- 1e-7..1e-4 (per axis, or uniformly); its inverse is
        # not its transpose, whatever an allclose() says
        d = 10.0 ** rng.uniform(-7.5, -4.5) * rng.choice([-1, 1])
        lin = rot @ np.diag([1.0 + d * rng.choice([1.0, 1.0, 0.5, 0.0]) for _ in range(2)] + [1.0 + d])
    m = np.eye(4)
    m[:3, :3] = lin
    m[:3, 3] = [rng.uniform(-5, 5) for _ in range(3)]
    inv = np.linalg.inv(m)
    inv[3] = [0.0, 0.0, 0.0, 1.0]
    return ["append", m.tolist(), inv.tolist() if rng.random() < (0.2 if nearly else 0.5) else None]


def gen_bad_step(rng):
    """a step whose parameters the method refuses"""
    r = rng.random()
    if r < 0.2:
        return ["uniform_scale", 0.0, rng.random() < 0.5]
    if r < 0.35:
        return ["uniform_scale", -2.0, False]
    if r < 0.5:
        v = [2.0, 0.5, 4.0]
        v[rng.randint(0, 2)] = rng.choice([0.0, -1.0])
        return ["non_uniform_scale", v, False]
    if r < 0.6:
        v = [2.0, -0.5, 4.0]
        v[rng.choice([0, 2])] = 0.0
        return ["non_uniform_scale", v, True]
    if r < 0.75:
        return ["flip", rng.choice([3, -1, 7, -3])]
    if r < 0.87:
        ax = rng.randint(0, 2)
        up = [0.0, 0.0, 0.0]
        look = [0.0, 0.0, 0.0]
        c = rng.random()
        if c < 0.4:  # collinear, axis aligned (exactly detectable)
            up[ax] = rng.choice([1.0, -2.0, 0.5])
            look[ax] = rng.choice([3.0, -1.0])
        elif c < 0.7:  # singular up
            look[ax] = 1.0
        else:  # singular look
            up[ax] = 1.0
        return ["reorient", up, look]
    # singular explicit matrix, no inverse given
    m = [[float(rng.randint(-2, 2)) for _ in range(4)] for _ in range(3)] + [[0.0, 0.0, 0.0, 1.0]]
    c = rng.random()
    if c < 0.5:
        m[rng.randint(0, 2)] = [0.0, 0.0, 0.0, 0.0]
    else:
        m[1] = list(m[0])
    return ["append", m, None]


def gen_nonaffine_step(rng):
    f, i = nonaffine(rng)
    return ["append", f, i if rng.random() < 0.6 else None]


def gen_history(rng, stream, n, bad_rate=0.0, nonaffine_steps=0):
    budget = Budget(8 if stream == "lattice" else 4.0)
    steps = []
    for _ in range(n):
        if bad_rate and rng.random() < bad_rate:
            steps.append(gen_bad_step(rng))
        else:
            steps.append(gen_step(rng, stream, budget))
    if stream != "lattice" and not bad_rate and n > 0:
        r = rng.random()
        if r < 0.10:
            # a step that is almost, but not, the identity (an `allclose` to the identity must not skip it): a scale factor
            # 1 +- 1e-7..1e-5, a translation of 1e-12..1e-8.5, a rotation by 1e-10..1e-8.5 rad
            c = rng.random()
            if c < 0.4:
                st = ["uniform_scale", 1.0 + rng.choice([-1, 1]) * 10.0 ** rng.uniform(-7, -5), False]
            elif c < 0.7:
                st = ["translate", [rng.uniform(-1, 1) * 10.0 ** rng.uniform(-12, -8.5) for _ in range(3)]]
            else:
                ax = rand_rotation(rng)[0]
                th = 10.0 ** rng.uniform(-10, -8.5)
                st = ["rodrigues", [x * th for x in ax]]
            if rng.random() < 0.5:
                steps = [st]                    # on its own: the whole composite is almost the identity
            else:
                steps[rng.randrange(len(steps))] = st
        elif r < 0.15:
            # a very small (or, reversed, very large) scale factor on its own: nanometres to metres
            f = 10.0 ** -rng.uniform(8.2, 10)
            if rng.random() < 0.5:
                steps = [["uniform_scale", f, False]]
            else:
                steps = [["non_uniform_scale", [f, f * rng.uniform(1, 3), f * rng.uniform(1, 3)], False]]
            if rng.random() < 0.5:
                steps.append(["flip", rng.randint(0, 2)])
    for _ in range(nonaffine_steps):
        steps.insert(rng.randint(0, len(steps)), gen_nonaffine_step(rng))
    # a caller that keeps its vectors: later reorient steps look along the same vector as an earlier one (other `up`), later
    # translations / rotation vectors repeat an earlier one.  Inside the adapters equal values are then the same object
    # (INTERN_WITHIN_CASE), so a step that overwrote its argument shows in the steps that follow.
    if stream != "lattice" and rng.random() < 0.4:
        seen = {}
        for i, st in enumerate(steps):
            k = st[0]
            if k == "reorient" and any(st[2]):
                if "look" in seen and rng.random() < 0.7:
                    look = seen["look"]
                    for _ in range(20):
                        up = [rng.uniform(-1, 1) for _ in range(3)]
                        cu = np.cross(up, look)
                        if np.linalg.norm(cu) > 0.2 * np.linalg.norm(up) * np.linalg.norm(look):
                            steps[i] = ["reorient", up, list(look)]
                            break
                else:
                    seen["look"] = list(st[2])
            elif k in ("translate", "rodrigues"):
                if k in seen and rng.random() < 0.5:
                    steps[i] = [k, list(seen[k])]
                else:
                    seen[k] = list(st[1])
    return steps


def gen_points(rng, stream, k):
    if stream == "lattice":
        return [[rng.randint(-16, 16) / 4.0 for _ in range(3)] for _ in range(k)]
    s = 10.0 ** rng.uniform(-2, 2)
    return [[rng.uniform(-1, 1) * s for _ in range(3)] for _ in range(k)]
