"""C14 — plane–segment and plane–line intersection routines agree on the crossing point.

Correspondence (exact rationals): Plane.line_xsection(s), Plane.line_segment_xsection(s),
intersect_segment_with_plane and Polyline.intersect_plane against PW.Model.PlaneXsect on the doubles the
code sees.  Oracle: the clauses of C14 evaluated on the implementation's own outputs with exact Fractions
(the four routines pairwise, signed distance of the result = 0, result on the segment, the no-intersection
conventions, stacked = single row by row), independent of the Lean model.
"""
import itertools
import random
import sys
from fractions import Fraction

import numpy as np

from pwlib.share import shcopy

from pwlib import gens
from pwlib.canon import flat
from pwlib.engine import Case
from pwlib.proto import Line

ID = "C14"
TARGETS = ["PW.Props.C14"]
RULE = ("groups = (plane from a public constructor, polyline; its edges are the segments given to all four routines, "
        "single and stacked) from a lattice stream (dyadic coordinates; axis-aligned planes with end points exactly on "
        "the plane, repeated vertices, axis-parallel edges with equal coordinates; oblique integer normals through "
        "from_point_and_normal) and a float stream (magnitudes 1e-6..1e6, oblique unit normals, side margin >= 1e-7*scale, "
        "crossing edges with (|d_a|+|d_b|) >= 1e-4*|b-a|); line groups (pt, ray) incl. exactly parallel and zero rays; "
        "intersect_segment_with_plane additionally with raw integer normals, one plane per row (exact on-plane end points, "
        "0/0 and x/0 rows); malformed = stacks of different length; thorough tier: every ordered pair of lattice points of "
        "{-2..2}^3 as a segment against a family of lattice planes; a case is non-trivial when it has at least one "
        "segment/line; distinct = distinct spec")
TRUSTED = ["np.dot / vg.dot / np.sign / np.abs / np.any / boolean-mask assignment modelled as dot product, sign, abs, "
           "exists, per-row Option", "np.nan_to_num(inf) = np.finfo(float64).max passed to the model as the parameter `big`",
           "IEEE rounding not modelled: numeric outputs compared with rtol 1e-9*scale, discrete outputs exactly"]
ASSUMPTIONS = ["end points closer to the plane than 1e-7*scale but not exactly on it are excluded (side undetermined)",
               "end points exactly on the plane only where the code's arithmetic is exact: axis-aligned planes with dyadic "
               "coordinates, or intersect_segment_with_plane with integer normals",
               "lines with 0 < |ray.n| < 1e-3*|ray| are excluded from the line_xsection(s) comparison (ill-conditioned)"]
EXHAUSTIVE = {"quick": False, "thorough": True}

BIG = sys.float_info.max
F = Fraction


def Fv(v):
    return [F(float(x)) for x in v]


def fdot(a, b):
    return sum(x * y for x, y in zip(a, b))


def fsub(a, b):
    return [x - y for x, y in zip(a, b)]


def fcross(a, b):
    return [a[1] * b[2] - a[2] * b[1], a[2] * b[0] - a[0] * b[2], a[0] * b[1] - a[1] * b[0]]


def n1(v):
    return sum(abs(x) for x in v)


# ---------------------------------------------------------------------------------------------------
# planes

def build_plane(ps):
    from polliwog import Plane
    c = ps["ctor"]
    if c == "init":
        return Plane(shcopy(np.array(ps["ref"], dtype=np.float64)), shcopy(np.array(ps["n"], dtype=np.float64)))
    if c == "pn":
        return Plane.from_point_and_normal(shcopy(np.array(ps["ref"], dtype=np.float64)), shcopy(np.array(ps["n"], dtype=np.float64)))
    if c in ("xy", "xz", "yz"):
        return getattr(Plane, c)
    raise ValueError(c)


def gen_plane(rng, stream):
    r = rng.random()
    if stream == "lattice":
        if r < 0.55:
            return {"ctor": "init", "ref": gens.lat(rng, 3, rng.choice([1, 2, 4])), "n": rng.choice(gens.AXES)}
        if r < 0.65:
            return {"ctor": rng.choice(["xy", "xz", "yz"])}
        return {"ctor": "pn", "ref": gens.lat(rng, 3), "n": gens.lat_nonzero(rng, 3)}
    s = gens.scale_of(rng)
    if r < 0.5:
        return {"ctor": "pn", "ref": gens.fvec(rng, s), "n": gens.fvec(rng, gens.scale_of(rng, -3, 3))}
    if r < 0.85:
        return {"ctor": "init", "ref": gens.fvec(rng, s), "n": gens.unit(rng)}
    return {"ctor": "init", "ref": gens.fvec(rng, s), "n": rng.choice(gens.AXES)}


class PlaneInfo:
    def __init__(self, plane, stream):
        self.plane = plane
        self.ref = np.array(plane.reference_point, dtype=np.float64)
        self.n = np.array(plane.normal, dtype=np.float64)
        self.fref = Fv(self.ref)
        self.fn = Fv(self.n)
        self.axis_aligned = sorted(abs(float(x)) for x in self.n) == [0.0, 0.0, 1.0]
        # exact zeros are observable only where the code's arithmetic is exact
        self.exact = self.axis_aligned and stream == "lattice"

    def d(self, p):
        return fdot(fsub(Fv(p), self.fref), self.fn)


# ---------------------------------------------------------------------------------------------------
# generators

def gen(rng, tier):
    quick = tier == "quick"
    for i in range(700 if quick else 3000):
        stream = "lattice" if i % 2 == 0 else "float"
        k = rng.choice([0, 1, 2, 2, 3, 4, 5, 6, 8, 12]) if rng.random() < 0.93 else rng.randint(20, 50)
        yield {"op": "seg-group", "stream": stream, "plane": gen_plane(rng, stream), "k": k,
               "closed": rng.random() < 0.4, "ptseed": rng.randrange(1 << 30)}
    for i in range(250 if quick else 1200):
        stream = "lattice" if i % 2 == 0 else "float"
        yield {"op": "line-group", "stream": stream, "plane": gen_plane(rng, stream),
               "k": rng.choice([0, 1, 2, 3, 5, 9]), "ptseed": rng.randrange(1 << 30)}
    for i in range(250 if quick else 1500):
        yield {"op": "isp-raw", "k": rng.choice([0, 1, 1, 2, 4, 7, 15]), "single": rng.random() < 0.3,
               "ptseed": rng.randrange(1 << 30)}
    for i in range(20 if quick else 100):
        yield {"op": "malformed", "which": rng.choice(["segs", "lines", "isp-v", "isp-q", "isp-n"]),
               "k": rng.randint(1, 4), "k2": rng.randint(0, 5), "ptseed": rng.randrange(1 << 30)}
    # one polyline asked about two planes that share their canonical point (reference_point . normal) * normal -- both
    # contain the origin -- in either order (history pairs, pwlib/share.py: the Polyline is the same object in both calls)
    for i in range(60 if quick else 400):
        stream = "lattice" if i % 2 == 0 else "float"
        if stream == "lattice":
            def origin_plane():
                r = rng.random()
                if r < 0.3:
                    return {"ctor": rng.choice(["xy", "xz", "yz"])}
                n = rng.choice(gens.AXES)
                ref = gens.lat(rng, 3, rng.choice([1, 2]))
                ref = [0.0 if abs(c) == 1 else x for x, c in zip(ref, n)]
                return {"ctor": "init", "ref": ref if r < 0.7 else [0.0, 0.0, 0.0], "n": n}
        else:
            def origin_plane():
                return {"ctor": "init", "ref": [0.0, 0.0, 0.0], "n": gens.unit(rng) if rng.random() < 0.7 else rng.choice(gens.AXES)}
        p1, p2 = origin_plane(), origin_plane()
        base = {"op": "seg-group", "stream": stream, "k": rng.choice([2, 3, 4, 5, 6, 8]), "closed": rng.random() < 0.4,
                "ptseed": rng.randrange(1 << 30), "gen_plane": p1}
        yield {"op": "pair", "first": dict(base, plane=p1, also=[p2]), "second": dict(base, plane=p2, also=[p1])}
    if not quick:
        for pi in range(len(EXH_PLANES)):
            for ai in range(len(EXH_POINTS)):
                yield {"op": "exh", "plane": pi, "a": ai}


def lattice_vertices(rng, k, pi):
    verts = []
    den = rng.choice([1, 1, 2, 4])
    ax = int(np.flatnonzero(pi.n)[0]) if pi.axis_aligned else None
    for _ in range(k):
        r = rng.random()
        if verts and r < 0.10:
            v = list(verts[-1])  # repeated vertex: zero-length edge
        elif verts and r < 0.35:
            v = list(verts[-1])  # axis-parallel edge: one or two coordinates change, the others stay equal
            for c in rng.sample([0, 1, 2], rng.choice([1, 1, 2])):
                v[c] = rng.randint(-3 * den, 3 * den) / den
        else:
            v = gens.lat(rng, 3 * den, den)
        if ax is not None and rng.random() < 0.2:
            v[ax] = float(pi.ref[ax])  # exactly on the plane
        verts.append(v)
    return verts


def float_vertices(rng, k, pi):
    s = max(gens.maxabs(pi.ref), 1e-6) * 10.0 ** rng.uniform(-1, 1)
    verts = []
    for _ in range(k):
        r = rng.random()
        if verts and r < 0.2:
            v = list(verts[-1])  # axis-parallel edge with equal coordinates
            for c in rng.sample([0, 1, 2], rng.choice([1, 1, 2])):
                v[c] = v[c] + rng.uniform(-1, 1) * s
            verts.append(v)
            continue
        u = np.array(gens.fvec(rng, s))
        u = u - np.dot(u, pi.n) * pi.n
        mag = 10.0 ** rng.uniform(-3, 0) if r < 0.85 else 10.0 ** rng.uniform(-6, -2)
        verts.append((pi.ref + u + pi.n * rng.choice([-1, 1]) * s * mag).tolist())
    return verts


def determined(pi, p, margin):
    d = pi.d(p)
    return (d == 0 and pi.exact) or abs(d) >= margin


def well_conditioned(pi, a, b):
    """numeric output of a crossing edge is compared with rtol 1e-9: keep (|d_a|+|d_b|) >= 1e-4*|b-a|_1 (exact data: always)"""
    if pi.exact:
        return True
    da, db = pi.d(a), pi.d(b)
    if (da > 0) == (db > 0):
        return True
    return abs(da) + abs(db) >= F(1, 10000) * n1(fsub(Fv(b), Fv(a)))


def polyline_for(spec, pi):
    rng = random.Random(spec["ptseed"])
    k = spec["k"]
    # history pairs (one polyline, two planes): the candidates come from `gen_plane`, and the vertices kept are the ones
    # that are determined / well conditioned for the plane of the case *and* for the planes listed under `also`
    gpi = PlaneInfo(build_plane(spec["gen_plane"]), spec["stream"]) if spec.get("gen_plane") else pi
    pis = [pi] + [PlaneInfo(build_plane(q), spec["stream"]) for q in spec.get("also", [])]
    cand = lattice_vertices(rng, k, gpi) if spec["stream"] == "lattice" else float_vertices(rng, k, gpi)
    scale = max(gens.maxabs(pi.ref, cand), 1e-300)
    margin = F(1e-7) * F(scale)
    verts = []
    for v in cand:
        if not all(determined(q, v, margin) for q in pis):
            continue
        if verts and not all(well_conditioned(q, verts[-1], v) for q in pis):
            continue
        verts.append(v)
    closed = bool(spec["closed"])
    if closed and len(verts) >= 2 and not all(well_conditioned(q, verts[-1], verts[0]) for q in pis):
        closed = False
    return verts, closed, scale


# ---------------------------------------------------------------------------------------------------
# canonical forms

def opt_point(r):
    return ["none"] if r is None else ["some"] + flat(r)


def flag_rows(pts, valid):
    pts = np.asarray(pts, dtype=np.float64).reshape(-1, 3)
    valid = np.asarray(valid).reshape(-1)
    out = [int(len(pts))]
    for row, ok in zip(pts, valid):
        out += [bool(ok)] + flat(row)
    return out


def single_as_flag_rows(results):
    out = [len(results)]
    for r in results:
        out += [False, None, None, None] if r is None else [True] + flat(r)
    return out


def rows(pts):
    pts = np.asarray(pts, dtype=np.float64).reshape(-1, 3)
    return [int(len(pts))] + flat(pts)


def plane_line(op, pi):
    return Line(op).vec(pi.ref).vec(pi.n)


# ---------------------------------------------------------------------------------------------------
# seg-group

def make(spec):
    op = spec["op"]
    if op == "seg-group":
        return make_seg_group(spec)
    if op == "line-group":
        return make_line_group(spec)
    if op == "isp-raw":
        return make_isp_raw(spec)
    if op == "malformed":
        return make_malformed(spec)
    if op == "exh":
        return make_exh(spec)
    raise ValueError(op)


def segments_of(verts, closed):
    from polliwog import Polyline
    V = np.array(np.reshape(verts, (-1, 3)), dtype=np.float64)
    poly = Polyline(V, is_closed=closed)
    segs = V[poly.e] if len(poly.e) else np.zeros((0, 2, 3))
    return V, poly, segs[:, 0].copy(), segs[:, 1].copy()


def seg_cases(spec, pi, V, closed, A, B, scale, kl, nsingle=2, oracle_extra=None):
    """all four routines on the edges (A[i], B[i]) of the polyline (V, closed)"""
    from polliwog import Polyline
    from polliwog.plane import intersect_segment_with_plane
    plane = pi.plane
    m = len(A)
    trivial = m == 0
    cases = []

    def add(op, line, impl):
        cases.append(Case(spec, line, impl, mode="rat", klass=op + "/" + kl, trivial=trivial, scale=scale))

    segs_line = plane_line("xs.segs", pi).vecs(A).vecs(B)
    # stacked
    add("xs.segs", segs_line, lambda: flag_rows(*plane.line_segment_xsections(shcopy(A), shcopy(B))))
    # every single call, against the model's map-of-single
    add("xs.seg*", segs_line,
        lambda: single_as_flag_rows([plane.line_segment_xsection(shcopy(A[i]), shcopy(B[i])) for i in range(m)]))
    for i in range(min(nsingle, m)):
        add("xs.seg", plane_line("xs.seg", pi).vec(A[i]).vec(B[i]),
            lambda i=i: opt_point(plane.line_segment_xsection(shcopy(A[i]), shcopy(B[i]))))
    R = np.tile(pi.ref, (m, 1)).reshape(-1, 3)
    N = np.tile(pi.n, (m, 1)).reshape(-1, 3)
    isp_line = Line("xs.isp").f(BIG).vecs(A).vecs(B - A).vecs(R).vecs(N)
    add("xs.isp", isp_line, lambda: rows(intersect_segment_with_plane(shcopy(A), B - A, shcopy(R), shcopy(N))))
    add("xs.isp1*", isp_line,
        lambda: rows(np.array([intersect_segment_with_plane(shcopy(A[i]), B[i] - A[i], shcopy(pi.ref), shcopy(pi.n))
                               for i in range(m)]).reshape(-1, 3)))
    for i in range(min(nsingle, m)):
        add("xs.isp1", Line("xs.isp1").f(BIG).vec(A[i]).vec(B[i] - A[i]).vec(pi.ref).vec(pi.n),
            lambda i=i: flat(intersect_segment_with_plane(shcopy(A[i]), B[i] - A[i], shcopy(pi.ref), shcopy(pi.n))))

    def poly_impl():
        pts, idx = Polyline(shcopy(V), is_closed=closed).intersect_plane(plane, ret_edge_indices=True)
        out = [int(len(idx))]
        for j, row in zip(idx, np.asarray(pts).reshape(-1, 3)):
            out += [int(j)] + flat(row)
        return out

    cases.append(Case(spec, Line("xs.poly").b(closed).vec(pi.ref).vec(pi.n).vecs(V), poly_impl, mode="rat",
                      klass="xs.poly/" + kl + ("/closed" if closed else "/open"), trivial=trivial, scale=scale))
    # the same question asked of the reversed polyline, built by `flipped()` from a polyline whose derived quantities have
    # already been looked at: it is the polyline of the reversed vertex list (the model is given that list)
    if len(V) >= 2:
        Vr = V[::-1].copy()

        def flipped_impl():
            p0 = Polyline(shcopy(V), is_closed=closed)
            p0.total_length, p0.segments, p0.num_e   # noqa: B018  (a caller that has used the polyline before)
            pts, idx = p0.flipped().intersect_plane(plane, ret_edge_indices=True)
            out = [int(len(idx))]
            for j, row in zip(idx, np.asarray(pts).reshape(-1, 3)):
                out += [int(j)] + flat(row)
            return out
        cases.append(Case(spec, Line("xs.poly").b(closed).vec(pi.ref).vec(pi.n).vecs(Vr), flipped_impl, mode="rat",
                          klass="xs.poly-flipped/" + kl + ("/closed" if closed else "/open"), trivial=trivial, scale=scale))
    cases[0].oracle = lambda _r: oracle_segments(pi, V, closed, A, B, scale)
    return cases


def make_seg_group(spec):
    plane = build_plane(spec["plane"])
    pi = PlaneInfo(plane, spec["stream"])
    verts, closed, scale = polyline_for(spec, pi)
    V, poly, A, B = segments_of(verts, closed)
    kl = "%s/%s" % (spec["stream"], "axis" if pi.axis_aligned else "oblique")
    return seg_cases(spec, pi, V, closed, A, B, scale, kl)


# ---------------------------------------------------------------------------------------------------
# line-group

def make_line_group(spec):
    plane = build_plane(spec["plane"])
    pi = PlaneInfo(plane, spec["stream"])
    rng = random.Random(spec["ptseed"])
    k = spec["k"]
    pts, rays = [], []
    ax = int(np.flatnonzero(pi.n)[0]) if pi.axis_aligned else None
    for _ in range(k):
        if spec["stream"] == "lattice":
            den = rng.choice([1, 2, 4])
            pt = gens.lat(rng, 3 * den, den)
            ray = gens.lat(rng, 3 * den, den)
            r = rng.random()
            if r < 0.08:
                ray = [0.0, 0.0, 0.0]
            elif ax is not None and r < 0.35:
                ray[ax] = 0.0  # exactly parallel
                if rng.random() < 0.4:
                    pt[ax] = float(pi.ref[ax])  # ... and in the plane
        else:
            s = max(gens.maxabs(pi.ref), 1e-6) * 10.0 ** rng.uniform(-1, 1)
            pt = (pi.ref + np.array(gens.fvec(rng, s))).tolist()
            ray = gens.fvec(rng, gens.scale_of(rng, -3, 3))
        dn = fdot(Fv(ray), pi.fn)
        if (dn == 0 and (pi.exact or not any(ray))) or abs(dn) >= F(1, 1000) * n1(Fv(ray)) > 0:
            pts.append(pt)
            rays.append(ray)
    P = np.array(np.reshape(pts, (-1, 3)), dtype=np.float64)
    Rr = np.array(np.reshape(rays, (-1, 3)), dtype=np.float64)
    m = len(P)
    scale = max(gens.maxabs(pi.ref, P), 1e-300)
    kl = "%s/%s" % (spec["stream"], "axis" if pi.axis_aligned else "oblique")
    cases = []

    def add(op, line, impl):
        cases.append(Case(spec, line, impl, mode="rat", klass=op + "/" + kl, trivial=m == 0, scale=scale))

    lines_line = plane_line("xs.lines", pi).vecs(P).vecs(Rr)
    add("xs.lines", lines_line, lambda: flag_rows(*plane.line_xsections(shcopy(P), shcopy(Rr))))
    add("xs.line*", lines_line,
        lambda: single_as_flag_rows([plane.line_xsection(shcopy(P[i]), shcopy(Rr[i])) for i in range(m)]))
    for i in range(min(3, m)):
        add("xs.line", plane_line("xs.line", pi).vec(P[i]).vec(Rr[i]),
            lambda i=i: opt_point(plane.line_xsection(shcopy(P[i]), shcopy(Rr[i]))))
    cases[0].oracle = lambda _r: oracle_lines(pi, P, Rr, scale)
    return cases


# ---------------------------------------------------------------------------------------------------
# intersect_segment_with_plane with raw (non-unit, integer) normals, one plane per row: all arithmetic exact

def isp_raw_data(spec):
    rng = random.Random(spec["ptseed"])
    k = spec["k"]
    S, Vv, Q, N = [], [], [], []
    for _ in range(k):
        den = rng.choice([1, 1, 2, 4])
        n = gens.lat_nonzero(rng, 3)
        q = gens.lat(rng, 2 * den, den)
        a = gens.lat(rng, 3 * den, den)
        b = gens.lat(rng, 3 * den, den)
        r = rng.random()
        if r < 0.1:
            b = list(a)  # zero vector
        elif r < 0.3:
            # vector parallel to the plane (lattice vector orthogonal to n)
            w = gens.fcross(n, gens.lat_nonzero(rng, 2))
            b = [a[i] + float(w[i]) / den for i in range(3)]
        r2 = rng.random()
        if r2 < 0.3:
            q = list(a)  # start exactly on the plane
        elif r2 < 0.5:
            q = list(b)  # end exactly on the plane
        S.append(a)
        Vv.append([b[i] - a[i] for i in range(3)])
        Q.append(q)
        N.append(n)
    f = lambda x: np.array(np.reshape(x, (-1, 3)), dtype=np.float64)
    return f(S), f(Vv), f(Q), f(N)


def make_isp_raw(spec):
    from polliwog.plane import intersect_segment_with_plane
    S, Vv, Q, N = isp_raw_data(spec)
    k = len(S)
    single = bool(spec["single"]) and k == 1
    scale = max(gens.maxabs(S, Vv, Q), 1.0)
    kl = "lattice/raw-normal/" + ("single" if single else "stack")
    if single:
        line = Line("xs.isp1").f(BIG).vec(S[0]).vec(Vv[0]).vec(Q[0]).vec(N[0])
        impl = lambda: flat(intersect_segment_with_plane(shcopy(S[0]), shcopy(Vv[0]), shcopy(Q[0]), shcopy(N[0])))
        c = Case(spec, line, impl, mode="rat", klass="xs.isp1/" + kl, scale=scale)
    else:
        line = Line("xs.isp").f(BIG).vecs(S).vecs(Vv).vecs(Q).vecs(N)
        impl = lambda: rows(intersect_segment_with_plane(shcopy(S), shcopy(Vv), shcopy(Q), shcopy(N)))
        c = Case(spec, line, impl, mode="rat", klass="xs.isp/" + kl, trivial=k == 0, scale=scale)
    c.oracle = lambda _r: oracle_isp_raw(S, Vv, Q, N, single, scale)
    return [c]


# ---------------------------------------------------------------------------------------------------
# malformed: stacks of different length -> ValueError

def make_malformed(spec):
    from polliwog import Plane
    from polliwog.plane import intersect_segment_with_plane
    rng = random.Random(spec["ptseed"])
    k, k2 = spec["k"], spec["k2"]
    if k2 == k:
        k2 = k + 1
    mk = lambda n_: np.array(np.reshape([gens.lat(rng, 3) for _ in range(n_)], (-1, 3)), dtype=np.float64)
    plane = Plane(np.array(gens.lat(rng, 2), dtype=np.float64), np.array(rng.choice(gens.AXES)))
    pi = PlaneInfo(plane, "lattice")
    w = spec["which"]
    if w == "segs":
        A, B = mk(k), mk(k2)
        return Case(spec, plane_line("xs.segs", pi).vecs(A).vecs(B),
                    lambda: flag_rows(*plane.line_segment_xsections(shcopy(A), shcopy(B))), mode="rat", klass="malformed/segs")
    if w == "lines":
        A, B = mk(k), mk(k2)
        return Case(spec, plane_line("xs.lines", pi).vecs(A).vecs(B),
                    lambda: flag_rows(*plane.line_xsections(shcopy(A), shcopy(B))), mode="rat", klass="malformed/lines")
    arrs = [mk(k), mk(k), mk(k), mk(k)]
    arrs[{"isp-v": 1, "isp-q": 2, "isp-n": 3}[w]] = mk(k2)
    return Case(spec, Line("xs.isp").f(BIG).vecs(arrs[0]).vecs(arrs[1]).vecs(arrs[2]).vecs(arrs[3]),
                lambda: rows(intersect_segment_with_plane(*[x.copy() for x in arrs])), mode="rat", klass="malformed/" + w)


# ---------------------------------------------------------------------------------------------------
# thorough tier: every ordered pair of points of {-2..2}^3 against a family of lattice planes

EXH_POINTS = [list(map(float, p)) for p in itertools.product(range(-2, 3), repeat=3)]
EXH_PLANES = [
    {"ctor": "init", "ref": [0.0, 0.0, 0.0], "n": [0.0, 0.0, 1.0]},
    {"ctor": "init", "ref": [0.5, 0.0, 0.0], "n": [1.0, 0.0, 0.0]},
    {"ctor": "init", "ref": [0.0, -1.0, 0.0], "n": [0.0, -1.0, 0.0]},
    {"ctor": "init", "ref": [0.0, 0.0, 1.25], "n": [0.0, 0.0, -1.0]},
    {"ctor": "init", "ref": [0.0, 2.0, 0.0], "n": [0.0, 1.0, 0.0]},
    {"ctor": "pn", "ref": [0.0, 0.0, 0.0], "n": [1.0, 1.0, 0.0]},
    {"ctor": "pn", "ref": [0.5, 0.0, 0.0], "n": [1.0, 1.0, 1.0]},
    {"ctor": "pn", "ref": [0.0, 0.25, 0.0], "n": [1.0, -2.0, 3.0]},
    {"ctor": "pn", "ref": [1.0, 1.0, 1.0], "n": [2.0, -1.0, 0.0]},
    {"ctor": "pn", "ref": [0.0, 0.0, 0.5], "n": [-1.0, 3.0, 2.0]},
]


def make_exh(spec):
    from polliwog.plane import intersect_segment_with_plane
    ps = EXH_PLANES[spec["plane"]]
    plane = build_plane(ps)
    pi = PlaneInfo(plane, "lattice")
    a = EXH_POINTS[spec["a"]]
    others = EXH_POINTS[spec["a"]:]  # pairs {a, b} with index(b) >= index(a), both directions: every ordered pair once
    scale = 2.0
    margin = F(1e-7) * F(scale)
    cases = []
    if determined(pi, a, margin):
        # star path a, b1, a, b2, ... : edges (a, b_i) and (b_i, a) for every determined b
        verts = []
        for b in others:
            if determined(pi, b, margin):
                verts += [a, b]
        verts.append(a)  # ... and back from the last b
        V, poly, A, B = segments_of(verts, False)
        kl = "exh/%s" % ("axis" if pi.axis_aligned else "oblique")
        cases += seg_cases(spec, pi, V, False, A, B, scale, kl, nsingle=1)
    # the module-level routine with the raw integer normal: exact for every b, on-plane end points included
    A2 = np.array([a] * len(others) + others, dtype=np.float64)
    B2 = np.array(others + [a] * len(others), dtype=np.float64)
    Q = np.tile(np.array(ps["ref"], dtype=np.float64), (len(B2), 1))
    N = np.tile(np.array(ps["n"], dtype=np.float64), (len(B2), 1))
    c = Case(spec, Line("xs.isp").f(BIG).vecs(A2).vecs(B2 - A2).vecs(Q).vecs(N),
             lambda: rows(intersect_segment_with_plane(shcopy(A2), B2 - A2, shcopy(Q), shcopy(N))), mode="rat",
             klass="xs.isp/exh/raw-normal", scale=scale)
    c.oracle = lambda _r: oracle_isp_raw(A2, B2 - A2, Q, N, False, scale)
    cases.append(c)
    return cases


# ---------------------------------------------------------------------------------------------------
# property oracle (exact rational arithmetic on the implementation's outputs)

def is_nan_row(row):
    return bool(np.all(np.isnan(np.asarray(row, dtype=np.float64))))


def finite_row(row):
    return bool(np.all(np.isfinite(np.asarray(row, dtype=np.float64))))


def close_pt(x, y, tol):
    return all(abs(F(float(u)) - (v if isinstance(v, Fraction) else F(float(v)))) <= tol for u, v in zip(x, y))


def dedupe(out):
    seen = {}
    for k_, m in out:
        seen.setdefault(k_, m)
    return list(seen.items())


def guarded(out, key, fn):
    try:
        return fn()
    except Exception as e:  # noqa: BLE001 - an exception on in-scope input is itself a violation
        out.append((key + "/raises", "%s raised %s: %s" % (key, type(e).__name__, e)))
        return None


def oracle_segments(pi, V, closed, A, B, scale):
    from polliwog import Polyline
    from polliwog.plane import intersect_segment_with_plane
    plane = pi.plane
    out = []
    m = len(A)
    tol = F(1e-9) * F(scale)
    nn1 = max(n1(pi.fn), F(1))
    st = guarded(out, "line_segment_xsections", lambda: plane.line_segment_xsections(shcopy(A), shcopy(B)))
    R = np.tile(pi.ref, (m, 1)).reshape(-1, 3)
    N = np.tile(pi.n, (m, 1)).reshape(-1, 3)
    isp = guarded(out, "intersect_segment_with_plane",
                  lambda: np.asarray(intersect_segment_with_plane(shcopy(A), B - A, R, N)).reshape(-1, 3))
    pol = guarded(out, "intersect_plane",
                  lambda: Polyline(shcopy(V), is_closed=closed).intersect_plane(plane, ret_edge_indices=True))
    pol_pts_only = guarded(out, "intersect_plane", lambda: Polyline(shcopy(V), is_closed=closed).intersect_plane(plane))
    if st is None or isp is None or pol is None or pol_pts_only is None:
        return dedupe(out)
    spts, svalid = st
    ppts, pidx = pol
    ppts = np.asarray(ppts).reshape(-1, 3)
    pidx = [int(x) for x in pidx]
    if np.shape(spts) != (m, 3) or np.shape(svalid) != (m,) or isp.shape != (m, 3) or len(ppts) != len(pidx):
        out.append(("shapes", "result shapes: %s %s %s %s/%s for %d segments" % (
            np.shape(spts), np.shape(svalid), isp.shape, ppts.shape, len(pidx), m)))
        return dedupe(out)
    if not np.array_equal(np.asarray(pol_pts_only).reshape(-1, 3), ppts, equal_nan=True):
        out.append(("polyline/ret_edge_indices", "intersect_plane returns different points with and without ret_edge_indices"))
    if any(not (x < y) for x, y in zip(pidx, pidx[1:])) or any(not (0 <= x < m) for x in pidx):
        out.append(("polyline/indices-ascending", "edge indices %s are not strictly ascending edge numbers" % (pidx,)))
    pmap = {}
    for j, row in zip(pidx, ppts):
        pmap.setdefault(j, []).append(row)
    for i in range(m):
        a, b = A[i], B[i]
        where = "plane(ref=%s, n=%s) a=%s b=%s" % (pi.ref.tolist(), pi.n.tolist(), a.tolist(), b.tolist())
        sg = guarded(out, "line_segment_xsection", lambda: plane.line_segment_xsection(shcopy(a), shcopy(b)))
        i1 = guarded(out, "intersect_segment_with_plane",
                     lambda: np.asarray(intersect_segment_with_plane(shcopy(a), b - a, shcopy(pi.ref), shcopy(pi.n))))
        if i1 is None:
            continue
        # stacked = single, row by row
        if (sg is None) != (not bool(svalid[i])):
            out.append(("stacked/segs-valid", "line_segment_xsections flag %s but single form returned %s; %s" % (bool(svalid[i]), sg, where)))
        elif sg is not None and not close_pt(spts[i], sg, tol):
            out.append(("stacked/segs-row", "line_segment_xsections row %s differs from single %s; %s" % (spts[i].tolist(), sg.tolist(), where)))
        if bool(svalid[i]) == is_nan_row(spts[i]) or (not svalid[i] and not is_nan_row(spts[i])):
            out.append(("stacked/nan-iff-invalid", "row %s with flag %s; %s" % (spts[i].tolist(), bool(svalid[i]), where)))
        if is_nan_row(isp[i]) != is_nan_row(i1) or (not is_nan_row(i1) and not close_pt(isp[i], i1, tol)):
            out.append(("stacked/isp-row", "intersect_segment_with_plane stacked row %s, single %s; %s" % (isp[i].tolist(), i1.tolist(), where)))
        fa, fb = Fv(a), Fv(b)
        da, db = pi.d(a), pi.d(b)
        entries = pmap.get(i, [])
        if len(entries) > 1:
            out.append(("polyline/one-entry-per-edge", "edge %d reported %d times; %s" % (i, len(entries), where)))
        if (da > 0 and db < 0) or (da < 0 and db > 0):
            # strictly opposite sides: the four routines return the point of the segment at zero signed distance
            t = da / (da - db)
            want = [fa[c] + t * (fb[c] - fa[c]) for c in range(3)]
            got = {"line_segment_xsection": sg, "line_segment_xsections": spts[i] if svalid[i] else None,
                   "intersect_segment_with_plane": None if is_nan_row(isp[i]) else isp[i],
                   "intersect_plane": entries[0] if entries and not is_nan_row(entries[0]) else None}
            for name, x in got.items():
                if x is None:
                    out.append(("opposite/%s/missing" % name, "%s reports no intersection for a crossing segment; %s" % (name, where)))
                    continue
                if not finite_row(x):
                    out.append(("opposite/%s/not-finite" % name, "%s returned %s; %s" % (name, np.asarray(x).tolist(), where)))
                    continue
                fx = Fv(x)
                if abs(fdot(fsub(fx, pi.fref), pi.fn)) > 4 * tol * nn1:
                    out.append(("opposite/%s/on-plane" % name, "%s returned %s whose signed distance is %r; %s" % (
                        name, np.asarray(x).tolist(), float(fdot(fsub(fx, pi.fref), pi.fn)), where)))
                r = fsub(fb, fa)
                w = fsub(fx, fa)
                l1 = max(n1(r), F(1, 10 ** 300))
                if any(abs(c) > 4 * tol * l1 for c in fcross(w, r)) or not (-4 * tol * l1 <= fdot(w, r) <= fdot(r, r) + 4 * tol * l1):
                    out.append(("opposite/%s/on-segment" % name, "%s returned %s which is not on the segment; %s" % (name, np.asarray(x).tolist(), where)))
                if not close_pt(x, want, 4 * tol):
                    out.append(("opposite/%s/point" % name, "%s returned %s, the crossing point is %s; %s" % (
                        name, np.asarray(x).tolist(), [float(c) for c in want], where)))
            xs = [np.asarray(x) for x in got.values() if x is not None and finite_row(x)]
            for x in xs[1:]:
                if not close_pt(x, xs[0], 8 * tol):
                    out.append(("opposite/pairwise", "routines disagree: %s; %s" % ({k_: (None if v is None else np.asarray(v).tolist()) for k_, v in got.items()}, where)))
                    break
        elif (da > 0 and db > 0) or (da < 0 and db < 0):
            if sg is not None:
                out.append(("same-side/line_segment_xsection", "returned %s for end points on the same side; %s" % (sg.tolist(), where)))
            if svalid[i] or not is_nan_row(spts[i]):
                out.append(("same-side/line_segment_xsections", "row %s flag %s for end points on the same side; %s" % (spts[i].tolist(), bool(svalid[i]), where)))
            if not is_nan_row(isp[i]) or not is_nan_row(i1):
                out.append(("same-side/intersect_segment_with_plane", "returned %s for end points on the same side; %s" % (isp[i].tolist(), where)))
            if entries:
                out.append(("same-side/intersect_plane", "edge %d reported (%s) although its end points are on the same side; %s" % (i, entries[0].tolist(), where)))
        elif (da == 0) != (db == 0):
            # exactly one end point on the plane (only generated where the arithmetic is exact)
            e = a if da == 0 else b
            got = {"line_segment_xsection": sg, "line_segment_xsections": spts[i] if svalid[i] else None,
                   "intersect_segment_with_plane": None if is_nan_row(isp[i]) else isp[i]}
            for name, x in got.items():
                if x is None or not close_pt(x, e, tol):
                    out.append(("endpoint-on-plane/%s" % name, "%s returned %s, expected the end point %s; %s" % (
                        name, None if x is None else np.asarray(x).tolist(), e.tolist(), where)))
    return dedupe(out)


def oracle_lines(pi, P, Rr, scale):
    plane = pi.plane
    out = []
    m = len(P)
    tol = F(1e-9) * F(scale)
    nn1 = max(n1(pi.fn), F(1))
    st = guarded(out, "line_xsections", lambda: plane.line_xsections(shcopy(P), shcopy(Rr)))
    if st is None:
        return dedupe(out)
    spts, svalid = st
    if np.shape(spts) != (m, 3) or np.shape(svalid) != (m,):
        return [("shapes", "line_xsections result shapes %s %s for %d lines" % (np.shape(spts), np.shape(svalid), m))]
    for i in range(m):
        pt, ray = P[i], Rr[i]
        where = "plane(ref=%s, n=%s) pt=%s ray=%s" % (pi.ref.tolist(), pi.n.tolist(), pt.tolist(), ray.tolist())
        x = guarded(out, "line_xsection", lambda: plane.line_xsection(shcopy(pt), shcopy(ray)))
        if (x is None) != (not bool(svalid[i])):
            out.append(("stacked/lines-valid", "line_xsections flag %s, single form %s; %s" % (bool(svalid[i]), x, where)))
        if bool(svalid[i]) == is_nan_row(spts[i]):
            out.append(("stacked/nan-iff-invalid", "row %s with flag %s; %s" % (spts[i].tolist(), bool(svalid[i]), where)))
        dn = fdot(Fv(ray), pi.fn)
        if dn == 0:
            if x is not None:
                out.append(("parallel/line_xsection", "returned %s for a line parallel to the plane; %s" % (x.tolist(), where)))
            if svalid[i]:
                out.append(("parallel/line_xsections", "row flagged valid for a line parallel to the plane; %s" % where))
            continue
        if x is None:
            out.append(("non-parallel/missing", "line_xsection returned None for a non-parallel line; %s" % where))
            continue
        fx = Fv(x)
        mag = max(F(scale), max(abs(c) for c in fx))
        tl = F(1e-9) * mag
        if abs(fdot(fsub(fx, pi.fref), pi.fn)) > 4 * tl * nn1:
            out.append(("non-parallel/on-plane", "line_xsection returned %s with signed distance %r; %s" % (
                x.tolist(), float(fdot(fsub(fx, pi.fref), pi.fn)), where)))
        fr = Fv(ray)
        if any(abs(c) > 4 * tl * n1(fr) for c in fcross(fsub(fx, Fv(pt)), fr)):
            out.append(("non-parallel/on-line", "line_xsection returned %s which is not on the line; %s" % (x.tolist(), where)))
        if svalid[i] and not close_pt(spts[i], x, tl):
            out.append(("stacked/lines-row", "line_xsections row %s differs from single %s; %s" % (spts[i].tolist(), x.tolist(), where)))
    return dedupe(out)


def oracle_isp_raw(S, Vv, Q, N, single, scale):
    """intersect_segment_with_plane alone (any normal): result on the plane and on the segment when the end points are on
    strictly opposite sides or exactly one is on the plane, NaN when strictly on the same side; stacked = single."""
    from polliwog.plane import intersect_segment_with_plane
    out = []
    tol = F(1e-9) * F(scale)
    k = len(S)
    if single:
        res = guarded(out, "intersect_segment_with_plane", lambda: np.asarray(intersect_segment_with_plane(shcopy(S[0]), shcopy(Vv[0]), shcopy(Q[0]), shcopy(N[0]))).reshape(-1, 3))
    else:
        res = guarded(out, "intersect_segment_with_plane", lambda: np.asarray(intersect_segment_with_plane(shcopy(S), shcopy(Vv), shcopy(Q), shcopy(N))).reshape(-1, 3))
    if res is None:
        return dedupe(out)
    if res.shape != (k, 3):
        return [("shapes", "intersect_segment_with_plane result shape %s for %d segments" % (res.shape, k))]
    for i in range(k):
        fa, fv, fq, fn = Fv(S[i]), Fv(Vv[i]), Fv(Q[i]), Fv(N[i])
        where = "start=%s vector=%s point_on_plane=%s normal=%s" % (S[i].tolist(), Vv[i].tolist(), Q[i].tolist(), N[i].tolist())
        one = guarded(out, "intersect_segment_with_plane", lambda: np.asarray(intersect_segment_with_plane(shcopy(S[i]), shcopy(Vv[i]), shcopy(Q[i]), shcopy(N[i]))))
        if one is None:
            continue
        if is_nan_row(one) != is_nan_row(res[i]) or (not is_nan_row(one) and not close_pt(one, res[i], tol)):
            out.append(("stacked/isp-row", "stacked row %s, single %s; %s" % (res[i].tolist(), one.tolist(), where)))
        da = fdot(fsub(fa, fq), fn)
        db = fdot(fsub([fa[c] + fv[c] for c in range(3)], fq), fn)
        nn1 = max(n1(fn), F(1))
        if (da > 0 and db > 0) or (da < 0 and db < 0):
            if not is_nan_row(res[i]):
                out.append(("same-side/intersect_segment_with_plane", "returned %s for end points on the same side; %s" % (res[i].tolist(), where)))
        elif da != db:  # crossing or exactly one end point on the plane
            if not finite_row(res[i]):
                out.append((("endpoint-on-plane" if da == 0 or db == 0 else "opposite") + "/intersect_segment_with_plane/missing", "returned %s for a segment meeting the plane; %s" % (res[i].tolist(), where)))
                continue
            t = da / (da - db)
            want = [fa[c] + t * fv[c] for c in range(3)]
            if not close_pt(res[i], want, 4 * tol):
                out.append(("opposite/intersect_segment_with_plane/point", "returned %s, the crossing point is %s; %s" % (
                    res[i].tolist(), [float(c) for c in want], where)))
            if abs(fdot(fsub(Fv(res[i]), fq), fn)) > 4 * tol * nn1:
                out.append(("opposite/intersect_segment_with_plane/on-plane", "returned %s which is not on the plane; %s" % (res[i].tolist(), where)))
    return dedupe(out)
