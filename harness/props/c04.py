"""C04 — CoordinateManager converts points consistently between any two tagged frames.

Correspondence: random scripts (interleavings of tag_as, every delegating appender, attribute assignment and
read, do_transform; up to 6 tag names, several tags at one position, re-tagging, unknown names) are replayed on
the real CoordinateManager and on the Lean state machine (PW.Model.CoordMgr); every operation's visible outcome
(None, exception class, points) is compared.  One driver line carries the whole script (stateless driver).
Every script ends with a read for every ordered pair of tags, through do_transform and through attributes.
Oracle: own bookkeeping of "tag = number of transforms recorded so far" and the documented step actions folded in
exact rationals between the two positions; path independence, round trip, stability of conversions under later
appends / new tags / re-tagging of other names; the three refusals.
"""
from fractions import Fraction

import numpy as np

from pwlib.share import shcopy

from pwlib.canon import err_name, flat
from pwlib.engine import Case
from pwlib.proto import Line
from props import ct_steps as S

ID = "C04"
TARGETS = ["PW.Props.C04", "PW.Props.C04Gen"]
INTERN_WITHIN_CASE = True   # see pwlib/engine.py: equal-valued step arguments are one object inside a program
RULE = ("scripts of 3..40 operations from four streams (lattice: exact steps; float: Rodrigues / reorient / unit "
        "conversion / random matrices; nonaffine: lattice scripts where 30% of the steps are exactly invertible small-integer "
        "unimodular explicit matrices whose last row is not 0 0 0 1; malformed: refused step parameters, unknown tag names, reads before assignment, "
        "wrongly shaped assignments) with 1..6 tag names, tags at equal positions (consecutive tag_as), re-tagging of "
        "existing names (also of the name the points are assigned at), reads by attribute and by do_transform (single "
        "point and stack) in the middle of the script; every script ends with do_transform for every ordered pair of "
        "tags and, for every tag, an assignment followed by an attribute read at every tag. "
        "A case is non-trivial when at least one transform and two tags exist; distinct = distinct script")
TRUSTED = ["external routines (np.linalg.inv, ounce.factor, rodrigues, rotation_from_up_and_look) enter the model as data, as in C03",
           "Python's attribute protocol: __getattr__ is reached only for names that are not ordinary attributes "
           "(tag names colliding with method names or private fields are outside the model)",
           "IEEE rounding not modelled: numeric outputs compared with 1e-9 * (entrywise bound of the absolute matrix products)"]
ASSUMPTIONS = ["tag names are identifiers that do not collide with CoordinateManager's own attributes",
               "assigned points have shape (k,3) (the wrongly shaped assignment is checked for its exception class only)",
               "KNOWN FINDING path-independent/non-affine-explicit-matrix: append_transform accepts matrices whose last row is "
               "not 0 0 0 1; w is dropped without dividing, so conversions spanning such a step do not compose (A->C differs "
               "from A->B->C, round trips do not return; Lean: C04_*_defect_witness); generated in a dedicated stream, model and "
               "code agree on them, single conversions are still the homogeneous product of the recorded matrices"]
EXHAUSTIVE = {"quick": False, "thorough": False}

NAMES = ["a", "b", "c", "d", "e", "f"]
NAMES_OTHER = ["_scan", "rest", "_b2", "x1", "Top", "world_1"]
UNKNOWN = ["zz", "yy"]


def gen(rng, tier):
    quick = tier == "quick"
    plan = [("lattice", 400 if quick else 6000), ("float", 250 if quick else 4000), ("malformed", 150 if quick else 2500),
            ("nonaffine", 80 if quick else 1200)]
    for stream, count in plan:
        for _ in range(count):
            base = "float" if stream == "float" or (stream == "malformed" and rng.random() < 0.4) else "lattice"
            yield gen_script(rng, stream, base)


def gen_script(rng, stream, base):
    ntags = rng.choice([1, 2, 2, 3, 3, 4, 5, 6])
    # one script in four uses other spellings of tag names: a leading underscore, digits, capitals (any identifier that is
    # not an attribute of the class itself is a tag name like any other)
    names = (NAMES if rng.random() < 0.75 else NAMES_OTHER)[:ntags]
    n = rng.randint(3, 12) if rng.random() < 0.6 else rng.randint(12, 40)
    budget = S.Budget(8 if base == "lattice" else 4.0)
    ops = []
    tagged = []
    assigned = False
    bad = stream == "malformed"
    k = rng.choice([1, 1, 2, 3])
    for _ in range(n):
        r = rng.random()
        if r < 0.30 or not tagged:
            if bad and rng.random() < 0.3:
                ops.append(["step", S.gen_bad_step(rng)])
            elif stream == "nonaffine" and rng.random() < 0.3:
                # exactly invertible explicit matrix whose last row is not 0 0 0 1 (accepted by append_transform;
                # known finding path-independent/non-affine-explicit-matrix)
                ops.append(["step", S.gen_nonaffine_step(rng)])
            else:
                ops.append(["step", S.gen_step(rng, base, budget)])
            if rng.random() < 0.6:
                continue
            r = 0.35
        if r < 0.60:
            # tag: new name, same position as the previous tag (no step in between), or re-tag
            name = rng.choice(names)
            ops.append(["tag", name])
            if name not in tagged:
                tagged.append(name)
            if rng.random() < 0.25:
                other = rng.choice(names)
                ops.append(["tag", other])
                if other not in tagged:
                    tagged.append(other)
        elif r < 0.72:
            name = rng.choice(UNKNOWN) if bad and rng.random() < 0.4 else rng.choice(tagged if rng.random() < 0.9 else names)
            if bad and rng.random() < 0.25:
                ops.append(["setbad", name, rng.choice(["v3", "k2", "k4", "kk33"])])
            else:
                ops.append(["set", name, S.gen_points(rng, base, k)])
                assigned = assigned or name in tagged
        elif r < 0.86:
            name = rng.choice(UNKNOWN) if bad and rng.random() < 0.3 else rng.choice(tagged if rng.random() < 0.9 else names)
            if assigned or bad or rng.random() < 0.15:
                ops.append(["get", name])
        else:
            fa = rng.choice(UNKNOWN) if bad and rng.random() < 0.25 else rng.choice(tagged if rng.random() < 0.9 else names)
            fb = rng.choice(UNKNOWN) if bad and rng.random() < 0.25 else rng.choice(tagged if rng.random() < 0.9 else names)
            single = rng.random() < 0.4
            ops.append(["do", S.gen_points(rng, base, 1 if single else rng.choice([0, 1, 2, 3])), single, fa, fb])
    if bad and rng.random() < 0.5:
        # read before any assignment, at the very start
        ops.insert(rng.randint(0, min(2, len(ops))), ["get", rng.choice(names + UNKNOWN)])
    # closing block: every ordered pair of tags, both ways of reading
    pts = S.gen_points(rng, base, 2)
    final = [nm for nm in names if nm in tagged]
    for a in final:
        for b in final:
            single = rng.random() < 0.3
            ops.append(["do", pts[:1] if single else pts, single, a, b])
    for a in final:
        ops.append(["set", a, pts])
        for b in final:
            ops.append(["get", b])
    return {"op": "cm-script", "stream": stream, "base": base, "ops": ops}


BAD_SHAPES = {"v3": (3,), "k2": (2, 2), "k4": (2, 4), "kk33": (1, 3, 3)}


def run_op(cm, op):
    """-> canonical items of what the operation shows"""
    k = op[0]
    try:
        if k == "tag":
            r = cm.tag_as(op[1])
        elif k == "step":
            r = S.call_step(cm, op[1])
        elif k == "set":
            setattr(cm, op[1], np.array(np.reshape(op[2], (-1, 3)), dtype=np.float64))
            r = None
        elif k == "setbad":
            setattr(cm, op[1], np.zeros(BAD_SHAPES[op[2]]))
            r = None
        elif k == "get":
            r = np.asarray(getattr(cm, op[1]))
            if r.ndim != 2 or r.shape[1] != 3:
                raise AssertionError("attribute read has shape %s" % (r.shape,))
            return [int(r.shape[0])] + flat(r)
        elif k == "do":
            P = np.array(np.reshape(op[1], (-1, 3)), dtype=np.float64)
            arg = P[0].copy() if op[2] else P.copy()
            r = np.asarray(cm.do_transform(arg, op[3], op[4]))
            if op[2]:
                if r.shape != (3,):
                    raise AssertionError("single point result has shape %s" % (r.shape,))
                return flat(r)
            if r.shape != (len(P), 3):
                raise AssertionError("stack result has shape %s" % (r.shape,))
            return [len(P)] + flat(r)
        else:
            raise ValueError(k)
    except AssertionError:
        raise
    except Exception as e:  # noqa: BLE001
        return ["E:" + err_name(e)]
    return ["N"] if r is None else ["?:" + type(r).__name__]


def op_tokens(ln, op):
    k = op[0]
    if k == "tag":
        return ln.tok("tag", op[1])
    if k == "step":
        return S.step_tokens(ln.tok("step"), op[1])
    if k == "set":
        return ln.tok("set", op[1]).vecs(np.array(np.reshape(op[2], (-1, 3)), dtype=np.float64))
    if k == "setbad":
        return ln.tok("setbad", op[1])
    if k == "get":
        return ln.tok("get", op[1])
    if k == "do":
        return S.pts_tokens(ln.tok("do"), np.array(np.reshape(op[1], (-1, 3)), dtype=np.float64), op[2]).tok(op[3], op[4])
    raise ValueError(k)


def fresh():
    from polliwog import CoordinateManager
    return CoordinateManager()


def all_range_bound(transforms):
    """max entry of the absolute product over every contiguous range, forward and inverse"""
    n = len(transforms)
    best = 1.0
    for i in range(n):
        bf = np.eye(4)
        bi = np.eye(4)
        for j in range(i, n):
            bf = np.abs(np.asarray(transforms[j][0], dtype=np.float64)) @ bf
            bi = bi @ np.abs(np.asarray(transforms[j][1], dtype=np.float64))
            best = max(best, float(np.max(bf)), float(np.max(bi)))
    return best


def make(spec):
    ops = spec["ops"]
    cm = fresh()
    for op in ops:
        run_op(cm, op)
    transforms = cm._transform.transforms
    bound = all_range_bound(transforms)
    pmax = 1.0
    for op in ops:
        if op[0] == "set":
            pmax = max(pmax, float(np.max(np.abs(np.array(op[2])))) if len(op[2]) else 1.0)
        if op[0] == "do" and len(op[1]):
            pmax = max(pmax, float(np.max(np.abs(np.array(op[1])))))
    ntr = len(transforms)
    ntg = len(cm._tags_to_indices)
    trivial = ntr == 0 or ntg < 2
    ln = Line("cm.run").i(len(ops))
    for op in ops:
        op_tokens(ln, op)

    def impl():
        m = fresh()
        items = []
        for op in ops:
            items += run_op(m, op)
        return items

    kl = "cm.run/%s/tags%d/%s" % (spec["stream"], ntg, "n0" if ntr == 0 else "n1-3" if ntr <= 3 else "n4-9" if ntr <= 9 else "n10+")
    c = Case(spec, ln, impl, mode="both", klass=kl, trivial=trivial, scale=bound * pmax * 4)
    c.oracle = lambda _r: oracle(spec, bound)
    return c


# ---------------------------------------------------------------------------------------------------
# property oracle

def frac_pts(pts):
    return [[Fraction(float(x)) for x in p] + [Fraction(1)] for p in pts]


def convert(kept, i, j, pts):
    """push points through the documented actions recorded between positions i and j"""
    if i == j:
        return [p[:3] for p in pts]
    if i < j:
        return [S.fold(kept[i:j], p, False)[:3] for p in pts]
    return [S.fold(kept[j:i], p, True)[:3] for p in pts]


def close_pts(got, want, tol):
    got = np.asarray(got, dtype=np.float64).reshape(-1, 3)
    if len(got) != len(want):
        return False
    return all(abs(Fraction(float(g)) - w) <= tol for gr, wr in zip(got, want) for g, w in zip(gr, wr))


def oracle(spec, bound):
    import random
    out = []

    def bad(key, msg):
        out.append((key, msg))

    ops = spec["ops"]
    rng = random.Random(len(ops) * 104729 + 17)
    cm = fresh()
    tags = {}        # the oracle's own record: name -> number of transforms recorded when it was tagged
    kept = []        # documented actions of the recorded transforms
    assigned = None  # (name, points)
    usable = True    # False once a step outside the documented parameter space was accepted
    cut = rng.randrange(len(ops)) if ops else 0
    snapshot = None  # conversions between existing tags at the cut
    retagged = set()
    probe = np.array(S.gen_points(rng, spec["base"], 2), dtype=np.float64)
    pm = max(float(np.max(np.abs(probe))), 1.0)
    for idx, op in enumerate(ops):
        k = op[0]
        pmax = 1.0
        res = run_op(cm, op)
        err = res[0][2:] if res and isinstance(res[0], str) and res[0].startswith("E:") else None
        if k == "tag":
            tags[op[1]] = len(kept)
            if snapshot is not None:
                retagged.add(op[1])
            if err or res != ["N"]:
                bad("tag_as/returns", "tag_as(%r) gave %s" % (op[1], res))
        elif k == "step":
            d = S.documented(op[1])
            if err is None:
                if d is None:
                    usable = False
                else:
                    kept.append(d)
            elif d is not None:
                bad("append/refused-valid", "%s%r raised %s" % (op[1][0], tuple(op[1][1:]), err))
                usable = False
        elif k in ("set", "setbad"):
            if op[1] not in tags:
                if err != "AttributeError":
                    bad("errors/assign-unknown-tag", "assigning to unknown tag %r gave %s, expected AttributeError" % (op[1], res))
            elif k == "set":
                if err:
                    bad("assign/refused", "assigning kx3 points to known tag %r raised %s" % (op[1], err))
                assigned = (op[1], op[2])
            elif err is None:
                assigned = None
                usable = False
        elif k == "get":
            if assigned is None:
                if err != "ValueError":
                    bad("errors/read-before-assign", "reading %r before any assignment gave %s, expected ValueError" % (op[1], res))
            elif op[1] not in tags:
                if err != "KeyError":
                    bad("errors/read-unknown-tag", "reading unknown tag %r gave %s, expected KeyError" % (op[1], res))
            elif usable:
                want = convert(kept, tags[assigned[0]], tags[op[1]], frac_pts(assigned[1]))
                pmax = max([abs(x) for p in assigned[1] for x in p] + [1.0])
                tol = Fraction(1e-9) * Fraction(bound * pmax * 4)
                if err or not close_pts(res[1:], want, tol):
                    bad("read/attribute", "points %s assigned at %r (position %d) read at %r (position %d) give %s, the recorded transforms give %s"
                        % (assigned[1], assigned[0], tags[assigned[0]], op[1], tags[op[1]], res, [[float(x) for x in p] for p in want]))
        elif k == "do":
            if op[3] not in tags or op[4] not in tags:
                if err != "KeyError":
                    bad("errors/do_transform-unknown-tag", "do_transform(%r -> %r) with an unknown tag gave %s, expected KeyError" % (op[3], op[4], res))
            elif usable:
                want = convert(kept, tags[op[3]], tags[op[4]], frac_pts(op[1]))
                pmax = max([abs(x) for p in op[1] for x in p] + [1.0])
                tol = Fraction(1e-9) * Fraction(bound * pmax * 4)
                got = res if op[2] else res[1:]
                if err or not close_pts(got, want, tol):
                    bad("read/do_transform", "do_transform(%s, %r (position %d), %r (position %d)) gives %s, the recorded transforms give %s"
                        % (op[1], op[3], tags[op[3]], op[4], tags[op[4]], res, [[float(x) for x in p] for p in want]))
        if idx == cut and len(tags) >= 1:
            names = sorted(tags)
            pairs = [(a, b) for a in names for b in names]
            if len(pairs) > 9:
                pairs = rng.sample(pairs, 9)
            snapshot = {(a, b): np.asarray(cm.do_transform(shcopy(probe), a, b)).copy() for a, b in pairs}
    # --- stability: later appends / new tags / re-tagging of other names never change a conversion -----------
    if snapshot:
        for (a, b), before in snapshot.items():
            if a in retagged or b in retagged:
                continue
            after = np.asarray(cm.do_transform(shcopy(probe), a, b))
            if after.shape != before.shape or not np.array_equal(after, before):
                bad("stable/append", "conversion %r -> %r of %s changed from %s to %s after later operations"
                    % (a, b, probe.tolist(), before.tolist(), after.tolist()))
    # --- path independence and round trips on the final state ------------------------------------------------------
    names = sorted(tags)
    tol = 1e-9 * bound * bound * pm * 8
    triples = [(a, b, c) for a in names for b in names for c in names]
    if len(triples) > 14:
        triples = rng.sample(triples, 14)
    def key(k_, *names_used):
        # conversions whose span of recorded transforms holds an explicit matrix with last row != 0 0 0 1 are
        # known not to compose (w is dropped without dividing)
        if not usable:
            return k_
        pos = [tags[x] for x in names_used]
        span = kept[min(pos):max(pos)]
        return k_ if all(a[2] for a in span) else "path-independent/non-affine-explicit-matrix"

    for a, b, c in triples:
        ab = cm.do_transform(shcopy(probe), a, b)
        abc = np.asarray(cm.do_transform(shcopy(np.asarray(ab)), b, c))
        ac = np.asarray(cm.do_transform(shcopy(probe), a, c))
        if not np.allclose(abc, ac, rtol=0, atol=tol):
            bad(key("path-independent", a, b, c), "%r -> %r -> %r gives %s, %r -> %r gives %s" % (a, b, c, abc.tolist(), a, c, ac.tolist()))
    pairs = [(a, b) for a in names for b in names]
    if len(pairs) > 12:
        pairs = rng.sample(pairs, 12)
    for a, b in pairs:
        there = cm.do_transform(shcopy(probe), a, b)
        back = np.asarray(cm.do_transform(shcopy(np.asarray(there)), b, a))
        if not np.allclose(back, probe, rtol=0, atol=tol):
            bad(key("round-trip", a, b), "%r -> %r -> %r turns %s into %s" % (a, b, a, probe.tolist(), back.tolist()))
        # the attribute protocol agrees with do_transform
        setattr(cm, a, shcopy(probe))
        via = np.asarray(getattr(cm, b))
        if not np.array_equal(via, np.asarray(there)):
            bad("read/attribute-vs-do_transform", "cm.%s = p; cm.%s gives %s, do_transform gives %s" % (a, b, via.tolist(), np.asarray(there).tolist()))
    seen = {}
    for k_, m in out:
        seen.setdefault(k_, m)
    return list(seen.items())
