"""C18 — line projection is closest point; reported line intersections lie on both lines.

Correspondence: project_point_to_line / Line.project, intersect_lines / Line.intersect_line, intersect_2d_lines,
the Line constructor and the shape checks against the Lean model PW.Model.Line (exact rationals; Float as a second
opinion).  The code's 3-D result contains a square root (|h|/|k|), so numbers are compared with tolerance — against
the faithful model (whose exact-run sqrt is a 2^-128 approximation) *and* against the sqrt-free closed form
`intersectLinesSpec` which is exact; None-vs-point is compared exactly.
Oracle: the clauses of C18 on the implementation's own outputs, exact Fraction / integer arithmetic: the pair of
lines is classified exactly (parallel / collinear / skew / unique point X) and the answer must be None resp. X; any
returned point must lie on both lines; a projection must lie on its line with the residual perpendicular to it.
"""
import itertools
import math
import random
from fractions import Fraction

import numpy as np

from pwlib.share import shcopy

from pwlib.canon import flat
from pwlib.engine import Case
from pwlib.proto import Line, parse_num

ID = "C18"
TARGETS = ["PW.Props.C18"]
RULE = ("3-D line pairs through lattice points of {-2..2}^3 generated per incidence pattern (meeting at a lattice point "
        "with each of p0/q0/p1/q1 at the intersection or not, points of different lines coinciding, coplanar with a "
        "rational intersection, parallel distinct, collinear, skew, degenerate); 2-D pairs through {-4..4}^2 likewise "
        "(parallel pairs oversampled); float lines with coordinates 1e-3..1e3 that the code answers with a point (lines in "
        "a coordinate plane, lines sharing a defining point, dyadic multiples of lattice pairs) plus generic skew float lines; "
        "projections single / many-to-one / pairwise / one-to-many with points 1e-6..1e6 and directions of independent "
        "length 1e-6..1e6 (a few 1e+-100); Line constructor with zero / sub-threshold / threshold / ordinary directions; "
        "malformed shapes. thorough adds EXHAUSTIVE enumerations, one batch case per first line: all 27^4 = 531,441 "
        "quadruples of points of {-1..1}^3 (3-D) and all 25^4 = 390,625 quadruples of {-2..2}^2 (2-D), plus 80k sampled "
        "pairs of {-2..2}^3 and 120k of {-4..4}^2 (all 2.4e8 / 4.3e7 pairs of those boxes do not fit the time budget). "
        "A case is non-trivial unless it is a degenerate line, a zero direction or an empty stack; distinct = distinct spec")
TRUSTED = ["np.linalg.solve (2x2) enters the model as a parameter with the contract 'returns a solution when det != 0' "
           "(theorem intersect2d_with_contract); the executable model uses Cramer's rule",
           "np.cross / np.dot / np.linalg.norm / vg.normalize / vg.project / vg.almost_zero modelled by what they compute",
           "IEEE rounding not modelled: numeric outputs compared with rtol 1e-9*scale, None-vs-point and exception class exactly"]
ASSUMPTIONS = ["float streams keep discrete decisions away from rounding: coplanarity is exact by construction (coordinate plane, "
               "shared point, dyadic lattice) or |g.k| > 1e-6|g||k|; line pairs closer to parallel than 1e-3 rad are not generated",
               "direction vectors with |v|^2 outside the double range (|v| < 1e-154 or > 1e154) are not generated"]
EXHAUSTIVE = {"quick": False, "thorough": True}

RTOL = 1e-9


# ---------------------------------------------------------------------------------------------------
# exact arithmetic helpers (python ints when the coordinates are integers, Fractions otherwise)

def exn(x):
    x = float(x)
    return int(x) if x.is_integer() and abs(x) < 2.0 ** 53 else Fraction(x)


def exv(v):
    return [exn(x) for x in v]


def vsub(a, b):
    return [x - y for x, y in zip(a, b)]


def vdot(a, b):
    return sum(x * y for x, y in zip(a, b))


def vcross(a, b):
    return [a[1] * b[2] - a[2] * b[1], a[2] * b[0] - a[0] * b[2], a[0] * b[1] - a[1] * b[0]]


def vmax(v):
    return max((abs(x) for x in v), default=0)


def classify3(p0, q0, p1, q1):
    """exact classification of the pair of 3-D lines -> (kind, X)"""
    e = vsub(q0, p0)
    f = vsub(q1, p1)
    if not any(e) or not any(f):
        return "degenerate", None
    g = vsub(p1, p0)
    n = vcross(e, f)
    if not any(n):
        return ("collinear" if not any(vcross(g, e)) else "parallel"), None
    if vdot(g, n) != 0:
        return "skew", None
    s = Fraction(vdot(vcross(g, f), n)) / Fraction(vdot(n, n))
    return "unique", [p0[i] + s * e[i] for i in range(3)]


def classify2(p0, q0, p1, q1):
    e = vsub(q0, p0)
    f = vsub(q1, p1)
    if not any(e) or not any(f):
        return "degenerate", None
    g = vsub(p1, p0)
    det = e[0] * f[1] - e[1] * f[0]
    if det == 0:
        return ("collinear" if g[0] * e[1] - g[1] * e[0] == 0 else "parallel"), None
    s = Fraction(g[0] * f[1] - g[1] * f[0]) / Fraction(det)
    return "unique", [p0[i] + s * e[i] for i in range(2)]


def signature(kind, X, pts):
    """incidence pattern: which defining points are the intersection, which points of different lines coincide"""
    names = ("p0", "q0", "p1", "q1")
    s = kind
    if X is not None:
        at = [n for n, p in zip(names, pts) if all(a == b for a, b in zip(p, X))]
        s += "/X@" + ("+".join(at) if at else "none")
        if any(Fraction(x).denominator != 1 for x in X):
            s += "/rational"
    eq = [a + "=" + b for (a, pa), (b, pb) in ((("p0", pts[0]), ("p1", pts[2])), (("p0", pts[0]), ("q1", pts[3])),
                                                (("q0", pts[1]), ("p1", pts[2])), (("q0", pts[1]), ("q1", pts[3])))
          if pa == pb]
    if eq:
        s += "/" + "+".join(eq)
    return s


def check_answer(tag, dim, pts, res, scale, out, what):
    """property clauses for one pair of lines.  res = None or the returned point (floats)."""
    ep = [exv(p) for p in pts]
    kind, X = (classify3 if dim == 3 else classify2)(*ep)
    if kind == "degenerate":
        return kind
    tol = Fraction(RTOL)
    if res is not None:
        res = [float("nan") if x is None else float(x) for x in res]
        if any(math.isnan(x) or math.isinf(x) for x in res):
            out.append((tag + "/not-finite", "%s%s returned %s (the lines are %s)" % (what, pts, res, kind)))
            return kind
        P = [Fraction(x) for x in res]
        # soundness: the returned point lies on both lines
        for li, (a, b) in enumerate(((ep[0], ep[1]), (ep[2], ep[3]))):
            d = vsub(b, a)
            w = vsub(P, a)
            if dim == 3:
                r = vmax(vcross(w, d))
            else:
                r = abs(w[0] * d[1] - w[1] * d[0])
            bound = tol * vmax(d) * max(Fraction(scale), vmax(P))
            if r > bound:
                out.append(("%s/not-on-line%d" % (tag, li), "%s%s returned %s which is not on line %d (residual %.3g)" % (
                    what, pts, list(map(float, res)), li, float(r))))
    if kind in ("parallel", "skew"):
        if res is not None:
            out.append((tag + "/point-for-disjoint-lines", "%s%s: lines are %s but the result is %s, expected None" % (
                what, pts, kind if kind == "skew" else "parallel and distinct", list(map(float, res)))))
    elif kind == "unique":
        if res is None:
            out.append((tag + "/none-for-meeting-lines", "%s%s returned None but the lines meet exactly at %s" % (
                what, pts, [float(x) for x in X])))
        else:
            b = tol * max(Fraction(scale), vmax(X))
            if any(abs(Fraction(float(a)) - x) > b for a, x in zip(res, X)):
                out.append((tag + "/wrong-point", "%s%s returned %s, the lines meet exactly at %s" % (
                    what, pts, list(map(float, res)), [float(x) for x in X])))
    return kind


def dedupe(out):
    seen = {}
    for k, m in out:
        seen.setdefault(k, m)
    return list(seen.items())


# ---------------------------------------------------------------------------------------------------
# generators of lattice configurations

def rpt(rng, R, d=3):
    return [rng.randint(-R, R) for _ in range(d)]


def rdir(rng, R, d=3):
    while True:
        v = [rng.randint(-R, R) for _ in range(d)]
        if any(v):
            return v


def inbox(p, R):
    return all(abs(x) <= R for x in p)


def add(p, t, v):
    return [a + t * b for a, b in zip(p, v)]


def parallel(a, b):
    if len(a) == 3:
        return not any(vcross(a, b))
    return a[0] * b[1] - a[1] * b[0] == 0


PARAMS = [(0, 1), (1, 0), (0, -1), (-1, 0), (0, 2), (2, 0), (1, 2), (2, 1), (-1, 1), (1, -1), (1, 3), (-2, -1), (-1, 2)]


def lattice_quad(rng, R, d, pattern):
    """four lattice points of {-R..R}^d realising the pattern (rejection sampling); floats"""
    for _ in range(2000):
        if pattern == "random":
            q = [rpt(rng, R, d) for _ in range(4)]
            if q[0] == q[1] or q[2] == q[3]:
                continue
        elif pattern == "meet":
            X = rpt(rng, R, d)
            d0, d1 = rdir(rng, min(R, 2), d), rdir(rng, min(R, 2), d)
            if parallel(d0, d1):
                continue
            (a, b), (c, e) = rng.choice(PARAMS), rng.choice(PARAMS)
            q = [add(X, a, d0), add(X, b, d0), add(X, c, d1), add(X, e, d1)]
        elif pattern == "coplanar":
            p0, q0, p1 = rpt(rng, R, d), rpt(rng, R, d), rpt(rng, R, d)
            al, be = rng.randint(-2, 2), rng.randint(-2, 2)
            q1 = [p1[i] + al * (q0[i] - p0[i]) + be * (p1[i] - p0[i]) for i in range(d)]
            q = [p0, q0, p1, q1]
            if p0 == q0 or p1 == q1:
                continue
        elif pattern == "parallel":
            v = rdir(rng, rng.choice([1, 1, 2, min(R, 3)]), d)
            p0, p1 = rpt(rng, R, d), rpt(rng, R, d)
            mult = [m for m in range(-2 * R, 2 * R + 1) if m]   # direction vectors of all lengths that fit the box
            a, b = rng.choice(mult), rng.choice(mult)
            q = [p0, add(p0, a, v), p1, add(p1, b, v)]
            if parallel(vsub(p1, p0), v):
                continue
        elif pattern == "collinear":
            v = rdir(rng, 1 if R <= 2 else 2, d)
            base = rpt(rng, R, d)
            t = [rng.randint(-3, 3) for _ in range(4)]
            if t[0] == t[1] or t[2] == t[3]:
                continue
            q = [add(base, ti, v) for ti in t]
        elif pattern == "skew":
            q = [rpt(rng, R, d) for _ in range(4)]
            if q[0] == q[1] or q[2] == q[3]:
                continue
            if classify3(*q)[0] != "skew":
                continue
        elif pattern == "degenerate":
            q = [rpt(rng, R, d) for _ in range(4)]
            w = rng.randrange(3)
            if w in (0, 2):
                q[1] = list(q[0])
            if w in (1, 2):
                q[3] = list(q[2])
            if rng.random() < 0.3:
                q[2] = list(q[0])
        else:
            raise ValueError(pattern)
        if all(inbox(p, R) for p in q):
            return [[float(x) for x in p] for p in q]
    raise RuntimeError("no configuration for pattern %s" % pattern)


def weighted(rng, table):
    r = rng.random() * sum(w for _, w in table)
    for name, w in table:
        r -= w
        if r < 0:
            return name
    return table[-1][0]


PAT3 = [("meet", 36), ("coplanar", 12), ("random", 10), ("parallel", 10), ("collinear", 8), ("skew", 10), ("degenerate", 3)]
PAT2 = [("parallel", 45), ("meet", 25), ("random", 18), ("collinear", 8), ("degenerate", 4)]


def float_quad3(rng, kind):
    """float 3-D configuration with coordinates of magnitude 1e-3..1e3"""
    s = 10.0 ** rng.uniform(-3, 3)
    u = lambda: rng.uniform(-1, 1) * s  # noqa: E731
    for _ in range(1000):
        if kind == "planar":
            ax = rng.randrange(3)
            c = u()
            q = []
            for _j in range(4):
                p = [u(), u(), u()]
                p[ax] = c
                q.append(p)
        elif kind == "shared":
            q = [[u(), u(), u()] for _ in range(4)]
            w = rng.randrange(4)
            if w == 0:
                q[2] = list(q[0])
            elif w == 1:
                q[3] = list(q[0])
            elif w == 2:
                q[2] = list(q[1])
            else:
                q[3] = list(q[1])  # q0 == q1: no shortcut, general path; planar to keep coplanarity exact
                ax = rng.randrange(3)
                for p in q:
                    p[ax] = q[1][ax]
        elif kind == "scaled":
            pat = weighted(rng, PAT3)
            j = rng.randint(-9, 9)
            off = [rng.randint(-3, 3) * 2.0 ** j for _ in range(3)] if rng.random() < 0.5 else [0.0, 0.0, 0.0]
            q = [[x * 2.0 ** j + o for x, o in zip(p, off)] for p in lattice_quad(rng, 2, 3, pat)]
            return q
        elif kind == "skew":
            q = [[u(), u(), u()] for _ in range(4)]
        elif kind == "near-shared":
            # coplanar lines where a defining point of line 1 is *nearly* (relative 1e-7..1e-5) a defining point of
            # line 0 without being equal to it: the coincidence shortcuts must not fire
            ax = rng.randrange(3)
            c = u()
            q = []
            for _j in range(4):
                p = [u(), u(), u()]
                p[ax] = c
                q.append(p)
            src, dst = rng.choice([(0, 2), (0, 3), (1, 2), (1, 3)])
            rel = 10.0 ** rng.uniform(-7, -5)
            q[dst] = [x * (1.0 + rel * rng.choice([-1, 1])) if j != ax else x for j, x in enumerate(q[src])]
            if q[dst] == q[src]:
                continue
        else:
            raise ValueError(kind)
        # conditioning (exact): not nearly parallel; skew margin
        e, f, g = vsub(exv(q[1]), exv(q[0])), vsub(exv(q[3]), exv(q[2])), vsub(exv(q[2]), exv(q[0]))
        n = vcross(e, f)
        ne, nf, nn, ng = (math.sqrt(float(vdot(x, x))) for x in (e, f, n, g))
        if ne == 0 or nf == 0 or nn < 1e-3 * ne * nf:
            continue
        gk = float(vdot(g, n))
        if kind == "skew" and abs(gk) < 1e-6 * ng * nn:
            continue
        if kind in ("planar", "near-shared"):
            # h = f x g must not vanish by accident (p0 on line 1): generic floats never do, but keep the guard
            if not any(vcross(f, g)):
                continue
        return q
    raise RuntimeError("no float configuration " + kind)


def float_quad2(rng, kind):
    s = 10.0 ** rng.uniform(-3, 3)
    u = lambda: rng.uniform(-1, 1) * s  # noqa: E731
    for _ in range(1000):
        if kind == "scaled":
            pat = weighted(rng, PAT2)
            j = rng.randint(-9, 9)
            off = [rng.randint(-4, 4) * 2.0 ** j for _ in range(2)] if rng.random() < 0.5 else [0.0, 0.0]
            return [[x * 2.0 ** j + o for x, o in zip(p, off)] for p in lattice_quad(rng, 4, 2, pat)]
        q = [[u(), u()] for _ in range(4)]
        if kind == "shared":
            q[rng.choice([2, 3])] = list(q[rng.choice([0, 1])])
        e, f = vsub(exv(q[1]), exv(q[0])), vsub(exv(q[3]), exv(q[2]))
        det = float(e[0] * f[1] - e[1] * f[0])
        ne, nf = (math.sqrt(float(vdot(x, x))) for x in (e, f))
        if ne == 0 or nf == 0 or abs(det) < 1e-3 * ne * nf:
            continue
        return q
    raise RuntimeError("no float configuration " + kind)


def box_points(R, d):
    return [list(map(float, p)) for p in itertools.product(range(-R, R + 1), repeat=d)]


def gen(rng, tier):
    quick = tier == "quick"
    mult = 1 if quick else 2
    sub = lambda: rng.randrange(1 << 30)  # noqa: E731
    # --- 3-D lattice pairs, one case per pair --------------------------------------------------------------
    for i in range(3600 * mult):
        pat = weighted(rng, PAT3)
        R = 1 if i % 6 == 0 else 2
        yield {"op": "isect3", "stream": "lattice", "pattern": pat, "pts": lattice_quad(rng, R, 3, pat),
               "via_line": i % 4 == 0}
    # --- 3-D float lines ------------------------------------------------------------------------------------
    for kind, n in (("planar", 450), ("shared", 150), ("scaled", 350), ("skew", 150), ("near-shared", 120)):
        for i in range(n * mult):
            yield {"op": "isect3", "stream": "float-" + kind, "pattern": kind, "pts": float_quad3(rng, kind),
                   "via_line": kind in ("planar", "scaled") and i % 3 == 0}
    # --- 2-D ------------------------------------------------------------------------------------------------
    for i in range(2600 * mult):
        pat = weighted(rng, PAT2)
        R = 2 if i % 6 == 0 else 4
        yield {"op": "isect2", "stream": "lattice", "pattern": pat, "pts": lattice_quad(rng, R, 2, pat)}
    for kind, n in (("generic", 300), ("shared", 60), ("scaled", 250)):
        for i in range(n * mult):
            yield {"op": "isect2", "stream": "float-" + kind, "pattern": kind, "pts": float_quad2(rng, kind)}
    # --- projection -----------------------------------------------------------------------------------------
    for i in range(560 * mult):
        form = ("single", "many-one", "pairwise", "one-many")[i % 4]
        k = 1 if form == "single" else rng.choice([0, 1, 2, 3, 5, 8, 20])
        yield {"op": "project", "stream": "lattice" if rng.random() < 0.4 else "float", "form": form, "k": k, "seed": sub(),
               "via_line": form in ("single", "many-one") and rng.random() < 0.6, "zero": i % 70 == 69,
               "extreme": i % 40 in (17, 18, 19, 20)}
    # --- Line constructor -----------------------------------------------------------------------------------
    for i in range(160 * mult):
        yield {"op": "line-ctor", "kind": ("zero", "tiny", "threshold", "ordinary", "from-points-same",
                                           "from-points", "from-points-tiny")[i % 7], "seed": sub()}
    for al in ([1e-9, 0.0, 0.0], [0.0, -1e-8, 0.0], [5e-9, 5e-9, -5e-9], [0.0, 0.0, 1e-300]):
        yield {"op": "line-ctor", "kind": "explicit", "point": [0.0, 0.0, 0.0], "along": al, "seed": 0}
    yield {"op": "line-ctor", "kind": "explicit", "point": [0.0, 0.0, 0.0], "p2": [0.0, 1e-9, 0.0], "seed": 0}
    # --- malformed shapes -----------------------------------------------------------------------------------
    for i in range(130 * mult):
        yield {"op": "shapes", "fn": ("project", "isect3", "isect2")[i % 3], "seed": sub()}
    if quick:
        return
    # --- thorough: exhaustive enumerations, one batch per first line ---------------------------------------------
    for p0 in box_points(1, 3):
        for q0 in box_points(1, 3):
            yield {"op": "isect3-batch", "mode": "all", "R": 1, "line0": [p0, q0]}
    for p0 in box_points(2, 2):
        for q0 in box_points(2, 2):
            yield {"op": "isect2-batch", "mode": "all", "R": 2, "line0": [p0, q0]}
    for i in range(160):
        yield {"op": "isect3-batch", "mode": "sampled", "R": 2, "n": 500, "seed": sub()}
    for i in range(240):
        yield {"op": "isect2-batch", "mode": "sampled", "R": 4, "n": 500, "seed": sub()}


# ---------------------------------------------------------------------------------------------------
# adapters

def arr(p):
    # what is handed to the library: pooled inside history pairs, respelled as integers in the integer-dtype runs
    return shcopy(np.array(p, dtype=np.float64))


def opt(r):
    return ["none"] if r is None else ["some"] + flat(r)


def memo(f):
    box = []

    def g():
        if not box:
            try:
                box.append(("ok", f()))
            except Exception as e:  # noqa: BLE001
                box.append(("err", e))
        k, v = box[0]
        if k == "err":
            raise v
        return v
    return g


def make(spec):
    op = spec["op"]
    if op == "isect3":
        return make_isect(spec, 3)
    if op == "isect2":
        return make_isect(spec, 2)
    if op in ("isect3-batch", "isect2-batch"):
        return make_batch(spec, 3 if op == "isect3-batch" else 2)
    if op == "project":
        return make_project(spec)
    if op == "line-ctor":
        return make_ctor(spec)
    if op == "shapes":
        return make_shapes(spec)
    raise ValueError(op)


def make_isect(spec, dim):
    from polliwog.line._line_intersect import intersect_2d_lines, intersect_lines
    fn = intersect_lines if dim == 3 else intersect_2d_lines
    pts = spec["pts"]
    scale = max(vmax(p) for p in pts) or 1.0
    ep = [exv(p) for p in pts]
    kind, X = (classify3 if dim == 3 else classify2)(*ep)
    sig = signature(kind, X, ep)
    stream = spec["stream"]
    trivial = kind == "degenerate"
    name = "isect%d" % dim
    kl = "%s/%s/%s" % (name, stream.split("-")[0] if stream == "lattice" else stream, sig)
    run = memo(lambda: fn(*[arr(p) for p in pts]))
    impl = lambda: opt(run())  # noqa: E731

    def oracle(r):
        out = []
        if r[0] == "ok":
            res = None if r[1][0] == "none" else r[1][1:]
            check_answer(name, dim, pts, res, scale, out, "intersect_lines" if dim == 3 else "intersect_2d_lines")
        else:
            out.append((name + "/raises", "%s%s raised %s" % (fn.__name__, pts, r[1])))
        return dedupe(out)

    ln = Line("line.isect%d" % dim)
    for p in pts:
        ln.vec(p)
    cases = [Case(spec, ln, impl, mode="both", klass=kl, trivial=trivial, scale=scale, oracle=oracle)]
    if dim == 3:
        ls = Line("line.isect3spec")
        for p in pts:
            ls.vec(p)
        cases.append(Case(spec, ls, impl, mode="rat", klass="isect3-closed-form/" + ("lattice" if stream == "lattice" else stream),
                          trivial=trivial, scale=scale))
    if dim == 3 and spec.get("via_line") and kind != "degenerate":
        from polliwog import Line as PLine
        al0 = arr(pts[1]) - arr(pts[0])
        al1 = arr(pts[3]) - arr(pts[2])

        def via():
            l0 = PLine.from_points(arr(pts[0]), arr(pts[1]))
            l1 = PLine.from_points(arr(pts[2]), arr(pts[3]))
            return l0.intersect_line(l1)
        runv = memo(via)

        def oracle_v(r):
            out = []
            if r[0] == "ok":
                res = None if r[1][0] == "none" else r[1][1:]
                # the lines the objects describe: (p, p + along) with along as stored
                lp = [pts[0], (arr(pts[0]) + al0).tolist(), pts[2], (arr(pts[2]) + al1).tolist()]
                check_answer("line.intersect_line", 3, lp, res, scale, out, "Line.intersect_line")
            else:
                out.append(("line.intersect_line/raises", "Line.from_points/intersect_line %s raised %s" % (pts, r[1])))
            return dedupe(out)
        lv = Line("line.obj.intersect").vec(pts[0]).vec(al0).vec(pts[2]).vec(al1)
        cases.append(Case(spec, lv, lambda: opt(runv()), mode="both", klass="line.intersect_line/%s/%s" % (stream, kind),
                          scale=scale, oracle=oracle_v))
    return cases


def batch_quads(spec, dim):
    if spec["mode"] == "all":
        p0, q0 = spec["line0"]
        pts = box_points(spec["R"], dim)
        return [[p0, q0, p1, q1] for p1 in pts for q1 in pts]
    rng = random.Random(spec["seed"])
    tab = PAT3 if dim == 3 else PAT2
    return [lattice_quad(rng, spec["R"], dim, weighted(rng, tab)) for _ in range(spec["n"])]


def make_batch(spec, dim):
    from polliwog.line._line_intersect import intersect_2d_lines, intersect_lines
    fn = intersect_lines if dim == 3 else intersect_2d_lines
    quads = batch_quads(spec, dim)
    scale = float(spec["R"])
    name = "isect%d" % dim

    def run_all():
        res = []
        for q in quads:
            res.append(fn(*[arr(p) for p in q]))
        return res
    run = memo(run_all)

    def impl():
        out = []
        for r in run():
            out.extend(opt(r))
        return out

    def compare(r, model_line, mode):
        toks = model_line.split(" ")
        if toks[0] != "ok":
            return "model answered %s" % model_line[:100]
        if r[0] != "ok":
            return "impl raised %s in a batch" % r[1]
        items = r[1]
        i = j = 0
        qi = 0
        toks = toks[1:]
        nt, ni = len(toks), len(items)
        while i < ni and j < nt:
            a, t = items[i], toks[j]
            if a != t:
                return "pair %s: impl %s, model %s" % (quads[qi], a, t)
            i += 1
            j += 1
            if a == "some":
                for _c in range(dim):
                    b = float(parse_num(toks[j]))
                    x = items[i]
                    if x is None or not abs(x - b) <= RTOL * max(scale, abs(x), abs(b)):
                        return "pair %s: impl %s, model %s" % (quads[qi], items[i - _c:i - _c + dim], toks[j - _c:j - _c + dim])
                    i += 1
                    j += 1
            qi += 1
        if i != ni or j != nt:
            return "batch answers of different length"
        return None

    def oracle(r):
        out = []
        if r[0] != "ok":
            return [(name + "/raises", "%s raised %s on a lattice pair of %s" % (fn.__name__, r[1], spec))]
        for q, res in zip(quads, run()):
            check_answer(name, dim, q, None if res is None else [float(x) for x in res], scale, out, fn.__name__)
        return dedupe(out)

    ln = Line("line.isect%d.batch" % dim).i(len(quads))
    for q in quads:
        for p in q:
            ln.vec(p)
    kl = "%s-batch/%s/R%d" % (name, spec["mode"], spec["R"])
    cases = [Case(spec, ln, impl, mode="both", klass=kl, scale=scale, oracle=oracle, compare=compare)]
    if dim == 3:
        cases.append(Case(spec, str(ln).replace("line.isect3.batch", "line.isect3spec.batch", 1), impl, mode="rat",
                          klass="isect3-closed-form-batch/%s/R%d" % (spec["mode"], spec["R"]), scale=scale, compare=compare))
    return cases


# ---- projection -----------------------------------------------------------------------------------

def make_project(spec):
    from polliwog.line._line_functions import project_point_to_line
    rng = random.Random(spec["seed"])
    form, k = spec["form"], spec["k"]
    lattice = spec["stream"] == "lattice"
    if lattice:
        sp = sv = 1.0
        pt = lambda: [float(rng.randint(-4, 4)) / rng.choice([1, 1, 2]) for _ in range(3)]  # noqa: E731
        dr = lambda: [float(x) for x in rdir(rng, 3)]  # noqa: E731
    else:
        sp = 10.0 ** rng.uniform(-6, 6)
        sv = 10.0 ** (rng.choice([-100, -30, 30, 100]) if spec.get("extreme") else rng.uniform(-6, 6))
        pt = lambda: [rng.uniform(-1, 1) * sp for _ in range(3)]  # noqa: E731

        def dr():
            while True:
                v = [rng.uniform(-1, 1) * sv for _ in range(3)]
                if vmax(v) > 0.05 * sv:
                    return v
    n_pts = 1 if form in ("single", "one-many") else k
    n_lines = 1 if form in ("single", "many-one") else k
    P = [pt() for _ in range(n_pts)]
    Rf = [pt() for _ in range(n_lines)]
    V = [dr() for _ in range(n_lines)]
    if spec.get("zero") and V:
        V[rng.randrange(len(V))] = [0.0, 0.0, 0.0]
    many_p = form in ("many-one", "pairwise")
    many_l = form in ("pairwise", "one-many")
    scale = max([vmax(p) for p in P] + [vmax(r) for r in Rf] + [1e-300])
    pa = (lambda: arr(P).reshape(-1, 3)) if many_p else (lambda: arr(P[0]))
    ra = (lambda: arr(Rf).reshape(-1, 3)) if many_l else (lambda: arr(Rf[0]))
    va = (lambda: arr(V).reshape(-1, 3)) if many_l else (lambda: arr(V[0]))
    has_zero = any(not any(v) for v in V)
    trivial = has_zero or (k == 0 and form != "single")

    def canon(r):
        r = np.asarray(r)
        if r.ndim == 1:
            return ["one"] + flat(r)
        return ["many", int(r.shape[0])] + flat(r)

    run = memo(lambda: project_point_to_line(pa(), ra(), va()))

    def arg(ln, many, rows):
        ln.b(many)
        return ln.vecs(arr(rows).reshape(-1, 3)) if many else ln.vec(rows[0])

    ln = Line("line.project")
    arg(ln, many_p, P)
    arg(ln, many_l, Rf)
    arg(ln, many_l, V)
    kl = "project/%s/%s%s" % (spec["stream"], form, "/zero-direction" if has_zero else ("/k0" if trivial else ""))

    def rows_of():
        """(point, ref, vec) per output row"""
        m = max(n_pts, n_lines)
        return [(P[i if many_p else 0], Rf[i if many_l else 0], V[i if many_l else 0]) for i in range(m)] if (P and Rf) else []

    def oracle(r):
        out = []
        if has_zero:
            return out
        if r[0] != "ok":
            return [("project/raises", "project_point_to_line raised %s for form %s (P=%s R=%s V=%s)" % (r[1], form, P, Rf, V))]
        res = np.asarray(run()).reshape(-1, 3)
        rows = rows_of()
        stacked = many_p or many_l
        if np.asarray(run()).ndim != (2 if stacked else 1) or len(res) != (len(rows) if stacked else 1):
            return [("project/shape", "project_point_to_line form %s returned shape %s" % (form, np.asarray(run()).shape))]
        tol = Fraction(RTOL)
        if not np.all(np.isfinite(res)):
            return [("project/not-finite", "project_point_to_line form %s returned non-finite values for non-zero directions (P=%s R=%s V=%s)" % (form, P, Rf, V))]
        for (p, rf, v), got in zip(rows, res):
            ev, ep_, er = exv(v), exv(p), exv(rf)
            G = [Fraction(float(x)) for x in got]
            sc = max(Fraction(scale), vmax(G))
            # on the line: (G - r) x v = 0
            if vmax(vcross(vsub(G, er), ev)) > tol * sc * vmax(ev):
                out.append(("project/on-line", "project_point_to_line(%s, %s, %s) = %s is not on the line" % (p, rf, v, got.tolist())))
            # residual perpendicular to the direction
            if abs(vdot(vsub(ep_, G), ev)) > 3 * tol * sc * vmax(ev):
                out.append(("project/perpendicular", "project_point_to_line(%s, %s, %s) = %s: residual is not perpendicular to the direction" % (
                    p, rf, v, got.tolist())))
            # closest: equals the exact foot of the perpendicular
            t = Fraction(vdot(vsub(ep_, er), ev)) / Fraction(vdot(ev, ev))
            foot = [er[i] + t * ev[i] for i in range(3)]
            if any(abs(a - b) > 2 * tol * sc for a, b in zip(G, foot)):
                out.append(("project/closest", "project_point_to_line(%s, %s, %s) = %s, closest point is %s" % (
                    p, rf, v, got.tolist(), [float(x) for x in foot])))
            # row by row = the single call
            one = project_point_to_line(arr(p), arr(rf), arr(v))
            if any(abs(Fraction(float(a)) - Fraction(float(b))) > tol * sc for a, b in zip(one, got)):
                out.append(("project/stack-is-map", "stacked form %s row differs from the single call: %s vs %s" % (form, got.tolist(), one.tolist())))
        return dedupe(out)

    cases = [Case(spec, ln, lambda: canon(run()), mode="both", klass=kl, trivial=trivial, scale=scale, oracle=oracle)]
    if form == "single" and not has_zero:
        cases.append(Case(spec, Line("line.projectalg").vec(P[0]).vec(Rf[0]).vec(V[0]), lambda: flat(run()), mode="rat",
                          klass="project-closed-form/" + spec["stream"], scale=scale))
    if spec.get("via_line") and not has_zero and vmax(V[0]) > 1e-7:
        from polliwog import Line as PLine
        runl = memo(lambda: PLine(arr(Rf[0]), arr(V[0])).project(pa()))
        ll = Line("line.obj.project").vec(Rf[0]).vec(V[0])
        arg(ll, many_p, P)

        def oracle_l(r):
            if r[0] != "ok":
                return [("line.project/raises", "Line(%s, %s).project raised %s" % (Rf[0], V[0], r[1]))]
            a, b = np.asarray(runl()), np.asarray(run())
            if a.shape != b.shape or not np.array_equal(a, b):
                return [("line.project/agrees", "Line.project differs from project_point_to_line for point %s line (%s, %s)" % (P, Rf[0], V[0]))]
            return []
        cases.append(Case(spec, ll, lambda: canon(runl()), mode="both", klass="line.project/%s/%s" % (spec["stream"], form),
                          trivial=trivial, scale=scale, oracle=oracle_l))
    return cases


# ---- Line constructor -------------------------------------------------------------------------------

ATOL = 1e-8


def make_ctor(spec):
    from polliwog import Line as PLine
    rng = random.Random(spec["seed"])
    kind = spec["kind"]
    pt = [float(rng.randint(-5, 5)) / rng.choice([1, 2, 4]) for _ in range(3)]
    tiny_vals = [0.0, 5e-9, -5e-9, ATOL, -ATOL, 9.9e-9, 1e-12, -1e-300, 5e-324]
    above = [math.nextafter(ATOL, 1.0), -math.nextafter(ATOL, 1.0), 2e-8, -1e-7, 1.0000001e-8]
    from_points = kind.startswith("from-points")
    if kind == "explicit":           # corpus entries: {"point": [...], "along": [...]} or {"point": [...], "p2": [...]}
        pt = [float(x) for x in spec["point"]]
        if "p2" in spec:
            from_points, al, p2 = True, None, [float(x) for x in spec["p2"]]
        else:
            al = [float(x) for x in spec["along"]]
    elif kind == "zero":
        al = [0.0, 0.0, rng.choice([0.0, -0.0])]
    elif kind == "tiny":
        al = [rng.choice(tiny_vals) for _ in range(3)]
    elif kind == "threshold":
        al = [rng.choice(tiny_vals) for _ in range(3)]
        al[rng.randrange(3)] = rng.choice(above)
    elif kind == "ordinary":
        s = 10.0 ** rng.uniform(-6, 6)
        al = [rng.uniform(-1, 1) * s for _ in range(3)]
        al[rng.randrange(3)] = s * rng.choice([-1, 1])
    elif kind == "from-points-same":
        al = None
        p2 = list(pt)
    elif kind == "from-points":
        al = None
        p2 = [a + b for a, b in zip(pt, rdir(rng, 3))]
    else:  # from-points-tiny: exact differences around the threshold
        pt = [0.0, 0.0, 0.0]
        al = None
        p2 = [rng.choice(tiny_vals + above) for _ in range(3)]

    def canon(l):
        a, b = l.reference_points
        return flat(l.reference_point) + flat(l.along) + flat(a) + flat(b)

    if from_points:
        ex_al = vsub(exv(p2), exv(pt))
        impl = lambda: canon(PLine.from_points(arr(pt), arr(p2)))  # noqa: E731
        ln = Line("line.obj.frompoints").vec(pt).vec(p2)
        what = "Line.from_points(%s, %s)" % (pt, p2)
    else:
        ex_al = exv(al)
        impl = lambda: canon(PLine(arr(pt), arr(al)))  # noqa: E731
        ln = Line("line.obj.new").vec(pt).vec(al)
        what = "Line(%s, %s)" % (pt, al)
    zero = not any(ex_al)
    small = all(abs(x) <= Fraction(ATOL) for x in ex_al)

    def oracle(r):
        out = []
        if zero and r != ("err", "ValueError"):
            out.append(("line/rejects-zero", "%s has a zero direction but the constructor answered %s" % (what, r)))
        if not zero and small and r == ("err", "ValueError"):
            out.append(("line/tiny-direction-rejected", "%s raised ValueError although the direction is not the zero vector "
                        "(all |components| <= 1e-8)" % what))
        if r[0] == "err" and (r[1] != "ValueError" or not small):
            out.append(("line/accepts-nonzero", "%s raised %s for a direction that is not (almost) zero" % (what, r[1])))
        if r[0] == "ok" and any(x is None or math.isinf(x) for x in r[1]):
            out.append(("line/not-finite", "%s has non-finite attributes %s" % (what, r[1])))
        elif r[0] == "ok":
            v = [Fraction(x) for x in r[1]]
            ep_ = exv(pt)
            if v[0:3] != [Fraction(x) for x in ep_] or v[6:9] != [Fraction(x) for x in ep_]:
                out.append(("line/stores-point", "%s does not keep its reference point" % what))
            if any(abs(a - Fraction(b)) > Fraction(RTOL) * max(1, vmax(ex_al)) for a, b in zip(v[3:6], ex_al)):
                out.append(("line/stores-direction", "%s stores direction %s" % (what, r[1][3:6])))
            if any(abs(v[9 + i] - (ep_[i] + ex_al[i])) > Fraction(RTOL) * max(1, vmax(ex_al), vmax(ep_)) for i in range(3)):
                out.append(("line/reference-points", "%s: reference_points[1] = %s" % (what, r[1][9:12])))
        return out

    return Case(spec, ln, impl, mode="both", klass="line-ctor/" + kind, trivial=zero,
                scale=max(1.0, float(vmax(ex_al)), vmax(pt)), oracle=oracle)


# ---- malformed shapes ---------------------------------------------------------------------------------

SHAPES_P = [(3,), (0, 3), (1, 3), (2, 3), (4, 3), (3, 3), (2,), (4,), (), (2, 2), (2, 4), (1, 3, 3), (3, 1), (3, 2)]


def make_shapes(spec):
    rng = random.Random(spec["seed"])
    fnname = spec["fn"]

    def filled(sh):
        return (np.arange(int(np.prod(sh)) if sh else 1, dtype=np.float64).reshape(sh) + 1.0) * (1.0 + 0.25 * rng.random())

    if fnname == "project":
        from polliwog.line._line_functions import project_point_to_line
        sp = rng.choice(SHAPES_P)
        r = rng.random()
        if r < 0.6:       # mostly-valid combinations
            sr = rng.choice([(3,), sp if len(sp) == 2 else (rng.choice([1, 2, 4]), 3)])
            sv = sr if rng.random() < 0.8 else rng.choice(SHAPES_P)
        else:
            sr = rng.choice(SHAPES_P)
            sv = rng.choice([sr, rng.choice(SHAPES_P)])
        arrs = [filled(s) for s in (sp, sr, sv)]

        def impl():
            project_point_to_line(*[a.copy() for a in arrs])
            return ["accepted"]
        ln = Line("line.project.shapes").ints(sp).ints(sr).ints(sv)
        shapes = (sp, sr, sv)
        expected_ok = _project_shapes_ok(sp, sr, sv)
    else:
        from polliwog.line._line_intersect import intersect_2d_lines, intersect_lines
        d = 3 if fnname == "isect3" else 2
        fn = intersect_lines if d == 3 else intersect_2d_lines
        alts = [(d,), (d,), (d,), (5 - d,), (4,), (1, d), (d, 1), (), (2, d), (0,)]
        shapes = [(d,)] * 4
        if rng.random() < 0.85:
            shapes[rng.randrange(4)] = rng.choice(alts)
            if rng.random() < 0.3:
                shapes[rng.randrange(4)] = rng.choice(alts)
        shapes = tuple(shapes)
        arrs = [filled(s) for s in shapes]

        def impl():
            fn(*[a.copy() for a in arrs])
            return ["accepted"]
        ln = Line("line.isect.shapes").i(d)
        for s in shapes:
            ln.ints(s)
        expected_ok = all(tuple(s) == (d,) for s in shapes)

    def oracle(r):
        if expected_ok and r[0] != "ok":
            return [("shapes/rejects-valid", "%s with shapes %s raised %s" % (fnname, shapes, r[1]))]
        if not expected_ok and r != ("err", "ValueError"):
            return [("shapes/accepts-malformed", "%s with shapes %s answered %s instead of raising ValueError" % (fnname, shapes, r[0] if r[0] == "ok" else r[1]))]
        return []

    return Case(spec, ln, impl, mode="rat", klass="shapes/%s/%s" % (fnname, "valid" if expected_ok else "malformed"),
                scale=1.0, oracle=oracle)


def _project_shapes_ok(sp, sr, sv):
    """the documented forms: points (3,) or (k,3); lines (3,) or — paired — (k,3) [any k for a single point]; vectors like the lines"""
    sp, sr, sv = tuple(sp), tuple(sr), tuple(sv)
    if sp == (3,):
        ok_r = sr == (3,) or (len(sr) == 2 and sr[1] == 3)
    elif len(sp) == 2 and sp[1] == 3:
        ok_r = sr == (3,) or sr == sp
    else:
        return False
    return ok_r and sv == sr
