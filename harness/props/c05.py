"""C05 — plane point queries follow signed-distance semantics.

Correspondence: every query of `Plane` and of the module-level plane functions against the Lean model
(PW.Model.Plane) at exact rationals (inputs are the doubles the code sees, decoded exactly) and Float.
Oracle: the clauses of C05 evaluated on the implementation's own outputs in exact rational arithmetic.
"""
from fractions import Fraction

import numpy as np

from pwlib.share import shcopy

from pwlib import gens
from pwlib.canon import counted, counted_ints, flat
from pwlib.engine import Case
from pwlib.proto import Line

ID = "C05"
TARGETS = ["PW.Props.C05"]
RULE = ("groups (plane from a public constructor, point set, single/stacked) from three streams: lattice "
        "(integer/dyadic coordinates, axis-aligned or reference-point-coincident on-plane points so the sign is exact), "
        "float (magnitudes 1e-6..1e6, oblique normals, points conditioned away from the plane by 1e-7*scale for the "
        "discrete outputs), module-level functions with arbitrary (non-unit, integer) plane equations given once or per point; "
        "each group runs every query op; a case is non-trivial when its point set is non-empty; distinct = distinct spec")
TRUSTED = ["vg.dot / np.sign / np.flatnonzero modelled as dot product, sign, index filter",
           "IEEE rounding not modelled: numeric outputs compared with rtol 1e-9*scale, discrete outputs exactly"]
ASSUMPTIONS = ["points closer to the plane than 1e-7*scale (but not exactly on it) are excluded from sign/partition comparisons in the float stream"]
EXHAUSTIVE = {"quick": False, "thorough": False}


def build_plane(ps):
    from polliwog import Plane
    c = ps["ctor"]
    if c == "init":
        return Plane(shcopy(np.array(ps["ref"], dtype=np.float64)), shcopy(np.array(ps["n"], dtype=np.float64)))
    if c == "pn":
        return Plane.from_point_and_normal(shcopy(np.array(ps["ref"], dtype=np.float64)), shcopy(np.array(ps["n"], dtype=np.float64)))
    if c == "points":
        return Plane.from_points(*[shcopy(np.array(p, dtype=np.float64)) for p in ps["pts"]])
    if c == "pv":
        return Plane.from_points_and_vector(shcopy(np.array(ps["p1"], dtype=np.float64)), shcopy(np.array(ps["p2"], dtype=np.float64)),
                                            shcopy(np.array(ps["v"], dtype=np.float64)))
    if c in ("xy", "xz", "yz"):
        return getattr(Plane, c)
    raise ValueError(c)


def gen_plane(rng, stream):
    r = rng.random()
    if stream == "lattice":
        if r < 0.5:
            return {"ctor": "init", "ref": gens.lat(rng, 3, rng.choice([1, 2, 4])), "n": rng.choice(gens.AXES)}
        if r < 0.6:
            return {"ctor": rng.choice(["xy", "xz", "yz"])}
        if r < 0.8:
            # oblique through lattice points (normal gets normalised: inexact, on-plane points only at ref)
            return {"ctor": "pn", "ref": gens.lat(rng, 3), "n": gens.lat_nonzero(rng, 3)}
        while True:
            pts = [gens.lat(rng, 3) for _ in range(3)]
            c = gens.fcross(gens.fsub(pts[1], pts[0]), gens.fsub(pts[2], pts[0]))
            if any(c):
                return {"ctor": "points", "pts": pts}
    s = gens.scale_of(rng)
    if r < 0.4:
        return {"ctor": "pn", "ref": gens.fvec(rng, s), "n": gens.fvec(rng, gens.scale_of(rng, -3, 3))}
    if r < 0.6:
        return {"ctor": "init", "ref": gens.fvec(rng, s), "n": gens.unit(rng)}
    if r < 0.8:
        return {"ctor": "points", "pts": [gens.fvec(rng, s) for _ in range(3)]}
    return {"ctor": "pv", "p1": gens.fvec(rng, s), "p2": gens.fvec(rng, s), "v": gens.fvec(rng, 1.0)}


def gen(rng, tier):
    n = 150 if tier == "quick" else 4000
    for i in range(n):
        stream = "lattice" if i % 2 == 0 else "float"
        ps = gen_plane(rng, stream)
        k = rng.choice([0, 1, 1, 2, 3, 5, 8, 13]) if rng.random() < 0.9 else rng.randint(20, 60)
        single = k == 1 and rng.random() < 0.7
        spec = {"op": "plane-group", "stream": stream, "plane": ps, "k": k, "single": single,
                "ptseed": rng.randrange(1 << 30)}
        yield spec
    # descriptions that describe no plane (zero / NaN normal, collinear or coincident points, vector parallel to p2 - p1)
    nan = float("nan")
    for ps in ({"ctor": "pn", "ref": [1.0, 2.0, 3.0], "n": [0.0, 0.0, 0.0]},
               {"ctor": "init", "ref": [1.0, 2.0, 3.0], "n": [nan, nan, nan]},
               {"ctor": "init", "ref": [0.0, 0.0, 0.0], "n": [0.0, nan, 1.0]},
               {"ctor": "points", "pts": [[0.0, 0.0, 0.0], [1.0, 1.0, 1.0], [2.0, 2.0, 2.0]]},
               {"ctor": "points", "pts": [[1.0, 2.0, 3.0], [1.0, 2.0, 3.0], [1.0, 2.0, 3.0]]},
               {"ctor": "points", "pts": [[1.0, 2.0, 3.0], [1.0, 2.0, 3.0], [0.0, 5.0, 1.0]]},
               {"ctor": "pv", "p1": [0.0, 0.0, 0.0], "p2": [1.0, 2.0, 3.0], "v": [2.0, 4.0, 6.0]},
               {"ctor": "pv", "p1": [1.0, 1.0, 1.0], "p2": [1.0, 1.0, 1.0], "v": [0.0, 0.0, 1.0]}):
        yield {"op": "degenerate-ctor", "plane": ps}
    m = 60 if tier == "quick" else 2000
    for i in range(m):
        stream = "lattice" if i % 2 == 0 else "float"
        k = rng.choice([1, 1, 2, 3, 5, 9])
        yield {"op": "fn-group", "stream": stream, "k": k, "per_point": rng.random() < 0.5,
               "single": k == 1 and rng.random() < 0.5, "ptseed": rng.randrange(1 << 30)}


def points_for(spec, plane):
    import random
    rng = random.Random(spec["ptseed"])
    k = spec["k"]
    ref = np.array(plane.reference_point)
    n = np.array(plane.normal)
    pts = []
    if spec["stream"] == "lattice":
        for _ in range(k):
            r = rng.random()
            if r < 0.15:
                pts.append(ref.tolist())  # exactly on the plane for every normal
            elif r < 0.4 and sum(1 for x in n if x != 0) == 1:
                # exactly on an axis-aligned plane
                p = np.array(gens.lat(rng, 3, rng.choice([1, 2])))
                ax = int(np.flatnonzero(n)[0])
                p[ax] = ref[ax]
                if rng.random() < 0.4:
                    # ... or off it by the least the arithmetic can tell (the subtraction is exact, the side is determined)
                    sgn = rng.choice([-1.0, 1.0])
                    if ref[ax] == 0.0:
                        p[ax] = sgn * rng.choice([5e-324, 1e-300, 1e-17, 2.0 ** -60, 2.0 ** -53, 2.2e-16, 1e-12])
                    else:
                        p[ax] = np.nextafter(ref[ax], sgn * np.inf)
                pts.append(p.tolist())
            else:
                pts.append(gens.lat(rng, 4, rng.choice([1, 2, 4])))
    else:
        s = max(gens.maxabs(ref), 1e-6) * 10.0 ** rng.uniform(-1, 1)
        for _ in range(k):
            r = rng.random()
            if r < 0.1:
                pts.append(ref.tolist())
            elif r < 0.3:
                # near (not on) the plane
                t = np.array(gens.fvec(rng, s))
                t = t - np.dot(t - ref, n) * n + n * rng.choice([-1, 1]) * s * 10.0 ** rng.uniform(-5, -1)
                pts.append(t.tolist())
            else:
                pts.append(gens.fvec(rng, s))
    return pts


def exact_sd(plane, p):
    return gens.fdot(gens.fsub(p, plane.reference_point), plane.normal)


def make_degenerate(spec):
    """a plane the constructors must not hand out: if one of them returns an object for a degenerate description, that
    object is a Plane in the property's quantifier and its queries are judged like any other's"""
    pts = np.array([[1.0, 2.0, 3.0], [-2.0, 0.5, 1.0], [0.0, 0.0, 0.0], [4.0, -1.0, -2.0]])

    def impl():
        plane = build_plane(spec["plane"])
        n = np.asarray(plane.normal, dtype=np.float64)
        sd = np.atleast_1d(plane.signed_distance(shcopy(pts)))
        front = plane.points_in_front(shcopy(pts), ret_indices=True)
        rest = plane.points_on_or_in_front(shcopy(pts), inverted=True, ret_indices=True)
        return ["built", bool(np.all(np.isfinite(n))), bool(np.all(np.isfinite(sd))),
                sorted(int(i) for i in np.concatenate([np.ravel(front), np.ravel(rest)]))]

    def oracle(r):
        if r[0] != "ok":
            return []                       # refused: nothing to query (which class is raised is C13's subject)
        _, n_ok, sd_ok, idx = r[1]
        out = []
        if not n_ok or not sd_ok:
            out.append(("degenerate/non-finite-plane", "%s returned a plane whose normal / signed distances are not finite"
                        % (spec["plane"],)))
        if idx != list(range(len(pts))):
            out.append(("partition/front-vs-rest", "on the plane built from %s, points_in_front and inverted "
                        "points_on_or_in_front select %s of %d points" % (spec["plane"], idx, len(pts))))
        return out
    return Case(spec, None, impl, mode="rat", klass="degenerate/" + spec["plane"]["ctor"], trivial=True, oracle=oracle)


def make(spec):
    if spec["op"] == "fn-group":
        return make_fn(spec)
    if spec["op"] == "degenerate-ctor":
        return make_degenerate(spec)
    plane = build_plane(spec["plane"])
    ref = np.array(plane.reference_point, dtype=np.float64)
    n = np.array(plane.normal, dtype=np.float64)
    pts = points_for(spec, plane)
    scale = max(gens.maxabs(ref, pts), 1e-300)
    # discrete outputs: drop points whose side is not determined under rounding
    margin = Fraction(1e-7) * Fraction(scale)
    # (an exactly-on-plane point is kept only where the float arithmetic is exact: lattice point, axis-aligned normal)
    axis_aligned = sorted(abs(float(x)) for x in n) == [0.0, 0.0, 1.0]
    # (likewise a point off the plane by less than the margin: there the subtraction and the one non-zero product are exact)
    dpts = [p for p in pts if (spec["stream"] == "lattice" and axis_aligned) or abs(exact_sd(plane, p)) > margin]
    single = spec["single"] and len(pts) == 1
    P = np.array(np.reshape(pts, (-1, 3)), dtype=np.float64)
    DP = np.array(np.reshape(dpts, (-1, 3)), dtype=np.float64)
    arg = (lambda A: shcopy(A[0])) if single else (lambda A: shcopy(A))
    trivial = len(pts) == 0
    kl = "%s/%s/%s" % (spec["stream"], spec["plane"]["ctor"], "single" if single else ("k0" if trivial else "stack"))

    def wrapn(f):  # numeric scalar-per-point result
        def g():
            r = f()
            return counted(np.atleast_1d(r))
        return g

    def wrapv(f):
        def g():
            r = f()
            return counted(np.asarray(r).reshape(-1, 3))
        return g

    def pl(op):
        return Line(op).vec(ref).vec(n)

    cases = []

    def add(op, line, impl, mode="both", **kw):
        cases.append(Case(spec, line, impl, mode=mode, klass=op + "/" + kl, trivial=trivial, scale=scale, **kw))

    add("plane.equation", pl("plane.equation"), lambda: flat(plane.equation))
    add("plane.canonical", pl("plane.canonical"), lambda: flat(plane.canonical_point))
    add("plane.flipped", pl("plane.flipped"), lambda: (lambda f: flat(f.reference_point) + flat(f.normal))(plane.flipped()))
    add("plane.sd", pl("plane.sd").vecs(P), wrapn(lambda: plane.signed_distance(arg(P))))
    add("plane.dist", pl("plane.dist").vecs(P), wrapn(lambda: plane.distance(arg(P))))
    add("plane.project", pl("plane.project").vecs(P), wrapv(lambda: plane.project_point(arg(P))))
    add("plane.mirror", pl("plane.mirror").vecs(P), wrapv(lambda: plane.mirror_point(arg(P))))
    # discrete: only the exact model is authoritative (Float re-execution may round differently; it is still compared
    # because the generators keep a margin)
    dsingle = single and len(dpts) == 1
    darg = (lambda A: shcopy(A[0])) if dsingle else (lambda A: shcopy(A))
    add("plane.sign", pl("plane.sign").vecs(DP), lambda: [len(DP)] + [int(x) for x in np.atleast_1d(plane.sign(darg(DP)))])
    if not dsingle:  # points_in_front on a single point is outside the documented forms (see C20)
        for inv in (False, True):
            add("plane.front", Line("plane.front").b(inv).vec(ref).vec(n).vecs(DP),
                lambda inv=inv: counted_ints(plane.points_in_front(shcopy(DP), inverted=inv, ret_indices=True)))
            add("plane.onfront", Line("plane.onfront").b(inv).vec(ref).vec(n).vecs(DP),
                lambda inv=inv: counted_ints(plane.points_on_or_in_front(shcopy(DP), inverted=inv, ret_indices=True)))
            add("plane.frontpts", Line("plane.frontpts").b(inv).vec(ref).vec(n).vecs(DP),
                lambda inv=inv: counted(plane.points_in_front(shcopy(DP), inverted=inv)))
            add("plane.onfrontpts", Line("plane.onfrontpts").b(inv).vec(ref).vec(n).vecs(DP),
                lambda inv=inv: counted(plane.points_on_or_in_front(shcopy(DP), inverted=inv)))
    cases[0].oracle = lambda _r: oracle_plane(plane, P, DP, scale)
    return cases


def make_fn(spec):
    import random
    from polliwog.plane import (mirror_point_across_plane, project_point_to_plane, signed_distance_to_plane)
    rng = random.Random(spec["ptseed"])
    k = spec["k"]
    if spec["stream"] == "lattice":
        pts = [gens.lat(rng, 4, rng.choice([1, 2])) for _ in range(k)]
        eqs = [gens.lat_nonzero(rng, 3) + [rng.randint(-4, 4) / rng.choice([1, 2])] for _ in range(k if spec["per_point"] else 1)]
    else:
        s = gens.scale_of(rng, -4, 4)
        pts = [gens.fvec(rng, s) for _ in range(k)]
        eqs = [gens.fvec(rng, gens.scale_of(rng, -2, 2)) + [rng.uniform(-1, 1) * s] for _ in range(k if spec["per_point"] else 1)]
    P = np.array(pts, dtype=np.float64)
    E = np.array(eqs, dtype=np.float64)
    single = spec["single"] and k == 1
    scale = max(gens.maxabs(P) * max(gens.maxabs(E[:, :3]), 1.0) ** 2, gens.maxabs(E), 1e-300)
    pa = (lambda: shcopy(P[0])) if single else (lambda: shcopy(P))
    if spec["per_point"] and not single:
        ea = lambda: shcopy(E)
        ops = ("fn.sd", "fn.project", "fn.mirror")
        mk = lambda op: Line(op).vecs(P).vecs(E)
    else:
        ea = lambda: shcopy(E[0])
        ops = ("fn1.sd", "fn1.project", "fn1.mirror")
        mk = lambda op: Line(op).vec(E[0]).vecs(P)
    kl = "%s/%s/%s" % (spec["stream"], "per-point" if spec["per_point"] and not single else "one-eq", "single" if single else "stack")
    fns = (signed_distance_to_plane, project_point_to_plane, mirror_point_across_plane)
    cases = []
    for op, fn in zip(ops, fns):
        if op.endswith("sd"):
            impl = lambda fn=fn: counted(np.atleast_1d(fn(pa(), ea())))
        else:
            impl = lambda fn=fn: counted(np.asarray(fn(pa(), ea())).reshape(-1, 3))
        cases.append(Case(spec, mk(op), impl, mode="both", klass=op + "/" + kl, scale=scale))
    cases[0].oracle = lambda _r: oracle_fn(P, E, single, spec["per_point"] and not single, scale)
    return cases


# ---------------------------------------------------------------------------------------------------
# property oracle (exact rational arithmetic on the implementation's outputs)

def close(a, b, tol):
    return abs(Fraction(float(a)) - (b if isinstance(b, Fraction) else Fraction(float(b)))) <= tol


def oracle_plane(plane, P, DP, scale):
    from polliwog.plane import (mirror_point_across_plane, project_point_to_plane, signed_distance_to_plane)
    out = []
    n = [Fraction(float(x)) for x in plane.normal]
    nn = sum(x * x for x in n)
    tol = Fraction(1e-9) * Fraction(scale)
    if len(P):
        sd = np.atleast_1d(plane.signed_distance(shcopy(P)))
        proj = plane.project_point(shcopy(P))
        mir = plane.mirror_point(shcopy(P))
        sd_proj = np.atleast_1d(plane.signed_distance(proj))
        sd_mir = np.atleast_1d(plane.signed_distance(mir))
        proj2 = plane.project_point(proj)
        mir2 = plane.mirror_point(mir)
        fl = plane.flipped()
        sd_fl = np.atleast_1d(fl.signed_distance(shcopy(P)))
        eq = plane.equation
        sd_fn = np.atleast_1d(signed_distance_to_plane(shcopy(P), eq))
        proj_fn = project_point_to_plane(shcopy(P), eq)
        mir_fn = mirror_point_across_plane(shcopy(P), eq)
        dist = np.atleast_1d(plane.distance(shcopy(P)))
        for i, p in enumerate(P):
            e = exact_sd(plane, p)
            if not close(sd[i], e, tol):
                out.append(("signed_distance/def", "signed_distance(%s)=%r but (p-ref).n=%r" % (p.tolist(), float(sd[i]), float(e))))
            if not close(dist[i], abs(e), tol):
                out.append(("distance/abs", "distance(%s)=%r but |(p-ref).n|=%r" % (p.tolist(), float(dist[i]), float(abs(e)))))
            if not close(sd_proj[i], 0, tol):
                out.append(("project/on-plane", "signed distance of project_point(%s) is %r" % (p.tolist(), float(sd_proj[i]))))
            # moved along the normal: (proj - p) x n = 0
            c = gens.fcross(gens.fsub(proj[i], p), n)
            if any(abs(x) > tol for x in c):
                out.append(("project/along-normal", "project_point(%s)-p is not parallel to the normal" % (p.tolist(),)))
            if not close(sd_mir[i], -e, 2 * tol):
                out.append(("mirror/negates", "signed distance of mirror_point(%s) is %r, expected %r" % (p.tolist(), float(sd_mir[i]), float(-e))))
            if not close(sd_fl[i], -e, tol):
                out.append(("flipped/negates", "flipped().signed_distance(%s)=%r expected %r" % (p.tolist(), float(sd_fl[i]), float(-e))))
            for j in range(3):
                if not close(proj2[i][j], proj[i][j], tol):
                    out.append(("project/idempotent", "project_point twice differs at %s" % (p.tolist(),)))
                if not close(mir2[i][j], p[j], 4 * tol):
                    out.append(("mirror/involution", "mirror_point twice of %s gives %s" % (p.tolist(), mir2[i].tolist())))
                if not close((Fraction(float(mir[i][j])) + Fraction(float(p[j]))) / 2, proj[i][j], 2 * tol):
                    out.append(("mirror/midpoint", "midpoint of p and mirror differs from projection at %s" % (p.tolist(),)))
                if not close(proj_fn[i][j], proj[i][j], tol) or not close(mir_fn[i][j], mir[i][j], tol):
                    out.append(("functions/agree", "module-level project/mirror differ from the methods at %s" % (p.tolist(),)))
            if not close(sd_fn[i], sd[i], tol):
                out.append(("functions/agree", "signed_distance_to_plane differs from Plane.signed_distance at %s" % (p.tolist(),)))
    # equation / canonical point describe the same plane
    eq = plane.equation
    cp = plane.canonical_point
    if abs(nn - 1) < Fraction(1e-5):
        v = gens.fdot(cp, eq[:3]) + Fraction(float(eq[3]))
        if abs(v) > 4 * tol * 1:
            out.append(("canonical/on-plane", "canonical_point does not satisfy the equation: residual %r" % float(v)))
    for j in range(3):
        if Fraction(float(eq[j])) != n[j]:
            out.append(("equation/normal", "equation[:3] differs from the normal"))
    if not close(eq[3], -gens.fdot(plane.reference_point, plane.normal), tol):
        out.append(("equation/offset", "equation[3] is not -ref.n"))
    # classification and partitions on the determined points
    if len(DP) > 1 or (len(DP) == 1):
        D2 = DP.copy().reshape(-1, 3)
        sg = np.atleast_1d(plane.sign(shcopy(D2)))
        ex = [exact_sd(plane, p) for p in D2]
        for i, e in enumerate(ex):
            want = (e > 0) - (e < 0)
            if int(sg[i]) != want:
                out.append(("sign/def", "sign(%s)=%s but (p-ref).n=%r" % (D2[i].tolist(), sg[i], float(e))))
        k = len(D2)
        fr = list(plane.points_in_front(shcopy(D2), ret_indices=True))
        ofi = list(plane.points_on_or_in_front(shcopy(D2), inverted=True, ret_indices=True))
        of = list(plane.points_on_or_in_front(shcopy(D2), ret_indices=True))
        fi = list(plane.points_in_front(shcopy(D2), inverted=True, ret_indices=True))
        if sorted(fr + ofi) != list(range(k)):
            out.append(("partition/front", "in_front + inverted on_or_in_front is not a partition: %s %s" % (fr, ofi)))
        if sorted(of + fi) != list(range(k)):
            out.append(("partition/onfront", "on_or_in_front + inverted in_front is not a partition: %s %s" % (of, fi)))
        if fr != [i for i, e in enumerate(ex) if e > 0]:
            out.append(("front/def", "points_in_front indices %s, expected those with positive signed distance" % (fr,)))
        if of != [i for i, e in enumerate(ex) if e >= 0]:
            out.append(("onfront/def", "points_on_or_in_front indices %s, expected those with non-negative signed distance" % (of,)))
        if fi != [i for i, e in enumerate(ex) if e < 0]:
            out.append(("front-inverted/def", "inverted points_in_front indices %s" % (fi,)))
        if ofi != [i for i, e in enumerate(ex) if e <= 0]:
            out.append(("onfront-inverted/def", "inverted points_on_or_in_front indices %s" % (ofi,)))
        for (f, inv, idx) in ((plane.points_in_front, False, fr), (plane.points_in_front, True, fi),
                              (plane.points_on_or_in_front, False, of), (plane.points_on_or_in_front, True, ofi)):
            got = f(shcopy(D2), inverted=inv)
            if got.shape != (len(idx), 3) or not np.array_equal(got, D2[idx]):
                out.append(("points/indices-agree", "points and indices forms disagree (%s inverted=%s)" % (f.__name__, inv)))
    # dedupe by key
    seen = {}
    for k_, m in out:
        seen.setdefault(k_, m)
    return list(seen.items())


def oracle_fn(P, E, single, per_point, scale):
    from polliwog.plane import (mirror_point_across_plane, project_point_to_plane, signed_distance_to_plane)
    out = []
    tol = Fraction(1e-9) * Fraction(scale)
    pa = P[0].copy() if single else P.copy()
    ea = E.copy() if per_point else E[0].copy()
    sd = np.atleast_1d(signed_distance_to_plane(pa, ea))
    pr = np.asarray(project_point_to_plane(pa, ea)).reshape(-1, 3)
    mi = np.asarray(mirror_point_across_plane(pa, ea)).reshape(-1, 3)
    for i, p in enumerate(P if not single else P[:1]):
        e = E[i] if per_point else E[0]
        n = [Fraction(float(x)) for x in e[:3]]
        ex = gens.fdot(p, e[:3]) + Fraction(float(e[3]))
        nn = sum(x * x for x in n)
        if not close(sd[i], ex, tol):
            out.append(("fn.signed_distance/def", "signed_distance_to_plane(%s, %s)=%r expected %r" % (p.tolist(), e.tolist(), float(sd[i]), float(ex))))
        # row-by-row = single call
        s1 = signed_distance_to_plane(shcopy(p), shcopy(e))
        if not close(s1, sd[i], tol):
            out.append(("fn.signed_distance/stack-is-map", "stacked result row %d differs from the single call" % i))
        p1 = project_point_to_plane(shcopy(p), shcopy(e))
        m1 = mirror_point_across_plane(shcopy(p), shcopy(e))
        for j in range(3):
            # general (non-unit normal) law: p + f*d*n
            if not close(pr[i][j], Fraction(float(p[j])) - ex * n[j], tol * max(1, nn)):
                out.append(("fn.project/formula", "project_point_to_plane row %d is not p - d*n" % i))
            if not close(mi[i][j], Fraction(float(p[j])) - 2 * ex * n[j], 2 * tol * max(1, nn)):
                out.append(("fn.mirror/formula", "mirror_point_across_plane row %d is not p - 2*d*n" % i))
            if not close(p1[j], pr[i][j], tol) or not close(m1[j], mi[i][j], tol):
                out.append(("fn/stack-is-map", "stacked project/mirror row %d differs from the single call" % i))
    seen = {}
    for k_, m in out:
        seen.setdefault(k_, m)
    return list(seen.items())
